package main

// ACCEPTANCE stream (`-accept N`, written to <out>/accept/, answered by `semadriver C02 accept`).
//
// Histories in which most write batches sit on the boundary of the independent predicate `Acceptable`
// (lean/SemaModel/Compose/AcceptModel.lean): one offending document among valid ones, each kind of type
// mismatch per index kind, blocked nested paths, merged sizes max-1 / max / max+1, repeated and stored ids,
// zero-length data, unknown ids with offending patches, a document broken and repaired inside one update.
//
// Three parties are compared on every batch:
//   real shard       the verdict of Shard.InsertPoints / UpdatePoints / DeletePoints
//   model            Compose.State.step (Lean)                       → the `<out>` part of the answer line
//   specification    `Acceptable` evaluated in Lean                   → the `acc=` part of the answer line
// and, inside this harness, a Go reading of the documentation (aSpec.step) that decides WHERE a batch runs:
// a batch it expects to be refused may crash the real process after the (correct) rejection — known finding,
// goroutines outlive the rolled-back transaction — so it runs in a CHILD process, which replays the accepted
// history on a fresh shard, runs the batch, prints the verdict and, on the file backend, the state afterwards.
// A child that dies before printing a verdict is counted and the batch is dropped; a child that dies after a
// correct rejection is counted (not judged here).  A verdict that contradicts the Go reading is an oracle
// failure with the history as replay.

import (
	"bufio"
	"bytes"
	"encoding/json"
	"fmt"
	"os"
	"os/exec"
	"path/filepath"
	"sort"
	"strconv"
	"strings"
	"time"

	"github.com/google/uuid"
	"github.com/semafind/semadb/models"
	"github.com/semafind/semadb/shard"
	"github.com/vmihailenco/msgpack/v5"
	"verifharness/vh"
)

// ---------------------------------------------------------------------------------- ops

type aItem struct {
	Label  string
	Node   uint64
	Doc    map[string]any
	NoData bool // zero-length Point.Data
}

type aOp struct {
	Kind   string // ainsert aupdate adelete
	Items  []aItem
	Labels []string
}

type aCfg struct {
	Backend string
	Max     int
	Idx     []IdxSpec
}

func (c aCfg) line() string {
	t := []string{"aschema", c.Backend, strconv.Itoa(c.Max), strconv.Itoa(len(c.Idx))}
	for _, ix := range c.Idx {
		t = append(t, ix.Path, ix.Kind)
	}
	return strings.Join(t, " ")
}

func parseACfg(line string) (aCfg, error) {
	ts := strings.Fields(line)
	if len(ts) < 4 || ts[0] != "aschema" {
		return aCfg{}, fmt.Errorf("aschema expected")
	}
	c := aCfg{Backend: ts[1]}
	var err error
	if c.Max, err = strconv.Atoi(ts[2]); err != nil {
		return c, err
	}
	n, err := strconv.Atoi(ts[3])
	if err != nil || len(ts) < 4+2*n {
		return c, fmt.Errorf("aschema: bad count")
	}
	for i := 0; i < n; i++ {
		c.Idx = append(c.Idx, IdxSpec{ts[4+2*i], ts[5+2*i]})
	}
	return c, nil
}

func (o *aOp) line() string {
	var t []string
	switch o.Kind {
	case "ainsert", "aupdate":
		t = append(t, o.Kind, strconv.Itoa(len(o.Items)))
		for _, it := range o.Items {
			t = append(t, it.Label)
			if o.Kind == "ainsert" {
				t = append(t, h64(it.Node))
			}
			if it.NoData {
				t = append(t, "Z")
			} else {
				t = valTokens(it.Doc, t)
			}
		}
	case "adelete":
		t = append(t, "adelete", strconv.Itoa(len(o.Labels)))
		t = append(t, o.Labels...)
	}
	return strings.Join(t, " ")
}

func parseAOp(line string) (*aOp, error) {
	ts := strings.Fields(line)
	if len(ts) < 2 {
		return nil, fmt.Errorf("too short")
	}
	o := &aOp{Kind: ts[0]}
	n, err := strconv.Atoi(ts[1])
	if err != nil {
		return nil, err
	}
	rest := ts[2:]
	switch ts[0] {
	case "ainsert", "aupdate":
		for i := 0; i < n; i++ {
			if len(rest) < 2 {
				return nil, fmt.Errorf("item expected")
			}
			it := aItem{Label: rest[0]}
			rest = rest[1:]
			if ts[0] == "ainsert" {
				if it.Node, err = strconv.ParseUint(rest[0], 16, 64); err != nil {
					return nil, err
				}
				rest = rest[1:]
			}
			if len(rest) > 0 && rest[0] == "Z" {
				it.NoData = true
				rest = rest[1:]
			} else {
				var v any
				if v, rest, err = parseVal(rest); err != nil {
					return nil, err
				}
				m, ok := v.(map[string]any)
				if !ok {
					return nil, fmt.Errorf("document must be a map")
				}
				it.Doc = m
			}
			o.Items = append(o.Items, it)
		}
	case "adelete":
		if len(rest) < n {
			return nil, fmt.Errorf("adelete: bad count")
		}
		o.Labels = append(o.Labels, rest[:n]...)
	default:
		return nil, fmt.Errorf("not an accept op: %q", ts[0])
	}
	return o, nil
}

func (it aItem) data() []byte {
	if it.NoData {
		return nil
	}
	return encodeDoc(it.Doc)
}

// ---------------------------------------------------------------------------------- the documentation, read in Go

// what a JSON document holds at a dotted path: 0 absent (or null), 1 blocked (not an object on the way), 2 value
func jsonAtGo(doc map[string]any, path string) (any, int) {
	var cur any = doc
	for _, seg := range strings.Split(path, ".") {
		m, ok := cur.(map[string]any)
		if !ok {
			return nil, 1
		}
		cur, ok = m[seg]
		if !ok {
			return nil, 0
		}
	}
	if cur == nil {
		return nil, 0
	}
	return cur, 2
}

func hasKindGo(kind string, v any) bool {
	switch kind {
	case "str:cs", "str:ci":
		_, ok := v.(string)
		return ok
	case "arr:cs", "arr:ci":
		a, ok := v.([]any)
		if !ok {
			return false
		}
		for _, x := range a {
			if _, ok := x.(string); !ok {
				return false
			}
		}
		return true
	case "int":
		_, ok := v.(int64)
		return ok
	case "flt":
		_, ok := v.(float64)
		return ok
	}
	return false
}

func conformsGo(idx []IdxSpec, doc map[string]any) bool {
	for _, ix := range idx {
		v, st := jsonAtGo(doc, ix.Path)
		if st == 1 || (st == 2 && !hasKindGo(ix.Kind, v)) {
			return false
		}
	}
	return true
}

type aEntry struct {
	doc    map[string]any
	noData bool
}

type aSpec struct{ m map[string]aEntry }

func (s *aSpec) clone() *aSpec {
	c := &aSpec{m: map[string]aEntry{}}
	for k, v := range s.m {
		c.m[k] = v
	}
	return c
}

func shallowMerge(old, inc map[string]any) map[string]any {
	m := make(map[string]any, len(old)+len(inc))
	for k, v := range old {
		m[k] = v
	}
	for k, v := range inc {
		if s, ok := v.(string); ok && s == shard.DELETEVALUE {
			delete(m, k)
		} else {
			m[k] = deepCopy(v)
		}
	}
	return m
}

type aPred struct {
	accepted bool
	reason   string // canonical reason when refused: dup-in-batch exists too-large bad-old bad-new index
	inTx     bool
	next     *aSpec
	updated  []string
	deleted  []string
	merged   []map[string]any // every merged document of an update (for the `size` lines)
}

func (s *aSpec) step(cfg aCfg, o *aOp) aPred {
	p := aPred{next: s}
	switch o.Kind {
	case "ainsert":
		seen := map[string]bool{}
		for _, it := range o.Items {
			if seen[it.Label] {
				p.reason = "dup-in-batch"
				return p
			}
			seen[it.Label] = true
		}
		p.inTx = true
		for _, it := range o.Items {
			if _, ok := s.m[it.Label]; ok {
				p.reason = "exists"
				return p
			}
		}
		for _, it := range o.Items {
			if !it.NoData && !conformsGo(cfg.Idx, it.Doc) {
				p.reason = "index"
				return p
			}
		}
		n := s.clone()
		for _, it := range o.Items {
			n.m[it.Label] = aEntry{doc: it.Doc, noData: it.NoData}
		}
		p.accepted, p.next = true, n
	case "aupdate":
		p.inTx = true
		n := s.clone()
		dead := map[string]bool{} // ids whose data stopped being a document
		// the store's own checks run entry by entry in the transform function and stop the batch at the first
		// failure; an index complaint (about any entry) may surface first in the real code (goroutine order): the
		// canonical reason is the store's first one, else `index`
		storeReason, illTyped := "", false
		for _, it := range o.Items {
			e, ok := n.m[it.Label]
			if !ok {
				continue
			}
			if e.noData || dead[it.Label] {
				if storeReason == "" {
					storeReason = "bad-old"
				}
				dead[it.Label] = true
				continue
			}
			if it.NoData {
				if storeReason == "" {
					storeReason = "bad-new"
				}
				dead[it.Label] = true
				continue
			}
			m := shallowMerge(e.doc, it.Doc)
			p.merged = append(p.merged, m)
			if len(encodeDoc(m)) > cfg.Max && storeReason == "" {
				storeReason = "too-large"
			}
			if !conformsGo(cfg.Idx, m) {
				illTyped = true
			}
			n.m[it.Label] = aEntry{doc: m}
			p.updated = append(p.updated, it.Label)
		}
		switch {
		case storeReason != "":
			p.reason = storeReason
		case illTyped:
			p.reason = "index"
		default:
			p.accepted, p.next = true, n
		}
	case "adelete":
		n := s.clone()
		seen := map[string]bool{}
		for _, l := range o.Labels {
			if seen[l] {
				continue
			}
			seen[l] = true
			if _, ok := n.m[l]; ok {
				delete(n.m, l)
				p.deleted = append(p.deleted, l)
			}
		}
		sort.Strings(p.deleted)
		p.accepted, p.next = true, n
	}
	return p
}

// ---------------------------------------------------------------------------------- the real shard

func openAccept(cfg aCfg, path string) (*shard.Shard, error) {
	schema := models.IndexSchema{}
	for _, ix := range cfg.Idx {
		v := models.IndexSchemaValue{Type: typeName(ix.Kind)}
		switch ix.Kind {
		case "str:cs", "str:ci":
			v.String = &models.IndexStringParameters{CaseSensitive: ix.Kind == "str:cs"}
		case "arr:cs", "arr:ci":
			v.StringArray = &models.IndexStringArrayParameters{IndexStringParameters: models.IndexStringParameters{CaseSensitive: ix.Kind == "arr:cs"}}
		}
		schema[ix.Path] = v
	}
	col := models.Collection{UserId: "verif", Id: "c02a", Replicas: 1, IndexSchema: schema,
		UserPlan: models.UserPlan{Name: "verif", MaxCollections: 1, MaxCollectionPointCount: 1 << 20, MaxPointSize: cfg.Max}}
	return shard.NewShard(path, col, nil)
}

func aErrKind(err error) string {
	s := err.Error()
	switch {
	case strings.Contains(s, "duplicate point id"):
		return "dup-in-batch"
	case strings.Contains(s, "point already exists"):
		return "exists"
	case strings.Contains(s, "point size exceeds limit"):
		return "too-large"
	case strings.Contains(s, "could not unmarshal old data"):
		return "bad-old"
	case strings.Contains(s, "could not unmarshal new data"):
		return "bad-new"
	case strings.Contains(s, "point count cannot be negative"):
		return "storage"
	case strings.Contains(s, "could not complete"):
		return "index"
	}
	return "other"
}

type aResult struct {
	Out     string // ok | rejected:<kind> | updated:<labels> | deleted:<sorted labels> | timeout | panic
	ErrText string
}

func labelsOf(ids []uuid.UUID) []string {
	ls := make([]string, len(ids))
	for i, u := range ids {
		l, ok := uuidLabel[u]
		if !ok {
			l = "?" + u.String()
		}
		ls[i] = l
	}
	return ls
}

func execAccept(sh *shard.Shard, o *aOp, timeout time.Duration) aResult {
	done := make(chan aResult, 1)
	go func() {
		defer func() {
			if r := recover(); r != nil {
				done <- aResult{Out: "panic", ErrText: fmt.Sprint(r)}
			}
		}()
		switch o.Kind {
		case "ainsert":
			pts := make([]models.Point, len(o.Items))
			for i, it := range o.Items {
				pts[i] = models.Point{Id: labelUUID(it.Label), Data: it.data()}
			}
			if err := sh.InsertPoints(pts); err != nil {
				done <- aResult{"rejected:" + aErrKind(err), err.Error()}
				return
			}
			done <- aResult{Out: "ok"}
		case "aupdate":
			pts := make([]models.Point, len(o.Items))
			for i, it := range o.Items {
				pts[i] = models.Point{Id: labelUUID(it.Label), Data: it.data()}
			}
			ids, err := sh.UpdatePoints(pts)
			if err != nil {
				done <- aResult{"rejected:" + aErrKind(err), err.Error()}
				return
			}
			done <- aResult{Out: "updated:" + strings.Join(labelsOf(ids), ",")}
		case "adelete":
			set := map[uuid.UUID]struct{}{}
			for _, l := range o.Labels {
				set[labelUUID(l)] = struct{}{}
			}
			ids, err := sh.DeletePoints(set)
			if err != nil {
				done <- aResult{"rejected:" + aErrKind(err), err.Error()}
				return
			}
			ls := labelsOf(ids)
			sort.Strings(ls)
			done <- aResult{Out: "deleted:" + strings.Join(ls, ",")}
		}
	}()
	select {
	case r := <-done:
		return r
	case <-time.After(timeout):
		return aResult{Out: "timeout"}
	}
}

func allLabels() []string {
	ls := make([]string, nLabels)
	for i := range ls {
		ls[i] = label(i)
	}
	return ls
}

// the observable state of a shard: every point of the label pool with its document, and every index bucket
func stateText(w *World) string {
	us := make([]string, nLabels)
	for i := range us {
		us[i] = labelUUID(label(i)).String()
	}
	res, err := w.sh.SearchPoints(models.SearchRequest{
		Query:  models.Query{Property: "_id", StringArray: &models.SearchStringArrayOptions{Value: us, Operator: models.OperatorContainsAny}},
		Select: []string{"*"}})
	if err != nil {
		return "error:" + err.Error()
	}
	var parts []string
	w.node, w.labelOf = map[string]uint64{}, map[uint64]string{}
	for _, r := range res {
		l := uuidLabel[r.Point.Id]
		w.node[l], w.labelOf[r.NodeId] = r.NodeId, l
		d := "Z"
		if len(r.Point.Data) > 0 {
			var m map[string]any
			if err := msgpack.Unmarshal(r.Point.Data, &m); err != nil {
				d = "?undecodable"
			} else {
				d = strings.Join(valTokensLoose(m, nil), " ")
			}
		}
		parts = append(parts, l+"="+d)
	}
	sort.Strings(parts)
	s := "pts[" + strings.Join(parts, ";") + "]"
	for _, ix := range w.idx {
		s += " " + ix.Path + "[" + w.dump(ix.Path) + "]"
	}
	return s
}

// valTokens for whatever msgpack decodes (narrow integer types print as integers)
func valTokensLoose(v any, out []string) []string {
	switch x := v.(type) {
	case int8:
		return valTokens(int64(x), out)
	case int16:
		return valTokens(int64(x), out)
	case int32:
		return valTokens(int64(x), out)
	case uint8:
		return valTokens(int64(x), out)
	case uint16:
		return valTokens(int64(x), out)
	case uint32:
		return valTokens(int64(x), out)
	case uint64:
		return valTokens(int64(x), out)
	case float32:
		return valTokens(float64(x), out)
	case []any:
		out = append(out, "A", strconv.Itoa(len(x)))
		for _, e := range x {
			out = valTokensLoose(e, out)
		}
		return out
	case map[string]any:
		out = append(out, "M", strconv.Itoa(len(x)))
		for _, k := range sortedKeys(x) {
			out = append(out, k)
			out = valTokensLoose(x[k], out)
		}
		return out
	}
	return valTokens(v, out)
}

func newAcceptWorld(dir string, cfg aCfg) (*World, error) {
	w := NewWorld(dir)
	path := ""
	if cfg.Backend == "bolt" {
		path = filepath.Join(dir, fmt.Sprintf("accept-%d-%d.bbolt", os.Getpid(), time.Now().UnixNano()))
		os.Remove(path)
	}
	sh, err := openAccept(cfg, path)
	if err != nil {
		return nil, err
	}
	w.sh, w.backend, w.idx = sh, cfg.Backend, cfg.Idx
	w.kind = map[string]string{}
	for _, ix := range cfg.Idx {
		w.kind[ix.Path] = ix.Kind
	}
	w.docs, w.node, w.labelOf = map[string]map[string]any{}, map[string]uint64{}, map[uint64]string{}
	return w, nil
}

// ---------------------------------------------------------------------------------- child: history + one batch

// acceptChild replays the file (aschema line, accepted batches, then the batch under test) on a fresh shard
func acceptChild(path string) {
	b, err := os.ReadFile(path)
	if err != nil {
		fmt.Println("CHILD-ERROR " + err.Error())
		return
	}
	lines := strings.Split(strings.TrimSpace(string(b)), "\n")
	cfg, err := parseACfg(lines[0])
	if err != nil {
		fmt.Println("CHILD-ERROR " + err.Error())
		return
	}
	dir, _ := os.MkdirTemp("", "c02achild")
	defer os.RemoveAll(dir)
	w, err := newAcceptWorld(dir, cfg)
	if err != nil {
		fmt.Println("CHILD-ERROR " + err.Error())
		return
	}
	out := bufio.NewWriter(os.Stdout)
	for i, l := range lines[1:] {
		o, err := parseAOp(l)
		if err != nil {
			fmt.Fprintln(out, "CHILD-ERROR "+err.Error())
			out.Flush()
			os.Exit(0)
		}
		r := execAccept(w.sh, o, 25*time.Second)
		if i < len(lines)-2 {
			if strings.HasPrefix(r.Out, "rejected") || r.Out == "timeout" || r.Out == "panic" {
				fmt.Fprintln(out, "CHILD-ERROR history batch "+strconv.Itoa(i)+" gave "+r.Out+" "+r.ErrText)
				out.Flush()
				os.Exit(0)
			}
			continue
		}
		fmt.Fprintln(out, "VERDICT "+r.Out+"\t"+r.ErrText)
		out.Flush()
		if cfg.Backend == "bolt" && r.Out != "timeout" {
			// a rejected batch must not have changed anything (the rollback itself is C07's subject)
			st := make(chan string, 1)
			go func() { st <- stateText(w) }()
			select {
			case s := <-st:
				fmt.Fprintln(out, "STATE "+s)
				out.Flush()
			case <-time.After(10 * time.Second):
			}
		}
	}
	os.RemoveAll(dir)
	os.Exit(0)
}

type childOutcome struct {
	verdict  string // "" = the child died before a verdict
	errText  string
	state    string
	hasState bool
	crashed  bool // exit status != 0 / killed after the verdict
	childErr string
}

func runAcceptChild(tmp string, lines []string) childOutcome {
	f := filepath.Join(tmp, fmt.Sprintf("achild-%d.txt", time.Now().UnixNano()))
	os.WriteFile(f, []byte(strings.Join(lines, "\n")+"\n"), 0o644)
	defer os.Remove(f)
	cmd := exec.Command(os.Args[0], "-acceptchild", f)
	var buf bytes.Buffer
	cmd.Stdout = &buf
	if err := cmd.Start(); err != nil {
		return childOutcome{childErr: err.Error()}
	}
	done := make(chan error, 1)
	go func() { done <- cmd.Wait() }()
	var werr error
	select {
	case werr = <-done:
	case <-time.After(60 * time.Second):
		cmd.Process.Kill()
		<-done
		werr = fmt.Errorf("timeout")
	}
	oc := childOutcome{crashed: werr != nil}
	for _, l := range strings.Split(buf.String(), "\n") {
		switch {
		case strings.HasPrefix(l, "VERDICT "):
			p := strings.SplitN(strings.TrimPrefix(l, "VERDICT "), "\t", 2)
			oc.verdict = p[0]
			if len(p) > 1 {
				oc.errText = p[1]
			}
		case strings.HasPrefix(l, "STATE "):
			oc.state, oc.hasState = strings.TrimPrefix(l, "STATE "), true
		case strings.HasPrefix(l, "CHILD-ERROR"):
			oc.childErr = l
		}
	}
	return oc
}

// ---------------------------------------------------------------------------------- generator

var aKeys = []string{"other", "k", "title", "zz", "A"}
var aStr = []string{"a", "A", "ab", "aB", "b", "é", "É", "ß", "_delete", "_DELETE", "0", "7", "null", "true", "x y", "ab\xffz", "日本"}

type aGen struct {
	r     *vh.Rng
	cfg   aCfg
	sp    *aSpec
	stats map[string]int
}

func (g *aGen) str() string {
	if g.cfg.Backend == "mem" && g.r.Chance(6) {
		return "" // the memory backend takes the empty key
	}
	if g.r.Chance(20) {
		n := 1 + g.r.Intn(12)
		var sb strings.Builder
		for i := 0; i < n; i++ {
			sb.WriteByte(byte('a' + g.r.Intn(26)))
		}
		return sb.String()
	}
	return vh.Pick(g.r, aStr)
}

func (g *aGen) validFor(kind string) any {
	switch kind {
	case "str:cs", "str:ci":
		return g.str()
	case "arr:cs", "arr:ci":
		n := g.r.Intn(4) // the empty array is a valid string array
		a := make([]any, n)
		for i := range a {
			a[i] = g.str()
		}
		return a
	case "int":
		return vh.Pick(g.r, intPool)
	}
	for {
		f := vh.Pick(g.r, fltPool)
		if f == f {
			return f
		}
	}
}

// a value the index of this kind refuses, with a tag for the distribution
func (g *aGen) illFor(kind string) (any, string) {
	type c struct {
		v   any
		tag string
	}
	var cs []c
	switch kind {
	case "str:cs", "str:ci":
		cs = []c{{int64(5), "int"}, {1.5, "float"}, {true, "bool"}, {[]any{"x"}, "array"}, {map[string]any{"s": "x"}, "object"}, {[]any{}, "empty-array"}}
	case "arr:cs", "arr:ci":
		cs = []c{{"notarray", "string"}, {int64(9), "int"}, {[]any{"ok", int64(1)}, "elem-int"}, {[]any{nil, "ok"}, "elem-null"},
			{[]any{"ok", []any{"in"}}, "elem-array"}, {[]any{2.5}, "elem-float"}, {map[string]any{"0": "x"}, "object"}, {true, "bool"}}
	case "int":
		cs = []c{{3.0, "float-integral"}, {1.5, "float"}, {"7", "string"}, {true, "bool"}, {[]any{int64(1)}, "array"}, {map[string]any{"n": int64(1)}, "object"}}
	default:
		cs = []c{{int64(3), "int"}, {"1.5", "string"}, {false, "bool"}, {[]any{1.5}, "array"}, {map[string]any{"x": 1.5}, "object"}}
	}
	x := vh.Pick(g.r, cs)
	return x.v, "ill:" + strings.SplitN(kind, ":", 2)[0] + ":" + x.tag
}

func setPath(doc map[string]any, path string, v any) {
	segs := strings.Split(path, ".")
	cur := doc
	for _, s := range segs[:len(segs)-1] {
		m, ok := cur[s].(map[string]any)
		if !ok {
			m = map[string]any{}
			cur[s] = m
		}
		cur = m
	}
	cur[segs[len(segs)-1]] = v
}

func (g *aGen) extra(depth int) any {
	switch x := g.r.Intn(10); {
	case x < 3:
		return g.str()
	case x < 5:
		return vh.Pick(g.r, intPool)
	case x < 6:
		return 2.5
	case x < 7:
		return g.r.Bool()
	case x < 8:
		return nil
	case x < 9 || depth > 0:
		return []any{int64(1), "x", nil}
	}
	return map[string]any{"in": g.extra(depth + 1), "s": int64(4)}
}

// a document every index accepts: each indexed path present with 55 %, sometimes an explicit null, free extra fields
func (g *aGen) validDoc() map[string]any {
	doc := map[string]any{}
	if g.r.Chance(8) {
		return doc
	}
	for _, ix := range g.cfg.Idx {
		switch {
		case g.r.Chance(55):
			setPath(doc, ix.Path, g.validFor(ix.Kind))
		case g.r.Chance(6) && !strings.Contains(ix.Path, "."):
			doc[ix.Path] = nil // an explicit null counts as "field absent"
		}
	}
	for i := g.r.Intn(3); i > 0; i-- {
		doc[vh.Pick(g.r, aKeys)] = g.extra(0)
	}
	return doc
}

// spoil makes exactly one indexed path of the document unacceptable and says how
func (g *aGen) spoil(doc map[string]any) string {
	ix := vh.Pick(g.r, g.cfg.Idx)
	segs := strings.Split(ix.Path, ".")
	if len(segs) > 1 && g.r.Chance(35) {
		// block the path: something that is not an object on the way
		cut := 1 + g.r.Intn(len(segs)-1)
		blocker := vh.Pick(g.r, []any{int64(1), "str", []any{}, []any{map[string]any{segs[cut]: "x"}}, true, 1.5})
		if cut > 1 || g.r.Bool() {
			blocker2 := blocker
			if g.r.Chance(30) {
				blocker2 = nil // null in the MIDDLE of a path blocks it (null at the END is "absent")
			}
			blocker = blocker2
		}
		setPath(doc, strings.Join(segs[:cut], "."), blocker)
		if blocker == nil {
			return "blocked:null"
		}
		return fmt.Sprintf("blocked:%T", blocker)
	}
	v, tag := g.illFor(ix.Kind)
	setPath(doc, ix.Path, v)
	return tag
}

func (g *aGen) live() (live, dead []string) {
	for _, l := range allLabels() {
		if _, ok := g.sp.m[l]; ok {
			live = append(live, l)
		} else {
			dead = append(dead, l)
		}
	}
	return
}

func (g *aGen) padTo(cur, inc map[string]any, target int) bool {
	for _, k := range []string{"pad"} {
		inc[k] = ""
		base := len(encodeDoc(shallowMerge(cur, inc)))
		need := target - base
		if need < 0 {
			delete(inc, k)
			return false
		}
		for adj := 0; adj <= 4; adj++ {
			if need-adj < 0 {
				continue
			}
			inc[k] = strings.Repeat("p", need-adj)
			if len(encodeDoc(shallowMerge(cur, inc))) == target {
				return true
			}
		}
		delete(inc, k)
	}
	return false
}

func (g *aGen) tag(t string) { g.stats[t]++ }

func (g *aGen) genOp() *aOp {
	live, dead := g.live()
	r := g.r
	x := r.Intn(100)
	switch {
	case len(live) < 2 && x < 80, x < 38:
		// ------------------------------------------------------------ insert
		n := 1 + r.Intn(4)
		var items []aItem
		for i := 0; i < n && len(dead) > 0; i++ {
			j := r.Intn(len(dead))
			it := aItem{Label: dead[j], Doc: g.validDoc()}
			dead = append(dead[:j:j], dead[j+1:]...)
			if r.Chance(4) {
				it = aItem{Label: it.Label, NoData: true}
			}
			items = append(items, it)
		}
		if len(items) == 0 {
			return &aOp{Kind: "adelete", Labels: []string{vh.Pick(r, live)}}
		}
		m := r.Intn(100)
		if m >= 30 && m < 94 && r.Chance(25) {
			items = items[:1] // the offence alone in its batch (a check that counts the batch would miss it)
			if m >= 76 && m < 94 {
				items = nil
			}
		}
		switch {
		case m < 30:
			g.tag("insert:clean")
		case m < 66:
			k := r.Intn(len(items))
			if items[k].NoData {
				items[k] = aItem{Label: items[k].Label, Doc: map[string]any{}}
			}
			g.tag("insert:" + g.spoil(items[k].Doc))
		case m < 76:
			if len(items) == 0 {
				items = []aItem{{Label: vh.Pick(r, allLabels()), Doc: g.validDoc()}}
			}
			d := items[r.Intn(len(items))]
			d.Doc, d.NoData = g.validDoc(), false
			j := r.Intn(len(items) + 1)
			items = append(items[:j:j], append([]aItem{d}, items[j:]...)...)
			g.tag("insert:repeated-id")
		case m < 88 && len(live) > 0:
			it := aItem{Label: vh.Pick(r, live), Doc: g.validDoc()}
			j := r.Intn(len(items) + 1)
			items = append(items[:j:j], append([]aItem{it}, items[j:]...)...)
			g.tag("insert:stored-id")
		case m < 94 && len(live) > 0:
			it := aItem{Label: vh.Pick(r, live), Doc: g.validDoc()}
			items = append(items, it)
			k := r.Intn(len(items))
			if !items[k].NoData {
				g.spoil(items[k].Doc)
			}
			g.tag("insert:stored-id+ill")
		default:
			g.tag("insert:clean")
		}
		if len(items) == 0 {
			items = []aItem{{Label: vh.Pick(r, allLabels()), Doc: g.validDoc()}}
		}
		return &aOp{Kind: "ainsert", Items: items}
	case x < 82:
		// ------------------------------------------------------------ update
		work := g.sp.clone()
		curOf := func(l string) map[string]any {
			if e, ok := work.m[l]; ok && !e.noData {
				return e.doc
			}
			return nil
		}
		apply := func(it aItem) {
			if c := curOf(it.Label); c != nil && !it.NoData {
				work.m[it.Label] = aEntry{doc: shallowMerge(c, it.Doc)}
			}
		}
		patch := func() map[string]any {
			inc := map[string]any{}
			for i := 1 + r.Intn(3); i > 0; i-- {
				switch {
				case r.Chance(55):
					ix := vh.Pick(r, g.cfg.Idx)
					top := strings.Split(ix.Path, ".")[0]
					if r.Chance(25) {
						inc[top] = shard.DELETEVALUE
					} else if _, isMap := inc[top].(map[string]any); isMap || inc[top] == nil {
						if inc[top] == nil {
							delete(inc, top)
						}
						setPath(inc, ix.Path, g.validFor(ix.Kind))
					}
				default:
					k := vh.Pick(r, aKeys)
					if r.Chance(25) {
						inc[k] = shard.DELETEVALUE
					} else {
						inc[k] = g.extra(0)
					}
				}
			}
			return inc
		}
		var items []aItem
		n := 1 + r.Intn(3)
		for i := 0; i < n; i++ {
			l := vh.Pick(r, allLabels())
			if len(live) > 0 && r.Chance(75) {
				l = vh.Pick(r, live)
			}
			it := aItem{Label: l, Doc: patch()}
			items = append(items, it)
			apply(it)
		}
		switch m := r.Intn(100); {
		case m < 22:
			g.tag("update:clean")
		case m < 48 && len(live) > 0:
			// an offending patch for a stored id, among valid ones
			it := aItem{Label: vh.Pick(r, live), Doc: map[string]any{}}
			t := g.spoil(it.Doc)
			j := r.Intn(len(items) + 1)
			items = append(items[:j:j], append([]aItem{it}, items[j:]...)...)
			g.tag("update:" + t)
		case m < 56 && len(dead) > 0:
			// the same offence addressed to an UNKNOWN id: skipped, the batch stays acceptable
			it := aItem{Label: vh.Pick(r, dead), Doc: map[string]any{}}
			g.spoil(it.Doc)
			items = append(items, it)
			g.tag("update:ill-for-unknown-id")
		case m < 64 && len(live) > 0:
			// broken by one entry, repaired by a later one: the intermediate document is written too
			l := vh.Pick(r, live)
			bad := aItem{Label: l, Doc: map[string]any{}}
			g.spoil(bad.Doc)
			fix := aItem{Label: l, Doc: map[string]any{}}
			for k := range bad.Doc {
				fix.Doc[k] = shard.DELETEVALUE
			}
			items = append(items, bad, fix)
			g.tag("update:broken-then-repaired")
		case m < 90 && len(live) > 0:
			// merged size on the boundary of MaxPointSize
			work2 := g.sp.clone()
			for _, it := range items {
				if e, ok := work2.m[it.Label]; ok && !e.noData && !it.NoData {
					work2.m[it.Label] = aEntry{doc: shallowMerge(e.doc, it.Doc)}
				}
			}
			l := vh.Pick(r, live)
			if e, ok := work2.m[l]; ok && !e.noData {
				d := r.Intn(3) - 1
				it := aItem{Label: l, Doc: map[string]any{}}
				if g.padTo(e.doc, it.Doc, g.cfg.Max+d) {
					items = append(items, it)
					g.tag(fmt.Sprintf("update:size=max%+d", d))
				} else {
					g.tag("update:clean")
				}
			}
		case m < 94 && len(live) > 0:
			items = append(items, aItem{Label: vh.Pick(r, live), NoData: true})
			g.tag("update:zero-length-patch")
		default:
			g.tag("update:clean")
		}
		return &aOp{Kind: "aupdate", Items: items}
	default:
		// ------------------------------------------------------------ delete
		var ls []string
		for i := 1 + r.Intn(3); i > 0; i-- {
			switch {
			case len(live) > 0 && r.Chance(60):
				ls = append(ls, vh.Pick(r, live))
			case len(ls) > 0 && r.Chance(30):
				ls = append(ls, ls[r.Intn(len(ls))])
			default:
				ls = append(ls, vh.Pick(r, allLabels()))
			}
		}
		g.tag("delete")
		return &aOp{Kind: "adelete", Labels: ls}
	}
}

// ---------------------------------------------------------------------------------- the run

type recLine struct {
	Kind string `json:"k"`
	Op   string `json:"o"`
	Impl string `json:"i"`
	NT   bool   `json:"n"`
}

type failRec struct {
	Sig    string `json:"sig"`
	What   string `json:"what"`
	Replay string `json:"replay"`
}

// one history runs in its own worker process (a batch the live shard refuses unexpectedly may take the
// process down — the known finding): the worker collects its lines and hands them over at the end; an oracle
// failure is written to disk at once, so that it survives the worker
type acceptRun struct {
	tmp      string
	failPath string
	Lines    []recLine      `json:"lines"`
	Fails    []failRec      `json:"fails"`
	Counts   map[string]int `json:"counts"`
	Tags     map[string]int `json:"tags"`
	sigs     map[string]bool
}

type aEmitter struct{ a *acceptRun }

func (e aEmitter) Emit(kind, op, impl string, nt bool) {
	e.a.Lines = append(e.a.Lines, recLine{kind, op, impl, nt})
}

func (a *acceptRun) fail(sig, what string, replay []string) {
	if a.sigs[sig] {
		return
	}
	a.sigs[sig] = true
	f := failRec{sig, what, strings.Join(replay, "\n")}
	a.Fails = append(a.Fails, f)
	if a.failPath != "" {
		if fh, err := os.OpenFile(a.failPath, os.O_APPEND|os.O_CREATE|os.O_WRONLY, 0o644); err == nil {
			b, _ := json.Marshal(f)
			fh.Write(append(b, '\n'))
			fh.Sync()
			fh.Close()
		}
	}
}

func (a *acceptRun) history(r *vh.Rng, h, batches int) {
	o := aEmitter{a}
	cfg := aCfg{Backend: "bolt", Max: vh.Pick(r, []int{96, 200, 1000})}
	if h%4 == 3 {
		cfg.Backend = "mem"
	}
	ci := func() string {
		if r.Bool() {
			return ":ci"
		}
		return ":cs"
	}
	all := []IdxSpec{{"s", "str" + ci()}, {"tags", "arr" + ci()}, {"n", "int"}, {"x", "flt"},
		{"nest.s", "str" + ci()}, {"nest.n", "int"}, {"nest.deep.x", "flt"}, {"nest.tags", "arr" + ci()}}
	for _, ix := range all {
		if r.Chance(70) {
			cfg.Idx = append(cfg.Idx, ix)
		}
	}
	if len(cfg.Idx) == 0 {
		cfg.Idx = all[:3]
	}
	w, err := newAcceptWorld(a.tmp, cfg)
	if err != nil {
		panic(err)
	}
	defer w.Close()
	g := &aGen{r: r, cfg: cfg, sp: &aSpec{m: map[string]aEntry{}}, stats: a.Tags}
	o.Emit("aschema", cfg.line(), "ok", false)
	hist := []string{cfg.line()} // accepted batches only: what a child replays
	seenLower := map[string]bool{}
	for b := 0; b < batches; b++ {
		op := g.genOp()
		pred := g.sp.step(cfg, op)
		// strings.ToLower is abstract in the model: tell the driver its graph
		var ss []string
		for _, it := range op.Items {
			collectStrings(it.Doc, &ss)
		}
		for _, s := range ss {
			if !seenLower[s] {
				seenLower[s] = true
				if l := strings.ToLower(s); l != s {
					o.Emit("lower", (&Op{Kind: "lower", Raw: s, Low: l}).Line(), "ok", false)
				}
			}
		}
		// the msgpack length of every merged document (Cfg.size is abstract in the model)
		for _, m := range pred.merged {
			o.Emit("size", "size "+strconv.Itoa(len(encodeDoc(m)))+" "+strings.Join(valTokens(m, nil), " "), "ok", false)
		}
		var res aResult
		inChild := !pred.accepted
		if inChild {
			a.Counts["batches-run-in-child"]++
			oc := runAcceptChild(a.tmp, append(append([]string{}, hist...), op.line()))
			if oc.verdict == "" {
				a.Counts["child-died-before-verdict"]++
				if oc.childErr != "" {
					a.Counts["child-error"]++
					a.fail("accept:child-error", "the child could not replay the accepted history: "+oc.childErr, append(append([]string{}, hist...), op.line()))
				}
				continue // dropped: nothing was learnt about this batch
			}
			if oc.crashed {
				a.Counts["child-crashed-after-verdict(known finding, not judged)"]++
			}
			res = aResult{Out: oc.verdict, ErrText: oc.errText}
			if oc.hasState && strings.HasPrefix(oc.verdict, "rejected") {
				a.Counts["rejected-batch-state-compared"]++
				if mine := stateText(w); mine != oc.state {
					a.fail("accept:rejected-batch-changed-state:"+op.Kind,
						"after a rejected batch the shard no longer shows the state before it: before "+mine+" after "+oc.state,
						append(append([]string{}, hist...), op.line()))
				}
			}
		} else {
			res = execAccept(w.sh, op, 30*time.Second)
		}
		realAcc := !(strings.HasPrefix(res.Out, "rejected") || res.Out == "timeout" || res.Out == "panic")
		out := res.Out
		if !realAcc && strings.HasPrefix(out, "rejected:") {
			// both a store-level and an index-level reason: which one surfaces depends on goroutine order
			real := strings.TrimPrefix(out, "rejected:")
			if real == "index" && pred.reason != "" && pred.reason != "index" {
				out = "rejected:" + pred.reason
				a.Counts["reason-canonicalised"]++
			}
		}
		if realAcc && op.Kind == "ainsert" {
			ls := make([]string, len(op.Items))
			for i, it := range op.Items {
				ls[i] = it.Label
			}
			w.learnNodes(ls)
			for i := range op.Items {
				op.Items[i].Node = w.node[op.Items[i].Label]
			}
		}
		kind := op.Kind + ":" + strings.SplitN(out, ":", 2)[0]
		if !realAcc {
			kind = op.Kind + ":" + out
		}
		o.Emit(kind, op.line(), out+" acc="+vh.B01(realAcc), true)
		if realAcc != pred.accepted {
			a.fail(fmt.Sprintf("accept:%s:doc=%s:impl=%s", op.Kind, vh.B01(pred.accepted), vh.B01(realAcc)),
				fmt.Sprintf("the documentation (read in Go) says acceptable=%v (reason %q), the shard answers %s %s", pred.accepted, pred.reason, res.Out, res.ErrText),
				append(append([]string{}, hist...), op.line()))
			a.Counts["verdict-disagreements"]++
			return // the real state is no longer the specified one: end of this history
		}
		if realAcc {
			g.sp = pred.next
			hist = append(hist, op.line())
			if op.Kind == "adelete" {
				for _, l := range op.Labels {
					if id, ok := w.node[l]; ok {
						delete(w.labelOf, id)
						delete(w.node, l)
					}
				}
			}
			a.Counts["accepted"]++
		} else {
			a.Counts["rejected"]++
		}
		// the state after the batch (for a rejected batch: unchanged), through the model's own read paths
		o.Emit("search:_id:idany", "search idany "+strconv.Itoa(nLabels)+" "+strings.Join(allLabels(), " "), w.searchRaw(&Q{Kind: "idany", Labels: allLabels()}), false)
		for _, ix := range cfg.Idx {
			ans := w.dump(ix.Path)
			o.Emit("dump", "dump "+ix.Path, ans, ans != "-")
		}
	}
}

// ---------------------------------------------------------------------------------- pinned assumptions

type probe struct {
	Name     string `json:"name"`
	What     string `json:"what"`
	Expected string `json:"expected"`
	Observed string `json:"observed"`
	Holds    bool   `json:"holds"`
}

// acceptProbe runs in its own process (one fresh shard per probe): behaviour of the real code that the model
// does NOT reproduce and the property modules list as assumptions.  The outcome is compared with the pinned one.
func acceptProbe(name string) {
	dir, _ := os.MkdirTemp("", "c02aprobe")
	defer os.RemoveAll(dir)
	n := 0
	mk := func(schema models.IndexSchema, file bool) *shard.Shard {
		n++
		col := models.Collection{UserId: "verif", Id: "c02p", Replicas: 1, IndexSchema: schema,
			UserPlan: models.UserPlan{Name: "verif", MaxCollections: 1, MaxCollectionPointCount: 1 << 20, MaxPointSize: 1 << 20}}
		p := ""
		if file {
			p = filepath.Join(dir, fmt.Sprintf("p%d.bbolt", n))
		}
		sh, err := shard.NewShard(p, col, nil)
		if err != nil {
			panic(err)
		}
		return sh
	}
	u := func(i int) uuid.UUID { return labelUUID(label(i)) }
	ins := func(sh *shard.Shard, id uuid.UUID, doc map[string]any) string {
		done := make(chan string, 1)
		go func() {
			if err := sh.InsertPoints([]models.Point{{Id: id, Data: encodeDoc(doc)}}); err != nil {
				done <- "rejected"
			} else {
				done <- "ok"
			}
		}()
		select {
		case r := <-done:
			return r
		case <-time.After(15 * time.Second):
			return "timeout"
		}
	}
	find := func(sh *shard.Shard, prop, v string) string {
		res, err := sh.SearchPoints(models.SearchRequest{Query: models.Query{Property: prop, String: &models.SearchStringOptions{Value: v, Operator: models.OperatorEquals}}})
		if err != nil {
			return "error"
		}
		return strconv.Itoa(len(res))
	}
	str := func(cs bool) models.IndexSchemaValue {
		return models.IndexSchemaValue{Type: models.IndexTypeString, String: &models.IndexStringParameters{CaseSensitive: cs}}
	}
	intIx := models.IndexSchemaValue{Type: models.IndexTypeInteger}
	fltIx := models.IndexSchemaValue{Type: models.IndexTypeFloat}
	out := ""
	switch name {
	case "path-array-index":
		sh := mk(models.IndexSchema{"tags.0": str(true)}, false)
		out = ins(sh, u(1), map[string]any{"tags": []any{"x", "y"}}) + " find(x)=" + find(sh, "tags.0", "x") + " find(y)=" + find(sh, "tags.0", "y") +
			" empty-array:" + ins(sh, u(2), map[string]any{"tags": []any{}}) + " object-key-0:" + ins(sh, u(3), map[string]any{"tags": map[string]any{"0": "z"}}) + " find(z)=" + find(sh, "tags.0", "z")
	case "path-array-star":
		sh := mk(models.IndexSchema{"a.*": str(true)}, false)
		out = ins(sh, u(1), map[string]any{"a": []any{"x", "y"}}) + " find(x)=" + find(sh, "a.*", "x") + " find(y)=" + find(sh, "a.*", "y")
	case "path-array-name":
		sh := mk(models.IndexSchema{"a.b": str(true)}, true)
		out = ins(sh, u(1), map[string]any{"a": []any{map[string]any{"b": "x"}}})
	case "path-empty-segment":
		sh := mk(models.IndexSchema{"a..b": str(true)}, false)
		out = ins(sh, u(1), map[string]any{"a": "x"}) + " find(x)=" + find(sh, "a..b", "x")
	case "path-empty-name":
		sh := mk(models.IndexSchema{"": str(true)}, true)
		out = ins(sh, u(1), map[string]any{"": "x"})
	case "int-narrow-encoding":
		sh := mk(models.IndexSchema{"n": intIx}, true)
		out = "int64:" + ins(sh, u(1), map[string]any{"n": int64(5)})
		sh2 := mk(models.IndexSchema{"n": intIx}, true)
		out += " int8:" + ins(sh2, u(2), map[string]any{"n": int8(5)})
	case "int-uint64":
		sh := mk(models.IndexSchema{"n": intIx}, true)
		out = ins(sh, u(1), map[string]any{"n": uint64(5)})
	case "float-float32":
		sh := mk(models.IndexSchema{"f": fltIx}, true)
		out = ins(sh, u(1), map[string]any{"f": float32(3)})
	case "empty-indexed-string-bolt":
		sh := mk(models.IndexSchema{"s": str(true)}, true)
		out = ins(sh, u(1), map[string]any{"s": ""})
	case "empty-indexed-string-mem":
		sh := mk(models.IndexSchema{"s": str(true)}, false)
		out = ins(sh, u(1), map[string]any{"s": ""}) + " find()=" + find(sh, "s", "")
	case "vector-dimension-shard":
		flat := models.IndexSchemaValue{Type: models.IndexTypeVectorFlat, VectorFlat: &models.IndexVectorFlatParameters{VectorSize: 2, DistanceMetric: models.DistanceEuclidean}}
		sh := mk(models.IndexSchema{"v": flat}, true)
		out = "dim2:" + ins(sh, u(1), map[string]any{"v": []any{float32(1), float32(2)}}) + " dim3:" + ins(sh, u(2), map[string]any{"v": []any{float32(1), float32(2), float32(3)}})
		// NB an EMPTY array under a vector index takes the process down at the shard API (conversion.float32ToBytesRaw
		// indexes element 0 in an index goroutine; CheckCompatibleMap refuses it one layer up): not probed, see notes/Accept.md
		sh2 := mk(models.IndexSchema{"v": flat}, true)
		out += " float64-elems:" + ins(sh2, u(4), map[string]any{"v": []any{1.0, 2.0}})
		sh3 := mk(models.IndexSchema{"t": models.IndexSchemaValue{Type: models.IndexTypeText, Text: &models.IndexTextParameters{Analyser: "standard"}}}, true)
		out += " text<-int:" + ins(sh3, u(5), map[string]any{"t": int64(5)})
	case "id-canonical-forms":
		sh := mk(models.IndexSchema{}, false)
		id := uuid.MustParse("abcdefab-1111-4111-8111-000000000001")
		out = ins(sh, id, map[string]any{"k": "v"})
		for _, s := range []string{"abcdefab-1111-4111-8111-000000000001", "ABCDEFAB-1111-4111-8111-000000000001", "urn:uuid:abcdefab-1111-4111-8111-000000000001",
			"{abcdefab-1111-4111-8111-000000000001}", "abcdefab111141118111000000000001", "junk", ""} {
			out += " " + find(sh, "_id", s)
		}
	case "api-check-compatible-map":
		is := models.IndexSchema{"n": intIx}
		fs := models.IndexSchema{"f": fltIx}
		chk := func(s models.IndexSchema, k string, v any) string {
			m := models.PointAsMap{k: v}
			if err := s.CheckCompatibleMap(m); err != nil {
				return "refused"
			}
			return fmt.Sprintf("%T(%v)", m[k], m[k])
		}
		out = "int<-3.0:" + chk(is, "n", float64(3)) + " int<-3.7:" + chk(is, "n", 3.7) + " int<-int8:" + chk(is, "n", int8(3)) + " int<-null:" + chk(is, "n", nil) +
			" int<-_delete:" + chk(is, "n", "_delete") + " flt<-int64:" + chk(fs, "f", int64(3)) + " flt<-float32:" + chk(fs, "f", float32(3)) +
			" array-on-path:" + chk(models.IndexSchema{"tags.0": str(true)}, "tags", []any{"x"})
	default:
		out = "unknown-probe"
	}
	fmt.Println("PROBE " + out)
	os.Stdout.Sync()
	os.RemoveAll(dir)
	os.Exit(0)
}

var acceptProbes = []probe{
	{Name: "path-array-index", What: "schema property `tags.0` (string): msgpack's Decoder.Query treats a numeric segment as an ARRAY INDEX; the model and the specification treat an array on the way as blocking the path (the API layer refuses it too)",
		Expected: "ok find(x)=1 find(y)=0 empty-array:ok object-key-0:ok find(z)=1"},
	{Name: "path-array-star", What: "schema property `a.*`: `*` selects every element, the index takes the first", Expected: "ok find(x)=1 find(y)=0"},
	{Name: "path-array-name", What: "schema property `a.b` on {a:[{b:x}]}: a non-numeric segment on an array is an error (as in the model)", Expected: "rejected"},
	{Name: "path-empty-segment", What: "schema property `a..b`: an empty segment ENDS the path (`a..b` reads `a`); the model looks up the key \"\"", Expected: "ok find(x)=1"},
	{Name: "path-empty-name", What: "schema property `` (empty name): the path is the whole document, every typed index refuses every document", Expected: "rejected"},
	{Name: "int-narrow-encoding", What: "integer index: an msgpack int64 is taken, the same number encoded as int8 is refused (`.int` of the model is int64; the API layer always writes int64)", Expected: "int64:ok int8:rejected"},
	{Name: "int-uint64", What: "integer index: an msgpack uint64 is refused", Expected: "rejected"},
	{Name: "float-float32", What: "float index: an msgpack float32 is refused (`.flt` of the model is float64)", Expected: "rejected"},
	{Name: "empty-indexed-string-bolt", What: "DESIGN 8 no. 14: an indexed \"\" on the file backend is refused (bbolt: key required) although it is a string", Expected: "rejected"},
	{Name: "empty-indexed-string-mem", What: "… and taken on the memory backend", Expected: "ok find()=1"},
	{Name: "vector-dimension-shard", What: "vectorFlat index of dimension 2 at the shard API: the vector cast (`env.vec` of the model) wants an array of msgpack float32; the LENGTH is not checked by the shard (CheckCompatibleMap does, one layer up); a text index wants a string",
		Expected: "dim2:ok dim3:ok float64-elems:rejected text<-int:rejected"},
	{Name: "id-canonical-forms", What: "`_id` queries parse the id with uuid.Parse: upper case, urn:uuid:, braces and the 32-digit form name the same point; anything else fails the whole search. Ids are opaque in the model: it stands for the PARSED uuid, the harness sends canonical text only",
		Expected: "ok 1 1 1 1 1 error error"},
	{Name: "api-check-compatible-map", What: "one layer up (models.IndexSchema.CheckCompatibleMap, before encoding): numbers for an integer index are converted (3.7 → 3!), an explicit null or \"_delete\" under an integer index is refused there, integers for a float index are refused, arrays on a path are refused",
		Expected: "int<-3.0:int64(3) int<-3.7:int64(3) int<-int8:refused int<-null:refused int<-_delete:refused flt<-int64:refused flt<-float32:float64(3) array-on-path:refused"},
}

func runProbes() []probe {
	out := make([]probe, len(acceptProbes))
	for i, p := range acceptProbes {
		cmd := exec.Command(os.Args[0], "-acceptprobe", p.Name)
		var buf bytes.Buffer
		cmd.Stdout = &buf
		done := make(chan error, 1)
		if err := cmd.Start(); err == nil {
			go func() { done <- cmd.Wait() }()
			select {
			case <-done:
			case <-time.After(60 * time.Second):
				cmd.Process.Kill()
				<-done
			}
		}
		p.Observed = "no-answer"
		for _, l := range strings.Split(buf.String(), "\n") {
			if strings.HasPrefix(l, "PROBE ") {
				p.Observed = strings.TrimPrefix(l, "PROBE ")
			}
		}
		p.Holds = p.Observed == p.Expected
		out[i] = p
	}
	return out
}

// acceptWorker: one history, results as JSON
func acceptWorker(seed uint64, h, batches int, outPath string) {
	tmp, err := os.MkdirTemp("", "c02aw")
	if err != nil {
		os.Exit(3)
	}
	a := &acceptRun{tmp: tmp, failPath: outPath + ".fail", Counts: map[string]int{}, Tags: map[string]int{}, sigs: map[string]bool{}}
	r := vh.NewRng(mixSeed(seed^0x616363657074) + uint64(h)*0x9E3779B97F4A7C15)
	a.history(r, h, batches)
	b, _ := json.Marshal(a)
	os.WriteFile(outPath, b, 0o644)
	os.RemoveAll(tmp)
	os.Exit(0) // do not wait for stray goroutines
}

func runAccept(seed uint64, dir, tmp string, histories, batches int, main *vh.Out) {
	o := vh.NewOut(filepath.Join(dir, "accept"))
	counts, tags, sigs := map[string]int{}, map[string]int{}, map[string]bool{}
	addFail := func(f failRec) {
		if !sigs[f.Sig] {
			sigs[f.Sig] = true
			main.Fail(f.Sig, f.What, f.Replay)
		}
	}
	for h := 0; h < histories; h++ {
		out := filepath.Join(tmp, fmt.Sprintf("aw-%d.json", h))
		cmd := exec.Command(os.Args[0], "-acceptworker", out, "-seed", strconv.FormatUint(seed, 10), "-accepth", strconv.Itoa(h), "-acceptbatches", strconv.Itoa(batches))
		cmd.Env = append(os.Environ(), "TMPDIR="+tmp)
		done := make(chan error, 1)
		if err := cmd.Start(); err != nil {
			counts["worker-could-not-start"]++
			continue
		}
		go func() { done <- cmd.Wait() }()
		select {
		case <-done:
		case <-time.After(10 * time.Minute):
			cmd.Process.Kill()
			<-done
		}
		var a acceptRun
		if b, err := os.ReadFile(out); err == nil && json.Unmarshal(b, &a) == nil {
			for _, l := range a.Lines {
				o.Emit(l.Kind, l.Op, l.Impl, l.NT)
			}
			for k, v := range a.Counts {
				counts[k] += v
			}
			for k, v := range a.Tags {
				tags[k] += v
			}
			for _, f := range a.Fails {
				addFail(f)
			}
		} else {
			// the worker died: its lines are lost (nothing is compared), an oracle failure it found is not
			counts["worker-died(history dropped)"]++
			if b, err := os.ReadFile(out + ".fail"); err == nil {
				for _, l := range strings.Split(string(b), "\n") {
					var f failRec
					if json.Unmarshal([]byte(l), &f) == nil && f.Sig != "" {
						addFail(f)
					}
				}
			}
		}
		os.Remove(out)
		os.Remove(out + ".fail")
	}
	probes := runProbes()
	var drift []probe
	for _, p := range probes {
		if !p.Holds {
			drift = append(drift, p)
		}
	}
	o.Close(map[string]any{
		"rule":             "distinct write batches of the acceptance stream (each compared on result and on acceptance)",
		"counts":           counts,
		"boundary_classes": tags,
		"assumptions":      probes,
		"assumption_drift": drift,
	})
}

// replay of accept lines in-process (a rejected batch may take the process down: that is the known finding)
type areplay struct {
	w   *World
	cfg aCfg
	dir string
}

func (ar *areplay) line(line string) string {
	switch {
	case strings.HasPrefix(line, "aschema "):
		cfg, err := parseACfg(line)
		if err != nil {
			return "bad-op"
		}
		if ar.w != nil {
			ar.w.Close()
		}
		w, err := newAcceptWorld(ar.dir, cfg)
		if err != nil {
			return "error:" + err.Error()
		}
		ar.w, ar.cfg = w, cfg
		return "ok"
	case strings.HasPrefix(line, "size "), strings.HasPrefix(line, "lower "):
		return "ok"
	}
	if ar.w == nil {
		return "bad-op"
	}
	if strings.HasPrefix(line, "search ") || strings.HasPrefix(line, "dump ") {
		op, err := parseOp(line)
		if err != nil {
			return "bad-op"
		}
		if op.Kind == "dump" {
			return ar.w.dump(op.Path)
		}
		return ar.w.searchRaw(op.Q)
	}
	o, err := parseAOp(line)
	if err != nil {
		return "bad-op"
	}
	res := execAccept(ar.w.sh, o, 30*time.Second)
	acc := !(strings.HasPrefix(res.Out, "rejected") || res.Out == "timeout" || res.Out == "panic")
	if acc {
		stateText(ar.w) // refresh the node id ↔ label table for the dumps
	}
	s := res.Out + " acc=" + vh.B01(acc)
	if res.ErrText != "" {
		s += "   # " + res.ErrText
	}
	return s
}
