package main

// Compose mode (-searchx N): the same histories are also written to <out>/compose/{ops,impl}.txt, with
// N additional `searchx` lines after every batch: full SearchPoints requests (filter query + select +
// sort + offset + limit) answered by the real shard. The Lean driver of the COMBINED model
// (`semadriver C02 compose`, lean/SemaModel/Compose/Driver.lean: C01's point store, C02's indexes driven by
// the change stream, C06's select / sort / paging) answers every line of that file: writes (allocating
// the node ids itself), searches, bucket dumps and `searchx`.
//
//   searchx <nsel> {<path>} <nsort> {<path> asc|desc} <off> <lim> <query>
//     no sort keys → rows:<label>=<doc>;…               in answer order (ascending node id)
//     sort keys    → keys:<k>|<k>;… set:<label>=<doc>;… the sort-key tuples in answer order (ties come in
//                    any order, slices.SortFunc is unstable), then the rows as a sorted set when the
//                    request has offset 0 and limit 0, else `-`

import (
	"fmt"
	"math"
	"sort"
	"strconv"
	"strings"

	"github.com/semafind/semadb/models"
	"github.com/vmihailenco/msgpack/v5"
	"verifharness/vh"
)

type XSort struct {
	Path string
	Desc bool
}

type XReq struct {
	Select   []string
	Sort     []XSort
	Off, Lim int
	Q        *Q
}

func (x *XReq) Line() string {
	t := []string{"searchx", strconv.Itoa(len(x.Select))}
	t = append(t, x.Select...)
	t = append(t, strconv.Itoa(len(x.Sort)))
	for _, s := range x.Sort {
		d := "asc"
		if s.Desc {
			d = "desc"
		}
		t = append(t, s.Path, d)
	}
	t = append(t, strconv.Itoa(x.Off), strconv.Itoa(x.Lim))
	t = x.Q.tokens(t)
	return strings.Join(t, " ")
}

func parseXReq(line string) (*XReq, error) {
	ts := strings.Fields(line)
	if len(ts) < 2 || ts[0] != "searchx" {
		return nil, fmt.Errorf("not a searchx line")
	}
	ts = ts[1:]
	num := func() (int, error) {
		if len(ts) == 0 {
			return 0, fmt.Errorf("number expected")
		}
		n, err := strconv.Atoi(ts[0])
		ts = ts[1:]
		return n, err
	}
	x := &XReq{}
	n, err := num()
	if err != nil || len(ts) < n {
		return nil, fmt.Errorf("bad select")
	}
	x.Select = append([]string{}, ts[:n]...)
	ts = ts[n:]
	n, err = num()
	if err != nil || len(ts) < 2*n {
		return nil, fmt.Errorf("bad sort")
	}
	for i := 0; i < n; i++ {
		x.Sort = append(x.Sort, XSort{ts[2*i], ts[2*i+1] == "desc"})
	}
	ts = ts[2*n:]
	if x.Off, err = num(); err != nil {
		return nil, err
	}
	if x.Lim, err = num(); err != nil {
		return nil, err
	}
	q, _, err := parseQ(ts)
	if err != nil {
		return nil, err
	}
	x.Q = q
	return x, nil
}

// canon maps what msgpack decodes into `any` onto the value universe of the op lines
func canon(v any) any {
	switch v := v.(type) {
	case int8:
		return int64(v)
	case int16:
		return int64(v)
	case int32:
		return int64(v)
	case int:
		return int64(v)
	case uint8:
		return int64(v)
	case uint16:
		return int64(v)
	case uint32:
		return int64(v)
	case uint64:
		return int64(v)
	case float32:
		return float64(v)
	case []any:
		out := make([]any, len(v))
		for i, x := range v {
			out[i] = canon(x)
		}
		return out
	case map[string]any:
		out := make(map[string]any, len(v))
		for k, x := range v {
			out[k] = canon(x)
		}
		return out
	case models.PointAsMap:
		out := make(map[string]any, len(v))
		for k, x := range v {
			out[k] = canon(x)
		}
		return out
	}
	return v
}

func lookupAny(m map[string]any, path string) (any, bool) {
	var cur any = m
	for _, seg := range strings.Split(path, ".") {
		mm, ok := cur.(map[string]any)
		if !ok {
			return nil, false
		}
		cur, ok = mm[seg]
		if !ok {
			return nil, false
		}
	}
	return cur, true
}

func keyText(doc map[string]any, path string) string {
	v, ok := lookupAny(doc, path)
	if !ok {
		return "~"
	}
	if f, isF := v.(float64); isF && f == 0 {
		v = float64(0) // -0.0 and +0.0 compare equal: either may stand at a tied position
	}
	return strings.Join(valTokens(v, nil), " ")
}

// searchX runs the full request on the real shard and returns the canonical answer; it also evaluates
// what can be said without re-implementing select / CompareAny: without sort keys the answer must be the
// page [off, off+lim) of the points whose documents satisfy the query, in ascending node-id order.
func (w *World) searchX(x *XReq) (string, *Failure) {
	rq := models.SearchRequest{Query: w.toModelQuery(x.Q), Select: append([]string{}, x.Select...), Offset: x.Off, Limit: x.Lim}
	for _, s := range x.Sort {
		rq.Sort = append(rq.Sort, models.SortOption{Property: s.Path, Descending: s.Desc})
	}
	res, err := w.sh.SearchPoints(rq)
	if err != nil {
		return "error", nil
	}
	decoded := (len(x.Select) > 0 && x.Select[0] != "*") || len(x.Sort) > 0
	labels := make([]string, len(res))
	docs := make([]map[string]any, len(res))
	rows := make([]string, len(res))
	for i, r := range res {
		l, ok := uuidLabel[r.Point.Id]
		if !ok {
			l = "?" + r.Point.Id.String()
		}
		labels[i] = l
		var doc map[string]any
		switch {
		case decoded:
			doc, _ = canon(map[string]any(r.DecodedData)).(map[string]any)
		case len(r.Point.Data) > 0:
			var m map[string]any
			if err := msgpack.Unmarshal(r.Point.Data, &m); err != nil {
				return "error:undecodable-data", nil
			}
			doc, _ = canon(m).(map[string]any)
		}
		if doc == nil {
			doc = map[string]any{}
		}
		docs[i] = doc
		rows[i] = l + "=" + strings.Join(valTokens(doc, nil), " ")
	}
	if len(x.Sort) == 0 {
		got := "rows:" + strings.Join(rows, ";")
		// oracle: membership, order and page from the documents and the node ids
		var want []string
		for l, d := range w.docs {
			if w.sat(x.Q, l, d) {
				want = append(want, l)
			}
		}
		sort.Slice(want, func(i, j int) bool { return w.node[want[i]] < w.node[want[j]] })
		lim := x.Lim
		if lim == 0 {
			lim = len(want)
		}
		start := min(max(x.Off, 0), len(want))
		end := start + min(max(lim, 0), len(want)-start)
		want = want[start:end]
		if strings.Join(labels, ",") != strings.Join(want, ",") {
			return got, &Failure{Sig: "compose:page-order:" + x.Q.sig(w), What: fmt.Sprintf("request %q returns the points %v, the documents and node ids say %v", x.Line(), labels, want), Q: x.Q}
		}
		return got, nil
	}
	keys := make([]string, len(res))
	for i := range res {
		ks := make([]string, len(x.Sort))
		for j, s := range x.Sort {
			ks[j] = keyText(docs[i], s.Path)
		}
		keys[i] = strings.Join(ks, "|")
	}
	set := "-"
	if x.Off == 0 && x.Lim == 0 {
		sorted := append([]string{}, rows...)
		sort.Strings(sorted)
		set = strings.Join(sorted, ";")
	}
	return "keys:" + strings.Join(keys, ";") + " set:" + set, nil
}

var xSelectPool = []string{"s", "t", "n", "x", "tags", "labels", "nest", "nest.s", "nest.n", "nest.deep", "nest.deep.x", "nest.tags", "missing", "n.q", "nest.missing"}
var xSortPool = []string{"n", "x", "s", "t", "nest.n", "nest.deep.x", "nest.s"}

// broadQuery: a query that most live points satisfy, so that order, select, sort and paging have something to work on
func (g *Gen) broadQuery() *Q {
	live := g.liveLabels()
	some := func(p int) *Q {
		ls := []string{label(g.r.Intn(nLabels))} // possibly unknown
		for _, l := range live {
			if g.r.Chance(p) {
				ls = append(ls, l)
			}
		}
		return &Q{Kind: "idany", Labels: ls}
	}
	switch g.r.Intn(6) {
	case 0:
		return some(100)
	case 1:
		return &Q{Kind: "int", Path: "n", Op: models.OperatorNotEquals, I: g.genInt()}
	case 2:
		return &Q{Kind: "flt", Path: "x", Op: models.OperatorGreaterOrEq, F: math.Inf(-1)}
	case 3:
		return &Q{Kind: "or", Subs: []*Q{g.genLeaf(), some(60)}}
	case 4:
		return &Q{Kind: "and", Subs: []*Q{some(100), {Kind: "or", Subs: []*Q{g.genLeaf(), some(70), g.genLeaf()}}}}
	default:
		return &Q{Kind: "or", Subs: []*Q{{Kind: "and", Subs: []*Q{some(80), some(80)}}, g.genQuery(2)}}
	}
}

func (g *Gen) genXReq() *XReq {
	var q *Q
	for {
		switch c := g.r.Intn(100); {
		case c < 65:
			q = g.broadQuery()
		case c < 85:
			q = g.genLeaf()
		default:
			q = g.genQuery(3)
		}
		if g.w.toModelQuery(q).Validate() == nil {
			break
		}
	}
	x := &XReq{Q: q}
	switch c := g.r.Intn(100); {
	case c < 10: // no select: the data is not loaded
	case c < 40:
		x.Select = []string{"*"}
	default:
		n := 1 + g.r.Intn(4)
		for i := 0; i < n; i++ {
			x.Select = append(x.Select, vh.Pick(g.r, xSelectPool))
		}
		if g.r.Chance(15) {
			x.Select = append(x.Select, "*") // a star after paths: decoded over what was selected
			if g.r.Chance(50) {
				x.Select = append(x.Select, vh.Pick(g.r, xSelectPool))
			}
		}
	}
	if g.r.Chance(50) {
		n := 1 + g.r.Intn(2)
		for i := 0; i < n; i++ {
			p := vh.Pick(g.r, xSortPool)
			x.Sort = append(x.Sort, XSort{p, g.r.Bool()})
			// "any sort fields must be selected first": mostly they are
			if len(x.Select) == 0 || (x.Select[0] != "*" && g.r.Chance(90)) {
				x.Select = append([]string{p}, x.Select...)
			}
		}
	}
	switch c := g.r.Intn(20); {
	case c < 11:
	case c < 18:
		x.Off = 1 + g.r.Intn(2)
	case c < 19:
		x.Off = 3 + g.r.Intn(6)
	default:
		x.Off = math.MaxInt64 - g.r.Intn(2)
	}
	if g.r.Chance(60) {
		x.Lim = 1 + g.r.Intn(5)
	}
	return x
}

// searchesX emits n full requests to the compose stream only
func (g *Gen) searchesX(n int) {
	if g.co == nil {
		return
	}
	for i := 0; i < n; i++ {
		x := g.genXReq()
		var ss []string
		x.Q.strings(&ss)
		for _, s := range ss {
			if !g.seen[s] {
				g.seen[s] = true
				if l := strings.ToLower(s); l != s {
					lo := &Op{Kind: "lower", Raw: s, Low: l}
					a, _ := g.w.Exec(lo)
					g.o.Emit("lower", lo.Line(), a, false)
					g.co.Emit("lower", lo.Line(), a, false)
				}
			}
		}
		ans, fail := g.w.searchX(x)
		kind := "searchx:select"
		if len(x.Sort) > 0 {
			kind = "searchx:sort"
		}
		if x.Off > 0 || x.Lim > 0 {
			kind += "+page"
		}
		g.co.Emit(kind, x.Line(), ans, ans != "rows:" && ans != "keys: set:" && ans != "keys: set:-" && ans != "error")
		g.w.Hist = append(g.w.Hist, x.Line())
		if fail != nil && !g.sigs[fail.Sig] {
			g.sigs[fail.Sig] = true
			g.o.Fail(fail.Sig, fail.What, strings.Join(g.w.Hist, "\n"))
		}
	}
}
