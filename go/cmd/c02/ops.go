package main

// Op lines of the C02 protocol (see lean/SemaModel/C02/Driver.lean): structured form, printer, parser.
// Go values of documents: nil, bool, string, int64, float64, []any, map[string]any.

import (
	"encoding/hex"
	"fmt"
	"math"
	"sort"
	"strconv"
	"strings"
)

type IdxSpec struct{ Path, Kind string } // Kind: str:cs str:ci arr:cs arr:ci int flt

type Pt struct {
	Label string
	Node  uint64
	Doc   map[string]any
}

type Q struct {
	Kind   string // str arr int flt ideq idany and or
	Path   string
	Op     string
	S, SE  string
	Strs   []string
	All    bool
	I, IE  int64
	F, FE  float64
	Label  string
	Labels []string
	Subs   []*Q
}

type Op struct {
	Kind     string // schema lower insert update delete search dump
	Backend  string
	Idx      []IdxSpec
	Raw, Low string
	Pts      []Pt
	Labels   []string
	Q        *Q
	Path     string
}

func hx(s string) string {
	if len(s) == 0 {
		return "-"
	}
	return hex.EncodeToString([]byte(s))
}

func unhx(s string) (string, error) {
	if s == "-" {
		return "", nil
	}
	b, err := hex.DecodeString(s)
	return string(b), err
}

func h64(x uint64) string { return fmt.Sprintf("%016x", x) }

func valTokens(v any, out []string) []string {
	switch v := v.(type) {
	case nil:
		return append(out, "N")
	case bool:
		if v {
			return append(out, "T")
		}
		return append(out, "X")
	case string:
		return append(out, "S:"+hx(v))
	case int64:
		return append(out, "I:"+h64(uint64(v)))
	case float64:
		return append(out, "F:"+h64(math.Float64bits(v)))
	case []any:
		out = append(out, "A", strconv.Itoa(len(v)))
		for _, x := range v {
			out = valTokens(x, out)
		}
		return out
	case map[string]any:
		keys := make([]string, 0, len(v))
		for k := range v {
			keys = append(keys, k)
		}
		sort.Strings(keys)
		out = append(out, "M", strconv.Itoa(len(v)))
		for _, k := range keys {
			out = append(out, k)
			out = valTokens(v[k], out)
		}
		return out
	}
	panic(fmt.Sprintf("valTokens: unsupported %T", v))
}

func parseVal(ts []string) (any, []string, error) {
	if len(ts) == 0 {
		return nil, nil, fmt.Errorf("value expected")
	}
	t := ts[0]
	ts = ts[1:]
	switch {
	case t == "N":
		return nil, ts, nil
	case t == "T":
		return true, ts, nil
	case t == "X":
		return false, ts, nil
	case t == "A" || t == "M":
		if len(ts) == 0 {
			return nil, nil, fmt.Errorf("count expected")
		}
		n, err := strconv.Atoi(ts[0])
		if err != nil {
			return nil, nil, err
		}
		ts = ts[1:]
		if t == "A" {
			arr := make([]any, 0, n)
			for i := 0; i < n; i++ {
				var x any
				x, ts, err = parseVal(ts)
				if err != nil {
					return nil, nil, err
				}
				arr = append(arr, x)
			}
			return arr, ts, nil
		}
		m := make(map[string]any, n)
		for i := 0; i < n; i++ {
			if len(ts) == 0 {
				return nil, nil, fmt.Errorf("key expected")
			}
			k := ts[0]
			var x any
			x, ts, err = parseVal(ts[1:])
			if err != nil {
				return nil, nil, err
			}
			m[k] = x
		}
		return m, ts, nil
	case strings.HasPrefix(t, "S:"):
		s, err := unhx(t[2:])
		return s, ts, err
	case strings.HasPrefix(t, "I:"):
		x, err := strconv.ParseUint(t[2:], 16, 64)
		return int64(x), ts, err
	case strings.HasPrefix(t, "F:"):
		x, err := strconv.ParseUint(t[2:], 16, 64)
		return math.Float64frombits(x), ts, err
	}
	return nil, nil, fmt.Errorf("bad value token %q", t)
}

func (q *Q) tokens(out []string) []string {
	switch q.Kind {
	case "str":
		return append(out, "str", q.Path, q.Op, hx(q.S), hx(q.SE))
	case "arr":
		m := "any"
		if q.All {
			m = "all"
		}
		out = append(out, "arr", q.Path, m, strconv.Itoa(len(q.Strs)))
		for _, s := range q.Strs {
			out = append(out, hx(s))
		}
		return out
	case "int":
		return append(out, "int", q.Path, q.Op, h64(uint64(q.I)), h64(uint64(q.IE)))
	case "flt":
		return append(out, "flt", q.Path, q.Op, h64(math.Float64bits(q.F)), h64(math.Float64bits(q.FE)))
	case "ideq":
		return append(out, "ideq", q.Label)
	case "idany":
		out = append(out, "idany", strconv.Itoa(len(q.Labels)))
		return append(out, q.Labels...)
	case "and", "or":
		out = append(out, q.Kind, strconv.Itoa(len(q.Subs)))
		for _, s := range q.Subs {
			out = s.tokens(out)
		}
		return out
	}
	panic("bad query kind " + q.Kind)
}

func parseQ(ts []string) (*Q, []string, error) {
	if len(ts) == 0 {
		return nil, nil, fmt.Errorf("query expected")
	}
	need := func(n int) error {
		if len(ts) < n {
			return fmt.Errorf("query %s: too few tokens", ts[0])
		}
		return nil
	}
	q := &Q{Kind: ts[0]}
	var err error
	switch ts[0] {
	case "str":
		if err = need(5); err != nil {
			return nil, nil, err
		}
		q.Path, q.Op = ts[1], ts[2]
		if q.S, err = unhx(ts[3]); err != nil {
			return nil, nil, err
		}
		if q.SE, err = unhx(ts[4]); err != nil {
			return nil, nil, err
		}
		return q, ts[5:], nil
	case "arr":
		if err = need(4); err != nil {
			return nil, nil, err
		}
		q.Path, q.All = ts[1], ts[2] == "all"
		n, err := strconv.Atoi(ts[3])
		if err != nil || len(ts) < 4+n {
			return nil, nil, fmt.Errorf("arr: bad count")
		}
		for i := 0; i < n; i++ {
			s, err := unhx(ts[4+i])
			if err != nil {
				return nil, nil, err
			}
			q.Strs = append(q.Strs, s)
		}
		return q, ts[4+n:], nil
	case "int", "flt":
		if err = need(5); err != nil {
			return nil, nil, err
		}
		q.Path, q.Op = ts[1], ts[2]
		a, err1 := strconv.ParseUint(ts[3], 16, 64)
		b, err2 := strconv.ParseUint(ts[4], 16, 64)
		if err1 != nil || err2 != nil {
			return nil, nil, fmt.Errorf("bad number")
		}
		if ts[0] == "int" {
			q.I, q.IE = int64(a), int64(b)
		} else {
			q.F, q.FE = math.Float64frombits(a), math.Float64frombits(b)
		}
		return q, ts[5:], nil
	case "ideq":
		if err = need(2); err != nil {
			return nil, nil, err
		}
		q.Label = ts[1]
		return q, ts[2:], nil
	case "idany":
		if err = need(2); err != nil {
			return nil, nil, err
		}
		n, err := strconv.Atoi(ts[1])
		if err != nil || len(ts) < 2+n {
			return nil, nil, fmt.Errorf("idany: bad count")
		}
		q.Labels = append(q.Labels, ts[2:2+n]...)
		return q, ts[2+n:], nil
	case "and", "or":
		if err = need(2); err != nil {
			return nil, nil, err
		}
		n, err := strconv.Atoi(ts[1])
		if err != nil {
			return nil, nil, err
		}
		rest := ts[2:]
		for i := 0; i < n; i++ {
			var s *Q
			s, rest, err = parseQ(rest)
			if err != nil {
				return nil, nil, err
			}
			q.Subs = append(q.Subs, s)
		}
		return q, rest, nil
	}
	return nil, nil, fmt.Errorf("bad query kind %q", ts[0])
}

func (op *Op) Line() string {
	var t []string
	switch op.Kind {
	case "schema":
		t = append(t, "schema", op.Backend, strconv.Itoa(len(op.Idx)))
		for _, ix := range op.Idx {
			t = append(t, ix.Path, ix.Kind)
		}
	case "lower":
		t = append(t, "lower", hx(op.Raw), hx(op.Low))
	case "insert":
		t = append(t, "insert", strconv.Itoa(len(op.Pts)))
		for _, p := range op.Pts {
			t = append(t, p.Label, h64(p.Node))
			t = valTokens(p.Doc, t)
		}
	case "update":
		t = append(t, "update", strconv.Itoa(len(op.Pts)))
		for _, p := range op.Pts {
			t = append(t, p.Label)
			t = valTokens(p.Doc, t)
		}
	case "delete":
		t = append(t, "delete", strconv.Itoa(len(op.Labels)))
		t = append(t, op.Labels...)
	case "search":
		t = append(t, "search")
		t = op.Q.tokens(t)
	case "dump":
		t = append(t, "dump", op.Path)
	default:
		panic("bad op kind " + op.Kind)
	}
	return strings.Join(t, " ")
}

func parseOp(line string) (*Op, error) {
	ts := strings.Fields(line)
	if len(ts) == 0 {
		return nil, fmt.Errorf("empty line")
	}
	op := &Op{Kind: ts[0]}
	switch ts[0] {
	case "schema":
		if len(ts) < 3 {
			return nil, fmt.Errorf("schema: too short")
		}
		op.Backend = ts[1]
		n, err := strconv.Atoi(ts[2])
		if err != nil || len(ts) < 3+2*n {
			return nil, fmt.Errorf("schema: bad count")
		}
		for i := 0; i < n; i++ {
			op.Idx = append(op.Idx, IdxSpec{ts[3+2*i], ts[4+2*i]})
		}
	case "lower":
		if len(ts) != 3 {
			return nil, fmt.Errorf("lower: 2 args")
		}
		var err error
		if op.Raw, err = unhx(ts[1]); err != nil {
			return nil, err
		}
		if op.Low, err = unhx(ts[2]); err != nil {
			return nil, err
		}
	case "insert", "update":
		if len(ts) < 2 {
			return nil, fmt.Errorf("count expected")
		}
		n, err := strconv.Atoi(ts[1])
		if err != nil {
			return nil, err
		}
		rest := ts[2:]
		for i := 0; i < n; i++ {
			if len(rest) < 2 {
				return nil, fmt.Errorf("point expected")
			}
			p := Pt{Label: rest[0]}
			rest = rest[1:]
			if ts[0] == "insert" {
				if p.Node, err = strconv.ParseUint(rest[0], 16, 64); err != nil {
					return nil, err
				}
				rest = rest[1:]
			}
			var v any
			v, rest, err = parseVal(rest)
			if err != nil {
				return nil, err
			}
			m, ok := v.(map[string]any)
			if !ok {
				return nil, fmt.Errorf("document must be a map")
			}
			p.Doc = m
			op.Pts = append(op.Pts, p)
		}
	case "delete":
		if len(ts) < 2 {
			return nil, fmt.Errorf("count expected")
		}
		n, err := strconv.Atoi(ts[1])
		if err != nil || len(ts) < 2+n {
			return nil, fmt.Errorf("delete: bad count")
		}
		op.Labels = append(op.Labels, ts[2:2+n]...)
	case "search":
		q, _, err := parseQ(ts[1:])
		if err != nil {
			return nil, err
		}
		op.Q = q
	case "dump":
		if len(ts) != 2 {
			return nil, fmt.Errorf("dump: 1 arg")
		}
		op.Path = ts[1]
	default:
		return nil, fmt.Errorf("unknown op %q", ts[0])
	}
	return op, nil
}
