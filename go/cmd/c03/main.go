// C03 harness: after every batch of a history on a real file-backed shard the index is dumped and
// random vector searches (limits, search sizes, weights, integer-range and _id pre-filters) are run
// through Shard.SearchPoints; graph + real distance table + query go to the Lean model of
// greedySearch / IndexVamana.Search whose result list (ids, order, distances, hybrid scores) must
// equal the real answer, and the property oracle (brute force over the dump) judges the real answer.
// The shared machinery is in verifharness/vgraph.
package main

import "verifharness/vgraph"

func main() { vgraph.Main("c03") }
