package main

import (
	"bytes"
	"fmt"
	"io"
	"net/http"
	"net/http/httptest"
	"os"
	"os/exec"

	"github.com/rs/zerolog"
	"github.com/semafind/semadb/cluster"
	"github.com/semafind/semadb/httpapi"
	"github.com/semafind/semadb/models"
)

func main() {
	zerolog.SetGlobalLevel(zerolog.Disabled)
	dir, _ := os.MkdirTemp("", "probe")
	defer os.RemoveAll(dir)
	cn, err := cluster.NewNode(cluster.ClusterNodeConfig{RootDir: dir, Servers: []string{"localhost:9898"}, RpcHost: "localhost", RpcPort: 9898, RpcTimeout: 5, RpcRetries: 1,
		MaxShardSize: 1 << 30, MaxShardPointCount: 1000, MaxSearchLimit: 75, ShardManager: cluster.ShardManagerConfig{RootDir: dir, ShardTimeout: 30}})
	if err != nil {
		panic(err)
	}
	h := httpapi.VerifSetupRouter(cn, httpapi.HttpApiConfig{UserPlans: map[string]models.UserPlan{"P": {Name: "P", MaxCollections: 2, MaxCollectionPointCount: 5, MaxPointSize: 1000}}})
	srv := httptest.NewServer(h)
	defer srv.Close()
	do := func(user, method, path, body string) {
		req, _ := http.NewRequest(method, srv.URL+path, bytes.NewReader([]byte(body)))
		req.Header.Set("Content-Type", "application/json")
		req.Header.Set("X-User-Id", user)
		req.Header.Set("X-Plan-Id", "P")
		resp, err := http.DefaultClient.Do(req)
		if err != nil {
			fmt.Println(user, method, path, "ERR", err)
			return
		}
		b, _ := io.ReadAll(resp.Body)
		resp.Body.Close()
		fmt.Println(user, method, path, resp.StatusCode, string(b))
	}
	schema := `"indexSchema":{"k":{"type":"integer"}}`
	do("xyz", "POST", "/v2/collections", `{"id":"abc",`+schema+`}`)
	do("xyz", "POST", "/v2/collections/abc/points", `{"points":[{"_id":"00000000-0000-0000-0000-000000000001","k":5},{"_id":"00000000-0000-0000-0000-000000000002","k":7}]}`)
	do("xyz", "GET", "/v2/collections/abc", "")
	do("xyz", "POST", "/v2/collections/abc/points/search", `{"query":{"property":"k","integer":{"operator":"greaterThanOrEquals","value":0}},"limit":100,"sort":[{"property":"k"}],"select":["k"]}`)
	out, _ := exec.Command("find", dir).CombinedOutput()
	fmt.Println(string(out))
	do(".", "POST", "/v2/collections", `{"id":"xyz",`+schema+`}`)
	do(".", "POST", "/v2/collections/xyz/points", `{"points":[{"_id":"00000000-0000-0000-0000-000000000001","k":5}]}`)
	out, _ = exec.Command("find", dir).CombinedOutput()
	fmt.Println(string(out))
	do(".", "DELETE", "/v2/collections/xyz", "")
	out, _ = exec.Command("find", dir).CombinedOutput()
	fmt.Println(string(out))
	do("xyz", "GET", "/v2/collections/abc", "")
	do("xyz", "GET", "/v2/collections", "")
	do("xyz", "GET", "/v2/collections/a%2Fb", "")
	do("xyz", "GET", "/v2/collections/..", "")
	do("xyz", "PUT", "/v2/collections/abc/points", `{"points":[{"_id":"00000000-0000-0000-0000-000000000001","k":6},{"_id":"00000000-0000-0000-0000-000000000009","k":6}]}`)
	do("xyz", "DELETE", "/v2/collections/abc/points", `{"ids":["00000000-0000-0000-0000-000000000001","00000000-0000-0000-0000-000000000008"]}`)
	do("x/y", "GET", "/v2/collections", "")
	do(" ab ", "GET", "/v2/collections", "")
}
