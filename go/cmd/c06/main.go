// C06 correspondence harness: composite (hybrid) queries, select, sort and paging on a real shard
// (file-backed and in-memory), compared with the Lean model driver and judged directly against the
// documented behaviour.
//
// For every request the harness first asks the real shard for the answer of each *leaf* of the
// query tree on its own (ids, `_hybridScore` bit patterns); the model driver merges those leaf
// answers, back-fills, selects from the stored documents (read back from the shard), sorts and
// pages, and must print exactly what the real shard returns for the whole request (ties of Go's
// unstable sorts are resolved towards the implementation's order and re-checked by the driver).
// Independently the oracle (a plain Go reading of docs/search/*.md) is evaluated on the real answer.
package main

import (
	"bufio"
	"encoding/base64"
	"encoding/hex"
	"encoding/json"
	"flag"
	"fmt"
	"math"
	"math/big"
	"os"
	"os/exec"
	"path/filepath"
	"reflect"
	"sort"
	"strconv"
	"strings"

	"github.com/google/uuid"
	"github.com/rs/zerolog"
	"github.com/semafind/semadb/models"
	"github.com/semafind/semadb/shard"
	"github.com/semafind/semadb/shard/cache"
	"github.com/semafind/semadb/utils"
	"github.com/vmihailenco/msgpack/v5"
	"verifharness/vh"
)

// ---------------------------------------------------------------- canonical values

func canon(v any) string {
	switch x := v.(type) {
	case nil:
		return "N"
	case bool:
		if x {
			return "B1"
		}
		return "B0"
	case int8:
		return fmt.Sprintf("I8:%d", x)
	case int16:
		return fmt.Sprintf("I16:%d", x)
	case int32:
		return fmt.Sprintf("I32:%d", x)
	case int64:
		return fmt.Sprintf("I64:%d", x)
	case uint8:
		return fmt.Sprintf("U8:%d", x)
	case uint16:
		return fmt.Sprintf("U16:%d", x)
	case uint32:
		return fmt.Sprintf("U32:%d", x)
	case uint64:
		return fmt.Sprintf("U64:%d", x)
	case float32:
		return fmt.Sprintf("F%08x", math.Float32bits(x))
	case float64:
		return fmt.Sprintf("D%016x", math.Float64bits(x))
	case string:
		return "S" + hex.EncodeToString([]byte(x))
	case []byte:
		return "X" + hex.EncodeToString(x)
	case []float32:
		ss := make([]string, len(x))
		for i, e := range x {
			ss[i] = canon(e)
		}
		return "A[" + strings.Join(ss, ",") + "]"
	case []any:
		ss := make([]string, len(x))
		for i, e := range x {
			ss[i] = canon(e)
		}
		return "A[" + strings.Join(ss, ",") + "]"
	case models.PointAsMap:
		return canon(map[string]any(x))
	case map[string]any:
		keys := make([]string, 0, len(x))
		for k := range x {
			keys = append(keys, k)
		}
		sort.Strings(keys)
		ss := make([]string, len(keys))
		for i, k := range keys {
			ss[i] = k + "=" + canon(x[k])
		}
		return "M{" + strings.Join(ss, ",") + "}"
	}
	return fmt.Sprintf("?%T", v)
}

// parser of the canonical syntax (replay only)
func parseVal(s string) (any, string) {
	num := func(s string) (string, string) {
		i := 0
		for i < len(s) && (s[i] == '-' || (s[i] >= '0' && s[i] <= '9')) {
			i++
		}
		return s[:i], s[i:]
	}
	hx := func(s string) (string, string) {
		i := 0
		for i < len(s) && ((s[i] >= '0' && s[i] <= '9') || (s[i] >= 'a' && s[i] <= 'f')) {
			i++
		}
		return s[:i], s[i:]
	}
	switch s[0] {
	case 'N':
		return nil, s[1:]
	case 'B':
		return s[1] == '1', s[2:]
	case 'I', 'U':
		w, r := num(s[1:])
		d, r2 := num(r[1:])
		if s[0] == 'I' {
			v, _ := strconv.ParseInt(d, 10, 64)
			switch w {
			case "8":
				return int8(v), r2
			case "16":
				return int16(v), r2
			case "32":
				return int32(v), r2
			}
			return v, r2
		}
		v, _ := strconv.ParseUint(d, 10, 64)
		switch w {
		case "8":
			return uint8(v), r2
		case "16":
			return uint16(v), r2
		case "32":
			return uint32(v), r2
		}
		return v, r2
	case 'F':
		h, r := hx(s[1:])
		b, _ := strconv.ParseUint(h, 16, 32)
		return math.Float32frombits(uint32(b)), r
	case 'D':
		h, r := hx(s[1:])
		b, _ := strconv.ParseUint(h, 16, 64)
		return math.Float64frombits(b), r
	case 'S', 'X':
		h, r := hx(s[1:])
		b, _ := hex.DecodeString(h)
		if s[0] == 'S' {
			return string(b), r
		}
		return b, r
	case 'A':
		r := s[2:]
		out := []any{}
		for r[0] != ']' {
			if r[0] == ',' {
				r = r[1:]
				continue
			}
			var v any
			v, r = parseVal(r)
			out = append(out, v)
		}
		return out, r[1:]
	case 'M':
		r := s[2:]
		out := map[string]any{}
		for r[0] != '}' {
			if r[0] == ',' {
				r = r[1:]
				continue
			}
			i := strings.IndexByte(r, '=')
			k := r[:i]
			var v any
			v, r = parseVal(r[i+1:])
			out[k] = v
		}
		return out, r[1:]
	}
	panic("bad value syntax: " + s)
}

// ---------------------------------------------------------------- world

type mpoint struct {
	id   uuid.UUID
	node uint64
	doc  map[string]any // as stored (read back from the shard)
}

type world struct {
	s       *shard.Shard
	points  map[uuid.UUID]*mpoint
	byNode  map[uint64]*mpoint
	hist    []string
	variant string
	base    *int64 // "boundary" world: the sort keys n and i cluster around this value (nil: ordinary world)
}

func newWorld(dir string, file bool, n int, variant string) *world {
	col := models.Collection{UserId: "u", Id: "c", UserPlan: models.UserPlan{MaxPointSize: 1 << 20},
		IndexSchema: models.IndexSchema{
			"t": {Type: models.IndexTypeText, Text: &models.IndexTextParameters{Analyser: "standard"}},
			"g": {Type: models.IndexTypeInteger},
			"s": {Type: models.IndexTypeString, String: &models.IndexStringParameters{CaseSensitive: true}},
			"v": {Type: models.IndexTypeVectorFlat, VectorFlat: &models.IndexVectorFlatParameters{VectorSize: 2, DistanceMetric: models.DistanceEuclidean}},
		}}
	path := ""
	if file {
		path = filepath.Join(dir, fmt.Sprintf("c06-%d.bbolt", n))
		os.Remove(path)
	}
	s, err := shard.NewShard(path, col, cache.NewManager(-1))
	if err != nil {
		panic(err)
	}
	return &world{s: s, points: map[uuid.UUID]*mpoint{}, byNode: map[uint64]*mpoint{}, variant: variant}
}

var words = []string{"alpha", "beta", "gamma", "delta", "omega", "wizard", "ring", "shire"}
var strPool = []string{"", "a", "A", "ab", "aB", "b", "é", "É", "ß", "zz", "red", "green"}
var sPool = []string{"red", "green", "blue", "Red"}

func genNum(r *vh.Rng) any {
	switch r.Intn(12) {
	case 0:
		return int8(r.Intn(201) - 100)
	case 1:
		return int16(r.Intn(60001) - 30000)
	case 2:
		return int32(r.Intn(2000001) - 1000000)
	case 3:
		return int64(r.U64()>>uint(r.Intn(64))) - int64(r.Intn(2))*(1<<40)
	case 4:
		return uint8(r.Intn(256))
	case 5:
		return uint16(r.Intn(65536))
	case 6:
		return uint32(r.U64())
	case 7:
		return r.U64() >> uint(r.Intn(64))
	case 8:
		return float32(r.Intn(41)-20) / 4
	case 9:
		return vh.Pick(r, []float64{0, math.Copysign(0, -1), math.Inf(1), math.Inf(-1), math.NaN(), 1.5, -1.5})
	default:
		return float64(r.Intn(41)-20) / 4
	}
}

// values where a numeric comparison can go wrong: neighbours above 2^53 (a float64 cannot tell them
// apart), the ends of int64 / uint64, the same value in several widths and signednesses, floats at
// and next to integers, float32 beside float64
var bigBases = []int64{1700000000000000000, -1700000000000000000, 1 << 53, -(1 << 53), 1 << 62, math.MaxInt64 - 8, math.MinInt64 + 8, 1 << 24, 0}

func narrow(v int64, r *vh.Rng) any {
	// the same integer in another width / signedness when it fits
	var c []any
	c = append(c, v)
	if v >= 0 {
		c = append(c, uint64(v))
	}
	if int64(int32(v)) == v {
		c = append(c, int32(v))
	}
	if v >= 0 && v <= math.MaxUint32 {
		c = append(c, uint32(v))
	}
	if int64(int16(v)) == v {
		c = append(c, int16(v))
	}
	if v >= 0 && v <= math.MaxUint16 {
		c = append(c, uint16(v))
	}
	if int64(int8(v)) == v {
		c = append(c, int8(v))
	}
	if v >= 0 && v <= math.MaxUint8 {
		c = append(c, uint8(v))
	}
	return vh.Pick(r, c)
}

func genBoundary(r *vh.Rng, base int64) any {
	d := int64(r.Intn(9) - 4)
	switch r.Intn(12) {
	case 0, 1, 2, 3:
		return base + d // near-equal int64
	case 4:
		return narrow(base+d, r)
	case 5:
		f := float64(base)
		switch r.Intn(8) {
		case 0:
			return math.Nextafter(f, math.Inf(1))
		case 1:
			return math.Nextafter(f, math.Inf(-1))
		case 2:
			return f + float64(d)/2
		case 3:
			return float32(f) // a float32 beside float64 neighbours: the widening is exact, the float64 values around it differ
		case 4:
			return float64(float32(f))
		case 5:
			return math.Nextafter(float64(float32(f)), math.Inf(1))
		case 6:
			return math.Nextafter(float64(float32(f)), math.Inf(-1))
		}
		return f
	case 6:
		return vh.Pick(r, []any{uint64(1 << 63), uint64(1<<63 + 1), uint64(math.MaxUint64), uint64(math.MaxUint64 - 1), int64(math.MaxInt64), int64(math.MinInt64),
			float64(1 << 63), float64(1 << 64), -float64(1 << 63), float64(1 << 53), float64(1<<53) + 2, int64(1<<53 + 1), int64(1<<53 - 1)})
	case 7:
		return vh.Pick(r, []any{float32(1 << 24), float32(1<<24) + 2, int32(1<<24 + 1), float32(0.5), float64(0.5), float32(0.1), float64(0.1), float64(float32(0.1)),
			math.Copysign(0, -1), float32(math.Copysign(0, -1)), int8(0), uint8(0), 5e-324, -5e-324, float32(1e-45), 1e300, -1e300, float32(3e38), math.Inf(1), float32(math.Inf(-1))})
	case 8:
		return narrow(vh.Pick(r, []int64{-129, -128, -127, -1, 0, 1, 127, 128, 129, 255, 256, 257, 32767, 32768, 65535, 65536, -32768, -32769, math.MaxInt32, math.MaxInt32 + 1, math.MaxUint32, math.MaxUint32 + 1}), r)
	case 9:
		return vh.Pick(r, strPool)
	default:
		return genNum(r)
	}
}

// a number and one of the float64 / float32 values closest to it: a random integer against the float64
// it rounds to and that float's neighbours; a random float32 against the float64 of the same value and
// its neighbours (which a comparison in float32 cannot tell apart); a random float64 against its
// integer part
func genNeighbours(r *vh.Rng) (any, any) {
	near := func(f float64) float64 {
		switch r.Intn(3) {
		case 0:
			return math.Nextafter(f, math.Inf(1))
		case 1:
			return math.Nextafter(f, math.Inf(-1))
		}
		return f
	}
	var a, b any
	switch r.Intn(5) {
	case 0:
		i := int64(r.U64() >> uint(r.Intn(64)))
		if r.Bool() {
			i = -i
		}
		a, b = i, near(float64(i))
	case 1:
		u := r.U64() >> uint(r.Intn(64))
		a, b = u, near(float64(u))
	case 2:
		x := math.Float32frombits(uint32(r.U64()))
		if x != x {
			x = 0.1
		}
		a, b = x, near(float64(x))
	case 3:
		f := math.Float64frombits(r.U64()>>2 | uint64(r.Intn(2))<<63) // |f| < 2: fractions
		f *= float64(int64(1) << uint(r.Intn(40)))
		a, b = f, narrow(int64(f), r)
	default:
		i := int64(r.U64() >> uint(1+r.Intn(63)))
		a, b = narrow(i, r), narrow(i+int64(r.Intn(3))-1, r)
	}
	if r.Bool() {
		a, b = b, a
	}
	return a, b
}

func genScalar(r *vh.Rng) any {
	switch r.Intn(6) {
	case 0:
		return vh.Pick(r, strPool)
	case 1:
		return r.Bool()
	case 2:
		return nil
	default:
		return genNum(r)
	}
}

func genDoc(r *vh.Rng, base *int64) map[string]any {
	d := map[string]any{"g": int64(r.Intn(4))}
	if r.Chance(80) {
		d["s"] = vh.Pick(r, sPool)
	}
	if r.Chance(75) {
		d["v"] = []float32{float32(r.Intn(5)), float32(r.Intn(5))}
	}
	if r.Chance(70) {
		n := 1 + r.Intn(5)
		ws := make([]string, n)
		for i := range ws {
			ws[i] = vh.Pick(r, words)
		}
		d["t"] = strings.Join(ws, " ")
	}
	switch p := r.Intn(100); {
	case p < 80 && base != nil:
		d["n"] = genBoundary(r, *base)
	case p < 80:
		d["n"] = genNum(r)
	case p < 88:
		d["n"] = genScalar(r)
	}
	if r.Chance(80) {
		d["k"] = float64(r.Intn(9) - 4)
	}
	if base != nil && r.Chance(85) {
		d["i"] = *base + int64(r.Intn(9)-4) // one kind, neighbouring values
	} else if r.Chance(60) {
		d["i"] = int64(r.Intn(7) - 3)
	}
	if r.Chance(70) {
		d["q"] = vh.Pick(r, strPool)
	}
	switch p := r.Intn(100); {
	case p < 55:
		a := map[string]any{"b": genScalar(r)}
		if r.Chance(60) {
			a["c"] = map[string]any{"d": genScalar(r)}
		} else if r.Chance(30) {
			a["c"] = genScalar(r) // a.c.d then runs into a scalar
		}
		d["a"] = a
	case p < 62:
		d["a"] = genScalar(r) // a nested select then runs into a scalar (or nil)
	}
	if r.Chance(60) {
		m := map[string]any{"x": int64(r.Intn(5))}
		if r.Chance(70) {
			m["y"] = map[string]any{"z": vh.Pick(r, strPool)}
		}
		d["m"] = m
	}
	if r.Chance(20) {
		d["l"] = []any{int8(1), "two"}
	}
	if r.Chance(30) {
		d["b"] = r.Bool()
	}
	if r.Chance(20) {
		d["z"] = nil
	}
	if r.Chance(10) {
		d["x"] = []byte{1, 2, 3}
	}
	return d
}

func mustMarshal(m map[string]any) []byte {
	b, err := msgpack.Marshal(m)
	if err != nil {
		panic(err)
	}
	return b
}

// reads every live point back from the shard (node id, stored document) and emits `doc` lines for
// the ones that changed
func (w *world) sync(o *vh.Out) {
	if len(w.points) == 0 {
		return
	}
	var ss []string
	for id := range w.points {
		ss = append(ss, id.String())
	}
	sort.Strings(ss)
	res, err := w.s.SearchPoints(models.SearchRequest{Query: models.Query{Property: "_id", StringArray: &models.SearchStringArrayOptions{Value: ss, Operator: models.OperatorContainsAny}}, Select: []string{"*"}})
	if err != nil {
		panic(err)
	}
	w.byNode = map[uint64]*mpoint{}
	sort.Slice(res, func(i, j int) bool { return res[i].NodeId < res[j].NodeId })
	for _, x := range res {
		mp := w.points[x.Point.Id]
		var doc map[string]any
		if err := msgpack.Unmarshal(x.Point.Data, &doc); err != nil {
			panic(err)
		}
		old := ""
		if mp.doc != nil {
			old = fmt.Sprint(mp.node) + canon(mp.doc)
		}
		mp.node, mp.doc = x.NodeId, doc
		w.byNode[mp.node] = mp
		if line := fmt.Sprintf("doc %d %s", mp.node, canon(doc)); fmt.Sprint(mp.node)+canon(doc) != old {
			w.hist = append(w.hist, line)
			o.Emit("doc", line, "ok", false)
		}
	}
}

func (w *world) insert(o *vh.Out, r *vh.Rng, n int) {
	var pts []models.Point
	for i := 0; i < n; i++ {
		var b [16]byte
		for j := range b {
			b[j] = byte(r.U64())
		}
		id, _ := uuid.FromBytes(b[:])
		w.points[id] = &mpoint{id: id}
		pts = append(pts, models.Point{Id: id, Data: mustMarshal(genDoc(r, w.base))})
	}
	if err := w.s.InsertPoints(pts); err != nil {
		panic(fmt.Sprintf("valid insert batch rejected: %v", err))
	}
	w.sync(o)
}

func (w *world) mutate(o *vh.Out, r *vh.Rng) {
	var ids []uuid.UUID
	for id := range w.points {
		ids = append(ids, id)
	}
	sort.Slice(ids, func(i, j int) bool { return ids[i].String() < ids[j].String() })
	var upd []models.Point
	del := map[uuid.UUID]struct{}{}
	for _, id := range ids {
		switch p := r.Intn(100); {
		case p < 25:
			d := genDoc(r, w.base)
			delete(d, "g")
			for k := range d {
				if r.Chance(50) {
					delete(d, k)
				}
			}
			if r.Chance(30) {
				d[vh.Pick(r, []string{"a", "m", "n", "q", "k"})] = "_delete"
			}
			upd = append(upd, models.Point{Id: id, Data: mustMarshal(d)})
		case p < 35:
			del[id] = struct{}{}
		}
	}
	if len(upd) > 0 {
		if _, err := w.s.UpdatePoints(upd); err != nil {
			panic(fmt.Sprintf("valid update batch rejected: %v", err))
		}
	}
	if len(del) > 0 && len(del) < len(w.points) {
		if _, err := w.s.DeletePoints(del); err != nil {
			panic(err)
		}
		for id := range del {
			delete(w.points, id)
		}
	}
	w.sync(o)
}

// ---------------------------------------------------------------- query trees

type qnode struct {
	q       models.Query
	kind    string // "text", "flat", "filter", "and", "or"
	weight  float32
	subs    []*qnode
	set     map[uint64]bool    // leaf answer: id set
	res     []models.SearchResult // leaf answer: ranked results in order
	leafStr string
}

func f32p(f float32) *float32 { return &f }

func genWeight(r *vh.Rng) *float32 {
	return vh.Pick(r, []*float32{nil, nil, f32p(1), f32p(0), f32p(0.5), f32p(2), f32p(-1), f32p(1.5), f32p(-0.25)})
}

func (w *world) genFilterQuery(r *vh.Rng) models.Query {
	switch r.Intn(4) {
	case 0:
		return models.Query{Property: "g", Integer: &models.SearchIntegerOptions{Value: int64(r.Intn(4)), Operator: models.OperatorEquals}}
	case 1:
		lo := int64(r.Intn(3))
		return models.Query{Property: "g", Integer: &models.SearchIntegerOptions{Value: lo, EndValue: lo + 1 + int64(r.Intn(2)), Operator: models.OperatorInRange}}
	case 2:
		return models.Query{Property: "s", String: &models.SearchStringOptions{Value: vh.Pick(r, sPool), Operator: models.OperatorEquals}}
	default:
		return models.Query{Property: "g", Integer: &models.SearchIntegerOptions{Value: int64(r.Intn(4)), Operator: models.OperatorGreaterOrEq}}
	}
}

func (w *world) genLeaf(r *vh.Rng) *qnode {
	switch p := r.Intn(100); {
	case p < 30:
		val := vh.Pick(r, words)
		if r.Bool() {
			val += " " + vh.Pick(r, words)
		}
		op := models.OperatorContainsAny
		if r.Chance(35) {
			op = models.OperatorContainsAll
		}
		wt := genWeight(r)
		n := &qnode{kind: "text", weight: 1}
		if wt != nil {
			n.weight = *wt
		}
		opts := &models.SearchTextOptions{Value: val, Operator: op, Limit: 1 + r.Intn(12), Weight: wt}
		if r.Chance(20) {
			f := w.genFilterQuery(r)
			opts.Filter = &f
		}
		n.q = models.Query{Property: "t", Text: opts}
		return n
	case p < 62:
		wt := genWeight(r)
		n := &qnode{kind: "flat", weight: 1}
		if wt != nil {
			n.weight = *wt
		}
		vec := []float32{float32(r.Intn(5)), float32(r.Intn(5))}
		opts := &models.SearchVectorFlatOptions{Vector: vec, Operator: models.OperatorNear, Limit: 1 + r.Intn(12), Weight: wt}
		var inFilter map[uint64]bool
		if r.Chance(20) {
			f := w.genFilterQuery(r)
			opts.Filter = &f
			fr, err := w.s.SearchPoints(models.SearchRequest{Query: f})
			if err != nil {
				panic(err)
			}
			inFilter = map[uint64]bool{}
			for _, x := range fr {
				inFilter[x.NodeId] = true
			}
		}
		// the flat scan visits the vectors in Go map order: a cut through a group of equal
		// distances would make the leaf's answer differ from run to run, so the limit is moved to
		// the end of the group (integer grid: squared distances are exact)
		var ds []int
		for _, mp := range w.points {
			if inFilter != nil && !inFilter[mp.node] {
				continue
			}
			if v, ok := mp.doc["v"].([]any); ok && len(v) == 2 {
				dx := int(v[0].(float32)) - int(vec[0])
				dy := int(v[1].(float32)) - int(vec[1])
				ds = append(ds, dx*dx+dy*dy)
			}
		}
		sort.Ints(ds)
		for opts.Limit < len(ds) && ds[opts.Limit] == ds[opts.Limit-1] {
			opts.Limit++
		}
		n.q = models.Query{Property: "v", VectorFlat: opts}
		return n
	default:
		return &qnode{kind: "filter", q: w.genFilterQuery(r)}
	}
}

func (w *world) genTree(r *vh.Rng, depth int) *qnode {
	if depth == 0 || r.Chance(35) {
		return w.genLeaf(r)
	}
	n := &qnode{kind: "or"}
	if r.Chance(45) {
		n.kind = "and"
	}
	k := vh.Pick(r, []int{1, 2, 2, 2, 3, 3, 4})
	for i := 0; i < k; i++ {
		n.subs = append(n.subs, w.genTree(r, depth-1))
	}
	qs := make([]models.Query, len(n.subs))
	for i, s := range n.subs {
		qs[i] = s.q
	}
	if n.kind == "and" {
		n.q = models.Query{Property: "_and", And: qs}
	} else {
		n.q = models.Query{Property: "_or", Or: qs}
	}
	return n
}

func bits(f float32) string { return fmt.Sprintf("%08x", math.Float32bits(f)) }

func okey(f float32) int64 {
	b := math.Float32bits(f)
	m := int64(b & 0x7fffffff)
	if b>>31 == 1 {
		return -m
	}
	return m
}

// the real answer of every leaf on its own
func (w *world) answerLeaves(n *qnode) error {
	if len(n.subs) > 0 {
		var parts []string
		for _, s := range n.subs {
			if err := w.answerLeaves(s); err != nil {
				return err
			}
			parts = append(parts, s.leafStr)
		}
		c := "O"
		if n.kind == "and" {
			c = "A"
		}
		n.leafStr = c + "[" + strings.Join(parts, ";") + "]"
		return nil
	}
	res, err := w.s.SearchPoints(models.SearchRequest{Query: n.q})
	if err != nil {
		return err
	}
	n.set = map[uint64]bool{}
	var ss []string
	for _, x := range res {
		n.set[x.NodeId] = true
		if n.kind == "filter" {
			ss = append(ss, strconv.FormatUint(x.NodeId, 10))
		} else {
			if x.Score == nil && x.Distance == nil {
				return fmt.Errorf("ranking leaf returned an unranked point")
			}
			n.res = append(n.res, x)
			ss = append(ss, fmt.Sprintf("%d:%s", x.NodeId, bits(x.HybridScore)))
		}
	}
	if n.kind == "filter" {
		n.leafStr = "F(" + strings.Join(ss, ",") + ")"
	} else {
		n.leafStr = "R(" + strings.Join(ss, ",") + ")"
	}
	return nil
}

// ---------------------------------------------------------------- the documented behaviour (oracle)

func (n *qnode) specSet() map[uint64]bool {
	if len(n.subs) == 0 {
		return n.set
	}
	out := map[uint64]bool{}
	for i, s := range n.subs {
		ss := s.specSet()
		if n.kind == "or" {
			for id := range ss {
				out[id] = true
			}
		} else if i == 0 {
			for id := range ss {
				out[id] = true
			}
		} else {
			for id := range out {
				if !ss[id] {
					delete(out, id)
				}
			}
		}
	}
	return out
}

// sum of the weighted contributions of the ranking sub-queries that found `id` (float64), Σ|c|, found?
func (n *qnode) specHybrid(id uint64) (sum, abs float64, ranked bool) {
	if len(n.subs) == 0 {
		for _, x := range n.res {
			if x.NodeId == id {
				return float64(x.HybridScore), math.Abs(float64(x.HybridScore)), true
			}
		}
		return 0, 0, false
	}
	if n.kind == "and" && !n.specSet()[id] {
		return 0, 0, false
	}
	for _, s := range n.subs {
		a, b, r := s.specHybrid(id)
		if r {
			sum += a
			abs += b
			ranked = true
		}
	}
	return
}

// a composite root whose chain of single-sub composites ends in a ranking leaf with a negative weight:
// the leaf answers lowest hybrid score first and the single-sub-query shortcut of searchParallel has
// to put it in order (a violation there gets the signature "rank-order-single-subquery-negative-weight")
func (n *qnode) passthroughNegative() bool {
	if len(n.subs) == 0 {
		return false
	}
	for len(n.subs) == 1 {
		n = n.subs[0]
	}
	return len(n.subs) == 0 && n.kind != "filter" && n.weight < 0
}

func lookupPath(d map[string]any, path string) (v any, ok bool, clash bool) {
	var cur any = d
	for _, seg := range strings.Split(path, ".") {
		m, isMap := cur.(map[string]any)
		if !isMap {
			return nil, false, true // the path runs into something that is not a map
		}
		cur, ok = m[seg]
		if !ok {
			return nil, false, false
		}
	}
	return cur, true, false
}

// every value in `got` sits at the same path in `stored` (rebuilt intermediate maps may be partial)
func subDoc(got, stored map[string]any) bool {
	for k, gv := range got {
		sv, ok := stored[k]
		if !ok {
			return false
		}
		gm, g1 := gv.(map[string]any)
		sm, s1 := sv.(map[string]any)
		if g1 && s1 {
			if !subDoc(gm, sm) {
				return false
			}
		} else if canon(gv) != canon(sv) {
			return false
		}
	}
	return true
}

func returnedData(x models.SearchResult) map[string]any {
	if x.DecodedData != nil {
		return map[string]any(x.DecodedData)
	}
	out := map[string]any{}
	if len(x.Point.Data) > 0 {
		if err := msgpack.Unmarshal(x.Point.Data, &out); err != nil {
			panic(err)
		}
	}
	return out
}

// exact value of a number (any integer width, float32, float64); nil for NaN and for non-numbers
func exactNum(v any) *big.Float {
	switch x := v.(type) {
	case int8:
		return new(big.Float).SetInt64(int64(x))
	case int16:
		return new(big.Float).SetInt64(int64(x))
	case int32:
		return new(big.Float).SetInt64(int64(x))
	case int64:
		return new(big.Float).SetInt64(x)
	case uint8:
		return new(big.Float).SetUint64(uint64(x))
	case uint16:
		return new(big.Float).SetUint64(uint64(x))
	case uint32:
		return new(big.Float).SetUint64(uint64(x))
	case uint64:
		return new(big.Float).SetUint64(x)
	case float32:
		if x != x {
			return nil
		}
		return big.NewFloat(float64(x))
	case float64:
		if x != x {
			return nil
		}
		return big.NewFloat(x)
	}
	return nil
}

func isNumber(v any) bool {
	switch v.(type) {
	case int8, int16, int32, int64, uint8, uint16, uint32, uint64, float32, float64:
		return true
	}
	return false
}

// documented order of two values of one sort key: -1/0/1, or judged=false when the documentation
// says nothing (a number beside a string, NaN, values without an order).  Numbers are compared by
// their exact value whatever width, signedness or float type they were stored with (big.Float.Cmp
// does not round); strings byte-wise.
func docCompare(a, b any) (c int, judged bool) {
	if s1, ok := a.(string); ok {
		if s2, ok := b.(string); ok {
			return strings.Compare(s1, s2), true
		}
		return 0, false
	}
	r1, r2 := exactNum(a), exactNum(b)
	if r1 == nil || r2 == nil {
		return 0, false
	}
	return r1.Cmp(r2), true
}

// must row a stand before row b?  +1: a must come after b (violation if a is first), 0: free / unknown.
// crossKind: the deciding pair were numbers of two different Go kinds.
func docOrder(a, b map[string]any, sorts []models.SortOption) (c int, crossKind bool) {
	for _, s := range sorts {
		av, aok, _ := lookupPath(a, s.Property)
		bv, bok, _ := lookupPath(b, s.Property)
		switch {
		case aok && !bok:
			return -1, false
		case !aok && bok:
			return 1, false
		case !aok && !bok:
			continue
		}
		c, judged := docCompare(av, bv)
		if !judged {
			return 0, false
		}
		if s.Descending {
			c = -c
		}
		if c != 0 {
			return c, reflect.ValueOf(av).Kind() != reflect.ValueOf(bv).Kind()
		}
	}
	return 0, false
}

type request struct {
	tree   *qnode
	sel    []string
	sorts  []models.SortOption
	off    int
	lim    int
}

func (rq request) sr() models.SearchRequest {
	return models.SearchRequest{Query: rq.tree.q, Select: rq.sel, Sort: rq.sorts, Offset: rq.off, Limit: rq.lim}
}

var selPool = []string{"a", "a.b", "a.c", "a.c.d", "m", "m.x", "m.y", "m.y.z", "n", "k", "i", "q", "g", "s", "t", "v", "l", "b", "z", "x", "zz", "m.zz", "a.zz"}
var sortPool = []string{"n", "k", "i", "q", "a.b", "a.c.d", "m.x", "m.y.z", "g", "s", "b", "z", "zz", "m", "k", "i", "q"}

func genRequest(w *world, r *vh.Rng) request {
	rq := request{tree: w.genTree(r, 3)}
	switch p := r.Intn(100); {
	case p < 15:
	case p < 25:
		rq.sel = []string{"*"}
	default:
		n := 1 + r.Intn(5)
		for i := 0; i < n; i++ {
			rq.sel = append(rq.sel, vh.Pick(r, selPool))
		}
		if r.Chance(12) {
			i := r.Intn(len(rq.sel) + 1)
			rq.sel = append(rq.sel[:i], append([]string{"*"}, rq.sel[i:]...)...)
		}
	}
	if r.Chance(55) {
		n := 1 + r.Intn(3)
		if r.Chance(10) {
			n = 10
		}
		for i := 0; i < n; i++ {
			p := vh.Pick(r, sortPool)
			if len(rq.sel) > 0 && r.Chance(75) {
				p = vh.Pick(r, rq.sel)
				if p == "*" {
					p = vh.Pick(r, sortPool)
				}
			}
			rq.sorts = append(rq.sorts, models.SortOption{Property: p, Descending: r.Bool()})
		}
	}
	rq.off = vh.Pick(r, []int{0, 0, 0, 1, 2, 3, 5, 8, 20})
	rq.lim = vh.Pick(r, []int{0, 1, 2, 3, 5, 10, 100})
	if w.variant == "repaired" && r.Chance(6) {
		rq.off = vh.Pick(r, []int{math.MaxInt64, math.MaxInt64 - 1, math.MaxInt64 - 99, 1 << 62})
	}
	return rq
}

func selectErrorExpected(w *world, ids map[uint64]bool, sel []string) bool {
	if len(sel) == 0 || (sel[0] == "*") {
		return false
	}
	for id := range ids {
		mp := w.byNode[id]
		for _, p := range sel {
			if p == "*" {
				break
			}
			if _, _, clash := lookupPath(mp.doc, p); clash {
				return true
			}
		}
	}
	return false
}

func (w *world) search(o *vh.Out, r *vh.Rng, rq request) {
	if err := w.answerLeaves(rq.tree); err != nil {
		o.Fail("leaf-error", err.Error(), "")
		return
	}
	// formula lines: the hybrid expressions generated from text.go / flat.go, evaluated by the driver on each leaf's
	// reported ranking value (score / distance) and compared with the leaf's real _hybridScore
	var walk func(n *qnode)
	walk = func(n *qnode) {
		for _, s := range n.subs {
			walk(s)
		}
		var wt *float32
		switch {
		case n.q.Text != nil:
			wt = n.q.Text.Weight
		case n.q.VectorFlat != nil:
			wt = n.q.VectorFlat.Weight
		default:
			return
		}
		wf := "-"
		if wt != nil {
			wf = bits(*wt)
		}
		for i, x := range n.res {
			if i >= 3 {
				break
			}
			v := x.Score
			if n.kind == "flat" {
				v = x.Distance
			}
			if v == nil || *v != *v || x.HybridScore != x.HybridScore {
				continue
			}
			o.Emit("hyb-"+n.kind, fmt.Sprintf("hyb %s %s %s", n.kind, wf, bits(*v)), bits(x.HybridScore), true)
		}
	}
	walk(rq.tree)
	sr := rq.sr()
	reqJSON, _ := json.Marshal(sr)
	res, err := w.s.SearchPoints(sr)
	sortStr := "-"
	if len(rq.sorts) > 0 {
		var ss []string
		for _, s := range rq.sorts {
			d := "a"
			if s.Descending {
				d = "d"
			}
			ss = append(ss, s.Property+":"+d)
		}
		sortStr = strings.Join(ss, ",")
	}
	selStr := "-"
	if len(rq.sel) > 0 {
		selStr = strings.Join(rq.sel, ",")
	}
	var pick []string
	for _, x := range res {
		pick = append(pick, strconv.FormatUint(x.NodeId, 10))
	}
	pickStr := "-"
	if len(pick) > 0 {
		pickStr = strings.Join(pick, ",")
	}
	line := fmt.Sprintf("search tree=%s select=%s sort=%s off=%d lim=%d variant=%s pick=%s req=%s", rq.tree.leafStr, selStr, sortStr, rq.off, rq.lim, w.variant, pickStr, base64.StdEncoding.EncodeToString(reqJSON))
	replay := func() string { return "new\n" + strings.Join(w.hist, "\n") + "\n" + line }
	fail := func(sig, what string) {
		o.Stats["failed-search:"+sig]++
		o.Fail(sig, what+" | request "+string(reqJSON), replay())
	}
	specSet := rq.tree.specSet()
	kind := "search-" + rq.tree.kind
	if len(rq.sorts) > 0 {
		kind += "+sort"
	}
	if err != nil {
		impl := "error:other"
		if strings.Contains(err.Error(), "could not select point data") || strings.Contains(err.Error(), "could not access nested property") {
			impl = "error:select"
		}
		o.Emit("search-select-error", line, impl, true)
		if impl == "error:select" && selectErrorExpected(w, specSet, rq.sel) {
			fail("select-nested-through-scalar", "a selected path runs into a scalar / nil / array on one of the matching points and the whole search fails: "+err.Error())
		} else {
			fail("search-error", "search failed: "+err.Error())
		}
		return
	}
	rows := make([]string, len(res))
	for i, x := range res {
		h := "-"
		if x.Score != nil || x.Distance != nil {
			h = bits(x.HybridScore)
		}
		rows[i] = fmt.Sprintf("%d:%s:%s", x.NodeId, h, canon(returnedData(x)))
	}
	o.Emit(kind, line, fmt.Sprintf("n=%d %s", len(res), strings.Join(rows, "|")), len(res) > 0)
	// ---------------------------------------------------------------- oracle on the real answers
	full, err := w.s.SearchPoints(models.SearchRequest{Query: rq.tree.q, Select: rq.sel, Sort: rq.sorts})
	if err != nil {
		if strings.Contains(err.Error(), "could not select point data") && selectErrorExpected(w, specSet, rq.sel) {
			fail("select-nested-through-scalar", "the same request without offset/limit fails because a selected path runs into a scalar / nil / array on one matching point: "+err.Error())
		} else {
			fail("search-error", "the same request without offset/limit failed: "+err.Error())
		}
		return
	}
	ranked := func(x models.SearchResult) bool { return x.Score != nil || x.Distance != nil }
	seen := map[uint64]bool{}
	for _, x := range full {
		if seen[x.NodeId] {
			fail("merge-duplicate", fmt.Sprintf("node %d returned twice", x.NodeId))
		}
		seen[x.NodeId] = true
		if !specSet[x.NodeId] {
			fail("merge-set-extra", fmt.Sprintf("node %d returned but not in the union/intersection of the sub-results", x.NodeId))
		}
	}
	for id := range specSet {
		if !seen[id] {
			fail("merge-set-missing", fmt.Sprintf("node %d is in the union/intersection of the sub-results but not returned", id))
		}
	}
	for _, x := range full {
		sum, abs, isRanked := rq.tree.specHybrid(x.NodeId)
		if isRanked != ranked(x) {
			fail("merge-ranked", fmt.Sprintf("node %d: ranked by a sub-query = %v, carries a score = %v", x.NodeId, isRanked, ranked(x)))
			continue
		}
		if isRanked {
			o.Stats["hybrid-sums-compared"]++
			if d := math.Abs(float64(x.HybridScore) - sum); !(d <= 8*abs/(1<<23)+1e-30) {
				fail("hybrid-sum", fmt.Sprintf("node %d: _hybridScore %v, sum of the weighted contributions %v", x.NodeId, x.HybridScore, sum))
			}
		}
	}
	if len(rq.sorts) == 0 {
		composite := len(rq.tree.subs) > 0
		sawUnranked := false
		for i, x := range full {
			if !ranked(x) {
				sawUnranked = true
				continue
			}
			if sawUnranked {
				fail("rank-before-unranked", fmt.Sprintf("ranked node %d follows a point matched only by filters", x.NodeId))
			}
			if composite {
				// "For composite queries … ranked points come first ordered by that hybrid score, highest first"
				if rq.tree.passthroughNegative() {
					o.Stats["rank-order-judged(single-subquery-negative-weight)"]++
				}
				if i > 0 && ranked(full[i-1]) && okey(full[i-1].HybridScore) < okey(x.HybridScore) {
					sig := "rank-order"
					if rq.tree.passthroughNegative() {
						sig = "rank-order-single-subquery-negative-weight"
					}
					fail(sig, fmt.Sprintf("hybrid scores not highest first at position %d: %v then %v", i, full[i-1].HybridScore, x.HybridScore))
				}
				continue
			}
			// a plain ranking query keeps the order of its index, whatever the sign of the weight (C03-C05):
			// text by score, highest first, hybrid = weight * score; vector by distance, lowest first,
			// hybrid = -weight * distance
			o.Stats["plain-order-judged"]++
			wt := rq.tree.weight
			switch rq.tree.kind {
			case "text":
				if x.Score == nil {
					fail("plain-order", fmt.Sprintf("text query: node %d carries no score", x.NodeId))
					continue
				}
				if i > 0 && ranked(full[i-1]) && full[i-1].Score != nil && *full[i-1].Score < *x.Score {
					fail("plain-order", fmt.Sprintf("plain text query (weight %v): scores not highest first at position %d: %v then %v [the order of a plain ranking request is produced by its index (text: C05) and must be passed through unchanged by the answer pipeline (C06); seen through Shard.SearchPoints this oracle cannot tell which of the two reordered - if ./check C05 reports an order violation too, it is the index]", wt, i, *full[i-1].Score, *x.Score))
				}
				if want := *x.Score * wt; okey(want) != okey(x.HybridScore) {
					fail("plain-hybrid", fmt.Sprintf("plain text query: node %d has score %v, weight %v, _hybridScore %v", x.NodeId, *x.Score, wt, x.HybridScore))
				}
			case "flat":
				if x.Distance == nil {
					fail("plain-order", fmt.Sprintf("vector query: node %d carries no distance", x.NodeId))
					continue
				}
				if i > 0 && ranked(full[i-1]) && full[i-1].Distance != nil && *full[i-1].Distance > *x.Distance {
					fail("plain-order", fmt.Sprintf("plain vector query (weight %v): distances not lowest first at position %d: %v then %v [the order of a plain ranking request is produced by its index (vector: C03 / C04) and must be passed through unchanged by the answer pipeline (C06); seen through Shard.SearchPoints this oracle cannot tell which of the two reordered - if the index's own check reports an order violation too, it is the index]", wt, i, *full[i-1].Distance, *x.Distance))
				}
				if want := -1 * wt * *x.Distance; okey(want) != okey(x.HybridScore) {
					fail("plain-hybrid", fmt.Sprintf("plain vector query: node %d has distance %v, weight %v, _hybridScore %v", x.NodeId, *x.Distance, wt, x.HybridScore))
				}
			}
		}
	}
	// select
	starAt := -1
	for i, p := range rq.sel {
		if p == "*" {
			starAt = i
			break
		}
	}
	for _, x := range full {
		got := returnedData(x)
		stored := w.byNode[x.NodeId].doc
		switch {
		case len(rq.sel) == 0:
			if len(got) != 0 {
				fail("select-none", fmt.Sprintf("node %d: data returned although nothing was selected", x.NodeId))
			}
		case starAt >= 0:
			if canon(got) != canon(stored) {
				fail("select-star", fmt.Sprintf("node %d: \"*\" returned %s, stored %s", x.NodeId, canon(got), canon(stored)))
			}
		default:
			for _, p := range rq.sel {
				if sv, ok, _ := lookupPath(stored, p); ok {
					gv, gok, _ := lookupPath(got, p)
					if !gok || canon(gv) != canon(sv) {
						fail("select-value", fmt.Sprintf("node %d: selected %q stored %s, returned %v %s", x.NodeId, p, canon(sv), gok, canon(gv)))
					}
				}
			}
			if !subDoc(got, stored) {
				fail("select-extra", fmt.Sprintf("node %d: returned %s is not part of the stored %s", x.NodeId, canon(got), canon(stored)))
			}
		}
	}
	// sort
	for i := 1; i < len(full) && len(rq.sorts) > 0; i++ {
		a, b := returnedData(full[i-1]), returnedData(full[i])
		switch c, cross := docOrder(a, b, rq.sorts); c {
		case 1:
			sig := "sort-order"
			if cross {
				sig = "sort-numeric-cross-kind"
			}
			fail(sig, fmt.Sprintf("rows %d,%d out of the documented order: %s then %s", i-1, i, canon(a), canon(b)))
		case 0:
			o.Stats["sort-pairs-tied-or-not-judged"]++
		default:
			o.Stats["sort-pairs-judged"]++
			if cross {
				o.Stats["sort-pairs-judged-cross-kind"]++
			}
		}
	}
	// page: the contiguous slice of that order (modulo ties)
	lim := rq.lim
	if lim == 0 {
		lim = len(full)
	}
	lo := min(rq.off, len(full))
	hi := lo + min(lim, len(full)-lo)
	if len(res) != hi-lo {
		fail("page-count", fmt.Sprintf("%d rows returned for offset %d limit %d of %d", len(res), rq.off, rq.lim, len(full)))
		return
	}
	pseen := map[uint64]bool{}
	for i, x := range res {
		y := full[lo+i]
		if pseen[x.NodeId] {
			fail("page-duplicate", fmt.Sprintf("node %d twice in one page", x.NodeId))
		}
		pseen[x.NodeId] = true
		tied := true
		if len(rq.sorts) > 0 {
			c1, _ := docOrder(returnedData(x), returnedData(y), rq.sorts)
			c2, _ := docOrder(returnedData(y), returnedData(x), rq.sorts)
			tied = c1 == 0 && c2 == 0
		} else {
			tied = ranked(x) == ranked(y) && (ranked(x) && okey(x.HybridScore) == okey(y.HybridScore) || !ranked(x) && x.NodeId == y.NodeId)
		}
		if !tied {
			fail("page-slice", fmt.Sprintf("position %d of the page (node %d) is not position %d of the whole answer (node %d)", i, x.NodeId, lo+i, y.NodeId))
		}
	}
}

// ---------------------------------------------------------------- witnesses of the findings (deterministic probes)

func (w *world) putDocs(o *vh.Out, docs []map[string]any) []uint64 {
	var pts []models.Point
	var ids []uuid.UUID
	for _, d := range docs {
		id := uuid.New()
		w.points[id] = &mpoint{id: id}
		ids = append(ids, id)
		pts = append(pts, models.Point{Id: id, Data: mustMarshal(d)})
	}
	if err := w.s.InsertPoints(pts); err != nil {
		panic(err)
	}
	w.sync(o)
	nodes := make([]uint64, len(ids))
	for i, id := range ids {
		nodes[i] = w.points[id].node
	}
	return nodes
}

func probes(o *vh.Out, dir, variant string) {
	allG := models.Query{Property: "g", Integer: &models.SearchIntegerOptions{Value: 1, Operator: models.OperatorEquals}}
	// --- explicit sort on numbers: (1) values stored with different msgpack widths, (2) neighbours above
	// 2^53, the ends of int64 / uint64, floats at and beside integers.  Inserted in descending order
	// of value so that the arrival order is the wrong one for the ascending sort.
	sortProbe := func(name string, vals []any) {
		w := newWorld(dir, false, 0, variant)
		o.Emit("new", "new", "ok", false)
		var docs []map[string]any
		for _, v := range vals {
			docs = append(docs, map[string]any{"g": int64(1), "n": v})
		}
		w.putDocs(o, docs)
		for _, desc := range []bool{false, true} {
			rq := request{tree: &qnode{kind: "filter", q: allG}, sel: []string{"n"}, sorts: []models.SortOption{{Property: "n", Descending: desc}}, lim: 100}
			w.answerLeaves(rq.tree)
			res, err := w.s.SearchPoints(rq.sr())
			if err != nil {
				panic(err)
			}
			var got []string
			bad, cross := false, false
			for i, x := range res {
				got = append(got, canon(x.DecodedData["n"]))
				if i > 0 {
					c, judged := docCompare(res[i-1].DecodedData["n"], x.DecodedData["n"])
					if desc {
						c = -c
					}
					if judged && c > 0 && !bad {
						bad = true
						cross = reflect.ValueOf(res[i-1].DecodedData["n"]).Kind() != reflect.ValueOf(x.DecodedData["n"]).Kind()
					}
				}
			}
			before := len(o.Oracle)
			w.search(o, vh.NewRng(1), rq)
			if bad && len(o.Oracle) == before {
				sig, why := "sort-order", "(numbers of one kind out of order)"
				if cross {
					sig, why = "sort-numeric-cross-kind", "(numbers of different kinds are not ordered by value)"
				}
				o.Fail(sig, name+": sort on a numeric field, descending="+fmt.Sprint(desc)+", returns "+strings.Join(got, " ")+" "+why, "new\n"+strings.Join(w.hist, "\n"))
			}
		}
		w.s.Close()
	}
	sortProbe("mixed msgpack widths", []any{int64(1) << 40, uint16(300), uint8(200), int8(5), float64(1.5), int16(-200)})
	sortProbe("neighbouring large integers", []any{int64(1700000000000000003), int64(1700000000000000002), int64(1700000000000000001), int64(1700000000000000000),
		int64(-1700000000000000001), int64(-1700000000000000002), int64(-1700000000000000003)})
	sortProbe("ends of the integer types and floats beside integers", []any{math.Inf(1), float64(1 << 64), uint64(math.MaxUint64), uint64(math.MaxUint64 - 1), uint64(1<<63 + 1), float64(1 << 63),
		int64(math.MaxInt64), int64(math.MaxInt64 - 1), float64(1<<53) + 2, int64(1<<53 + 1), float64(1 << 53), int64(1<<53 - 1), float32(1<<24) + 2, int32(1<<24 + 1), float32(1 << 24),
		uint8(1), float32(0.5), float64(0.25), int8(0), float64(-0.25), int8(-1), float64(-(1 << 53)), int64(-(1 << 53) - 1), int64(math.MinInt64 + 1), float64(-(1 << 63)) * 2, math.Inf(-1)})
	// --- a nested select that runs into a scalar on one point fails the whole search
	{
		w := newWorld(dir, false, 0, variant)
		o.Emit("new", "new", "ok", false)
		w.putDocs(o, []map[string]any{{"g": int64(1), "a": map[string]any{"b": "x"}}, {"g": int64(1), "a": "scalar"}, {"g": int64(1)}})
		rq := request{tree: &qnode{kind: "filter", q: allG}, sel: []string{"a.b"}, lim: 100}
		w.answerLeaves(rq.tree)
		_, err := w.s.SearchPoints(rq.sr())
		before := len(o.Oracle)
		w.search(o, vh.NewRng(1), rq)
		if err != nil && len(o.Oracle) == before {
			o.Fail("select-nested-through-scalar", "select [\"a.b\"]: one point stores a scalar under \"a\" and the whole search fails ("+err.Error()+") although another point has a.b",
				"new\n"+strings.Join(w.hist, "\n"))
		}
		w.s.Close()
	}
	// --- a single ranking sub-query with a negative weight comes back lowest hybrid score first
	{
		w := newWorld(dir, false, 0, variant)
		o.Emit("new", "new", "ok", false)
		var docs []map[string]any
		for i := 0; i < 4; i++ {
			docs = append(docs, map[string]any{"g": int64(1), "v": []float32{float32(i), 0}})
		}
		w.putDocs(o, docs)
		leaf := &qnode{kind: "flat", weight: -1, q: models.Query{Property: "v", VectorFlat: &models.SearchVectorFlatOptions{Vector: []float32{0, 0}, Operator: models.OperatorNear, Limit: 10, Weight: f32p(-1)}}}
		tree := &qnode{kind: "or", subs: []*qnode{leaf}, q: models.Query{Property: "_or", Or: []models.Query{leaf.q}}}
		// the same leaf as a plain query: nearest first, i.e. lowest hybrid score first (index order)
		w.search(o, vh.NewRng(1), request{tree: leaf, lim: 100})
		rq := request{tree: tree, lim: 100}
		before := len(o.Oracle)
		w.search(o, vh.NewRng(1), rq)
		res, err := w.s.SearchPoints(rq.sr())
		if err != nil {
			panic(err)
		}
		var hs []string
		bad := false
		for i, x := range res {
			hs = append(hs, fmt.Sprint(x.HybridScore))
			if i > 0 && res[i-1].HybridScore < x.HybridScore {
				bad = true
			}
		}
		if bad && len(o.Oracle) == before {
			o.Fail("rank-order-single-subquery-negative-weight", "_or with one vectorFlat sub-query of weight -1: hybrid scores come back "+strings.Join(hs, " ")+" (lowest first; with two sub-queries they are re-sorted)",
				"new\n"+strings.Join(w.hist, "\n"))
		}
		w.s.Close()
	}
}

// DESIGN.md §8 no. 10 at shard level, in a child process: offset = MaxInt64
func childPage() {
	w := newWorld("", false, 0, "")
	o := vh.NewOut(os.TempDir() + "/c06-child")
	w.putDocs(o, []map[string]any{{"g": int64(1)}})
	res, err := w.s.SearchPoints(models.SearchRequest{Query: models.Query{Property: "g", Integer: &models.SearchIntegerOptions{Value: 1, Operator: models.OperatorEquals}}, Offset: math.MaxInt64, Limit: 100})
	fmt.Printf("child: %d rows, err=%v\n", len(res), err)
}

func probePage(o *vh.Out) string {
	cmd := exec.Command(os.Args[0], "-child-page")
	out, err := cmd.CombinedOutput()
	if err != nil && strings.Contains(string(out), "slice bounds out of range") {
		o.Fail("page-offset-overflow-panic", "offset 9223372036854775807 limit 100 passes validation; offset+limit wraps and Shard.SearchPoints panics: slice bounds out of range",
			"new\ndoc 2 M{g=I64:1}\nsearch tree=F(2) select=- sort=- off=9223372036854775807 lim=100 variant=pinned pick=-")
		return "pinned"
	}
	if err != nil {
		o.Fail("page-probe-crash", "child process failed: "+string(out), "")
		return "pinned"
	}
	return "repaired"
}

// ---------------------------------------------------------------- pure op lines (kinds, fadd, cmp)

func pureLines(o *vh.Out, r *vh.Rng, n int) {
	samples := []any{nil, true, int8(0), int16(0), int32(0), int64(0), uint8(0), uint16(0), uint32(0), uint64(0), float32(0), float64(0), map[string]any{}, []any{}, []byte{}, ""}
	ks := make([]string, len(samples))
	for i, s := range samples {
		ks[i] = strconv.Itoa(int(reflect.ValueOf(s).Kind()))
	}
	o.Emit("kinds", "kinds", strings.Join(ks, " "), true)
	fpool := []float32{0, float32(math.Copysign(0, -1)), 1, -1, 0.5, 2, -0.25, 1.5, 16, -16, 1e-7, 3.4e38, -3.4e38, 1e-45, 0.30103, -0.10034334}
	for i := 0; i < n; i++ {
		a, b := vh.Pick(r, fpool), vh.Pick(r, fpool)
		if r.Bool() {
			a = math.Float32frombits(uint32(r.U64()))
			b = a * float32(r.Intn(9)-4) / 3
		}
		if a != a || b != b || (a+b) != (a+b) {
			continue
		}
		o.Emit("fadd", "fadd "+bits(a)+" "+bits(b), bits(a+b), true)
	}
	for i := 0; i < 4*n; i++ {
		a, b := genScalar(r), genScalar(r)
		if i >= n {
			// two values around the same base: neighbours, the same value in another width, floats beside integers
			base := vh.Pick(r, bigBases)
			a, b = genBoundary(r, base), genBoundary(r, base)
		}
		if i >= 2*n {
			a, b = genNeighbours(r)
		}
		if r.Chance(20) {
			b = a
		}
		got := utils.CompareAny(a, b)
		line := "cmp " + canon(a) + " " + canon(b)
		o.Emit("cmp", line, strconv.Itoa(got), true)
		// the documented order of two sort values, evaluated exactly
		if want, judged := docCompare(a, b); judged {
			o.Stats["cmp-judged"]++
			if got != want {
				sig := "cmp-order"
				if isNumber(a) && reflect.ValueOf(a).Kind() != reflect.ValueOf(b).Kind() {
					sig = "cmp-numeric-cross-kind"
				}
				o.Fail(sig, fmt.Sprintf("utils.CompareAny(%T %v, %T %v) = %d, the values compare %d", a, a, b, b, got, want), line)
			}
		}
	}
}

// ---------------------------------------------------------------- main

func main() {
	seed := flag.Uint64("seed", 1, "PRNG seed")
	nw := flag.Int("n", 20, "number of worlds")
	nq := flag.Int("q", 25, "requests per world state")
	dir := flag.String("out", "", "output directory")
	replay := flag.String("replay", "", "replay the op lines of this file against the implementation")
	child := flag.Bool("child-page", false, "internal: run the offset-overflow request and exit")
	flag.Parse()
	zerolog.SetGlobalLevel(zerolog.Disabled)
	if *child {
		childPage()
		return
	}
	if *replay != "" {
		doReplay(*replay)
		return
	}
	rng := vh.NewRng(*seed)
	o := vh.NewOut(*dir)
	defer func() {
		if e := recover(); e != nil {
			o.Fail("harness-panic", fmt.Sprint(e), "")
			o.Close(nil)
			fmt.Fprintln(os.Stderr, "harness panic:", e)
			os.Exit(3)
		}
	}()
	variant := probePage(o)
	probes(o, *dir, variant)
	pureLines(o, rng, 300)
	for h := 0; h < *nw; h++ {
		w := newWorld(*dir, h%2 == 0, h, variant)
		if rng.Chance(35) {
			b := vh.Pick(rng, bigBases)
			w.base = &b
		}
		o.Emit("new", "new", "ok", false)
		w.insert(o, rng, 3+rng.Intn(10))
		if rng.Bool() {
			w.insert(o, rng, 1+rng.Intn(6))
		}
		for round := 0; round < 2; round++ {
			for k := 0; k < *nq; k++ {
				w.search(o, rng, genRequest(w, rng))
			}
			w.mutate(o, rng)
		}
		w.s.Close()
	}
	o.Close(map[string]any{
		"rule":         "distinct search op lines with a non-empty answer (or a select error), plus distinct kinds/fadd/cmp lines",
		"page_variant": variant,
	})
}

// replay: rebuild the stored documents from the `doc` lines on a fresh in-memory shard and run the
// recorded requests (field req=) on it; prints the implementation's answer per line with the node
// ids of the replay mapped back to the recorded ones.
func doReplay(path string) {
	f, err := os.Open(path)
	if err != nil {
		panic(err)
	}
	defer f.Close()
	var w *world
	uid := map[uint64]uuid.UUID{}
	o := vh.NewOut(os.TempDir() + "/c06-replay")
	sc := bufio.NewScanner(f)
	sc.Buffer(make([]byte, 1<<20), 1<<26)
	for sc.Scan() {
		line := strings.TrimSpace(sc.Text())
		if line == "" || strings.HasPrefix(line, "#") {
			continue
		}
		fs := strings.Fields(line)
		switch fs[0] {
		case "new":
			w = newWorld("", false, 0, "")
			uid = map[uint64]uuid.UUID{}
			fmt.Println("ok")
		case "doc":
			if w == nil {
				w = newWorld("", false, 0, "")
			}
			mid, _ := strconv.ParseUint(fs[1], 10, 64)
			v, _ := parseVal(fs[2])
			doc := v.(map[string]any)
			if vec, ok := doc["v"].([]any); ok {
				fv := make([]float32, len(vec))
				for i, e := range vec {
					fv[i] = e.(float32)
				}
				doc["v"] = fv
			}
			if old, ok := uid[mid]; ok {
				w.s.DeletePoints(map[uuid.UUID]struct{}{old: {}})
				delete(w.points, old)
			}
			id := uuid.New()
			uid[mid] = id
			w.points[id] = &mpoint{id: id}
			if err := w.s.InsertPoints([]models.Point{{Id: id, Data: mustMarshal(doc)}}); err != nil {
				fmt.Println("error:" + err.Error())
				continue
			}
			w.sync(o)
			fmt.Println("ok")
		case "search":
			var sr models.SearchRequest
			have := false
			for _, kv := range fs[1:] {
				if strings.HasPrefix(kv, "req=") {
					b, _ := base64.StdEncoding.DecodeString(kv[4:])
					have = json.Unmarshal(b, &sr) == nil
				}
			}
			if !have {
				fmt.Println("no req= field: cannot replay this line on the implementation")
				continue
			}
			back := map[uint64]uint64{}
			for m, u := range uid {
				if mp, ok := w.points[u]; ok {
					back[mp.node] = m
				}
			}
			res, err := func() (res []models.SearchResult, err error) {
				defer func() {
					if e := recover(); e != nil {
						err = fmt.Errorf("panic: %v", e)
					}
				}()
				return w.s.SearchPoints(sr)
			}()
			if err != nil {
				fmt.Println("error:" + err.Error())
				continue
			}
			rows := make([]string, len(res))
			for i, x := range res {
				h := "-"
				if x.Score != nil || x.Distance != nil {
					h = bits(x.HybridScore)
				}
				rows[i] = fmt.Sprintf("%d:%s:%s", back[x.NodeId], h, canon(returnedData(x)))
			}
			fmt.Printf("n=%d %s\n", len(res), strings.Join(rows, "|"))
		case "kinds", "fadd", "cmp":
			fmt.Println("(pure line: see the model's answer)")
		default:
			fmt.Println("bad-op")
		}
	}
}
