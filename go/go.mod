module verifharness

go 1.24.3

require (
	github.com/RoaringBitmap/roaring v1.9.4
	github.com/blevesearch/bleve/v2 v2.5.1
	github.com/cespare/xxhash v1.1.0
	github.com/google/uuid v1.6.0
	github.com/rs/zerolog v1.34.0
	github.com/semafind/semadb v0.0.0
	github.com/vmihailenco/msgpack/v5 v5.4.1
	golang.org/x/sys v0.33.0
)

require (
	github.com/beorn7/perks v1.0.1 // indirect
	github.com/bits-and-blooms/bitset v1.22.0 // indirect
	github.com/blevesearch/bleve_index_api v1.2.8 // indirect
	github.com/blevesearch/geo v0.2.3 // indirect
	github.com/blevesearch/go-porterstemmer v1.0.3 // indirect
	github.com/blevesearch/segment v0.9.1 // indirect
	github.com/blevesearch/snowballstem v0.9.0 // indirect
	github.com/blevesearch/upsidedown_store_api v1.0.2 // indirect
	github.com/cespare/xxhash/v2 v2.3.0 // indirect
	github.com/json-iterator/go v1.1.12 // indirect
	github.com/mattn/go-colorable v0.1.14 // indirect
	github.com/mattn/go-isatty v0.0.20 // indirect
	github.com/modern-go/concurrent v0.0.0-20180306012644-bacd9c7ef1dd // indirect
	github.com/modern-go/reflect2 v1.0.2 // indirect
	github.com/munnerz/goautoneg v0.0.0-20191010083416-a7dc8b61c822 // indirect
	github.com/prometheus/client_golang v1.22.0 // indirect
	github.com/prometheus/client_model v0.6.2 // indirect
	github.com/prometheus/common v0.64.0 // indirect
	github.com/prometheus/procfs v0.16.1 // indirect
	github.com/rs/xid v1.6.0 // indirect
	github.com/vmihailenco/tagparser/v2 v2.0.0 // indirect
	go.etcd.io/bbolt v1.4.0 // indirect
	google.golang.org/protobuf v1.36.6 // indirect
)

replace github.com/semafind/semadb => /repo
