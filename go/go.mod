module verifharness

go 1.24.3

require (
	github.com/google/uuid v1.6.0
	github.com/rs/zerolog v1.34.0
	github.com/semafind/semadb v0.0.0
)

require (
	github.com/RoaringBitmap/roaring v1.9.4 // indirect
	github.com/bits-and-blooms/bitset v1.22.0 // indirect
	github.com/mattn/go-colorable v0.1.14 // indirect
	github.com/mattn/go-isatty v0.0.20 // indirect
	github.com/vmihailenco/msgpack/v5 v5.4.1 // indirect
	github.com/vmihailenco/tagparser/v2 v2.0.0 // indirect
	go.etcd.io/bbolt v1.4.0 // indirect
	golang.org/x/sys v0.33.0 // indirect
)

replace github.com/semafind/semadb => /repo
