// generators and oracle helpers shared by the C04 and C08 harnesses
package c04lib

import (
	"verifharness/vh"
)

var Metrics = []string{"euclidean", "cosine", "dot", "haversine", "hamming", "jaccard"}

func RandCfg(r *vh.Rng, prop string, allowProduct bool) FlatCfg {
	c := FlatCfg{Prop: prop, Metric: vh.Pick(r, Metrics)}
	switch c.Metric {
	case "haversine":
		c.Dim = 2
	case "hamming", "jaccard":
		c.Dim = vh.Pick(r, []int{3, 8, 65})
	default:
		c.Dim = vh.Pick(r, []int{2, 4})
	}
	c.BitMetric = vh.Pick(r, []string{"hamming", "jaccard"})
	switch r.Intn(4) {
	case 1:
		c.Quant, c.Thr = QBinFixed, vh.Pick(r, []float32{0, 0.5, 1})
	case 2:
		c.Quant, c.Trigger = QBinLearned, vh.Pick(r, []int{0, 3, 6, 10})
	case 3:
		if allowProduct && c.Metric != "haversine" && c.Metric != "hamming" && c.Metric != "jaccard" {
			c.Quant, c.Dim, c.NumSub, c.NumCent, c.Trigger = QProduct, 4, 2, vh.Pick(r, []int{2, 3}), vh.Pick(r, []int{4, 7, 10})
		}
	}
	return c
}

func RandVec(r *vh.Rng, c FlatCfg) []float32 {
	v := make([]float32, c.Dim)
	for i := range v {
		switch c.Metric {
		case "hamming", "jaccard":
			v[i] = vh.Pick(r, []float32{0, 1, 1, 0, 0.5, 2})
		case "haversine":
			v[i] = float32(r.Intn(7) - 3)
		default:
			v[i] = float32(r.Intn(5) - 2)
		}
	}
	return v
}

// ProdEncode: productQuantizer.encode re-stated (nearest centroid per sub-vector, first minimum)
func ProdEncode(c FlatCfg, cents, v []float32) []byte {
	st := StoreState{Cfg: c}
	sub := c.Dim / c.NumSub
	out := make([]byte, c.NumSub)
	un := c
	un.Quant = QNone
	if un.Metric == "cosine" {
		un.Metric = "euclidean"
	}
	st.Cfg = un
	for i := 0; i < c.NumSub; i++ {
		best, bid := float32(3.4028234663852886e38), 0
		for j := 0; j < c.NumCent; j++ {
			start := i*c.NumCent*sub + j*sub
			d := st.Dist(v[i*sub:(i+1)*sub], cents[start:start+sub], nil)
			if d < best {
				best, bid = d, j
			}
		}
		out[i] = byte(bid)
	}
	return out
}
