package c04lib

// Poisoning storage proxy (installed with Shard.VerifWrapDB).
//
// The storage layer's contract (diskstore.Bucket over bbolt): a byte slice handed out by Get or
// passed to a ForEach / PrefixScan / RangeScan callback is valid for the life of the transaction
// only. Whatever is to live longer (a cached point, a cached graph node, a returned document) must
// be a COPY. With real bbolt a retained alias keeps reading the old bytes until some later commit
// recycles the page or the file is remapped, so a violation shows up late, rarely, and as a wrong
// answer or a fault depending on the allocator. This proxy makes it deterministic: it never hands
// out bbolt's memory but a private copy of every key and value, remembers the copies of the
// transaction, and when the transaction has ended (committed, rolled back or read-only) it flips
// the lowest bit of every byte of every copy. A holder of an alias then computes with bytes that
// differ everywhere from what was stored (a product code 0 becomes 1, a float changes by one unit
// in its lowest mantissa byte, a node id n becomes n^0x0101…) — a wrong answer that the warm /
// cold comparison sees at once; code that copies is unaffected.
//
// Everything else (Put, Delete, bucket creation, commit, backup) is passed through unchanged.
//
// Late storage fault: FailWrites(n) makes the next n write transactions fail AFTER their closure has
// run to completion without error (the moment a commit fails: I/O error, disk full): the injected
// error is returned from inside the real transaction, so bbolt rolls it back. Every index goroutine
// has finished by then, so this does not run into the known C07 finding (goroutines of a batch
// rejected mid-pipeline touch the rolled-back transaction).

import (
	"errors"
	"sync"
	"sync/atomic"

	"github.com/semafind/semadb/diskstore"
)

type PoisonStore struct {
	Inner diskstore.DiskStore
	// statistics (how much was handed out and poisoned): evidence that the proxy was in the path
	Txs, Slices, Bytes atomic.Int64
	failWrites         atomic.Int32
	Faults             atomic.Int64 // write transactions made to fail
}

var ErrInjected = errors.New("injected storage fault at commit time")

func (s *PoisonStore) FailWrites(n int) { s.failWrites.Store(int32(n)) }

func NewPoisonStore(inner diskstore.DiskStore) *PoisonStore { return &PoisonStore{Inner: inner} }

type poisonTx struct {
	mu     sync.Mutex
	copies [][]byte
	st     *PoisonStore
}

func (t *poisonTx) lend(b []byte) []byte {
	if b == nil {
		return nil
	}
	c := make([]byte, len(b))
	copy(c, b)
	t.mu.Lock()
	t.copies = append(t.copies, c)
	t.mu.Unlock()
	return c
}

// end: the transaction is over; every slice lent during it turns into garbage
func (t *poisonTx) end() {
	t.mu.Lock()
	defer t.mu.Unlock()
	n := int64(0)
	for _, c := range t.copies {
		for i := range c {
			c[i] ^= 0x01
		}
		n += int64(len(c))
	}
	t.st.Txs.Add(1)
	t.st.Slices.Add(int64(len(t.copies)))
	t.st.Bytes.Add(n)
	t.copies = nil
}

func (s *PoisonStore) Path() string { return s.Inner.Path() }
func (s *PoisonStore) Read(f func(diskstore.BucketManager) error) error {
	t := &poisonTx{st: s}
	defer t.end()
	return s.Inner.Read(func(bm diskstore.BucketManager) error { return f(&poisonBM{bm, t}) })
}
func (s *PoisonStore) Write(f func(diskstore.BucketManager) error) error {
	t := &poisonTx{st: s}
	defer t.end() // after the inner Write has returned: committed or rolled back
	return s.Inner.Write(func(bm diskstore.BucketManager) error {
		if err := f(&poisonBM{bm, t}); err != nil {
			return err
		}
		if s.failWrites.Load() > 0 {
			s.failWrites.Add(-1)
			s.Faults.Add(1)
			return ErrInjected
		}
		return nil
	})
}
func (s *PoisonStore) BackupToFile(path string) error { return s.Inner.BackupToFile(path) }
func (s *PoisonStore) SizeInBytes() (int64, error)    { return s.Inner.SizeInBytes() }
func (s *PoisonStore) Close() error                   { return s.Inner.Close() }

type poisonBM struct {
	inner diskstore.BucketManager
	t     *poisonTx
}

func (bm *poisonBM) Get(name string) (diskstore.Bucket, error) {
	b, err := bm.inner.Get(name)
	if err != nil {
		return nil, err
	}
	return &poisonBucket{b, bm.t}, nil
}
func (bm *poisonBM) Delete(name string) error { return bm.inner.Delete(name) }

type poisonBucket struct {
	inner diskstore.Bucket
	t     *poisonTx
}

func (b *poisonBucket) IsReadOnly() bool         { return b.inner.IsReadOnly() }
func (b *poisonBucket) Get(k []byte) []byte      { return b.t.lend(b.inner.Get(k)) }
func (b *poisonBucket) Put(k, v []byte) error    { return b.inner.Put(k, v) }
func (b *poisonBucket) Delete(k []byte) error    { return b.inner.Delete(k) }
func (b *poisonBucket) ForEach(f func(k, v []byte) error) error {
	return b.inner.ForEach(func(k, v []byte) error { return f(b.t.lend(k), b.t.lend(v)) })
}
func (b *poisonBucket) PrefixScan(prefix []byte, f func(k, v []byte) error) error {
	return b.inner.PrefixScan(prefix, func(k, v []byte) error { return f(b.t.lend(k), b.t.lend(v)) })
}
func (b *poisonBucket) RangeScan(start, end []byte, inclusive bool, f func(k, v []byte) error) error {
	return b.inner.RangeScan(start, end, inclusive, func(k, v []byte) error { return f(b.t.lend(k), b.t.lend(v)) })
}
