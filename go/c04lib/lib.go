// Package c04lib: code shared by the C04 and C08 correspondence harnesses — real shards driven
// through histories of batches (live / reopened copy / cache disabled / evicting / memory backed),
// bucket dumps, the brute-force oracle for flat vector search and the canonical answer forms.
package c04lib

import (
	"encoding/binary"
	"encoding/hex"
	"fmt"
	"math"
	"os"
	"path/filepath"
	"sort"
	"strings"

	"github.com/google/uuid"
	"github.com/semafind/semadb/conversion"
	"github.com/semafind/semadb/diskstore"
	"github.com/semafind/semadb/distance"
	"github.com/semafind/semadb/models"
	"github.com/semafind/semadb/shard"
	"github.com/semafind/semadb/shard/cache"
	"github.com/vmihailenco/msgpack/v5"
)

// ---------------------------------------------------------------- flat index configurations

type Quant int

const (
	QNone Quant = iota
	QBinFixed
	QBinLearned
	QProduct
)

func (q Quant) String() string { return [...]string{"none", "binfixed", "binlearned", "product"}[q] }

type FlatCfg struct {
	Prop      string
	Metric    string
	Quant     Quant
	Dim       int
	Thr       float32 // fixed binary threshold
	BitMetric string  // hamming | jaccard (binary quantiser)
	Trigger   int
	NumSub    int
	NumCent   int
}

// Eff: the configuration the store really runs with (vectorstore.New overrides the quantiser for
// hamming / jaccard by a binary quantiser with fixed threshold 0.5).
func (c FlatCfg) Eff() FlatCfg {
	if c.Metric == models.DistanceHamming || c.Metric == models.DistanceJaccard {
		c.Quant, c.Thr, c.BitMetric = QBinFixed, 0.5, c.Metric
	}
	return c
}

func (c FlatCfg) Quantizer() *models.Quantizer {
	switch c.Quant {
	case QBinFixed:
		t := c.Thr
		return &models.Quantizer{Type: models.QuantizerBinary, Binary: &models.BinaryQuantizerParamaters{Threshold: &t, DistanceMetric: c.BitMetric}}
	case QBinLearned:
		return &models.Quantizer{Type: models.QuantizerBinary, Binary: &models.BinaryQuantizerParamaters{TriggerThreshold: c.Trigger, DistanceMetric: c.BitMetric}}
	case QProduct:
		return &models.Quantizer{Type: models.QuantizerProduct, Product: &models.ProductQuantizerParameters{NumCentroids: c.NumCent, NumSubVectors: c.NumSub, TriggerThreshold: c.Trigger}}
	}
	return nil
}

func (c FlatCfg) Schema() models.IndexSchemaValue {
	return models.IndexSchemaValue{Type: models.IndexTypeVectorFlat, VectorFlat: &models.IndexVectorFlatParameters{VectorSize: uint(c.Dim), DistanceMetric: c.Metric, Quantizer: c.Quantizer()}}
}

func (c FlatCfg) Bucket() string { return "index/" + models.IndexTypeVectorFlat + "/" + c.Prop }

// model kind and `new` line arguments
func (c FlatCfg) ModelNew() string {
	e := c.Eff()
	switch e.Quant {
	case QNone:
		return "plain - 0"
	case QBinFixed:
		thr := make([]float32, e.Dim)
		for i := range thr {
			thr[i] = e.Thr
		}
		return "binary " + hex.EncodeToString(F32Bytes(thr)) + " 0"
	case QBinLearned:
		return fmt.Sprintf("binary - %d", e.Trigger)
	default:
		return fmt.Sprintf("product - %d", e.Trigger)
	}
}

func (c FlatCfg) String() string {
	e := c.Eff()
	return fmt.Sprintf("%s/%s/d%d/t%d", c.Metric, e.Quant, c.Dim, c.Trigger)
}

const (
	BinThresholdKey  = "_binaryQuantizerThreshold"
	ProdCentDistsKey = "_productQuantizerCentroidDists"
	ProdFlatCentsKey = "_productQuantizerFlatCentroids"
	VamanaMaxNodeKey = "_vamanaMaxNodeId"
	TextNumDocsKey   = "_numDocuments"
	PointsBucket     = "points"
)

// ---------------------------------------------------------------- bytes

func F32Bytes(v []float32) []byte {
	b := make([]byte, 4*len(v))
	for i, x := range v {
		binary.LittleEndian.PutUint32(b[4*i:], math.Float32bits(x))
	}
	return b
}

func BytesF32(b []byte) []float32 {
	v := make([]float32, len(b)/4)
	for i := range v {
		v[i] = math.Float32frombits(binary.LittleEndian.Uint32(b[4*i:]))
	}
	return v
}

func U64Bytes(v []uint64) []byte {
	b := make([]byte, 8*len(v))
	for i, x := range v {
		binary.LittleEndian.PutUint64(b[8*i:], x)
	}
	return b
}

func Hex(b []byte) string {
	if len(b) == 0 {
		return "-"
	}
	return hex.EncodeToString(b)
}

func NodeKey(id uint64, s byte) string { return string(conversion.NodeKey(id, s)) }

// BinEncode: binaryQuantizer.encode re-stated (bit i set iff v[i] > thr[i])
func BinEncode(v, thr []float32) []uint64 {
	n := (len(v) + 63) / 64
	out := make([]uint64, n)
	for i, x := range v {
		if x > thr[i] {
			out[i/64] |= 1 << (i % 64)
		}
	}
	return out
}

// OrdKey: order-preserving map of float32 values into uint32 (-0.0 and +0.0 share a key; NaN is
// reported separately and never sent to the model)
func OrdKey(f float32) uint32 {
	if f == 0 {
		f = 0
	}
	b := math.Float32bits(f)
	if b&0x80000000 != 0 {
		return ^b
	}
	return b | 0x80000000
}

// ---------------------------------------------------------------- shards

type Dump map[string][]byte

func DumpBucket(s *shard.Shard, name string) Dump {
	out := Dump{}
	err := s.VerifDB().Read(func(bm diskstore.BucketManager) error {
		b, err := bm.Get(name)
		if err != nil {
			return err
		}
		return b.ForEach(func(k, v []byte) error {
			out[string(k)] = append([]byte{}, v...)
			return nil
		})
	})
	if err != nil {
		panic(err)
	}
	return out
}

// Digest in the model's format: key=value,… in key order
func (d Dump) Digest() string {
	if len(d) == 0 {
		return "-"
	}
	keys := make([]string, 0, len(d))
	for k := range d {
		keys = append(keys, k)
	}
	sort.Strings(keys)
	parts := make([]string, len(keys))
	for i, k := range keys {
		parts[i] = Hex([]byte(k)) + "=" + Hex(d[k])
	}
	return strings.Join(parts, ",")
}

// NodeIds: uuid -> node id, from the points bucket
func NodeIds(points Dump) map[uuid.UUID]uint64 {
	out := map[uuid.UUID]uint64{}
	for k, v := range points {
		if len(k) == 18 && k[0] == 'p' && k[17] == 'i' {
			var u uuid.UUID
			copy(u[:], k[1:17])
			out[u] = binary.LittleEndian.Uint64(v)
		}
	}
	return out
}

type Doc map[string]any

func (d Doc) Clone() Doc {
	c := Doc{}
	for k, v := range d {
		c[k] = v
	}
	return c
}

func Encode(d Doc) []byte {
	b, err := msgpack.Marshal(map[string]any(d))
	if err != nil {
		panic(err)
	}
	return b
}

type Variant struct {
	Name    string
	Shard   *shard.Shard
	Path    string
	MgrSize int64
	Poison  *PoisonStore // non-nil: the storage handle is wrapped by the poisoning proxy (poison.go)
	Opens   int          // how many times this variant was (re)opened
}

// Sim: several real shards fed the same batches + the shadow collection
type Sim struct {
	Col      models.Collection
	Dir      string
	Variants []*Variant // [0] is the live, warm shard
	Docs     map[uuid.UUID]Doc
	Order    []uuid.UUID // insertion order of live ids (stable choice of victims)
	nCold    int
}

func NewCollection(schema models.IndexSchema) models.Collection {
	return models.Collection{UserId: "u", Id: "c", Replicas: 1, IndexSchema: schema,
		UserPlan: models.UserPlan{Name: "t", MaxCollections: 1, MaxCollectionPointCount: 1 << 30, MaxPointSize: 1 << 20}}
}

// variants: name -> cache manager size; "mem" uses the memory backend with an unlimited cache;
// "restart" is a file-backed shard with an unlimited cache behind the poisoning storage proxy that
// the harness closes and reopens at chosen points of the history (Reopen): its cache is filled by
// READS and then lives across further batches. A name with the suffix "+poison" puts that variant
// behind the poisoning proxy as well.
func NewSim(dir string, schema models.IndexSchema, variants []string) *Sim {
	s := &Sim{Col: NewCollection(schema), Dir: dir, Docs: map[uuid.UUID]Doc{}}
	for _, v := range variants {
		name, poison := strings.CutSuffix(v, "+poison")
		vr := &Variant{Name: name, Path: filepath.Join(dir, name+".bbolt")}
		switch name {
		case "live":
			vr.MgrSize = -1
		case "disabled":
			vr.MgrSize = 0
		case "evicting":
			vr.MgrSize = 64 // a few points: every index cache is pruned right after use
		case "lru":
			vr.MgrSize = 600 // room for some caches, not all: LRU eviction of whole caches
		case "mem":
			vr.MgrSize = -1
			vr.Path = ""
		case "restart":
			vr.MgrSize = -1
			poison = true
		default:
			panic("unknown variant " + v)
		}
		if poison {
			vr.Poison = &PoisonStore{}
		}
		s.open(vr)
		s.Variants = append(s.Variants, vr)
	}
	return s
}

func (s *Sim) open(vr *Variant) {
	sh, err := shard.NewShard(vr.Path, s.Col, cache.NewManager(vr.MgrSize))
	if err != nil {
		panic(err)
	}
	if vr.Poison != nil {
		sh.VerifWrapDB(func(d diskstore.DiskStore) diskstore.DiskStore { vr.Poison.Inner = d; return vr.Poison })
	}
	vr.Shard = sh
	vr.Opens++
}

func (s *Sim) Variant(name string) *Variant {
	for _, v := range s.Variants {
		if v.Name == name {
			return v
		}
	}
	return nil
}

// Reopen: close the variant's shard and open a new one (fresh cache manager) on the same file — a
// restart of the server. No-op for an unknown name or the memory backend.
func (s *Sim) Reopen(name string) {
	vr := s.Variant(name)
	if vr == nil || vr.Path == "" {
		return
	}
	if err := vr.Shard.Close(); err != nil {
		panic(err)
	}
	s.open(vr)
}

func (s *Sim) Live() *shard.Shard { return s.Variants[0].Shard }

func (s *Sim) Close() {
	for _, v := range s.Variants {
		v.Shard.Close()
	}
}

// OpenCopy: a fresh shard on a consistent copy of the live db file (cold start), with the given
// cache manager size
func (s *Sim) OpenCopy(mgrSize int64) (*shard.Shard, func()) {
	return s.OpenCopyOf(s.Variants[0], mgrSize)
}

// OpenCopyOf: the same for the file of any file-backed variant
func (s *Sim) OpenCopyOf(vr *Variant, mgrSize int64) (*shard.Shard, func()) {
	s.nCold++
	path := filepath.Join(s.Dir, fmt.Sprintf("cold%d.bbolt", s.nCold))
	if err := vr.Shard.VerifDB().BackupToFile(path); err != nil {
		panic(err)
	}
	sh, err := shard.NewShard(path, s.Col, cache.NewManager(mgrSize))
	if err != nil {
		panic(err)
	}
	return sh, func() { sh.Close(); os.Remove(path) }
}

// ApplyFaulted: the batch is given ONLY to the variants behind the storage proxy, with a storage
// fault armed at commit time: each must report an error, and nothing of the batch is committed (the
// shadow collection and the other variants never see it). Returns "" or what went wrong.
func (s *Sim) ApplyFaulted(b Batch) string {
	pts := make([]models.Point, len(b.Changes))
	set := map[uuid.UUID]struct{}{}
	for i, c := range b.Changes {
		set[c.Id] = struct{}{}
		if c.Doc != nil {
			pts[i] = models.Point{Id: c.Id, Data: Encode(c.Doc)}
		}
	}
	for _, v := range s.Variants {
		if v.Poison == nil {
			continue
		}
		v.Poison.FailWrites(1)
		var err error
		switch b.Kind {
		case "insert":
			err = v.Shard.InsertPoints(pts)
		case "update":
			_, err = v.Shard.UpdatePoints(pts)
		case "delete":
			_, err = v.Shard.DeletePoints(set)
		}
		v.Poison.FailWrites(0)
		if err == nil {
			return fmt.Sprintf("%s: the %s batch reported success although its storage transaction failed", v.Name, b.Kind)
		}
	}
	return ""
}

type Change struct {
	Id  uuid.UUID
	Doc Doc // insert: the document; update: the partial document ("_delete" removes); delete: nil
}

type Batch struct {
	Kind    string // insert | update | delete
	Changes []Change
}

// Apply the batch to every shard and to the shadow collection. Returns, per change in order, the
// document before and after (nil = absent). Batches are valid by construction (DESIGN §8 no. 4:
// a batch rejected mid-pipeline can crash the process).
func (s *Sim) Apply(b Batch) (before, after []Doc, err error) {
	switch b.Kind {
	case "insert":
		pts := make([]models.Point, len(b.Changes))
		for i, c := range b.Changes {
			pts[i] = models.Point{Id: c.Id, Data: Encode(c.Doc)}
		}
		for _, v := range s.Variants {
			if e := v.Shard.InsertPoints(pts); e != nil {
				return nil, nil, fmt.Errorf("%s: insert: %w", v.Name, e)
			}
		}
		for _, c := range b.Changes {
			before = append(before, nil)
			after = append(after, c.Doc.Clone())
			s.Docs[c.Id] = c.Doc.Clone()
			s.Order = append(s.Order, c.Id)
		}
	case "update":
		pts := make([]models.Point, len(b.Changes))
		for i, c := range b.Changes {
			pts[i] = models.Point{Id: c.Id, Data: Encode(c.Doc)}
		}
		for _, v := range s.Variants {
			if _, e := v.Shard.UpdatePoints(pts); e != nil {
				return nil, nil, fmt.Errorf("%s: update: %w", v.Name, e)
			}
		}
		for _, c := range b.Changes {
			old, ok := s.Docs[c.Id]
			if !ok {
				before = append(before, nil)
				after = append(after, nil)
				continue
			}
			before = append(before, old.Clone())
			nd := old.Clone()
			for k, val := range c.Doc {
				if sv, isS := val.(string); isS && sv == "_delete" {
					delete(nd, k)
				} else {
					nd[k] = val
				}
			}
			s.Docs[c.Id] = nd
			after = append(after, nd.Clone())
		}
	case "delete":
		set := map[uuid.UUID]struct{}{}
		for _, c := range b.Changes {
			set[c.Id] = struct{}{}
		}
		for _, v := range s.Variants {
			if _, e := v.Shard.DeletePoints(set); e != nil {
				return nil, nil, fmt.Errorf("%s: delete: %w", v.Name, e)
			}
		}
		for _, c := range b.Changes {
			old, ok := s.Docs[c.Id]
			if !ok {
				before = append(before, nil)
				after = append(after, nil)
				continue
			}
			before = append(before, old.Clone())
			after = append(after, nil)
			delete(s.Docs, c.Id)
		}
		live := s.Order[:0]
		for _, id := range s.Order {
			if _, ok := s.Docs[id]; ok {
				live = append(live, id)
			}
		}
		s.Order = live
	default:
		panic("unknown batch kind")
	}
	return
}

// ---------------------------------------------------------------- answers

type Hit struct {
	Id     uuid.UUID
	Dist   *float32
	Score  *float32
	Hybrid float32
}

func Search(sh *shard.Shard, q models.Query) (hits []Hit, err error) {
	defer func() {
		if r := recover(); r != nil {
			err = fmt.Errorf("panic: %v", r)
		}
	}()
	res, e := sh.SearchPoints(models.SearchRequest{Query: q, Limit: 100000})
	if e != nil {
		return nil, e
	}
	for _, r := range res {
		hits = append(hits, Hit{Id: r.Point.Id, Dist: r.Distance, Score: r.Score, Hybrid: r.HybridScore})
	}
	return hits, nil
}

// Cand: a candidate of a flat search as the oracle sees it
type Cand struct {
	Id   uuid.UUID
	Node uint64
	Dist float32
	Pass bool
	// the documented metric evaluated INDEPENDENTLY of the repository's distance package (RefDist), when HasRef
	Ref, Tol float64
	HasRef   bool
}

// FlatCanon: canonical form of a flat answer (same as Sema.C04.canonical): distance sequence,
// then per distance value the sorted members if the whole group of passing candidates is inside the
// answer, otherwise only their number. Ids are node ids of the live shard.
func FlatCanon(cands []Cand, hits []Hit) string {
	node := map[uuid.UUID]uint64{}
	total := map[uint32]int{}
	for _, c := range cands {
		node[c.Id] = c.Node
		if c.Pass {
			total[OrdKey(c.Dist)]++
		}
	}
	var ds []string
	var order []uint32
	members := map[uint32][]uint64{}
	for _, h := range hits {
		k := uint32(0)
		if h.Dist != nil {
			k = OrdKey(*h.Dist)
		}
		ds = append(ds, fmt.Sprintf("%08x", k))
		if _, ok := members[k]; !ok {
			order = append(order, k)
		}
		members[k] = append(members[k], node[h.Id])
	}
	var gs []string
	for _, k := range order {
		m := members[k]
		sort.Slice(m, func(i, j int) bool { return m[i] < m[j] })
		if len(m) == total[k] {
			p := make([]string, len(m))
			for i, x := range m {
				p[i] = fmt.Sprintf("%016x", x)
			}
			gs = append(gs, fmt.Sprintf("%08x:[%s]", k, strings.Join(p, ",")))
		} else {
			gs = append(gs, fmt.Sprintf("%08x:#%d", k, len(m)))
		}
	}
	return fmt.Sprintf("n=%d d=%s g=%s", len(hits), strings.Join(ds, ","), strings.Join(gs, ";"))
}

// SearchLine: the op line for the model (`search <limit> id:dist:pass;…`), candidates in node order
func SearchLine(limit int, cands []Cand) string {
	cs := append([]Cand{}, cands...)
	sort.Slice(cs, func(i, j int) bool { return cs[i].Node < cs[j].Node })
	p := make([]string, len(cs))
	for i, c := range cs {
		pass := "0"
		if c.Pass {
			pass = "1"
		}
		p[i] = fmt.Sprintf("%016x:%08x:%s", c.Node, OrdKey(c.Dist), pass)
	}
	if len(p) == 0 {
		return fmt.Sprintf("search %d -", limit)
	}
	return fmt.Sprintf("search %d %s", limit, strings.Join(p, ";"))
}

// FlatOracle: the property itself, evaluated on a real answer. "" = holds.
func FlatOracle(limit int, weight *float32, cands []Cand, hits []Hit) string {
	by := map[uuid.UUID]Cand{}
	npass := 0
	for _, c := range cands {
		by[c.Id] = c
		if c.Pass {
			npass++
		}
	}
	want := limit
	if npass < want {
		want = npass
	}
	if len(hits) != want {
		return fmt.Sprintf("length %d, expected min(limit %d, candidates %d)", len(hits), limit, npass)
	}
	seen := map[uuid.UUID]bool{}
	w := float32(1)
	if weight != nil {
		w = *weight
	}
	for i, h := range hits {
		c, ok := by[h.Id]
		if !ok {
			return fmt.Sprintf("result %d (%s) is not a live point carrying the field", i, h.Id)
		}
		if !c.Pass {
			return fmt.Sprintf("result %d (%s) does not pass the pre-filter", i, h.Id)
		}
		if seen[h.Id] {
			return fmt.Sprintf("result %d (%s) returned twice", i, h.Id)
		}
		seen[h.Id] = true
		if h.Dist == nil {
			return fmt.Sprintf("result %d has no distance", i)
		}
		if math.Float32bits(*h.Dist) != math.Float32bits(c.Dist) && !(*h.Dist == 0 && c.Dist == 0) {
			return fmt.Sprintf("result %d (%s): reported distance %v (%08x), metric says %v (%08x)", i, h.Id, *h.Dist, math.Float32bits(*h.Dist), c.Dist, math.Float32bits(c.Dist))
		}
		if c.HasRef && !(math.Abs(float64(*h.Dist)-c.Ref) <= c.Tol) {
			return fmt.Sprintf("result %d (%s): reported distance %v, the documented metric evaluated independently (float64 formula, not the repository's distance package) gives %v (rounding tolerance %g)", i, h.Id, *h.Dist, c.Ref, c.Tol)
		}
		if i > 0 && *hits[i-1].Dist > *h.Dist {
			return fmt.Sprintf("result %d is closer than result %d", i, i-1)
		}
		if hy := -1 * w * *h.Dist; math.Float32bits(hy) != math.Float32bits(h.Hybrid) && !(hy == 0 && h.Hybrid == 0) {
			return fmt.Sprintf("result %d: hybrid score %v, expected -weight*distance = %v", i, h.Hybrid, hy)
		}
	}
	if len(hits) > 0 {
		last := *hits[len(hits)-1].Dist
		for _, c := range cands {
			if c.Pass && !seen[c.Id] && c.Dist < last {
				return fmt.Sprintf("candidate %s at distance %v is left out although the last result is at %v", c.Id, c.Dist, last)
			}
		}
	}
	return ""
}

// ---------------------------------------------------------------- metric (oracle side)

// StoreState: what the oracle needs to know about a flat index' quantiser, read from the bucket
type StoreState struct {
	Cfg       FlatCfg
	Trained   bool
	Threshold []float32 // binary
	Centroids []float32 // product: flat centroids
}

func ReadStoreState(cfg FlatCfg, d Dump) StoreState {
	e := cfg.Eff()
	st := StoreState{Cfg: e}
	switch e.Quant {
	case QBinFixed:
		st.Trained = true
		st.Threshold = make([]float32, e.Dim)
		for i := range st.Threshold {
			st.Threshold[i] = e.Thr
		}
	case QBinLearned:
		if b, ok := d[BinThresholdKey]; ok && len(b) > 0 {
			st.Trained, st.Threshold = true, BytesF32(b)
		}
	case QProduct:
		if b, ok := d[ProdFlatCentsKey]; ok && len(b) > 0 {
			st.Trained, st.Centroids = true, BytesF32(b)
		}
	}
	return st
}

// ---- the documented metrics, written here from their definitions (no call into the repository's distance package)

const u32 = 1.0 / (1 << 24) // unit roundoff of float32

func gamma(k int) float64 { return 1.01 * float64(k) * u32 / (1 - float64(k)*u32) }

// float64 value of the metric and the worst-case error of ANY float32 evaluation of it (any summation order, fused or not)
func refFloatMetric(name string, x, y []float32) (ref, tol float64, ok bool) {
	n := len(x)
	switch name {
	case models.DistanceEuclidean:
		var s float64
		for i := range x {
			d := float64(x[i]) - float64(y[i])
			s += d * d
		}
		return s, gamma(n+3)*s + float64(n+1)*math.Ldexp(1, -148), true
	case models.DistanceDot, models.DistanceCosine:
		var s, abs float64
		for i := range x {
			p := float64(x[i]) * float64(y[i])
			s += p
			abs += math.Abs(p)
		}
		t := gamma(n+1)*abs + float64(n+1)*math.Ldexp(1, -148)
		if name == models.DistanceDot {
			return -s, t, true
		}
		return 1 - s, t + 1.01*u32*math.Abs(1-s), true
	case models.DistanceHaversine:
		if n < 2 || len(y) < 2 {
			return 0, 0, false
		}
		const d2r = 0.017453292519943295769236907684886 // pi / 180
		la1, lo1, la2, lo2 := float64(x[0])*d2r, float64(x[1])*d2r, float64(y[0])*d2r, float64(y[1])*d2r
		s1, s2 := math.Sin((la1-la2)/2), math.Sin((lo1-lo2)/2)
		a := s1*s1 + math.Cos(la1)*math.Cos(la2)*s2*s2
		if a > 1 {
			a = 1
		}
		r := 6371000 * 2 * math.Asin(math.Sqrt(a))
		return r, math.Abs(r)*math.Ldexp(1, -22) + 1e-3 + 1, true
	}
	return 0, 0, false
}

func popcount(x uint64) int {
	c := 0
	for ; x != 0; x &= x - 1 {
		c++
	}
	return c
}

// RefDist: the distance the property demands, from the definitions: the configured metric; for a trained binary
// quantiser the bit metric of the two thresholded vectors; for a trained product quantiser the sum over the sub-vectors
// of the metric between the query's sub-vector and the point's centroid.  ok = false: no reference (non-finite values).
func (st StoreState) RefDist(query, vec []float32, code []byte) (ref, tol float64, ok bool) {
	e := st.Cfg
	fin := func(r, t float64, k bool) (float64, float64, bool) {
		if !k || math.IsNaN(r) || math.IsInf(r, 0) || math.IsNaN(t) || math.IsInf(t, 0) {
			return 0, 0, false
		}
		return r, t, true
	}
	switch e.Quant {
	case QBinFixed, QBinLearned:
		if st.Trained {
			bx, by := BinEncode(query, st.Threshold), BinEncode(vec, st.Threshold)
			diff, inter, union := 0, 0, 0
			for i := range bx {
				diff += popcount(bx[i] ^ by[i])
				inter += popcount(bx[i] & by[i])
				union += popcount(bx[i] | by[i])
			}
			if e.BitMetric == models.DistanceHamming {
				return float64(diff), 0, true
			}
			if union == 0 {
				return 0, 0, true
			}
			return float64(1 - float32(inter)/float32(union)), 0, true
		}
	case QProduct:
		name := e.Metric
		if name == models.DistanceCosine {
			name = models.DistanceEuclidean // product.go: cosine is replaced by (squared) euclidean
		}
		if !st.Trained {
			return fin(refFloatMetric(name, query, vec))
		}
		sub := e.Dim / e.NumSub
		var sum, tsum, abs float64
		for i := 0; i < e.NumSub; i++ {
			start := i*e.NumCent*sub + int(code[i])*sub
			r, t, k := refFloatMetric(name, query[i*sub:(i+1)*sub], st.Centroids[start:start+sub])
			if !k {
				return 0, 0, false
			}
			sum += r
			tsum += t
			abs += math.Abs(r) + t
		}
		return fin(sum, tsum+gamma(e.NumSub+1)*abs, true)
	}
	return fin(refFloatMetric(e.Metric, query, vec))
}

// Dist: the distance the property demands for a stored vector: the configured metric, or the
// quantised distance once the quantiser is trained. code = the stored product code (oracle input).
func (st StoreState) Dist(query, vec []float32, code []byte) float32 {
	e := st.Cfg
	switch e.Quant {
	case QBinFixed, QBinLearned:
		if st.Trained {
			fn, _ := distance.GetBitDistanceFn(e.BitMetric)
			return fn(BinEncode(query, st.Threshold), BinEncode(vec, st.Threshold))
		}
	case QProduct:
		// the product quantiser replaces cosine by (squared) euclidean, trained or not (product.go)
		name := e.Metric
		if name == models.DistanceCosine {
			name = models.DistanceEuclidean
		}
		fn, _ := distance.GetFloatDistanceFn(name)
		if !st.Trained {
			return fn(query, vec)
		}
		sub := e.Dim / e.NumSub
		var d float32
		for i := 0; i < e.NumSub; i++ {
			start := i*e.NumCent*sub + int(code[i])*sub
			d += fn(query[i*sub:(i+1)*sub], st.Centroids[start:start+sub])
		}
		return d
	}
	fn, _ := distance.GetFloatDistanceFn(e.Metric)
	return fn(query, vec)
}
