package c04lib

import (
	"encoding/json"
	"fmt"
	"os"
	"os/exec"
	"path/filepath"
	"strings"
)

// Isolation of the harness proper in a child process: a fatal runtime error in the code under test
// (SIGSEGV in a kernel, a bbolt page access after rollback — DESIGN §8 no. 4) cannot be recovered
// in-process and would otherwise end the run without a verdict. The child records what it is about
// to do (Progress); if it dies, the parent turns that into an oracle failure with a replay.

const childEnv = "VERIF_HARNESS_CHILD"

var progressPath string

// Isolate returns true in the child (which does the work). In the parent it runs the child and,
// if the child crashed, writes the result files itself; then it exits.
func Isolate(outDir string) bool {
	progressPath = filepath.Join(outDir, "current.txt")
	if os.Getenv(childEnv) == "1" || outDir == "" {
		return true
	}
	if err := os.MkdirAll(outDir, 0o755); err != nil {
		panic(err)
	}
	cmd := exec.Command(os.Args[0], os.Args[1:]...)
	cmd.Env = append(os.Environ(), childEnv+"=1")
	cmd.Stdout, cmd.Stderr = os.Stdout, os.Stderr
	err := cmd.Run()
	if _, serr := os.Stat(filepath.Join(outDir, "stats.json")); err == nil && serr == nil {
		os.Exit(0)
	}
	cur, _ := os.ReadFile(progressPath)
	what, replay := "the harness process died", string(cur)
	if i := strings.Index(replay, "\n"); i >= 0 {
		what, replay = replay[:i], replay[i+1:]
	}
	// what the child had already found before it died (SaveFailures) comes first: those witnesses
	// are shrunk and say more than "the process died"
	var fails []map[string]string
	if b, rerr := os.ReadFile(filepath.Join(outDir, failuresFile)); rerr == nil {
		json.Unmarshal(b, &fails)
	}
	fails = append(fails, map[string]string{
		"signature": "process-crash",
		"what":      fmt.Sprintf("the process died (%v) while: %s", err, what),
		"replay":    replay,
	})
	stats := map[string]any{
		"evaluations": 0, "distinct_nontrivial": 0, "distribution": map[string]int{"harness-crash": 1}, "samples": []string{},
		"oracle_failures": fails,
	}
	b, _ := json.MarshalIndent(stats, "", " ")
	os.WriteFile(filepath.Join(outDir, "stats.json"), b, 0o644)
	// the op / answer files of a dead child are incomplete: leave them empty so that nothing is diffed
	os.WriteFile(filepath.Join(outDir, "ops.txt"), nil, 0o644)
	os.WriteFile(filepath.Join(outDir, "impl.txt"), nil, 0o644)
	os.Exit(0)
	return false
}

const failuresFile = "failures-so-far.json"

// SaveFailures: the child writes the oracle failures found so far (any JSON list of
// {signature, what, replay}) next to the progress file, so that they survive a later crash
func SaveFailures(fails any) {
	if progressPath == "" {
		return
	}
	if b, err := json.Marshal(fails); err == nil {
		os.WriteFile(filepath.Join(filepath.Dir(progressPath), failuresFile), b, 0o644)
	}
}

// Progress records what the child is about to run: first line a description, then the replay lines
func Progress(what string, replay string) {
	if progressPath == "" {
		return
	}
	os.WriteFile(progressPath, []byte(what+"\n"+replay+"\n"), 0o644)
}
