/- helper lemmas for C13: insertion sort yields a sorted permutation; sorted permutations are unique
when equal scores imply equal elements -/
import SemaModel.C13.Model
namespace Sema.C13
open Sema List

variable {α : Type}

theorem perm_insertBy (f : α → Nat) (x : α) (l : List α) : (insertBy f x l).Perm (x :: l) := by
  induction l with
  | nil => exact Perm.refl _
  | cons y ys ih =>
    unfold insertBy
    split
    · exact Perm.refl _
    · exact (Perm.cons y ih).trans (Perm.swap x y ys)

theorem perm_sortBy (f : α → Nat) (l : List α) : (sortBy f l).Perm l := by
  induction l with
  | nil => exact Perm.refl _
  | cons x xs ih =>
    show (insertBy f x (sortBy f xs)).Perm (x :: xs)
    exact (perm_insertBy f x _).trans (Perm.cons x ih)

theorem mem_insertBy {f : α → Nat} {x a : α} {l : List α} : a ∈ insertBy f x l ↔ a = x ∨ a ∈ l := by
  rw [(perm_insertBy f x l).mem_iff]; simp

theorem sorted_insertBy (f : α → Nat) (x : α) (l : List α) (hl : SortedBy f l) :
    SortedBy f (insertBy f x l) := by
  induction l with
  | nil => simp [insertBy, SortedBy]
  | cons y ys ih =>
    unfold SortedBy at hl ih ⊢
    rw [pairwise_cons] at hl
    unfold insertBy
    split
    · rename_i hxy
      rw [pairwise_cons]
      refine ⟨?_, pairwise_cons.2 hl⟩
      intro b hb
      rcases mem_cons.1 hb with rfl | hb
      · exact hxy
      · exact Nat.le_trans hxy (hl.1 b hb)
    · rename_i hxy
      rw [pairwise_cons]
      refine ⟨?_, ih hl.2⟩
      intro b hb
      rcases mem_insertBy.1 hb with rfl | hb
      · omega
      · exact hl.1 b hb

theorem sorted_sortBy (f : α → Nat) (l : List α) : SortedBy f (sortBy f l) := by
  induction l with
  | nil => simp [sortBy, SortedBy]
  | cons x xs ih => exact sorted_insertBy f x _ ih

/-- two score-sorted permutations of the same list coincide as soon as equal scores force equal
elements (this is what makes an unstable sort deterministic here) -/
theorem sorted_perm_unique {f : α → Nat} {l₁ l₂ : List α}
    (inj : ∀ a ∈ l₁, ∀ b ∈ l₁, f a = f b → a = b)
    (h₁ : SortedBy f l₁) (h₂ : SortedBy f l₂) (p : l₁.Perm l₂) : l₁ = l₂ := by
  refine Perm.eq_of_pairwise ?_ h₁ h₂ p
  intro a b ha hb hab hba
  exact inj a ha b (p.mem_iff.2 hb) (Nat.le_antisymm hab hba)

theorem sortBy_eq_of_sorted_perm {f : α → Nat} {l s : List α}
    (inj : ∀ a ∈ s, ∀ b ∈ s, f a = f b → a = b) (hl : SortedBy f l) (p : l.Perm s) :
    l = sortBy f s := by
  refine sorted_perm_unique ?_ hl (sorted_sortBy f s) (p.trans (perm_sortBy f s).symm)
  intro a ha b hb
  exact inj a (p.mem_iff.1 ha) b (p.mem_iff.1 hb)

theorem sortBy_perm_eq {f : α → Nat} {s s' : List α}
    (inj : ∀ a ∈ s, ∀ b ∈ s, f a = f b → a = b) (p : s'.Perm s) : sortBy f s' = sortBy f s :=
  sortBy_eq_of_sorted_perm inj (sorted_sortBy f s') ((perm_sortBy f s').trans p)

theorem sortBy_erase [BEq α] [LawfulBEq α] {f : α → Nat} {s : List α} (r : α)
    (inj : ∀ a ∈ s, ∀ b ∈ s, f a = f b → a = b) : sortBy f (s.erase r) = (sortBy f s).erase r := by
  symm
  refine sortBy_eq_of_sorted_perm ?_ ?_ ?_
  · intro a ha b hb
    exact inj a (mem_of_mem_erase ha) b (mem_of_mem_erase hb)
  · exact Pairwise.sublist erase_sublist (sorted_sortBy f s)
  · exact (perm_sortBy f s).erase r

theorem sortBy_filter {f : α → Nat} {s : List α} (p : α → Bool)
    (inj : ∀ a ∈ s, ∀ b ∈ s, f a = f b → a = b) : sortBy f (s.filter p) = (sortBy f s).filter p := by
  symm
  refine sortBy_eq_of_sorted_perm ?_ ?_ ?_
  · intro a ha b hb
    exact inj a (mem_filter.1 ha).1 b (mem_filter.1 hb).1
  · exact Pairwise.sublist filter_sublist (sorted_sortBy f s)
  · exact (perm_sortBy f s).filter p

theorem head?_erase_of_ne [BEq α] [LawfulBEq α] {l : List α} {r : α} (h : l.head? ≠ some r) :
    (l.erase r).head? = l.head? := by
  cases l with
  | nil => rfl
  | cons a as =>
    have : a ≠ r := by simpa using h
    simp [this]

theorem head?_filter_of_pos {l : List α} {p : α → Bool} (h : ∀ a, l.head? = some a → p a = true) :
    (l.filter p).head? = l.head? := by
  cases l with
  | nil => rfl
  | cons a as => simp [h a rfl]

/-- the head of a score-sorted list has the least score -/
theorem head_min {f : α → Nat} {a : α} {l : List α} (h : SortedBy f (a :: l)) :
    ∀ b ∈ a :: l, f a ≤ f b := by
  intro b hb
  rcases mem_cons.1 hb with rfl | hb
  · exact Nat.le_refl _
  · exact (pairwise_cons.1 h).1 b hb

/-- head of the sorted list = the element of least score (characterisation, no-ties) -/
theorem head?_sortBy_iff {f : α → Nat} {s : List α} {o : α}
    (inj : ∀ a ∈ s, ∀ b ∈ s, f a = f b → a = b) :
    (sortBy f s).head? = some o ↔ o ∈ s ∧ ∀ b ∈ s, f o ≤ f b := by
  have hp := perm_sortBy f s
  have hs := sorted_sortBy f s
  constructor
  · intro h
    cases hl : sortBy f s with
    | nil => rw [hl] at h; cases h
    | cons a as =>
      rw [hl] at h hs hp
      have : a = o := by simpa using h
      subst this
      refine ⟨hp.mem_iff.1 (mem_cons_self), ?_⟩
      intro b hb
      exact head_min hs b (hp.mem_iff.2 hb)
  · rintro ⟨ho, hmin⟩
    cases hl : sortBy f s with
    | nil =>
      rw [hl] at hp
      have := hp.mem_iff.2 ho
      cases this
    | cons a as =>
      rw [hl] at hs hp
      have ha : a ∈ s := hp.mem_iff.1 mem_cons_self
      have h1 : f a ≤ f o := head_min hs o (hp.mem_iff.2 ho)
      have h2 : f o ≤ f a := hmin a ha
      have : a = o := inj a ha o ho (Nat.le_antisymm h1 h2)
      simp [this]

theorem head?_insertBy (f : α → Nat) (x : α) (l : List α) :
    (insertBy f x l).head? = some x ∨ (insertBy f x l).head? = l.head? := by
  cases l with
  | nil => left; rfl
  | cons y ys =>
    unfold insertBy
    split
    · left; rfl
    · right; rfl

theorem take_insertBy_subset (f : α → Nat) (x : α) (l : List α) (k : Nat) :
    ∀ a ∈ (insertBy f x l).take k, a = x ∨ a ∈ l.take k := by
  induction l generalizing k with
  | nil =>
    intro a ha
    left
    have := mem_of_mem_take ha
    simpa [insertBy] using this
  | cons y ys ih =>
    intro a ha
    unfold insertBy at ha
    split at ha
    · cases k with
      | zero => simp at ha
      | succ k =>
        rw [take_succ_cons] at ha
        rcases mem_cons.1 ha with rfl | ha
        · left; rfl
        · right
          -- (y :: ys).take k ⊆ (y :: ys).take (k+1)
          exact (take_subset_take_left (y :: ys) (Nat.le_succ k)) ha
    · cases k with
      | zero => simp at ha
      | succ k =>
        rw [take_succ_cons] at ha
        rcases mem_cons.1 ha with rfl | ha
        · right; simp
        · rcases ih k a ha with h | h
          · left; exact h
          · right; rw [take_succ_cons]; exact mem_cons_of_mem _ h

/-! The T2 pins (syntactic facts of the source, regenerated on every run by `tools/facts_c13`) are in
`Pins.lean`, imported by `Props.lean`, so that the tie theorems of `Tie.lean` — which need the sorting
lemmas above — are checked on their own when a pin breaks. -/

end Sema.C13
