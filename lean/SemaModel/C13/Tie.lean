/-
C13 — the tie between the hand-written `rendezvous` of `C13/Model.lean` and the source.
`SemaModel/Generated/Rendezvous.lean` is produced from `cluster/hashing.go RendezvousHash` by
`tools/go2lean` on every check run: the local struct `ServerScore`, the scoring loop
(`scores[i] = ServerScore{server, xxhash.Sum64String(key + server)}`), `slices.SortFunc` with the
translated comparator `cmp.Compare(a.Score, b.Score)`, the `topK` clamp and the result loop.
`xxhash.Sum64String` stays abstract (the parameter `Sum64String`), and so does `slices.SortFunc`
(the parameter `sortFunc`: pdqsort is not translated and not stable).

Representation maps
* Go strings are Lean `String`s in the generated code and byte strings (`Bytes`) in the model.  The
  tie holds for EVERY map `enc : String → Bytes` that turns string concatenation into list append
  (`enc (a ++ b) = enc a ++ enc b` — what "a Go string is its bytes" means; UTF-8 encoding is one).
* the hash: for every `hash : Bytes → BitVec 64`, the generated code is run with
  `Sum64String := fun s => hash (enc s)` and the model with `h := fun b => (hash b).toNat`.
* `topK` is a non-negative `int` (a negative one makes Go's `make` panic; every call site passes 1,
  pinned by `tools/facts_c13`): `topK = (k : Int)`.
* the sort: any function that, on the score list and this comparator, returns a permutation of its
  input that is ordered by the comparator (`cmp a b ≤ 0` for every earlier `a` and later `b`).

`C13_tie_spec` (no hypothesis on scores): the translated function meets the specification
`IsRendezvous` the property theorems are stated against.  `C13_tie` (under `NoTies`, the hypothesis
of every C13 theorem): it EQUALS the model function `rendezvous`.  `C13_tie_owner`: what every call
site computes, `RendezvousHash(key, servers, 1)[0]`, is the model's `owner`.
-/
import SemaModel.C13.Lemmas
import SemaModel.Generated.Rendezvous
namespace Sema.C13
open Sema List

/-- what `slices.SortFunc(xs, cmp)` is assumed to do on ONE input: a permutation of `xs` ordered by `cmp` -/
def SortsOn {α : Type} (sortFunc : {α : Type} → List α → (α → α → Int) → List α) (xs : List α) (cmp : α → α → Int) : Prop :=
  (sortFunc xs cmp).Perm xs ∧ (sortFunc xs cmp).Pairwise (fun a b => cmp a b ≤ 0)

namespace Tie
open Gen.Rendezvous

/-- the comparator of `RendezvousHash` -/
abbrev cmpS : ServerScore → ServerScore → Int := fun a b => Go.cmpU64 a.Score b.Score

theorem cmpU64_le (a b : BitVec 64) : Go.cmpU64 a b ≤ 0 ↔ a.toNat ≤ b.toNat := by
  unfold Go.cmpU64
  by_cases h1 : a < b
  · have : a.toNat < b.toNat := h1
    simp [h1]; omega
  · by_cases h2 : b < a
    · have h2' : b.toNat < a.toNat := h2
      simp [h1, h2]; omega
    · have n1 : ¬ a.toNat < b.toNat := h1
      have n2 : ¬ b.toNat < a.toNat := h2
      simp [h1, h2]; omega

/-- the scoring loop: entry `i` of the pre-allocated slice is overwritten by the score of server `i` -/
theorem scoring_loop (f : String → ServerScore) (xs : List String) :
    ∀ (done : List ServerScore),
      Go.forRangeAux xs done.length (done ++ List.replicate xs.length ServerScore.zero)
        (fun i_ server scores => Go.setI scores (Int.ofNat i_) (f server)) = done ++ xs.map f := by
  induction xs with
  | nil => intro done; simp [Go.forRangeAux]
  | cons x xs ih =>
    intro done
    rw [Go.forRangeAux]
    have hset : Go.setI (done ++ List.replicate (x :: xs).length ServerScore.zero) (Int.ofNat done.length) (f x) =
        (done ++ [f x]) ++ List.replicate xs.length ServerScore.zero := by
      simp only [Go.setI, Int.ofNat_eq_natCast]
      rw [if_neg (by omega)]
      simp only [Int.toNat_natCast, List.length_cons, List.replicate_succ]
      rw [List.set_append_right _ _ (Nat.le_refl _)]
      simp
    rw [hset]
    have := ih (done ++ [f x])
    simp only [List.length_append, List.length_cons, List.length_nil, Nat.zero_add] at this
    rw [this]
    simp

/-- the result loop copies the first `n` servers of the sorted slice -/
theorem result_loop (scores : List ServerScore) (n : Nat) (hn : n ≤ scores.length) :
    ∀ (fuel i : Nat) (res : List String), i ≤ n → n - i + 1 ≤ fuel → res.length = n →
      RendezvousHash_loop1 scores (n : Int) fuel (i : Int) res =
        Go.Ctl.next ((n : Int), (res.take i) ++ ((scores.take n).drop i).map (·.Server)) := by
  intro fuel
  induction fuel with
  | zero => intro i res _ hf _; omega
  | succ fuel ih =>
    intro i res hi hf hlen
    rw [RendezvousHash_loop1]
    by_cases hlt : i < n
    · have hlt' : (i : Int) < (n : Int) := by omega
      simp only [hlt', decide_true, if_true]
      have h0 : ¬ ((i : Int) < 0) := by omega
      have hget : Go.getI scores (i : Int) = scores[i]'(by omega) := by
        simp [Go.getI, h0, List.getD_eq_getElem?_getD, show i < scores.length by omega]
      have hset : Go.setI res (i : Int) (scores[i]'(by omega)).Server = res.set i (scores[i]'(by omega)).Server := by
        simp [Go.setI, h0]
      rw [hget, hset]
      have := ih (i + 1) (res.set i (scores[i]'(by omega)).Server) (by omega) (by omega) (by simpa using hlen)
      have hcast : ((i : Int) + 1) = ((i + 1 : Nat) : Int) := by omega
      rw [hcast, this]
      congr 2
      have hil : i < res.length := by omega
      rw [List.take_add_one, List.getElem?_set_self hil]
      simp only [Option.toList_some, List.take_set_of_le (Nat.le_refl i), List.append_assoc]
      congr 1
      have hdl : i < (scores.take n).length := by simp; omega
      rw [List.drop_eq_getElem_cons hdl]
      simp [List.getElem_take]
    · have hi' : i = n := by omega
      have hlt' : ¬ ((i : Int) < (n : Int)) := by omega
      simp only [hlt', decide_false, Bool.false_eq_true, if_false]
      subst hi'
      simp [← hlen]

end Tie

open Gen.Rendezvous in
/-- what the translated function returns, for any sort function: the servers of the first
`min k n` entries of whatever `sortFunc` made of the score slice -/
theorem C13_tie_shape (sortFunc : {α : Type} → List α → (α → α → Int) → List α) (hash : String → BitVec 64)
    (key : String) (servers : List String) (k : Nat)
    (hlen : (sortFunc (servers.map fun s => (⟨s, hash (key ++ s)⟩ : ServerScore)) Tie.cmpS).length = servers.length) :
    RendezvousHash sortFunc hash key servers (k : Int) =
      Go.Out.ret (((sortFunc (servers.map fun s => (⟨s, hash (key ++ s)⟩ : ServerScore)) Tie.cmpS).take k).map (·.Server)) := by
  unfold RendezvousHash
  simp only [Go.forRange]
  have hsc := Tie.scoring_loop (fun s => (⟨s, hash (key ++ s)⟩ : ServerScore)) servers []
  simp only [List.length_nil, List.nil_append] at hsc
  have hlen0 : (Go.len servers).toNat = servers.length := by simp [Go.len]
  simp only [hlen0]
  have hbody : (fun (i_ : Nat) (server : String) (scores : List ServerScore) =>
      Go.setI scores (Int.ofNat i_) ({ Server := server, Score := hash (key ++ server) } : ServerScore)) =
      (fun i_ server scores => Go.setI scores (Int.ofNat i_) ((fun s => (⟨s, hash (key ++ s)⟩ : ServerScore)) server)) := rfl
  rw [hbody, hsc]
  generalize hs : sortFunc (servers.map fun s => (⟨s, hash (key ++ s)⟩ : ServerScore)) (fun a b => Go.cmpU64 a.Score b.Score) = sorted at *
  have hlen : sorted.length = servers.length := hlen
  -- the clamp
  have hclamp : (if decide ((k : Int) > Go.len servers) then Go.len servers else (k : Int)) = ((min k servers.length : Nat) : Int) := by
    simp only [Go.len]
    by_cases h : (k : Int) > (servers.length : Int)
    · simp only [h, decide_true, if_true]; omega
    · simp only [h, decide_false, Bool.false_eq_true, if_false]; omega
  simp only [hclamp]
  have hn : min k servers.length ≤ sorted.length := by omega
  have hl := Tie.result_loop sorted (min k servers.length) hn (Go.countFuel 0 ((min k servers.length : Nat) : Int)) 0
    (List.replicate (min k servers.length) "") (Nat.zero_le _) (by simp [Go.countFuel]) (by simp)
  simp only [Int.toNat_natCast]
  have hz : ((0 : Nat) : Int) = 0 := rfl
  rw [hz] at hl
  rw [hl]
  simp only [Go.Ctl.finish, List.take_zero, List.nil_append, List.drop_zero]
  congr 2
  rw [List.take_eq_take_iff]
  omega

open Gen.Rendezvous in
/-- **The translated `RendezvousHash` meets the specification `IsRendezvous`** — for every hash,
every key, every server list, every `k`, every sort function that returns an ordered permutation
on this input, every concatenation-preserving reading `enc` of strings as bytes.  No hypothesis on
the scores. -/
theorem C13_tie_spec (sortFunc : {α : Type} → List α → (α → α → Int) → List α) (hash : Bytes → BitVec 64)
    (enc : String → Bytes) (henc : ∀ a b, enc (a ++ b) = enc a ++ enc b)
    (key : String) (servers : List String) (k : Nat)
    (hsort : SortsOn sortFunc (servers.map fun s => (⟨s, hash (enc (key ++ s))⟩ : ServerScore)) Tie.cmpS) :
    ∃ res, RendezvousHash sortFunc (fun s => hash (enc s)) key servers (k : Int) = Go.Out.ret res ∧
      IsRendezvous (fun b => (hash b).toNat) (enc key) (servers.map enc) k (res.map enc) := by
  have hp : (sortFunc (servers.map fun s => (⟨s, hash (enc (key ++ s))⟩ : ServerScore)) Tie.cmpS).Perm
      (servers.map fun s => (⟨s, hash (enc (key ++ s))⟩ : ServerScore)) := hsort.1
  have hsorted : (sortFunc (servers.map fun s => (⟨s, hash (enc (key ++ s))⟩ : ServerScore)) Tie.cmpS).Pairwise
      (fun a b => Tie.cmpS a b ≤ 0) := hsort.2
  clear hsort
  refine ⟨_, C13_tie_shape sortFunc (fun s => hash (enc s)) key servers k (by simpa using hp.length_eq), ?_⟩
  generalize sortFunc (servers.map fun s => (⟨s, hash (enc (key ++ s))⟩ : ServerScore)) Tie.cmpS = sorted at *
  -- every entry carries the score of its own server
  have hall : ∀ e ∈ sorted, e.Score = hash (enc (key ++ e.Server)) := by
    intro e he
    obtain ⟨s, _, rfl⟩ := List.mem_map.mp (hp.mem_iff.mp he)
    rfl
  refine ⟨(sorted.map (·.Server)).map enc, ?_, ?_, ?_⟩
  · have := (hp.map (·.Server)).map enc
    simpa [List.map_map, Function.comp_def] using this
  · unfold SortedBy
    rw [List.pairwise_map, List.pairwise_map]
    refine hsorted.imp_of_mem ?_
    intro a b ha hb hab
    have := (Tie.cmpU64_le a.Score b.Score).mp hab
    simp only [score, ← henc, ← hall a ha, ← hall b hb]
    exact this
  · simp [List.map_take]

open Gen.Rendezvous in
/-- **The hand-written model of `RendezvousHash` is the translated Go function**: under the one
hypothesis of every C13 theorem (`NoTies`: different names of the list get different scores for this
key) the definition generated from `cluster/hashing.go` returns, read through `enc`, exactly
`rendezvous h key servers k` — whatever ordered permutation the (unstable) sort produced. -/
theorem C13_tie (sortFunc : {α : Type} → List α → (α → α → Int) → List α) (hash : Bytes → BitVec 64)
    (enc : String → Bytes) (henc : ∀ a b, enc (a ++ b) = enc a ++ enc b)
    (key : String) (servers : List String) (k : Nat)
    (hsort : SortsOn sortFunc (servers.map fun s => (⟨s, hash (enc (key ++ s))⟩ : ServerScore)) Tie.cmpS)
    (nt : NoTies (fun b => (hash b).toNat) (enc key) (servers.map enc)) :
    ∃ res, RendezvousHash sortFunc (fun s => hash (enc s)) key servers (k : Int) = Go.Out.ret res ∧
      res.map enc = rendezvous (fun b => (hash b).toNat) (enc key) (servers.map enc) k := by
  obtain ⟨res, h1, l, pl, sl, hl⟩ := C13_tie_spec sortFunc hash enc henc key servers k hsort
  refine ⟨res, h1, ?_⟩
  rw [hl]
  unfold rendezvous
  rw [sortBy_eq_of_sorted_perm nt sl pl]

open Gen.Rendezvous in
/-- what every call site computes — `RendezvousHash(key, c.Servers, 1)[0]` — is the model's `owner` -/
theorem C13_tie_owner (sortFunc : {α : Type} → List α → (α → α → Int) → List α) (hash : Bytes → BitVec 64)
    (enc : String → Bytes) (henc : ∀ a b, enc (a ++ b) = enc a ++ enc b)
    (key : String) (servers : List String)
    (hsort : SortsOn sortFunc (servers.map fun s => (⟨s, hash (enc (key ++ s))⟩ : ServerScore)) Tie.cmpS)
    (nt : NoTies (fun b => (hash b).toNat) (enc key) (servers.map enc)) :
    ∃ res, RendezvousHash sortFunc (fun s => hash (enc s)) key servers 1 = Go.Out.ret res ∧
      res.head?.map enc = owner (fun b => (hash b).toNat) (enc key) (servers.map enc) := by
  obtain ⟨res, h1, h2⟩ := C13_tie sortFunc hash enc henc key servers 1 hsort nt
  refine ⟨res, h1, ?_⟩
  unfold owner
  rw [← h2]
  cases res <;> rfl

/-! ### non-vacuity -/

/-- insertion sort as `slices.SortFunc` -/
private def insSort {α : Type} (l : List α) (cmp : α → α → Int) : List α :=
  l.foldr (fun x acc => (acc.takeWhile fun y => decide (cmp y x ≤ 0)) ++ x :: (acc.dropWhile fun y => decide (cmp y x ≤ 0))) []
/-- strings as their UTF-8 bytes -/
private def utf8 (s : String) : Bytes := s.toUTF8.data.toList.map fun b => BitVec.ofNat 8 b.toNat
/-- a toy hash without ties on these names: the last byte -/
private def hLast : Bytes → BitVec 64 := fun x => BitVec.ofNat 64 ((x.getLast?.map (·.toNat)).getD 0)

open Gen.Rendezvous in
example : RendezvousHash insSort (fun s => hLast (utf8 s)) "k" ["c", "a", "b"] 2 = Go.Out.ret ["a", "b"] := by decide
open Gen.Rendezvous in
example : SortsOn insSort (["c", "a", "b"].map fun s => (⟨s, hLast (utf8 ("k" ++ s))⟩ : ServerScore)) Tie.cmpS := by
  refine ⟨?_, ?_⟩ <;> decide
example : NoTies (fun b => (hLast b).toNat) (utf8 "k") (["c", "a", "b"].map utf8) := by decide
example : rendezvous (fun b => (hLast b).toNat) (utf8 "k") (["c", "a", "b"].map utf8) 2 = ["a", "b"].map utf8 := by decide
-- the clamp: topK > len(servers)
open Gen.Rendezvous in
example : RendezvousHash insSort (fun s => hLast (utf8 s)) "k" ["c", "a"] 5 = Go.Out.ret ["a", "c"] := by decide

end Sema.C13
