/-
C13 — every call site that routes designates the owner (theorems about `Sites.lean`).

For EVERY hash, every server list, every sequence of record keys (sorted or not), every set of
answering servers.  What is proved:
  * the user id extracted from a record key `user/collection` is `user` (`C13_userOf_recKey`), the
    shard id extracted from `user/collection/shard` is `shard` (`C13_shardOf_path`);
  * the per-key loop of `syncUserCollections` sends exactly the keys not owned by the node, each to
    `owner user` (`C13_sync_plan_iff`, `C13_sync_dest_is_owner`), so a record is, after the sync, where
    the request path looks for it (`C13_after_sync`, `C13_sync_agrees_with_request`);
  * routing once per user is the same function iff the run test includes the delimiter
    (`C13_sync_cached_delim`); with the bare prefix test it is a different function (closed witness);
  * a request is served by the owner or by nobody, whatever servers answer (`C13_route_owner`,
    `C13_route_indep`); the fail-over policy serves the same key from different servers depending on
    which servers answer (`C13_failover_depends`), i.e. is not a function of key and server set.
-/
import SemaModel.C13.Sites
import SemaModel.C13.Lemmas
import SemaModel.C13.Props
namespace Sema.C13
open Sema List

variable (h : Bytes → Nat)

/-! ### extraction of the routed key -/

theorem takeWhile_ne_delim {u rest : Bytes} (hu : delim ∉ u) :
    (u ++ delim :: rest).takeWhile (· != delim) = u := by
  induction u with
  | nil => simp
  | cons a as ih =>
    have ha : a ≠ delim := fun e => hu (by simp [e])
    have has : delim ∉ as := fun m => hu (by simp [m])
    simp [ha, ih has]

/-- `strings.Split(user + "/" + collection, "/")[0] = user` for a user id without `/` -/
theorem C13_userOf_recKey {u : Bytes} (c : Bytes) (hu : delim ∉ u) : userOf (recKey u c) = u :=
  takeWhile_ne_delim hu

/-- the user id of a key never contains the delimiter -/
theorem delim_not_mem_userOf (k : Bytes) : delim ∉ userOf k := by
  unfold userOf
  induction k with
  | nil => simp
  | cons a as ih =>
    by_cases ha : a = delim
    · simp [ha]
    · simp only [List.takeWhile_cons, bne_iff_ne, ne_eq, ha, not_false_eq_true, if_true, mem_cons, not_or]
      exact ⟨fun e => ha e.symm, ih⟩

/-- the routed key of a shard directory is its shard id -/
theorem C13_shardOf_path (u c : Bytes) {s : Bytes} (hs : delim ∉ s) : shardOf (shardPath u c s) = s := by
  unfold shardOf shardPath
  have e : (u ++ delim :: (c ++ delim :: s)).reverse = s.reverse ++ delim :: (c.reverse ++ delim :: u.reverse) := by
    simp
  rw [e, takeWhile_ne_delim (by simpa using hs), List.reverse_reverse]

/-! ### the synchronisation loop -/

/-- exactly the keys whose destination is another server are posted, each to its destination -/
theorem C13_sync_plan_iff (S : List Bytes) (me : Bytes) (keys : List Bytes) (k d : Bytes) :
    (k, d) ∈ syncPlan h S me keys ↔ k ∈ keys ∧ recDest h S k = some d ∧ d ≠ me := by
  induction keys with
  | nil => simp [syncPlan]
  | cons x xs ih =>
    unfold syncPlan
    cases hx : recDest h S x with
    | none =>
      simp only [ih, mem_cons]
      constructor
      · rintro ⟨hk, hd, hm⟩; exact ⟨Or.inr hk, hd, hm⟩
      · rintro ⟨hk | hk, hd, hm⟩
        · subst hk; rw [hx] at hd; cases hd
        · exact ⟨hk, hd, hm⟩
    | some dx =>
      by_cases hme : dx = me
      · simp only [hme, beq_self_eq_true, if_true, ih, mem_cons]
        constructor
        · rintro ⟨hk, hd, hm⟩; exact ⟨Or.inr hk, hd, hm⟩
        · rintro ⟨hk | hk, hd, hm⟩
          · subst hk; rw [hx] at hd; cases hd; exact absurd hme hm
          · exact ⟨hk, hd, hm⟩
      · have : (dx == me) = false := by simpa using hme
        simp only [this, Bool.false_eq_true, if_false, mem_cons, Prod.mk.injEq, ih]
        constructor
        · rintro (⟨rfl, rfl⟩ | ⟨hk, hd, hm⟩)
          · exact ⟨Or.inl rfl, hx, hme⟩
          · exact ⟨Or.inr hk, hd, hm⟩
        · rintro ⟨hk | hk, hd, hm⟩
          · subst hk; rw [hx] at hd; cases hd; exact Or.inl ⟨rfl, rfl⟩
          · exact Or.inr ⟨hk, hd, hm⟩

/-- the destination of every posted record `user/collection` is the owner of `user` — the server the
request path (`CreateCollection`, `GetCollection`, `ListCollections`, `CreateShard`) routes to;
whatever keys were visited before -/
theorem C13_sync_dest_is_owner {S : List Bytes} {me : Bytes} {keys : List Bytes} {u c d : Bytes}
    (hu : delim ∉ u) (hm : (recKey u c, d) ∈ syncPlan h S me keys) : owner h u S = some d := by
  have := ((C13_sync_plan_iff h S me keys _ _).1 hm).2.1
  unfold recDest at this
  rwa [C13_userOf_recKey c hu] at this

/-- after a node's failure-free synchronisation a record it held is at the owner of its user -/
theorem C13_after_sync {S : List Bytes} (me : Bytes) {u : Bytes} (c : Bytes) {o : Bytes}
    (hu : delim ∉ u) (ho : owner h u S = some o) : afterSync h S me (recKey u c) = o := by
  unfold afterSync syncPlan recDest
  rw [C13_userOf_recKey c hu, ho]
  by_cases hme : o = me
  · simp [hme, syncPlan]
  · have : (o == me) = false := by simpa using hme
    simp [this]

/-! ### requests -/

/-- a request is served by the owner or not at all -/
theorem C13_route_owner {key : Bytes} {S up : List Bytes} {s : Bytes}
    (hr : route h key S up = some s) : owner h key S = some s := by
  unfold route at hr
  cases ho : owner h key S with
  | none => rw [ho] at hr; cases hr
  | some o =>
    rw [ho] at hr
    by_cases hc : up.contains o = true
    · simp only [hc, if_true] at hr; exact hr
    · simp only [hc] at hr; cases hr

/-- … so the server that serves a key does not depend on which servers answer -/
theorem C13_route_indep {key : Bytes} {S up up' : List Bytes} {a b : Bytes}
    (ha : route h key S up = some a) (hb : route h key S up' = some b) : a = b := by
  have h1 := C13_route_owner h ha
  have h2 := C13_route_owner h hb
  rw [h1] at h2; exact Option.some.inj h2

theorem C13_route_up {key : Bytes} {S up : List Bytes} {o : Bytes}
    (ho : owner h key S = some o) (hup : o ∈ up) : route h key S up = some o := by
  unfold route; rw [ho]; simp [hup]

theorem C13_route_down {key : Bytes} {S up : List Bytes} {o : Bytes}
    (ho : owner h key S = some o) (hup : o ∉ up) : route h key S up = none := by
  unfold route; rw [ho]; simp [hup]

/-- the synchronisation and the request path agree: the server a record is posted to is the server
every request for that user is served by -/
theorem C13_sync_agrees_with_request {S up : List Bytes} {me : Bytes} {keys : List Bytes} {u c d s : Bytes}
    (hu : delim ∉ u) (hm : (recKey u c, d) ∈ syncPlan h S me keys)
    (hr : route h u S up = some s) : s = d := by
  have h1 := C13_sync_dest_is_owner h hu hm
  have h2 := C13_route_owner h hr
  rw [h1] at h2; exact (Option.some.inj h2).symm

/-- trying only the first ranked server IS the code's policy -/
theorem C13_failover_one (key : Bytes) (S up : List Bytes) :
    failover h key S up 1 = route h key S up := by
  unfold failover route owner
  cases hl : rendezvous h key S 1 with
  | nil => simp
  | cons a as =>
    have hlen := C13_length_le_one h key S
    rw [hl] at hlen
    have : as = [] := by
      cases as with
      | nil => rfl
      | cons _ _ => simp at hlen
    subst this
    by_cases hc : up.contains a = true <;> simp
where
  C13_length_le_one (h : Bytes → Nat) (key : Bytes) (S : List Bytes) : (rendezvous h key S 1).length ≤ 1 := by
    unfold rendezvous; simp [List.length_take]; omega

/-- the fail-over policy is not a function of key and server set: with two or more distinct servers
there are two sets of answering servers under which the same key is served by different servers
(the second of them is not the owner) -/
theorem C13_failover_depends (key : Bytes) {S : List Bytes} (nd : S.Nodup) (h2 : 2 ≤ S.length) :
    ∃ a b : Bytes, a ≠ b ∧ owner h key S = some a ∧
      failover h key S [a] 2 = some a ∧ failover h key S [b] 2 = some b := by
  have hp := perm_sortBy (score h key) S
  have hnd : (sortBy (score h key) S).Nodup := hp.nodup_iff.2 nd
  have hlen : (sortBy (score h key) S).length = S.length := hp.length_eq
  cases hl : sortBy (score h key) S with
  | nil => rw [hl] at hlen; simp at hlen; omega
  | cons a t =>
    cases t with
    | nil => rw [hl] at hlen; simp at hlen; omega
    | cons b t' =>
      rw [hl] at hnd
      have hab : a ≠ b := by
        intro e; subst e; simp at hnd
      refine ⟨a, b, hab, ?_, ?_, ?_⟩
      · unfold owner rendezvous; rw [hl]; simp
      · unfold failover rendezvous; rw [hl]; simp
      · unfold failover rendezvous; rw [hl]
        simp [List.find?, hab]

/-! ### every node computes the same destination, whatever the order (or duplicates) of its server list -/

/-- the sync destination of a record depends only on the SET of server names -/
theorem C13_sync_dest_set {S S' : List Bytes} (k : Bytes) (nt : NoTies h (userOf k) S)
    (same : ∀ a, a ∈ S' ↔ a ∈ S) : recDest h S' k = recDest h S k :=
  C13_owner_set h (userOf k) nt same

/-- … so does the destination of a shard directory -/
theorem C13_shard_dest_set {S S' : List Bytes} (p : Bytes) (nt : NoTies h (shardOf p) S)
    (same : ∀ a, a ∈ S' ↔ a ∈ S) : shardDest h S' p = shardDest h S p :=
  C13_owner_set h (shardOf p) nt same

/-- … and the server that serves a request (two nodes with differently ordered lists, the same
answering servers) -/
theorem C13_route_set {S S' : List Bytes} (key : Bytes) (up : List Bytes) (nt : NoTies h key S)
    (same : ∀ a, a ∈ S' ↔ a ∈ S) : route h key S' up = route h key S up := by
  unfold route
  rw [C13_owner_set h key nt same]

/-! ### routing once per user -/

theorem userOf_of_sameDelim {k u : Bytes} (hu : delim ∉ u) (hs : sameDelim k u = true) : userOf k = u := by
  unfold sameDelim at hs
  obtain ⟨t, rfl⟩ := List.isPrefixOf_iff_prefix.1 hs
  have : u ++ [delim] ++ t = u ++ delim :: t := by simp
  unfold userOf
  rw [this]
  exact takeWhile_ne_delim hu

/-- a cached state is sound: the remembered destination is the owner of the remembered user id -/
def CacheOK (S : List Bytes) (st : Option (Bytes × Option Bytes)) : Prop :=
  ∀ u d, st = some (u, d) → delim ∉ u ∧ d = owner h u S

/-- routing once per run of keys `user/…` (run test WITH the delimiter) computes, for every sequence
of keys, the same destinations as the per-key loop -/
theorem C13_sync_cached_delim (S : List Bytes) (keys : List Bytes) :
    ∀ st, CacheOK h S st →
      syncCached sameDelim h S st keys = keys.map (fun k => (k, owner h (userOf k) S)) := by
  induction keys with
  | nil => intro st _; simp [syncCached]
  | cons k ks ih =>
    intro st ok
    have okFresh : CacheOK h S (some (userOf k, owner h (userOf k) S)) := by
      intro u d e
      cases e
      exact ⟨delim_not_mem_userOf k, rfl⟩
    cases st with
    | none =>
      simp only [syncCached, List.map_cons]
      rw [ih _ okFresh]
    | some p =>
      obtain ⟨u, d⟩ := p
      obtain ⟨hu, hd⟩ := ok u d rfl
      by_cases hs : sameDelim k u = true
      · have e := userOf_of_sameDelim hu hs
        simp only [syncCached, hs, if_true, List.map_cons]
        rw [ih _ ok, hd, e]
      · simp only [syncCached, hs, List.map_cons, Bool.false_eq_true, if_false]
        rw [ih _ okFresh]

/-! ### non-vacuity and closed witnesses -/

private def bs (l : List Nat) : Bytes := l.map (BitVec.ofNat 8)
/-- a toy hash that depends on every byte -/
private def hSum : Bytes → Nat := fun x => x.foldl (fun a c => (a * 31 + c.toNat) % 1009) 7

private def S3 : List Bytes := [bs [110, 49], bs [110, 50], bs [110, 51]]   -- n1 n2 n3
private def u : Bytes := bs [117]        -- "u"
private def u0 : Bytes := bs [117, 48]   -- "u0": extends "u" by a byte that sorts after "/"
private def ca : Bytes := bs [97]

-- hypotheses are satisfiable: ids without the delimiter, keys of several users, posted records
example : delim ∉ u ∧ delim ∉ u0 := by decide
example : userOf (recKey u0 ca) = u0 := by decide
example : shardOf (shardPath u ca (bs [53, 101])) = bs [53, 101] := by decide
example : lexLt (recKey u ca) (recKey u0 ca) = true := by decide
example : syncPlan xxh S3 (bs [110, 50]) [recKey u ca, recKey u0 ca] = [(recKey u0 ca, bs [110, 51])] := by decide
example : CacheOK xxh S3 none := by intro _ _ e; cases e
-- the two users have different owners (XXH64) …
example : owner xxh u S3 = some (bs [110, 50]) ∧ owner xxh u0 S3 = some (bs [110, 51]) := by decide
-- … the delimiter-aware cached loop follows them, the bare prefix test does not:
-- `u0/a` directly follows `u/a` in byte order and inherits the destination of `u`
example : syncCached sameDelim xxh S3 none [recKey u ca, recKey u0 ca]
    = [(recKey u ca, owner xxh u S3), (recKey u0 ca, owner xxh u0 S3)] := by decide
example : syncCached samePrefix xxh S3 none [recKey u ca, recKey u0 ca]
    = [(recKey u ca, owner xxh u S3), (recKey u0 ca, owner xxh u S3)] := by decide
-- a request with the owner down fails; the fail-over policy serves it from a server that is not the owner
example : route xxh u S3 [bs [110, 49], bs [110, 51]] = none ∧ route xxh u S3 S3 = some (bs [110, 50]) := by decide
example : failover xxh u S3 [bs [110, 49], bs [110, 51]] 2 = some (bs [110, 51])
    ∧ failover xxh u S3 [bs [110, 49], bs [110, 51]] 2 ≠ owner xxh u S3 := by decide
example : S3.Nodup ∧ 2 ≤ S3.length := by decide
example : NoTies xxh (userOf (recKey u0 ca)) S3 := by decide

end Sema.C13
