/- C13 — T2 pins (moved out of Lemmas.lean unchanged) -/
import SemaModel.C13.Model
import SemaModel.Generated.FactsC13
namespace Sema.C13

/-! ### T2 pins: syntactic facts of the source, regenerated on every run by `tools/facts_c13`.
The model hashes `key ++ server`, sorts ascending, clamps `k`, and every call site of package
`cluster` asks for `RendezvousHash(<user id | shard id>, c.Servers, 1)[0]`, i.e. `owner`. -/
namespace Pins
open Sema.Gen.FactsC13

example : hashImport = "github.com/cespare/xxhash" := by decide
example : hashOperands = ["key", "server"] := by decide
example : sortDirection = "asc" := by decide
example : clamp = "topK > len(servers) => topK = len(servers)" := by decide
example : calls.all (fun c => c.servers == "c.Servers" && c.k == "1" && c.use == "[0]") = true := by decide
example : calls.all (fun c => ["collection.UserId", "col.UserId", "userId", "shardId", "sId"].contains c.key) = true := by decide
example : calls.length ≥ 1 := by decide

end Pins

end Sema.C13
