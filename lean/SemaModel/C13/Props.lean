/-
C13 — routing is a deterministic, order-independent, minimally disruptive function.

All theorems hold for EVERY hash `h : Bytes → Nat`, every key, every server list of any length.
The only hypothesis is `NoTies h key S`: two *different* names of the list never get the same score
(for XXH64 a 2⁻⁶⁴ event per pair; duplicates of one name are allowed — they tie harmlessly).
`Nodup S` is therefore not needed; the `Nodup` form asked for in DESIGN.md §7 is the special case
`C13_set` below.  The statement "every server owns a share of a large key set" is a statement about
the distribution of xxhash, not about all keys: it is *tested* by the harness (stats.json, `share`),
not proved.
-/
import SemaModel.C13.Lemmas
namespace Sema.C13
open Sema List

variable (h : Bytes → Nat) (key : Bytes)

/-- the executable model meets the specification "first k of some score-sorted permutation" -/
theorem C13_model_is_rendezvous (S : List Bytes) (k : Nat) :
    IsRendezvous h key S k (rendezvous h key S k) :=
  ⟨sortBy (score h key) S, perm_sortBy _ S, sorted_sortBy _ S, rfl⟩

/-- determinism across sort algorithms: whatever score-sorted permutation an (unstable) sort
produces, the result is the model's — so any two nodes / two calls agree -/
theorem C13_deterministic {S : List Bytes} (nt : NoTies h key S) (k : Nat) {r₁ r₂ : List Bytes}
    (h₁ : IsRendezvous h key S k r₁) (h₂ : IsRendezvous h key S k r₂) : r₁ = r₂ := by
  obtain ⟨l₁, p₁, s₁, rfl⟩ := h₁
  obtain ⟨l₂, p₂, s₂, rfl⟩ := h₂
  rw [sortBy_eq_of_sorted_perm nt s₁ p₁, sortBy_eq_of_sorted_perm nt s₂ p₂]

/-- order independence: the result (for every k) is invariant under permutation of the server list -/
theorem C13_perm {S S' : List Bytes} (nt : NoTies h key S) (p : S'.Perm S) (k : Nat) :
    rendezvous h key S' k = rendezvous h key S k := by
  unfold rendezvous
  rw [sortBy_perm_eq nt p]

/-- … also against the specification: an unstable sort run on a permuted list gives the same answer -/
theorem C13_perm_spec {S S' : List Bytes} (nt : NoTies h key S) (p : S'.Perm S) (k : Nat)
    {r : List Bytes} (hr : IsRendezvous h key S' k r) : r = rendezvous h key S k := by
  obtain ⟨l, pl, sl, rfl⟩ := hr
  unfold rendezvous
  rw [sortBy_eq_of_sorted_perm nt sl (pl.trans p)]

/-- the result depends only on the SET of names when the lists are duplicate-free -/
theorem C13_set {S S' : List Bytes} (nt : NoTies h key S) (nd : S.Nodup) (nd' : S'.Nodup)
    (same : ∀ a, a ∈ S' ↔ a ∈ S) (k : Nat) : rendezvous h key S' k = rendezvous h key S k :=
  C13_perm h key nt ((perm_ext_iff_of_nodup nd' nd).2 same) k

/-- the owner is the name of least score (so it depends only on the set of names, duplicates or not) -/
theorem C13_owner_iff {S : List Bytes} (nt : NoTies h key S) (o : Bytes) :
    owner h key S = some o ↔ o ∈ S ∧ ∀ b ∈ S, score h key o ≤ score h key b := by
  unfold owner rendezvous
  rw [← head?_sortBy_iff nt]
  cases sortBy (score h key) S <;> simp

theorem C13_owner_set {S S' : List Bytes} (nt : NoTies h key S) (same : ∀ a, a ∈ S' ↔ a ∈ S) :
    owner h key S' = owner h key S := by
  have nt' : NoTies h key S' := fun a ha b hb => nt a ((same a).1 ha) b ((same b).1 hb)
  cases ho : owner h key S with
  | some o =>
    rw [C13_owner_iff h key nt] at ho
    rw [C13_owner_iff h key nt']
    exact ⟨(same o).2 ho.1, fun b hb => ho.2 b ((same b).1 hb)⟩
  | none =>
    cases ho' : owner h key S' with
    | none => rfl
    | some o =>
      rw [C13_owner_iff h key nt'] at ho'
      have : owner h key S = some o :=
        (C13_owner_iff h key nt o).2 ⟨(same o).1 ho'.1, fun b hb => ho'.2 b ((same b).2 hb)⟩
      rw [ho] at this; cases this

/-- an owner exists exactly for a non-empty list, and it is one of the listed servers -/
theorem C13_owner_some (S : List Bytes) : (owner h key S).isSome ↔ S ≠ [] := by
  unfold owner rendezvous
  have hp := perm_sortBy (score h key) S
  cases hl : sortBy (score h key) S with
  | nil => rw [hl] at hp; simp [hp.symm.eq_nil]
  | cons a as =>
    rw [hl] at hp
    have : S ≠ [] := by
      intro hS; subst hS; exact absurd hp.eq_nil (by simp)
    simp [this]

theorem C13_owner_mem {S : List Bytes} {o : Bytes} (ho : owner h key S = some o) : o ∈ S := by
  unfold owner rendezvous at ho
  have hp := perm_sortBy (score h key) S
  cases hl : sortBy (score h key) S with
  | nil => rw [hl] at ho; cases ho
  | cons a as =>
    rw [hl] at ho hp
    have : a = o := by simpa using ho
    subst this
    exact hp.mem_iff.1 mem_cons_self

/-- minimal disruption, addition (at the head of the list; no hypothesis at all) -/
theorem C13_add_cons (n : Bytes) (S : List Bytes) :
    owner h key (n :: S) = some n ∨ owner h key (n :: S) = owner h key S := by
  unfold owner rendezvous
  have := head?_insertBy (score h key) n (sortBy (score h key) S)
  show ((insertBy (score h key) n (sortBy (score h key) S)).take 1).head? = some n ∨
    ((insertBy (score h key) n (sortBy (score h key) S)).take 1).head? = ((sortBy (score h key) S).take 1).head?
  simpa [head?_take] using this

/-- minimal disruption, addition anywhere in the list: only keys that move to the new server change owner -/
theorem C13_add {S S' : List Bytes} (n : Bytes) (nt : NoTies h key S') (p : S'.Perm (n :: S)) :
    owner h key S' = some n ∨ owner h key S' = owner h key S := by
  have nt' : NoTies h key (n :: S) := fun a ha b hb => nt a (p.mem_iff.2 ha) b (p.mem_iff.2 hb)
  have e : owner h key S' = owner h key (n :: S) := by
    unfold owner; rw [C13_perm h key nt' p 1]
  rw [e]
  exact C13_add_cons h key n S

/-- addition, for the top-k list: nothing but the new server enters the first k -/
theorem C13_add_topk (n : Bytes) (S : List Bytes) (k : Nat) :
    ∀ a ∈ rendezvous h key (n :: S) k, a = n ∨ a ∈ rendezvous h key S k :=
  take_insertBy_subset (score h key) n (sortBy (score h key) S) k

/-- minimal disruption, removal (one occurrence): keys not owned by the removed server keep their owner -/
theorem C13_remove {S : List Bytes} (r : Bytes) (nt : NoTies h key S)
    (hne : owner h key S ≠ some r) : owner h key (S.erase r) = owner h key S := by
  unfold owner rendezvous at *
  rw [sortBy_erase r nt]
  simp only [head?_take] at *
  simp only [Nat.one_ne_zero, if_false] at *
  exact head?_erase_of_ne hne

/-- removal of every occurrence of the name -/
theorem C13_remove_all {S : List Bytes} (r : Bytes) (nt : NoTies h key S)
    (hne : owner h key S ≠ some r) : owner h key (S.filter (· != r)) = owner h key S := by
  unfold owner rendezvous at *
  rw [sortBy_filter _ nt]
  simp only [head?_take] at *
  simp only [Nat.one_ne_zero, if_false] at *
  apply head?_filter_of_pos
  intro a ha
  rw [ha] at hne
  simpa using hne

/-- `topK > len(servers)` is clamped; the result has exactly `min k n` entries -/
theorem C13_length (S : List Bytes) (k : Nat) : (rendezvous h key S k).length = min k S.length := by
  unfold rendezvous
  rw [length_take, (perm_sortBy _ S).length_eq]

/-- with `k ≥ n` the result is a permutation of the whole list; every entry is a listed server -/
theorem C13_clamp (S : List Bytes) (k : Nat) (hk : S.length ≤ k) : (rendezvous h key S k).Perm S := by
  unfold rendezvous
  rw [take_of_length_le (by rw [(perm_sortBy _ S).length_eq]; exact hk)]
  exact perm_sortBy _ S

theorem C13_sub (S : List Bytes) (k : Nat) : ∀ a ∈ rendezvous h key S k, a ∈ S :=
  fun _ ha => (perm_sortBy _ S).mem_iff.1 (mem_of_mem_take ha)

/-- the top-k list is itself ascending by score and a prefix of the longer lists -/
theorem C13_prefix (S : List Bytes) (k k' : Nat) (hk : k ≤ k') :
    rendezvous h key S k = (rendezvous h key S k').take k := by
  unfold rendezvous
  rw [take_take, Nat.min_eq_left hk]

/-! ### non-vacuity: the hypotheses are satisfiable on concrete, non-trivial states; the excluded
point (a tie between different names) really breaks order independence -/

private def b (n : Nat) : Bytes := [BitVec.ofNat 8 n]
/-- a toy hash with no ties on one-byte names: the byte value after the key -/
private def hInj : Bytes → Nat := fun x => (x.getLast?.map (·.toNat)).getD 0
/-- a constant hash: every pair ties -/
private def hConst : Bytes → Nat := fun _ => 7

example : NoTies hInj [] [b 3, b 1, b 2] := by decide
example : NoTies xxh (b 107) [b 97, b 98, b 99] := by decide
example : rendezvous hInj [] [b 3, b 1, b 2] 2 = [b 1, b 2] := by decide
example : rendezvous hInj [] [b 2, b 3, b 1] 2 = rendezvous hInj [] [b 3, b 1, b 2] 2 := by decide
example : owner hInj [] [b 3, b 1, b 2] = some (b 1) ∧ owner hInj [] ([b 3, b 1, b 2].erase (b 3)) = some (b 1) := by decide
example : owner hInj [] (b 0 :: [b 3, b 1, b 2]) = some (b 0) ∧ owner hInj [] (b 5 :: [b 3, b 1, b 2]) = some (b 1) := by decide
-- duplicate names are inside the domain of the theorems
example : NoTies hInj [] [b 3, b 1, b 3, b 1] := by decide
-- the forced hypothesis: with a tie between different names the order of the list shows through
example : ¬ NoTies hConst [] [b 1, b 2] := by decide
example : rendezvous hConst [] [b 1, b 2] 1 ≠ rendezvous hConst [] [b 2, b 1] 1 := by decide
-- empty list: no owner (Go: index out of range at the call site)
example : owner xxh (b 1) [] = none := by decide
-- k = 0 and k > n
example : rendezvous hInj [] [b 3, b 1] 0 = [] ∧ rendezvous hInj [] [b 3, b 1] 9 = [b 1, b 3] := by decide

end Sema.C13
