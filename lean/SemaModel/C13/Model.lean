/-
C13 — routing by rendezvous (highest-random-weight) hashing: model of `cluster/hashing.go`.

    func RendezvousHash(key string, servers []string, topK int) []string {
        scores[i] = {server, xxhash.Sum64String(key + server)}        -- one score per list entry
        slices.SortFunc(scores, cmp.Compare(a.Score, b.Score))       -- ascending, pdqsort (unstable)
        if topK > len(servers) { topK = len(servers) }
        return first topK servers of the sorted list
    }

The hash is a PARAMETER `h : Bytes → Nat` (every theorem quantifies over every `h`); strings are byte
strings.  Two descriptions of the sort are given:
  * `IsRendezvous` — the specification the Go code is held to: *some* permutation of the input that is
    sorted by score, cut to `k` (covers an unstable sort);
  * `rendezvous`  — a concrete stable insertion sort (what the driver executes).
`Props.lean` shows both coincide whenever distinct names have distinct scores.
The executable hash instance is XXH64 (seed 0) written below on `UInt64`, compared on every run
with `github.com/cespare/xxhash` v1.1.0 `Sum64String`.  Core-only.
-/
import SemaModel.Base.Bytes
namespace Sema.C13
open Sema

/-- score of a server for a key: `h (key + server)` -/
def score (h : Bytes → Nat) (key s : Bytes) : Nat := h (key ++ s)

/-- insertion into a list sorted ascending by `f` (before the first element that is not smaller) -/
def insertBy {α : Type} (f : α → Nat) (x : α) : List α → List α
  | [] => [x]
  | y :: ys => if f x ≤ f y then x :: y :: ys else y :: insertBy f x ys

/-- stable insertion sort, ascending by `f` -/
def sortBy {α : Type} (f : α → Nat) (l : List α) : List α := l.foldr (insertBy f) []

/-- `RendezvousHash(key, servers, k)` for `k ≥ 0` (a negative `topK` makes Go's `make` panic; every
call site passes the constant 1, pinned by `tools/facts_c13`). `List.take` clamps `k > len`. -/
def rendezvous (h : Bytes → Nat) (key : Bytes) (servers : List Bytes) (k : Nat) : List Bytes :=
  (sortBy (score h key) servers).take k

/-- what every call site computes: `RendezvousHash(key, c.Servers, 1)[0]`
(`none` = index out of range panic on an empty server list) -/
def owner (h : Bytes → Nat) (key : Bytes) (servers : List Bytes) : Option Bytes :=
  (rendezvous h key servers 1).head?

/-- ascending by score -/
def SortedBy {α : Type} (f : α → Nat) (l : List α) : Prop := l.Pairwise (fun a b => f a ≤ f b)

/-- specification of one call: the result is the first `k` entries of *some* score-sorted permutation
of the server list (Go's `slices.SortFunc` is not stable) -/
def IsRendezvous (h : Bytes → Nat) (key : Bytes) (servers : List Bytes) (k : Nat) (res : List Bytes) : Prop :=
  ∃ l : List Bytes, l.Perm servers ∧ SortedBy (score h key) l ∧ res = l.take k

/-- no score ties between *different* names of the list (duplicates of one name tie harmlessly) -/
def NoTies (h : Bytes → Nat) (key : Bytes) (servers : List Bytes) : Prop :=
  ∀ a ∈ servers, ∀ b ∈ servers, score h key a = score h key b → a = b

instance (h : Bytes → Nat) (key : Bytes) (servers : List Bytes) : Decidable (NoTies h key servers) := by
  unfold NoTies; infer_instance

/-! ### XXH64, seed 0 (executable instance of `h`) -/
namespace XXH

def P1 : UInt64 := 11400714785074694791
def P2 : UInt64 := 14029467366897019727
def P3 : UInt64 := 1609587929392839161
def P4 : UInt64 := 9650029242287828579
def P5 : UInt64 := 2870177450012600261

def rotl (x : UInt64) (r : UInt64) : UInt64 := (x <<< r) ||| (x >>> (64 - r))
def round (acc input : UInt64) : UInt64 := rotl (acc + input * P2) 31 * P1
def mergeRound (acc val : UInt64) : UInt64 := (acc ^^^ round 0 val) * P1 + P4

/-- little-endian value of (at most 8) bytes -/
def le : Bytes → UInt64
  | [] => 0
  | b :: bs => UInt64.ofNat b.toNat ||| (le bs <<< 8)

structure Acc where
  v1 : UInt64
  v2 : UInt64
  v3 : UInt64
  v4 : UInt64

/-- consume full 32-byte stripes; returns the accumulators and the unconsumed tail -/
def stripes : Nat → Acc → Bytes → Acc × Bytes
  | 0, a, b => (a, b)
  | fuel + 1, a, b =>
    if b.length < 32 then (a, b)
    else
      let a' : Acc := ⟨round a.v1 (le (b.take 8)), round a.v2 (le ((b.drop 8).take 8)),
                       round a.v3 (le ((b.drop 16).take 8)), round a.v4 (le ((b.drop 24).take 8))⟩
      stripes fuel a' (b.drop 32)

/-- the tail (< 32 bytes): 8-byte words, then one 4-byte word, then single bytes -/
def tail : Nat → UInt64 → Bytes → UInt64
  | 0, h, _ => h
  | fuel + 1, h, b =>
    if b.length ≥ 8 then
      tail fuel (rotl (h ^^^ round 0 (le (b.take 8))) 27 * P1 + P4) (b.drop 8)
    else if b.length ≥ 4 then
      tail fuel (rotl (h ^^^ (le (b.take 4) * P1)) 23 * P2 + P3) (b.drop 4)
    else match b with
      | [] => h
      | x :: rest => tail fuel (rotl (h ^^^ (UInt64.ofNat x.toNat * P5)) 11 * P1) rest

def avalanche (h : UInt64) : UInt64 :=
  let h := (h ^^^ (h >>> 33)) * P2
  let h := (h ^^^ (h >>> 29)) * P3
  h ^^^ (h >>> 32)

def sum64 (b : Bytes) : UInt64 :=
  let n := b.length
  let (h, rest) :=
    if n ≥ 32 then
      let (a, rest) := stripes (n / 32 + 1) ⟨P1 + P2, P2, 0, 0 - P1⟩ b
      let h := rotl a.v1 1 + rotl a.v2 7 + rotl a.v3 12 + rotl a.v4 18
      (mergeRound (mergeRound (mergeRound (mergeRound h a.v1) a.v2) a.v3) a.v4, rest)
    else (P5, b)
  avalanche (tail (rest.length + 1) (h + UInt64.ofNat n) rest)

end XXH

/-- the hash the implementation uses, as an instance of the abstract `h` -/
def xxh (b : Bytes) : Nat := (XXH.sum64 b).toNat

end Sema.C13
