/- line protocol for C13 (one pure call per line), evaluated on the hand-written model with h := XXH64

    xxh <bytes>                         -> 16 hex digits            xxhash.Sum64String
    rv <k> <key> <servers>              -> <servers>                RendezvousHash(key, servers, k)
    own <key> <servers>                 -> <name> | panic           RendezvousHash(key, servers, 1)[0]
    sync <servers> <me> <keys>          -> <names>                  node database records `user/collection` held by server
                                                                    number me, which runs Sync; answer = the server holding
                                                                    key i afterwards (afterSync = owner user)
    shsync <servers> <me> <paths>       -> <names>                  the same for shard directories `user/collection/shard`
    req <kind> <servers> <up> <via> <user> <col>          -> <name> | fail    a user-level request (create get list delete mkshard)
                                                                    issued at server number via while exactly the servers with
                                                                    up[i] = 1 answer: the server that served it (route user)
    shreq <kind> <servers> <up> <via> <user> <col> <shard> -> <name> | fail   a shard-level request (info insert search update delpts)
  <bytes>   = hex | "-" (empty)
  <me>, <via> = index into <servers>;  <keys>, <paths> = comma separated hex;  <up> = one 0/1 per server
  <servers> = "-" (empty list) | comma separated names, each hex or "." (the empty name)
-/
import SemaModel.Base.DriverUtil
import SemaModel.C13.Model
import SemaModel.C13.Sites
namespace Sema.C13
open Sema

def bytes? (s : String) : Option Bytes := if s == "-" then some [] else bytesOfHex s
def name? (s : String) : Option Bytes := if s == "." then some [] else bytesOfHex s
def servers? (s : String) : Option (List Bytes) :=
  if s == "-" then some [] else (s.splitOn ",").mapM name?
def showName (b : Bytes) : String := if b.isEmpty then "." else hexOfBytes b
def showServers (l : List Bytes) : String := if l.isEmpty then "-" else ",".intercalate (l.map showName)

def keys? (s : String) : Option (List Bytes) := (s.splitOn ",").mapM bytesOfHex
def upSet (ss : List Bytes) (mask : String) : List Bytes :=
  (ss.zip mask.toList).filterMap (fun (s, c) => if c == '1' then some s else none)

/-- final holder of every key, `holder me key` being the model's answer for a key held by `me` -/
def syncAnswer (holder : Bytes → Bytes → Option Bytes) (ss : List Bytes) (me : Nat) (keys : List Bytes) : String :=
  if me ≥ ss.length then "bad-op" else
  ",".intercalate (keys.map fun k =>
    match holder (ss.getD me []) k with
    | some d => showName d
    | none => "panic")

/-- a record `user/collection` held by `me`: where `me`'s sync loop (syncPlan) leaves it -/
def recHolder (ss : List Bytes) (me k : Bytes) : Option Bytes :=
  (recDest xxh ss k).map fun _ => afterSync xxh ss me k
/-- a shard directory: routed by its last segment -/
def shardHolder (ss : List Bytes) (_me p : Bytes) : Option Bytes := shardDest xxh ss p

def routeAnswer (key : Bytes) (ss : List Bytes) (mask : String) : String :=
  if mask.length != ss.length then "bad-op" else
  match route xxh key ss (upSet ss mask) with
  | some s => showName s
  | none => "fail"

def step (line : String) : String :=
  let bad := "bad-op"
  match line.trimAscii.toString.splitOn " " with
  | ["xxh", x] => match bytes? x with | some v => hexOfNat 16 (xxh v) | none => bad
  | ["rv", k, key, ss] => match k.toNat?, bytes? key, servers? ss with
      | some k, some key, some ss => showServers (rendezvous xxh key ss k)
      | _, _, _ => bad
  | ["own", key, ss] => match bytes? key, servers? ss with
      | some key, some ss => match owner xxh key ss with | some o => showName o | none => "panic"
      | _, _ => bad
  | ["sync", ss, hs, ks] => match servers? ss, hs.toNat?, keys? ks with
      | some ss, some hs, some ks => syncAnswer (recHolder ss) ss hs ks
      | _, _, _ => bad
  | ["shsync", ss, hs, ps] => match servers? ss, hs.toNat?, keys? ps with
      | some ss, some hs, some ps => syncAnswer (shardHolder ss) ss hs ps
      | _, _, _ => bad
  | ["req", _kind, ss, up, _via, user, _col] => match servers? ss, bytes? user with
      | some ss, some user => routeAnswer user ss up
      | _, _ => bad
  | ["shreq", _kind, ss, up, _via, _user, _col, shard] => match servers? ss, bytes? shard with
      | some ss, some shard => routeAnswer shard ss up
      | _, _ => bad
  | _ => bad

end Sema.C13

def Sema.C13.driverMain (stdin stdout : IO.FS.Stream) (_args : List String) : IO Unit :=
  Sema.loopPure stdin stdout Sema.C13.step
