/- line protocol for C13 (one pure call per line), evaluated on the hand-written model with h := XXH64

    xxh <bytes>                         -> 16 hex digits            xxhash.Sum64String
    rv <k> <key> <servers>              -> <servers>                RendezvousHash(key, servers, k)
    own <key> <servers>                 -> <name> | panic           RendezvousHash(key, servers, 1)[0]
  <bytes>   = hex | "-" (empty)
  <servers> = "-" (empty list) | comma separated names, each hex or "." (the empty name)
-/
import SemaModel.Base.DriverUtil
import SemaModel.C13.Model
namespace Sema.C13
open Sema

def bytes? (s : String) : Option Bytes := if s == "-" then some [] else bytesOfHex s
def name? (s : String) : Option Bytes := if s == "." then some [] else bytesOfHex s
def servers? (s : String) : Option (List Bytes) :=
  if s == "-" then some [] else (s.splitOn ",").mapM name?
def showName (b : Bytes) : String := if b.isEmpty then "." else hexOfBytes b
def showServers (l : List Bytes) : String := if l.isEmpty then "-" else ",".intercalate (l.map showName)

def step (line : String) : String :=
  let bad := "bad-op"
  match line.trimAscii.toString.splitOn " " with
  | ["xxh", x] => match bytes? x with | some v => hexOfNat 16 (xxh v) | none => bad
  | ["rv", k, key, ss] => match k.toNat?, bytes? key, servers? ss with
      | some k, some key, some ss => showServers (rendezvous xxh key ss k)
      | _, _, _ => bad
  | ["own", key, ss] => match bytes? key, servers? ss with
      | some key, some ss => match owner xxh key ss with | some o => showName o | none => "panic"
      | _, _ => bad
  | _ => bad

end Sema.C13

def Sema.C13.driverMain (stdin stdout : IO.FS.Stream) (_args : List String) : IO Unit :=
  Sema.loopPure stdin stdout Sema.C13.step
