/-
C13 — the call sites that route (model; core-only, linked into the driver).

`RendezvousHash` alone is not the property: the property says that *every place that routes* —
client requests (`cluster/actions.go`), the re-distribution of collection records and of shard files
after a change of the server list (`cluster/sync.go`) — designates the same server for the same key,
and that this server is a function of the key and of the server set only (not of which servers
answer at the moment, not of the record visited before).

  * record keys of the node database are `userId + "/" + collectionId` (`DBDELIMITER = "/"`); the
    user id of a key is `strings.Split(key, "/")[0]` = the bytes before the first `/` (`userOf`);
    user ids never contain `/` (httpapi/middleware/appheaders.go rejects them), collection ids are
    alphanumeric;
  * `syncUserCollections` visits the keys of the bucket in byte order and puts every key whose
    destination is another server into `postage[destination]`: `syncPlan`;
  * `syncShards` routes the shard directory `…/user/collection/shardId/` by its last segment:
    `shardOf`;
  * a request for a key is sent to `RendezvousHash(key, c.Servers, 1)[0]`; when that server does not
    answer the request fails: `route`.  `failover` is the policy "try the first `k` ranked servers
    until one answers" — NOT what the code does; `SitesProps.lean` shows it violates the property.
-/
import SemaModel.C13.Model
namespace Sema.C13
open Sema

/-- `DBDELIMITER = "/"` -/
def delim : Byte := 47

/-- `strings.Split(key, "/")[0]`: the bytes before the first `/` (the whole key when there is none) -/
def userOf (key : Bytes) : Bytes := key.takeWhile (· != delim)

/-- `userId + DBDELIMITER + collectionId` -/
def recKey (user col : Bytes) : Bytes := user ++ delim :: col

/-- last segment of a `/`-separated path: `filepath.Base` of the shard directory -/
def shardOf (path : Bytes) : Bytes := (path.reverse.takeWhile (· != delim)).reverse

/-- `userId/collectionId/shardId` below `userCollections` -/
def shardPath (user col shard : Bytes) : Bytes := user ++ delim :: (col ++ delim :: shard)

/-- destination the sync loop computes for one record key -/
def recDest (h : Bytes → Nat) (servers : List Bytes) (key : Bytes) : Option Bytes :=
  owner h (userOf key) servers

/-- destination `syncShards` computes for one shard directory -/
def shardDest (h : Bytes → Nat) (servers : List Bytes) (path : Bytes) : Option Bytes :=
  owner h (shardOf path) servers

/-- the per-key loop of `syncUserCollections` run by node `me`: the (key, destination) pairs put into
`postage`, in visiting order. (An empty server list panics in Go: no pair.) -/
def syncPlan (h : Bytes → Nat) (servers : List Bytes) (me : Bytes) : List Bytes → List (Bytes × Bytes)
  | [] => []
  | k :: ks =>
    match recDest h servers k with
    | some d => if d == me then syncPlan h servers me ks else (k, d) :: syncPlan h servers me ks
    | none => syncPlan h servers me ks

/-- where a record held by `me` is after `me`'s failure-free synchronisation -/
def afterSync (h : Bytes → Nat) (servers : List Bytes) (me key : Bytes) : Bytes :=
  match (syncPlan h servers me [key]).head? with
  | some (_, d) => d
  | none => me

/-- the "route once per user" variant of the loop: the state is the user id routed last and its
destination; `same key u` decides whether `key` still belongs to `u`. The result lists the
destination used for every key (whether or not it equals `me`). -/
def syncCached (same : Bytes → Bytes → Bool) (h : Bytes → Nat) (servers : List Bytes) :
    Option (Bytes × Option Bytes) → List Bytes → List (Bytes × Option Bytes)
  | _, [] => []
  | st, k :: ks =>
    let fresh : Bytes × Option Bytes := (userOf k, owner h (userOf k) servers)
    let cur : Bytes × Option Bytes :=
      match st with
      | some (u, d) => if same k u then (u, d) else fresh
      | none => fresh
    (k, cur.2) :: syncCached same h servers (some cur) ks

/-- the sound run test: the key starts with the user id AND the delimiter -/
def sameDelim (key u : Bytes) : Bool := (u ++ [delim]).isPrefixOf key
/-- the unsound one: `strings.HasPrefix(key, userId)` -/
def samePrefix (key u : Bytes) : Bool := u.isPrefixOf key

/-- a request for `key` while exactly the servers in `up` answer: served by the owner, or it fails -/
def route (h : Bytes → Nat) (key : Bytes) (servers up : List Bytes) : Option Bytes :=
  match owner h key servers with
  | some o => if up.contains o then some o else none
  | none => none

/-- NOT the code: try the first `k` ranked servers until one answers -/
def failover (h : Bytes → Nat) (key : Bytes) (servers up : List Bytes) (k : Nat) : Option Bytes :=
  (rendezvous h key servers k).find? (fun s => up.contains s)

end Sema.C13
