/- helper lemmas for C17 (fan-out and merge).  Core-only. -/
import SemaModel.C17.Model
import SemaModel.C06.Lemmas
set_option linter.unusedSimpArgs false
set_option linter.unusedVariables false
namespace Sema.C17

/-! ### binary search on a sorted list -/

theorem getD_eq_getElem' (x : List Nat) (d : Nat) {a : Nat} (h : a < x.length) : x.getD a d = x[a] := by
  simp [List.getD, h]

theorem getD_mono {x : List Nat} (hs : x.Pairwise (· ≤ ·)) {a b : Nat} (hab : a ≤ b) (hb : b < x.length) :
    x.getD a 0 ≤ x.getD b 0 := by
  have ha : a < x.length := Nat.lt_of_le_of_lt hab hb
  rw [getD_eq_getElem' _ _ ha, getD_eq_getElem' _ _ hb]
  rcases Nat.lt_or_eq_of_le hab with h | h
  · exact (List.pairwise_iff_getElem.mp hs) a b ha hb h
  · subst h; exact Nat.le_refl _

theorem bsLoop_spec (x : List Nat) (t : Nat) (hs : x.Pairwise (· ≤ ·)) :
    ∀ (fuel i j : Nat), i ≤ j → j ≤ x.length → j - i ≤ fuel →
      (∀ k, k < i → x.getD k 0 < t) → (∀ k, j ≤ k → k < x.length → t ≤ x.getD k 0) →
      (bsLoop x t fuel i j ≤ x.length) ∧
      (∀ k, k < bsLoop x t fuel i j → x.getD k 0 < t) ∧
      (∀ k, bsLoop x t fuel i j ≤ k → k < x.length → t ≤ x.getD k 0) := by
  intro fuel
  induction fuel with
  | zero =>
    intro i j hij hjn hf hlo hhi
    have : i = j := by omega
    subst this
    simp only [bsLoop]
    exact ⟨hjn, hlo, hhi⟩
  | succ fuel ih =>
    intro i j hij hjn hf hlo hhi
    simp only [bsLoop]
    by_cases hlt : i < j
    · simp only [hlt, if_true]
      have hh1 : i ≤ (i + j) / 2 := by omega
      have hh2 : (i + j) / 2 < j := by omega
      by_cases hc : x.getD ((i + j) / 2) 0 < t
      · simp only [hc, if_true]
        apply ih ((i + j) / 2 + 1) j (by omega) hjn (by omega)
        · intro k hk
          have : x.getD k 0 ≤ x.getD ((i + j) / 2) 0 := getD_mono hs (by omega) (by omega)
          omega
        · exact hhi
      · simp only [hc, if_false]
        apply ih i ((i + j) / 2) hh1 (by omega) (by omega) hlo
        intro k hk hkn
        have : x.getD ((i + j) / 2) 0 ≤ x.getD k 0 := getD_mono hs hk hkn
        omega
    · simp only [hlt, if_false]
      have : i = j := by omega
      subst this
      exact ⟨hjn, hlo, hhi⟩

theorem binarySearch_found {x : List Nat} (hs : x.Pairwise (· ≤ ·)) (t : Nat) :
    (binarySearch x t).2 = true ↔ t ∈ x := by
  obtain ⟨h0, h1, h2⟩ := bsLoop_spec x t hs x.length 0 x.length (Nat.zero_le _) (Nat.le_refl _) (by omega)
    (fun k hk => absurd hk (Nat.not_lt_zero _)) (fun k hk hkn => absurd hkn (by omega))
  simp only [binarySearch, Bool.and_eq_true, decide_eq_true_eq, beq_iff_eq]
  constructor
  · rintro ⟨hr, he⟩
    rw [getD_eq_getElem' _ _ hr] at he
    rw [← he]; exact List.getElem_mem hr
  · intro hm
    obtain ⟨k, hk, hke⟩ := List.mem_iff_getElem.mp hm
    have hgk : x.getD k 0 = t := by rw [getD_eq_getElem' _ _ hk]; exact hke
    have hrk : bsLoop x t x.length 0 x.length ≤ k := by
      rcases Nat.lt_or_ge k (bsLoop x t x.length 0 x.length) with h | h
      · have := h1 k h; omega
      · exact h
    have hr : bsLoop x t x.length 0 x.length < x.length := Nat.lt_of_le_of_lt hrk hk
    refine ⟨hr, ?_⟩
    have a1 := h2 _ (Nat.le_refl _) hr
    have a2 := getD_mono hs hrk hk
    omega

/-- what a sort has to deliver -/
def IsSort (sort : List Nat → List Nat) : Prop := ∀ l, (sort l).Perm l ∧ (sort l).Pairwise (· ≤ ·)

theorem insertBy_perm {α} (le : α → α → Bool) (x : α) : ∀ l : List α, (insertBy le x l).Perm (x :: l)
  | [] => List.Perm.refl _
  | y :: ys => by
    simp only [insertBy]
    split
    · exact List.Perm.refl _
    · exact ((insertBy_perm le x ys).cons y).trans (List.Perm.swap x y ys)

theorem sortBy_perm {α} (le : α → α → Bool) : ∀ l : List α, (sortBy le l).Perm l
  | [] => List.Perm.refl _
  | x :: l => by
    simp only [sortBy, List.foldr_cons]
    exact (insertBy_perm le x _).trans ((sortBy_perm le l).cons x)

theorem insertBy_sorted {α} (le : α → α → Bool) (htrans : ∀ a b c, le a b = true → le b c = true → le a c = true)
    (htotal : ∀ a b, (le a b || le b a) = true) (x : α) :
    ∀ l : List α, l.Pairwise (fun a b => le a b = true) → (insertBy le x l).Pairwise (fun a b => le a b = true)
  | [], _ => by simp [insertBy]
  | y :: ys, h => by
    simp only [insertBy]
    have hy := List.pairwise_cons.mp h
    by_cases hxy : le x y = true
    · simp only [hxy, if_true]
      refine List.pairwise_cons.mpr ⟨?_, h⟩
      intro z hz
      rcases List.mem_cons.mp hz with rfl | hz'
      · exact hxy
      · exact htrans _ _ _ hxy (hy.1 z hz')
    · simp only [hxy, if_false, Bool.false_eq_true]
      refine List.pairwise_cons.mpr ⟨?_, insertBy_sorted le htrans htotal x ys hy.2⟩
      intro z hz
      have hz' := (insertBy_perm le x ys).mem_iff.mp hz
      rcases List.mem_cons.mp hz' with rfl | hz''
      · have := htotal z y
        simp only [Bool.or_eq_true] at this
        rcases this with h1 | h1
        · exact absurd h1 hxy
        · exact h1
      · exact hy.1 z hz''

theorem sortBy_sorted {α} (le : α → α → Bool) (htrans : ∀ a b c, le a b = true → le b c = true → le a c = true)
    (htotal : ∀ a b, (le a b || le b a) = true) : ∀ l : List α, (sortBy le l).Pairwise (fun a b => le a b = true)
  | [] => by simp [sortBy]
  | x :: l => by
    simp only [sortBy, List.foldr_cons]
    exact insertBy_sorted le htrans htotal x _ (sortBy_sorted le htrans htotal l)

theorem sortIds_isSort : IsSort sortIds := by
  intro l
  refine ⟨sortBy_perm _ l, ?_⟩
  have := sortBy_sorted (fun a b => decide (a ≤ b)) (by intro a b c; simp; omega) (by intro a b; simp; omega) l
  simpa [sortIds] using this

/-- `curateWith` needs its sorter to deliver a sorted permutation ON THE SUCCESS LIST IT IS GIVEN only (this is
what lets the tie theorem `C17_tie`, whose sorter is "whatever `slices.SortFunc` returned on these ids",
compose with the specification: `C17_curate_generated` in Tie.lean) -/
theorem curateWith_eq_at {sort : List Nat → List Nat} (all succ : List Nat) (complete : Bool)
    (hp : (sort succ).Perm succ) (hs : (sort succ).Pairwise (· ≤ ·)) :
    curateWith sort all succ complete =
      (all.filter fun i => !succ.contains i).map fun i => (i, if complete then Msg.notFound else Msg.unavailable) := by
  unfold curateWith
  induction all with
  | nil => rfl
  | cons a rest ih =>
    have hf : (binarySearch (sort succ) a).2 = succ.contains a := by
      have h1 := binarySearch_found hs a
      have h2 : a ∈ sort succ ↔ a ∈ succ := hp.mem_iff
      cases hb : (binarySearch (sort succ) a).2 <;> cases hc : succ.contains a <;> simp_all
    simp only [List.filterMap_cons, List.filter_cons, hf]
    cases hc : succ.contains a
    · simp [ih]
    · simp [ih]

theorem curateWith_eq {sort : List Nat → List Nat} (hsort : IsSort sort) (all succ : List Nat) (complete : Bool) :
    curateWith sort all succ complete =
      (all.filter fun i => !succ.contains i).map fun i => (i, if complete then Msg.notFound else Msg.unavailable) := by
  obtain ⟨hp, hs⟩ := hsort succ
  unfold curateWith
  induction all with
  | nil => rfl
  | cons a rest ih =>
    have hf : (binarySearch (sort succ) a).2 = succ.contains a := by
      have h1 := binarySearch_found hs a
      have h2 : a ∈ sort succ ↔ a ∈ succ := hp.mem_iff
      cases hb : (binarySearch (sort succ) a).2 <;> cases hc : succ.contains a <;> simp_all
    simp only [List.filterMap_cons, List.filter_cons, hf]
    cases hc : succ.contains a
    · simp [ih]
    · simp [ih]


/-! ### one shard -/

theorem has_iff {pts : List (Nat × Int)} {i : Nat} : has pts i = true ↔ i ∈ pts.map (·.1) := by
  simp [has]

theorem mem_dedup {l : List Nat} {x : Nat} : x ∈ dedup l ↔ x ∈ l := by
  induction l with
  | nil => simp [dedup]
  | cons a l ih =>
    by_cases h : a ∈ l
    · simp only [dedup, List.contains_eq_mem, h, decide_true, if_true, ih, List.mem_cons]
      constructor
      · exact Or.inr
      · rintro (rfl | h') <;> assumption
    · simp only [dedup, List.contains_eq_mem, h, decide_false, Bool.false_eq_true, if_false, List.mem_cons, ih]

theorem nodup_dedup (l : List Nat) : (dedup l).Nodup := by
  induction l with
  | nil => simp [dedup]
  | cons a l ih =>
    by_cases h : a ∈ l
    · simpa [dedup, h] using ih
    · simp only [dedup, List.contains_eq_mem, h, decide_false, Bool.false_eq_true, if_false, List.nodup_cons]
      refine ⟨?_, ih⟩
      rw [mem_dedup]; exact h

theorem count_eq_one_of_nodup {l : List Nat} (hn : l.Nodup) {x : Nat} (hx : x ∈ l) : l.count x = 1 := by
  induction l with
  | nil => simp at hx
  | cons a l ih =>
    have hn' := List.nodup_cons.mp hn
    rw [List.count_cons]
    by_cases e : a = x
    · subst e
      have : l.count a = 0 := List.count_eq_zero.mpr hn'.1
      simp [this]
    · have hx' : x ∈ l := by
        rcases List.mem_cons.mp hx with h | h
        · exact absurd h.symm e
        · exact h
      simp [e, ih hn'.2 hx']

/-- the payload an update request leaves at id `i` (the last request entry for `i` wins) -/
def finalVal (req : List (Nat × Int)) (i : Nat) (d : Int) : Int := req.foldl (fun v q => if i = q.1 then q.2 else v) d

theorem updPts_eq (req : List (Nat × Int)) : ∀ pts : List (Nat × Int),
    updPts pts req = pts.map fun o => (o.1, finalVal req o.1 o.2) := by
  induction req with
  | nil => intro pts; simp [updPts, finalVal]
  | cons q req ih =>
    intro pts
    have h := ih (pts.map fun o => if o.1 = q.1 then (o.1, q.2) else o)
    simp only [updPts, List.foldl_cons] at h ⊢
    rw [h, List.map_map]
    apply List.map_congr_left
    intro o _
    by_cases e : o.1 = q.1 <;> simp [finalVal, e]

theorem updPts_ids (pts req : List (Nat × Int)) : (updPts pts req).map (·.1) = pts.map (·.1) := by
  rw [updPts_eq, List.map_map]; rfl

theorem finalVal_not_mem {req : List (Nat × Int)} {i : Nat} (d : Int) (h : i ∉ req.map (·.1)) : finalVal req i d = d := by
  induction req generalizing d with
  | nil => rfl
  | cons q req ih =>
    simp only [List.map_cons, List.mem_cons, not_or] at h
    simp only [finalVal, List.foldl_cons, h.1, if_false]
    exact ih d h.2

theorem finalVal_of_mem {req : List (Nat × Int)} {i : Nat} {v : Int} (d : Int) (hn : (req.map (·.1)).Nodup) (h : (i, v) ∈ req) :
    finalVal req i d = v := by
  induction req generalizing d with
  | nil => simp at h
  | cons q req ih =>
    simp only [List.map_cons, List.nodup_cons] at hn
    simp only [finalVal, List.foldl_cons]
    rcases List.mem_cons.mp h with rfl | h'
    · simp only [if_true]
      exact finalVal_not_mem _ hn.1
    · have : i ≠ q.1 := by
        intro e
        apply hn.1
        rw [← e]
        exact List.mem_map.mpr ⟨(i, v), h', rfl⟩
      simp only [this, if_false]
      exact ih d hn.2 h'

theorem updPts_unchanged {pts req : List (Nat × Int)} (h : ∀ q ∈ req, has pts q.1 = false) : updPts pts req = pts := by
  rw [updPts_eq]
  conv => rhs; rw [← List.map_id pts]
  apply List.map_congr_left
  intro o ho
  have : o.1 ∉ req.map (·.1) := by
    intro hm
    obtain ⟨q, hq, e⟩ := List.mem_map.mp hm
    have := h q hq
    rw [e] at this
    have h2 : has pts o.1 = true := has_iff.mpr (List.mem_map.mpr ⟨o, ho, rfl⟩)
    rw [h2] at this; exact Bool.noConfusion this
  simp [finalVal_not_mem _ this]

theorem delPts_ids (pts : List (Nat × Int)) (ids : List Nat) :
    (delPts pts ids).map (·.1) = (pts.map (·.1)).filter (fun i => !ids.contains i) := by
  simp [delPts, List.filter_map, Function.comp_def]

theorem delPts_unchanged {pts : List (Nat × Int)} {ids : List Nat} (h : ∀ i ∈ ids, has pts i = false) : delPts pts ids = pts := by
  unfold delPts
  apply List.filter_eq_self.mpr
  intro o ho
  cases hc : ids.contains o.1
  · rfl
  · have : o.1 ∈ ids := by simpa using hc
    have h1 := h _ this
    have h2 : has pts o.1 = true := has_iff.mpr (List.mem_map.mpr ⟨o, ho, rfl⟩)
    rw [h2] at h1; exact Bool.noConfusion h1

/-! ### the collection -/

def Coll.ids (col : Coll) : List Nat := col.flatMap Shard.ids
/-- point ids are unique per collection (and per shard) -/
def Uniq (col : Coll) : Prop := (Coll.ids col).Nodup
instance (col : Coll) : Decidable (Uniq col) := by unfold Uniq; infer_instance

/-- some available shard holds `i` -/
def heldUp (col : Coll) (i : Nat) : Bool := col.any fun sh => sh.up && has sh.pts i

theorem mem_fan {col : Coll} {l : List Nat} {i : Nat} :
    i ∈ (col.flatMap fun sh => if sh.up then l.filter (has sh.pts) else []) ↔ i ∈ l ∧ heldUp col i = true := by
  simp only [List.mem_flatMap, heldUp, List.any_eq_true, Bool.and_eq_true]
  constructor
  · rintro ⟨sh, hsh, hi⟩
    by_cases hu : sh.up = true
    · simp only [hu, if_true, List.mem_filter] at hi
      exact ⟨hi.1, sh, hsh, hu, hi.2⟩
    · simp [hu] at hi
  · rintro ⟨hl, sh, hsh, hu, hh⟩
    exact ⟨sh, hsh, by simp [hu, hl, hh]⟩

theorem count_fan_zero {col : Coll} {l : List Nat} {x : Nat} (h : x ∉ Coll.ids col) :
    (col.flatMap fun sh => if sh.up then l.filter (has sh.pts) else []).count x = 0 := by
  apply List.count_eq_zero.mpr
  intro hm
  obtain ⟨_, hh⟩ := mem_fan.mp hm
  simp only [heldUp, List.any_eq_true, Bool.and_eq_true] at hh
  obtain ⟨sh, hsh, _, hp⟩ := hh
  apply h
  exact List.mem_flatMap.mpr ⟨sh, hsh, has_iff.mp hp⟩

theorem count_fan {col : Coll} (hu : Uniq col) (l : List Nat) (x : Nat) :
    (col.flatMap fun sh => if sh.up then l.filter (has sh.pts) else []).count x = if heldUp col x then l.count x else 0 := by
  induction col with
  | nil => simp [heldUp]
  | cons sh rest ih =>
    have hu' : (Shard.ids sh ++ Coll.ids rest).Nodup := by simpa [Uniq, Coll.ids] using hu
    have hrest : Uniq rest := (List.nodup_append.mp hu').2.1
    have hdisj := (List.nodup_append.mp hu').2.2
    simp only [List.flatMap_cons, List.count_append]
    by_cases hx : has sh.pts x = true
    · have hnot : x ∉ Coll.ids rest := fun hm => hdisj x (has_iff.mp hx) x hm rfl
      rw [count_fan_zero hnot]
      by_cases hup : sh.up = true
      · simp [heldUp, hup, hx, List.count_filter]
      · have hh : heldUp rest x = false := by
          cases hr : heldUp rest x
          · rfl
          · simp only [heldUp, List.any_eq_true, Bool.and_eq_true] at hr
            obtain ⟨s2, hs2, _, hp⟩ := hr
            exact absurd (List.mem_flatMap.mpr ⟨s2, hs2, has_iff.mp hp⟩) hnot
        simp only [heldUp] at hh
        simp [heldUp, hup, hh]
    · have hx' : has sh.pts x = false := by simpa using hx
      rw [ih hrest]
      have : (if sh.up then l.filter (has sh.pts) else []).count x = 0 := by
        apply List.count_eq_zero.mpr
        by_cases hup : sh.up = true
        · simp [hup, hx']
        · simp [hup]
      simp [this, heldUp, hx']


/-! ### the success lists never outnumber the request (precondition of curateFailedPoints' allocation) -/

theorem filter_disj_length {p q : Nat → Bool} (h : ∀ x, ¬(p x = true ∧ q x = true)) (l : List Nat) :
    (l.filter p).length + (l.filter q).length ≤ (l.filter fun x => p x || q x).length := by
  induction l with
  | nil => simp
  | cons a l ih =>
    have := h a
    cases hp : p a <;> cases hq : q a <;> simp [List.filter_cons, hp, hq] at this ⊢ <;> omega

theorem has_eq_contains (sh : Shard) : has sh.pts = fun i => sh.ids.contains i := by
  funext i
  rw [Bool.eq_iff_iff, has_iff, List.contains_iff_mem]
  rfl

theorem fan_length_le {col : Coll} (hu : Uniq col) (l : List Nat) :
    (col.flatMap fun sh => if sh.up then l.filter (has sh.pts) else []).length ≤
      (l.filter fun i => (Coll.ids col).contains i).length := by
  induction col with
  | nil => simp
  | cons sh rest ih =>
    have hu' : (Shard.ids sh ++ Coll.ids rest).Nodup := by simpa [Uniq, Coll.ids] using hu
    have hrest : Uniq rest := (List.nodup_append.mp hu').2.1
    have hdisj := (List.nodup_append.mp hu').2.2
    have hA : (if sh.up then l.filter (has sh.pts) else []).length ≤ (l.filter fun i => sh.ids.contains i).length := by
      split
      · rw [has_eq_contains]; exact Nat.le_refl _
      · simp
    have hB := ih hrest
    have hC := filter_disj_length (p := fun i => sh.ids.contains i) (q := fun i => (Coll.ids rest).contains i)
      (by intro x ⟨h1, h2⟩; exact hdisj x (by simpa using h1) x (by simpa using h2) rfl) l
    have hD : (fun i => (Coll.ids (sh :: rest)).contains i) = fun i => (sh.ids.contains i || (Coll.ids rest).contains i) := by
      funext i
      simp [Coll.ids]
    rw [hD]
    simp only [List.flatMap_cons, List.length_append]
    omega

/-! ### search: paging, concatenation, sort, cut -/

theorem page_sublist {α} (limit offset : Nat) (l : List α) : (page limit offset l).Sublist l := by
  unfold page
  split
  · exact List.drop_sublist _ _
  · exact (List.take_sublist _ _).trans (List.drop_sublist _ _)

theorem flatMap_sublist {α β} {f g : α → List β} (h : ∀ a, (f a).Sublist (g a)) : ∀ l : List α, (l.flatMap f).Sublist (l.flatMap g)
  | [] => List.Sublist.refl _
  | a :: l => by
    simp only [List.flatMap_cons]
    exact List.Sublist.append (h a) (flatMap_sublist h l)

theorem page_all {α} {limit : Nat} {l : List α} (h : limit = 0 ∨ l.length ≤ limit) : page limit 0 l = l := by
  unfold page
  rcases h with h | h
  · simp [h]
  · split
    · simp
    · simp [List.take_of_length_le h]

theorem plan_offset_zero (heur : Nat → Nat → Nat) (maxLimit limit n : Nat) : (plan heur maxLimit limit 0 n).2 = 0 := by
  simp [plan]

/-- what the merge sort has to deliver for the comparator `le` -/
def IsSortBy {α} (le : α → α → Bool) (sort : List α → List α) : Prop :=
  ∀ l, (sort l).Perm l ∧ (sort l).Pairwise (fun a b => le a b = true)

theorem mergeSort_isSortBy {α} (le : α → α → Bool) (htrans : ∀ a b c, le a b = true → le b c = true → le a c = true)
    (htotal : ∀ a b, (le a b || le b a) = true) : IsSortBy le (fun l => l.mergeSort le) :=
  fun l => ⟨List.mergeSort_perm _ _, List.pairwise_mergeSort htrans htotal l⟩

theorem sortBy_isSortBy {α} (le : α → α → Bool) (htrans : ∀ a b c, le a b = true → le b c = true → le a c = true)
    (htotal : ∀ a b, (le a b || le b a) = true) : IsSortBy le (sortBy le) :=
  fun l => ⟨sortBy_perm le l, sortBy_sorted le htrans htotal l⟩

theorem search_spec {α} (idOf : α → Nat) (le : α → α → Bool) (sort : List α → List α) (hsort : IsSortBy le sort)
    (heur : Nat → Nat → Nat) (maxLimit : Nat) (answers : List (Option (List α))) (limit offset : Nat) (r : List α)
    (hu : ((answers.flatMap fun a => a.getD []).map idOf).Nodup)
    (hown : ∀ a ∈ answers, (a.getD []).Pairwise (fun x y => le x y = true))
    (h : searchPoints sort heur maxLimit answers limit offset = some r) :
    (∀ a ∈ answers, a.isSome) ∧ r.length ≤ limit ∧ (r.map idOf).Nodup ∧ (∀ x ∈ r, ∃ a ∈ answers, x ∈ a.getD []) ∧
      r.Pairwise (fun x y => le x y = true) := by
  unfold searchPoints at h
  by_cases hany : (answers.any fun a => a.isNone) = true
  · simp [hany] at h
  · simp only [hany, if_false, Option.some.injEq, Bool.false_eq_true] at h
    have hall : ∀ a ∈ answers, a.isSome := by
      intro a ha
      cases hs : a with
      | some _ => rfl
      | none => exact absurd (List.any_eq_true.mpr ⟨a, ha, by simp [hs]⟩) hany
    generalize hp : plan heur maxLimit limit offset answers.length = p at h
    have hsub : (answers.flatMap fun a => page p.1 p.2 (a.getD [])).Sublist (answers.flatMap fun a => a.getD []) :=
      flatMap_sublist (fun a => page_sublist _ _ _) answers
    have hres_nodup := hu.sublist (hsub.map idOf)
    subst h
    refine ⟨hall, List.length_take_le _ _, ?_, ?_, ?_⟩
    · apply List.Nodup.sublist ((List.take_sublist _ _).map idOf)
      split
      · exact ((hsort _).1.map idOf).nodup_iff.mpr hres_nodup
      · exact hres_nodup
    · intro x hx
      have hx1 := (List.take_sublist _ _).subset hx
      have hx2 : x ∈ answers.flatMap fun a => page p.1 p.2 (a.getD []) := by
        split at hx1
        · exact (hsort _).1.mem_iff.mp hx1
        · exact hx1
      obtain ⟨a, ha, hxa⟩ := List.mem_flatMap.mp hx2
      exact ⟨a, ha, (page_sublist _ _ _).subset hxa⟩
    · apply List.Pairwise.sublist (List.take_sublist _ _)
      split
      · exact (hsort _).2
      · rename_i hn
        match answers, hown, hn with
        | [], _, _ => simp
        | [a], hown, _ =>
          simp only [List.flatMap_cons, List.flatMap_nil, List.append_nil]
          exact List.Pairwise.sublist (page_sublist _ _ _) (hown a (by simp))
        | _ :: _ :: _, _, hn => simp at hn

theorem search_all {α} (sort : List α → List α) (hperm : ∀ l, (sort l).Perm l)
    (heur : Nat → Nat → Nat) (maxLimit : Nat) (answers : List (Option (List α))) (limit : Nat)
    (hup : ∀ a ∈ answers, a.isSome)
    (hfit : ∀ a ∈ answers, (plan heur maxLimit limit 0 answers.length).1 = 0 ∨ (a.getD []).length ≤ (plan heur maxLimit limit 0 answers.length).1)
    (htotal : (answers.flatMap fun a => a.getD []).length ≤ limit) :
    ∃ r, searchPoints sort heur maxLimit answers limit 0 = some r ∧ r.Perm (answers.flatMap fun a => a.getD []) := by
  have hany : (answers.any fun a => a.isNone) = false := by
    cases h : answers.any fun a => a.isNone
    · rfl
    · obtain ⟨a, ha, hn⟩ := List.any_eq_true.mp h
      have := hup a ha
      cases a with
      | none => simp at this
      | some _ => simp at hn
  unfold searchPoints
  simp only [hany, if_false, Bool.false_eq_true]
  refine ⟨_, rfl, ?_⟩
  have hres : (answers.flatMap fun a => page (plan heur maxLimit limit 0 answers.length).1 (plan heur maxLimit limit 0 answers.length).2 (a.getD []))
      = answers.flatMap fun a => a.getD [] := by
    rw [plan_offset_zero]
    generalize (plan heur maxLimit limit 0 answers.length).1 = q at hfit
    clear hany htotal hup
    induction answers with
    | nil => rfl
    | cons a rest ih =>
      simp only [List.flatMap_cons]
      rw [page_all (hfit a (by simp)), ih (fun b hb => hfit b (by simp [hb]))]
  rw [hres]
  split
  · have hp := hperm (answers.flatMap fun a => a.getD [])
    rw [List.take_of_length_le (by rw [hp.length_eq]; exact htotal)]
    exact hp
  · rw [List.take_of_length_le htotal]


/-! ### the two comparators of the merge are total preorders -/

theorem leScore_trans (a b c : Hit) (h1 : leScore a b = true) (h2 : leScore b c = true) : leScore a c = true := by
  simp [leScore] at *; omega
theorem leScore_total (a b : Hit) : (leScore a b || leScore b a) = true := by
  simp [leScore]; omega

/-- the sort-key comparator is C06's `sortCmp`, a total preorder for every list of sort options and every
kind of value (`Sema.C06.tpc_sortCmp`, over `tpc_cmpAny`) -/
theorem leKeys_trans (o : List Sema.C06.SortOpt) (a b c : Hit) (h1 : leKeys o a b = true) (h2 : leKeys o b c = true) : leKeys o a c = true := by
  simp only [leKeys, decide_eq_true_eq] at *
  exact (Sema.C06.tpc_sortCmp o).trans _ _ _ h1 h2

theorem leKeys_total (o : List Sema.C06.SortOpt) (a b : Hit) : (leKeys o a b || leKeys o b a) = true := by
  simp only [leKeys, Bool.or_eq_true, decide_eq_true_eq]
  have := (Sema.C06.tpc_sortCmp o).antisymm a.data b.data
  omega

/-- with two or more shards the cluster sorts: the merged result is ordered whatever order the shards
answered in -/
theorem search_multi {α} (le : α → α → Bool) (sort : List α → List α) (hsort : IsSortBy le sort)
    (heur : Nat → Nat → Nat) (maxLimit : Nat) (answers : List (Option (List α))) (limit offset : Nat) (r : List α)
    (hn : 2 ≤ answers.length)
    (h : searchPoints sort heur maxLimit answers limit offset = some r) :
    r.Pairwise (fun x y => le x y = true) := by
  unfold searchPoints at h
  split at h
  · cases h
  · simp only [Option.some.injEq] at h
    subst h
    apply List.Pairwise.sublist (List.take_sublist _ _)
    rw [if_pos (by omega)]
    exact (hsort _).2

/-! ### internalRoute -/

/-- loop invariant: the loop test can only fail with an error recorded -/
def RouteInv (retries : Nat) (st : RouteSt) : Prop := st.i ≥ retries → st.retryErr ≠ none

/-- requests written to a live client -/
def RouteSt.written (st : RouteSt) : Nat := st.answeredOk + st.answeredErr + st.lost

/-- what one iteration can do -/
theorem routeIter_spec (ev : Ev) (st : RouteSt) :
    match routeIter ev st with
    | .cont st' => st'.answeredOk = st.answeredOk ∧
        ((st'.i = st.i ∧ st'.written = st.written) ∨ (st'.i = st.i + 1 ∧ st'.retryErr ≠ none ∧ st'.written ≤ st.written + 1))
    | .done err st' => st'.written = st.written + 1 ∧
        (err = none → st'.answeredOk = st.answeredOk + 1) ∧ (err ≠ none → st'.answeredOk = st.answeredOk) := by
  unfold routeIter RouteSt.written
  cases hc : st.cache <;> cases hd : ev.dial <;> cases hx : ev.dies <;> cases hcall : ev.call <;> simp <;> omega

theorem route_spec (retries : Nat) : ∀ (evs : List Ev) (st : RouteSt), RouteInv retries st →
    ((route retries evs st).res = .ret none → (route retries evs st).st.answeredOk = st.answeredOk + 1) ∧
    ((route retries evs st).res ≠ .ret none → (route retries evs st).st.answeredOk = st.answeredOk) ∧
    (route retries evs st).st.written + st.i ≤ st.written + max retries st.i
  | [], st, hinv => by
    unfold route
    by_cases h : st.i ≥ retries
    · simp only [h, if_true]
      refine ⟨fun e => ?_, fun _ => trivial, by omega⟩
      have := hinv h
      simp only [RouteRes.ret.injEq] at e
      exact absurd e this
    · simp only [h, if_false]
      exact ⟨fun e => (by cases e), fun _ => trivial, by omega⟩
  | ev :: rest, st, hinv => by
    unfold route
    by_cases h : st.i ≥ retries
    · simp only [h, if_true]
      refine ⟨fun e => ?_, fun _ => trivial, by omega⟩
      have := hinv h
      simp only [RouteRes.ret.injEq] at e
      exact absurd e this
    · simp only [h, if_false]
      have hs := routeIter_spec ev st
      cases hit : routeIter ev st with
      | cont st' =>
        simp only [hit] at hs ⊢
        obtain ⟨hok, hcase⟩ := hs
        have hinv' : RouteInv retries st' := by
          intro hge
          rcases hcase with ⟨hi, _⟩ | ⟨_, hne, _⟩
          · omega
          · exact hne
        have ih := route_spec retries rest st' hinv'
        rw [hok] at ih
        refine ⟨ih.1, ih.2.1, ?_⟩
        rcases hcase with ⟨hi, hw⟩ | ⟨hi, _, hw⟩ <;> omega
      | done err st' =>
        simp only [hit] at hs ⊢
        obtain ⟨hw, h1, h2⟩ := hs
        refine ⟨fun e => h1 (by simpa using e), fun e => h2 (fun e' => e (by rw [e'])), by omega⟩

end Sema.C17
