/-
C17 — multi-shard fan-out and merge (cluster/actions.go: UpdatePoints, DeletePoints,
curateFailedPoints, SearchPoints).

A collection is a list of shard specs (id ↦ payload, no duplicate ids: the C01 spec) with an
availability flag per shard (the server that owns it answers, or the RPC fails).  Point ids are
natural numbers ordered like the uuids they stand for (`bytes.Compare` on the 16 bytes).
Which shard receives an inserted point (distributePoints, C15) is an oracle argument: the theorems
hold for every placement with ids unique per collection.  What one shard answers to a search is an
oracle argument too (its full ranking; paging inside a shard is `drop offset / take limit`,
shard/shard.go) — ranking inside a shard is C03–C06.
Core-only (linked into the driver).
-/
namespace Sema.C17

/-! ### curateFailedPoints, line by line -/

inductive Msg | notFound | unavailable
  deriving DecidableEq, Repr

/-- the loop of `slices.BinarySearchFunc(x, target, cmp)`:
`for i < j { h := int(uint(i+j) >> 1); if cmp(x[h], target) < 0 { i = h + 1 } else { j = h } }` -/
def bsLoop (x : List Nat) (target : Nat) : Nat → Nat → Nat → Nat
  | 0, i, _ => i
  | fuel + 1, i, j =>
    if i < j then
      let h := (i + j) / 2
      if x.getD h 0 < target then bsLoop x target fuel (h + 1) j else bsLoop x target fuel i h
    else i

/-- `slices.BinarySearchFunc`: `return i, i < n && cmp(x[i], target) == 0` -/
def binarySearch (x : List Nat) (target : Nat) : Nat × Bool :=
  let n := x.length
  let i := bsLoop x target n 0 n
  (i, decide (i < n) && x.getD i 0 == target)

/-- the executable stand-in for `slices.SortFunc` (pdqsort): insertion sort.  The theorems are proved
for *every* function that returns a sorted permutation; this one is used by the driver and the examples. -/
def insertBy {α} (le : α → α → Bool) (x : α) : List α → List α
  | [] => [x]
  | y :: ys => if le x y then x :: y :: ys else y :: insertBy le x ys
def sortBy {α} (le : α → α → Bool) (l : List α) : List α := l.foldr (insertBy le) []

/-- `slices.SortFunc(successIds, bytes.Compare)` -/
def sortIds (l : List Nat) : List Nat := sortBy (fun a b => decide (a ≤ b)) l

/-- `curateFailedPoints(allIds, successIds, isCompleteResponse)` with the sort as a parameter -/
def curateWith (sort : List Nat → List Nat) (all succ : List Nat) (complete : Bool) : List (Nat × Msg) :=
  let sorted := sort succ
  let msg := if complete then Msg.notFound else Msg.unavailable
  all.filterMap fun id => if (binarySearch sorted id).2 then none else some (id, msg)

def curate := curateWith sortIds

/-! ### shards and the fan-out of update / delete -/

structure Shard where
  pts : List (Nat × Int)
  up : Bool
  deriving Repr, DecidableEq

abbrev Coll := List Shard

def Shard.ids (s : Shard) : List Nat := s.pts.map (·.1)
def has (pts : List (Nat × Int)) (i : Nat) : Bool := pts.any (fun o => o.1 = i)

/-- `Shard.UpdatePoints`: ids it does not hold are skipped; returns the ids it updated (one entry per
request entry) -/
def updSucc (pts : List (Nat × Int)) (req : List (Nat × Int)) : List Nat := (req.map (·.1)).filter (has pts)
def updPts (pts : List (Nat × Int)) (req : List (Nat × Int)) : List (Nat × Int) :=
  req.foldl (fun cur q => cur.map (fun o => if o.1 = q.1 then (o.1, q.2) else o)) pts

/-- the key set of the `deleteSet` map built by RPCDeletePoints (some enumeration of it) -/
def dedup : List Nat → List Nat
  | [] => []
  | x :: xs => if xs.contains x then dedup xs else x :: dedup xs

/-- `Shard.DeletePoints(deleteSet)`: the request is a set -/
def delSucc (pts : List (Nat × Int)) (ids : List Nat) : List Nat := (dedup ids).filter (has pts)
def delPts (pts : List (Nat × Int)) (ids : List Nat) : List (Nat × Int) := pts.filter (fun o => !ids.contains o.1)

structure FanOut where
  col : Coll
  /-- concatenation of the success lists of the shards that answered -/
  results : List Nat
  complete : Bool
  failed : List (Nat × Msg)

/-- `ClusterNode.UpdatePoints`: every shard is asked; unavailable ones contribute nothing -/
def updatePoints (col : Coll) (req : List (Nat × Int)) : FanOut :=
  let results := col.flatMap fun sh => if sh.up then updSucc sh.pts req else []
  let complete := col.all (·.up)     -- successCount == len(col.ShardIds)
  { col := col.map fun sh => if sh.up then { sh with pts := updPts sh.pts req } else sh,
    results := results, complete := complete,
    failed := curate (req.map (·.1)) results complete }

/-- `ClusterNode.DeletePoints` -/
def deletePoints (col : Coll) (ids : List Nat) : FanOut :=
  let results := col.flatMap fun sh => if sh.up then delSucc sh.pts ids else []
  let complete := col.all (·.up)
  { col := col.map fun sh => if sh.up then { sh with pts := delPts sh.pts ids } else sh,
    results := results, complete := complete,
    failed := curate ids results complete }

/-! ### SearchPoints -/

/-- per-shard limit and offset.  `heur limit n` stands for
`int(float32(limit)*(1/float32(n))*poissonApproxA + poissonApproxB)`; the theorems hold for every `heur`. -/
def plan (heur : Nat → Nat → Nat) (maxLimit limit offset n : Nat) : Nat × Nat :=
  let t := heur limit n
  let t := if t > maxLimit then maxLimit else t
  let t := if t > limit then limit else t
  let off := if n > 1 && offset % n == 0 then offset / n else offset
  (t, off)

/-- `Shard.SearchPoints` paging: `Limit == 0` means everything;
`finalResults[min(Offset, len) : min(Offset+Limit, len)]` -/
def page {α} (limit offset : Nat) (l : List α) : List α :=
  if limit = 0 then l.drop offset else (l.drop offset).take limit

/-- `ClusterNode.SearchPoints`.  `answers`: per shard its full ranking for the query, or `none` if the
shard is unavailable.  `sort` = `slices.SortFunc` with the hybrid-score or sort-key comparator. -/
def searchPoints {α} (sort : List α → List α) (heur : Nat → Nat → Nat) (maxLimit : Nat)
    (answers : List (Option (List α))) (limit offset : Nat) : Option (List α) :=
  if answers.any (·.isNone) then none else
  let n := answers.length
  let p := plan heur maxLimit limit offset n
  let results := answers.flatMap fun a => page p.1 p.2 (a.getD [])
  let merged := if n > 1 then sort results else results
  some (merged.take limit)

/-! ### the comparators of the merge (executable instances used by the driver) -/

/-- a value of a sort property after msgpack decoding: the harness uses int64 and string -/
inductive Val
  | int (i : Int)
  | str (s : String)
  deriving DecidableEq, Repr

/-- `utils.CompareAny`: different kinds compare by `reflect.Kind` (Int64 = 6 < String = 24) -/
def cmpVal : Val → Val → Int
  | .int a, .int b => if a < b then -1 else if a = b then 0 else 1
  | .str a, .str b => if a < b then -1 else if a = b then 0 else 1
  | .int _, .str _ => -1
  | .str _, .int _ => 1

/-- one sort option of `utils.SortSearchResults` applied to the values of two results
(`none` = property missing → last, whatever the direction) -/
def cmp1 (desc : Bool) : Option Val → Option Val → Int
  | some _, none => -1
  | none, some _ => 1
  | none, none => 0
  | some x, some y => if desc then cmpVal y x else cmpVal x y

/-- the comparison function of `utils.SortSearchResults`: the first sort option that does not
compare equal decides -/
def cmpKeys : List (Bool × Option Val × Option Val) → Int
  | [] => 0
  | (desc, a, b) :: rest =>
    let r := cmp1 desc a b
    if r ≠ 0 then r else cmpKeys rest

structure Hit where
  id : Nat
  /-- order-preserving integer image of the float32 hybrid score -/
  score : Int
  keys : List (Option Val)
  deriving Repr, DecidableEq

/-- `cmp.Compare(b.HybridScore, a.HybridScore) ≤ 0` -/
def leScore (a b : Hit) : Bool := decide (b.score ≤ a.score)

/-- the values of the sort properties, one per sort option (a result without the entry = property missing) -/
def zip3 : List Bool → List (Option Val) → List (Option Val) → List (Bool × Option Val × Option Val)
  | [], _, _ => []
  | d :: ds, as, bs => (d, as.head?.join, bs.head?.join) :: zip3 ds as.tail bs.tail

def leKeys (opts : List Bool) (a b : Hit) : Bool := decide (cmpKeys (zip3 opts a.keys b.keys) ≤ 0)

end Sema.C17
