/-
C17 — multi-shard fan-out and merge (cluster/actions.go: UpdatePoints, DeletePoints,
curateFailedPoints, SearchPoints).

A collection is a list of shard specs (id ↦ payload, no duplicate ids: the C01 spec) with an
availability flag per shard (the server that owns it answers, or the RPC fails).  Point ids are
natural numbers ordered like the uuids they stand for (`bytes.Compare` on the 16 bytes).
Which shard receives an inserted point (distributePoints, C15) is an oracle argument: the theorems
hold for every placement with ids unique per collection.  What one shard answers to a search is an
oracle argument too (its full ranking; paging inside a shard is `drop offset / take limit`,
shard/shard.go) — ranking inside a shard is C03–C06.
Core-only (linked into the driver).
-/
import SemaModel.C06.Model
import SemaModel.C17.ValEq
namespace Sema.C17

/-! ### curateFailedPoints, line by line -/

inductive Msg | notFound | unavailable
  deriving DecidableEq, Repr

/-- the loop of `slices.BinarySearchFunc(x, target, cmp)`:
`for i < j { h := int(uint(i+j) >> 1); if cmp(x[h], target) < 0 { i = h + 1 } else { j = h } }` -/
def bsLoop (x : List Nat) (target : Nat) : Nat → Nat → Nat → Nat
  | 0, i, _ => i
  | fuel + 1, i, j =>
    if i < j then
      let h := (i + j) / 2
      if x.getD h 0 < target then bsLoop x target fuel (h + 1) j else bsLoop x target fuel i h
    else i

/-- `slices.BinarySearchFunc`: `return i, i < n && cmp(x[i], target) == 0` -/
def binarySearch (x : List Nat) (target : Nat) : Nat × Bool :=
  let n := x.length
  let i := bsLoop x target n 0 n
  (i, decide (i < n) && x.getD i 0 == target)

/-- the executable stand-in for `slices.SortFunc` (pdqsort): insertion sort.  The theorems are proved
for *every* function that returns a sorted permutation; this one is used by the driver and the examples. -/
def insertBy {α} (le : α → α → Bool) (x : α) : List α → List α
  | [] => [x]
  | y :: ys => if le x y then x :: y :: ys else y :: insertBy le x ys
def sortBy {α} (le : α → α → Bool) (l : List α) : List α := l.foldr (insertBy le) []

/-- `slices.SortFunc(successIds, bytes.Compare)` -/
def sortIds (l : List Nat) : List Nat := sortBy (fun a b => decide (a ≤ b)) l

/-- `curateFailedPoints(allIds, successIds, isCompleteResponse)` with the sort as a parameter -/
def curateWith (sort : List Nat → List Nat) (all succ : List Nat) (complete : Bool) : List (Nat × Msg) :=
  let sorted := sort succ
  let msg := if complete then Msg.notFound else Msg.unavailable
  all.filterMap fun id => if (binarySearch sorted id).2 then none else some (id, msg)

def curate := curateWith sortIds

/-! ### shards and the fan-out of update / delete -/

structure Shard where
  pts : List (Nat × Int)
  up : Bool
  deriving Repr, DecidableEq

abbrev Coll := List Shard

def Shard.ids (s : Shard) : List Nat := s.pts.map (·.1)
def has (pts : List (Nat × Int)) (i : Nat) : Bool := pts.any (fun o => o.1 = i)

/-- `Shard.UpdatePoints`: ids it does not hold are skipped; returns the ids it updated (one entry per
request entry) -/
def updSucc (pts : List (Nat × Int)) (req : List (Nat × Int)) : List Nat := (req.map (·.1)).filter (has pts)
def updPts (pts : List (Nat × Int)) (req : List (Nat × Int)) : List (Nat × Int) :=
  req.foldl (fun cur q => cur.map (fun o => if o.1 = q.1 then (o.1, q.2) else o)) pts

/-- the key set of the `deleteSet` map built by RPCDeletePoints (some enumeration of it) -/
def dedup : List Nat → List Nat
  | [] => []
  | x :: xs => if xs.contains x then dedup xs else x :: dedup xs

/-- `Shard.DeletePoints(deleteSet)`: the request is a set -/
def delSucc (pts : List (Nat × Int)) (ids : List Nat) : List Nat := (dedup ids).filter (has pts)
def delPts (pts : List (Nat × Int)) (ids : List Nat) : List (Nat × Int) := pts.filter (fun o => !ids.contains o.1)

structure FanOut where
  col : Coll
  /-- concatenation of the success lists of the shards that answered -/
  results : List Nat
  complete : Bool
  failed : List (Nat × Msg)

/-- `ClusterNode.UpdatePoints`: every shard is asked; unavailable ones contribute nothing -/
def updatePoints (col : Coll) (req : List (Nat × Int)) : FanOut :=
  let results := col.flatMap fun sh => if sh.up then updSucc sh.pts req else []
  let complete := col.all (·.up)     -- successCount == len(col.ShardIds)
  { col := col.map fun sh => if sh.up then { sh with pts := updPts sh.pts req } else sh,
    results := results, complete := complete,
    failed := curate (req.map (·.1)) results complete }

/-- `ClusterNode.DeletePoints` -/
def deletePoints (col : Coll) (ids : List Nat) : FanOut :=
  let results := col.flatMap fun sh => if sh.up then delSucc sh.pts ids else []
  let complete := col.all (·.up)
  { col := col.map fun sh => if sh.up then { sh with pts := delPts sh.pts ids } else sh,
    results := results, complete := complete,
    failed := curate ids results complete }

/-! ### SearchPoints -/

/-- per-shard limit and offset.  `heur limit n` stands for
`int(float32(limit)*(1/float32(n))*poissonApproxA + poissonApproxB)`; the theorems hold for every `heur`. -/
def plan (heur : Nat → Nat → Nat) (maxLimit limit offset n : Nat) : Nat × Nat :=
  let t := heur limit n
  let t := if t > maxLimit then maxLimit else t
  let t := if t > limit then limit else t
  let off := if n > 1 && offset % n == 0 then offset / n else offset
  (t, off)

/-- `Shard.SearchPoints` paging: `Limit == 0` means everything;
`finalResults[min(Offset, len) : min(Offset+Limit, len)]` -/
def page {α} (limit offset : Nat) (l : List α) : List α :=
  if limit = 0 then l.drop offset else (l.drop offset).take limit

/-- `ClusterNode.SearchPoints`.  `answers`: per shard its full ranking for the query, or `none` if the
shard is unavailable.  `sort` = `slices.SortFunc` with the hybrid-score or sort-key comparator. -/
def searchPoints {α} (sort : List α → List α) (heur : Nat → Nat → Nat) (maxLimit : Nat)
    (answers : List (Option (List α))) (limit offset : Nat) : Option (List α) :=
  if answers.any (·.isNone) then none else
  let n := answers.length
  let p := plan heur maxLimit limit offset n
  let results := answers.flatMap fun a => page p.1 p.2 (a.getD [])
  let merged := if n > 1 then sort results else results
  some (merged.take limit)

/-! ### the comparators of the merge

`ClusterNode.SearchPoints` re-sorts the concatenated shard answers with
`cmp.Compare(b.HybridScore, a.HybridScore)` when no sort option is given and with
`utils.SortSearchResults(results, sr.Sort)` otherwise — the SAME function a shard sorts its own answer
with.  Its comparison closure is C06's `sortCmp` (`SemaModel/C06/Model.lean`: `AccessNestedProperty`,
missing last, direction, `CompareAny` = `cmpAny` over every kind msgpack decodes into: the integers by
encoded width and signedness, float32 / float64 incl. NaN, −0, ±Inf, strings, nil, bool, slices, maps),
imported here, not copied: what C06 proves about it holds for the cluster's merge verbatim. -/

/-- one search result as the cluster node sees it -/
structure Hit where
  id : Nat
  /-- order-preserving integer image of the float32 hybrid score -/
  score : Int
  /-- `DecodedData`: the selected properties as msgpack decoded them (a result without a sort property
  simply lacks the key) -/
  data : Sema.C06.Doc
  deriving Repr, DecidableEq

/-- `cmp.Compare(b.HybridScore, a.HybridScore) ≤ 0` -/
def leScore (a b : Hit) : Bool := decide (b.score ≤ a.score)

/-- the comparison closure of `utils.SortSearchResults(results, sr.Sort)` on two results, `≤ 0` -/
def leKeys (opts : List Sema.C06.SortOpt) (a b : Hit) : Bool := decide (Sema.C06.sortCmp opts a.data b.data ≤ 0)

/-! ### internalRoute: the retry loop around one remote call (cluster/rpc.go)

`for i := 0; i < c.cfg.RpcRetries; i++ { (sleep if i > 0); retryErr = nil; client, err := c.rpcClient(dest);
 if err != nil { retryErr = …; continue }; call := client.Go(…); select { case <-call.Done: if call.Error != nil
 { if call.Error == rpc.ErrShutdown { delete(c.rpcClients, dest); i--; continue }; return err }; return nil;
 case <-timeout.C: retryErr = ErrTimeout } }; return retryErr`

The environment (the peer, the network, time) is an explicit list of events, one per iteration of the
loop; the theorems quantify over every such list, every number of retries and every initial state of
the client cache.  Time is not modelled (back-off sleeps only delay). -/

/-- `c.rpcClients[destination]`: nothing cached, a live client, or a client that has shut down
(net/rpc: its connection is gone, `Go` answers `ErrShutdown` at once) and is still in the map -/
inductive Cache | none | live | dead
  deriving DecidableEq, Repr

/-- fate of a request written to a live client -/
inductive CallEv
  /-- delivered to the server, the handler returned nil, the answer arrived -/
  | ok
  /-- delivered, the handler returned an error, the answer arrived -/
  | remoteErr
  /-- no answer within rpcTimeout (the server hangs, or never got the request) -/
  | timeout
  /-- the connection died before the answer (`io.ErrUnexpectedEOF`, a write error) -/
  | broken
  deriving DecidableEq, Repr

/-- what the environment does during one iteration -/
structure Ev where
  /-- the client about to be used has lost its connection: it is shut down when `Go` is called -/
  dies : Bool
  /-- a fresh dial (TCP connect + CONNECT handshake) succeeds; consulted only when nothing is cached -/
  dial : Bool
  /-- consulted only when the request is written to a live client -/
  call : CallEv
  deriving DecidableEq, Repr

/-- "failed to get client" / "failed to call" / ErrTimeout -/
inductive RouteErr | dial | call | timeout
  deriving DecidableEq, Repr

inductive RouteRes
  /-- the function returned (`none` = nil = success) -/
  | ret (err : Option RouteErr)
  /-- the event list ended before the loop did -/
  | running
  deriving DecidableEq, Repr

structure RouteSt where
  /-- the loop variable at the loop test (`i--; continue` is followed by the post statement `i++`) -/
  i : Nat := 0
  retryErr : Option RouteErr := none
  cache : Cache := .none
  /-- successful dials -/
  dials : Nat := 0
  /-- requests delivered and answered: handler returned nil / an error -/
  answeredOk : Nat := 0
  answeredErr : Nat := 0
  /-- requests written whose answer never came (time-out, broken connection) -/
  lost : Nat := 0
  deriving DecidableEq, Repr

structure RouteOut where
  res : RouteRes
  st : RouteSt
  deriving DecidableEq, Repr

/-- one iteration of the loop: go round again with a new state, or return -/
inductive RouteStep
  | cont (st : RouteSt)
  | done (err : Option RouteErr) (st : RouteSt)
  deriving DecidableEq, Repr

/-- the loop body (entered with `i < retries`) -/
def routeIter (ev : Ev) (st : RouteSt) : RouteStep :=
  -- retryErr = nil; client, err := c.rpcClient(destination)
  match (match st.cache with
    | .none => if ev.dial then some (Cache.live, st.dials + 1) else none
    | c => some (c, st.dials)) with
  | none =>
    -- retryErr = "failed to get client"; continue
    .cont { st with i := st.i + 1, retryErr := some .dial }
  | some (cl, dials) =>
    if ev.dies || cl == .dead then
      -- rpcCall.Error == rpc.ErrShutdown: delete(c.rpcClients, destination); i--; continue
      .cont { st with retryErr := none, cache := .none, dials := dials }
    else match ev.call with
      | .ok => .done none { st with retryErr := none, cache := .live, dials := dials, answeredOk := st.answeredOk + 1 }
      | .remoteErr =>
        -- the msgpack codec cannot skip the body of an error response (`Decode(nil)` fails), so the
        -- client's reader stops: the client is shut down after a remote error
        .done (some .call) { st with retryErr := none, cache := .dead, dials := dials, answeredErr := st.answeredErr + 1 }
      | .broken => .done (some .call) { st with retryErr := none, cache := .dead, dials := dials, lost := st.lost + 1 }
      | .timeout =>
        -- retryErr = ErrTimeout (the client stays cached)
        .cont { st with i := st.i + 1, retryErr := some .timeout, cache := .live, dials := dials, lost := st.lost + 1 }

/-- `ClusterNode.internalRoute` -/
def route (retries : Nat) : List Ev → RouteSt → RouteOut
  | [], st => if st.i ≥ retries then ⟨.ret st.retryErr, st⟩ else ⟨.running, st⟩
  | ev :: rest, st =>
    if st.i ≥ retries then ⟨.ret st.retryErr, st⟩ else
    match routeIter ev st with
    | .cont st' => route retries rest st'
    | .done err st' => ⟨.ret err, st'⟩

/-- a call that starts with the given cache state -/
def routeFrom (retries : Nat) (cache : Cache) (evs : List Ev) : RouteOut := route retries evs { cache := cache }

/-- the fan-out sees a shard as having answered iff the routed call returned nil -/
def routedUp (retries : Nat) (cache : Cache) (evs : List Ev) : Bool := (routeFrom retries cache evs).res == .ret none

end Sema.C17
