/-
C17 — the tie between the comparator of the model's merge (`leKeys`, i.e. C06's `sortCmp`) and the source.

`ClusterNode.SearchPoints` orders the concatenated shard answers with `utils.SortSearchResults(results, sr.Sort)`
(pinned: `Generated/FactsC17.mergeSkeleton`, see Props.lean).  `SemaModel/Generated/Compare.lean` is that function,
translated from `utils/compare.go` by `tools/go2lean` on every check run (`AccessNestedProperty`,
`SortSearchResults` with its comparison closure; `CompareAny` uses `reflect` and stays a parameter, compared with
C06's `cmpAny` on the `cmp` lines of the C06 stream and, through the merged orders, on the search lines of this
one; `slices.SortFunc` stays a parameter).  C06 proves the closure equal to `sortCmp` (`C06_tie_sortCmp`); here
that is read at the cluster level: on the results the cluster node holds, the closure the real merge sorts with IS
`leKeys`, and whatever sorted permutation `slices.SortFunc` returns is ordered by `sortCmp`.

A separate module: a change of `utils/compare.go` the translator cannot follow breaks this tie (and C06's), not
the curate tie of `Tie.lean`.
-/
import SemaModel.C17.Props
import SemaModel.C06.Tie
namespace Sema.C17
open Sema Sema.C06

/-- a result as `models.SearchResult{DecodedData}` -/
def Hit.toResult (h : Hit) : Gen.Compare.SearchResult Val := Sema.C06.toResult h.data

/-- **the comparison closure of the translated `utils.SortSearchResults` is the comparator of the model's merge**,
for every `CompareAny` that agrees with `cmpAny` on represented values, every list of sort options, every two
results -/
theorem C17_tie_merge_cmp (cmp : Go.Any Val → Go.Any Val → Int) (hcmp : ∀ x y, cmp (ofVal x) (ofVal y) = cmpAny x y)
    (opts : List Gen.Compare.SortOption) (a b : Hit) :
    leKeys (opts.map toOpt) a b =
      decide ((Gen.Compare.SortSearchResults_loop1 cmp a.toResult b.toResult opts).finish (fun _ => 0) ≤ 0) := by
  simp only [leKeys, Hit.toResult, C06_tie_sortCmp cmp hcmp]

/-- **the translated merge call returns the results in `sortCmp` order**: `utils.SortSearchResults(results, opts)` on
the concatenated answers, with ANY `slices.SortFunc` that returns a permutation of its input ordered under the
closure it is given: the decoded data of the output, in output order, is ordered by C06's `sortCmp` -/
theorem C17_tie_merge_sorted (sortFunc : {α : Type} → List α → (α → α → Int) → List α)
    (cmp : Go.Any Val → Go.Any Val → Int) (hcmp : ∀ x y, cmp (ofVal x) (ofVal y) = cmpAny x y)
    (opts : List Gen.Compare.SortOption) (hits : List Hit)
    (hperm : ∀ c, (sortFunc (hits.map Hit.toResult) c).Perm (hits.map Hit.toResult))
    (hsorted : ∀ c, (sortFunc (hits.map Hit.toResult) c).Pairwise (fun a b => c a b ≤ 0)) :
    (Gen.Compare.SortSearchResults sortFunc cmp (hits.map Hit.toResult) opts).Pairwise
      (fun a b => sortCmp (opts.map toOpt) (toDoc a.DecodedData) (toDoc b.DecodedData) ≤ 0) := by
  rw [C06_tie_sort]
  refine List.Pairwise.imp_of_mem ?_ (hsorted _)
  intro a b ha hb hab
  obtain ⟨x, _, rfl⟩ := List.mem_map.mp ((hperm _).mem_iff.mp ha)
  obtain ⟨y, _, rfl⟩ := List.mem_map.mp ((hperm _).mem_iff.mp hb)
  simp only [Hit.toResult] at hab ⊢
  rw [C06_tie_sortCmp cmp hcmp] at hab
  simpa [toResult, Tie.toDoc_ofDoc] using hab

/-! non-vacuity.  Insertion sort is such a `sortFunc` — for every list of results and every list of sort options:
on represented results the closure is `sortCmp`, a total preorder, and insertion sort only ever compares elements
of its input. -/

theorem insertBy_congr {α} {le le' : α → α → Bool} (x : α) : ∀ (l : List α), (∀ y ∈ l, le x y = le' x y) → insertBy le x l = insertBy le' x l
  | [], _ => rfl
  | y :: ys, h => by
    simp only [insertBy, h y (by simp)]
    rw [insertBy_congr x ys (fun z hz => h z (by simp [hz]))]

theorem sortBy_congr {α} {le le' : α → α → Bool} : ∀ (l : List α), (∀ x ∈ l, ∀ y ∈ l, le x y = le' x y) → sortBy le l = sortBy le' l
  | [], _ => rfl
  | x :: xs, h => by
    have ih := sortBy_congr xs (fun a ha b hb => h a (by simp [ha]) b (by simp [hb]))
    simp only [sortBy, List.foldr_cons] at ih ⊢
    rw [ih]
    apply insertBy_congr
    intro y hy
    have : y ∈ xs := (sortBy_perm le' xs).mem_iff.mp hy
    exact h x (by simp) y (by simp [this])

/-- the insertion sort the driver uses, as a `slices.SortFunc` -/
def isortFunc : {α : Type} → List α → (α → α → Int) → List α := fun l c => sortBy (fun a b => decide (c a b ≤ 0)) l

/-- the hypotheses of `C17_tie_merge_sorted` hold for insertion sort, for all results and sort options: the
statement without them -/
theorem C17_tie_merge_isort (cmp : Go.Any Val → Go.Any Val → Int) (hcmp : ∀ x y, cmp (ofVal x) (ofVal y) = cmpAny x y)
    (opts : List Gen.Compare.SortOption) (hits : List Hit) :
    (Gen.Compare.SortSearchResults isortFunc cmp (hits.map Hit.toResult) opts).Perm (hits.map Hit.toResult) ∧
    (Gen.Compare.SortSearchResults isortFunc cmp (hits.map Hit.toResult) opts).Pairwise
      (fun a b => sortCmp (opts.map toOpt) (toDoc a.DecodedData) (toDoc b.DecodedData) ≤ 0) := by
  rw [C06_tie_sort]
  -- on the represented results the closure agrees with the pulled-back `sortCmp`, a total preorder everywhere
  let le' : Gen.Compare.SearchResult Val → Gen.Compare.SearchResult Val → Bool :=
    fun a b => decide (sortCmp (opts.map toOpt) (toDoc a.DecodedData) (toDoc b.DecodedData) ≤ 0)
  have hagree : ∀ x ∈ hits.map Hit.toResult, ∀ y ∈ hits.map Hit.toResult,
      decide ((Gen.Compare.SortSearchResults_loop1 cmp x y opts).finish (fun _ => 0) ≤ 0) = le' x y := by
    intro x hx y hy
    obtain ⟨a, _, rfl⟩ := List.mem_map.mp hx
    obtain ⟨b, _, rfl⟩ := List.mem_map.mp hy
    simp only [Hit.toResult, le']
    simp only [C06_tie_sortCmp cmp hcmp]
    simp [toResult, Tie.toDoc_ofDoc]
  have heq : isortFunc (hits.map Hit.toResult) (fun a b => (Gen.Compare.SortSearchResults_loop1 cmp a b opts).finish (fun _ => 0)) =
      sortBy le' (hits.map Hit.toResult) := sortBy_congr _ hagree
  rw [heq]
  have tpc := tpc_sortCmp (opts.map toOpt)
  refine ⟨sortBy_perm _ _, ?_⟩
  have hs := sortBy_sorted le'
    (fun a b c h1 h2 => by
      simp only [le', decide_eq_true_eq] at *
      exact tpc.trans _ _ _ h1 h2)
    (fun a b => by
      simp only [le', Bool.or_eq_true, decide_eq_true_eq]
      have := tpc.antisymm (toDoc a.DecodedData) (toDoc b.DecodedData)
      omega)
    (hits.map Hit.toResult)
  exact hs.imp (fun h => by simpa [le'] using h)

/-- and `cmpAny` read through the representation is such a `CompareAny` (`Tie.toVal_ofVal`); the comparator on the
demonstration's two results: 200 stored as uint8 on one shard, −1.5 as float64 on the other — −1.5 first -/
example : ∃ cmp : Go.Any Val → Go.Any Val → Int, ∀ x y, cmp (ofVal x) (ofVal y) = cmpAny x y :=
  ⟨fun u v => cmpAny (toVal u) (toVal v), fun x y => by simp [Tie.toVal_ofVal]⟩
set_option maxRecDepth 8192 in
example :
    leKeys [⟨["temp"], false⟩] ⟨2, 0, [("temp", .f64 0xbff8000000000000#64)]⟩ ⟨1, 0, [("temp", .uint 8 200)]⟩ = true ∧
    leKeys [⟨["temp"], false⟩] ⟨1, 0, [("temp", .uint 8 200)]⟩ ⟨2, 0, [("temp", .f64 0xbff8000000000000#64)]⟩ = false := by
  refine ⟨by decide, by decide⟩

end Sema.C17
