/-
C17 — the tie between the hand-written `binarySearch` / `curateWith` of `C17/Model.lean` and the
source.  `SemaModel/Generated/Curate.lean` is produced from `cluster/actions.go curateFailedPoints`
by `tools/go2lean` on every check run; `slices.SortFunc` stays a parameter (`sortFunc`: pdqsort is
not translated and not stable), `slices.BinarySearchFunc` is the primitive `Go.binarySearchFunc`
of `Base/GoRt.lean` (a transcription of the library's loop), the comparison closures
`bytes.Compare(a[:], b[:])` are translated.

Representation maps: the model's point ids are natural numbers "ordered like the uuids they stand
for"; here that is made exact: a uuid (16 bytes) is read as the big-endian number `natBE`, under
which `bytes.Compare` is the order of ℕ (`lexLt_iff_natBE`).  `Msg.notFound` / `Msg.unavailable`
are the strings "not found" / "shard unavailable" (the latter read from `cluster/errors.go`).
The model's `sort` parameter is instantiated with "whatever `sortFunc` returned on the success ids".
-/
import SemaModel.C17.Model
import SemaModel.C17.Lemmas
import SemaModel.Base.BytesLemmas
import SemaModel.Generated.Curate
namespace Sema.C17
open Sema

/-- the comparison closure of `curateFailedPoints` -/
abbrev cmpB : Bytes → Bytes → Int := fun a b => Go.bytesCompare a b

def msgText : Msg → String
  | .notFound => "not found"
  | .unavailable => "shard unavailable"

namespace Tie

theorem cmp_lt (a b : Bytes) (h : a.length = b.length) : Go.bytesCompare a b < 0 ↔ natBE a < natBE b := by
  have h1 := lexLt_iff_natBE a b h
  have h2 := lexLt_iff_natBE b a h.symm
  unfold Go.bytesCompare
  by_cases c1 : lexLt a b = true
  · simp [c1, h1.mp c1]
  · have n1 : ¬ natBE a < natBE b := fun hh => c1 (h1.mpr hh)
    by_cases c2 : lexLt b a = true <;> simp [c1, c2, n1]

theorem cmp_eq (a b : Bytes) (h : a.length = b.length) : (Go.bytesCompare a b == 0) = (natBE a == natBE b) := by
  have h1 := lexLt_iff_natBE a b h
  have h2 := lexLt_iff_natBE b a h.symm
  unfold Go.bytesCompare
  by_cases c1 : lexLt a b = true
  · have := h1.mp c1
    have hne : natBE a ≠ natBE b := by omega
    simp [c1, hne]
  · have n1 : ¬ natBE a < natBE b := fun hh => c1 (h1.mpr hh)
    by_cases c2 : lexLt b a = true
    · have := h2.mp c2
      have hne : natBE a ≠ natBE b := by omega
      simp [c1, c2, hne]
    · have n2 : ¬ natBE b < natBE a := fun hh => c2 (h2.mpr hh)
      have he : natBE a = natBE b := by omega
      simp [c1, c2, he]

theorem getI_nat {α : Type} [Inhabited α] (xs : List α) (k : Nat) (h : k < xs.length) :
    Go.getI xs (k : Int) = xs[k] := by
  have h0 : ¬ ((k : Int) < 0) := by omega
  simp [Go.getI, List.getD_eq_getElem?_getD, h, h0]

/-- the library's loop on uuids is the model's loop on their numbers -/
theorem bsLoop_eq (xs : List Bytes) (t : Bytes) (hxs : ∀ id ∈ xs, id.length = 16) (ht : t.length = 16) :
    ∀ (fuel i j : Nat), j ≤ xs.length →
      Go.bsLoop xs t cmpB fuel (i : Int) (j : Int) = ((bsLoop (xs.map natBE) (natBE t) fuel i j : Nat) : Int) := by
  intro fuel
  induction fuel with
  | zero => intro i j _; simp [Go.bsLoop, bsLoop]
  | succ fuel ih =>
    intro i j hj
    rw [Go.bsLoop, bsLoop]
    by_cases hij : i < j
    · have hij' : (i : Int) < (j : Int) := by omega
      have hh : ((i : Int) + (j : Int)) / 2 = (((i + j) / 2 : Nat) : Int) := by omega
      have hlt : (i + j) / 2 < xs.length := by omega
      have hlen : (xs[(i + j) / 2]).length = t.length := by rw [hxs _ (List.getElem_mem hlt), ht]
      have hget : (xs.map natBE).getD ((i + j) / 2) 0 = natBE xs[(i + j) / 2] := by
        simp [List.getD_eq_getElem?_getD, hlt]
      simp only [hij, hij', if_true, hh, getI_nat xs _ hlt, hget, cmpB, cmp_lt _ _ hlen]
      by_cases hc : natBE xs[(i + j) / 2] < natBE t
      · simp only [hc, if_true]
        have := ih ((i + j) / 2 + 1) j hj
        simpa using this
      · simp only [hc, if_false]
        exact ih i ((i + j) / 2) (by omega)
    · have hij' : ¬ (i : Int) < (j : Int) := by omega
      simp [hij, hij']

/-- `slices.BinarySearchFunc` with `bytes.Compare` on uuids is the model's `binarySearch` on their numbers -/
theorem binarySearch_eq (xs : List Bytes) (t : Bytes) (hxs : ∀ id ∈ xs, id.length = 16) (ht : t.length = 16) :
    Go.binarySearchFunc xs t cmpB =
      (((binarySearch (xs.map natBE) (natBE t)).1 : Int), (binarySearch (xs.map natBE) (natBE t)).2) := by
  have hl : Go.bsLoop xs t cmpB xs.length 0 (Go.len xs) =
      ((bsLoop (xs.map natBE) (natBE t) xs.length 0 xs.length : Nat) : Int) := by
    simpa [Go.len] using bsLoop_eq xs t hxs ht xs.length 0 xs.length (Nat.le_refl _)
  simp only [Go.binarySearchFunc, binarySearch, hl, List.length_map]
  generalize bsLoop (xs.map natBE) (natBE t) xs.length 0 xs.length = i
  have hlen' : Go.len xs = (xs.length : Int) := rfl
  by_cases hi : i < xs.length
  · have hi' : ((i : Int) < Go.len xs) := by rw [hlen']; omega
    have hlen : (xs[i]).length = t.length := by rw [hxs _ (List.getElem_mem hi), ht]
    have hget : (xs.map natBE).getD i 0 = natBE xs[i] := by simp [List.getD_eq_getElem?_getD, hi]
    simp only [hi, hi', decide_true, Bool.true_and, getI_nat xs i hi, hget, cmpB, cmp_eq _ _ hlen]
  · have hi' : ¬ ((i : Int) < Go.len xs) := by rw [hlen']; omega
    simp [hi, hi']

/-- an appending `for … range` loop is a filter -/
theorem forRangeAux_filter {α β : Type} (p : α → Bool) (f : α → β) (xs : List α) :
    ∀ (k : Nat) (acc : List β),
      Go.forRangeAux xs k acc (fun _ x acc => if p x then acc ++ [f x] else acc) = acc ++ (xs.filter p).map f := by
  induction xs with
  | nil => intro k acc; simp [Go.forRangeAux]
  | cons x xs ih =>
    intro k acc
    rw [Go.forRangeAux, ih]
    by_cases hp : p x = true <;> simp [hp]

end Tie

/-- **The hand-written model of `curateFailedPoints` is the translated Go function**: for every
sort function, every request `all` and success list `succ` of uuids (16 bytes each; the sort returns
uuids), the failed points the definition generated from `cluster/actions.go` returns are, read through `natBE`, what
`curateWith` returns on the numbers of the ids, with the same message. -/
theorem C17_tie (sortFunc : {α : Type} → List α → (α → α → Int) → List α) (all succ : List Bytes) (complete : Bool)
    (hall : ∀ id ∈ all, id.length = 16) (hsorted : ∀ id ∈ sortFunc succ cmpB, id.length = 16) :
    (Gen.Curate.curateFailedPoints sortFunc all succ complete).1.map (fun fp => (natBE fp.Id, fp.Err)) =
      (curateWith (fun _ => (sortFunc succ cmpB).map natBE) (all.map natBE) (succ.map natBE) complete).map
        (fun e => (e.1, msgText e.2)) := by
  unfold Gen.Curate.curateFailedPoints curateWith
  simp only [Go.forRange]
  generalize hs : sortFunc succ (fun a b => Go.bytesCompare a b) = sorted at *
  have hs' : sortFunc succ cmpB = sorted := hs
  have hmsg : (if complete = true then "not found" else "shard unavailable") =
      msgText (if complete = true then Msg.notFound else Msg.unavailable) := by
    cases complete <;> rfl
  have hloop := Tie.forRangeAux_filter (fun id => !(Go.binarySearchFunc sorted id cmpB).2)
    (fun id => ({ Id := id, Err := if complete = true then "not found" else "shard unavailable" } : Gen.Curate.FailedPoint)) all 0 []
  try simp only [cmpB] at hloop
  rw [hloop, hmsg]
  clear hloop
  induction all with
  | nil => simp
  | cons id rest ih =>
    have hid : id.length = 16 := hall id (List.mem_cons_self ..)
    have hrest : ∀ x ∈ rest, x.length = 16 := fun x hx => hall x (List.mem_cons_of_mem _ hx)
    have hb := Tie.binarySearch_eq sorted id hsorted hid
    have ih' := ih hrest
    simp only [List.nil_append] at ih' ⊢
    try simp only [cmpB] at hb
    simp only [List.filter_cons, List.map_cons, List.filterMap_cons, hb]
    by_cases hf : (binarySearch (sorted.map natBE) (natBE id)).2 = true
    · simp only [hf, Bool.not_true, Bool.false_eq_true, if_false, if_true]
      exact ih'
    · have hf' : (binarySearch (sorted.map natBE) (natBE id)).2 = false := by simpa using hf
      simp only [hf', Bool.not_false, if_true, Bool.false_eq_true, if_false, List.map_cons, ih']

/-- on 16-byte ids, "sorted under `bytes.Compare`" is "sorted by `natBE`" -/
theorem Tie.sorted_natBE (l : List Bytes) (hlen : ∀ id ∈ l, id.length = 16)
    (hsorted : l.Pairwise (fun a b => cmpB a b ≤ 0)) : (l.map natBE).Pairwise (· ≤ ·) := by
  rw [List.pairwise_map]
  refine List.Pairwise.imp_of_mem ?_ hsorted
  intro a b ha hb hab
  have hl : b.length = a.length := by rw [hlen a ha, hlen b hb]
  have hnot : ¬ natBE b < natBE a := by
    intro h
    have h1 : lexLt b a = true := (lexLt_iff_natBE b a hl).mpr h
    have h2 : ¬ (lexLt a b = true) := fun c => by
      have := (lexLt_iff_natBE a b hl.symm).mp c; omega
    unfold cmpB Go.bytesCompare at hab
    simp [h1, h2] at hab
  omega

/-- **`C17_tie` composes with `C17_curate`** (audit: "constant sorter ∉ IsSort").  The sorter `C17_tie`
instantiates the model with — "whatever `slices.SortFunc` returned on these ids" — is not an `IsSort` (it is a
constant function), but the specification needs a sorted permutation ON THIS SUCCESS LIST only
(`curateWith_eq_at`), and that it is whenever `sortFunc` sorts these ids.  Hence, read through `natBE`, the
definition generated from `cluster/actions.go` computes the list difference with the right message. -/
theorem C17_tie_curate (sortFunc : {α : Type} → List α → (α → α → Int) → List α) (all succ : List Bytes) (complete : Bool)
    (hall : ∀ id ∈ all, id.length = 16) (hsucc : ∀ id ∈ succ, id.length = 16)
    (hperm : (sortFunc succ cmpB).Perm succ) (hsorted : (sortFunc succ cmpB).Pairwise (fun a b => cmpB a b ≤ 0)) :
    (Gen.Curate.curateFailedPoints sortFunc all succ complete).1.map (fun fp => (natBE fp.Id, fp.Err)) =
      ((all.map natBE).filter fun i => !(succ.map natBE).contains i).map
        fun i => (i, msgText (if complete then Msg.notFound else Msg.unavailable)) := by
  have hlen : ∀ id ∈ sortFunc succ cmpB, id.length = 16 := fun id h => hsucc id (hperm.mem_iff.mp h)
  rw [C17_tie sortFunc all succ complete hall hlen,
    curateWith_eq_at (sort := fun _ => (sortFunc succ cmpB).map natBE) (all.map natBE) (succ.map natBE) complete
      (hperm.map natBE) (Tie.sorted_natBE _ hlen hsorted), List.map_map]
  rfl

/-- **Go source → generated definition → specification, in one theorem, on the uuids themselves.**  For the
definition generated from `cluster/actions.go curateFailedPoints`, for EVERY `slices.SortFunc` that returns, on
these success ids under `bytes.Compare`, a sorted permutation of them (pdqsort does; nothing else is assumed
about it, in particular not stability), for all requests `all` and success lists `succ` of uuids: the failed
points are exactly the list difference `all \ succ` — order and multiplicity of `all` kept — each with
"not found" iff the response was complete. -/
theorem C17_curate_generated (sortFunc : {α : Type} → List α → (α → α → Int) → List α) (all succ : List Bytes)
    (complete : Bool) (hall : ∀ id ∈ all, id.length = 16) (hsucc : ∀ id ∈ succ, id.length = 16)
    (hperm : (sortFunc succ cmpB).Perm succ) (hsorted : (sortFunc succ cmpB).Pairwise (fun a b => cmpB a b ≤ 0)) :
    (Gen.Curate.curateFailedPoints sortFunc all succ complete).1 =
      (all.filter fun id => !succ.contains id).map fun id =>
        ({ Id := id, Err := if complete then "not found" else "shard unavailable" } : Gen.Curate.FailedPoint) := by
  have hlen : ∀ id ∈ sortFunc succ cmpB, id.length = 16 := fun id h => hsucc id (hperm.mem_iff.mp h)
  have hsn := Tie.sorted_natBE _ hlen hsorted
  unfold Gen.Curate.curateFailedPoints
  simp only [Go.forRange]
  have hs' : sortFunc succ (fun a b => Go.bytesCompare a b) = sortFunc succ cmpB := rfl
  have hloop := Tie.forRangeAux_filter (fun id => !(Go.binarySearchFunc (sortFunc succ cmpB) id cmpB).2)
    (fun id => ({ Id := id, Err := if complete = true then "not found" else "shard unavailable" } : Gen.Curate.FailedPoint)) all 0 []
  rw [hloop, List.nil_append]
  congr 1
  apply List.filter_congr
  intro id hid
  -- the library's binary search on the sorted uuids finds `id` iff it is a success id
  have hb := Tie.binarySearch_eq (sortFunc succ cmpB) id hlen (hall id hid)
  rw [hb]
  show (!(binarySearch ((sortFunc succ cmpB).map natBE) (natBE id)).2) = !succ.contains id
  congr 1
  have hfound := binarySearch_found hsn (natBE id)
  have hmem : natBE id ∈ (sortFunc succ cmpB).map natBE ↔ id ∈ succ := by
    constructor
    · intro h
      obtain ⟨b, hb', hab⟩ := List.mem_map.mp h
      have : b = id := (natBE_eq_iff b id (by rw [hlen b hb', hall id hid])).mp hab
      exact this ▸ (hperm.mem_iff.mp hb')
    · intro h; exact List.mem_map.mpr ⟨id, hperm.mem_iff.mpr h, rfl⟩
  cases hc : succ.contains id <;> cases hb2 : (binarySearch ((sortFunc succ cmpB).map natBE) (natBE id)).2 <;> simp_all

/-- the second component: `slices.SortFunc` sorts the caller's `successIds` in place, so the
translated function returns that slice too — it is whatever the sort made of it -/
theorem C17_tie_sorted (sortFunc : {α : Type} → List α → (α → α → Int) → List α) (all succ : List Bytes) (complete : Bool) :
    (Gen.Curate.curateFailedPoints sortFunc all succ complete).2 = sortFunc succ cmpB := rfl

/-- non-vacuity: three 16-byte ids, the middle one succeeded; insertion sort as `sortFunc` -/
example :
    let id (b : Nat) : Bytes := List.replicate 15 0 ++ [BitVec.ofNat 8 b]
    (Gen.Curate.curateFailedPoints (fun l cmp => l.foldr (insertBy (fun a b => decide (cmp a b ≤ 0))) []) [id 3, id 1, id 2] [id 2, id 1] true).1.map
      (fun fp => (natBE fp.Id, fp.Err)) = [(3, "not found")] := by decide

/-- non-vacuity of `C17_curate_generated`: insertion sort under `bytes.Compare` is a sorted permutation of
these success ids (duplicates included), and the generated function returns the list difference -/
example :
    let id (b : Nat) : Bytes := List.replicate 15 0 ++ [BitVec.ofNat 8 b]
    let sf : {α : Type} → List α → (α → α → Int) → List α := fun l cmp => l.foldr (insertBy (fun a b => decide (cmp a b ≤ 0))) []
    let succ := [id 2, id 1, id 2]
    (sf succ cmpB).isPerm succ ∧ (sf succ cmpB) = [id 1, id 2, id 2] ∧
    (Gen.Curate.curateFailedPoints sf [id 3, id 1, id 3, id 2] succ false).1 =
      [{ Id := id 3, Err := "shard unavailable" }, { Id := id 3, Err := "shard unavailable" }] := by decide

end Sema.C17
