/- line protocol for C17: fan-out / merge of a multi-shard collection (see go/cmd/c17) -/
import SemaModel.Base.DriverUtil
import SemaModel.C17.Model
import SemaModel.Generated.FactsC17
import SemaModel.ClusterCompose.Driver
namespace Sema.C17
open Sema

def kv (toks : List String) (k : String) : Option String :=
  toks.findSome? fun t => if t.startsWith (k ++ "=") then some ((t.drop (k.length + 1)).toString) else none

def splitNE (s : String) (sep : String) : List String := if s == "-" || s == "" then [] else s.splitOn sep

def parseNats (s : String) : Option (List Nat) := (splitNE s ",").mapM (·.toNat?)
def parsePts (s : String) : Option (List (Nat × Int)) :=
  (splitNE s ",").mapM fun p => match p.splitOn "=" with
    | [a, b] => do let i ← a.toNat?; let v ← b.toInt?; pure (i, v)
    | _ => none

def showMsg : Msg → String
  | .notFound => "nf"
  | .unavailable => "un"
def showFailed (l : List (Nat × Msg)) : String :=
  "failed " ++ (if l.isEmpty then "-" else ",".intercalate (l.map fun e => s!"{e.1}:{showMsg e.2}"))

/-- `int(float32(limit)*(1/float32(n))*poissonApproxA + poissonApproxB)` in IEEE single precision
(constants regenerated from the source as bit patterns).  For n = 0 the Go value is not used. -/
def heurF (limit n : Nat) : Nat :=
  let a := Float32.ofBits (UInt32.ofNat Gen.FactsC17.poissonABits)
  let b := Float32.ofBits (UInt32.ofNat Gen.FactsC17.poissonBBits)
  (Float32.ofNat limit * (1 / Float32.ofNat n) * a + b).toUInt64.toNat

/-! values of a result's `DecodedData`, in the syntax of the C06 stream:
`N | B0 | B1 | I<w>:<dec> | U<w>:<dec> | F<hex8> | D<hex16> | S<hex> | X<hex> | A[v,…] | M{key=v,…}` -/

abbrev P (α : Type) := List Char → Option (α × List Char)

def takeWhileC (p : Char → Bool) : List Char → List Char × List Char
  | [] => ([], [])
  | c :: cs => if p c then let (a, b) := takeWhileC p cs; (c :: a, b) else ([], c :: cs)

def isHexC (c : Char) : Bool := c.isDigit || ('a' ≤ c && c ≤ 'f')

def pHexBytes (cs : List Char) : Option (Bytes × List Char) :=
  let (h, rest) := takeWhileC isHexC cs
  (if h.isEmpty then some [] else bytesOfHex (String.ofList h)).map (fun b => (b, rest))

def pInt (cs : List Char) : Option (Int × List Char) :=
  match cs with
  | '-' :: rest =>
    let (d, r) := takeWhileC Char.isDigit rest
    (String.ofList d).toNat?.map (fun n => (-(n : Int), r))
  | _ =>
    let (d, r) := takeWhileC Char.isDigit cs
    (String.ofList d).toNat?.map (fun n => ((n : Int), r))

open Sema.C06 (Val Doc SortOpt) in
mutual
partial def pVal : P Val
  | 'N' :: r => some (.nil, r)
  | 'B' :: '0' :: r => some (.bool false, r)
  | 'B' :: '1' :: r => some (.bool true, r)
  | 'I' :: r =>
    let (w, r1) := takeWhileC Char.isDigit r
    match r1 with
    | ':' :: r2 => (pInt r2).bind fun (v, r3) => (String.ofList w).toNat?.map fun wn => (.int wn (BitVec.ofInt 64 v), r3)
    | _ => none
  | 'U' :: r =>
    let (w, r1) := takeWhileC Char.isDigit r
    match r1 with
    | ':' :: r2 => (pInt r2).bind fun (v, r3) => (String.ofList w).toNat?.map fun wn => (.uint wn (BitVec.ofNat 64 v.toNat), r3)
    | _ => none
  | 'F' :: r =>
    let (h, r1) := takeWhileC isHexC r
    (natOfHex (String.ofList h)).map fun n => (.f32 (BitVec.ofNat 32 n), r1)
  | 'D' :: r =>
    let (h, r1) := takeWhileC isHexC r
    (natOfHex (String.ofList h)).map fun n => (.f64 (BitVec.ofNat 64 n), r1)
  | 'S' :: r => (pHexBytes r).map fun (b, r1) => (.str b, r1)
  | 'X' :: r => (pHexBytes r).map fun (b, r1) => (.bin b, r1)
  | 'A' :: '[' :: r => (pVals r).map fun (l, r1) => (.arr l, r1)
  | 'M' :: '{' :: r => (pFields r).map fun (m, r1) => (.map m, r1)
  | _ => none
partial def pVals : P (List Val)
  | ']' :: r => some ([], r)
  | ',' :: r => pVals r
  | cs => (pVal cs).bind fun (v, r) => (pVals r).map fun (vs, r2) => (v :: vs, r2)
partial def pFields : P Doc
  | '}' :: r => some ([], r)
  | ',' :: r => pFields r
  | cs =>
    let (k, r) := takeWhileC (fun c => c.isAlphanum || c == '_') cs
    match r with
    | '=' :: r1 => (pVal r1).bind fun (v, r2) => (pFields r2).map fun (m, r3) => ((String.ofList k, v) :: m, r3)
    | _ => none
end

/-- `opts=<path>:a|d,…` — the sort options of the request (`models.SortOption{Property, Descending}`;
the path is `strings.Split(Property, ".")`) -/
def parseOpts (s : String) : List Sema.C06.SortOpt :=
  (splitNE s ",").map fun e =>
    match e.splitOn ":" with
    | [p, d] => ⟨p.splitOn ".", d == "d"⟩
    | _ => ⟨e.splitOn ".", false⟩

/-- one hit: `id~score~<DecodedData as M{…}>` -/
def parseHit (s : String) : Option Hit :=
  match s.splitOn "~" with
  | [i, sc, d] => do
    let id ← i.toNat?; let score ← sc.toInt?
    match pVal d.toList with
    | some (.map m, []) => pure ⟨id, score, m⟩
    | _ => none
  | _ => none

def parseAnswers (s : String) : Option (List (Option (List Hit))) :=
  if s == "" then some [] else
  (s.splitOn "|").mapM fun a =>
    if a == "x" then some none else (splitNE a ";").mapM parseHit |>.map some

def sortNat (l : List Nat) : List Nat := sortBy (fun a b => decide (a ≤ b)) l

/-- canonical form of a merged result: ids of consecutive equally-ranked results in ascending order;
if the cut went through a group of equally-ranked candidates (some candidate of the same rank in a
shard's ranking was left out) that last group is replaced by its size -/
def canon (le : Hit → Hit → Bool) (full : List Hit) (r : List Hit) : String :=
  let eqv := fun (a b : Hit) => le a b && le b a
  let rec groups (fuel : Nat) (l : List Hit) : List (List Hit) :=
    match fuel, l with
    | 0, _ => []
    | _, [] => []
    | fuel + 1, x :: xs => (x :: xs.takeWhile (eqv x)) :: groups fuel (xs.dropWhile (eqv x))
  let gs := groups (r.length + 1) r
  let straddle := match gs.getLast? with
    | some (x :: _) => full.any fun e => eqv x e && !r.any (fun q => q.id == e.id)
    | _ => false
  let body := if straddle then gs.dropLast else gs
  let ids := body.flatMap fun g => sortNat (g.map (·.id))
  let tail := if straddle then s!" +tie{(gs.getLast?.getD []).length}" else ""
  s!"ok n={r.length} r=" ++ (if ids.isEmpty then "-" else ",".intercalate (ids.map toString)) ++ tail

structure St where
  col : Coll := []
  maxLimit : Nat := 75
  /-- RpcRetries of a fault cluster (`newcluster … net=ctl retries=R`) -/
  retries : Nat := 1

/-- `ans=<0|1,…>`: which shards' servers answered during this op (measured by the harness).  The
availability flags of the model's shards are these bits for the duration of the op. -/
def parseAns (s : String) : Option (List Bool) := (splitNE s ",").mapM fun b => if b == "1" then some true else if b == "0" then some false else none

def withAns (col : Coll) (ans : List Bool) : Coll := (col.zip ans).map fun p => { p.1 with up := p.2 }
def restoreUp (old new : Coll) : Coll := (new.zip old).map fun p => { p.1 with up := p.2.up }

/-- one event of a routed call: `[x][u|d][O|E|T|B]` (absent letters: no dial needed / no call made) -/
def parseEv (s : String) : Option Ev :=
  let cs := s.toList
  let dies := cs.contains 'x'
  let dial := cs.contains 'u'
  let call := if cs.contains 'O' then CallEv.ok else if cs.contains 'E' then .remoteErr else if cs.contains 'T' then .timeout else if cs.contains 'B' then .broken else .ok
  if cs.all (fun c => "xudOETB".toList.contains c) && !cs.isEmpty then some ⟨dies, dial, call⟩ else none

def showRoute (o : RouteOut) : String :=
  let res := match o.res with
    | .ret none => "nil" | .ret (some .dial) => "dial" | .ret (some .call) => "call" | .ret (some .timeout) => "timeout" | .running => "running"
  let cache := match o.st.cache with | .none => "none" | .live => "live" | .dead => "dead"
  s!"res={res} handled={o.st.answeredOk + o.st.answeredErr} lost={o.st.lost} dials={o.st.dials} cache={cache}"

def showShard (sh : Shard) : String :=
  if !sh.up then "x" else
  let l := sortBy (fun (a b : Nat × Int) => decide (a.1 ≤ b.1)) sh.pts
  if l.isEmpty then "-" else ",".intercalate (l.map fun p => s!"{p.1}={p.2}")

def stepLine (st : St) (line : String) : St × String :=
  let toks := (line.trimAscii.toString.splitOn " ").filter (· ≠ "")
  match toks with
  | "skip" :: _ => (st, "ok")
  | "curate" :: rest =>
    match kv rest "complete", (kv rest "all") >>= parseNats, (kv rest "succ") >>= parseNats with
    | some c, some all, some succ => (st, showFailed (curate all succ (c == "1")))
    | _, _, _ => (st, "bad-op")
  | "newcluster" :: rest =>
    match (kv rest "maxlimit") >>= (·.toNat?) with
    | some m => ({ col := [], maxLimit := m, retries := ((kv rest "retries") >>= (·.toNat?)).getD 1 }, "ok")
    | none => (st, "bad-op")
  | "insert" :: rest =>
    -- place=<shard index>:<id=val,…>|…  (where distributePoints put the new points: oracle)
    match kv rest "place" with
    | some pl =>
      let parts := splitNE pl "|"
      let upd := parts.foldl (fun (acc : Option Coll) part =>
        match acc, part.splitOn ":" with
        | some col, [i, ps] =>
          match i.toNat?, parsePts ps with
          | some idx, some pts =>
            let col := if idx ≥ col.length then col ++ List.replicate (idx + 1 - col.length) ⟨[], true⟩ else col
            some (col.mapIdx fun j sh => if j = idx then { sh with pts := sh.pts ++ pts } else sh)
          | _, _ => none
        | _, _ => none) (some st.col)
      match upd with
      | some col => ({ st with col := col }, "ok")
      | none => (st, "bad-op")
    | none => (st, "bad-op")
  | "down" :: rest =>
    match (kv rest "shards") >>= parseNats with
    | some l => ({ st with col := st.col.mapIdx fun j sh => if l.contains j then { sh with up := false } else sh }, "ok")
    | none => (st, "bad-op")
  | "update" :: rest =>
    match (kv rest "pts") >>= parsePts, (kv rest "ans").map parseAns with
    | some req, none =>
      let r := updatePoints st.col req
      ({ st with col := r.col }, showFailed r.failed)
    | some req, some (some ans) =>
      if ans.length ≠ st.col.length then (st, "bad-ans") else
      let r := updatePoints (withAns st.col ans) req
      -- `inconclusive=1`: the harness does not judge the answer of this run (starved process); the
      -- state still follows the shards that did run their handler
      ({ st with col := restoreUp st.col r.col }, if (kv rest "inconclusive").isSome then "inconclusive" else showFailed r.failed)
    | _, _ => (st, "bad-op")
  | "delete" :: rest =>
    match (kv rest "ids") >>= parseNats, (kv rest "ans").map parseAns with
    | some ids, none =>
      let r := deletePoints st.col ids
      ({ st with col := r.col }, showFailed r.failed)
    | some ids, some (some ans) =>
      if ans.length ≠ st.col.length then (st, "bad-ans") else
      let r := deletePoints (withAns st.col ans) ids
      ({ st with col := restoreUp st.col r.col }, if (kv rest "inconclusive").isSome then "inconclusive" else showFailed r.failed)
    | _, _ => (st, "bad-op")
  | "route" :: rest =>
    match kv rest "cache", ((kv rest "evs").map fun s => (splitNE s ",").mapM parseEv) with
    | some c, some (some evs) =>
      let cache := if c == "live" then Cache.live else if c == "dead" then .dead else .none
      (st, showRoute (routeFrom st.retries cache evs))
    | _, _ => (st, "bad-op")
  | ["state"] => (st, "shards " ++ (if st.col.isEmpty then "-" else "|".intercalate (st.col.map showShard)))
  | "search" :: rest =>
    if (kv rest "inconclusive").isSome then (st, "inconclusive") else
    match (kv rest "limit") >>= (·.toNat?), (kv rest "offset") >>= (·.toNat?), kv rest "mode", (kv rest "answers") >>= parseAnswers with
    | some limit, some offset, some mode, some answers =>
      let opts := parseOpts ((kv rest "opts").getD "-")
      let le : Hit → Hit → Bool := if mode == "keys" then leKeys opts else leScore
      -- the model's availability flags (for an op under a fault: the measured `ans` bits) and the oracle's must agree
      let ups : Option (List Bool) := match (kv rest "ans").map parseAns with
        | none => some (st.col.map (·.up))
        | some a => a
      if ups.isNone || answers.length ≠ st.col.length || (answers.zip (ups.getD [])).any (fun p => p.1.isSome != p.2) || (ups.getD []).length ≠ st.col.length then (st, "bad-answers") else
      match searchPoints (sortBy le) heurF st.maxLimit answers limit offset with
      | none => (st, "err")
      | some r => (st, canon le (answers.flatMap fun a => a.getD []) r)
    | _, _, _, _ => (st, "bad-op")
  | _ => (st, "bad-op")

end Sema.C17

/-- `semadriver C17` runs the C17 model; `semadriver C17 cluster` answers the op lines of the cluster-level
correspondence stream with the composed model of SemaModel/ClusterCompose (C13 + C15 + C16 + C17) -/
def Sema.C17.driverMain (stdin stdout : IO.FS.Stream) (args : List String) : IO Unit :=
  if args.head? == some "cluster" then Sema.ClusterCompose.driverMain stdin stdout args.tail
  else Sema.loopState stdin stdout Sema.C17.stepLine {}
