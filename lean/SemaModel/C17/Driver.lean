/- line protocol for C17: fan-out / merge of a multi-shard collection (see go/cmd/c17) -/
import SemaModel.Base.DriverUtil
import SemaModel.C17.Model
import SemaModel.Generated.FactsC17
import SemaModel.ClusterCompose.Driver
namespace Sema.C17
open Sema

def kv (toks : List String) (k : String) : Option String :=
  toks.findSome? fun t => if t.startsWith (k ++ "=") then some ((t.drop (k.length + 1)).toString) else none

def splitNE (s : String) (sep : String) : List String := if s == "-" || s == "" then [] else s.splitOn sep

def parseNats (s : String) : Option (List Nat) := (splitNE s ",").mapM (·.toNat?)
def parsePts (s : String) : Option (List (Nat × Int)) :=
  (splitNE s ",").mapM fun p => match p.splitOn "=" with
    | [a, b] => do let i ← a.toNat?; let v ← b.toInt?; pure (i, v)
    | _ => none

def showMsg : Msg → String
  | .notFound => "nf"
  | .unavailable => "un"
def showFailed (l : List (Nat × Msg)) : String :=
  "failed " ++ (if l.isEmpty then "-" else ",".intercalate (l.map fun e => s!"{e.1}:{showMsg e.2}"))

/-- `int(float32(limit)*(1/float32(n))*poissonApproxA + poissonApproxB)` in IEEE single precision
(constants regenerated from the source as bit patterns).  For n = 0 the Go value is not used. -/
def heurF (limit n : Nat) : Nat :=
  let a := Float32.ofBits (UInt32.ofNat Gen.FactsC17.poissonABits)
  let b := Float32.ofBits (UInt32.ofNat Gen.FactsC17.poissonBBits)
  (Float32.ofNat limit * (1 / Float32.ofNat n) * a + b).toUInt64.toNat

def parseVal (s : String) : Option (Option Val) :=
  if s == "n" then some none
  else if s.startsWith "i" then ((s.drop 1).toString.toInt?).map fun i => some (Val.int i)
  else if s.startsWith "s" then some (some (Val.str (s.drop 1).toString))
  else none

/-- one hit: `id~score~key~key…` -/
def parseHit (s : String) : Option Hit :=
  match s.splitOn "~" with
  | i :: sc :: ks => do
    let id ← i.toNat?; let score ← sc.toInt?; let keys ← ks.mapM parseVal
    pure ⟨id, score, keys⟩
  | _ => none

def parseAnswers (s : String) : Option (List (Option (List Hit))) :=
  if s == "" then some [] else
  (s.splitOn "|").mapM fun a =>
    if a == "x" then some none else (splitNE a ",").mapM parseHit |>.map some

def sortNat (l : List Nat) : List Nat := sortBy (fun a b => decide (a ≤ b)) l

/-- canonical form of a merged result: ids of consecutive equally-ranked results in ascending order;
if the cut went through a group of equally-ranked candidates (some candidate of the same rank in a
shard's ranking was left out) that last group is replaced by its size -/
def canon (le : Hit → Hit → Bool) (full : List Hit) (r : List Hit) : String :=
  let eqv := fun (a b : Hit) => le a b && le b a
  let rec groups (fuel : Nat) (l : List Hit) : List (List Hit) :=
    match fuel, l with
    | 0, _ => []
    | _, [] => []
    | fuel + 1, x :: xs => (x :: xs.takeWhile (eqv x)) :: groups fuel (xs.dropWhile (eqv x))
  let gs := groups (r.length + 1) r
  let straddle := match gs.getLast? with
    | some (x :: _) => full.any fun e => eqv x e && !r.any (fun q => q.id == e.id)
    | _ => false
  let body := if straddle then gs.dropLast else gs
  let ids := body.flatMap fun g => sortNat (g.map (·.id))
  let tail := if straddle then s!" +tie{(gs.getLast?.getD []).length}" else ""
  s!"ok n={r.length} r=" ++ (if ids.isEmpty then "-" else ",".intercalate (ids.map toString)) ++ tail

structure St where
  col : Coll := []
  maxLimit : Nat := 75
  /-- RpcRetries of a fault cluster (`newcluster … net=ctl retries=R`) -/
  retries : Nat := 1

/-- `ans=<0|1,…>`: which shards' servers answered during this op (measured by the harness).  The
availability flags of the model's shards are these bits for the duration of the op. -/
def parseAns (s : String) : Option (List Bool) := (splitNE s ",").mapM fun b => if b == "1" then some true else if b == "0" then some false else none

def withAns (col : Coll) (ans : List Bool) : Coll := (col.zip ans).map fun p => { p.1 with up := p.2 }
def restoreUp (old new : Coll) : Coll := (new.zip old).map fun p => { p.1 with up := p.2.up }

/-- one event of a routed call: `[x][u|d][O|E|T|B]` (absent letters: no dial needed / no call made) -/
def parseEv (s : String) : Option Ev :=
  let cs := s.toList
  let dies := cs.contains 'x'
  let dial := cs.contains 'u'
  let call := if cs.contains 'O' then CallEv.ok else if cs.contains 'E' then .remoteErr else if cs.contains 'T' then .timeout else if cs.contains 'B' then .broken else .ok
  if cs.all (fun c => "xudOETB".toList.contains c) && !cs.isEmpty then some ⟨dies, dial, call⟩ else none

def showRoute (o : RouteOut) : String :=
  let res := match o.res with
    | .ret none => "nil" | .ret (some .dial) => "dial" | .ret (some .call) => "call" | .ret (some .timeout) => "timeout" | .running => "running"
  let cache := match o.st.cache with | .none => "none" | .live => "live" | .dead => "dead"
  s!"res={res} handled={o.st.answeredOk + o.st.answeredErr} lost={o.st.lost} dials={o.st.dials} cache={cache}"

def showShard (sh : Shard) : String :=
  if !sh.up then "x" else
  let l := sortBy (fun (a b : Nat × Int) => decide (a.1 ≤ b.1)) sh.pts
  if l.isEmpty then "-" else ",".intercalate (l.map fun p => s!"{p.1}={p.2}")

def stepLine (st : St) (line : String) : St × String :=
  let toks := (line.trimAscii.toString.splitOn " ").filter (· ≠ "")
  match toks with
  | "skip" :: _ => (st, "ok")
  | "curate" :: rest =>
    match kv rest "complete", (kv rest "all") >>= parseNats, (kv rest "succ") >>= parseNats with
    | some c, some all, some succ => (st, showFailed (curate all succ (c == "1")))
    | _, _, _ => (st, "bad-op")
  | "newcluster" :: rest =>
    match (kv rest "maxlimit") >>= (·.toNat?) with
    | some m => ({ col := [], maxLimit := m, retries := ((kv rest "retries") >>= (·.toNat?)).getD 1 }, "ok")
    | none => (st, "bad-op")
  | "insert" :: rest =>
    -- place=<shard index>:<id=val,…>|…  (where distributePoints put the new points: oracle)
    match kv rest "place" with
    | some pl =>
      let parts := splitNE pl "|"
      let upd := parts.foldl (fun (acc : Option Coll) part =>
        match acc, part.splitOn ":" with
        | some col, [i, ps] =>
          match i.toNat?, parsePts ps with
          | some idx, some pts =>
            let col := if idx ≥ col.length then col ++ List.replicate (idx + 1 - col.length) ⟨[], true⟩ else col
            some (col.mapIdx fun j sh => if j = idx then { sh with pts := sh.pts ++ pts } else sh)
          | _, _ => none
        | _, _ => none) (some st.col)
      match upd with
      | some col => ({ st with col := col }, "ok")
      | none => (st, "bad-op")
    | none => (st, "bad-op")
  | "down" :: rest =>
    match (kv rest "shards") >>= parseNats with
    | some l => ({ st with col := st.col.mapIdx fun j sh => if l.contains j then { sh with up := false } else sh }, "ok")
    | none => (st, "bad-op")
  | "update" :: rest =>
    match (kv rest "pts") >>= parsePts, (kv rest "ans").map parseAns with
    | some req, none =>
      let r := updatePoints st.col req
      ({ st with col := r.col }, showFailed r.failed)
    | some req, some (some ans) =>
      if ans.length ≠ st.col.length then (st, "bad-ans") else
      let r := updatePoints (withAns st.col ans) req
      -- `inconclusive=1`: the harness does not judge the answer of this run (starved process); the
      -- state still follows the shards that did run their handler
      ({ st with col := restoreUp st.col r.col }, if (kv rest "inconclusive").isSome then "inconclusive" else showFailed r.failed)
    | _, _ => (st, "bad-op")
  | "delete" :: rest =>
    match (kv rest "ids") >>= parseNats, (kv rest "ans").map parseAns with
    | some ids, none =>
      let r := deletePoints st.col ids
      ({ st with col := r.col }, showFailed r.failed)
    | some ids, some (some ans) =>
      if ans.length ≠ st.col.length then (st, "bad-ans") else
      let r := deletePoints (withAns st.col ans) ids
      ({ st with col := restoreUp st.col r.col }, if (kv rest "inconclusive").isSome then "inconclusive" else showFailed r.failed)
    | _, _ => (st, "bad-op")
  | "route" :: rest =>
    match kv rest "cache", ((kv rest "evs").map fun s => (splitNE s ",").mapM parseEv) with
    | some c, some (some evs) =>
      let cache := if c == "live" then Cache.live else if c == "dead" then .dead else .none
      (st, showRoute (routeFrom st.retries cache evs))
    | _, _ => (st, "bad-op")
  | ["state"] => (st, "shards " ++ (if st.col.isEmpty then "-" else "|".intercalate (st.col.map showShard)))
  | "search" :: rest =>
    if (kv rest "inconclusive").isSome then (st, "inconclusive") else
    match (kv rest "limit") >>= (·.toNat?), (kv rest "offset") >>= (·.toNat?), kv rest "mode", (kv rest "answers") >>= parseAnswers with
    | some limit, some offset, some mode, some answers =>
      let opts := (splitNE ((kv rest "opts").getD "-") ",").map (· == "1")
      let le : Hit → Hit → Bool := if mode == "keys" then leKeys opts else leScore
      -- the model's availability flags (for an op under a fault: the measured `ans` bits) and the oracle's must agree
      let ups : Option (List Bool) := match (kv rest "ans").map parseAns with
        | none => some (st.col.map (·.up))
        | some a => a
      if ups.isNone || answers.length ≠ st.col.length || (answers.zip (ups.getD [])).any (fun p => p.1.isSome != p.2) || (ups.getD []).length ≠ st.col.length then (st, "bad-answers") else
      match searchPoints (sortBy le) heurF st.maxLimit answers limit offset with
      | none => (st, "err")
      | some r => (st, canon le (answers.flatMap fun a => a.getD []) r)
    | _, _, _, _ => (st, "bad-op")
  | _ => (st, "bad-op")

end Sema.C17

/-- `semadriver C17` runs the C17 model; `semadriver C17 cluster` answers the op lines of the cluster-level
correspondence stream with the composed model of SemaModel/ClusterCompose (C13 + C15 + C16 + C17) -/
def Sema.C17.driverMain (stdin stdout : IO.FS.Stream) (args : List String) : IO Unit :=
  if args.head? == some "cluster" then Sema.ClusterCompose.driverMain stdin stdout args.tail
  else Sema.loopState stdin stdout Sema.C17.stepLine {}
