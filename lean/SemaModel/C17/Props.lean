/-
C17 — multi-shard fan-out finds each point exactly once and merges results in order.

Property theorems only (with non-vacuity examples).  Model: SemaModel/C17/Model.lean
(cluster/actions.go UpdatePoints / DeletePoints / curateFailedPoints / SearchPoints); the constants
and the expression text of the search plan are pinned by Generated/FactsC17.lean (T2); model and
1..3 real in-process servers are run on the same op lines by go/cmd/c17 (T3), which also calls the
real `curateFailedPoints` directly.

Throughout: `Uniq col` = point ids are unique per collection (the API's requirement; the cluster
never checks it across shards), an unavailable shard is `up = false` / an answer `none`.
-/
import SemaModel.C17.Lemmas
import SemaModel.C06.Props
import SemaModel.Generated.FactsC17
namespace Sema.C17

/-! ### T2 pins -/

example : Gen.FactsC17.targetLimitExpr = "int(float32(sr.Limit)*(1/float32(len(col.ShardIds)))*1.42 + 10.0)" := by decide
example : Gen.FactsC17.offsetCond = "len(col.ShardIds) > 1 && sr.Offset%len(col.ShardIds) == 0" := by decide
example : Gen.FactsC17.offsetAssign = "sr.Offset /= len(col.ShardIds)" := by decide
example : Gen.FactsC17.cutRule = "len(results) > originalLimit => results = results[:originalLimit]" := by decide
example : Gen.FactsC17.scoreCmp = "cmp.Compare(b.HybridScore, a.HybridScore)" := by decide
/-- the merge the model's `searchPoints` / `leScore` / `leKeys` are written against: only with more than one shard;
without sort options `slices.SortFunc` with the score closure, otherwise `utils.SortSearchResults(results, sr.Sort)` —
the function C06 models (`Sema.C06.sortCmp`) and `Generated/Compare.lean` translates (`TieSort.lean`) -/
example : Gen.FactsC17.mergeSkeleton =
    ["if len(col.ShardIds) > 1 {", "if len(sr.Sort) == 0 {", "slices.SortFunc(results, func)", "} else {",
     "utils.SortSearchResults(results, sr.Sort)", "}", "}"] := by decide
/-- 1.42 and 10.0 as float32 bit patterns (used by the driver's heuristic) -/
example : (Gen.FactsC17.poissonABits, Gen.FactsC17.poissonBBits) = (0x3fb5c28f, 0x41200000) := by decide

/-- the retry loop `route` / `routeIter` are written against (cluster/rpc.go internalRoute): the loop
header; `retryErr = nil` at the top of every iteration; a failed `rpcClient` records an error and goes
round; `rpc.ErrShutdown` evicts the cached client and goes round WITHOUT consuming an attempt (`i--`);
any other call error returns it; an answer returns nil; a time-out records an error; the loop's exit
returns the recorded error -/
example : Gen.FactsC17.routeSkeleton =
    ["for i := 0; i < c.cfg.RpcRetries; i += 1 {", "retryErr = nil", "c.rpcClient", "if err != nil {", "retryErr = err", "continue", "}", "client.Go", "case <-rpcCall.Done {", "if rpcCall.Error != nil {", "if rpcCall.Error == rpc.ErrShutdown {", "delete(c.rpcClients, destination)", "i -= 1", "continue", "}", "return err", "}", "return nil", "}", "case <-timeout.C {", "retryErr = err", "}", "}", "return retryErr"] := by decide

/-! ### curateFailedPoints -/

/-- the sort + binary-search implementation computes the list difference `allIds \ successIds`
(order and multiplicity of `allIds` kept), every entry carrying "not found" iff the response was
complete — for every sorting function that returns a sorted permutation, for all inputs (duplicates
on either side, empty lists, ids in no relation to each other) -/
theorem C17_curate {sort : List Nat → List Nat} (hsort : IsSort sort) (all succ : List Nat) (complete : Bool) :
    curateWith sort all succ complete =
      (all.filter fun i => !succ.contains i).map fun i => (i, if complete then Msg.notFound else Msg.unavailable) :=
  curateWith_eq hsort all succ complete

/-- the binary search itself: on a sorted slice, `found` iff the target occurs -/
theorem C17_binarySearch {x : List Nat} (hs : x.Pairwise (· ≤ ·)) (t : Nat) : (binarySearch x t).2 = true ↔ t ∈ x :=
  binarySearch_found hs t

/-- the executable instance -/
theorem C17_curate_mergeSort (all succ : List Nat) (complete : Bool) :
    curate all succ complete =
      (all.filter fun i => !succ.contains i).map fun i => (i, if complete then Msg.notFound else Msg.unavailable) :=
  curateWith_eq sortIds_isSort all succ complete

/-- the Go function allocates `make([]FailedPoint, 0, len(allIds)-len(successIds))` and panics when the
success list is longer than the request.  With ids unique per collection that cannot happen: the
shards' success lists together are never longer than the request (update: `req`, delete: `ids`). -/
theorem C17_curate_precondition {col : Coll} (hu : Uniq col) (req : List (Nat × Int)) (ids : List Nat) :
    (updatePoints col req).results.length ≤ (req.map (·.1)).length ∧ (deletePoints col ids).results.length ≤ ids.length := by
  constructor
  · simp only [updatePoints, updSucc]
    exact Nat.le_trans (fan_length_le hu _) (List.length_filter_le _ _)
  · simp only [deletePoints, delSucc]
    refine Nat.le_trans (fan_length_le hu _) (Nat.le_trans (List.length_filter_le _ _) ?_)
    have : ∀ l : List Nat, (dedup l).length ≤ l.length := by
      intro l
      induction l with
      | nil => simp [dedup]
      | cons a l ih => simp only [dedup]; split <;> simp <;> omega
    exact this ids

example : curate [5, 3, 5, 9, 1] [9, 2, 3, 3] false = [(5, .unavailable), (5, .unavailable), (1, .unavailable)] := by decide

/-! ### failed lists of update and delete -/

/-- UpdatePoints: the failed list is exactly the requested ids (in request order, with multiplicity)
that no *available* shard holds — i.e. that are in no shard's success list; the message is
"not found" iff every shard answered.  No uniqueness hypothesis needed. -/
theorem C17_failed_update (col : Coll) (req : List (Nat × Int)) :
    (updatePoints col req).failed =
      ((req.map (·.1)).filter fun i => !heldUp col i).map fun i =>
        (i, if col.all (·.up) then Msg.notFound else Msg.unavailable) := by
  simp only [updatePoints, curate]
  rw [curateWith_eq sortIds_isSort]
  congr 1
  apply List.filter_congr
  intro i hi
  congr 1
  rw [Bool.eq_iff_iff, List.contains_iff_mem]
  simp only [updSucc]
  rw [mem_fan]
  exact ⟨fun h => h.2, fun h => ⟨hi, h⟩⟩

/-- DeletePoints: same statement -/
theorem C17_failed_delete (col : Coll) (ids : List Nat) :
    (deletePoints col ids).failed =
      (ids.filter fun i => !heldUp col i).map fun i =>
        (i, if col.all (·.up) then Msg.notFound else Msg.unavailable) := by
  simp only [deletePoints, curate]
  rw [curateWith_eq sortIds_isSort]
  congr 1
  apply List.filter_congr
  intro i hi
  congr 1
  rw [Bool.eq_iff_iff, List.contains_iff_mem]
  simp only [delSucc]
  rw [mem_fan]
  exact ⟨fun h => h.2, fun h => ⟨mem_dedup.mpr hi, h⟩⟩

/-- "not found" iff every shard answered -/
theorem C17_failed_message (col : Coll) (req : List (Nat × Int)) (e : Nat × Msg) (he : e ∈ (updatePoints col req).failed) :
    (e.2 = Msg.notFound ↔ ∀ sh ∈ col, sh.up = true) := by
  rw [C17_failed_update] at he
  obtain ⟨i, _, rfl⟩ := List.mem_map.mp he
  by_cases h : col.all (·.up) = true
  · simp only [h, if_true, true_iff]; simpa using h
  · simp only [h, Bool.false_eq_true, if_false]
    constructor
    · intro e; cases e
    · intro hall; exact absurd (by simpa using hall) h

/-! ### exactly once -/

/-- an update touches nothing but payloads: every shard keeps exactly its ids (so uniqueness per
collection is preserved), a shard holding none of the requested ids and an unavailable shard are
unchanged, and the payload of each held id is the last one requested for it -/
theorem C17_once_update (col : Coll) (req : List (Nat × Int)) :
    (updatePoints col req).col.map Shard.ids = col.map Shard.ids ∧
    (∀ sh ∈ col, sh.up = false ∨ (∀ q ∈ req, has sh.pts q.1 = false) →
        (if sh.up then { sh with pts := updPts sh.pts req } else sh) = sh) ∧
    (∀ sh : Shard, updPts sh.pts req = sh.pts.map fun o => (o.1, finalVal req o.1 o.2)) := by
  refine ⟨?_, ?_, fun sh => updPts_eq req sh.pts⟩
  · simp only [updatePoints, List.map_map]
    apply List.map_congr_left
    intro sh _
    simp only [Function.comp, Shard.ids]
    split
    · exact updPts_ids _ _
    · rfl
  · intro sh _ h
    rcases h with h | h
    · simp [h]
    · split
      · rw [updPts_unchanged h]
      · rfl

/-- with ids unique per collection, an id held by an available shard is reported by exactly as many
shards as it was requested (once, for a request without repetitions); an id held by no available
shard by none -/
theorem C17_once_count_update {col : Coll} (hu : Uniq col) (req : List (Nat × Int)) (x : Nat) :
    (updatePoints col req).results.count x = if heldUp col x then (req.map (·.1)).count x else 0 := by
  simp only [updatePoints, updSucc]
  exact count_fan hu _ x

theorem C17_once_count_delete {col : Coll} (hu : Uniq col) (ids : List Nat) (x : Nat) :
    (deletePoints col ids).results.count x = if heldUp col x && ids.contains x then 1 else 0 := by
  simp only [deletePoints, delSucc]
  rw [count_fan hu]
  by_cases hm : x ∈ ids
  · have : (dedup ids).count x = 1 := count_eq_one_of_nodup (nodup_dedup ids) (mem_dedup.mpr hm)
    simp [hm, this]
  · have : (dedup ids).count x = 0 := List.count_eq_zero.mpr (fun h => hm (mem_dedup.mp h))
    simp [hm, this]

/-- a delete removes from every available shard exactly the requested ids it holds and nothing else;
a shard holding none of them, and an unavailable shard, are unchanged -/
theorem C17_once_delete (col : Coll) (ids : List Nat) :
    (∀ sh : Shard, (delPts sh.pts ids).map (·.1) = sh.ids.filter fun i => !ids.contains i) ∧
    (∀ sh ∈ col, sh.up = false ∨ (∀ i ∈ ids, has sh.pts i = false) →
        (if sh.up then { sh with pts := delPts sh.pts ids } else sh) = sh) := by
  refine ⟨fun sh => delPts_ids sh.pts ids, ?_⟩
  intro sh _ h
  rcases h with h | h
  · simp [h]
  · split
    · rw [delPts_unchanged h]
    · rfl

/-- the single-id form: with ids unique per collection, updating the one id `x` held by shard `sh`
leaves every other shard of the collection exactly as it was -/
theorem C17_once {pre post : List Shard} {sh : Shard} (hu : Uniq (pre ++ sh :: post)) {x : Nat} (v : Int)
    (hx : has sh.pts x = true) :
    (updatePoints (pre ++ sh :: post) [(x, v)]).col =
      pre ++ (if sh.up then { sh with pts := updPts sh.pts [(x, v)] } else sh) :: post := by
  have hnot : ∀ s2 ∈ pre ++ post, has s2.pts x = false := by
    intro s2 hs2
    cases h : has s2.pts x
    · rfl
    · exfalso
      have hx1 := has_iff.mp hx
      have hx2 := has_iff.mp h
      simp only [Uniq, Coll.ids, List.flatMap_append, List.flatMap_cons] at hu
      rcases List.mem_append.mp hs2 with hp | hp
      · have hd := (List.nodup_append.mp hu).2.2
        exact hd x (List.mem_flatMap.mpr ⟨s2, hp, hx2⟩) x (List.mem_append_left _ hx1) rfl
      · have h2 := (List.nodup_append.mp hu).2.1
        have hd := (List.nodup_append.mp h2).2.2
        exact hd x hx1 x (List.mem_flatMap.mpr ⟨s2, hp, hx2⟩) rfl
  have hsame : ∀ s2 ∈ pre ++ post, (if s2.up then { s2 with pts := updPts s2.pts [(x, v)] } else s2) = s2 := by
    intro s2 hs2
    split
    · rw [updPts_unchanged (by intro q hq; simp at hq; subst hq; exact hnot s2 hs2)]
    · rfl
  simp only [updatePoints, List.map_append, List.map_cons]
  congr 1
  · conv => rhs; rw [← List.map_id pre]
    exact List.map_congr_left (fun s2 hs2 => hsame s2 (List.mem_append_left _ hs2))
  · congr 1
    conv => rhs; rw [← List.map_id post]
    exact List.map_congr_left (fun s2 hs2 => hsame s2 (List.mem_append_right _ hs2))

-- non-vacuity: three shards, the middle one unavailable
def exCol : Coll := [⟨[(1, 10), (2, 20)], true⟩, ⟨[(3, 30)], false⟩, ⟨[(4, 40), (5, 50)], true⟩]
example : Uniq exCol := by decide
example : (updatePoints exCol [(4, 41), (3, 31), (9, 91), (4, 42)]).failed = [(3, .unavailable), (9, .unavailable)] ∧
    (updatePoints exCol [(4, 41), (3, 31), (9, 91), (4, 42)]).col = [⟨[(1, 10), (2, 20)], true⟩, ⟨[(3, 30)], false⟩, ⟨[(4, 42), (5, 50)], true⟩] ∧
    (deletePoints exCol [5, 5, 1, 7]).failed = [(7, .unavailable)] ∧
    (deletePoints (exCol.map fun s => { s with up := true }) [3, 7]).failed = [(7, .notFound)] := by decide

private theorem count_filter_ite (p : Nat → Bool) (l : List Nat) (x : Nat) :
    (l.filter p).count x = if p x then l.count x else 0 := by
  induction l with
  | nil => simp
  | cons a l ih =>
    by_cases ha : p a = true
    · by_cases hx : a = x
      · subst hx; simp [ha, ih]
      · have : (a == x) = false := by simpa using hx
        simp [ha, ih, List.count_cons, this]
    · have ha' : p a = false := by simpa using ha
      by_cases hx : a = x
      · subst hx; simp [ha', ih]
      · have : (a == x) = false := by simpa using hx
        simp [ha', ih, List.count_cons, this]

/-- **ids named more than once in one request** (the API allows it).  An id some available shard
processed is never listed as failed, however often the request names it and however often the shards
report it (a delete works on a set and reports it once; an update reports it once per entry); an id no
available shard processed is listed exactly as often as the request names it.  A bookkeeping that
ticks reported ids off a set, or counts them, gets the first half wrong. -/
theorem C17_failed_count_delete (col : Coll) (ids : List Nat) (x : Nat) :
    ((deletePoints col ids).failed.map (·.1)).count x = if heldUp col x then 0 else ids.count x := by
  rw [C17_failed_delete, List.map_map]
  have : ((fun e : Nat × Msg => e.1) ∘ fun i => (i, if col.all (·.up) then Msg.notFound else Msg.unavailable)) = id := rfl
  rw [this, List.map_id, count_filter_ite]
  cases heldUp col x <;> simp

theorem C17_failed_count_update (col : Coll) (req : List (Nat × Int)) (x : Nat) :
    ((updatePoints col req).failed.map (·.1)).count x = if heldUp col x then 0 else (req.map (·.1)).count x := by
  rw [C17_failed_update, List.map_map]
  have : ((fun e : Nat × Msg => e.1) ∘ fun i => (i, if col.all (·.up) then Msg.notFound else Msg.unavailable)) = id := rfl
  rw [this, List.map_id, count_filter_ite]
  cases heldUp col x <;> simp

/-- the same on the level of `curateFailedPoints`, for every sort: multiplicities of the success list do not matter -/
theorem C17_curate_count {sort : List Nat → List Nat} (hsort : IsSort sort) (all succ : List Nat) (complete : Bool) (x : Nat) :
    ((curateWith sort all succ complete).map (·.1)).count x = if succ.contains x then 0 else all.count x := by
  rw [C17_curate hsort, List.map_map]
  have : ((fun e : Nat × Msg => e.1) ∘ fun i => (i, if complete then Msg.notFound else Msg.unavailable)) = id := rfl
  rw [this, List.map_id, count_filter_ite]
  cases succ.contains x <;> simp

/-- non-vacuity: id 5 (held by an available shard) named twice, 7 (held by nobody) named three times, 3 (its shard is down) twice -/
example : ((deletePoints exCol [5, 7, 5, 3, 7, 3, 7]).failed.map (·.1)) = [7, 3, 7, 3, 7] ∧ heldUp exCol 5 = true ∧ heldUp exCol 7 = false ∧ heldUp exCol 3 = false := by decide

/-! ### search -/

/-- **C17_search**, for every comparator `le` and every function `sort` returning an `le`-sorted
permutation (pdqsort with `cmp.Compare(b.HybridScore, a.HybridScore)` or with the sort-key
comparator), every per-shard limit heuristic `heur`, every `maxLimit`, `limit`, `offset`, every
number of shards, whatever the shards answered (`answers`: their full rankings):
if the search returns `r` then every shard answered, `|r| ≤ limit`, `r` has no duplicate ids,
every element of `r` comes from some shard's answer, and `r` is ordered by `le`.
Hypotheses: ids unique per collection (`hu`), and each shard's own ranking is `le`-ordered
(`hown`: what C06 provides; only used when the collection has a single shard, where the cluster
does not sort). -/
theorem C17_search {α} (idOf : α → Nat) (le : α → α → Bool) (sort : List α → List α) (hsort : IsSortBy le sort)
    (heur : Nat → Nat → Nat) (maxLimit : Nat) (answers : List (Option (List α))) (limit offset : Nat) (r : List α)
    (hu : ((answers.flatMap fun a => a.getD []).map idOf).Nodup)
    (hown : ∀ a ∈ answers, (a.getD []).Pairwise (fun x y => le x y = true))
    (h : searchPoints sort heur maxLimit answers limit offset = some r) :
    (∀ a ∈ answers, a.isSome) ∧ r.length ≤ limit ∧ (r.map idOf).Nodup ∧ (∀ x ∈ r, ∃ a ∈ answers, x ∈ a.getD []) ∧
      r.Pairwise (fun x y => le x y = true) :=
  search_spec idOf le sort hsort heur maxLimit answers limit offset r hu hown h

/-- one unavailable shard makes the whole search fail (the code returns the first error) -/
theorem C17_search_unavailable {α} (sort : List α → List α) (heur : Nat → Nat → Nat) (maxLimit : Nat)
    (answers : List (Option (List α))) (limit offset : Nat) (h : none ∈ answers) :
    searchPoints sort heur maxLimit answers limit offset = none := by
  have : (answers.any fun a => a.isNone) = true := List.any_eq_true.mpr ⟨none, h, rfl⟩
  simp [searchPoints, this]

/-- every matching point exactly once: with offset 0, if no shard's ranking is cut by the per-shard
limit and the total fits `limit`, the result is a permutation of all the shards' answers -/
theorem C17_search_all {α} (le : α → α → Bool) (sort : List α → List α) (hsort : IsSortBy le sort)
    (heur : Nat → Nat → Nat) (maxLimit : Nat) (answers : List (Option (List α))) (limit : Nat)
    (hup : ∀ a ∈ answers, a.isSome)
    (hfit : ∀ a ∈ answers, (plan heur maxLimit limit 0 answers.length).1 = 0 ∨ (a.getD []).length ≤ (plan heur maxLimit limit 0 answers.length).1)
    (htotal : (answers.flatMap fun a => a.getD []).length ≤ limit) :
    ∃ r, searchPoints sort heur maxLimit answers limit 0 = some r ∧ r.Perm (answers.flatMap fun a => a.getD []) :=
  search_all sort (fun l => (hsort l).1) heur maxLimit answers limit hup hfit htotal

/-- the two comparators of `ClusterNode.SearchPoints` are total preorders, so insertion sort (the
driver's stand-in for pdqsort) and merge sort satisfy the hypothesis of `C17_search` for both -/
theorem C17_sort_score : IsSortBy leScore (sortBy leScore) ∧ IsSortBy leScore (fun l => l.mergeSort leScore) :=
  ⟨sortBy_isSortBy leScore leScore_trans leScore_total, mergeSort_isSortBy leScore leScore_trans leScore_total⟩

theorem C17_sort_keys (opts : List Sema.C06.SortOpt) :
    IsSortBy (leKeys opts) (sortBy (leKeys opts)) ∧ IsSortBy (leKeys opts) (fun l => l.mergeSort (leKeys opts)) :=
  ⟨sortBy_isSortBy (leKeys opts) (leKeys_trans opts) (leKeys_total opts),
   mergeSort_isSortBy (leKeys opts) (leKeys_trans opts) (leKeys_total opts)⟩

/-- **with two or more shards the cluster's merge decides the order**: the result is ordered by `le`
whatever order each shard answered in (no hypothesis on the shards' own rankings, unlike the
single-shard case of `C17_search`, where the cluster does not sort) -/
theorem C17_search_multi {α} (le : α → α → Bool) (sort : List α → List α) (hsort : IsSortBy le sort)
    (heur : Nat → Nat → Nat) (maxLimit : Nat) (answers : List (Option (List α))) (limit offset : Nat) (r : List α)
    (hn : 2 ≤ answers.length) (h : searchPoints sort heur maxLimit answers limit offset = some r) :
    r.Pairwise (fun x y => le x y = true) :=
  search_multi le sort hsort heur maxLimit answers limit offset r hn h

/-- **the comparator of the cluster's merge on sort keys is a total preorder on the results, for every list of
sort options and every kind of value msgpack decodes** (any integer width and signedness, float32 / float64
with NaN below everything as `cmp.Compare` has it, −0 = +0, ±Inf, strings, nil, bool, slices, maps):
antisymmetric as a three-way comparison, reflexive, `≤` transitive — exactly the hypotheses under which a
sort returns an ordered list (`C17_sort_keys`).  It IS `Sema.C06.sortCmp` on the results' `DecodedData`
(`leKeys`), so this is `C06_sortcmp_preorder` read at the cluster level. -/
theorem C17_merge_cmp_preorder (opts : List Sema.C06.SortOpt) :
    (∀ a b : Hit, Sema.C06.sortCmp opts b.data a.data = - Sema.C06.sortCmp opts a.data b.data) ∧
    (∀ a : Hit, leKeys opts a a = true) ∧
    (∀ a b : Hit, leKeys opts a b = true ∨ leKeys opts b a = true) ∧
    (∀ a b c : Hit, leKeys opts a b = true → leKeys opts b c = true → leKeys opts a c = true) := by
  refine ⟨fun a b => (Sema.C06.C06_sortcmp_preorder opts).1 a.data b.data, fun a => ?_, fun a b => ?_, leKeys_trans opts⟩
  · simp [leKeys, (Sema.C06.C06_sortcmp_preorder opts).2.1 a.data]
  · simpa using leKeys_total opts a b

/-- **the cluster-level merge order on sort keys is the order C06's `sortCmp` defines.**  A search over two or
more shards with sort options `opts`, merged by ANY function that returns a sorted permutation under the
comparator (pdqsort; `C17_sort_keys` gives two such functions): the `DecodedData` of the returned results,
in the order returned, is ordered by `Sema.C06.sortCmp opts` — whatever each shard answered and in whatever
order, for every per-shard limit heuristic, `maxLimit`, `limit`, `offset`. -/
theorem C17_merge_keys (opts : List Sema.C06.SortOpt) (sort : List Hit → List Hit) (hsort : IsSortBy (leKeys opts) sort)
    (heur : Nat → Nat → Nat) (maxLimit : Nat) (answers : List (Option (List Hit))) (limit offset : Nat) (r : List Hit)
    (hn : 2 ≤ answers.length) (h : searchPoints sort heur maxLimit answers limit offset = some r) :
    (r.map (·.data)).Pairwise (fun a b => Sema.C06.sortCmp opts a b ≤ 0) := by
  rw [List.pairwise_map]
  apply (C17_search_multi (leKeys opts) sort hsort heur maxLimit answers limit offset r hn h).imp
  intro a b hab
  simpa [leKeys] using hab

/-- `C17_search` read for the sort-key comparator with a concrete sort (merge sort; `C17_sort_keys` discharges the
hypothesis on the sort): for every list of sort options, whatever kinds the values have — all shards answered, at most
`limit` results, no duplicate, every result from some shard's answer, and the decoded data in `sortCmp` order.  (`hown`
— each shard's own answer is in that order, which is C06 — is used for a single-shard collection only.) -/
theorem C17_search_keys (opts : List Sema.C06.SortOpt) (heur : Nat → Nat → Nat) (maxLimit : Nat)
    (answers : List (Option (List Hit))) (limit offset : Nat) (r : List Hit)
    (hu : ((answers.flatMap fun a => a.getD []).map Hit.id).Nodup)
    (hown : ∀ a ∈ answers, ((a.getD []).map (·.data)).Pairwise (fun x y => Sema.C06.sortCmp opts x y ≤ 0))
    (h : searchPoints (fun l => l.mergeSort (leKeys opts)) heur maxLimit answers limit offset = some r) :
    (∀ a ∈ answers, a.isSome) ∧ r.length ≤ limit ∧ (r.map Hit.id).Nodup ∧ (∀ x ∈ r, ∃ a ∈ answers, x ∈ a.getD []) ∧
      (r.map (·.data)).Pairwise (fun a b => Sema.C06.sortCmp opts a b ≤ 0) := by
  have hown' : ∀ a ∈ answers, (a.getD []).Pairwise (fun x y => leKeys opts x y = true) := by
    intro a ha
    have := hown a ha
    rw [List.pairwise_map] at this
    exact this.imp (fun hxy => by simpa [leKeys] using hxy)
  obtain ⟨h1, h2, h3, h4, h5⟩ := C17_search Hit.id (leKeys opts) _ (C17_sort_keys opts).2 heur maxLimit answers limit offset r hu hown' h
  refine ⟨h1, h2, h3, h4, ?_⟩
  rw [List.pairwise_map]
  exact h5.imp (fun hxy => by simpa [leKeys] using hxy)

/-- hence everything C06 proves about a `sortCmp`-ordered list holds for the merged result of a multi-shard
search: under the first sort option no result that lacks the property stands before one that has it, and
results that both have it are ordered by `CompareAny` on it (reversed for `descending`) … -/
theorem C17_merge_missing_last (o : Sema.C06.SortOpt) (rest : List Sema.C06.SortOpt) (sort : List Hit → List Hit)
    (hsort : IsSortBy (leKeys (o :: rest)) sort)
    (heur : Nat → Nat → Nat) (maxLimit : Nat) (answers : List (Option (List Hit))) (limit offset : Nat) (r : List Hit)
    (hn : 2 ≤ answers.length) (h : searchPoints sort heur maxLimit answers limit offset = some r) :
    (r.map (·.data)).Pairwise (fun a b => (Sema.C06.access b o.path ≠ none → Sema.C06.access a o.path ≠ none) ∧
      ∀ x y, Sema.C06.access a o.path = some x → Sema.C06.access b o.path = some y →
        (if o.desc then Sema.C06.cmpAny y x else Sema.C06.cmpAny x y) ≤ 0) :=
  Sema.C06.C06_missing_last o rest _ (C17_merge_keys (o :: rest) sort hsort heur maxLimit answers limit offset r hn h)

/-- … and two results that both carry a NUMBER under the first sort option stand in numeric order, whatever
the two kinds (any integer width, signed or unsigned, float32 or float64): `numOrd` is the exact value
scaled by `2^1074`, nothing is rounded and no unsigned integer is read as signed or the other way round —
`200` stored as uint8 is above `−1.5`, `2^63` stored as uint64 is above every int64, `2^53 + 1` is above the
float64 `2^53`. -/
theorem C17_merge_numeric (o : Sema.C06.SortOpt) (rest : List Sema.C06.SortOpt) (sort : List Hit → List Hit)
    (hsort : IsSortBy (leKeys (o :: rest)) sort)
    (heur : Nat → Nat → Nat) (maxLimit : Nat) (answers : List (Option (List Hit))) (limit offset : Nat) (r : List Hit)
    (hn : 2 ≤ answers.length) (h : searchPoints sort heur maxLimit answers limit offset = some r) :
    (r.map (·.data)).Pairwise (fun a b => ∀ x y nx ny, Sema.C06.access a o.path = some x → Sema.C06.access b o.path = some y →
      Sema.C06.numOf x = some nx → Sema.C06.numOf y = some ny →
      if o.desc then Sema.C06.numOrd ny ≤ Sema.C06.numOrd nx else Sema.C06.numOrd nx ≤ Sema.C06.numOrd ny) :=
  Sema.C06.C06_sort_numeric o rest _ (C17_merge_keys (o :: rest) sort hsort heur maxLimit answers limit offset r hn h)

-- non-vacuity: three shards, limit 3, scores descending
def exAns : List (Option (List Hit)) :=
  [some [⟨1, 9, []⟩, ⟨2, 4, []⟩], some [⟨3, 7, []⟩], some [⟨4, 8, []⟩, ⟨5, 1, []⟩]]
example : (searchPoints (sortBy leScore) (fun l n => l / n + 10) 75 exAns 3 0).map (·.map Hit.id) = some [1, 4, 3] := by decide
example : ((exAns.flatMap fun a => a.getD []).map Hit.id).Nodup ∧ ∀ a ∈ exAns, (a.getD []).Pairwise (fun x y => leScore x y = true) := by decide

-- non-vacuity of the sort-key theorems: two shards, one point each; the sort property was written through
-- MessagePack and keeps the width it was sent with — 200 as uint8 in one point, −1.5 as float64 in the other,
-- a third point on the first shard lacks it.  Ascending: −1.5, 200, missing; descending: 200, −1.5, missing.
def exMixed : List (Option (List Hit)) :=
  [some [⟨1, 0, [("temp", .uint 8 200)]⟩, ⟨3, 0, []⟩], some [⟨2, 0, [("temp", .f64 0xbff8000000000000#64)]⟩]]
set_option maxRecDepth 8192 in
example : (searchPoints (sortBy (leKeys [⟨["temp"], false⟩])) (fun l n => l / n + 10) 75 exMixed 10 0).map (·.map Hit.id) = some [2, 1, 3] ∧
    (searchPoints (sortBy (leKeys [⟨["temp"], true⟩])) (fun l n => l / n + 10) 75 exMixed 10 0).map (·.map Hit.id) = some [1, 2, 3] := by
  refine ⟨by decide, by decide⟩

/-! ### internalRoute: success means "delivered and answered" -/

/-- **nil only if answered.**  For every number of retries ≥ 1, every initial state of the client
cache and every behaviour of the peer / network (event list): if `internalRoute` returns nil then
exactly one request was delivered to the server and answered by its handler without error; if it
returns an error (or is still looping) no request was answered without error.  At most `retries`
requests are ever written. -/
theorem C17_route_nil {retries : Nat} (hr : 1 ≤ retries) (cache : Cache) (evs : List Ev) :
    ((routeFrom retries cache evs).res = .ret none ↔ (routeFrom retries cache evs).st.answeredOk = 1) ∧
    (routeFrom retries cache evs).st.answeredOk ≤ 1 ∧
    (routeFrom retries cache evs).st.written ≤ retries := by
  have h := route_spec retries evs { cache := cache } (fun hge => by simp at hge; omega)
  simp only [routeFrom] at *
  obtain ⟨h1, h2, h3⟩ := h
  refine ⟨⟨fun e => by simpa using h1 e, fun e => ?_⟩, ?_, ?_⟩
  · by_cases hn : (route retries evs { cache := cache }).res = .ret none
    · exact hn
    · have := h2 hn; omega
  · by_cases hn : (route retries evs { cache := cache }).res = .ret none
    · have := h1 hn; omega
    · have := h2 hn; omega
  · simp [RouteSt.written] at h3 ⊢; omega

/-- the fan-out counts a shard as having answered (`routedUp`) only if its server did answer -/
theorem C17_routed_up {retries : Nat} (hr : 1 ≤ retries) (cache : Cache) (evs : List Ev) :
    routedUp retries cache evs = true ↔ (routeFrom retries cache evs).st.answeredOk = 1 := by
  rw [← (C17_route_nil hr cache evs).1]; simp [routedUp]

/-- a server that cannot be reached (no live cached client, every dial fails) is never reported as
having answered, however often the loop goes round -/
theorem C17_route_unreachable {retries : Nat} (hr : 1 ≤ retries) {cache : Cache} (hc : cache ≠ .live) (evs : List Ev)
    (hd : ∀ ev ∈ evs, ev.dial = false) : (routeFrom retries cache evs).res ≠ .ret none := by
  have key : ∀ (evs : List Ev) (st : RouteSt), (∀ ev ∈ evs, ev.dial = false) → st.cache ≠ .live → RouteInv retries st →
      (route retries evs st).res ≠ .ret none := by
    intro evs
    induction evs with
    | nil =>
      intro st _ _ hinv
      unfold route
      by_cases h : st.i ≥ retries
      · simp only [h, if_true]; intro e; exact hinv h (by simpa using e)
      · simp [h]
    | cons ev rest ih =>
      intro st hd hc hinv
      unfold route
      by_cases h : st.i ≥ retries
      · simp only [h, if_true]; intro e; exact hinv h (by simpa using e)
      · simp only [h, if_false]
        have hev := hd ev (by simp)
        have hrest : ∀ e ∈ rest, e.dial = false := fun e he => hd e (by simp [he])
        cases hcache : st.cache with
        | live => exact absurd hcache hc
        | none =>
          have : routeIter ev st = .cont { st with i := st.i + 1, retryErr := some .dial } := by
            simp [routeIter, hcache, hev]
          rw [this]
          exact ih _ hrest (by simp [hcache]) (fun _ => by simp)
        | dead =>
          have : routeIter ev st = .cont { st with retryErr := none, cache := .none, dials := st.dials } := by
            simp [routeIter, hcache]
          rw [this]
          exact ih _ hrest (by simp) (fun hge => absurd hge h)
  exact key evs _ hd hc (fun hge => by simp at hge; omega)

/-- `rpcRetries: 0` is outside the theorem for a reason: the loop body never runs and the function
reports success without having contacted anybody -/
theorem C17_route_zero_retries (cache : Cache) (evs : List Ev) :
    (routeFrom 0 cache evs).res = .ret none ∧ (routeFrom 0 cache evs).st.written = 0 := by
  cases evs <;> simp [routeFrom, route, RouteSt.written]

/-- **"not found" only if every shard's server answered**: in a fan-out whose availability flags are
the outcomes of the routed calls (any retries ≥ 1, any cache states, any peer behaviour per shard) -/
theorem C17_failed_message_routed {retries : Nat} (hr : 1 ≤ retries) (shards : List (List (Nat × Int) × Cache × List Ev))
    (req : List (Nat × Int)) (e : Nat × Msg)
    (he : e ∈ (updatePoints (shards.map fun s => ⟨s.1, routedUp retries s.2.1 s.2.2⟩) req).failed) :
    e.2 = Msg.notFound ↔ ∀ s ∈ shards, (routeFrom retries s.2.1 s.2.2).st.answeredOk = 1 := by
  rw [C17_failed_message _ req e he]
  constructor
  · intro h s hs
    have := h ⟨s.1, routedUp retries s.2.1 s.2.2⟩ (List.mem_map.mpr ⟨s, hs, rfl⟩)
    exact (C17_routed_up hr _ _).mp this
  · intro h sh hsh
    obtain ⟨s, hs, rfl⟩ := List.mem_map.mp hsh
    exact (C17_routed_up hr _ _).mpr (h s hs)

/-- the delete form of `C17_failed_message` -/
theorem C17_failed_message_delete (col : Coll) (ids : List Nat) (e : Nat × Msg) (he : e ∈ (deletePoints col ids).failed) :
    (e.2 = Msg.notFound ↔ ∀ sh ∈ col, sh.up = true) := by
  rw [C17_failed_delete] at he
  obtain ⟨i, _, rfl⟩ := List.mem_map.mp he
  by_cases h : col.all (·.up) = true
  · simp only [h, if_true, true_iff]; simpa using h
  · simp only [h, Bool.false_eq_true, if_false]
    constructor
    · intro e; cases e
    · intro hall; exact absurd (by simpa using hall) h

/-- … and for delete -/
theorem C17_failed_message_routed_delete {retries : Nat} (hr : 1 ≤ retries) (shards : List (List (Nat × Int) × Cache × List Ev))
    (ids : List Nat) (e : Nat × Msg)
    (he : e ∈ (deletePoints (shards.map fun s => ⟨s.1, routedUp retries s.2.1 s.2.2⟩) ids).failed) :
    e.2 = Msg.notFound ↔ ∀ s ∈ shards, (routeFrom retries s.2.1 s.2.2).st.answeredOk = 1 := by
  rw [C17_failed_message_delete _ ids e he]
  constructor
  · intro h s hs
    have := h ⟨s.1, routedUp retries s.2.1 s.2.2⟩ (List.mem_map.mpr ⟨s, hs, rfl⟩)
    exact (C17_routed_up hr _ _).mp this
  · intro h sh hsh
    obtain ⟨s, hs, rfl⟩ := List.mem_map.mp hsh
    exact (C17_routed_up hr _ _).mpr (h s hs)

/-- a search whose per-shard calls are routed returns results only if every shard's server was
reached and answered -/
theorem C17_search_routed {α} {retries : Nat} (hr : 1 ≤ retries) (sort : List α → List α) (heur : Nat → Nat → Nat) (maxLimit : Nat)
    (shards : List (List α × Cache × List Ev)) (limit offset : Nat) (r : List α)
    (h : searchPoints sort heur maxLimit (shards.map fun s => if routedUp retries s.2.1 s.2.2 then some s.1 else none) limit offset = some r) :
    ∀ s ∈ shards, (routeFrom retries s.2.1 s.2.2).st.answeredOk = 1 := by
  intro s hs
  rw [← C17_routed_up hr]
  cases hup : routedUp retries s.2.1 s.2.2
  · exfalso
    have hn : (none : Option (List α)) ∈ shards.map fun s => if routedUp retries s.2.1 s.2.2 then some s.1 else none :=
      List.mem_map.mpr ⟨s, hs, by simp [hup]⟩
    rw [C17_search_unavailable sort heur maxLimit _ limit offset hn] at h
    cases h
  · rfl

-- non-vacuity: the server hangs on the first attempt, its connection dies during the back-off, the
-- re-dial succeeds (retries = 2): one request lost, one answered
example : routeFrom 2 .live [⟨false, false, .timeout⟩, ⟨true, false, .ok⟩, ⟨false, true, .ok⟩] =
    ⟨.ret none, { i := 1, retryErr := none, cache := .live, dials := 1, answeredOk := 1, answeredErr := 0, lost := 1 }⟩ := by decide
-- … and the server stays away: the error of the failed dial is returned
example : (routeFrom 2 .live [⟨false, false, .timeout⟩, ⟨true, false, .ok⟩, ⟨false, false, .ok⟩]).res = .ret (some .dial) := by decide
-- a stale cached client with a single attempt configured: evicted without counting, then the real attempt
example : (routeFrom 1 .live [⟨true, false, .ok⟩, ⟨false, true, .ok⟩]).res = .ret none ∧
    (routeFrom 1 .live [⟨true, false, .ok⟩, ⟨false, false, .ok⟩]).res = .ret (some .dial) := by decide

end Sema.C17
