/-
C17 — decidable equality (and `Repr`) for C06's value type `Sema.C06.Val`, a nested inductive for which `deriving
DecidableEq` has no handler: a boolean equality by structural recursion, proved to be equality.  Needed because
results (`Hit`) now carry their decoded data and `SemaModel/ClusterCompose` derives `DecidableEq` / `Repr` for
responses that contain results.  Core-only (linked into the driver).
-/
import SemaModel.C06.Model
namespace Sema.C17.ValEq
open Sema.C06

mutual
def vbeq : Val → Val → Bool
  | .nil, .nil => true
  | .bool x, .bool y => x == y
  | .int w v, .int w' v' => w == w' && v == v'
  | .uint w v, .uint w' v' => w == w' && v == v'
  | .f32 x, .f32 y => x == y
  | .f64 x, .f64 y => x == y
  | .str x, .str y => x == y
  | .bin x, .bin y => x == y
  | .arr l, .arr l' => vbeqList l l'
  | .map m, .map m' => vbeqFields m m'
  | _, _ => false
def vbeqList : List Val → List Val → Bool
  | [], [] => true
  | a :: l, b :: l' => vbeq a b && vbeqList l l'
  | _, _ => false
def vbeqFields : List (String × Val) → List (String × Val) → Bool
  | [], [] => true
  | (k, a) :: l, (k', b) :: l' => k == k' && vbeq a b && vbeqFields l l'
  | _, _ => false
end

mutual
theorem vbeq_refl : (a : Val) → vbeq a a = true
  | .nil => by simp [vbeq]
  | .bool _ => by simp [vbeq]
  | .int _ _ => by simp [vbeq]
  | .uint _ _ => by simp [vbeq]
  | .f32 _ => by simp [vbeq]
  | .f64 _ => by simp [vbeq]
  | .str _ => by simp [vbeq]
  | .bin _ => by simp [vbeq]
  | .arr l => by simp [vbeq, vbeqList_refl l]
  | .map m => by simp [vbeq, vbeqFields_refl m]
theorem vbeqList_refl : (l : List Val) → vbeqList l l = true
  | [] => by simp [vbeqList]
  | a :: l => by simp [vbeqList, vbeq_refl a, vbeqList_refl l]
theorem vbeqFields_refl : (l : List (String × Val)) → vbeqFields l l = true
  | [] => by simp [vbeqFields]
  | (k, a) :: l => by simp [vbeqFields, vbeq_refl a, vbeqFields_refl l]
end

mutual
theorem eq_of_vbeq : (a b : Val) → vbeq a b = true → a = b
  | .arr l, .arr l', h => by simp only [vbeq] at h; rw [eq_of_vbeqList l l' h]
  | .map m, .map m', h => by simp only [vbeq] at h; rw [eq_of_vbeqFields m m' h]
  | .nil, b, h => by cases b <;> simp_all [vbeq]
  | .bool _, b, h => by cases b <;> simp_all [vbeq]
  | .int _ _, b, h => by cases b <;> simp_all [vbeq]
  | .uint _ _, b, h => by cases b <;> simp_all [vbeq]
  | .f32 _, b, h => by cases b <;> simp_all [vbeq]
  | .f64 _, b, h => by cases b <;> simp_all [vbeq]
  | .str _, b, h => by cases b <;> simp_all [vbeq]
  | .bin _, b, h => by cases b <;> simp_all [vbeq]
  | .arr _, .nil, h | .arr _, .bool _, h | .arr _, .int _ _, h | .arr _, .uint _ _, h | .arr _, .f32 _, h | .arr _, .f64 _, h
  | .arr _, .str _, h | .arr _, .bin _, h | .arr _, .map _, h => by simp [vbeq] at h
  | .map _, .nil, h | .map _, .bool _, h | .map _, .int _ _, h | .map _, .uint _ _, h | .map _, .f32 _, h | .map _, .f64 _, h
  | .map _, .str _, h | .map _, .bin _, h | .map _, .arr _, h => by simp [vbeq] at h
theorem eq_of_vbeqList : (a b : List Val) → vbeqList a b = true → a = b
  | [], [], _ => rfl
  | [], _ :: _, h => by simp [vbeqList] at h
  | _ :: _, [], h => by simp [vbeqList] at h
  | a :: l, b :: l', h => by
    simp only [vbeqList, Bool.and_eq_true] at h
    rw [eq_of_vbeq a b h.1, eq_of_vbeqList l l' h.2]
theorem eq_of_vbeqFields : (a b : List (String × Val)) → vbeqFields a b = true → a = b
  | [], [], _ => rfl
  | [], _ :: _, h => by simp [vbeqFields] at h
  | _ :: _, [], h => by simp [vbeqFields] at h
  | (k, a) :: l, (k', b) :: l', h => by
    simp only [vbeqFields, Bool.and_eq_true, beq_iff_eq] at h
    rw [h.1.1, eq_of_vbeq a b h.1.2, eq_of_vbeqFields l l' h.2]
end

instance : DecidableEq Val := fun a b =>
  if h : vbeq a b = true then isTrue (eq_of_vbeq a b h)
  else isFalse (fun e => h (e ▸ vbeq_refl a))

example : (Val.arr [.nil, .int 8 5]) = .arr [.nil, .int 8 5] := by decide
example : (Val.map [("a", .uint 8 200)]) ≠ .map [("a", .uint 8 201)] := by decide
end Sema.C17.ValEq

deriving instance Repr for Sema.C06.Val
