/- C11 invariants, part 8: object names; writtenCaches has one entry per name; the pending registration -/
import SemaModel.C11.Inv7
set_option linter.unusedSimpArgs false
set_option linter.unusedVariables false
namespace Sema.C11

/-- program counters of the new-cache branch at which `use` is the object created for `acc.name` -/
def newObjPC : PC → Bool
  | .nStore | .nRLock | .nObjLock | .nTxLock | .nDropOld | .nRegister => true
  | _ => false

structure InvNames (s : St) : Prop where
  map : ∀ n o, s.map n = some o → (s.objs o).name = n
  wr : ∀ T n o, (n, o) ∈ (s.txs T).written → (s.objs o).name = n
  rem : ∀ t n o, (n, o) ∈ (s.thr t).remaining → (s.objs o).name = n
  ex : ∀ t, exValid (s.thr t).pc = true → (s.objs (s.thr t).existing).name = (s.thr t).acc.name
  nw : ∀ t, newObjPC (s.thr t).pc = true → (s.objs (s.thr t).use).name = (s.thr t).acc.name

set_option maxHeartbeats 1000000 in
theorem step_remaining_sub {s : St} {t : Tid} {c : Choice} {n : Name} {o : ObjId}
    (h : (n, o) ∈ ((step s t c).thr t).remaining) :
    (n, o) ∈ (s.thr t).remaining ∨ ((s.thr t).pc = .cLoop ∧ (n, o) ∈ (s.txs (s.thr t).tx).written) := by
  revert h
  unfold step
  cases hpc : (s.thr t).pc <;> step_auto <;> grind [List.mem_of_mem_eraseIdx]

set_option maxHeartbeats 1000000 in
theorem names_ex_self {s : St} {t : Tid} {c : Choice} (hv : s.v = fixedV)
    (hbm : ∀ n o, s.map n = some o → o < s.nObj)
    (hbe : exValid (s.thr t).pc = true → (s.thr t).existing < s.nObj)
    (hm : ∀ n o, s.map n = some o → (s.objs o).name = n)
    (h : exValid (s.thr t).pc = true → (s.objs (s.thr t).existing).name = (s.thr t).acc.name) :
    exValid ((step s t c).thr t).pc = true →
      ((step s t c).objs ((step s t c).thr t).existing).name = ((step s t c).thr t).acc.name := by
  unfold step
  cases hpc : (s.thr t).pc <;> simp only [hpc, exValid] at h hbe <;> step_auto <;> grind [exValid]

set_option maxHeartbeats 1000000 in
theorem names_nw_self {s : St} {t : Tid} {c : Choice} (hv : s.v = fixedV)
    (hbu : useValid (s.thr t).pc = true → (s.thr t).use < s.nObj)
    (h : newObjPC (s.thr t).pc = true → (s.objs (s.thr t).use).name = (s.thr t).acc.name) :
    newObjPC ((step s t c).thr t).pc = true →
      ((step s t c).objs ((step s t c).thr t).use).name = ((step s t c).thr t).acc.name := by
  unfold step
  cases hpc : (s.thr t).pc <;> simp only [hpc, newObjPC, useValid] at h hbu <;> step_auto <;> grind [newObjPC]

theorem newObjPC_useValid {p : PC} (h : newObjPC p = true) : useValid p = true := by
  cases p <;> simp_all [newObjPC, useValid]

theorem InvNames_step {s : St} {t : Tid} {c : Choice} (hk : InvKind s) (hb : InvBounds s) (h : InvNames s) :
    InvNames (step s t c) := by
  have hv := hk.v
  refine ⟨?_, ?_, ?_, ?_, ?_⟩
  · intro n o hm
    rcases step_map_sub hm with h1 | ⟨h1, h2⟩
    · rw [(step_static (hb.map n o h1)).1]; exact h.map n o h1
    · -- nStore stores `use` under `acc.name`
      subst h2
      have hlt := hb.use t (by simp [h1, useValid])
      rw [(step_static hlt).1, h.nw t (by simp [h1, newObjPC])]
      revert hm
      unfold step
      simp only [h1, stepAt]
      have hne := h.map n (s.thr t).use
      have hnw := h.nw t (by simp [h1, newObjPC])
      split <;> simp [St.setThr, St.setObj, upd] <;> grind
  · intro T n o hm
    rcases step_written_sub hm with h1 | ⟨hT, ⟨h1, h2⟩ | ⟨h1, h2⟩⟩
    · rw [(step_static (hb.wr T n o h1)).1]; exact h.wr T n o h1
    · subst h2
      have hlt := hb.ex t (by simp [h1, exValid])
      rw [(step_static hlt).1, h.ex t (by simp [h1, exValid])]
      revert hm
      unfold step
      simp only [h1, stepAt]
      have hw := h.wr T
      have hn := h.ex t (by simp [h1, exValid])
      simp [St.setThr, St.setTx, upd, hT, mem_aput]
      grind
    · subst h2
      have hlt := hb.use t (by simp [h1, useValid])
      rw [(step_static hlt).1, h.nw t (by simp [h1, newObjPC])]
      revert hm
      unfold step
      simp only [h1, stepAt]
      have hw := h.wr T
      have hn := h.nw t (by simp [h1, newObjPC])
      split <;> simp [St.setThr, St.setTx, St.setObj, upd, hT, mem_aput] <;> grind
  · intro t' n o hm
    by_cases htt : t' = t
    · subst htt
      rcases step_remaining_sub hm with h1 | ⟨_, h1⟩
      · rw [(step_static (hb.rem t' n o h1)).1]; exact h.rem t' n o h1
      · rw [(step_static (hb.wr _ n o h1)).1]; exact h.wr _ n o h1
    · rw [step_thr_ne _ _ _ _ htt] at hm
      rw [(step_static (hb.rem t' n o hm)).1]; exact h.rem t' n o hm
  · intro t'
    by_cases htt : t' = t
    · subst htt; exact names_ex_self hv hb.map (hb.ex t') h.map (h.ex t')
    · rw [step_thr_ne _ _ _ _ htt]; intro he
      rw [(step_static (hb.ex t' he)).1]; exact h.ex t' he
  · intro t'
    by_cases htt : t' = t
    · subst htt; exact names_nw_self hv (hb.use t') (h.nw t')
    · rw [step_thr_ne _ _ _ _ htt]; intro he
      rw [(step_static (hb.use t' (newObjPC_useValid he))).1]; exact h.nw t' he

end Sema.C11
