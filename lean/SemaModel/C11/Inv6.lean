/- C11 invariants, part 6: static ghost fields; publication (who may hold a reference to an object) -/
import SemaModel.C11.Inv5
set_option linter.unusedSimpArgs false
set_option linter.unusedVariables false
namespace Sema.C11

set_option maxHeartbeats 1000000 in
/-- name, creator, coldness of an allocated object never change -/
theorem step_static {s : St} {t : Tid} {c : Choice} {o : ObjId} (ho : o < s.nObj) :
    ((step s t c).objs o).name = (s.objs o).name ∧ ((step s t c).objs o).creator = (s.objs o).creator ∧
    ((step s t c).objs o).cold = (s.objs o).cold := by
  unfold step
  cases hpc : (s.thr t).pc <;> step_auto <;> grind

/-- may thread `t` hold a reference to `o`: the object is published, or `t` created it -/
def Vis (s : St) (t : Tid) (o : ObjId) : Prop := (s.objs o).pub = true ∨ (s.objs o).creator = t

/-- program counters of the new-cache branch at which the fresh object is still private to its creator -/
def newPriv : PC → Bool
  | .nStore | .nRLock | .nObjLock | .nTxLock | .nDropOld | .nRegister => true
  | _ => false

/-- program counters of the new-cache branch after the object has been put into the map -/
def newLate : PC → Bool
  | .nRLock | .nObjLock | .nTxLock | .nDropOld | .nRegister | .nTxUnlock | .nMgrUnlock => true
  | _ => false

theorem newLate_holdsMgr {p : PC} (h : newLate p = true) : holdsMgr p = true := by
  cases p <;> simp_all [newLate, holdsMgr]

structure InvPub (s : St) : Prop where
  ex : ∀ t, exValid (s.thr t).pc = true → (s.objs (s.thr t).existing).pub = true
  use : ∀ t, useValid (s.thr t).pc = true → Vis s t (s.thr t).use
  df : ∀ t o, Defer.runlock o ∈ (s.thr t).defers → Vis s t o
  rem : ∀ t n o, (n, o) ∈ (s.thr t).remaining → (s.objs o).pub = true
  map : ∀ n o, s.map n = some o → (s.objs o).pub = true ∨
    (newLate (s.thr (s.objs o).creator).pc = true ∧ (s.thr (s.objs o).creator).use = o)
  wr : ∀ T n o, (n, o) ∈ (s.txs T).written → (s.objs o).pub = true ∨
    ((s.thr (s.objs o).creator).pc = .nTxUnlock ∧ (s.thr (s.objs o).creator).use = o ∧ (s.thr (s.objs o).creator).tx = T)
  priv : ∀ t, newPriv (s.thr t).pc = true →
    (s.objs (s.thr t).use).creator = t ∧ (s.objs (s.thr t).use).pub = false ∧ (s.objs (s.thr t).use).cold = false
  late : ∀ t, ((s.thr t).pc = .nTxUnlock ∨ (s.thr t).pc = .nMgrUnlock) →
    (s.objs (s.thr t).use).creator = t ∧ (s.objs (s.thr t).use).cold = false
  cold : ∀ o, o < s.nObj → (s.objs o).cold = true → (s.objs o).pub = false

set_option maxHeartbeats 1000000 in
theorem step_pub_mono {s : St} {t : Tid} {c : Choice} {o : ObjId} (ho : o < s.nObj) (hp : (s.objs o).pub = true) :
    ((step s t c).objs o).pub = true := by
  unfold step
  cases hpc : (s.thr t).pc <;> step_auto <;> grind

theorem step_vis_mono {s : St} {t t' : Tid} {c : Choice} {o : ObjId} (ho : o < s.nObj) (hp : Vis s t' o) :
    Vis (step s t c) t' o := by
  unfold Vis at *
  rcases hp with hp | hp
  · exact Or.inl (step_pub_mono ho hp)
  · exact Or.inr (by rw [(step_static ho).2.1]; exact hp)

/-- whoever holds the manager mutex outside the new-cache branch sees only published objects in the map -/
theorem map_pub_of_holder {s : St} {t : Tid} (hm : InvMgr s)
    (hmap : ∀ n o, s.map n = some o → (s.objs o).pub = true ∨
      (newLate (s.thr (s.objs o).creator).pc = true ∧ (s.thr (s.objs o).creator).use = o))
    (hmg : s.mgr = some t) (hnl : newLate (s.thr t).pc = false) :
    ∀ n o, s.map n = some o → (s.objs o).pub = true := by
  intro n o hmo
  rcases hmap n o hmo with h | ⟨h1, _⟩
  · exact h
  · have := (hm _).mpr (newLate_holdsMgr h1)
    rw [hmg] at this
    injection this with e
    rw [← e] at h1
    rw [h1] at hnl
    exact absurd hnl (by simp)

set_option maxHeartbeats 1000000 in
theorem pub_ex_self {s : St} {t : Tid} {c : Choice} (hv : s.v = fixedV) (hm : InvMgr s)
    (hb : ∀ n o, s.map n = some o → o < s.nObj)
    (hbe : exValid (s.thr t).pc = true → (s.thr t).existing < s.nObj)
    (hmap : ∀ n o, s.map n = some o → (s.objs o).pub = true ∨
      (newLate (s.thr (s.objs o).creator).pc = true ∧ (s.thr (s.objs o).creator).use = o))
    (h : exValid (s.thr t).pc = true → (s.objs (s.thr t).existing).pub = true) :
    exValid ((step s t c).thr t).pc = true → ((step s t c).objs ((step s t c).thr t).existing).pub = true := by
  have hmt := hm t
  have hlk := map_pub_of_holder (t := t) hm hmap
  unfold step
  cases hpc : (s.thr t).pc <;> simp only [hpc, exValid] at h hbe <;> simp only [hpc, holdsMgr, newLate] at hmt hlk <;>
    step_auto <;> grind [exValid]

theorem holdsTx_nTxUnlock {th : Thread} (h : th.pc = .nTxUnlock) : holdsTx th = true := by
  simp [holdsTx, h]

/-- whoever holds the transaction mutex (and is not about to release it after registering) sees only
published objects in `writtenCaches` -/
theorem wr_pub_of_holder {s : St} {t : Tid} {T : TxId} (htx : InvTx s)
    (hwr : ∀ n o, (n, o) ∈ (s.txs T).written → (s.objs o).pub = true ∨
      ((s.thr (s.objs o).creator).pc = .nTxUnlock ∧ (s.thr (s.objs o).creator).use = o ∧ (s.thr (s.objs o).creator).tx = T))
    (hmu : (s.txs T).mu = some t) (hpc : (s.thr t).pc ≠ .nTxUnlock) :
    ∀ n o, (n, o) ∈ (s.txs T).written → (s.objs o).pub = true := by
  intro n o hmo
  rcases hwr n o hmo with h | ⟨h1, _, h3⟩
  · exact h
  · have := (htx T _).mpr ⟨h3, holdsTx_nTxUnlock h1⟩
    rw [hmu] at this
    injection this with e
    rw [← e] at h1
    exact absurd h1 hpc

set_option maxHeartbeats 1000000 in
theorem pub_use_self {s : St} {t : Tid} {c : Choice} (hv : s.v = fixedV) (hm : InvMgr s) (htx : InvTx s)
    (hb : InvBounds s) (h : InvPub s) :
    useValid ((step s t c).thr t).pc = true → Vis (step s t c) t ((step s t c).thr t).use := by
  have hmt := hm t
  have hlk := map_pub_of_holder (t := t) hm h.map
  have hwk := wr_pub_of_holder (t := t) (T := (s.thr t).tx) htx (h.wr _)
  have htt := htx (s.thr t).tx t
  have hu := h.use t
  have hbu := hb.use t
  have hbm := hb.map
  have hbw := hb.wr (s.thr t).tx
  clear h hb
  unfold Vis at *
  unfold step
  cases hpc : (s.thr t).pc <;> simp only [hpc, useValid] at hu hbu <;>
    simp only [hpc, holdsMgr, newLate, holdsTx] at hmt hlk hwk htt <;>
    step_auto <;> grind [useValid, → aget_mem]

set_option maxHeartbeats 1000000 in
/-- where a deferred RUnlock comes from -/
theorem step_defers_sub {s : St} {t : Tid} {c : Choice} {o : ObjId}
    (h : Defer.runlock o ∈ ((step s t c).thr t).defers) :
    Defer.runlock o ∈ (s.thr t).defers ∨ ((s.thr t).pc = .rTryRLock ∧ o = (s.thr t).existing) ∨
      ((s.thr t).pc = .nRLock ∧ o = (s.thr t).use) := by
  revert h
  unfold step
  cases hpc : (s.thr t).pc <;> step_auto <;> grind [List.mem_of_mem_tail]

theorem pub_df_self {s : St} {t : Tid} {c : Choice} (hb : InvBounds s) (h : InvPub s) :
    ∀ o, Defer.runlock o ∈ ((step s t c).thr t).defers → Vis (step s t c) t o := by
  intro o ho
  rcases step_defers_sub ho with h1 | ⟨h1, h2⟩ | ⟨h1, h2⟩
  · exact step_vis_mono (hb.df t o h1) (h.df t o h1)
  · subst h2
    exact step_vis_mono (hb.ex t (by simp [h1, exValid])) (Or.inl (h.ex t (by simp [h1, exValid])))
  · subst h2
    exact step_vis_mono (hb.use t (by simp [h1, useValid])) (h.use t (by simp [h1, useValid]))

set_option maxHeartbeats 1000000 in
theorem pub_rem_self {s : St} {t : Tid} {c : Choice} (hv : s.v = fixedV) (htx : InvTx s) (hb : InvBounds s) (h : InvPub s) :
    ∀ n o, (n, o) ∈ ((step s t c).thr t).remaining → ((step s t c).objs o).pub = true := by
  intro n o
  have hwk := wr_pub_of_holder (t := t) (T := (s.thr t).tx) htx (h.wr _)
  have htt := htx (s.thr t).tx t
  have hr := h.rem t
  have hbr := hb.rem t
  have hbw := hb.wr (s.thr t).tx
  clear h hb
  unfold step
  cases hpc : (s.thr t).pc <;> simp only [hpc, holdsTx] at hwk htt <;>
    step_auto <;> grind [List.mem_of_mem_eraseIdx]

set_option maxHeartbeats 1000000 in
/-- where a map entry comes from -/
theorem step_map_sub {s : St} {t : Tid} {c : Choice} {n : Name} {o : ObjId} (h : (step s t c).map n = some o) :
    s.map n = some o ∨ ((s.thr t).pc = .nStore ∧ o = (s.thr t).use) := by
  revert h
  unfold step
  cases hpc : (s.thr t).pc <;> step_auto <;> grind

set_option maxHeartbeats 1000000 in
/-- a goroutine inside the new-cache branch stays there with the same object, or publishes it -/
theorem late_progress {s : St} {t : Tid} {c : Choice} (hv : s.v = fixedV) (h : newLate (s.thr t).pc = true) :
    (newLate ((step s t c).thr t).pc = true ∧ ((step s t c).thr t).use = (s.thr t).use) ∨
      ((step s t c).objs (s.thr t).use).pub = true := by
  revert h
  unfold step
  cases hpc : (s.thr t).pc <;> step_auto <;> grind [newLate]

theorem pub_map_step {s : St} {t : Tid} {c : Choice} (hv : s.v = fixedV) (hb : InvBounds s) (h : InvPub s) :
    ∀ n o, (step s t c).map n = some o → ((step s t c).objs o).pub = true ∨
      (newLate ((step s t c).thr ((step s t c).objs o).creator).pc = true ∧
        ((step s t c).thr ((step s t c).objs o).creator).use = o) := by
  intro n o hm
  rcases step_map_sub hm with h1 | ⟨h1, h2⟩
  · have hlt := hb.map n o h1
    rw [(step_static hlt).2.1]
    rcases h.map n o h1 with h2 | ⟨h2, h3⟩
    · exact Or.inl (step_pub_mono hlt h2)
    · by_cases hc : (s.objs o).creator = t
      · rw [hc] at h2 h3 ⊢
        rcases late_progress (c := c) hv h2 with ⟨h4, h5⟩ | h4
        · exact Or.inr ⟨h4, by rw [h5, h3]⟩
        · rw [h3] at h4; exact Or.inl h4
      · rw [step_thr_ne _ _ _ _ hc]; exact Or.inr ⟨h2, h3⟩
  · subst h2
    have hlt := hb.use t (by simp [h1, useValid])
    have hp := h.priv t (by simp [h1, newPriv])
    rw [(step_static hlt).2.1, hp.1]
    have hst : newLate ((step s t c).thr t).pc = true ∧ ((step s t c).thr t).use = (s.thr t).use := by
      by_cases hro : (s.thr t).acc.ro = true <;> by_cases hms : s.maxSize = 0 <;>
        simp [step, h1, stepAt, St.setThr, St.setObj, newLate, hro, hms]
    exact Or.inr hst

end Sema.C11
