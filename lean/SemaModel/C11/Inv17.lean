/- C11 invariants, part 17: where the object handed to a callback comes from -/
import SemaModel.C11.Inv16
set_option linter.unusedSimpArgs false
set_option linter.unusedVariables false
namespace Sema.C11

/-- the callback is about to run / runs / has just failed on `use` -/
def postCheck : PC → Bool
  | .callF | .inF | .fScrap => true
  | _ => false

/-- new-cache branch after the lock on the fresh object has been taken and registered -/
def newHeld : PC → Bool
  | .nTxUnlock | .nMgrUnlock => true
  | _ => false

/-- `use` has been chosen but the scrapped flag not yet checked -/
def preCheck (th : Thread) : Bool :=
  match th.pc with
  | .xTxUnlock | .chkScrapped | .sCreate => true
  | .rTxUnlock => th.ok
  | _ => false

/-- `use` is still the object found in the map -/
def sameEx (th : Thread) : Bool :=
  match th.pc with
  | .exMgrUnlock | .rTxLock | .rCheckWritten | .rTryRLock | .xCheckWritten | .xObjLock | .xRegister => true
  | .rTxUnlock => !th.ok
  | _ => false

/-- how the thread is entitled to `use`: its own cold copy, a read lock it holds, or the write lock of
its transaction -/
def Src (s : St) (t : Tid) : Prop :=
  (s.objs (s.thr t).use).cold = true ∨ Defer.runlock (s.thr t).use ∈ (s.thr t).defers ∨
    ((s.thr t).acc.name, (s.thr t).use) ∈ (s.txs (s.thr t).tx).written

structure InvUse (s : St) : Prop where
  same : ∀ t, sameEx (s.thr t) = true → (s.thr t).use = (s.thr t).existing
  pre : ∀ t, preCheck (s.thr t) = true → Src s t ∨ (s.objs (s.thr t).use).scrapped = true
  post : ∀ t, postCheck (s.thr t).pc = true → Src s t ∨ (s.objs (s.thr t).use).dropped = some (s.thr t).tx
  newh : ∀ t, newHeld (s.thr t).pc = true → Defer.runlock (s.thr t).use ∈ (s.thr t).defers ∨
    ((s.thr t).acc.name, (s.thr t).use) ∈ (s.txs (s.thr t).tx).written
  s2 : ∀ t A, (postCheck (s.thr t).pc = true ∨ newHeld (s.thr t).pc = true) →
    (s.objs (s.thr t).use).dropped = some A → (s.thr t).tx = A

set_option maxHeartbeats 4000000 in
theorem use_self {s : St} {t : Tid} {c : Choice} (hv : s.v = fixedV)
    (hleg : (s.thr t).pc ≠ .xTxLock ∧ (s.thr t).pc ≠ .nTxLock)
    (hbu : useValid (s.thr t).pc = true → (s.thr t).use < s.nObj)
    (hbe : exValid (s.thr t).pc = true → (s.thr t).existing < s.nObj)
    (hbw : ∀ n o, (n, o) ∈ (s.txs (s.thr t).tx).written → o < s.nObj)
    (hdrp : ∀ o, o < s.nObj → (s.objs o).dropped ≠ none → (s.objs o).scrapped = true ∧ (s.objs o).pub = true)
    (hpriv : newPriv (s.thr t).pc = true → (s.objs (s.thr t).use).pub = false)
    (h1 : sameEx (s.thr t) = true → (s.thr t).use = (s.thr t).existing)
    (h2 : preCheck (s.thr t) = true → Src s t ∨ (s.objs (s.thr t).use).scrapped = true)
    (h3 : postCheck (s.thr t).pc = true → Src s t ∨ (s.objs (s.thr t).use).dropped = some (s.thr t).tx)
    (h4 : newHeld (s.thr t).pc = true → Defer.runlock (s.thr t).use ∈ (s.thr t).defers ∨
      ((s.thr t).acc.name, (s.thr t).use) ∈ (s.txs (s.thr t).tx).written)
    (h5 : ∀ A, (postCheck (s.thr t).pc = true ∨ newHeld (s.thr t).pc = true) →
      (s.objs (s.thr t).use).dropped = some A → (s.thr t).tx = A) :
    (sameEx ((step s t c).thr t) = true → ((step s t c).thr t).use = ((step s t c).thr t).existing) ∧
    (preCheck ((step s t c).thr t) = true → Src (step s t c) t ∨ ((step s t c).objs ((step s t c).thr t).use).scrapped = true) ∧
    (postCheck ((step s t c).thr t).pc = true →
      Src (step s t c) t ∨ ((step s t c).objs ((step s t c).thr t).use).dropped = some ((step s t c).thr t).tx) ∧
    (newHeld ((step s t c).thr t).pc = true → Defer.runlock ((step s t c).thr t).use ∈ ((step s t c).thr t).defers ∨
      (((step s t c).thr t).acc.name, ((step s t c).thr t).use) ∈ ((step s t c).txs ((step s t c).thr t).tx).written) ∧
    (∀ A, (postCheck ((step s t c).thr t).pc = true ∨ newHeld ((step s t c).thr t).pc = true) →
      ((step s t c).objs ((step s t c).thr t).use).dropped = some A → ((step s t c).thr t).tx = A) := by
  have hdu := hdrp (s.thr t).use
  unfold Src at *
  unfold step
  cases hpc : (s.thr t).pc <;>
    simp only [hpc, sameEx, preCheck, postCheck, newHeld, newPriv, useValid, exValid] at h1 h2 h3 h4 h5 hbu hbe hpriv hdu hleg <;>
    step_auto <;> grind [sameEx, preCheck, postCheck, newHeld, mem_aput, → aget_mem, List.mem_of_mem_tail]

end Sema.C11
