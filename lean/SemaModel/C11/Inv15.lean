/- C11 invariants, part 15: the database write lock (bbolt's single read-write transaction) -/
import SemaModel.C11.Inv14
set_option linter.unusedSimpArgs false
set_option linter.unusedVariables false
namespace Sema.C11

/-- a `With` call of a writing access is in progress -/
def inWrite (th : Thread) : Bool := th.pc != .idle && !th.acc.ro

structure InvDb (s : St) : Prop where
  /-- a writing access in progress owns the database lock -/
  wr : s.dbLock = true → ∀ i, inWrite (s.thr (.w i)) = true → s.dbw = some (s.thr (.w i)).tx
  /-- a transaction that has registered caches and has not started Commit owns the database lock -/
  reg : s.dbLock = true → ∀ T, (s.thr (.c T)).pc = .cWait → (s.txs T).written ≠ [] → s.dbw = some T

set_option maxHeartbeats 2000000 in
theorem db_wr_self {s : St} {i : Nat} {c : Choice} (hv : s.v = fixedV) (hdb : s.dbLock = true)
    (hwk : isCommitPC (s.thr (.w i)).pc = false)
    (h : inWrite (s.thr (.w i)) = true → s.dbw = some (s.thr (.w i)).tx) :
    inWrite ((step s (.w i) c).thr (.w i)) = true → (step s (.w i) c).dbw = some ((step s (.w i) c).thr (.w i)).tx := by
  unfold inWrite at *
  unfold step
  cases hpc : (s.thr (.w i)).pc <;> simp only [hpc, isCommitPC] at hwk h <;> step_auto <;> grind

set_option maxHeartbeats 2000000 in
/-- how the database lock changes -/
theorem step_dbw {s : St} {t : Tid} {c : Choice} :
    (step s t c).dbw = s.dbw ∨
    ((s.thr t).pc = .idle ∧ (step s t c).dbw = some (s.thr t).tx ∧ ∃ a r, (s.thr t).todo = a :: r ∧ a.ro = false) ∨
    ((s.thr t).pc = .cWait ∧ s.dbw = some (s.thr t).tx ∧ (step s t c).dbw = none) := by
  unfold step
  cases hpc : (s.thr t).pc <;> step_auto <;> grind

end Sema.C11
