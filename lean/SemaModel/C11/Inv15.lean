/- C11 invariants, part 15: the database write lock (bbolt's single read-write transaction) -/
import SemaModel.C11.Inv14
set_option linter.unusedSimpArgs false
set_option linter.unusedVariables false
namespace Sema.C11

/-- a `With` call of a writing access is in progress -/
def inWrite (th : Thread) : Bool := th.pc != .idle && !th.acc.ro

structure InvDb (s : St) : Prop where
  /-- a writing access in progress owns the database lock -/
  wr : s.dbLock = true → ∀ i, inWrite (s.thr (.w i)) = true → s.dbw = some (s.thr (.w i)).tx
  /-- a transaction that has registered caches and has not started Commit owns the database lock -/
  reg : s.dbLock = true → ∀ T, (s.thr (.c T)).pc = .cWait → (s.txs T).written ≠ [] → s.dbw = some T

set_option maxHeartbeats 2000000 in
theorem db_wr_self {s : St} {i : Nat} {c : Choice} (hv : s.v = fixedV) (hdb : s.dbLock = true)
    (hwk : isCommitPC (s.thr (.w i)).pc = false)
    (h : inWrite (s.thr (.w i)) = true → s.dbw = some (s.thr (.w i)).tx) :
    inWrite ((step s (.w i) c).thr (.w i)) = true → (step s (.w i) c).dbw = some ((step s (.w i) c).thr (.w i)).tx := by
  unfold inWrite at *
  unfold step
  cases hpc : (s.thr (.w i)).pc <;> simp only [hpc, isCommitPC] at hwk h <;> step_auto <;> grind

set_option maxHeartbeats 2000000 in
/-- how the database lock changes -/
theorem step_dbw {s : St} {t : Tid} {c : Choice} :
    (step s t c).dbw = s.dbw ∨
    ((s.thr t).pc = .idle ∧ (step s t c).dbw = some (s.thr t).tx ∧ ∃ a r, (s.thr t).todo = a :: r ∧ a.ro = false) ∨
    ((s.thr t).pc = .cWait ∧ s.dbw = some (s.thr t).tx ∧ (step s t c).dbw = none) := by
  unfold step
  cases hpc : (s.thr t).pc <;> step_auto <;> grind

theorem inWrite_not_done {th : Thread} (h : inWrite th = true) (hw : isCommitPC th.pc = false) : th.done = false := by
  unfold inWrite at h
  unfold Thread.done
  cases hp : th.pc <;> simp_all [isCommitPC]

theorem written_ne_nil_of_step {s : St} {t : Tid} {c : Choice} {T : TxId} (hv : s.v = fixedV)
    (h : ((step s t c).txs T).written ≠ []) :
    (s.txs T).written ≠ [] ∨ ((s.thr t).tx = T ∧ ((s.thr t).pc = .xRegister ∨ (s.thr t).pc = .nRegister)) := by
  by_cases h0 : (s.txs T).written = []
  · right
    cases hw : ((step s t c).txs T).written with
    | nil => exact absurd hw h
    | cons e r =>
      obtain ⟨n, o⟩ := e
      have hm : (n, o) ∈ ((step s t c).txs T).written := by rw [hw]; simp
      rcases step_written_sub hm with h1 | ⟨hT, h1 | h1⟩
      · rw [h0] at h1; simp at h1
      · exact ⟨hT, Or.inl h1.1⟩
      · exact ⟨hT, Or.inr h1.1⟩
  · exact Or.inl h0

theorem InvDb_step {s : St} {t : Tid} {c : Choice} (h : Inv s) (ho : InvOut s) (hd : InvDb s) (he : enabled s t = true) :
    InvDb (step s t c) := by
  have hv := h.kind.v
  have hc := step_const s t c
  refine ⟨?_, ?_⟩
  · intro hdb i hi
    rw [hc.2.2.2.2] at hdb
    by_cases hti : Tid.w i = t
    · subst hti; exact db_wr_self hv hdb (h.kind.w i) (hd.wr hdb i) hi
    · rw [step_thr_ne _ _ _ _ hti] at hi ⊢
      have hpre := hd.wr hdb i hi
      rcases step_dbw (s := s) (t := t) (c := c) with h1 | ⟨h1, h2, a, r, h3, h4⟩ | ⟨h1, h2, h3⟩
      · rw [h1]; exact hpre
      · -- another writing access starts: it needed the lock, which `w i` owns
        rw [h2]
        unfold enabled at he
        simp [h1, h3, h4, hdb, hpre] at he
        rw [he.2]
      · -- Commit of the owner starts: all its goroutines are done
        exfalso
        cases t with
        | w j => have := h.kind.w j; simp [h1, isCommitPC] at this
        | c T =>
          have hT := (h.kind.c T).2
          rw [hT] at h2
          rw [hpre] at h2; injection h2 with h2
          unfold enabled at he
          simp [h1, hT] at he
          have := joined_spec he.2 h.kind i h2
          rw [inWrite_not_done hi (h.kind.w i)] at this; exact absurd this (by simp)
  · intro hdb T hT hw
    rw [hc.2.2.2.2] at hdb
    have hpcT : (s.thr (.c T)).pc = .cWait := by
      by_cases htt : Tid.c T = t
      · subst htt
        -- the committer's own step from cWait leaves cWait
        have hcp := (h.kind.c T).1
        revert hT
        unfold step
        cases hpc : (s.thr (.c T)).pc <;> simp only [hpc, isCommitPC] at hcp <;> step_auto
      · rw [step_thr_ne _ _ _ _ htt] at hT; exact hT
    have hne : Tid.c T ≠ t := by
      intro e; subst e
      revert hT
      unfold step
      simp [hpcT, stepAt, St.setThr]
    rcases written_ne_nil_of_step hv hw with h1 | ⟨h1, h2⟩
    · have hpre := hd.reg hdb T hpcT h1
      rcases step_dbw (s := s) (t := t) (c := c) with h3 | ⟨h3, h4, a, r, h5, h6⟩ | ⟨h3, h4, h5⟩
      · rw [h3]; exact hpre
      · rw [h4]
        unfold enabled at he
        simp [h3, h5, h6, hdb, hpre] at he
        rw [he.2]
      · exfalso
        cases t with
        | w j => have := h.kind.w j; simp [h3, isCommitPC] at this
        | c T' =>
          have hT' := (h.kind.c T').2
          rw [hT', hpre] at h4; injection h4 with h4
          exact hne (by rw [h4])
    · -- the registering goroutine is a writing access in progress of T
      cases t with
      | c T' => have := (h.kind.c T').1; rcases h2 with h2 | h2 <;> simp [h2, isCommitPC] at this
      | w j =>
        have hrw := h.kind.rw (.w j) (by rcases h2 with h2 | h2 <;> simp [h2, rwPC])
        have hiw : inWrite (s.thr (.w j)) = true := by
          unfold inWrite; rcases h2 with h2 | h2 <;> simp [h2, hrw]
        have hpre := hd.wr hdb j hiw
        rw [h1] at hpre
        rcases step_dbw (s := s) (t := .w j) (c := c) with h3 | ⟨h3, _⟩ | ⟨h3, _⟩
        · rw [h3]; exact hpre
        · rcases h2 with h2 | h2 <;> simp [h2] at h3
        · rcases h2 with h2 | h2 <;> simp [h2] at h3

theorem InvDb_init {s : St} (hi : Init s) : InvDb s := by
  refine ⟨?_, ?_⟩
  · intro _ i h; simp [inWrite, (hi.thrW i).1] at h
  · intro _ T _ h; exact absurd (hi.txs T).1 h

theorem InvDb_evict {s : St} (ns : List Name) (h : InvDb s) : InvDb (evict s ns) := ⟨h.wr, h.reg⟩

theorem inv_reachable_db {s0 s : St} (hi : Init s0) (hv : s0.v = fixedV) (hr : Reachable s0 s) :
    Inv s ∧ InvOut s ∧ InvDb s := by
  induction hr with
  | init => exact ⟨Inv_init hi hv, InvOut_init hi, InvDb_init hi⟩
  | step t c _ he ih => exact ⟨Inv_step ih.1 he, InvOut_step ih.1 ih.2.1 he, InvDb_step ih.1 ih.2.1 ih.2.2 he⟩
  | evict ns _ ih => exact ⟨Inv_evict ns ih.1, InvOut_evict ns ih.2.1, InvDb_evict ns ih.2.2⟩

end Sema.C11
