/- C11 invariants, part 9: one entry per name in writtenCaches; no entry yet where the code registers one;
   the Commit loop works on a snapshot of writtenCaches; the pending registration -/
import SemaModel.C11.Inv8
set_option linter.unusedSimpArgs false
set_option linter.unusedVariables false
namespace Sema.C11

def keysNodup (l : List (Name × ObjId)) : Prop := (l.map Prod.fst).Nodup

theorem aget_none_iff {l : List (Name × ObjId)} {n : Name} : aget l n = none ↔ ∀ o, (n, o) ∉ l := by
  induction l with
  | nil => simp [aget]
  | cons p r ih =>
    obtain ⟨k, v⟩ := p
    unfold aget
    by_cases hk : k = n
    · subst hk; simp
      exact ⟨v, fun h => absurd rfl h⟩
    · have hk' : ¬ n = k := fun e => hk e.symm
      simp [hk, ih, hk']

theorem keysNodup_aput {l : List (Name × ObjId)} (n : Name) (o : ObjId) (h : keysNodup l) : keysNodup (aput l n o) := by
  unfold keysNodup aput at *
  simp only [List.map_cons, List.nodup_cons]
  constructor
  · simp [List.mem_map, List.mem_filter]
  · exact List.Nodup.sublist (List.Sublist.map _ List.filter_sublist) h

theorem keysNodup_filter {l : List (Name × ObjId)} (p : Name × ObjId → Bool) (h : keysNodup l) : keysNodup (l.filter p) := by
  unfold keysNodup at *
  exact List.Nodup.sublist (List.Sublist.map _ List.filter_sublist) h

theorem keysNodup_eraseIdx {l : List (Name × ObjId)} (k : Nat) (h : keysNodup l) : keysNodup (l.eraseIdx k) := by
  unfold keysNodup at *
  exact List.Nodup.sublist (List.Sublist.map _ (List.eraseIdx_sublist ..)) h

/-- with one entry per name, membership is lookup -/
theorem mem_iff_aget {l : List (Name × ObjId)} (h : keysNodup l) {n : Name} {o : ObjId} :
    (n, o) ∈ l ↔ aget l n = some o := by
  constructor
  · intro hm
    induction l with
    | nil => simp at hm
    | cons p r ih =>
      obtain ⟨k, v⟩ := p
      unfold keysNodup at h
      simp only [List.map_cons, List.nodup_cons] at h
      unfold aget
      rcases List.mem_cons.mp hm with e | e
      · injection e with e1 e2; subst e1; subst e2; simp
      · have hk : ¬ k = n := by
          intro e'; subst e'
          exact h.1 (List.mem_map.mpr ⟨(k, o), e, rfl⟩)
        simp [hk]; exact ih h.2 e
  · exact aget_mem

structure InvKeys (s : St) : Prop where
  wr : ∀ T, keysNodup (s.txs T).written
  rem : ∀ t, keysNodup (s.thr t).remaining

set_option maxHeartbeats 1000000 in
theorem keys_wr_step {s : St} {t : Tid} {c : Choice} (T : TxId) (h : keysNodup (s.txs T).written) :
    keysNodup ((step s t c).txs T).written := by
  have h1 := fun n o => keysNodup_aput n o h
  have h2 := fun p => keysNodup_filter p h
  unfold step
  cases hpc : (s.thr t).pc <;> step_auto <;> grind

set_option maxHeartbeats 1000000 in
theorem keys_rem_self {s : St} {t : Tid} {c : Choice} (hw : keysNodup (s.txs (s.thr t).tx).written)
    (h : keysNodup (s.thr t).remaining) : keysNodup ((step s t c).thr t).remaining := by
  have h1 := fun k => keysNodup_eraseIdx k h
  unfold step
  cases hpc : (s.thr t).pc <;> step_auto

theorem InvKeys_step {s : St} {t : Tid} {c : Choice} (h : InvKeys s) : InvKeys (step s t c) := by
  refine ⟨fun T => keys_wr_step T (h.wr T), ?_⟩
  intro t'
  by_cases htt : t' = t
  · subst htt; exact keys_rem_self (h.wr _) (h.rem t')
  · rw [step_thr_ne _ _ _ _ htt]; exact h.rem t'

/-! ### no entry yet where the code is about to register one -/

def nonePC : PC → Bool
  | .xObjLock | .xRegister | .nRegister => true
  | _ => false

theorem nonePC_holdsTx {th : Thread} (h : nonePC th.pc = true) : holdsTx th = true := by
  unfold holdsTx; cases hp : th.pc <;> simp_all [nonePC]

def InvNone (s : St) : Prop :=
  ∀ t, nonePC (s.thr t).pc = true → aget (s.txs (s.thr t).tx).written (s.thr t).acc.name = none

set_option maxHeartbeats 1000000 in
/-- only the holder of the transaction mutex changes `writtenCaches` -/
theorem step_written_eq {s : St} {t : Tid} {c : Choice} (hv : s.v = fixedV) (T : TxId) :
    ((step s t c).txs T).written = (s.txs T).written ∨ ((s.thr t).tx = T ∧ holdsTx (s.thr t) = true) := by
  unfold step
  cases hpc : (s.thr t).pc <;> step_auto <;> simp_all [holdsTx] <;> grind

set_option maxHeartbeats 1000000 in
theorem none_self {s : St} {t : Tid} {c : Choice} (hv : s.v = fixedV)
    (h : nonePC (s.thr t).pc = true → aget (s.txs (s.thr t).tx).written (s.thr t).acc.name = none) :
    nonePC ((step s t c).thr t).pc = true →
      aget ((step s t c).txs ((step s t c).thr t).tx).written ((step s t c).thr t).acc.name = none := by
  unfold step
  cases hpc : (s.thr t).pc <;> simp only [hpc, nonePC] at h <;> step_auto <;> simp_all [nonePC, aget_filter_ne]

theorem InvNone_step {s : St} {t : Tid} {c : Choice} (hk : InvKind s) (htx : InvTx s) (h : InvNone s) :
    InvNone (step s t c) := by
  intro t'
  by_cases htt : t' = t
  · subst htt; exact none_self hk.v (h t')
  · rw [step_thr_ne _ _ _ _ htt]
    intro hp
    rcases step_written_eq (c := c) hk.v (t := t) (s.thr t').tx with h1 | ⟨h1, h2⟩
    · rw [h1]; exact h t' hp
    · have e1 := (htx (s.thr t').tx t).mpr ⟨h1, h2⟩
      have e2 := (htx (s.thr t').tx t').mpr ⟨rfl, nonePC_holdsTx hp⟩
      rw [e1] at e2; injection e2 with e2; exact absurd e2.symm htt

/-! ### the Commit loop works on a snapshot of writtenCaches -/

def InvRemSub (s : St) : Prop :=
  ∀ T, (s.thr (.c T)).pc = .cEntry → ∀ e, e ∈ (s.thr (.c T)).remaining → e ∈ (s.txs T).written

set_option maxHeartbeats 1000000 in
theorem remsub_self {s : St} {T : TxId} {c : Choice} (hv : s.v = fixedV) (htx : (s.thr (.c T)).tx = T)
    (h : (s.thr (.c T)).pc = .cEntry → ∀ e, e ∈ (s.thr (.c T)).remaining → e ∈ (s.txs T).written) :
    ((step s (.c T) c).thr (.c T)).pc = .cEntry →
      ∀ e, e ∈ ((step s (.c T) c).thr (.c T)).remaining → e ∈ ((step s (.c T) c).txs T).written := by
  unfold step
  cases hpc : (s.thr (.c T)).pc <;> simp only [hpc] at h <;> step_auto <;> grind [List.mem_of_mem_eraseIdx]

theorem cEntry_holdsTx {th : Thread} (h : th.pc = .cEntry) : holdsTx th = true := by simp [holdsTx, h]

theorem InvRemSub_step {s : St} {t : Tid} {c : Choice} (hk : InvKind s) (htx : InvTx s) (h : InvRemSub s) :
    InvRemSub (step s t c) := by
  intro T
  by_cases htt : Tid.c T = t
  · subst htt; exact remsub_self hk.v (hk.c T).2 (h T)
  · rw [step_thr_ne _ _ _ _ htt]
    intro hp e he
    rcases step_written_eq (c := c) hk.v (t := t) T with h1 | ⟨h1, h2⟩
    · rw [h1]; exact h T hp e he
    · have e1 := (htx T t).mpr ⟨h1, h2⟩
      have e2 := (htx T (.c T)).mpr ⟨(hk.c T).2, cEntry_holdsTx hp⟩
      rw [e1] at e2; injection e2 with e2; exact absurd e2.symm htt

end Sema.C11
