/- C11 invariants, part 10: the pending registration; who holds the write lock of an object -/
import SemaModel.C11.Inv9
set_option linter.unusedSimpArgs false
set_option linter.unusedVariables false
namespace Sema.C11

def pendOf (th : Thread) : Option ObjId :=
  match th.pc with
  | .xRegister => some th.existing
  | .nDropOld | .nRegister => some th.use
  | _ => none

def InvPend (s : St) : Prop :=
  ∀ T, (s.txs T).pend = match (s.txs T).mu with | none => none | some u => pendOf (s.thr u)

set_option maxHeartbeats 2000000 in
theorem pend_self {s : St} {t : Tid} {c : Choice} (hv : s.v = fixedV) (hleg : (s.thr t).pc ≠ .xTxLock ∧ (s.thr t).pc ≠ .nTxLock)
    (he : enabled s t = true)
    (htt : (s.txs (s.thr t).tx).mu = some t ↔ holdsTx (s.thr t) = true)
    (h : (s.txs (s.thr t).tx).pend = match (s.txs (s.thr t).tx).mu with | none => none | some u => pendOf (s.thr u)) :
    ((step s t c).txs (s.thr t).tx).pend =
      match ((step s t c).txs (s.thr t).tx).mu with | none => none | some u => pendOf ((step s t c).thr u) := by
  unfold enabled at he
  unfold step
  cases hpc : (s.thr t).pc <;> simp only [hpc, holdsTx] at htt he hleg <;> step_auto <;>
    (try (cases hmu : (s.txs (s.thr t).tx).mu <;> simp_all [pendOf])) <;> grind [pendOf]

theorem InvPend_step {s : St} {t : Tid} {c : Choice} (hk : InvKind s) (htx : InvTx s) (h : InvPend s)
    (he : enabled s t = true) : InvPend (step s t c) := by
  intro T
  by_cases hT : T = (s.thr t).tx
  · subst hT; exact pend_self hk.v (hk.legacy t) he (by have := htx (s.thr t).tx t; simpa using this) (h _)
  · rw [step_txs_ne _ _ _ _ hT]
    have hT' := h T
    cases hmu : (s.txs T).mu with
    | none => simp [hmu] at hT' ⊢; exact hT'
    | some u =>
      have hu : u ≠ t := by
        intro e; subst e
        exact hT ((htx T u).mp hmu).1.symm
      simp only [hmu] at hT' ⊢
      rw [step_thr_ne _ _ _ _ hu]; exact hT'

/-! ### who holds the write lock -/

/-- has `Commit` of the transaction not yet unlocked entry `e` of writtenCaches -/
def stillHeld (cth : Thread) (e : Name × ObjId) : Prop :=
  match cth.pc with
  | .cWait | .cTxLock | .cCheckEmpty | .cMgrLock | .cLoop => True
  | .cEntry => e ∈ cth.remaining
  | _ => False

/-- transaction `T` holds the write lock of `o`: it has just locked it, or it is registered in
writtenCaches and Commit has not released it yet -/
def HeldBy (s : St) (T : TxId) (o : ObjId) : Prop :=
  (s.txs T).pend = some o ∨ (((s.objs o).name, o) ∈ (s.txs T).written ∧ stillHeld (s.thr (.c T)) ((s.objs o).name, o))

def InvW (s : St) : Prop := ∀ o T, o < s.nObj → ((s.objs o).writer = some T ↔ HeldBy s T o)

/-- the steps that touch a write lock, `writtenCaches`, the pending registration, or allocate -/
def wSpecial : PC → Bool
  | .rColdCreate | .sCreate | .nCreate | .xObjLock | .xRegister | .nObjLock | .nDropOld | .nRegister => true
  | _ => false

set_option maxHeartbeats 4000000 in
/-- all other steps of a `With` goroutine leave the write-lock picture alone -/
theorem w_worker_generic {s : St} {t : Tid} {c : Choice} (hv : s.v = fixedV) (hw : InvW s) (hk : InvKind s)
    (hbu : useValid (s.thr t).pc = true → (s.thr t).use < s.nObj)
    (hbe : exValid (s.thr t).pc = true → (s.thr t).existing < s.nObj)
    (hwk : isCommitPC (s.thr t).pc = false) (hsp : wSpecial (s.thr t).pc = false) :
    ∀ o T, o < (step s t c).nObj → (((step s t c).objs o).writer = some T ↔ HeldBy (step s t c) T o) := by
  intro o T
  have hwo := hw o T
  have hct : Tid.c T ≠ t := by
    intro e; subst e; have := (hk.c T).1; simp [this] at hwk
  unfold HeldBy at *
  rw [step_thr_ne _ _ _ _ hct]
  unfold step
  cases hpc : (s.thr t).pc <;> simp only [hpc, isCommitPC, useValid, exValid, wSpecial] at hwk hbu hbe hsp <;>
    step_auto <;> grind

end Sema.C11
