/- C11 invariants, part 4: object ids in use are allocated; read locks = deferred RUnlocks; RW exclusion -/
import SemaModel.C11.Inv3
set_option linter.unusedSimpArgs false
set_option linter.unusedVariables false
namespace Sema.C11

def exValid : PC → Bool
  | .exMgrUnlock | .rTxLock | .rCheckWritten | .rTxUnlock | .rTryRLock | .xTxLock | .xCheckWritten | .xObjLock
  | .xRegister => true
  | _ => false

def useValid : PC → Bool
  | .exMgrUnlock | .rTxLock | .rCheckWritten | .rTxUnlock | .rTryRLock | .rColdCreate | .xTxLock | .xCheckWritten
  | .xObjLock | .nTxLock
  | .xRegister | .xTxUnlock | .chkScrapped | .sCreate | .callF | .inF | .fScrap | .fMgrLock | .fDelete | .fMgrUnlock
  | .nStore | .nRLock | .nObjLock | .nDropOld | .nRegister | .nTxUnlock | .nMgrUnlock => true
  | _ => false

structure InvBounds (s : St) : Prop where
  map : ∀ n o, s.map n = some o → o < s.nObj
  wr : ∀ T n o, (n, o) ∈ (s.txs T).written → o < s.nObj
  rem : ∀ t n o, (n, o) ∈ (s.thr t).remaining → o < s.nObj
  df : ∀ t o, Defer.runlock o ∈ (s.thr t).defers → o < s.nObj
  ex : ∀ t, exValid (s.thr t).pc = true → (s.thr t).existing < s.nObj
  use : ∀ t, useValid (s.thr t).pc = true → (s.thr t).use < s.nObj

theorem step_nObj_mono (s : St) (t : Tid) (c : Choice) : s.nObj ≤ (step s t c).nObj := by
  unfold step
  cases (s.thr t).pc <;> simp only [stepAt] <;> (repeat' split) <;> simp [St.setThr, St.setTx, St.setObj, St.alloc]

theorem getD_mem_of_lt {α} (l : List α) (k : Nat) (d : α) (h : k < l.length) : l.getD k d ∈ l := by
  simp [List.getD_eq_getElem?_getD, List.getElem?_eq_getElem h]

theorem getD_mod_mem {α} (l : List α) (k : Nat) (d : α) (h : l ≠ []) : l.getD (k % l.length) d ∈ l := by
  apply getD_mem_of_lt
  apply Nat.mod_lt
  cases l with
  | nil => exact absurd rfl h
  | cons a r => simp

/-- unfold the step of the current program counter, split its branches, normalise -/
macro "step_auto" : tactic => `(tactic|
  (simp only [stepAt, Thread.popReturn, Thread.doReturn] <;> (repeat' split) <;>
   simp_all [St.setThr, St.setTx, St.setObj, St.alloc, upd, fixedV, pushPrune]))

set_option maxHeartbeats 1000000 in
theorem bounds_map_step {s : St} {t : Tid} {c : Choice} (hv : s.v = fixedV)
    (huse : useValid (s.thr t).pc = true → (s.thr t).use < s.nObj)
    (hm : ∀ n o, s.map n = some o → o < s.nObj) :
    ∀ n o, (step s t c).map n = some o → o < (step s t c).nObj := by
  intro n o
  unfold step
  cases hpc : (s.thr t).pc <;> simp only [hpc, useValid] at huse <;> step_auto <;> grind

set_option maxHeartbeats 1000000 in
theorem bounds_wr_step {s : St} {t : Tid} {c : Choice} (hv : s.v = fixedV)
    (hex : exValid (s.thr t).pc = true → (s.thr t).existing < s.nObj)
    (huse : useValid (s.thr t).pc = true → (s.thr t).use < s.nObj)
    (T : TxId) (hw : ∀ n o, (n, o) ∈ (s.txs T).written → o < s.nObj) :
    ∀ n o, (n, o) ∈ ((step s t c).txs T).written → o < (step s t c).nObj := by
  intro n o
  unfold step
  cases hpc : (s.thr t).pc <;> simp only [hpc, exValid, useValid] at hex huse <;> step_auto <;> grind [mem_aput]

set_option maxHeartbeats 1000000 in
theorem bounds_rem_step {s : St} {t : Tid} {c : Choice} (hv : s.v = fixedV)
    (hw : ∀ n o, (n, o) ∈ (s.txs (s.thr t).tx).written → o < s.nObj)
    (hr : ∀ n o, (n, o) ∈ (s.thr t).remaining → o < s.nObj) :
    ∀ n o, (n, o) ∈ ((step s t c).thr t).remaining → o < (step s t c).nObj := by
  intro n o
  unfold step
  cases hpc : (s.thr t).pc <;> step_auto <;> grind [List.mem_of_mem_eraseIdx]

set_option maxHeartbeats 1000000 in
theorem bounds_df_step {s : St} {t : Tid} {c : Choice} (hv : s.v = fixedV)
    (hex : exValid (s.thr t).pc = true → (s.thr t).existing < s.nObj)
    (huse : useValid (s.thr t).pc = true → (s.thr t).use < s.nObj)
    (hd : ∀ o, Defer.runlock o ∈ (s.thr t).defers → o < s.nObj) :
    ∀ o, Defer.runlock o ∈ ((step s t c).thr t).defers → o < (step s t c).nObj := by
  intro o
  unfold step
  cases hpc : (s.thr t).pc <;> simp only [hpc, exValid, useValid] at hex huse <;> step_auto <;> grind [List.mem_of_mem_tail]

set_option maxHeartbeats 1000000 in
theorem bounds_ex_step {s : St} {t : Tid} {c : Choice} (hv : s.v = fixedV)
    (hm : ∀ n o, s.map n = some o → o < s.nObj)
    (hex : exValid (s.thr t).pc = true → (s.thr t).existing < s.nObj) :
    exValid ((step s t c).thr t).pc = true → ((step s t c).thr t).existing < (step s t c).nObj := by
  unfold step
  cases hpc : (s.thr t).pc <;> simp only [hpc, exValid] at hex <;> step_auto <;> grind [exValid]

set_option maxHeartbeats 1000000 in
theorem bounds_use_step {s : St} {t : Tid} {c : Choice} (hv : s.v = fixedV)
    (hm : ∀ n o, s.map n = some o → o < s.nObj)
    (hw : ∀ n o, (n, o) ∈ (s.txs (s.thr t).tx).written → o < s.nObj)
    (huse : useValid (s.thr t).pc = true → (s.thr t).use < s.nObj) :
    useValid ((step s t c).thr t).pc = true → ((step s t c).thr t).use < (step s t c).nObj := by
  unfold step
  cases hpc : (s.thr t).pc <;> simp only [hpc, useValid] at huse <;> step_auto <;> grind [useValid, → aget_mem]

theorem InvBounds_step {s : St} {t : Tid} {c : Choice} (hk : InvKind s) (h : InvBounds s) :
    InvBounds (step s t c) := by
  have hv := hk.v
  have hmono := step_nObj_mono s t c
  refine ⟨bounds_map_step hv (h.use t) h.map, fun T => bounds_wr_step hv (h.ex t) (h.use t) T (h.wr T), ?_, ?_, ?_, ?_⟩
  · intro t'
    by_cases htt : t' = t
    · subst htt; exact bounds_rem_step hv (h.wr _) (h.rem t')
    · rw [step_thr_ne _ _ _ _ htt]; intro n o hm; exact Nat.lt_of_lt_of_le (h.rem t' n o hm) hmono
  · intro t'
    by_cases htt : t' = t
    · subst htt; exact bounds_df_step hv (h.ex t') (h.use t') (h.df t')
    · rw [step_thr_ne _ _ _ _ htt]; intro o hm; exact Nat.lt_of_lt_of_le (h.df t' o hm) hmono
  · intro t'
    by_cases htt : t' = t
    · subst htt; exact bounds_ex_step hv h.map (h.ex t')
    · rw [step_thr_ne _ _ _ _ htt]; intro hm; exact Nat.lt_of_lt_of_le (h.ex t' hm) hmono
  · intro t'
    by_cases htt : t' = t
    · subst htt; exact bounds_use_step hv h.map (h.wr _) (h.use t')
    · rw [step_thr_ne _ _ _ _ htt]; intro hm; exact Nat.lt_of_lt_of_le (h.use t' hm) hmono

end Sema.C11
