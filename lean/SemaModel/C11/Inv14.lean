/- C11 invariants, part 14: threads and transactions that do not exist; the database write lock;
   initial states; reachable states -/
import SemaModel.C11.Inv13
set_option linter.unusedSimpArgs false
set_option linter.unusedVariables false
namespace Sema.C11

structure InvOut (s : St) : Prop where
  c : ∀ T, s.nTx ≤ T → (s.thr (.c T)).pc = .cWait
  wr : ∀ T, s.nTx ≤ T → (s.txs T).written = []
  db : ∀ T, s.dbw = some T → (s.thr (.c T)).pc = .cWait ∧ T < s.nTx

theorem InvOut_step {s : St} {t : Tid} {c : Choice} (h : Inv s) (ho : InvOut s) (he : enabled s t = true) :
    InvOut (step s t c) := by
  have hc := step_const s t c
  refine ⟨?_, ?_, ?_⟩
  · intro T hT
    rw [hc.2.2.1] at hT
    have hne : Tid.c T ≠ t := by
      intro e
      rw [← e] at he
      have h1 : T < s.nTx := enabled_valid_c he
      omega
    rw [step_thr_ne _ _ _ _ hne]; exact ho.c T hT
  · intro T hT
    rw [hc.2.2.1] at hT
    rcases step_written_eq (c := c) h.kind.v (t := t) T with h1 | ⟨h1, _⟩
    · rw [h1]; exact ho.wr T hT
    · exfalso
      cases t with
      | w i =>
        have h2 : (s.thr (.w i)).tx < s.nTx := h.kind.txb i (enabled_valid_w he)
        rw [h1] at h2
        exact Nat.lt_irrefl _ (Nat.lt_of_lt_of_le h2 hT)
      | c T' =>
        have h2 : T' < s.nTx := enabled_valid_c he
        have h3 : (s.thr (.c T')).tx = T' := (h.kind.c T').2
        rw [h3] at h1; rw [h1] at h2
        exact Nat.lt_irrefl _ (Nat.lt_of_lt_of_le h2 hT)
  · intro T
    have hdb := ho.db
    have hkc := h.kind.c
    cases t with
    | w i =>
      have hlt := h.kind.txb i (enabled_valid_w he)
      have hwk := h.kind.w i
      rw [step_thr_ne _ _ _ _ (by simp : Tid.c T ≠ Tid.w i), hc.2.2.1]
      by_cases hidle : (s.thr (.w i)).pc = .idle
      · have hj : (s.thr (.c (s.thr (.w i)).tx)).pc = .cWait := by
          apply cWait_of_active h
          unfold enabled at he
          simp [hidle] at he
          unfold Thread.done
          cases htd : (s.thr (.w i)).todo <;> simp_all
        revert hj hlt
        have hd := hdb T
        unfold step
        simp only [hidle, stepAt]
        split <;> (try split) <;> (try split) <;> simp_all [St.setThr] <;> grind
      · have hd := hdb T
        unfold step
        cases hpc : (s.thr (.w i)).pc <;> simp only [hpc, isCommitPC] at hwk hidle <;> step_auto
    | c T' =>
      have hd := hdb T
      have hcp := (hkc T').1
      have htx := (hkc T').2
      rw [hc.2.2.1]
      unfold step
      cases hpc : (s.thr (.c T')).pc <;> simp only [hpc, isCommitPC] at hcp <;> step_auto <;> grind

theorem init_thr {s : St} (hi : Init s) (t : Tid) :
    ((s.thr t).pc = .idle ∨ (s.thr t).pc = .cWait) ∧ (s.thr t).defers = [] ∧ (s.thr t).remaining = [] := by
  cases t with
  | w i => have := hi.thrW i; exact ⟨Or.inl this.1, this.2.1, this.2.2.1⟩
  | c T => have := hi.thrC T; exact ⟨Or.inr this.2.1, this.2.2.1, this.2.2.2⟩

theorem Inv_init {s : St} (hi : Init s) (hv : s.v = fixedV) : Inv s := by
  have ht := init_thr hi
  have hobj := hi.objs
  have hmap := hi.map
  have htxs := hi.txs
  refine ⟨⟨hv, ?_, ?_, ?_, ?_, ?_, ?_, ?_⟩, ?_, ?_, ?_, ?_, ⟨?_, ?_, ?_, ?_, ?_, ?_⟩, ⟨?_, ?_, ?_⟩,
    ⟨?_, ?_, ?_, ?_, ?_, ?_, ?_, ?_, ?_⟩, ⟨?_, ?_, ?_, ?_, ?_⟩, ⟨?_, ?_⟩, ?_, ?_, ?_, ?_⟩
  · intro i; simp [(hi.thrW i).1, isCommitPC]
  · intro T; simp [(hi.thrC T).2.1, (hi.thrC T).1, isCommitPC]
  · intro i hle; exact ⟨(hi.thrW i).1, (hi.thrW i).2.2.2.1 hle⟩
  · intro t; rcases (ht t).1 with h | h <;> simp [h]
  · intro t; rcases (ht t).1 with h | h <;> simp [h, roPC]
  · intro t; rcases (ht t).1 with h | h <;> simp [h, rwPC]
  · intro i hlt; exact (hi.thrW i).2.2.2.2 hlt
  · intro t; rcases (ht t).1 with h | h <;> simp [hi.mgr, h, holdsMgr]
  · intro T t; rcases (ht t).1 with h | h <;> simp [(htxs T).2.1, h, holdsTx]
  · intro T hT; exact absurd (hi.thrC T).2.1 hT
  · intro t; unfold DefersOK; rcases (ht t).1 with h | h <;> simp [h, (ht t).2.1, noRunlock]
  · intro n o h; rw [hmap] at h; exact absurd h (by simp)
  · intro T n o h; rw [(htxs T).1] at h; exact absurd h (by simp)
  · intro t n o h; rw [(ht t).2.2] at h; exact absurd h (by simp)
  · intro t o h; rw [(ht t).2.1] at h; exact absurd h (by simp)
  · intro t h; rcases (ht t).1 with h' | h' <;> simp [h', exValid] at h
  · intro t h; rcases (ht t).1 with h' | h' <;> simp [h', useValid] at h
  · intro t o; simp [hobj, (ht t).2.1]
  · intro o; simp [hobj]
  · intro o; simp [hobj]
  · intro t h; rcases (ht t).1 with h' | h' <;> simp [h', exValid] at h
  · intro t h; rcases (ht t).1 with h' | h' <;> simp [h', useValid] at h
  · intro t o h; rw [(ht t).2.1] at h; exact absurd h (by simp)
  · intro t n o h; rw [(ht t).2.2] at h; exact absurd h (by simp)
  · intro n o h; rw [hmap] at h; exact absurd h (by simp)
  · intro T n o h; rw [(htxs T).1] at h; exact absurd h (by simp)
  · intro t h; rcases (ht t).1 with h' | h' <;> simp [h', newPriv] at h
  · intro t h; rcases (ht t).1 with h' | h' <;> simp [h'] at h
  · intro o h; rw [hi.nObj] at h; exact absurd h (by simp)
  · intro n o h; rw [hmap] at h; exact absurd h (by simp)
  · intro T n o h; rw [(htxs T).1] at h; exact absurd h (by simp)
  · intro t n o h; rw [(ht t).2.2] at h; exact absurd h (by simp)
  · intro t h; rcases (ht t).1 with h' | h' <;> simp [h', exValid] at h
  · intro t h; rcases (ht t).1 with h' | h' <;> simp [h', newObjPC] at h
  · intro T; simp [keysNodup, (htxs T).1]
  · intro t; simp [keysNodup, (ht t).2.2]
  · intro t h; rcases (ht t).1 with h' | h' <;> simp [h', nonePC] at h
  · intro T h; rw [(hi.thrC T).2.1] at h; exact absurd h (by simp)
  · intro T; simp [(htxs T).2.2.2, (htxs T).2.1]
  · intro o T h; rw [hi.nObj] at h; exact absurd h (by simp)

theorem InvOut_init {s : St} (hi : Init s) : InvOut s :=
  ⟨fun T _ => (hi.thrC T).2.1, fun T _ => (hi.txs T).1, fun T h => by rw [hi.dbw] at h; exact absurd h (by simp)⟩

theorem InvOut_evict {s : St} (ns : List Name) (h : InvOut s) : InvOut (evict s ns) := ⟨h.c, h.wr, h.db⟩

/-- every reachable state satisfies all the invariants -/
theorem inv_reachable {s0 s : St} (hi : Init s0) (hv : s0.v = fixedV) (hr : Reachable s0 s) : Inv s ∧ InvOut s := by
  induction hr with
  | init => exact ⟨Inv_init hi hv, InvOut_init hi⟩
  | step t c _ he ih => exact ⟨Inv_step ih.1 he, InvOut_step ih.1 ih.2 he⟩
  | evict ns _ ih => exact ⟨Inv_evict ns ih.1, InvOut_evict ns ih.2⟩

end Sema.C11
