/- C11 invariants, part 19: cold copies are never locked; who is recorded as write-owner -/
import SemaModel.C11.Inv18
set_option linter.unusedSimpArgs false
set_option linter.unusedVariables false
namespace Sema.C11

structure InvOwn (s : St) : Prop where
  coldfree : ∀ o, o < s.nObj → (s.objs o).cold = true →
    (s.objs o).readers = [] ∧ (s.objs o).writer = none ∧ (s.objs o).dropped = none
  w1 : ∀ o T', o < s.nObj → T' ∈ (s.objs o).wown →
    ((s.objs o).cold = true ∧ (s.thr (s.objs o).creator).tx = T') ∨ (s.objs o).writer = some T' ∨
      (s.objs o).dropped = some T'
  w2 : ∀ o T' A, o < s.nObj → T' ∈ (s.objs o).wown → (s.objs o).dropped = some A → T' = A
  nd : ∀ o, (s.objs o).wown.Nodup

theorem noRunlock_not_mem {ds : List Defer} (h : noRunlock ds = true) (o : ObjId) : Defer.runlock o ∉ ds := by
  induction ds with
  | nil => simp
  | cons d r ih =>
    cases d with
    | prune => simp [noRunlock] at h; simp; exact ih h
    | runlock o' => simp [noRunlock] at h

set_option maxHeartbeats 4000000 in
theorem own_coldfree_step {s : St} {t : Tid} {c : Choice} (hv : s.v = fixedV) (h : Inv s)
    (hc : ∀ o, o < s.nObj → (s.objs o).cold = true →
      (s.objs o).readers = [] ∧ (s.objs o).writer = none ∧ (s.objs o).dropped = none) :
    ∀ o, o < (step s t c).nObj → ((step s t c).objs o).cold = true →
      ((step s t c).objs o).readers = [] ∧ ((step s t c).objs o).writer = none ∧ ((step s t c).objs o).dropped = none := by
  intro o
  have hco := hc o
  have hex := h.pub.ex t
  have hcold := h.pub.cold
  have hbe := h.bounds.ex t
  have hbu := h.bounds.use t
  have hpriv := h.pub.priv t
  have hbr := h.bounds.rem t
  have hpr := h.pub.rem t
  have hbw := h.bounds.wr (s.thr t).tx
  have hdf := h.defers t
  have hbd := h.bounds.df t
  have hmu : holdsTx (s.thr t) = true → (s.thr t).pc ≠ .nTxUnlock →
      ∀ n o, (n, o) ∈ (s.txs (s.thr t).tx).written → (s.objs o).pub = true := by
    intro h1 h2
    exact wr_pub_of_holder h.tx (h.pub.wr _) ((h.tx _ t).mpr ⟨rfl, h1⟩) h2
  clear h
  unfold DefersOK at hdf
  unfold step
  cases hpc : (s.thr t).pc <;> simp only [hpc, exValid, useValid, newPriv, holdsTx] at hex hbe hbu hpriv hmu hdf <;>
    step_auto <;> grind [→ aget_mem, List.mem_of_mem_eraseIdx]

set_option maxHeartbeats 4000000 in
/-- who enters the write-owner list -/
theorem step_wown_sub {s : St} {t : Tid} {c : Choice} {o : ObjId} {T' : TxId} (ho : o < s.nObj)
    (h : T' ∈ ((step s t c).objs o).wown) :
    T' ∈ (s.objs o).wown ∨ ((s.thr t).pc = .callF ∧ (s.thr t).acc.ro = false ∧ o = (s.thr t).use ∧ T' = (s.thr t).tx) := by
  revert h
  unfold step
  cases hpc : (s.thr t).pc <;> step_auto <;> grind [List.mem_of_mem_erase]

set_option maxHeartbeats 4000000 in
/-- a recorded write-owner keeps the write lock: whoever releases the lock leaves the list -/
theorem wown_writer_step {s : St} {t : Tid} {c : Choice} {o : ObjId} {T' : TxId} (ho : o < s.nObj)
    (hnd : (s.objs o).wown.Nodup)
    (hrem : (s.thr t).pc = .cEntry → ∀ n o, (n, o) ∈ (s.thr t).remaining → (s.objs o).writer = some (s.thr t).tx)
    (hold : (s.thr t).pc = .nDropOld →
      ∀ o, aget (s.txs (s.thr t).tx).written (s.thr t).acc.name = some o → (s.objs o).writer = some (s.thr t).tx)
    (he : enabled s t = true)
    (hm : T' ∈ ((step s t c).objs o).wown) (hw : (s.objs o).writer = some T') :
    ((step s t c).objs o).writer = some T' := by
  revert hm
  unfold enabled at he
  unfold step
  cases hpc : (s.thr t).pc <;> simp only [hpc] at he hrem hold <;> step_auto <;>
    grind [List.Nodup.mem_erase_iff, Obj.free, List.mem_of_getElem?]

set_option maxHeartbeats 4000000 in
theorem step_wown_nodup {s : St} {t : Tid} {c : Choice} {o : ObjId} (hnd : (s.objs o).wown.Nodup) :
    ((step s t c).objs o).wown.Nodup := by
  unfold step
  cases hpc : (s.thr t).pc <;> step_auto <;> grind [List.Nodup.erase, List.nodup_cons]

set_option maxHeartbeats 2000000 in
theorem callF_effect {s : St} {t : Tid} {c : Choice} (hpc : (s.thr t).pc = .callF) (o : ObjId) :
    ((step s t c).objs o).cold = (s.objs o).cold ∧ ((step s t c).objs o).creator = (s.objs o).creator ∧
    ((step s t c).objs o).writer = (s.objs o).writer ∧ ((step s t c).objs o).dropped = (s.objs o).dropped := by
  unfold step
  simp only [hpc, stepAt]
  split <;> simp [St.setThr, St.setObj, upd] <;> split <;> simp_all

theorem InvOwn_step {s : St} {t : Tid} {c : Choice} (h : Inv s) (hf : InvFD s) (hu : InvUse s) (hown : InvOwn s)
    (he : enabled s t = true) : InvOwn (step s t c) := by
  have hv := h.kind.v
  -- what a releasing step knows about the lock it releases
  have hrem : (s.thr t).pc = .cEntry → ∀ n o, (n, o) ∈ (s.thr t).remaining → (s.objs o).writer = some (s.thr t).tx := by
    intro hpc n o hm
    cases t with
    | w i => have := h.kind.w i; rw [hpc] at this; simp [isCommitPC] at this
    | c T =>
      have htx := (h.kind.c T).2
      have hlt := h.bounds.rem _ n o hm
      have hnm := h.names.rem _ n o hm
      rw [htx]
      exact (h.w o T hlt).mpr (Or.inr ⟨by rw [hnm]; exact h.remsub T hpc _ hm, by simp [stillHeld, hpc, hnm, hm]⟩)
  have hold : (s.thr t).pc = .nDropOld →
      ∀ o, aget (s.txs (s.thr t).tx).written (s.thr t).acc.name = some o → (s.objs o).writer = some (s.thr t).tx := by
    intro hpc o ho
    exact writer_of_registered h (t := t) (by simp [hpc]) (by simp [hpc, isCommitPC]) (aget_mem ho)
  refine ⟨own_coldfree_step hv h hown.coldfree, ?_, ?_, fun o => step_wown_nodup (hown.nd o)⟩
  · -- w1
    intro o T' ho' hm
    by_cases hlt : o < s.nObj
    · obtain ⟨hs1, hs2, hs3⟩ := step_static (t := t) (c := c) hlt
      rcases step_wown_sub hlt hm with h1 | ⟨h1, h2, h3, h4⟩
      · rcases hown.w1 o T' hlt h1 with ⟨c1, c2⟩ | c1 | c1
        · exact Or.inl ⟨by rw [hs3]; exact c1, by rw [hs2, step_tx]; exact c2⟩
        · exact Or.inr (Or.inl (wown_writer_step hlt (hown.nd o) hrem hold he hm c1))
        · exact Or.inr (Or.inr (step_dropped_stable hlt c1))
      · subst h3; subst h4
        obtain ⟨e1, e2, e3, e4⟩ := callF_effect (c := c) h1 (s.thr t).use
        rw [e1, e2, e3, e4, step_tx]
        rcases hu.post t (by simp [h1, postCheck]) with hsrc | hd
        · rcases hsrc with c1 | c1 | c1
          · left
            refine ⟨c1, ?_⟩
            rcases h.pub.use t (by simp [h1, useValid]) with hp | hp
            · have := h.pub.cold _ hlt c1; rw [hp] at this; exact absurd this (by simp)
            · rw [hp]
          · exfalso
            have hdf := h.defers t
            unfold DefersOK at hdf
            rcases hdf.1 with hn | hn
            · exact noRunlock_not_mem hn _ c1
            · rw [h2] at hn; exact absurd hn (by simp)
          · exact Or.inr (Or.inl (writer_of_registered h (t := t) (by simp [h1]) (by simp [h1, isCommitPC]) c1))
        · exact Or.inr (Or.inr hd)
    · -- allocated by this step: nobody is recorded
      exfalso
      revert hm ho'
      unfold step
      cases hpc : (s.thr t).pc <;> step_auto <;> grind
  · -- w2
    intro o T' A ho' hm hd
    by_cases hlt : o < s.nObj
    · rcases step_wown_sub hlt hm with h1 | ⟨h1, h2, h3, h4⟩
      · cases hd0 : (s.objs o).dropped with
        | some B =>
          have := step_dropped_stable (t := t) (c := c) hlt hd0
          rw [this] at hd; injection hd with hd; rw [← hd]
          exact hown.w2 o T' B hlt h1 hd0
        | none =>
          exfalso
          have hne : ((step s t c).objs o).dropped ≠ none := by rw [hd]; simp
          rcases step_dropped_sub hlt hne with h2 | ⟨h2, h3⟩
          · exact h2 hd0
          · have hwt := hold h2 o h3
            rcases hown.w1 o T' hlt h1 with ⟨c1, _⟩ | c1 | c1
            · have := (hown.coldfree o hlt c1).2.1; rw [hwt] at this; exact absurd this (by simp)
            · -- T' is the dropper itself: but it has just left the list
              rw [hwt] at c1; injection c1 with c1
              revert hm
              have hnd := hown.nd o
              unfold step
              simp only [h2, stepAt, h3]
              simp [St.setThr, St.setTx, St.setObj, upd, c1, List.Nodup.mem_erase_iff hnd]
            · rw [hd0] at c1; exact absurd c1 (by simp)
      · subst h3; subst h4
        obtain ⟨_, _, _, e4⟩ := callF_effect (c := c) h1 (s.thr t).use
        rw [e4] at hd
        exact hu.s2 t A (Or.inl (by simp [h1, postCheck])) hd
    · exfalso
      revert hm ho'
      unfold step
      cases hpc : (s.thr t).pc <;> step_auto <;> grind

theorem InvUse_init {s : St} (hi : Init s) : InvUse s := by
  have ht := init_thr hi
  refine ⟨?_, ?_, ?_, ?_, ?_⟩
  · intro t h; rcases (ht t).1 with h' | h' <;> simp [sameEx, h'] at h
  · intro t h; rcases (ht t).1 with h' | h' <;> simp [preCheck, h'] at h
  · intro t h; rcases (ht t).1 with h' | h' <;> simp [postCheck, h'] at h
  · intro t h; rcases (ht t).1 with h' | h' <;> simp [newHeld, h'] at h
  · intro t A h; rcases (ht t).1 with h' | h' <;> simp [postCheck, newHeld, h'] at h

theorem InvUse_evict {s : St} (ns : List Name) (h : InvUse s) : InvUse (evict s ns) :=
  ⟨h.same, h.pre, h.post, h.newh, h.s2⟩

theorem InvOwn_init {s : St} (hi : Init s) : InvOwn s := by
  refine ⟨?_, ?_, ?_, ?_⟩
  · intro o ho; rw [hi.nObj] at ho; exact absurd ho (by simp)
  · intro o T' ho; rw [hi.nObj] at ho; exact absurd ho (by simp)
  · intro o T' A ho; rw [hi.nObj] at ho; exact absurd ho (by simp)
  · intro o; simp [hi.objs o]

theorem InvOwn_evict {s : St} (ns : List Name) (h : InvOwn s) : InvOwn (evict s ns) :=
  ⟨h.coldfree, h.w1, h.w2, h.nd⟩

/-- all invariants on every reachable state -/
structure AllInv (s : St) : Prop where
  inv : Inv s
  out : InvOut s
  db : InvDb s
  nm : InvNewMap s
  fd : InvFD s
  use : InvUse s
  own : InvOwn s

theorem all_reachable {s0 s : St} (hi : Init s0) (hv : s0.v = fixedV) (hr : Reachable s0 s) : AllInv s := by
  induction hr with
  | init => exact ⟨Inv_init hi hv, InvOut_init hi, InvDb_init hi, InvNewMap_init hi, InvFD_init hi, InvUse_init hi, InvOwn_init hi⟩
  | step t c _ he ih =>
    exact ⟨Inv_step ih.inv he, InvOut_step ih.inv ih.out he, InvDb_step ih.inv ih.out ih.db he,
      InvNewMap_step ih.inv ih.nm, InvFD_step ih.inv ih.nm ih.fd, InvUse_step ih.inv ih.fd ih.use,
      InvOwn_step ih.inv ih.fd ih.use ih.own he⟩
  | evict ns _ ih =>
    exact ⟨Inv_evict ns ih.inv, InvOut_evict ns ih.out, InvDb_evict ns ih.db, InvNewMap_evict ns ih.nm,
      InvFD_evict ns ih.fd, InvUse_evict ns ih.use, InvOwn_evict ns ih.own⟩

end Sema.C11
