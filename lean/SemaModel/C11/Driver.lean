/-
C11 driver (`semadriver C11 <mode> …`):
  explore [maxStates]        stdin: configuration lines; exhaustive exploration, monitors, witnesses
  gen <tier> <seed> <vvv>    stdout: schedule lines "<cfg> :: <tokens>" for the harness
  replay                     stdin: schedule lines; stdout: what the MODEL observes step by step
                             (same text the harness prints for the implementation)
Core Lean only.
-/
import SemaModel.Base.DriverUtil
import SemaModel.C11.Explore
set_option linter.unusedSimpArgs false
set_option linter.unusedVariables false
namespace Sema.C11

def parseCfgLine (line : String) : Option Cfg := do
  let mut c : Cfg := {}
  for w in (line.trimAscii.toString.splitOn " ").filter (· ≠ "") do
    match w.splitOn "=" with
    | ["max", x] => c := { c with maxSize := ← x.toInt? }
    | ["db", x] => c := { c with dbLock := x == "1" }
    | ["v", x] => c := { c with v := parseVariant x }
    | ["ev", x] => c := { c with evictBudget := ← x.toNat? }
    | ["wl", x] => c := { c with txs := ← parseWorkload x }
    | ["lru", x] => c := { c with lru := x == "1" }
    | _ => none
  let names := c.workers.foldl (fun m (_, p) => p.foldl (fun m a => max m (a.name + 1)) m) 1
  return { c with nNames := names }

def showCfg (c : Cfg) : String :=
  s!"max={c.maxSize} db={if c.dbLock then 1 else 0} v={showVariant c.v} ev={c.evictBudget} lru={if c.lru then 1 else 0} wl={showWorkload c.txs}"

/-- the part of a configuration the harness needs (the variant is a property of the source) -/
def showCfgH (c : Cfg) : String :=
  s!"max={c.maxSize} db={if c.dbLock then 1 else 0} v={showVariant c.v} wl={showWorkload c.txs}"

/-- schedule with the program counter each step starts from -/
def annotate (c : Cfg) (sched : List Label) : List String := Id.run do
  let mut s := c.init
  let mut out : List String := []
  for l in sched do
    match l with
    | .thr t _ => out := (showLabel l ++ "@" ++ pcName (s.thr t).pc) :: out
    | _ => out := showLabel l :: out
    s := l.apply s
  return out.reverse

/-- a model schedule as harness tokens (the harness runs the Commit loop in one step) -/
def toTokens (c : Cfg) (sched : List Label) (deadlock : Bool) : String := Id.run do
  let mut s := c.init
  let mut out : Array String := #[]
  for l in sched do
    match l with
    | .thr t _ => if (s.thr t).pc != .cEntry then out := out.push (showTid t)
    | .evict ns => for n in ns do out := out.push s!"e{n}"
    s := l.apply s
  if deadlock then out := out.push "D"
  return showCfgH c ++ " :: " ++ " ".intercalate out.toList

/-- explore one configuration; print every finding as a harness schedule line prefixed by its kind -/
def witnessLine (maxStates : Nat) (line : String) : String :=
  match parseCfgLine line with
  | none => "bad-cfg"
  | some c =>
    let r := explore c maxStates (allPrunes := !c.lru)
    "\n".intercalate (r.findings.map fun f => s!"{f.kind}\t{f.what}\t{toTokens c f.schedule (f.kind == "deadlock")}")

def exploreLine (maxStates : Nat) (line : String) : String :=
  match parseCfgLine line with
  | none => "bad-cfg"
  | some c =>
    let r := explore c maxStates (allPrunes := !c.lru)
    let fs := r.findings.map fun f => s!"\n  FINDING {f.kind}: {f.what}\n    schedule: {"; ".intercalate (annotate c f.schedule)}"
    s!"{showCfg c}: states={r.states} finals={r.finals}{if r.truncated then " TRUNCATED" else ""}{String.join fs}"

/-! ### the model at harness granularity -/

/-- state of a forced run: model state, LRU order, threads released into a blocking lock -/
structure HState where
  s : St
  lru : List Name := []
  flight : List Tid := []
  ret : List (Tid × String) := []
  deriving Inhabited

/-- choice the real code makes at this step (deterministic at harness level): LRU pruning with unit
sizes; `TryRLock` fails when a released writer is waiting inside `Lock()` on the same object -/
def harnessChoice (h : HState) (t : Tid) : Choice :=
  let th := h.s.thr t
  { prune := if th.pc == .pBody && h.s.maxSize > 0 then lruPrune h.s h.lru else [],
    tryFail := th.pc == .rTryRLock && (h.s.objs th.existing).writer.isNone &&
      h.flight.any fun u => (h.s.thr u).pc == .xObjLock && (h.s.thr u).existing == th.existing }

/-- one harness step of thread t = one model step, except the `range` loop of Commit which the
harness runs through in one go (Go's map order is not controllable) -/
def hstep (h : HState) (t : Tid) : HState :=
  let th := h.s.thr t
  let c := harnessChoice h t
  let lru' := lruAfter h.s h.lru (.thr t c)
  let r : Option String := match th.pc with
    | .idle => some (if (h.s.txs th.tx).failed then "err" else "ok")
    | .rColdCreate | .sCreate | .nCreate => if th.acc.crOk then none else some "err"
    | .inF => if th.acc.cbOk then none else some "err"
    | _ => none
  let ret' := match r with
    | some v => (t, v) :: h.ret.filter (·.1 != t)
    | none => h.ret
  let s1 := step h.s t c
  let s2 := if th.pc == .cLoop then
      -- cLoop, then one cEntry per written cache, then the empty cEntry that leaves the loop
      (List.range ((s1.thr t).remaining.length + 1)).foldl (fun s _ => step s t {}) s1
    else s1
  { h with s := s2, lru := lru', ret := ret', flight := h.flight.erase t }

def pointOf (h : HState) (t : Tid) : String :=
  let th := h.s.thr t
  let r := (h.ret.lookup t).getD "ok"
  match th.pc with
  | .idle => if th.todo.isEmpty then s!"done:{r}" else s!"idle:{r}"
  | .cDone => "done"
  | .inF => s!"inF#{th.use}"
  | p => pcName p

def insertSorted (x : String) : List String → List String
  | [] => [x]
  | y :: r => if x < y then x :: y :: r else y :: insertSorted x r
def sortStrings (l : List String) : List String := l.foldr insertSorted []

def deadlockText (c : Cfg) (h : HState) : String :=
  let stuck := c.tids.filterMap fun t =>
    let th := h.s.thr t
    if th.done then none
    else some (showTid t ++ "@" ++ (match th.pc with
      | .idle => "idle(db)"
      | .cWait => "cWait(join)"
      | p => pcName p))
  if h.s.deadlocked c then "D:deadlock[" ++ ",".intercalate (sortStrings stuck) ++ "]"
  else "D:nodeadlock[free=" ++ ",".intercalate (sortStrings ((c.tids.filter fun t => enabled h.s t).map showTid)) ++ "]"

def finalText (c : Cfg) (h : HState) : String :=
  if !h.s.allDone c then "final: unfinished" else
  let names := (List.range c.nNames).filter fun n => (h.s.map n).isSome
  let mp := names.map fun n => s!"{n}={(h.s.map n).getD 0}"
  let wr := (List.range c.txs.length).map fun T =>
    let w := (h.s.txs T).written
    let ks := (List.range c.nNames).filterMap fun n => (aget w n).map fun o =>
      s!"{n}={o}{if (h.s.objs o).scrapped then "s" else ""}"
    "[" ++ ",".intercalate ks ++ "]"
  let scr := names.filterMap fun n => let o := (h.s.map n).getD 0
    if (h.s.objs o).scrapped then some s!"scrappedInMap={o}" else none
  ("final: map{" ++ ",".intercalate mp ++ "} written" ++ String.join wr ++ " " ++ " ".intercalate scr).trimAscii.toString

/-- replay the tokens on the model; returns the observation text -/
def replayTokens (c : Cfg) (toks : List String) : String := Id.run do
  let mut h : HState := { s := c.init }
  let mut out : Array String := #[]
  let mut aborted := false
  for tok in toks do
    if aborted then
      out := out.push (tok ++ ">-")
    else if tok == "D" then
      out := out.push (deadlockText c h)
      aborted := true
    else if tok.startsWith "e" then
      match (tok.drop 1).toString.toNat? with
      | some n => h := { h with s := evict h.s [n] }; out := out.push tok
      | none => out := out.push (tok ++ ">BAD"); aborted := true
    else
      let mode := tok.back
      let id := if mode == '?' || mode == '!' then (tok.dropEnd 1).toString else tok
      match parseTid id with
      | none => out := out.push (tok ++ ">NOTHREAD"); aborted := true
      | some t =>
        if !c.tids.contains t then
          out := out.push (tok ++ ">NOTHREAD"); aborted := true
        else if mode == '?' then
          if enabled h.s t then
            -- the model says it is not blocked: report where it would arrive
            h := hstep h t
            out := out.push (tok ++ ">" ++ pointOf h t)
          else
            h := { h with flight := t :: h.flight }
            out := out.push (tok ++ "blocked")
        else if mode == '!' then
          if h.flight.contains t && enabled h.s t then
            h := hstep h t
            out := out.push (tok ++ ">" ++ pointOf h t)
          else
            out := out.push (tok ++ (if h.flight.contains t then ">BLOCKED(model)" else ">NOTINFLIGHT")); aborted := true
        else if h.flight.contains t then
          out := out.push (tok ++ ">NOTPARKED"); aborted := true
        else if enabled h.s t then
          h := hstep h t
          out := out.push (tok ++ ">" ++ pointOf h t)
        else
          h := { h with flight := t :: h.flight }
          out := out.push (tok ++ ">BLOCKED(model)"); aborted := true
  return " ".intercalate out.toList ++ " | " ++ finalText c h

def replayLine (line : String) : String :=
  match line.trimAscii.toString.splitOn "::" with
  | [cfg, toks] =>
    match parseCfgLine cfg with
    | some c => replayTokens c ((toks.splitOn " ").filter (· ≠ ""))
    | none => "bad-cfg"
  | _ => "bad-schedule"

/-! ### schedule generation -/

structure Rng where
  s : UInt64
def Rng.next (r : Rng) : Rng × UInt64 :=
  let s := r.s + 0x9E3779B97F4A7C15
  let z := (s ^^^ (s >>> 30)) * 0xBF58476D1CE4E5B9
  let z := (z ^^^ (z >>> 27)) * 0x94D049BB133111EB
  (⟨s⟩, z ^^^ (z >>> 31))
def Rng.below (r : Rng) (n : Nat) : Rng × Nat :=
  let (r, x) := r.next
  (r, if n = 0 then 0 else x.toNat % n)

def genAccess (r : Rng) (nNames : Nat) (failPct : Nat) : Rng × Access :=
  let (r, k) := r.below 2
  let (r, n) := r.below nNames
  let (r, f) := r.below 100
  (r, { name := n, ro := k == 0, cbOk := !(f < failPct), crOk := !(failPct ≤ f && f < failPct + failPct / 2) })

def genList {α} (r : Rng) (n : Nat) (g : Rng → Rng × α) : Rng × List α :=
  (List.range n).foldl (fun (r, l) _ => let (r, x) := g r; (r, l ++ [x])) (r, [])

def genWorkload (r : Rng) : Rng × List (Bool × List (List Access)) :=
  let (r, nTx) := r.below 2
  let (r, failPct) := r.below 3
  genList r (nTx + 2) fun r =>
    let (r, ng) := r.below 3
    let (r, cf) := r.below 6
    let (r, gs) := genList r (if ng == 2 then 2 else 1) fun r =>
      let (r, na) := r.below 3
      genList r (if na == 2 then 2 else 1) fun r => genAccess r 2 (failPct * 12)
    (r, (cf == 0, gs))

def genCfg (r : Rng) (v : Variant) (dbPct : Nat := 90) : Rng × Cfg :=
  let (r, wl) := genWorkload r
  let (r, m) := r.below 4
  let (r, d) := r.below 100
  let (r, e) := r.below 3
  let c : Cfg := { txs := wl, maxSize := [(-1 : Int), 0, 1, 2].getD m (-1), dbLock := d < dbPct, v := v,
                   evictBudget := if e == 0 then 1 else 0 }
  let names := c.workers.foldl (fun m (_, p) => p.foldl (fun m a => max m (a.name + 1)) m) 1
  (r, { c with nNames := names })

/-- a random maximal run at harness granularity; `probePct` = how often a blocked thread is released on purpose -/
partial def randomWalk (c : Cfg) (r : Rng) (probePct : Nat) (pre : List String := []) (h0 : Option HState := none)
    (ev0 : Option Nat := none) : Rng × List String := Id.run do
  let mut h : HState := h0.getD { s := c.init }
  let mut r := r
  let mut toks : Array String := pre.toArray
  let mut ev := ev0.getD c.evictBudget
  let mut fuel := 600
  let mut sticky : Option Tid := none
  while fuel > 0 do
    fuel := fuel - 1
    if h.s.allDone c then break
    -- a thread released earlier that can now take the lock arrives by itself
    match h.flight.find? fun u => enabled h.s u with
    | some u =>
      h := hstep h u
      toks := toks.push (showTid u ++ "!")
      continue
    | none => pure ()
    let en := c.tids.filter fun t => enabled h.s t && !h.flight.contains t
    if en.isEmpty then
      toks := toks.push "D"
      break
    let (r1, p) := r.below 100
    r := r1
    let blocked := c.tids.filter fun t => !enabled h.s t && !(h.s.thr t).done && !h.flight.contains t &&
      (h.s.thr t).pc != .idle && (h.s.thr t).pc != .cWait
    if p < probePct && h.flight.isEmpty && !blocked.isEmpty then
      let (r2, k) := r.below blocked.length
      r := r2
      let u := blocked.getD k default
      h := { h with flight := u :: h.flight }
      toks := toks.push (showTid u ++ "?")
      continue
    if p ≥ 95 && ev > 0 && h.s.mgr.isNone then
      let present := (List.range c.nNames).filter fun n => (h.s.map n).isSome
      if !present.isEmpty then
        let (r2, k) := r.below present.length
        r := r2
        let n := present.getD k 0
        h := { h with s := evict h.s [n] }
        ev := ev - 1
        toks := toks.push s!"e{n}"
        continue
    -- mostly keep running the same thread for a while (longer critical sections get interleaved too)
    let (r3, q) := r.below 100
    r := r3
    let t ← match sticky with
      | some t0 => if q < 55 && en.contains t0 then pure t0 else
          let (r4, k) := r.below en.length
          r := r4
          pure (en.getD k default)
      | none =>
          let (r4, k) := r.below en.length
          r := r4
          pure (en.getD k default)
    sticky := some t
    h := hstep h t
    toks := toks.push (showTid t)
  return (r, toks.toList)

/-- enabled harness tokens of a state (no blocked probes): threads, and evictions while the manager mutex is free -/
def coverTokens (c : Cfg) (h : HState) (ev : Nat) : List String :=
  (c.tids.filter fun t => enabled h.s t).map showTid ++
  (if ev > 0 && h.s.mgr.isNone then ((List.range c.nNames).filter fun n => (h.s.map n).isSome).map (fun n => s!"e{n}") else [])

def applyToken (h : HState) (tok : String) : HState :=
  if tok.startsWith "e" then { h with s := evict h.s [((tok.drop 1).toString.toNat?).getD 0] }
  else match parseTid tok with
    | some t => hstep h t
    | none => h

def hkey (c : Cfg) (h : HState) (ev : Nat) : Array Nat := ((h.s.key c).push ev) ++ h.lru.toArray

/-- schedules that together take EVERY transition of the configuration's reachable state graph (at
harness granularity) at least once: the real code is driven through each of them -/
partial def genCover (c : Cfg) (r0 : Rng) (maxStates : Nat) : List String × Nat × Nat × Bool := Id.run do
  let h0 : HState := { s := c.init }
  let mut seen : Std.HashMap (Array Nat) Nat := {}
  let mut nodes : Array (Nat × String × HState × Nat) := #[(0, "", h0, c.evictBudget)]
  seen := seen.insert (hkey c h0 c.evictBudget) 0
  let mut head := 0
  let mut truncated := false
  let mut nEdges := 0
  while head < nodes.size do
    let (_, _, h, ev) := nodes[head]!
    for tok in coverTokens c h ev do
      nEdges := nEdges + 1
      let h' := applyToken h tok
      let h' := { h' with s := h'.s.normalize c }
      let ev' := if tok.startsWith "e" then ev - 1 else ev
      let k := hkey c h' ev'
      if !seen.contains k then
        if nodes.size ≥ maxStates then truncated := true
        else
          seen := seen.insert k nodes.size
          nodes := nodes.push (head, tok, h', ev')
    head := head + 1
  -- cover
  let mut covered : Std.HashSet (Nat × String) := {}
  let mut out : Array String := #[]
  let mut r := r0
  for i in List.range nodes.size do
    let (_, _, h, ev) := nodes[i]!
    for tok in coverTokens c h ev do
      if !covered.contains (i, tok) then
        -- path root → i
        let mut path : List String := []
        let mut j := i
        while j != 0 do
          let (pj, t, _, _) := nodes[j]!
          path := t :: path
          j := pj
        let mut toks : Array String := path.toArray
        -- take the edge, then continue, preferring transitions not taken yet
        let mut cur := i
        let mut nextTok := tok
        let mut fuel := 800
        let mut deadlock := false
        while fuel > 0 do
          fuel := fuel - 1
          covered := covered.insert (cur, nextTok)
          toks := toks.push nextTok
          let (_, _, hc, evc) := nodes[cur]!
          let h' := applyToken hc nextTok
          let h' := { h' with s := h'.s.normalize c }
          let ev' := if nextTok.startsWith "e" then evc - 1 else evc
          match seen.get? (hkey c h' ev') with
          | none => break   -- beyond the truncated frontier
          | some nx =>
            cur := nx
            let (_, _, hn, evn) := nodes[nx]!
            if hn.s.allDone c then break
            let cands := coverTokens c hn evn
            if cands.isEmpty then
              deadlock := true
              break
            let fresh := cands.filter fun t => !covered.contains (nx, t)
            let pool := if fresh.isEmpty then cands else fresh
            let (r1, k) := r.below pool.length
            r := r1
            nextTok := pool.getD k ""
        if deadlock then toks := toks.push "D"
        out := out.push (showCfgH c ++ " :: " ++ " ".intercalate toks.toList)
  return (out.toList, nodes.size, nEdges, truncated)

def genQuick (seed : Nat) (v : Variant) (n : Nat) : List String := Id.run do
  let mut r : Rng := ⟨UInt64.ofNat (seed * 7919 + 13)⟩
  let mut out : Array String := #[]
  for i in List.range n do
    let (r1, c) := genCfg r v
    r := r1
    let (r2, toks) := randomWalk c r (if i % 3 == 0 then 12 else 0)
    r := r2
    out := out.push (showCfgH c ++ " :: " ++ " ".intercalate toks)
  return out.toList

end Sema.C11

partial def Sema.C11.driverMain (stdin stdout : IO.FS.Stream) (args : List String) : IO Unit :=
  match args with
  | "explore" :: rest =>
    let m := (rest.head?.bind String.toNat?).getD 2000000
    Sema.loopPure stdin stdout (Sema.C11.exploreLine m)
  | [] | ["replay"] => Sema.loopPure stdin stdout Sema.C11.replayLine
  | ["gen", "walks", seed, k] => do
    -- stdin: configuration lines; k random walks per configuration (every third one probes blocked threads)
    let rec loopW (r : Sema.C11.Rng) : IO Unit := do
      let line ← stdin.getLine
      if line.isEmpty then return ()
      match Sema.C11.parseCfgLine line with
      | none => loopW r
      | some c =>
        let mut r := r
        for i in List.range (k.toNat?.getD 10) do
          let (r', toks) := Sema.C11.randomWalk c r (if i % 3 == 0 then 15 else 0)
          r := r'
          stdout.putStrLn (Sema.C11.showCfgH c ++ " :: " ++ " ".intercalate toks)
        loopW r
    loopW ⟨UInt64.ofNat ((seed.toNat?.getD 1) * 15485863 + 11)⟩
  | "witness" :: rest =>
    let m := (rest.head?.bind String.toNat?).getD 2000000
    Sema.loopPure stdin stdout (Sema.C11.witnessLine m)
  | ["gen", "quick", seed, v, n] =>
    for l in Sema.C11.genQuick (seed.toNat?.getD 1) (Sema.C11.parseVariant v) (n.toNat?.getD 300) do
      stdout.putStrLn l
  | ["gen", "cover", seed, maxStates] => do
    -- stdin: configuration lines; stdout: schedule lines; stderr: sizes
    let stderr ← IO.getStderr
    let rec loop : IO Unit := do
      let line ← stdin.getLine
      if line.isEmpty then return ()
      match Sema.C11.parseCfgLine line with
      | none => stderr.putStrLn s!"bad-cfg {line}"
      | some c =>
        let (ls, nStates, nEdges, trunc) := Sema.C11.genCover c ⟨UInt64.ofNat ((seed.toNat?.getD 1) * 104729 + 7)⟩ (maxStates.toNat?.getD 200000)
        for l in ls do stdout.putStrLn l
        stderr.putStrLn s!"cover {Sema.C11.showCfgH c}: states={nStates} transitions={nEdges} schedules={ls.length}{if trunc then " TRUNCATED" else ""}"
      loop
    loop
  | _ => stdout.putStrLn "usage: semadriver C11 explore [maxStates] | replay | gen quick <seed> <variant> <n>"
