/- C11 invariants, part 2: the transaction mutex, the join before Commit -/
import SemaModel.C11.Lemmas
set_option linter.unusedSimpArgs false
set_option linter.unusedVariables false
namespace Sema.C11

def holdsTx (th : Thread) : Bool :=
  match th.pc with
  | .rCheckWritten | .rTxUnlock | .xCheckWritten | .xObjLock | .xRegister | .xTxUnlock | .nFailTxUnlock | .nObjLock
  | .nDropOld | .nRegister | .nTxUnlock | .cCheckEmpty | .cMgrLock | .cLoop | .cEntry | .cMgrUnlock | .cTxUnlock => true
  | .mgrLock | .lookup | .exMgrUnlock | .nCreate | .nFailMgrUnlock | .nStore => !th.acc.ro
  | _ => false

def InvTx (s : St) : Prop := ∀ T t, (s.txs T).mu = some t ↔ ((s.thr t).tx = T ∧ holdsTx (s.thr t) = true)

theorem InvTx_step {s : St} {t : Tid} {c : Choice} (hk : InvKind s) (h : InvTx s) (he : enabled s t = true) :
    InvTx (step s t c) := by
  intro T t'
  have hv := hk.v
  have hro := hk.ro t
  have hrw := hk.rw t
  have hleg := hk.legacy t
  by_cases hT : T = (s.thr t).tx
  · subst hT
    have ht := h (s.thr t).tx t
    by_cases htt : t' = t
    · subst htt
      unfold step
      unfold enabled at he
      cases hpc : (s.thr t').pc <;> simp only [hpc, roPC, rwPC] at hro hrw <;>
        simp only [stepAt, Thread.popReturn, Thread.doReturn] <;> (repeat' split) <;>
        simp_all [St.setThr, St.setTx, St.setObj, St.alloc, holdsTx, fixedV]
    · rw [step_thr_ne _ _ _ _ htt]
      have ht' := h (s.thr t).tx t'
      have htt' : ¬ t = t' := fun e => htt e.symm
      unfold step
      unfold enabled at he
      cases hpc : (s.thr t).pc <;> simp only [hpc, roPC, rwPC] at hro hrw <;> simp only [hpc, holdsTx] at ht <;>
        simp only [stepAt] <;> (repeat' split) <;>
        simp_all [St.setThr, St.setTx, St.setObj, St.alloc, fixedV]
  · rw [step_txs_ne _ _ _ _ hT, step_tx]
    by_cases htt : t' = t
    · subst htt
      have := h T t'
      have hne : ¬ (s.thr t').tx = T := fun e => hT e.symm
      simp [hne] at this ⊢
      exact this
    · rw [step_thr_ne _ _ _ _ htt]; exact h T t'

/-! ### Commit starts only after every `With` goroutine of the transaction has returned -/

def InvJoin (s : St) : Prop :=
  ∀ T, (s.thr (.c T)).pc ≠ .cWait → ∀ i, (s.thr (.w i)).tx = T → (s.thr (.w i)).done = true

theorem done_not_enabled_w {s : St} {i : Nat} (hd : (s.thr (.w i)).done = true) (hk : InvKind s) : enabled s (.w i) = false := by
  have hw := hk.w i
  unfold Thread.done at hd
  unfold enabled
  cases hpc : (s.thr (.w i)).pc <;> simp_all [isCommitPC]

theorem joined_spec {s : St} {T : TxId} (hj : s.joined T = true) (hk : InvKind s) :
    ∀ i, (s.thr (.w i)).tx = T → (s.thr (.w i)).done = true := by
  intro i hi
  by_cases hlt : i < s.n
  · unfold St.joined at hj
    rw [List.all_eq_true] at hj
    have := hj i (List.mem_range.mpr hlt)
    simp [hi] at this
    exact this
  · have := hk.out i (by omega)
    simp [Thread.done, this.1, this.2]

theorem InvJoin_step {s : St} {t : Tid} {c : Choice} (hk : InvKind s) (h : InvJoin s) (he : enabled s t = true) :
    InvJoin (step s t c) := by
  intro T hT i hi
  rw [step_tx] at hi
  cases t with
  | w j =>
    rw [step_thr_ne _ _ _ _ (by simp : Tid.c T ≠ Tid.w j)] at hT
    have hd := h T hT i hi
    have hij : i ≠ j := by
      intro e; subst e
      have := done_not_enabled_w hd hk
      simp [this] at he
    rw [step_thr_ne _ _ _ _ (by simp [hij] : Tid.w i ≠ Tid.w j)]
    exact hd
  | c T' =>
    rw [step_thr_ne _ _ _ _ (by simp : Tid.w i ≠ Tid.c T')]
    by_cases hTT : T = T'
    · subst hTT
      by_cases hw : (s.thr (.c T)).pc = .cWait
      · have hctx := (hk.c T).2
        unfold enabled at he
        simp only [hw, hctx] at he
        simp at he
        exact joined_spec he.2 hk i hi
      · exact h T hw i hi
    · rw [step_thr_ne _ _ _ _ (by simp [hTT] : Tid.c T ≠ Tid.c T')] at hT
      exact h T hT i hi

end Sema.C11
