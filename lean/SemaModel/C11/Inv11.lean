/- C11 invariants, part 11: who holds the write lock — the steps that matter -/
import SemaModel.C11.Inv10
set_option linter.unusedSimpArgs false
set_option linter.unusedVariables false
namespace Sema.C11

theorem not_mem_eraseIdx_of_keysNodup {l : List (Name × ObjId)} (h : keysNodup l) (k : Nat) (hk : k < l.length) :
    l[k] ∉ l.eraseIdx k := by
  induction l generalizing k with
  | nil => simp at hk
  | cons p r ih =>
    unfold keysNodup at h
    simp only [List.map_cons, List.nodup_cons] at h
    cases k with
    | zero =>
      simp only [List.getElem_cons_zero, List.eraseIdx_cons_zero]
      intro hm
      exact h.1 (List.mem_map.mpr ⟨p, hm, rfl⟩)
    | succ k =>
      simp only [List.getElem_cons_succ, List.eraseIdx_cons_succ, List.mem_cons, not_or]
      have hk' : k < r.length := by simpa using hk
      refine ⟨?_, ih h.2 k hk'⟩
      intro e
      apply h.1
      rw [← e]
      exact List.mem_map.mpr ⟨r[k], List.getElem_mem hk', rfl⟩

theorem mem_eraseIdx_of_ne {l : List (Name × ObjId)} {k : Nat} (hk : k < l.length) {e : Name × ObjId}
    (he : e ∈ l) (hne : e ≠ l[k]) : e ∈ l.eraseIdx k := by
  induction l generalizing k with
  | nil => simp at he
  | cons p r ih =>
    cases k with
    | zero =>
      simp only [List.getElem_cons_zero] at hne
      simp only [List.eraseIdx_cons_zero]
      rcases List.mem_cons.mp he with h | h
      · exact absurd h hne
      · exact h
    | succ k =>
      simp only [List.getElem_cons_succ] at hne
      simp only [List.eraseIdx_cons_succ, List.mem_cons]
      rcases List.mem_cons.mp he with h | h
      · exact Or.inl h
      · exact Or.inr (ih (by simpa using hk) h hne)

set_option maxHeartbeats 4000000 in
/-- Commit steps other than the loop body -/
theorem w_commit_generic {s : St} {T0 : TxId} {c : Choice} (hv : s.v = fixedV) (hw : InvW s)
    (htx : (s.thr (.c T0)).tx = T0) (hne : (s.thr (.c T0)).pc ≠ .cEntry)
    (hcp : isCommitPC (s.thr (.c T0)).pc = true) :
    ∀ o T, o < (step s (.c T0) c).nObj →
      (((step s (.c T0) c).objs o).writer = some T ↔ HeldBy (step s (.c T0) c) T o) := by
  intro o T
  have hwo := hw o T
  unfold HeldBy at *
  by_cases hT : T = T0
  · subst hT
    unfold step
    cases hpc : (s.thr (.c T)).pc <;> simp only [hpc, isCommitPC] at hne hcp <;> step_auto <;> simp_all [stillHeld] <;> grind
  · have hct : Tid.c T ≠ Tid.c T0 := by simp [hT]
    rw [step_thr_ne _ _ _ _ hct]
    unfold step
    cases hpc : (s.thr (.c T0)).pc <;> simp only [hpc, isCommitPC] at hne hcp <;> step_auto <;> grind

set_option maxHeartbeats 4000000 in
/-- the loop body of Commit: one entry is (scrapped, removed from the map and) unlocked -/
theorem w_commit_entry {s : St} {T0 : TxId} {c : Choice} (hv : s.v = fixedV) (hw : InvW s)
    (htx : (s.thr (.c T0)).tx = T0) (hpc : (s.thr (.c T0)).pc = .cEntry)
    (hkeys : keysNodup (s.thr (.c T0)).remaining)
    (hsub : ∀ e, e ∈ (s.thr (.c T0)).remaining → e ∈ (s.txs T0).written)
    (hnm : ∀ n o, (n, o) ∈ (s.thr (.c T0)).remaining → (s.objs o).name = n)
    (hbr : ∀ n o, (n, o) ∈ (s.thr (.c T0)).remaining → o < s.nObj)
    (hpend : (s.txs T0).pend = none) :
    ∀ o T, o < (step s (.c T0) c).nObj →
      (((step s (.c T0) c).objs o).writer = some T ↔ HeldBy (step s (.c T0) c) T o) := by
  intro o T
  have hwo := hw o T
  unfold step
  simp only [hpc, stepAt]
  generalize hk : c.pick % (s.thr (.c T0)).remaining.length = k
  cases hget : (s.thr (.c T0)).remaining[k]? with
  | none =>
    unfold HeldBy at *
    have hnil : (s.thr (.c T0)).remaining = [] := by
      cases hr : (s.thr (.c T0)).remaining with
      | nil => rfl
      | cons e0 r =>
        have hlen : k < (s.thr (.c T0)).remaining.length := by
          rw [← hk]; apply Nat.mod_lt; rw [hr]; simp
        rw [List.getElem?_eq_getElem hlen] at hget
        exact absurd hget (by simp)
    by_cases hT : T = T0
    · subst hT; simp_all [St.setThr, upd, stillHeld]
    · have hct : ¬ Tid.c T = Tid.c T0 := by simp [hT]
      simp_all [St.setThr, upd, stillHeld]
  | some pk =>
    obtain ⟨n1, o1⟩ := pk
    have hlen : k < (s.thr (.c T0)).remaining.length := by
      by_cases h : k < (s.thr (.c T0)).remaining.length
      · exact h
      · rw [List.getElem?_eq_none (by omega)] at hget; exact absurd hget (by simp)
    have hpk : (s.thr (.c T0)).remaining[k] = (n1, o1) := by
      rw [List.getElem?_eq_getElem hlen] at hget; injection hget
    have hmem : (n1, o1) ∈ (s.thr (.c T0)).remaining := by rw [← hpk]; exact List.getElem_mem hlen
    have hnot : (n1, o1) ∉ (s.thr (.c T0)).remaining.eraseIdx k := by
      rw [← hpk]; exact not_mem_eraseIdx_of_keysNodup hkeys k hlen
    have hname1 := hnm n1 o1 hmem
    have hlt1 := hbr n1 o1 hmem
    have hw1 := (hw o1 T0 hlt1).mpr (Or.inr ⟨by rw [hname1]; exact hsub _ hmem, by simp [stillHeld, hpc, hname1, hmem]⟩)
    have hother : ∀ e, e ≠ (n1, o1) → (e ∈ (s.thr (.c T0)).remaining.eraseIdx k ↔ e ∈ (s.thr (.c T0)).remaining) := by
      intro e hne
      constructor
      · exact List.mem_of_mem_eraseIdx
      · intro he; exact mem_eraseIdx_of_ne hlen he (by rw [hpk]; exact hne)
    unfold HeldBy at *
    simp only []
    by_cases hT : T = T0
    · subst hT
      by_cases ho : o = o1
      · subst ho
        split <;> simp_all [St.setThr, St.setObj, upd, stillHeld]
      · have hne : ((s.objs o).name, o) ≠ (n1, o1) := by intro e; injection e with _ e2; exact ho e2
        have := hother _ hne
        split <;> simp_all [St.setThr, St.setObj, upd, stillHeld]
    · have hct : ¬ Tid.c T = Tid.c T0 := by simp [hT]
      have hT' : ¬ T0 = T := fun e => hT e.symm
      by_cases ho : o = o1
      · subst ho
        split <;> simp_all [St.setThr, St.setObj, upd, stillHeld]
      · split <;> simp_all [St.setThr, St.setObj, upd, stillHeld]

end Sema.C11
