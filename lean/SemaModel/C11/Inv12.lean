/- C11 invariants, part 12: who holds the write lock — locking, registering, dropping, allocating -/
import SemaModel.C11.Inv11
set_option linter.unusedSimpArgs false
set_option linter.unusedVariables false
namespace Sema.C11

def allocPC : PC → Bool
  | .rColdCreate | .sCreate | .nCreate => true
  | _ => false

set_option maxHeartbeats 4000000 in
theorem w_alloc {s : St} {t : Tid} {c : Choice} (hv : s.v = fixedV) (hw : InvW s) (hk : InvKind s)
    (hpc : allocPC (s.thr t).pc = true)
    (hbp : ∀ T o, (s.txs T).pend = some o → o < s.nObj)
    (hbw : ∀ T n o, (n, o) ∈ (s.txs T).written → o < s.nObj) :
    ∀ o T, o < (step s t c).nObj → (((step s t c).objs o).writer = some T ↔ HeldBy (step s t c) T o) := by
  intro o T
  have hwo := hw o T
  have hbpT := hbp T
  have hbwT := hbw T
  have hct : Tid.c T ≠ t := by
    intro e; subst e; have := (hk.c T).1
    cases hp : (s.thr (.c T)).pc <;> simp_all [allocPC, isCommitPC]
  unfold HeldBy at *
  rw [step_thr_ne _ _ _ _ hct]
  unfold step
  cases hp : (s.thr t).pc <;> simp only [hp, allocPC] at hpc <;> step_auto <;> grind

set_option maxHeartbeats 4000000 in
theorem w_xObjLock {s : St} {t : Tid} {c : Choice} (hv : s.v = fixedV) (hw : InvW s) (hk : InvKind s)
    (hpc : (s.thr t).pc = .xObjLock) (hbe : (s.thr t).existing < s.nObj)
    (hfree : (s.objs (s.thr t).existing).writer = none) (hpend : (s.txs (s.thr t).tx).pend = none) :
    ∀ o T, o < (step s t c).nObj → (((step s t c).objs o).writer = some T ↔ HeldBy (step s t c) T o) := by
  intro o T
  have hwo := hw o T
  have hwe := hw (s.thr t).existing T hbe
  have hct : Tid.c T ≠ t := by
    intro e; subst e; have := (hk.c T).1; simp [hpc, isCommitPC] at this
  unfold HeldBy at *
  rw [step_thr_ne _ _ _ _ hct]
  unfold step
  simp only [hpc, stepAt]
  by_cases hT : T = (s.thr t).tx <;> by_cases ho : o = (s.thr t).existing <;>
    simp_all [St.setThr, St.setTx, St.setObj, upd] <;> grind

set_option maxHeartbeats 4000000 in
theorem w_nObjLock {s : St} {t : Tid} {c : Choice} (hv : s.v = fixedV) (hw : InvW s) (hk : InvKind s)
    (hpc : (s.thr t).pc = .nObjLock) (hbu : (s.thr t).use < s.nObj)
    (hfree : (s.objs (s.thr t).use).writer = none) (hpend : (s.txs (s.thr t).tx).pend = none) :
    ∀ o T, o < (step s t c).nObj → (((step s t c).objs o).writer = some T ↔ HeldBy (step s t c) T o) := by
  intro o T
  have hwo := hw o T
  have hwe := hw (s.thr t).use T hbu
  have hct : Tid.c T ≠ t := by
    intro e; subst e; have := (hk.c T).1; simp [hpc, isCommitPC] at this
  unfold HeldBy at *
  rw [step_thr_ne _ _ _ _ hct]
  unfold step
  simp only [hpc, stepAt]
  by_cases hT : T = (s.thr t).tx <;> by_cases ho : o = (s.thr t).use <;>
    simp_all [St.setThr, St.setTx, St.setObj, upd] <;> grind

set_option maxHeartbeats 4000000 in
theorem w_xRegister {s : St} {t : Tid} {c : Choice} (hv : s.v = fixedV) (hw : InvW s) (hk : InvKind s)
    (hpc : (s.thr t).pc = .xRegister) (hbe : (s.thr t).existing < s.nObj)
    (hpend : (s.txs (s.thr t).tx).pend = some (s.thr t).existing)
    (hname : (s.objs (s.thr t).existing).name = (s.thr t).acc.name)
    (hnone : ∀ o, ((s.thr t).acc.name, o) ∉ (s.txs (s.thr t).tx).written)
    (hjoin : (s.thr (.c (s.thr t).tx)).pc = .cWait) :
    ∀ o T, o < (step s t c).nObj → (((step s t c).objs o).writer = some T ↔ HeldBy (step s t c) T o) := by
  intro o T
  have hwo := hw o T
  have hwe := hw (s.thr t).existing T hbe
  have hno := hnone o
  have hct : Tid.c T ≠ t := by
    intro e; subst e; have := (hk.c T).1; simp [hpc, isCommitPC] at this
  unfold HeldBy at *
  rw [step_thr_ne _ _ _ _ hct]
  unfold step
  simp only [hpc, stepAt]
  by_cases hT : T = (s.thr t).tx <;> by_cases ho : o = (s.thr t).existing <;>
    simp_all [St.setThr, St.setTx, St.setObj, upd, mem_aput, stillHeld] <;> grind

set_option maxHeartbeats 4000000 in
theorem w_nRegister {s : St} {t : Tid} {c : Choice} (hv : s.v = fixedV) (hw : InvW s) (hk : InvKind s)
    (hpc : (s.thr t).pc = .nRegister) (hbu : (s.thr t).use < s.nObj)
    (hpend : (s.txs (s.thr t).tx).pend = some (s.thr t).use)
    (hname : (s.objs (s.thr t).use).name = (s.thr t).acc.name)
    (hnone : aget (s.txs (s.thr t).tx).written (s.thr t).acc.name = none)
    (hjoin : (s.thr (.c (s.thr t).tx)).pc = .cWait) :
    ∀ o T, o < (step s t c).nObj → (((step s t c).objs o).writer = some T ↔ HeldBy (step s t c) T o) := by
  intro o T
  have hwo := hw o T
  have hwe := hw (s.thr t).use T hbu
  have hno := (aget_none_iff.mp hnone) o
  have hct : Tid.c T ≠ t := by
    intro e; subst e; have := (hk.c T).1; simp [hpc, isCommitPC] at this
  unfold HeldBy at *
  rw [step_thr_ne _ _ _ _ hct]
  unfold step
  simp only [hpc, stepAt, hnone]
  by_cases hT : T = (s.thr t).tx <;> by_cases ho : o = (s.thr t).use <;>
    simp_all [St.setThr, St.setTx, St.setObj, upd, mem_aput, stillHeld] <;> grind

set_option maxHeartbeats 4000000 in
theorem w_nDropOld {s : St} {t : Tid} {c : Choice} (hv : s.v = fixedV) (hw : InvW s) (hk : InvKind s)
    (hpc : (s.thr t).pc = .nDropOld) (hbu : (s.thr t).use < s.nObj)
    (hbw : ∀ n o, (n, o) ∈ (s.txs (s.thr t).tx).written → o < s.nObj)
    (hnw : ∀ n o, (n, o) ∈ (s.txs (s.thr t).tx).written → (s.objs o).name = n)
    (hkeys : keysNodup (s.txs (s.thr t).tx).written)
    (hpend : (s.txs (s.thr t).tx).pend = some (s.thr t).use)
    (huse : ∀ n, (n, (s.thr t).use) ∉ (s.txs (s.thr t).tx).written)
    (hjoin : (s.thr (.c (s.thr t).tx)).pc = .cWait) :
    ∀ o T, o < (step s t c).nObj → (((step s t c).objs o).writer = some T ↔ HeldBy (step s t c) T o) := by
  intro o T
  have hwo := hw o T
  have hct : Tid.c T ≠ t := by
    intro e; subst e; have := (hk.c T).1; simp [hpc, isCommitPC] at this
  unfold HeldBy
  rw [step_thr_ne _ _ _ _ hct]
  unfold step
  simp only [hpc, stepAt]
  cases hold : aget (s.txs (s.thr t).tx).written (s.thr t).acc.name with
  | none => unfold HeldBy at hwo; simp_all [St.setThr]
  | some old =>
    have hm := aget_mem hold
    have hlt := hbw _ _ hm
    have hnm := hnw _ _ hm
    have hwold := (hw old (s.thr t).tx hlt).mpr (Or.inr ⟨by rw [hnm]; exact hm, by simp [stillHeld, hjoin]⟩)
    have hne : old ≠ (s.thr t).use := by intro e; rw [e] at hm; exact huse _ hm
    have huniq : ∀ o', ((s.thr t).acc.name, o') ∈ (s.txs (s.thr t).tx).written → o' = old := by
      intro o' ho'
      have := (mem_iff_aget hkeys).mp ho'
      rw [hold] at this; injection this with e; exact e.symm
    have huo := huniq o
    have hnh : T ≠ (s.thr t).tx → ¬ HeldBy s T old := by
      intro hne' hh
      have := (hw old T hlt).mpr hh
      rw [hwold] at this; injection this with e; exact hne' e.symm
    unfold HeldBy at hwo hnh
    simp only []
    by_cases hT : T = (s.thr t).tx <;> by_cases ho : o = old <;>
      simp_all [St.setThr, St.setTx, St.setObj, upd, stillHeld, List.mem_filter] <;> grind

end Sema.C11
