/-
C11 — the call sites of the cache transaction in shard/shard.go.

The transition system of Model.lean starts from two assumptions about the callers (props/C11.py):
`Commit` is called once per transaction, after the storage transaction has ended, and its argument is
`true` exactly when the storage transaction failed ("a cache touched by a failed transaction is
discarded"). tools/facts_c07 regenerates, for the four entry points of shard.go, where the cache
transaction is created and committed; the facts the assumptions rest on are pinned here, so that a
call site that commits a failed batch as successful (a deferred `Commit(err != nil)` whose argument is
evaluated too early, a `Commit(false)` on an error path, a commit inside the storage closure) breaks
C11's tie.
-/
import SemaModel.Generated.FactsC07
namespace Sema.C11
open Sema.Gen

/-- per entry point (InsertPoints, UpdatePoints, DeletePoints, SearchPoints): the cache transaction
is created before the storage transaction; the error branch after the storage transaction calls
`Commit(true)` and returns the error; the success path calls `Commit(false)`; every later return is
preceded by a commit; there is no commit inside the storage closure -/
theorem C11_callsites_commit :
    FactsC07.entryPoints.map (·.name) = ["InsertPoints", "UpdatePoints", "DeletePoints", "SearchPoints"] ∧
    FactsC07.entryPoints.all (fun e =>
      e.newTxBeforeTx && e.errBranchCommitsTrue && e.errBranchReturnsErr && e.successCommitsFalse &&
      e.laterReturnsCommit && e.noCommitInClosure) = true := by decide

end Sema.C11
