/- C11 invariants, part 13: the invariants together; who holds the write lock — assembly -/
import SemaModel.C11.Inv12
set_option linter.unusedSimpArgs false
set_option linter.unusedVariables false
namespace Sema.C11

structure Inv (s : St) : Prop where
  kind : InvKind s
  mgr : InvMgr s
  tx : InvTx s
  join : InvJoin s
  defers : InvDefers s
  bounds : InvBounds s
  rd : InvRd s
  pub : InvPub s
  names : InvNames s
  keys : InvKeys s
  none : InvNone s
  remsub : InvRemSub s
  pend : InvPend s
  w : InvW s

/-- a `With` goroutine that is not done keeps the committer of its transaction waiting -/
theorem cWait_of_active {s : St} (h : Inv s) {i : Nat} (hnd : (s.thr (.w i)).done = false) :
    (s.thr (.c (s.thr (.w i)).tx)).pc = .cWait := by
  cases hp : (s.thr (.c (s.thr (.w i)).tx)).pc with
  | cWait => rfl
  | _ =>
    have := h.join (s.thr (.w i)).tx (by rw [hp]; simp) i rfl
    rw [hnd] at this; exact absurd this (by simp)

theorem pend_of_holder {s : St} (h : Inv s) {t : Tid} (ht : holdsTx (s.thr t) = true) :
    (s.txs (s.thr t).tx).pend = pendOf (s.thr t) := by
  have hmu := (h.tx (s.thr t).tx t).mpr ⟨rfl, ht⟩
  have := h.pend (s.thr t).tx
  rw [hmu] at this; exact this

theorem pend_bound {s : St} (h : Inv s) : ∀ T o, (s.txs T).pend = some o → o < s.nObj := by
  intro T o hp
  have := h.pend T
  rw [hp] at this
  cases hmu : (s.txs T).mu with
  | none => rw [hmu] at this; exact absurd this (by simp)
  | some u =>
    rw [hmu] at this
    unfold pendOf at this
    cases hpc : (s.thr u).pc <;> simp [hpc] at this
    · rw [this]; exact h.bounds.ex u (by simp [hpc, exValid])
    · rw [this]; exact h.bounds.use u (by simp [hpc, useValid])
    · rw [this]; exact h.bounds.use u (by simp [hpc, useValid])

/-- the fresh object of the new-cache branch is in no `writtenCaches` before it is registered -/
theorem new_not_written {s : St} (h : Inv s) {t : Tid} (hp : newPriv (s.thr t).pc = true) :
    ∀ T n, (n, (s.thr t).use) ∉ (s.txs T).written := by
  intro T n hm
  have hpr := h.pub.priv t hp
  rcases h.pub.wr T n _ hm with h1 | ⟨h1, _, _⟩
  · rw [hpr.2.1] at h1; exact absurd h1 (by simp)
  · rw [hpr.1] at h1; rw [h1] at hp; simp [newPriv] at hp

theorem worker_not_done {s : St} {i : Nat} (hp : (s.thr (.w i)).pc ≠ .idle) (hw : isCommitPC (s.thr (.w i)).pc = false) :
    (s.thr (.w i)).done = false := by
  unfold Thread.done
  cases hpc : (s.thr (.w i)).pc <;> simp_all [isCommitPC]

theorem InvW_step {s : St} {t : Tid} {c : Choice} (h : Inv s) (he : enabled s t = true) : InvW (step s t c) := by
  have hv := h.kind.v
  cases t with
  | c T0 =>
    have hkc := h.kind.c T0
    by_cases hpc : (s.thr (.c T0)).pc = .cEntry
    · have hpend : (s.txs T0).pend = none := by
        have := pend_of_holder h (t := .c T0) (cEntry_holdsTx hpc)
        rw [hkc.2] at this; rw [this]; simp [pendOf, hpc]
      exact w_commit_entry hv h.w hkc.2 hpc (h.keys.rem _) (h.remsub T0 hpc) (h.names.rem _) (h.bounds.rem _) hpend
    · exact w_commit_generic hv h.w hkc.2 hpc hkc.1
  | w i =>
    have hwk := h.kind.w i
    by_cases hsp : wSpecial (s.thr (.w i)).pc = true
    · have hnd : (s.thr (.w i)).done = false :=
        worker_not_done (by intro e; rw [e] at hsp; simp [wSpecial] at hsp) hwk
      have hjoin := cWait_of_active h hnd
      cases hpc : (s.thr (.w i)).pc <;> simp only [hpc, wSpecial] at hsp <;> (try cases hsp)
      · -- rColdCreate
        exact w_alloc hv h.w h.kind (by simp [hpc, allocPC]) (pend_bound h) h.bounds.wr
      · -- xObjLock
        have hfree : (s.objs (s.thr (.w i)).existing).writer = none := by
          unfold enabled at he; simp [hpc, Obj.free] at he; exact he.2.2
        have hpend := pend_of_holder h (t := .w i) (by simp [holdsTx, hpc])
        exact w_xObjLock hv h.w h.kind hpc (h.bounds.ex _ (by simp [hpc, exValid])) hfree
          (by rw [hpend]; simp [pendOf, hpc])
      · -- xRegister
        have hpend := pend_of_holder h (t := .w i) (by simp [holdsTx, hpc])
        exact w_xRegister hv h.w h.kind hpc (h.bounds.ex _ (by simp [hpc, exValid]))
          (by rw [hpend]; simp [pendOf, hpc]) (h.names.ex _ (by simp [hpc, exValid]))
          (aget_none_iff.mp (h.none _ (by simp [hpc, nonePC]))) hjoin
      · -- sCreate
        exact w_alloc hv h.w h.kind (by simp [hpc, allocPC]) (pend_bound h) h.bounds.wr
      · -- nCreate
        exact w_alloc hv h.w h.kind (by simp [hpc, allocPC]) (pend_bound h) h.bounds.wr
      · -- nObjLock
        have hfree : (s.objs (s.thr (.w i)).use).writer = none := by
          unfold enabled at he; simp [hpc, Obj.free] at he; exact he.2.2
        have hpend := pend_of_holder h (t := .w i) (by simp [holdsTx, hpc])
        exact w_nObjLock hv h.w h.kind hpc (h.bounds.use _ (by simp [hpc, useValid])) hfree
          (by rw [hpend]; simp [pendOf, hpc])
      · -- nDropOld
        have hpend := pend_of_holder h (t := .w i) (by simp [holdsTx, hpc])
        exact w_nDropOld hv h.w h.kind hpc (h.bounds.use _ (by simp [hpc, useValid])) (h.bounds.wr _) (h.names.wr _)
          (h.keys.wr _) (by rw [hpend]; simp [pendOf, hpc])
          (fun n => new_not_written h (t := .w i) (by simp [hpc, newPriv]) _ n) hjoin
      · -- nRegister
        have hpend := pend_of_holder h (t := .w i) (by simp [holdsTx, hpc])
        exact w_nRegister hv h.w h.kind hpc (h.bounds.use _ (by simp [hpc, useValid]))
          (by rw [hpend]; simp [pendOf, hpc]) (h.names.nw _ (by simp [hpc, newObjPC]))
          (h.none _ (by simp [hpc, nonePC])) hjoin
    · exact w_worker_generic hv h.w h.kind (h.bounds.use _) (h.bounds.ex _) hwk (by simpa using hsp)

/-! ### the invariants hold initially, after every step, after every eviction -/

theorem Inv_step {s : St} {t : Tid} {c : Choice} (h : Inv s) (he : enabled s t = true) : Inv (step s t c) :=
  { kind := InvKind_step h.kind he
    mgr := InvMgr_step h.mgr he
    tx := InvTx_step h.kind h.tx he
    join := InvJoin_step h.kind h.join he
    defers := InvDefers_step h.kind h.defers he
    bounds := InvBounds_step h.kind h.bounds
    rd := InvRd_step h.kind h.defers h.bounds h.rd he
    pub := InvPub_step h.kind h.mgr h.tx h.bounds h.pub
    names := InvNames_step h.kind h.bounds h.names
    keys := InvKeys_step h.keys
    none := InvNone_step h.kind h.tx h.none
    remsub := InvRemSub_step h.kind h.tx h.remsub
    pend := InvPend_step h.kind h.tx h.pend he
    w := InvW_step h he }

theorem Inv_evict {s : St} (ns : List Name) (h : Inv s) : Inv (evict s ns) :=
  { kind := ⟨h.kind.v, h.kind.w, h.kind.c, h.kind.out, h.kind.legacy, h.kind.ro, h.kind.rw, h.kind.txb⟩
    mgr := h.mgr
    tx := h.tx
    join := h.join
    defers := h.defers
    bounds := ⟨by intro n o hm; simp only [evict] at hm; split at hm <;> first | exact absurd hm (by simp) | exact h.bounds.map n o hm,
               h.bounds.wr, h.bounds.rem, h.bounds.df, h.bounds.ex, h.bounds.use⟩
    rd := ⟨h.rd.rl, h.rd.nodup, h.rd.excl⟩
    pub := ⟨h.pub.ex, h.pub.use, h.pub.df, h.pub.rem,
            by intro n o hm; simp only [evict] at hm; split at hm <;> first | exact absurd hm (by simp) | exact h.pub.map n o hm,
            h.pub.wr, h.pub.priv, h.pub.late, h.pub.cold⟩
    names := ⟨by intro n o hm; simp only [evict] at hm; split at hm <;> first | exact absurd hm (by simp) | exact h.names.map n o hm,
              h.names.wr, h.names.rem, h.names.ex, h.names.nw⟩
    keys := ⟨h.keys.wr, h.keys.rem⟩
    none := h.none
    remsub := h.remsub
    pend := h.pend
    w := h.w }

end Sema.C11
