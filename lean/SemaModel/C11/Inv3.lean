/- C11 invariants, part 3: the defer stack of a running `With`; object ids in use are allocated -/
import SemaModel.C11.Inv2
set_option linter.unusedSimpArgs false
set_option linter.unusedVariables false
namespace Sema.C11

/-! ### association lists -/

theorem aget_mem {l : List (Name × ObjId)} {n : Name} {o : ObjId} (h : aget l n = some o) : (n, o) ∈ l := by
  induction l with
  | nil => simp [aget] at h
  | cons p r ih =>
    obtain ⟨k, v⟩ := p
    unfold aget at h
    by_cases hk : k = n
    · simp [hk] at h; subst h; subst hk; simp
    · simp [hk] at h; exact List.mem_cons_of_mem _ (ih h)

theorem mem_aput {l : List (Name × ObjId)} {n n' : Name} {o o' : ObjId} :
    (n', o') ∈ aput l n o ↔ (n' = n ∧ o' = o) ∨ ((n', o') ∈ l ∧ n' ≠ n) := by
  simp [aput, List.mem_filter]

theorem aget_filter_ne (l : List (Name × ObjId)) (n n' : Name) :
    aget (l.filter (fun p => p.1 != n)) n' = if n' = n then none else aget l n' := by
  induction l with
  | nil => simp [aget]
  | cons p r ih =>
    obtain ⟨k, v⟩ := p
    simp only [List.filter_cons]
    by_cases hk : k = n
    · subst hk
      simp only [bne_self_eq_false, Bool.false_eq_true, if_false, ih, aget]
      by_cases h : n' = k
      · simp [h]
      · have h' : ¬ k = n' := fun e => h e.symm
        simp [h, h']
    · have hb : (k != n) = true := by simp [hk]
      simp only [hb, if_true, aget, ih]
      by_cases hk' : k = n'
      · subst hk'; simp [hk]
      · simp [hk']

theorem aget_aput (l : List (Name × ObjId)) (n n' : Name) (o : ObjId) :
    aget (aput l n o) n' = if n' = n then some o else aget l n' := by
  unfold aput
  simp only [aget, aget_filter_ne]
  by_cases h : n' = n
  · subst h; simp
  · have h' : ¬ n = n' := fun e => h e.symm
    simp [h, h']

/-! ### defer stack -/

def noRunlock : List Defer → Bool
  | [] => true
  | .prune :: r => noRunlock r
  | .runlock _ :: _ => false

def shapeOK : List Defer → Bool
  | [] | [.prune] | [.runlock _] | [.prune, .runlock _] | [.runlock _, .prune] => true
  | _ => false

def DefersOK (th : Thread) : Prop :=
  (noRunlock th.defers = true ∨ th.acc.ro = true) ∧
  match th.pc with
  | .nRLock | .nObjLock | .nTxLock | .nDropOld | .nRegister | .nTxUnlock => th.defers = [] ∨ th.defers = [.prune]
  | .chkScrapped | .sCreate => th.defers = [] ∨ ∃ o, th.defers = [.runlock o]
  | .nMgrUnlock | .callF | .inF | .fScrap | .fMgrLock | .fDelete | .fMgrUnlock =>
    th.defers = [] ∨ th.defers = [.prune] ∨ ∃ o, th.defers = [.runlock o] ∨ th.defers = [.prune, .runlock o] ∨
      th.defers = [.runlock o, .prune]
  | .pEnter | .pMgrLock | .pBody | .pMgrUnlock => th.defers = [.prune] ∨ ∃ o, th.defers = [.prune, .runlock o]
  | .dRUnlock => ∃ o, th.defers = [.runlock o] ∨ th.defers = [.runlock o, .prune]
  | _ => th.defers = []

def InvDefers (s : St) : Prop := ∀ t, DefersOK (s.thr t)

theorem InvDefers_step {s : St} {t : Tid} {c : Choice} (hk : InvKind s) (h : InvDefers s) (he : enabled s t = true) :
    InvDefers (step s t c) := by
  intro t'
  have hv := hk.v
  by_cases htt : t' = t
  · subst htt
    have ht := h t'
    have hro := hk.ro t'
    unfold DefersOK at ht
    unfold step
    cases hpc : (s.thr t').pc <;> simp only [hpc, roPC] at hro <;> simp only [hpc] at ht <;>
      simp only [stepAt, Thread.popReturn, Thread.doReturn] <;> (repeat' split) <;>
      simp_all [St.setThr, St.setTx, St.setObj, St.alloc, DefersOK, noRunlock, fixedV, pushPrune] <;>
      grind [noRunlock]
  · rw [step_thr_ne _ _ _ _ htt]; exact h t'

end Sema.C11
