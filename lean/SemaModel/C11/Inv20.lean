/- C11 invariants, part 20: objects scrapped by a transaction that held their write lock -/
import SemaModel.C11.Inv19
set_option linter.unusedSimpArgs false
set_option linter.unusedVariables false
namespace Sema.C11

structure InvDirty (s : St) : Prop where
  d1 : ∀ o, o < s.nObj → (s.objs o).dirty ≠ none → (s.objs o).scrapped = true
  d2 : ∀ t T', (postCheck (s.thr t).pc = true ∨ newHeld (s.thr t).pc = true) →
    (s.objs (s.thr t).use).dirty = some T' → (s.thr t).tx = T'
  d3 : ∀ o, o < s.nObj → (s.objs o).dropped ≠ none → (s.objs o).dirty ≠ none
  d5 : ∀ t, newPriv (s.thr t).pc = true → (s.objs (s.thr t).use).dirty = none

set_option maxHeartbeats 4000000 in
/-- who sets the `dirty` mark (first setter wins) -/
theorem step_dirty_sub {s : St} {t : Tid} {c : Choice} {o : ObjId} (ho : o < s.nObj)
    (h : ((step s t c).objs o).dirty ≠ none) :
    (s.objs o).dirty ≠ none ∨
    (((step s t c).objs o).dirty = some (s.thr t).tx ∧ ((step s t c).objs o).scrapped = true ∧
      (((s.thr t).pc = .fScrap ∧ o = (s.thr t).use ∧ (s.objs o).writer = some (s.thr t).tx) ∨
       ((s.thr t).pc = .cEntry ∧ ∃ n, (n, o) ∈ (s.thr t).remaining) ∨
       ((s.thr t).pc = .nDropOld ∧ aget (s.txs (s.thr t).tx).written (s.thr t).acc.name = some o))) := by
  revert h
  unfold step
  cases hpc : (s.thr t).pc <;> step_auto <;> grind [List.mem_of_getElem?]

set_option maxHeartbeats 4000000 in
theorem step_dirty_stable {s : St} {t : Tid} {c : Choice} {o : ObjId} {A : TxId} (ho : o < s.nObj)
    (h : (s.objs o).dirty = some A) : ((step s t c).objs o).dirty = some A := by
  unfold step
  cases hpc : (s.thr t).pc <;> step_auto <;> grind

set_option maxHeartbeats 4000000 in
/-- a replacement marks the replaced object dirty (if it was not yet) -/
theorem nDropOld_dirty {s : St} {t : Tid} {c : Choice} {o : ObjId} (hpc : (s.thr t).pc = .nDropOld)
    (ho : aget (s.txs (s.thr t).tx).written (s.thr t).acc.name = some o) :
    ((step s t c).objs o).dirty ≠ none := by
  unfold step
  simp only [hpc, stepAt, ho]
  cases hd : (s.objs o).dirty <;> simp [St.setThr, St.setTx, St.setObj, hd]

set_option maxHeartbeats 4000000 in
theorem dirty_self {s : St} {t : Tid} {c : Choice} (hv : s.v = fixedV)
    (hleg : (s.thr t).pc ≠ .xTxLock ∧ (s.thr t).pc ≠ .nTxLock)
    (hbu : useValid (s.thr t).pc = true → (s.thr t).use < s.nObj)
    (hd1 : ∀ o, o < s.nObj → (s.objs o).dirty ≠ none → (s.objs o).scrapped = true)
    (h2 : ∀ T', (postCheck (s.thr t).pc = true ∨ newHeld (s.thr t).pc = true) →
      (s.objs (s.thr t).use).dirty = some T' → (s.thr t).tx = T')
    (h5 : newPriv (s.thr t).pc = true → (s.objs (s.thr t).use).dirty = none)
    (hne : (s.thr t).pc = .nDropOld → ∀ o, aget (s.txs (s.thr t).tx).written (s.thr t).acc.name = some o → o ≠ (s.thr t).use) :
    (∀ T', (postCheck ((step s t c).thr t).pc = true ∨ newHeld ((step s t c).thr t).pc = true) →
      ((step s t c).objs ((step s t c).thr t).use).dirty = some T' → ((step s t c).thr t).tx = T') ∧
    (newPriv ((step s t c).thr t).pc = true → ((step s t c).objs ((step s t c).thr t).use).dirty = none) := by
  have hdu := hd1 (s.thr t).use
  unfold step
  cases hpc : (s.thr t).pc <;> simp only [hpc, postCheck, newHeld, newPriv, useValid] at h2 h5 hbu hdu hleg hne <;>
    step_auto <;> grind [postCheck, newHeld, newPriv]

theorem newPriv_active {p : PC} (h : newPriv p = true) : p ≠ .idle ∧ isCommitPC p = false := by
  cases p <;> simp_all [newPriv, isCommitPC]

set_option maxHeartbeats 4000000 in
theorem InvDirty_step {s : St} {t : Tid} {c : Choice} (a : AllInv s) (hd : InvDirty s) (he : enabled s t = true) :
    InvDirty (step s t c) := by
  have h := a.inv
  have hself := dirty_self (c := c) h.kind.v (h.kind.legacy t) (h.bounds.use t) hd.d1 (hd.d2 t) (hd.d5 t)
    (by
      intro hpc o ho e
      exact new_not_written h (t := t) (by simp [hpc, newPriv]) _ _ (by rw [← e]; exact aget_mem ho))
  -- the writer of an object this step marks dirty for the first time
  have hwr : ∀ o, o < s.nObj → (s.objs o).dirty = none → ((step s t c).objs o).dirty ≠ none →
      ((step s t c).objs o).dirty = some (s.thr t).tx ∧ (s.objs o).writer = some (s.thr t).tx ∧
      (s.thr t).pc ≠ .idle ∧ ((s.thr t).pc = .cEntry ∨ isCommitPC (s.thr t).pc = false) := by
    intro o ho hn hne
    rcases step_dirty_sub ho hne with h1 | ⟨h1, _, h2⟩
    · exact absurd hn h1
    · refine ⟨h1, ?_⟩
      rcases h2 with ⟨h2, h3, h4⟩ | ⟨h2, n, h3⟩ | ⟨h2, h3⟩
      · exact ⟨h4, by simp [h2], Or.inr (by simp [h2, isCommitPC])⟩
      · refine ⟨?_, by simp [h2], Or.inl h2⟩
        cases t with
        | w i => have := h.kind.w i; rw [h2] at this; simp [isCommitPC] at this
        | c T =>
          have htx := (h.kind.c T).2
          have hnm := h.names.rem _ n o h3
          rw [htx]
          exact (h.w o T ho).mpr (Or.inr ⟨by rw [hnm]; exact h.remsub T h2 _ h3, by simp [stillHeld, h2, hnm, h3]⟩)
      · exact ⟨writer_of_registered h (t := t) (by simp [h2]) (by simp [h2, isCommitPC]) (aget_mem h3), by simp [h2],
          Or.inr (by simp [h2, isCommitPC])⟩
  refine ⟨?_, ?_, ?_, ?_⟩
  · -- d1
    intro o ho hne
    by_cases hlt : o < s.nObj
    · rcases step_dirty_sub hlt hne with h1 | ⟨_, h1, _⟩
      · exact step_scrapped_mono hlt (hd.d1 o hlt h1)
      · exact h1
    · exfalso
      revert hne ho
      unfold step
      cases hpc : (s.thr t).pc <;> step_auto <;> grind
  · -- d2
    intro t' T'
    by_cases htt : t' = t
    · subst htt; exact hself.1 T'
    · intro hp hdy
      rw [step_thr_ne _ _ _ _ htt] at hp hdy ⊢
      have huv : useValid (s.thr t').pc = true := by
        rcases hp with hp | hp
        · exact postCheck_useValid hp
        · exact newHeld_useValid hp
      have hlt := h.bounds.use t' huv
      cases hd0 : (s.objs (s.thr t').use).dirty with
      | some B =>
        have := step_dirty_stable (t := t) (c := c) hlt hd0
        rw [this] at hdy; injection hdy with hdy; rw [← hdy]
        exact hd.d2 t' B hp hd0
      | none =>
        obtain ⟨h1, h2, h3, h4⟩ := hwr _ hlt hd0 (by rw [hdy]; simp)
        rw [h1] at hdy; injection hdy with hdy; rw [← hdy]
        have hact := postCheck_active hp
        have hsrc : Src s t' ∨ (s.objs (s.thr t').use).dropped = some (s.thr t').tx := by
          rcases hp with hp | hp
          · exact a.use.post t' hp
          · rcases a.use.newh t' hp with h5 | h5
            · exact Or.inl (Or.inr (Or.inl h5))
            · exact Or.inl (Or.inr (Or.inr h5))
        rcases hsrc with (c1 | c1 | c1) | c1
        · have := (a.own.coldfree _ hlt c1).2.1; rw [h2] at this; exact absurd this (by simp)
        · have hr := (h.rd.rl t' _).mpr c1
          have := h.rd.excl _ (by rw [h2]; simp); rw [this] at hr; simp at hr
        · have := writer_of_registered h (t := t') hact.1 hact.2 c1
          rw [h2] at this; injection this with e; exact e.symm
        · have := hd.d3 _ hlt (by rw [c1]; simp); exact absurd hd0 this
  · -- d3
    intro o ho hne
    by_cases hlt : o < s.nObj
    · rcases step_dropped_sub hlt hne with h1 | ⟨h1, h2⟩
      · have := hd.d3 o hlt h1
        cases hd0 : (s.objs o).dirty with
        | none => exact absurd hd0 this
        | some B => rw [step_dirty_stable hlt hd0]; simp
      · exact nDropOld_dirty h1 h2
    · exfalso
      revert hne ho
      unfold step
      cases hpc : (s.thr t).pc <;> step_auto <;> grind
  · -- d5
    intro t'
    by_cases htt : t' = t
    · subst htt; exact hself.2
    · intro hp
      rw [step_thr_ne _ _ _ _ htt] at hp ⊢
      have hlt := h.bounds.use t' (newPriv_useValid hp)
      have hpr := h.pub.priv t' hp
      cases hd1 : ((step s t c).objs (s.thr t').use).dirty with
      | none => rfl
      | some B =>
        exfalso
        have hne : ((step s t c).objs (s.thr t').use).dirty ≠ none := by rw [hd1]; simp
        rcases step_dirty_sub hlt hne with h1 | ⟨_, _, h2⟩
        · exact h1 (hd.d5 t' hp)
        · rcases h2 with ⟨h2, h3, _⟩ | ⟨h2, n, h3⟩ | ⟨h2, h3⟩
          · rcases h.pub.use t (by simp [h2, useValid]) with h4 | h4
            · rw [← h3, hpr.2.1] at h4; exact absurd h4 (by simp)
            · rw [← h3, hpr.1] at h4; exact htt h4
          · have := h.pub.rem t n _ h3; rw [hpr.2.1] at this; exact absurd this (by simp)
          · have hmu := (h.tx (s.thr t).tx t).mpr ⟨rfl, by simp [holdsTx, h2]⟩
            have := wr_pub_of_holder h.tx (h.pub.wr _) hmu (by simp [h2]) _ _ (aget_mem h3)
            rw [hpr.2.1] at this; exact absurd this (by simp)

theorem InvDirty_init {s : St} (hi : Init s) : InvDirty s := by
  have ht := init_thr hi
  refine ⟨?_, ?_, ?_, ?_⟩
  · intro o ho; rw [hi.nObj] at ho; exact absurd ho (by simp)
  · intro t T' h; rcases (ht t).1 with h' | h' <;> simp [postCheck, newHeld, h'] at h
  · intro o ho; rw [hi.nObj] at ho; exact absurd ho (by simp)
  · intro t h; rcases (ht t).1 with h' | h' <;> simp [newPriv, h'] at h

theorem InvDirty_evict {s : St} (ns : List Name) (h : InvDirty s) : InvDirty (evict s ns) := ⟨h.d1, h.d2, h.d3, h.d5⟩

theorem AllInv_evict {s : St} (ns : List Name) (a : AllInv s) : AllInv (evict s ns) :=
  ⟨Inv_evict ns a.inv, InvOut_evict ns a.out, InvDb_evict ns a.db, InvNewMap_evict ns a.nm,
    InvFD_evict ns a.fd, InvUse_evict ns a.use, InvOwn_evict ns a.own⟩

theorem dirty_reachable {s0 s : St} (hi : Init s0) (hv : s0.v = fixedV) (hr : Reachable s0 s) : AllInv s ∧ InvDirty s := by
  induction hr with
  | init => exact ⟨all_reachable hi hv Reachable.init, InvDirty_init hi⟩
  | step t c hr' he ih => exact ⟨all_reachable hi hv (Reachable.step t c hr' he), InvDirty_step ih.1 ih.2 he⟩
  | evict ns hr' ih => exact ⟨AllInv_evict ns ih.1, InvDirty_evict ns ih.2⟩

end Sema.C11
