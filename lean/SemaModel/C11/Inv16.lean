/- C11 invariants, part 16: what a failed transaction (or a replacement) has released is scrapped and
   out of the map for ever -/
import SemaModel.C11.Inv15
set_option linter.unusedSimpArgs false
set_option linter.unusedVariables false
namespace Sema.C11

/-- new-cache branch before the store: the name is not in the map (the manager mutex is held since the
lookup); after the store: it maps to the fresh object, or has been evicted -/
def newEarly : PC → Bool
  | .nCreate | .nFailMgrUnlock | .nStore => true
  | _ => false

structure InvNewMap (s : St) : Prop where
  early : ∀ t, newEarly (s.thr t).pc = true → s.map (s.thr t).acc.name = none
  late : ∀ t, newLate (s.thr t).pc = true →
    s.map (s.thr t).acc.name = none ∨ s.map (s.thr t).acc.name = some (s.thr t).use

set_option maxHeartbeats 2000000 in
theorem newmap_self {s : St} {t : Tid} {c : Choice} (hv : s.v = fixedV)
    (h1 : newEarly (s.thr t).pc = true → s.map (s.thr t).acc.name = none)
    (h2 : newLate (s.thr t).pc = true →
      s.map (s.thr t).acc.name = none ∨ s.map (s.thr t).acc.name = some (s.thr t).use) :
    (newEarly ((step s t c).thr t).pc = true → (step s t c).map ((step s t c).thr t).acc.name = none) ∧
    (newLate ((step s t c).thr t).pc = true →
      (step s t c).map ((step s t c).thr t).acc.name = none ∨
      (step s t c).map ((step s t c).thr t).acc.name = some ((step s t c).thr t).use) := by
  unfold step
  cases hpc : (s.thr t).pc <;> simp only [hpc, newEarly, newLate] at h1 h2 <;> step_auto <;> grind [newEarly, newLate]

set_option maxHeartbeats 2000000 in
/-- only the holder of the manager mutex adds or changes a map entry; anybody may remove one -/
theorem step_map_other {s : St} {t : Tid} {c : Choice} (n : Name) :
    (step s t c).map n = s.map n ∨ (step s t c).map n = none ∨ holdsMgr (s.thr t).pc = true := by
  unfold step
  cases hpc : (s.thr t).pc <;> step_auto <;> grind [holdsMgr]

theorem newEarly_holdsMgr {p : PC} (h : newEarly p = true) : holdsMgr p = true := by
  cases p <;> simp_all [newEarly, holdsMgr]

theorem InvNewMap_step {s : St} {t : Tid} {c : Choice} (h : Inv s) (hm : InvNewMap s) : InvNewMap (step s t c) := by
  have hself := newmap_self (c := c) h.kind.v (hm.early t) (hm.late t)
  refine ⟨?_, ?_⟩
  · intro t'
    by_cases htt : t' = t
    · subst htt; exact hself.1
    · rw [step_thr_ne _ _ _ _ htt]
      intro hp
      rcases step_map_other (s := s) (t := t) (c := c) (s.thr t').acc.name with h1 | h1 | h1
      · rw [h1]; exact hm.early t' hp
      · exact h1
      · have e1 := (h.mgr t).mpr h1
        have e2 := (h.mgr t').mpr (newEarly_holdsMgr hp)
        rw [e1] at e2; injection e2 with e2; exact absurd e2.symm htt
  · intro t'
    by_cases htt : t' = t
    · subst htt; exact hself.2
    · rw [step_thr_ne _ _ _ _ htt]
      intro hp
      rcases step_map_other (s := s) (t := t) (c := c) (s.thr t').acc.name with h1 | h1 | h1
      · rw [h1]; exact hm.late t' hp
      · exact Or.inl h1
      · have e1 := (h.mgr t).mpr h1
        have e2 := (h.mgr t').mpr (newLate_holdsMgr hp)
        rw [e1] at e2; injection e2 with e2; exact absurd e2.symm htt

theorem InvNewMap_evict {s : St} (ns : List Name) (hm : InvNewMap s) : InvNewMap (evict s ns) := by
  refine ⟨?_, ?_⟩
  · intro t hp; simp only [evict]; split
    · rfl
    · exact hm.early t hp
  · intro t hp; simp only [evict]; split
    · exact Or.inl rfl
    · exact hm.late t hp

theorem InvNewMap_init {s : St} (hi : Init s) : InvNewMap s :=
  ⟨fun t _ => hi.map _, fun t _ => Or.inl (hi.map _)⟩

/-! ### released by a failed Commit, or replaced: scrapped, published, not in the map -/

def Gone (s : St) (o : ObjId) : Prop :=
  (s.objs o).scrapped = true ∧ (s.objs o).pub = true ∧ ∀ n, s.map n ≠ some o

set_option maxHeartbeats 2000000 in
theorem step_scrapped_mono {s : St} {t : Tid} {c : Choice} {o : ObjId} (ho : o < s.nObj)
    (h : (s.objs o).scrapped = true) : ((step s t c).objs o).scrapped = true := by
  unfold step
  cases hpc : (s.thr t).pc <;> step_auto <;> grind

theorem gone_stable {s : St} {t : Tid} {c : Choice} (h : Inv s) {o : ObjId} (ho : o < s.nObj) (hg : Gone s o) :
    Gone (step s t c) o := by
  refine ⟨step_scrapped_mono ho hg.1, step_pub_mono ho hg.2.1, ?_⟩
  intro n hm
  rcases step_map_sub hm with h1 | ⟨h1, h2⟩
  · exact hg.2.2 n h1
  · have := (h.pub.priv t (by simp [h1, newPriv])).2.1
    rw [← h2, hg.2.1] at this; exact absurd this (by simp)

def releasedBy (cth : Thread) (e : Name × ObjId) : Prop :=
  match cth.pc with
  | .cEntry => e ∉ cth.remaining
  | .cMgrUnlock | .cTxUnlock | .cDone => True
  | _ => False

def bad (x : Tx) : Bool := x.failed || x.commitFail

structure InvFD (s : St) : Prop where
  rel : ∀ T n o, (n, o) ∈ (s.txs T).written → bad (s.txs T) = true → releasedBy (s.thr (.c T)) (n, o) → Gone s o
  drp : ∀ o, o < s.nObj → (s.objs o).dropped ≠ none → Gone s o

set_option maxHeartbeats 2000000 in
/-- only `nDropOld` sets the `dropped` mark -/
theorem step_dropped_sub {s : St} {t : Tid} {c : Choice} {o : ObjId} (ho : o < s.nObj)
    (h : ((step s t c).objs o).dropped ≠ none) :
    (s.objs o).dropped ≠ none ∨
      ((s.thr t).pc = .nDropOld ∧ aget (s.txs (s.thr t).tx).written (s.thr t).acc.name = some o) := by
  revert h
  unfold step
  cases hpc : (s.thr t).pc <;> step_auto <;> grind

set_option maxHeartbeats 2000000 in
/-- what `nDropOld` does to the replaced object -/
theorem nDropOld_effect {s : St} {t : Tid} {c : Choice} {o : ObjId} (hpc : (s.thr t).pc = .nDropOld)
    (ho : aget (s.txs (s.thr t).tx).written (s.thr t).acc.name = some o) :
    ((step s t c).objs o).scrapped = true ∧ (step s t c).map = s.map := by
  unfold step
  simp [hpc, stepAt, ho, St.setThr, St.setTx, St.setObj]

set_option maxHeartbeats 2000000 in
/-- only a `With` goroutine of the transaction changes its `failed` flag; `commitFail` never changes -/
theorem step_bad {s : St} {t : Tid} {c : Choice} {T : TxId}
    (h : bad ((step s t c).txs T) = true) :
    bad (s.txs T) = true ∨ ((s.thr t).tx = T ∧ isCommitPC (s.thr t).pc = false ∧ (s.thr t).pc ≠ .idle) := by
  revert h
  unfold bad step
  cases hpc : (s.thr t).pc <;> step_auto <;> grind [isCommitPC]

set_option maxHeartbeats 4000000 in
/-- the committer's own step -/
theorem fd_rel_commit {s : St} {T : TxId} {c : Choice} (h : Inv s) (hf : InvFD s) :
    ∀ n o, (n, o) ∈ ((step s (.c T) c).txs T).written → bad ((step s (.c T) c).txs T) = true →
      releasedBy ((step s (.c T) c).thr (.c T)) (n, o) → Gone (step s (.c T) c) o := by
  intro n o hm hb hr
  have hcp := (h.kind.c T).1
  have htx := (h.kind.c T).2
  -- Commit changes neither writtenCaches nor the failed flag
  have hw : ((step s (.c T) c).txs T).written = (s.txs T).written ∧ bad ((step s (.c T) c).txs T) = bad (s.txs T) := by
    unfold bad step
    cases hpc : (s.thr (.c T)).pc <;> simp only [hpc, isCommitPC] at hcp <;> step_auto <;> grind
  rw [hw.1] at hm
  rw [hw.2] at hb
  have hlt := h.bounds.wr T n o hm
  by_cases hpc : (s.thr (.c T)).pc = .cEntry
  · -- the loop body
    have hsub := h.remsub T hpc
    have hkeys := h.keys.rem (.c T)
    by_cases hrel : (n, o) ∈ (s.thr (.c T)).remaining
    · -- this step releases (n, o), or another entry
      revert hr
      unfold Gone releasedBy step
      simp only [hpc, stepAt]
      generalize hk : c.pick % (s.thr (.c T)).remaining.length = k
      cases hget : (s.thr (.c T)).remaining[k]? with
      | none =>
        have hlen : ¬ k < (s.thr (.c T)).remaining.length := by
          intro hl; rw [List.getElem?_eq_getElem hl] at hget; exact absurd hget (by simp)
        have : (s.thr (.c T)).remaining = [] := by
          cases hrm : (s.thr (.c T)).remaining with
          | nil => rfl
          | cons e r => rw [hrm] at hlen hk; exfalso; apply hlen; rw [← hk]; exact Nat.mod_lt _ (by simp)
        rw [this] at hrel; simp at hrel
      | some pk =>
        obtain ⟨n1, o1⟩ := pk
        have hlen : k < (s.thr (.c T)).remaining.length := by
          by_cases hl : k < (s.thr (.c T)).remaining.length
          · exact hl
          · rw [List.getElem?_eq_none (by omega)] at hget; exact absurd hget (by simp)
        have hpk : (s.thr (.c T)).remaining[k] = (n1, o1) := by
          rw [List.getElem?_eq_getElem hlen] at hget; injection hget
        have hmem1 : (n1, o1) ∈ (s.thr (.c T)).remaining := by rw [← hpk]; exact List.getElem_mem hlen
        simp only [St.setThr, St.setObj, upd_same]
        intro hr
        have heq : (n, o) = (n1, o1) := by
          apply Classical.byContradiction
          intro hne
          exact hr (mem_eraseIdx_of_ne hlen hrel (by rw [hpk]; exact hne))
        injection heq with e1 e2
        subst e1; subst e2
        have hnm := h.names.rem (.c T) n o hmem1
        have hpub := h.pub.rem (.c T) n o hmem1
        have hb' : ((s.txs (s.thr (.c T)).tx).failed || (s.txs (s.thr (.c T)).tx).commitFail) = true := by
          rw [htx]; exact hb
        simp only [hb', if_true]
        refine ⟨by simp [upd], by simp [upd, hpub], ?_⟩
        intro n' hmap
        simp only [upd] at hmap
        split at hmap
        · exact absurd hmap (by simp)
        · rename_i hne
          have := h.names.map n' o hmap
          rw [hnm] at this; exact hne this.symm
    · -- already released before
      exact gone_stable h hlt (hf.rel T n o hm hb (by simp [releasedBy, hpc, hrel]))
  · -- any other Commit step: released now means released before (or nothing is registered)
    have hpre : releasedBy (s.thr (.c T)) (n, o) := by
      revert hr
      unfold releasedBy step
      cases hpc' : (s.thr (.c T)).pc <;> simp only [hpc', isCommitPC] at hcp hpc <;> step_auto
      all_goals (try (rw [htx] at *)) <;> grind
    exact gone_stable h hlt (hf.rel T n o hm hb hpre)

theorem InvFD_step {s : St} {t : Tid} {c : Choice} (h : Inv s) (hnm : InvNewMap s) (hf : InvFD s) :
    InvFD (step s t c) := by
  refine ⟨?_, ?_⟩
  · intro T n o hm hb hr
    by_cases htt : Tid.c T = t
    · subst htt; exact fd_rel_commit h hf n o hm hb hr
    · rw [step_thr_ne _ _ _ _ htt] at hr
      -- the committer of T has started, so no goroutine of T is inside `With`
      have hcw : (s.thr (.c T)).pc ≠ .cWait := by
        intro e; simp [releasedBy, e] at hr
      have hidle : ∀ i, (s.thr (.w i)).tx = T → (s.thr (.w i)).pc = .idle := by
        intro i hi
        have := h.join T hcw i hi
        have hwk := h.kind.w i
        unfold Thread.done at this
        cases hp : (s.thr (.w i)).pc <;> simp_all [isCommitPC]
      have hwr : ((step s t c).txs T).written = (s.txs T).written := by
        rcases step_written_eq (c := c) h.kind.v (t := t) T with h1 | ⟨h1, h2⟩
        · exact h1
        · exfalso
          cases t with
          | w i => have := hidle i h1; simp [holdsTx, this] at h2
          | c T' => have := (h.kind.c T').2; rw [this] at h1; exact htt (by rw [h1])
      have hbd : bad (s.txs T) = true := by
        rcases step_bad hb with h1 | ⟨h1, h2, h3⟩
        · exact h1
        · exfalso
          cases t with
          | w i => exact h3 (hidle i h1)
          | c T' => have := (h.kind.c T').1; rw [this] at h2; exact absurd h2 (by simp)
      rw [hwr] at hm
      exact gone_stable h (h.bounds.wr T n o hm) (hf.rel T n o hm hbd hr)
  · intro o ho hd
    by_cases hlt : o < s.nObj
    · rcases step_dropped_sub hlt hd with h1 | ⟨h1, h2⟩
      · exact gone_stable h hlt (hf.drp o hlt h1)
      · -- replaced right now
        have hm := aget_mem h2
        have heff := nDropOld_effect (c := c) h1 h2
        have hpub : (s.objs o).pub = true := by
          have hmu := (h.tx (s.thr t).tx t).mpr ⟨rfl, by simp [holdsTx, h1]⟩
          exact wr_pub_of_holder h.tx (h.pub.wr _) hmu (by simp [h1]) _ _ hm
        refine ⟨heff.1, step_pub_mono hlt hpub, ?_⟩
        intro n' hmap
        rw [heff.2] at hmap
        have hn1 := h.names.map n' o hmap
        have hn2 := h.names.wr _ _ _ hm
        rw [hn2] at hn1
        rcases hnm.late t (by simp [h1, newLate]) with h3 | h3
        · rw [← hn1, h3] at hmap; exact absurd hmap (by simp)
        · rw [← hn1, h3] at hmap
          injection hmap with e
          have := (h.pub.priv t (by simp [h1, newPriv])).2.1
          rw [e, hpub] at this; exact absurd this (by simp)
    · -- an object allocated by this step has no mark
      exfalso
      revert hd ho
      unfold step
      cases hpc : (s.thr t).pc <;> step_auto <;> grind

theorem InvFD_evict {s : St} (ns : List Name) (hf : InvFD s) : InvFD (evict s ns) := by
  have hg : ∀ o, Gone s o → Gone (evict s ns) o := by
    intro o hg
    refine ⟨hg.1, hg.2.1, ?_⟩
    intro n hm
    simp only [evict] at hm
    split at hm
    · exact absurd hm (by simp)
    · exact hg.2.2 n hm
  exact ⟨fun T n o hm hb hr => hg o (hf.rel T n o hm hb hr), fun o ho hd => hg o (hf.drp o ho hd)⟩

theorem InvFD_init {s : St} (hi : Init s) : InvFD s := by
  refine ⟨?_, ?_⟩
  · intro T n o hm; rw [(hi.txs T).1] at hm; simp at hm
  · intro o ho; rw [hi.nObj] at ho; exact absurd ho (by simp)

theorem inv_reachable_fd {s0 s : St} (hi : Init s0) (hv : s0.v = fixedV) (hr : Reachable s0 s) :
    Inv s ∧ InvNewMap s ∧ InvFD s := by
  induction hr with
  | init => exact ⟨Inv_init hi hv, InvNewMap_init hi, InvFD_init hi⟩
  | step t c _ he ih => exact ⟨Inv_step ih.1 he, InvNewMap_step ih.1 ih.2.1, InvFD_step ih.1 ih.2.1 ih.2.2⟩
  | evict ns _ ih => exact ⟨Inv_evict ns ih.1, InvNewMap_evict ns ih.2.1, InvFD_evict ns ih.2.2⟩

end Sema.C11
