/-
C11 — executable helpers around the model: workload syntax, initial states, state keys, property
monitors, exhaustive exploration of a small configuration (used by the driver to enumerate / sample
schedules for the harness, and by the search step).  Nothing here is a theorem; core Lean only.

workload syntax:  transactions separated by '/', goroutines of a transaction by '|', accesses of a
goroutine by ','.  access = ('r'|'w') <name digit> ['f' callback fails] ['c' createFn fails].
A leading '!' on a transaction = Commit(true).   e.g.  "w0|w1/r0f/!w1,r0"
-/
import SemaModel.C11.Model
import Std.Data.HashMap
set_option linter.unusedSimpArgs false
set_option linter.unusedVariables false
namespace Sema.C11

structure Cfg where
  txs : List (Bool × List (List Access)) := []   -- (commitFail, goroutines)
  maxSize : Int := -1
  dbLock : Bool := false
  v : Variant := {}
  evictBudget : Nat := 0
  nNames : Nat := 2
  /-- exploration: `checkAndPrune` follows the real LRU policy with unit sizes (else: any subset) -/
  lru : Bool := true
  deriving Repr, Inhabited

def parseAccess (s : String) : Option Access :=
  match s.toList with
  | k :: d :: rest =>
    if (k == 'r' || k == 'w') && d.isDigit && rest.all (fun c => c == 'f' || c == 'c') then
      some { name := d.toNat - '0'.toNat, ro := k == 'r', cbOk := !rest.contains 'f', crOk := !rest.contains 'c' }
    else none
  | _ => none

def parseTx (s : String) : Option (Bool × List (List Access)) :=
  let (fail, body) := if s.startsWith "!" then (true, (s.drop 1).toString) else (false, s)
  let gs := (body.splitOn "|").map fun g => (g.splitOn ",").filter (· ≠ "")
  (gs.mapM fun (g : List String) => g.mapM parseAccess).map fun l => (fail, l)

def parseWorkload (s : String) : Option (List (Bool × List (List Access))) :=
  (s.splitOn "/").mapM parseTx

def showAccess (a : Access) : String :=
  (if a.ro then "r" else "w") ++ toString a.name ++ (if a.cbOk then "" else "f") ++ (if a.crOk then "" else "c")

def showWorkload (w : List (Bool × List (List Access))) : String :=
  "/".intercalate (w.map fun (f, gs) => (if f then "!" else "") ++ "|".intercalate (gs.map fun g => ",".intercalate (g.map showAccess)))

def parseVariant (s : String) : Variant :=
  let cs := s.toList
  { pruneAfterRUnlock := cs.getD 0 '0' == '1', txFirst := cs.getD 1 '0' == '1', useOwn := cs.getD 2 '0' == '1', dropOld := cs.getD 3 '0' == '1' }

def showVariant (v : Variant) : String :=
  String.ofList ([v.pruneAfterRUnlock, v.txFirst, v.useOwn, v.dropOld].map fun b => if b then '1' else '0')

/-- worker i ↦ (tx, program), in workload order -/
def Cfg.workers (c : Cfg) : List (TxId × List Access) :=
  (c.txs.zipIdx.map fun ((_, gs), T) => gs.map fun g => (T, g)).flatten

def Cfg.init (c : Cfg) : St :=
  let ws := c.workers
  let nTx := c.txs.length
  { n := ws.length, nTx := nTx, maxSize := c.maxSize, dbLock := c.dbLock, v := c.v,
    txs := fun T => { commitFail := (c.txs.getD T (false, [])).1 },
    thr := fun t => match t with
      | .w i => match ws[i]? with
        | some (T, p) => { tx := T, todo := p }
        | none => {}
      | .c T => { tx := T, pc := .cWait } }

def Cfg.tids (c : Cfg) : List Tid :=
  (List.range c.workers.length).map Tid.w ++ (List.range c.txs.length).map Tid.c

def showTid : Tid → String
  | .w i => s!"w{i}"
  | .c T => s!"c{T}"

def parseTid (s : String) : Option Tid :=
  match s.toList with
  | 'w' :: r => (String.ofList r).toNat?.map Tid.w
  | 'c' :: r => (String.ofList r).toNat?.map Tid.c
  | _ => none

def pcName (p : PC) : String := (toString (repr p)).replace "Sema.C11.PC." ""

def allPCs : List PC :=
  [.idle, .xPreTxLock, .mgrLock, .lookup, .exMgrUnlock, .rTxLock, .rCheckWritten, .rTxUnlock, .rTryRLock,
   .rColdCreate, .xTxLock, .xCheckWritten, .xObjLock, .xRegister, .xTxUnlock, .chkScrapped, .sCreate, .callF,
   .inF, .fScrap, .fMgrLock, .fDelete, .fMgrUnlock, .nCreate, .nFailMgrUnlock, .nFailTxUnlock, .nStore, .nRLock,
   .nObjLock, .nTxLock, .nDropOld, .nRegister, .nTxUnlock, .nMgrUnlock, .pEnter, .pMgrLock, .pBody, .pMgrUnlock, .dRUnlock,
   .cWait, .cTxLock, .cCheckEmpty, .cMgrLock, .cLoop, .cEntry, .cMgrUnlock, .cTxUnlock, .cDone]

def pcNum (p : PC) : Nat := allPCs.idxOf p
def tidNum : Tid → Nat
  | .w i => 2 * i
  | .c T => 2 * T + 1
def optNum : Option Nat → Nat
  | none => 0
  | some n => n + 1
def bNum (b : Bool) : Nat := if b then 1 else 0

/-- canonical encoding of a state restricted to the configuration's bounds (visited-set key) -/
def St.key (s : St) (c : Cfg) : Array Nat := Id.run do
  let mut out : Array Nat := #[optNum (s.mgr.map tidNum), optNum s.dbw]
  for n in List.range c.nNames do
    out := out.push (optNum (s.map n))
  out := out.push 999
  for o in List.range s.nObj do
    let ob := s.objs o
    out := out.push (optNum ob.writer) |>.push (bNum ob.scrapped + 2 * bNum ob.shared + 4 * bNum ob.orphan + 8 * ob.name) |>.push (optNum ob.dirty) |>.push (optNum ob.dropped)
    out := out.push ob.readers.length
    for r in ob.readers do out := out.push (tidNum r)
    out := out.push ob.wown.length
    for r in ob.wown do out := out.push r
  out := out.push 999
  for T in List.range c.txs.length do
    let x := s.txs T
    out := out.push (optNum (x.mu.map tidNum)) |>.push (bNum x.failed) |>.push x.written.length
    for (n, o) in x.written do out := out.push n |>.push o
  out := out.push 999
  for t in c.tids do
    let th := s.thr t
    out := out.push (pcNum th.pc) |>.push th.todo.length |>.push th.existing |>.push th.use |>.push (bNum th.ok)
    out := out.push th.defers.length
    for d in th.defers do out := out.push (match d with | .prune => 0 | .runlock o => o + 1)
    out := out.push th.remaining.length
    for (n, o) in th.remaining do out := out.push n |>.push o
  return out

/-- same state, with the function-valued fields re-tabulated (keeps lookups O(1) during exploration) -/
def St.normalize (s : St) (c : Cfg) : St :=
  let nW := c.workers.length
  let nT := c.txs.length
  let mapA := (List.range c.nNames).toArray.map s.map
  let objA := (List.range s.nObj).toArray.map s.objs
  let txA := (List.range nT).toArray.map s.txs
  let wA := (List.range nW).toArray.map fun i => s.thr (.w i)
  let cA := (List.range nT).toArray.map fun T => s.thr (.c T)
  let dflW := s.thr (.w nW)
  let dflC := s.thr (.c nT)
  { s with
    map := fun n => if h : n < mapA.size then mapA[n] else none
    objs := fun o => if h : o < objA.size then objA[o] else {}
    txs := fun T => if h : T < txA.size then txA[T] else {}
    thr := fun t => match t with
      | .w i => if h : i < wA.size then wA[i] else dflW
      | .c T => if h : T < cA.size then cA[T] else { dflC with tx := T } }

inductive Label where
  | thr (t : Tid) (c : Choice)
  | evict (ns : List Name)
  deriving Repr, Inhabited

def showLabel : Label → String
  | .thr t c =>
    showTid t ++ (if c.tryFail then " tryfail" else "") ++
      (if c.prune.isEmpty then "" else " prune=" ++ ",".intercalate (c.prune.map toString)) ++
      (if c.pick = 0 then "" else s!" pick={c.pick}")
  | .evict ns => "evict " ++ ",".intercalate (ns.map toString)

def Label.apply (s : St) : Label → St
  | .thr t c => step s t c
  | .evict ns => Sema.C11.evict s ns

def sublists : List Nat → List (List Nat)
  | [] => [[]]
  | x :: r => let t := sublists r; t ++ t.map (x :: ·)

/-- a writer parked at `xObjLock` on `o` while only readers hold it: once that goroutine is really
inside `Lock()`, Go's `TryRLock` fails.  (Only then is `tryFail` a behaviour of the real code.) -/
def St.writerWaiting (s : St) (c : Cfg) (o : ObjId) : Bool :=
  c.tids.any fun t => (s.thr t).pc == .xObjLock && (s.thr t).existing == o

/-- `lastAccessed` order of the names (oldest first), as the real manager sees it: a hit in `lookup`
and a store in `nStore` stamp the entry -/
def lruAfter (s : St) (lru : List Name) : Label → List Name
  | .thr t _ =>
    let th := s.thr t
    match th.pc with
    | .lookup => if (s.map th.acc.name).isSome then lru.erase th.acc.name ++ [th.acc.name] else lru
    | .nStore => if s.maxSize ≠ 0 then lru.erase th.acc.name ++ [th.acc.name] else lru
    | _ => lru
  | .evict _ => lru

/-- what `checkAndPrune` removes when every cache has size 1 and the limit is `maxSize > 0`:
the least recently used entries until at most `maxSize` remain -/
def lruPrune (s : St) (lru : List Name) : List Name :=
  let present := lru.filter fun n => (s.map n).isSome
  present.take (present.length - s.maxSize.toNat)

/-- every label that is enabled in `s` (all nondeterministic choices expanded) -/
def successors (c : Cfg) (s : St) (evictsLeft : Nat) (allPrunes : Bool := true) (lru : List Name := []) : List Label := Id.run do
  let mut out : List Label := []
  for t in c.tids do
    if enabled s t then
      let th := s.thr t
      match th.pc with
      | .pBody =>
        if s.maxSize > 0 && allPrunes then
          let present := (List.range c.nNames).filter fun n => (s.map n).isSome
          for p in sublists present do out := .thr t { prune := p } :: out
        else out := .thr t { prune := if s.maxSize > 0 then lruPrune s lru else [] } :: out
      | .rTryRLock =>
        out := .thr t {} :: out
        if (s.objs th.existing).writer.isNone && s.writerWaiting c th.existing then
          out := .thr t { tryFail := true } :: out
      | .cEntry =>
        if th.remaining.length ≤ 1 then out := .thr t {} :: out
        else for k in List.range th.remaining.length do out := .thr t { pick := k } :: out
      | _ => out := .thr t {} :: out
  -- `Release` takes the manager mutex: exploration evicts only while it is free (the theorems allow any moment)
  if evictsLeft > 0 && s.mgr.isNone then
    for n in List.range c.nNames do
      if (s.map n).isSome then out := .evict [n] :: out
  return out.reverse

/-! ### property monitors (the same predicates the theorems are about) -/

def St.allDone (s : St) (c : Cfg) : Bool := c.tids.all fun t => (s.thr t).done

def St.deadlocked (s : St) (c : Cfg) : Bool :=
  !s.allDone c && c.tids.all fun t => !enabled s t

/-- C11_mutex on a state: a callback runs on `o` only if every transaction that write-owns `o` is
its own; a private object has one user -/
def St.mutexBad (s : St) (c : Cfg) : Option String :=
  let inCb := c.tids.filter fun t => (s.thr t).pc == .inF
  inCb.findSome? fun t =>
    let th := s.thr t
    let ob := s.objs th.use
    if ob.wown.any (· != th.tx) then
      some s!"callback of {showTid t} (tx {th.tx}) runs on object {th.use} write-owned by {ob.wown}"
    else if !ob.shared && inCb.any (fun t' => t' != t && (s.thr t').use == th.use) then
      some s!"private object {th.use} used by two goroutines"
    else none

/-- lock discipline behind C11_mutex: whoever runs a callback on a shared object holds its lock -/
def St.unlockedUse (s : St) (c : Cfg) : Option String :=
  (c.tids.filter fun t => (s.thr t).pc == .inF || (s.thr t).pc == .callF).findSome? fun t =>
    let th := s.thr t
    let ob := s.objs th.use
    if ob.shared && !(ob.readers.contains t) && ob.writer != some th.tx && ob.dropped != some th.tx then
      some s!"{showTid t} (tx {th.tx}) is handed shared object {th.use} without holding its lock"
    else none

/-- C11_no_scrapped at the hand-out step `callF` of `t` -/
def handOutBad (s : St) (t : Tid) : Option String :=
  let th := s.thr t
  if th.pc == .callF then
    match (s.objs th.use).dirty with
    | some T' => if T' != th.tx then some s!"{showTid t} (tx {th.tx}) is handed object {th.use} scrapped by failed writer tx {T'}" else none
    | none => none
  else none

/-- C11_failed_dropped on a state -/
def St.failedKept (s : St) (c : Cfg) : Option String :=
  (List.range c.txs.length).findSome? fun T =>
    let x := s.txs T
    if (s.thr (.c T)).pc == .cDone && (x.failed || x.commitFail) then
      (x.written.findSome? fun (n, o) =>
        if !(s.objs o).scrapped then some s!"tx {T} failed but its written object {o} is not scrapped"
        else if (List.range c.nNames).any (fun n' => s.map n' == some o) then some s!"tx {T} failed but its written object {o} is still in the map"
        else let _ := n; none)
    else none

/-- C11_released on a state -/
def St.leak (s : St) (c : Cfg) : Option String :=
  if s.allDone c then
    if s.mgr.isSome then some "manager mutex held at the end"
    else if s.dbw.isSome then some "db lock held at the end"
    else match (List.range c.txs.length).find? fun T => (s.txs T).mu.isSome with
      | some T => some s!"tx mutex {T} held at the end"
      | none => (List.range s.nObj).findSome? fun o =>
          if !(s.objs o).free && !(s.objs o).orphan then some s!"object {o} still locked at the end ({(s.objs o).readers.map showTid} / {repr (s.objs o).writer})" else none
  else none

structure Finding where
  kind : String
  what : String
  schedule : List Label
  deriving Inhabited

structure ExploreResult where
  states : Nat := 0
  finals : Nat := 0
  truncated : Bool := false
  findings : List Finding := []
  deriving Inhabited

/-- breadth-first exploration; first (shortest) witness per monitor kind -/
partial def explore (c : Cfg) (maxStates : Nat := 2000000) (allPrunes := true) : ExploreResult := Id.run do
  let s0 := c.init
  -- visited: key ↦ (parent index, label); nodes array for path reconstruction
  let mut seen : Std.HashMap (Array Nat) Nat := {}
  let mut nodes : Array (Nat × Label) := #[]
  let mut queue : Array (St × Nat × Nat × List Name) := #[]   -- state, evictsLeft, node index, lru
  seen := seen.insert ((s0.key c).push c.evictBudget) 0
  nodes := nodes.push (0, default)
  queue := queue.push (s0, c.evictBudget, 0, [])
  let mut head := 0
  let mut res : ExploreResult := {}
  let mut found : List String := []
  let _ := 0
  let pathOf := fun (nodes : Array (Nat × Label)) (i : Nat) => Id.run do
    let mut p : List Label := []
    let mut j := i
    while j != 0 do
      let (pj, l) := nodes[j]!
      p := l :: p
      j := pj
    return p
  while head < queue.size do
    let (s, ev, idx, lru) := queue[head]!
    head := head + 1
    -- state monitors
    let checks : List (String × Option String) :=
      [("orphan", if s.allDone c then (List.range s.nObj).findSome? (fun o => if (s.objs o).orphan then some s!"object {o} was orphaned and stays write-locked" else none) else none),
       ("mutex", s.mutexBad c), ("unlocked-use", s.unlockedUse c), ("failed-kept", s.failedKept c), ("leak", s.leak c),
       ("deadlock", if s.deadlocked c then some "no goroutine can advance" else none)]
    for (k, r) in checks do
      if let some w := r then
        if !found.contains k then
          found := k :: found
          res := { res with findings := res.findings ++ [{ kind := k, what := w, schedule := pathOf nodes idx }] }
    if s.allDone c then res := { res with finals := res.finals + 1 }
    for l in successors c s ev allPrunes lru do
      if let .thr t _ := l then
        if let some w := handOutBad s t then
          if !found.contains "scrapped-handout" then
            found := "scrapped-handout" :: found
            res := { res with findings := res.findings ++ [{ kind := "scrapped-handout", what := w, schedule := pathOf nodes idx ++ [l] }] }
      let s' := (l.apply s).normalize c
      let ev' := match l with | .evict _ => ev - 1 | _ => ev
      let lru' := lruAfter s lru l
      let k := ((s'.key c).push ev') ++ (if allPrunes then #[] else lru'.toArray)
      if !seen.contains k then
        if nodes.size ≥ maxStates then
          res := { res with truncated := true }
        else
          seen := seen.insert k nodes.size
          queue := queue.push (s', ev', nodes.size, lru')
          nodes := nodes.push (idx, l)
  return { res with states := nodes.size }

end Sema.C11
