/- C11 invariants, part 7: publication, continued -/
import SemaModel.C11.Inv6
set_option linter.unusedSimpArgs false
set_option linter.unusedVariables false
namespace Sema.C11

set_option maxHeartbeats 1000000 in
/-- where an entry of `writtenCaches` comes from -/
theorem step_written_sub {s : St} {t : Tid} {c : Choice} {T : TxId} {n : Name} {o : ObjId}
    (h : (n, o) ∈ ((step s t c).txs T).written) :
    (n, o) ∈ (s.txs T).written ∨ ((s.thr t).tx = T ∧ (((s.thr t).pc = .xRegister ∧ o = (s.thr t).existing) ∨
      ((s.thr t).pc = .nRegister ∧ o = (s.thr t).use))) := by
  revert h
  unfold step
  cases hpc : (s.thr t).pc <;> step_auto <;> grind [mem_aput]

set_option maxHeartbeats 1000000 in
/-- who publishes an object -/
theorem step_pub_only {s : St} {t : Tid} {c : Choice} {o : ObjId} (ho : o < s.nObj)
    (h : ((step s t c).objs o).pub = true) :
    (s.objs o).pub = true ∨ (o = (s.thr t).use ∧ ((s.thr t).pc = .nTxUnlock ∨ (s.thr t).pc = .nMgrUnlock)) := by
  revert h
  unfold step
  cases hpc : (s.thr t).pc <;> step_auto <;> grind

set_option maxHeartbeats 1000000 in
theorem nTxUnlock_publishes {s : St} {t : Tid} {c : Choice} (h : (s.thr t).pc = .nTxUnlock) :
    ((step s t c).objs (s.thr t).use).pub = true := by
  unfold step
  simp [h, stepAt, St.setThr, St.setTx, St.setObj]

set_option maxHeartbeats 1000000 in
theorem nRegister_next {s : St} {t : Tid} {c : Choice} (h : (s.thr t).pc = .nRegister) :
    ((step s t c).thr t).pc = .nTxUnlock ∧ ((step s t c).thr t).use = (s.thr t).use := by
  unfold step
  simp only [h, stepAt]
  split <;> simp [St.setThr, St.setTx, St.setObj]

theorem pub_wr_step {s : St} {t : Tid} {c : Choice} (hb : InvBounds s) (h : InvPub s) :
    ∀ T n o, (n, o) ∈ ((step s t c).txs T).written → ((step s t c).objs o).pub = true ∨
      (((step s t c).thr ((step s t c).objs o).creator).pc = .nTxUnlock ∧
        ((step s t c).thr ((step s t c).objs o).creator).use = o ∧
        ((step s t c).thr ((step s t c).objs o).creator).tx = T) := by
  intro T n o hm
  rcases step_written_sub hm with h1 | ⟨hT, ⟨h1, h2⟩ | ⟨h1, h2⟩⟩
  · have hlt := hb.wr T n o h1
    rw [(step_static hlt).2.1]
    rcases h.wr T n o h1 with h2 | ⟨h2, h3, h4⟩
    · exact Or.inl (step_pub_mono hlt h2)
    · by_cases hc : (s.objs o).creator = t
      · rw [hc] at h2 h3
        have := nTxUnlock_publishes (c := c) h2
        rw [h3] at this
        exact Or.inl this
      · rw [step_thr_ne _ _ _ _ hc]; exact Or.inr ⟨h2, h3, h4⟩
  · subst h2
    have hlt := hb.ex t (by simp [h1, exValid])
    exact Or.inl (step_pub_mono hlt (h.ex t (by simp [h1, exValid])))
  · subst h2
    have hlt := hb.use t (by simp [h1, useValid])
    have hp := h.priv t (by simp [h1, newPriv])
    rw [(step_static hlt).2.1, hp.1, step_tx]
    have := nRegister_next (c := c) h1
    exact Or.inr ⟨this.1, this.2, hT⟩

set_option maxHeartbeats 1000000 in
theorem pub_priv_self {s : St} {t : Tid} {c : Choice} (hv : s.v = fixedV)
    (hbu : useValid (s.thr t).pc = true → (s.thr t).use < s.nObj)
    (h : newPriv (s.thr t).pc = true →
      (s.objs (s.thr t).use).creator = t ∧ (s.objs (s.thr t).use).pub = false ∧ (s.objs (s.thr t).use).cold = false) :
    newPriv ((step s t c).thr t).pc = true →
      ((step s t c).objs ((step s t c).thr t).use).creator = t ∧ ((step s t c).objs ((step s t c).thr t).use).pub = false ∧
      ((step s t c).objs ((step s t c).thr t).use).cold = false := by
  unfold step
  cases hpc : (s.thr t).pc <;> simp only [hpc, newPriv, useValid] at h hbu <;> step_auto <;> grind [newPriv]

set_option maxHeartbeats 1000000 in
theorem pub_late_self {s : St} {t : Tid} {c : Choice} (hv : s.v = fixedV)
    (hbu : useValid (s.thr t).pc = true → (s.thr t).use < s.nObj)
    (hp : newPriv (s.thr t).pc = true →
      (s.objs (s.thr t).use).creator = t ∧ (s.objs (s.thr t).use).pub = false ∧ (s.objs (s.thr t).use).cold = false)
    (h : ((s.thr t).pc = .nTxUnlock ∨ (s.thr t).pc = .nMgrUnlock) →
      (s.objs (s.thr t).use).creator = t ∧ (s.objs (s.thr t).use).cold = false) :
    (((step s t c).thr t).pc = .nTxUnlock ∨ ((step s t c).thr t).pc = .nMgrUnlock) →
      ((step s t c).objs ((step s t c).thr t).use).creator = t ∧ ((step s t c).objs ((step s t c).thr t).use).cold = false := by
  unfold step
  cases hpc : (s.thr t).pc <;> simp only [hpc, newPriv, useValid] at h hp hbu <;> step_auto <;> grind

theorem newPriv_useValid {p : PC} (h : newPriv p = true) : useValid p = true := by
  cases p <;> simp_all [newPriv, useValid]

theorem InvPub_step {s : St} {t : Tid} {c : Choice} (hk : InvKind s) (hm : InvMgr s) (htx : InvTx s)
    (hb : InvBounds s) (h : InvPub s) : InvPub (step s t c) := by
  have hv := hk.v
  have hmono := step_nObj_mono s t c
  refine ⟨?_, ?_, ?_, ?_, pub_map_step hv hb h, pub_wr_step hb h, ?_, ?_, ?_⟩
  · intro t'
    by_cases htt : t' = t
    · subst htt; exact pub_ex_self hv hm hb.map (hb.ex t') h.map (h.ex t')
    · rw [step_thr_ne _ _ _ _ htt]; intro he; exact step_pub_mono (hb.ex t' he) (h.ex t' he)
  · intro t'
    by_cases htt : t' = t
    · subst htt; exact pub_use_self hv hm htx hb h
    · rw [step_thr_ne _ _ _ _ htt]; intro he; exact step_vis_mono (hb.use t' he) (h.use t' he)
  · intro t'
    by_cases htt : t' = t
    · subst htt; exact pub_df_self hb h
    · rw [step_thr_ne _ _ _ _ htt]; intro o ho; exact step_vis_mono (hb.df t' o ho) (h.df t' o ho)
  · intro t'
    by_cases htt : t' = t
    · subst htt; exact pub_rem_self hv htx hb h
    · rw [step_thr_ne _ _ _ _ htt]; intro n o ho; exact step_pub_mono (hb.rem t' n o ho) (h.rem t' n o ho)
  · intro t'
    by_cases htt : t' = t
    · subst htt; exact pub_priv_self hv (hb.use t') (h.priv t')
    · rw [step_thr_ne _ _ _ _ htt]
      intro hp
      have hlt := hb.use t' (newPriv_useValid hp)
      have hpp := h.priv t' hp
      obtain ⟨h1, h2, h3⟩ := step_static (t := t) (c := c) hlt
      refine ⟨by rw [h2]; exact hpp.1, ?_, by rw [h3]; exact hpp.2.2⟩
      cases hpb : ((step s t c).objs (s.thr t').use).pub with
      | false => rfl
      | true =>
        rcases step_pub_only hlt hpb with h4 | ⟨h4, h5⟩
        · rw [hpp.2.1] at h4; exact absurd h4 (by simp)
        · have hvis := h.use t (by rcases h5 with h5 | h5 <;> simp [h5, useValid])
          rw [← h4] at hvis
          rcases hvis with h6 | h6
          · rw [hpp.2.1] at h6; exact absurd h6 (by simp)
          · rw [hpp.1] at h6; exact absurd h6 htt
  · intro t'
    by_cases htt : t' = t
    · subst htt; exact pub_late_self hv (hb.use t') (h.priv t') (h.late t')
    · rw [step_thr_ne _ _ _ _ htt]
      intro hp
      have hlt := hb.use t' (by rcases hp with hp | hp <;> simp [hp, useValid])
      obtain ⟨h1, h2, h3⟩ := step_static (t := t) (c := c) hlt
      rw [h2, h3]; exact h.late t' hp
  · intro o ho hc
    by_cases hlt : o < s.nObj
    · rw [(step_static hlt).2.2] at hc
      cases hpb : ((step s t c).objs o).pub with
      | false => rfl
      | true =>
        rcases step_pub_only hlt hpb with h4 | ⟨h4, h5⟩
        · rw [h.cold o hlt hc] at h4; exact absurd h4 (by simp)
        · have := (h.late t h5).2
          rw [← h4, hc] at this; exact absurd this (by simp)
    · -- a freshly allocated object is unpublished
      revert ho hc
      unfold step
      cases hpc : (s.thr t).pc <;> step_auto <;> grind

end Sema.C11
