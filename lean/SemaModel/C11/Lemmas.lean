/- C11: invariants of the CacheMgr transition system and their preservation (part 1: who holds which mutex) -/
import SemaModel.C11.Model
set_option linter.unusedSimpArgs false
set_option linter.unusedVariables false
namespace Sema.C11

@[simp] theorem upd_same {α β : Type} [DecidableEq α] (f : α → β) (a : α) (b : β) : upd f a b a = b := by
  simp [upd]
@[simp] theorem upd_ne {α β : Type} [DecidableEq α] (f : α → β) (a x : α) (b : β) (h : x ≠ a) : upd f a b x = f x := by
  simp [upd, h]

/-- the variant of the model that is the current source (all three fixes) -/
def fixedV : Variant := { pruneAfterRUnlock := false, txFirst := true, useOwn := true, dropOld := true }

/-! ### frame facts -/

theorem step_thr_ne (s : St) (t t' : Tid) (c : Choice) (h : t' ≠ t) : (step s t c).thr t' = s.thr t' := by
  unfold step
  cases (s.thr t).pc <;> simp only [stepAt] <;> (repeat' split) <;> simp [St.setThr, St.setTx, St.setObj, St.alloc, upd, h]

theorem step_const (s : St) (t : Tid) (c : Choice) :
    (step s t c).v = s.v ∧ (step s t c).n = s.n ∧ (step s t c).nTx = s.nTx ∧ (step s t c).maxSize = s.maxSize ∧
    (step s t c).dbLock = s.dbLock := by
  unfold step
  cases (s.thr t).pc <;> simp only [stepAt] <;> (repeat' split) <;> simp [St.setThr, St.setTx, St.setObj, St.alloc]

theorem step_tx_self (s : St) (t : Tid) (c : Choice) : ((step s t c).thr t).tx = (s.thr t).tx := by
  unfold step
  cases (s.thr t).pc <;> simp only [stepAt, Thread.popReturn, Thread.doReturn] <;> (repeat' split) <;>
    simp [St.setThr, St.setTx, St.setObj, St.alloc]

theorem step_tx (s : St) (t t' : Tid) (c : Choice) : ((step s t c).thr t').tx = (s.thr t').tx := by
  by_cases h : t' = t
  · subst h; exact step_tx_self s t' c
  · rw [step_thr_ne _ _ _ _ h]

theorem step_txs_ne (s : St) (t : Tid) (c : Choice) (T : TxId) (h : T ≠ (s.thr t).tx) : (step s t c).txs T = s.txs T := by
  unfold step
  cases (s.thr t).pc <;> simp only [stepAt] <;> (repeat' split) <;> simp [St.setThr, St.setTx, St.setObj, St.alloc, upd, h]

theorem enabled_valid_w {s : St} {i : Nat} (he : enabled s (.w i) = true) : i < s.n := by
  unfold enabled at he
  simp only [Bool.and_eq_true, decide_eq_true_eq] at he
  exact he.1

theorem enabled_valid_c {s : St} {T : TxId} (he : enabled s (.c T) = true) : T < s.nTx := by
  unfold enabled at he
  simp only [Bool.and_eq_true, decide_eq_true_eq] at he
  exact he.1.2

/-! ### the manager mutex -/

def holdsMgr : PC → Bool
  | .lookup | .exMgrUnlock | .fDelete | .fMgrUnlock | .nCreate | .nFailMgrUnlock | .nStore | .nRLock
  | .nObjLock | .nTxLock | .nDropOld | .nRegister | .nTxUnlock | .nMgrUnlock | .pBody | .pMgrUnlock | .cLoop | .cEntry
  | .cMgrUnlock => true
  | _ => false

def InvMgr (s : St) : Prop := ∀ t, s.mgr = some t ↔ holdsMgr (s.thr t).pc = true

theorem InvMgr_step {s : St} {t : Tid} {c : Choice} (h : InvMgr s) (he : enabled s t = true) : InvMgr (step s t c) := by
  intro t'
  have ht := h t
  by_cases htt : t' = t
  · subst htt
    unfold step
    unfold enabled at he
    cases hpc : (s.thr t').pc <;> simp only [stepAt, Thread.popReturn, Thread.doReturn] <;> (repeat' split) <;>
      simp_all [St.setThr, St.setTx, St.setObj, St.alloc, upd, holdsMgr]
  · rw [step_thr_ne _ _ _ _ htt]
    have ht' := h t'
    have htt' : ¬ t = t' := fun e => htt e.symm
    unfold step
    unfold enabled at he
    cases hpc : (s.thr t).pc <;> simp only [hpc, holdsMgr] at ht <;> simp only [stepAt] <;> (repeat' split) <;>
      simp_all [St.setThr, St.setTx, St.setObj, St.alloc]

/-! ### thread kinds, the access mode along the paths of `With` -/

def isCommitPC : PC → Bool
  | .cWait | .cTxLock | .cCheckEmpty | .cMgrLock | .cLoop | .cEntry | .cMgrUnlock | .cTxUnlock | .cDone => true
  | _ => false

/-- program counters only a read-only access reaches / only a writing access reaches -/
def roPC : PC → Bool
  | .rTxLock | .rCheckWritten | .rTxUnlock | .rTryRLock | .rColdCreate | .nRLock => true
  | _ => false
def rwPC : PC → Bool
  | .xPreTxLock | .xTxLock | .xCheckWritten | .xObjLock | .xRegister | .xTxUnlock | .nFailTxUnlock | .nObjLock
  | .nTxLock | .nDropOld | .nRegister | .nTxUnlock => true
  | _ => false

structure InvKind (s : St) : Prop where
  v : s.v = fixedV
  w : ∀ i, isCommitPC (s.thr (.w i)).pc = false
  c : ∀ T, isCommitPC (s.thr (.c T)).pc = true ∧ (s.thr (.c T)).tx = T
  out : ∀ i, s.n ≤ i → (s.thr (.w i)).pc = .idle ∧ (s.thr (.w i)).todo = []
  legacy : ∀ t, (s.thr t).pc ≠ .xTxLock ∧ (s.thr t).pc ≠ .nTxLock
  ro : ∀ t, roPC (s.thr t).pc = true → (s.thr t).acc.ro = true
  rw : ∀ t, rwPC (s.thr t).pc = true → (s.thr t).acc.ro = false
  txb : ∀ i, i < s.n → (s.thr (.w i)).tx < s.nTx

theorem InvKind_step {s : St} {t : Tid} {c : Choice} (h : InvKind s) (he : enabled s t = true) : InvKind (step s t c) := by
  have hv := h.v
  have hc := step_const s t c
  refine ⟨by rw [hc.1]; exact hv, ?_, ?_, ?_, ?_, ?_, ?_, ?_⟩
  · intro i
    by_cases htt : Tid.w i = t
    · subst htt
      have := h.w i
      unfold step
      cases hpc : (s.thr (.w i)).pc <;> simp only [stepAt, Thread.popReturn, Thread.doReturn] <;> (repeat' split) <;>
        simp_all [St.setThr, St.setTx, St.setObj, St.alloc, isCommitPC, fixedV]
    · rw [step_thr_ne _ _ _ _ htt]; exact h.w i
  · intro T
    by_cases htt : Tid.c T = t
    · subst htt
      have := h.c T
      unfold step
      cases hpc : (s.thr (.c T)).pc <;> simp only [stepAt, Thread.popReturn, Thread.doReturn] <;> (repeat' split) <;>
        simp_all [St.setThr, St.setTx, St.setObj, St.alloc, isCommitPC, fixedV]
    · rw [step_thr_ne _ _ _ _ htt]; exact h.c T
  · intro i hi
    rw [hc.2.1] at hi
    have htt : Tid.w i ≠ t := by
      intro e; subst e; have := enabled_valid_w he; omega
    rw [step_thr_ne _ _ _ _ htt]; exact h.out i hi
  · intro t'
    by_cases htt : t' = t
    · subst htt
      have := h.legacy t'
      unfold step
      cases hpc : (s.thr t').pc <;> simp only [stepAt, Thread.popReturn, Thread.doReturn] <;> (repeat' split) <;>
        simp_all [St.setThr, St.setTx, St.setObj, St.alloc, fixedV]
    · rw [step_thr_ne _ _ _ _ htt]; exact h.legacy t'
  · intro t'
    by_cases htt : t' = t
    · subst htt
      have h1 := h.ro t'
      have h2 := h.rw t'
      unfold step
      cases hpc : (s.thr t').pc <;> simp only [stepAt, Thread.popReturn, Thread.doReturn] <;> (repeat' split) <;>
        simp_all [St.setThr, St.setTx, St.setObj, St.alloc, fixedV, roPC, rwPC]
    · rw [step_thr_ne _ _ _ _ htt]; exact h.ro t'
  · intro t'
    by_cases htt : t' = t
    · subst htt
      have h1 := h.ro t'
      have h2 := h.rw t'
      unfold step
      cases hpc : (s.thr t').pc <;> simp only [stepAt, Thread.popReturn, Thread.doReturn] <;> (repeat' split) <;>
        simp_all [St.setThr, St.setTx, St.setObj, St.alloc, fixedV, roPC, rwPC]
    · rw [step_thr_ne _ _ _ _ htt]; exact h.rw t'
  · intro i hi
    rw [hc.2.1] at hi
    rw [step_tx, hc.2.2.1]; exact h.txb i hi

end Sema.C11
