/- C11: invariants of the CacheMgr transition system and their preservation -/
import SemaModel.C11.Model
namespace Sema.C11

@[simp] theorem upd_same {α β : Type} [DecidableEq α] (f : α → β) (a : α) (b : β) : upd f a b a = b := by
  simp [upd]
@[simp] theorem upd_ne {α β : Type} [DecidableEq α] (f : α → β) (a x : α) (b : β) (h : x ≠ a) : upd f a b x = f x := by
  simp [upd, h]

def holdsMgr : PC → Bool
  | .lookup | .exMgrUnlock | .fDelete | .fMgrUnlock | .nCreate | .nFailMgrUnlock | .nStore | .nRLock
  | .nObjLock | .nTxLock | .nRegister | .nTxUnlock | .nMgrUnlock | .pBody | .pMgrUnlock | .cLoop | .cEntry
  | .cMgrUnlock => true
  | _ => false

def InvMgr (s : St) : Prop := ∀ t, s.mgr = some t ↔ holdsMgr (s.thr t).pc = true

theorem step_thr_ne (s : St) (t t' : Tid) (c : Choice) (h : t' ≠ t) : (step s t c).thr t' = s.thr t' := by
  unfold step
  cases (s.thr t).pc <;> simp only [stepAt] <;> (repeat' split) <;> simp [St.setThr, St.setTx, St.setObj, St.alloc, upd, h]

end Sema.C11
