/-
C11 — model `CacheMgr` of shard/cache/manager.go: a labelled transition system.

One step of a thread = the code between two consecutive `verifYield` points of manager.go (build
tag `verif`), i.e. ONE lock / unlock / map operation / callback boundary.  The program counter
`PC` names the yield point the thread is parked at (the action it performs NEXT).  `enabled s t`
is false exactly when the next action of `t` is a blocking `Lock`/`RLock` on a lock that is held
incompatibly (or a harness-level wait: `cWait` = the goroutine that calls `Commit` joins the
`With` goroutines of its transaction first, as `shard.go` does; `dbLock` = bbolt's single writer).

Core Lean only (linked into the driver).  Finite maps are total functions with a default so that
"update at one key" is `upd`, which keeps the invariant proofs short.
-/
namespace Sema.C11

abbrev Name := Nat
abbrev ObjId := Nat
abbrev TxId := Nat

/-- logical threads: worker goroutine `w i` (calls `With` for each access of its program), and the
one goroutine `c T` per transaction that calls `T.Commit(fail)` after joining T's workers -/
inductive Tid where
  | w (i : Nat)
  | c (tx : TxId)
  deriving DecidableEq, Repr, Inhabited

/-- one call `t.With(name, readOnly, createFn, f)`; `crOk` / `cbOk` = outcome of `createFn` / `f` -/
structure Access where
  name : Name := 0
  ro : Bool := true
  cbOk : Bool := true
  crOk : Bool := true
  deriving DecidableEq, Repr, Inhabited

/-- Go `defer` stack of the running `With` call (head = registered last = runs first) -/
inductive Defer where
  | prune
  | runlock (o : ObjId)
  deriving DecidableEq, Repr, Inhabited

inductive PC where
  | idle
  -- With, common prefix
  | xPreTxLock                       -- only variant `txFirst`
  | mgrLock | lookup | exMgrUnlock
  -- existing cache, read-only
  | rTxLock | rCheckWritten | rTxUnlock | rTryRLock | rColdCreate
  -- existing cache, writing
  | xTxLock | xCheckWritten | xObjLock | xRegister | xTxUnlock
  -- common tail
  | chkScrapped | sCreate | callF | inF | fScrap | fMgrLock | fDelete | fMgrUnlock
  -- new cache (manager mutex held)
  | nCreate | nFailMgrUnlock | nFailTxUnlock | nStore | nRLock | nObjLock | nTxLock | nDropOld | nRegister
  | nTxUnlock | nMgrUnlock
  -- deferred calls
  | pEnter | pMgrLock | pBody | pMgrUnlock | dRUnlock
  -- Commit (threads `c T`)
  | cWait | cTxLock | cCheckEmpty | cMgrLock | cLoop | cEntry | cMgrUnlock | cTxUnlock | cDone
  deriving DecidableEq, Repr, Inhabited

/-- which source the model follows.  All `false` = the pinned tree. -/
structure Variant where
  /-- `RUnlock` of an existing cache runs before `checkAndPrune` (the reorder of DESIGN §8 no. 6) -/
  pruneAfterRUnlock : Bool := false
  /-- a writing `With` takes the transaction mutex BEFORE the manager mutex (and keeps it until it
  has registered the cache), so the manager mutex is never held while waiting -/
  txFirst : Bool := false
  /-- `With` on a name the transaction has already written uses the object it holds, not the map's -/
  useOwn : Bool := false
  /-- registering a NEW cache under a name the transaction has already written (that entry was
  evicted meanwhile) scraps and unlocks the old object instead of forgetting it locked -/
  dropOld : Bool := false
  deriving DecidableEq, Repr, Inhabited

structure Thread where
  tx : TxId := 0
  todo : List Access := []
  pc : PC := .idle
  acc : Access := {}
  existing : ObjId := 0
  use : ObjId := 0
  ok : Bool := false
  defers : List Defer := []
  remaining : List (Name × ObjId) := []
  deriving Repr, Inhabited

structure Obj where
  readers : List Tid := []
  writer : Option TxId := none
  scrapped : Bool := false
  /-- ghost: the name it was created for -/
  name : Name := 0
  /-- ghost: it has been stored in the manager map (otherwise a private cold copy) -/
  shared : Bool := false
  /-- ghost: transactions that were handed the object for writing and have not released it -/
  wown : List TxId := []
  /-- ghost: the FIRST transaction that scrapped it while holding its write lock (it may hold partial state) -/
  dirty : Option TxId := none
  /-- ghost: its entry in `writtenCaches` was overwritten while the transaction held its write lock;
  `Commit` never unlocks it (it is unreachable: not in the map, in no `writtenCaches`) -/
  orphan : Bool := false
  /-- ghost: the FIRST transaction that scrapped and unlocked it when registering a new cache under the same name -/
  dropped : Option TxId := none
  /-- ghost: a private cold copy (created because `TryRLock` failed or the shared cache was scrapped) -/
  cold : Bool := false
  /-- ghost: the goroutine that created it -/
  creator : Tid := .w 0
  /-- ghost: other goroutines may have a reference (the creator has released the mutex that hid it) -/
  pub : Bool := false
  deriving Repr, Inhabited

structure Tx where
  written : List (Name × ObjId) := []
  mu : Option Tid := none
  failed : Bool := false
  /-- the argument of `Commit(fail)` -/
  commitFail : Bool := false
  /-- ghost: the object a goroutine of the transaction has write-locked but not yet put into `writtenCaches` -/
  pend : Option ObjId := none
  deriving Repr, Inhabited

structure St where
  map : Name → Option ObjId := fun _ => none
  mgr : Option Tid := none
  objs : ObjId → Obj := fun _ => {}
  nObj : Nat := 0
  txs : TxId → Tx := fun _ => {}
  thr : Tid → Thread := fun _ => {}
  /-- worker threads are `w 0 … w (n-1)` -/
  n : Nat := 0
  /-- transactions are `0 … nTx-1`; committer threads `c 0 … c (nTx-1)` -/
  nTx : Nat := 0
  maxSize : Int := -1
  /-- bbolt discipline: a transaction's first writing access takes the (single) database write lock,
  released when its `With` goroutines are joined (before `Commit`) -/
  dbLock : Bool := false
  dbw : Option TxId := none
  v : Variant := {}
  deriving Inhabited

structure Choice where
  /-- names removed by `checkAndPrune` when the limit is positive (any subset) -/
  prune : List Name := []
  /-- `TryRLock` fails although no writer holds the lock (Go: a writer is *waiting* in `Lock`) -/
  tryFail : Bool := false
  /-- which remaining entry the `range` over `writtenCaches` visits next -/
  pick : Nat := 0
  deriving Repr, Inhabited

def upd {α β : Type} [DecidableEq α] (f : α → β) (a : α) (b : β) : α → β :=
  fun x => if x = a then b else f x

def aget : List (Name × ObjId) → Name → Option ObjId
  | [], _ => none
  | (k, v) :: r, n => if k = n then some v else aget r n

def aput (l : List (Name × ObjId)) (n : Name) (o : ObjId) : List (Name × ObjId) :=
  (n, o) :: l.filter (fun p => p.1 != n)

def St.setThr (s : St) (t : Tid) (th : Thread) : St := { s with thr := upd s.thr t th }
def St.setTx (s : St) (T : TxId) (x : Tx) : St := { s with txs := upd s.txs T x }
def St.setObj (s : St) (o : ObjId) (x : Obj) : St := { s with objs := upd s.objs o x }

/-- where a returning `With` parks next: at the first deferred call, or back in the harness -/
def Thread.doReturn (th : Thread) : Thread :=
  match th.defers with
  | [] => { th with pc := .idle }
  | .prune :: _ => { th with pc := .pEnter }
  | .runlock _ :: _ => { th with pc := .dRUnlock }

def Thread.popReturn (th : Thread) : Thread :=
  Thread.doReturn { th with defers := th.defers.tail }

/-- `defer t.manager.checkAndPrune()` of the existing-cache branch -/
def pushPrune (v : Variant) (ds : List Defer) : List Defer :=
  if v.pruneAfterRUnlock then ds ++ [.prune] else .prune :: ds

def Thread.done (th : Thread) : Bool :=
  match th.pc with
  | .idle => th.todo.isEmpty
  | .cDone => true
  | _ => false

/-- all `With` goroutines of transaction `T` have returned and have nothing left to do -/
def St.joined (s : St) (T : TxId) : Bool :=
  (List.range s.n).all fun i => (s.thr (.w i)).tx != T || (s.thr (.w i)).done

def Obj.free (o : Obj) : Bool := o.readers.isEmpty && o.writer.isNone

def enabled (s : St) (t : Tid) : Bool :=
  let th := s.thr t
  let T := th.tx
  (match t with | .w i => decide (i < s.n) | .c T' => T' == T && decide (T' < s.nTx)) &&
  match th.pc with
  | .idle =>
    match th.todo with
    | [] => false
    | a :: _ => !(s.dbLock && !a.ro) || s.dbw.isNone || s.dbw == some T
  | .mgrLock | .fMgrLock | .pMgrLock | .cMgrLock => s.mgr.isNone
  | .xPreTxLock | .rTxLock | .xTxLock | .nTxLock | .cTxLock => (s.txs T).mu.isNone
  | .xObjLock => (s.objs th.existing).free
  | .nObjLock => (s.objs th.use).free
  | .nRLock => (s.objs th.use).writer.isNone
  | .cWait => s.joined T
  | .cDone => false
  | _ => true

def St.alloc (s : St) (name : Name) (creator : Tid) (cold : Bool) : St × ObjId :=
  ({ s with objs := upd s.objs s.nObj { name := name, creator := creator, cold := cold }, nObj := s.nObj + 1 }, s.nObj)

set_option linter.unusedVariables false in
/-- the action of thread `t` parked at program counter `pc` -/
def stepAt (s : St) (t : Tid) (c : Choice) : PC → St
  | .idle =>
    let th := s.thr t; let T := th.tx; let tx := s.txs T; let a := th.acc
    match th.todo with
    | [] => s
    | a :: rest =>
      let s := if s.dbLock && !a.ro then { s with dbw := some T } else s
      if tx.failed then s.setThr t { th with todo := rest, acc := a, defers := [] }
      else s.setThr t { th with todo := rest, acc := a, defers := [],
                                pc := if s.v.txFirst && !a.ro then .xPreTxLock else .mgrLock }
  | .xPreTxLock =>
    let th := s.thr t; let T := th.tx; let tx := s.txs T; let a := th.acc
    (s.setTx T { tx with mu := some t }).setThr t { th with pc := .mgrLock }
  | .mgrLock =>
    let th := s.thr t; let T := th.tx; let tx := s.txs T; let a := th.acc
    ({ s with mgr := some t }).setThr t { th with pc := .lookup }
  | .lookup =>
    let th := s.thr t; let T := th.tx; let tx := s.txs T; let a := th.acc
    match s.map a.name with
    | some o => s.setThr t { th with existing := o, use := o, pc := .exMgrUnlock }
    | none => s.setThr t { th with pc := .nCreate }
  | .exMgrUnlock =>
    let th := s.thr t; let T := th.tx; let tx := s.txs T; let a := th.acc
    ({ s with mgr := none }).setThr t
      { th with pc := if a.ro then .rTxLock else if s.v.txFirst then .xCheckWritten else .xTxLock }
  -- existing, read-only
  | .rTxLock =>
    let th := s.thr t; let T := th.tx; let tx := s.txs T; let a := th.acc
    (s.setTx T { tx with mu := some t }).setThr t { th with pc := .rCheckWritten }
  | .rCheckWritten =>
    let th := s.thr t; let T := th.tx; let tx := s.txs T; let a := th.acc
    match aget tx.written a.name with
    | some o' => s.setThr t { th with ok := true, use := if s.v.useOwn then o' else th.use, pc := .rTxUnlock }
    | none => s.setThr t { th with ok := false, pc := .rTxUnlock }
  | .rTxUnlock =>
    let th := s.thr t; let T := th.tx; let tx := s.txs T; let a := th.acc
    (s.setTx T { tx with mu := none }).setThr t { th with pc := if th.ok then .chkScrapped else .rTryRLock }
  | .rTryRLock =>
    let th := s.thr t; let T := th.tx; let tx := s.txs T; let a := th.acc
    let ob := s.objs th.existing
    if ob.writer.isNone && !c.tryFail then
      (s.setObj th.existing { ob with readers := t :: ob.readers }).setThr t
        { th with defers := .runlock th.existing :: th.defers, pc := .chkScrapped }
    else s.setThr t { th with pc := .rColdCreate }
  | .rColdCreate =>
    let th := s.thr t; let T := th.tx; let tx := s.txs T; let a := th.acc
    if a.crOk then
      let (s, o) := s.alloc a.name t true
      s.setThr t { th with use := o, pc := .chkScrapped }
    else (s.setTx T { tx with failed := true }).setThr t th.doReturn
  -- existing, writing
  | .xTxLock =>
    let th := s.thr t; let T := th.tx; let tx := s.txs T; let a := th.acc
    (s.setTx T { tx with mu := some t }).setThr t { th with pc := .xCheckWritten }
  | .xCheckWritten =>
    let th := s.thr t; let T := th.tx; let tx := s.txs T; let a := th.acc
    match aget tx.written a.name with
    | some o' => s.setThr t { th with ok := true, use := if s.v.useOwn then o' else th.use, pc := .xTxUnlock }
    | none => s.setThr t { th with ok := false, pc := .xObjLock }
  | .xObjLock =>
    let th := s.thr t; let T := th.tx; let tx := s.txs T; let a := th.acc
    ((s.setObj th.existing { s.objs th.existing with writer := some T }).setTx T { tx with pend := some th.existing }).setThr t
      { th with pc := .xRegister }
  | .xRegister =>
    let th := s.thr t; let T := th.tx; let tx := s.txs T; let a := th.acc
    (s.setTx T { tx with written := aput tx.written a.name th.existing, pend := none }).setThr t { th with pc := .xTxUnlock }
  | .xTxUnlock =>
    let th := s.thr t; let T := th.tx; let tx := s.txs T; let a := th.acc
    (s.setTx T { tx with mu := none }).setThr t { th with pc := .chkScrapped }
  -- common tail
  | .chkScrapped =>
    let th := s.thr t; let T := th.tx; let tx := s.txs T; let a := th.acc
    if (s.objs th.use).scrapped then s.setThr t { th with pc := .sCreate }
    else s.setThr t { th with pc := .callF,
                              defers := if th.use = th.existing then pushPrune s.v th.defers else th.defers }
  | .sCreate =>
    let th := s.thr t; let T := th.tx; let tx := s.txs T; let a := th.acc
    if a.crOk then
      let (s, o) := s.alloc a.name t true
      s.setThr t { th with use := o, pc := .callF }
    else (s.setTx T { tx with failed := true }).setThr t th.doReturn
  | .callF =>
    let th := s.thr t; let T := th.tx; let tx := s.txs T; let a := th.acc
    let ob := s.objs th.use
    let s := if a.ro then s else s.setObj th.use { ob with wown := if ob.wown.contains T then ob.wown else T :: ob.wown }
    s.setThr t { th with pc := .inF }
  | .inF =>
    let th := s.thr t; let T := th.tx; let tx := s.txs T; let a := th.acc
    if a.cbOk then s.setThr t th.doReturn else s.setThr t { th with pc := .fScrap }
  | .fScrap =>
    let th := s.thr t; let T := th.tx; let tx := s.txs T; let a := th.acc
    let ob := s.objs th.use
    ((s.setTx T { tx with failed := true }).setObj th.use
      { ob with scrapped := true,
                dirty := if ob.dirty.isSome then ob.dirty else if ob.writer = some T then some T else none }).setThr t
      { th with pc := .fMgrLock }
  | .fMgrLock =>
    let th := s.thr t; let T := th.tx; let tx := s.txs T; let a := th.acc
    ({ s with mgr := some t }).setThr t { th with pc := .fDelete }
  | .fDelete =>
    let th := s.thr t; let T := th.tx; let tx := s.txs T; let a := th.acc
    ({ s with map := upd s.map a.name none }).setThr t { th with pc := .fMgrUnlock }
  | .fMgrUnlock =>
    let th := s.thr t; let T := th.tx; let tx := s.txs T; let a := th.acc
    ({ s with mgr := none }).setThr t th.doReturn
  -- new cache
  | .nCreate =>
    let th := s.thr t; let T := th.tx; let tx := s.txs T; let a := th.acc
    if a.crOk then
      let (s, o) := s.alloc a.name t false
      s.setThr t { th with use := o, existing := o, pc := .nStore }
    else (s.setTx T { tx with failed := true }).setThr t { th with pc := .nFailMgrUnlock }
  | .nFailMgrUnlock =>
    let th := s.thr t; let T := th.tx; let tx := s.txs T; let a := th.acc
    ({ s with mgr := none }).setThr t
      (if s.v.txFirst && !a.ro then { th with pc := .nFailTxUnlock } else th.doReturn)
  | .nFailTxUnlock =>
    let th := s.thr t; let T := th.tx; let tx := s.txs T; let a := th.acc
    (s.setTx T { tx with mu := none }).setThr t th.doReturn
  | .nStore =>
    let th := s.thr t; let T := th.tx; let tx := s.txs T; let a := th.acc
    let s := if s.maxSize ≠ 0 then
        ({ s with map := upd s.map a.name (some th.use) }).setObj th.use { s.objs th.use with shared := true }
      else s
    s.setThr t { th with defers := if s.maxSize ≠ 0 then .prune :: th.defers else th.defers,
                         pc := if a.ro then .nRLock else .nObjLock }
  | .nRLock =>
    let th := s.thr t; let T := th.tx; let tx := s.txs T; let a := th.acc
    let ob := s.objs th.use
    (s.setObj th.use { ob with readers := t :: ob.readers }).setThr t
      { th with defers := .runlock th.use :: th.defers, pc := .nMgrUnlock }
  | .nObjLock =>
    let th := s.thr t; let T := th.tx; let tx := s.txs T; let a := th.acc
    ((s.setObj th.use { s.objs th.use with writer := some T }).setTx T { tx with pend := some th.use }).setThr t
      { th with pc := if s.v.txFirst then
                        (if s.v.dropOld && (aget tx.written a.name).isSome then .nDropOld else .nRegister)
                      else .nTxLock }
  | .nTxLock =>
    let th := s.thr t; let T := th.tx; let tx := s.txs T; let a := th.acc
    (s.setTx T { tx with mu := some t }).setThr t
      { th with pc := if s.v.dropOld && (aget tx.written a.name).isSome then .nDropOld else .nRegister }
  | .nDropOld =>
    let th := s.thr t; let T := th.tx; let tx := s.txs T; let a := th.acc
    -- `oldCache.scrapped = true; oldCache.mu.Unlock()`; the entry itself is overwritten by the next step
    -- (the model removes it here: nobody can look at writtenCaches in between, the transaction mutex is held)
    match aget tx.written a.name with
    | some old =>
      let ob := s.objs old
      ((s.setObj old { ob with scrapped := true, writer := none, wown := ob.wown.erase T,
                               dirty := if ob.dirty.isSome then ob.dirty else some T,
                               dropped := if ob.dropped.isSome then ob.dropped else some T }).setTx T
        { tx with written := tx.written.filter (fun p => p.1 != a.name) }).setThr t { th with pc := .nRegister }
    | none => s.setThr t { th with pc := .nRegister }
  | .nRegister =>
    let th := s.thr t; let T := th.tx; let tx := s.txs T; let a := th.acc
    -- `t.writtenCaches[name] = s` OVERWRITES an entry the transaction may already have under this name
    -- (its cache was evicted meanwhile): the old object stays write-locked for ever (ghost `orphan`)
    let s := match aget tx.written a.name with
      | some old => s.setObj old { s.objs old with orphan := true }
      | none => s
    (s.setTx T { tx with written := aput tx.written a.name th.use, pend := none }).setThr t { th with pc := .nTxUnlock }
  | .nTxUnlock =>
    let th := s.thr t; let T := th.tx; let tx := s.txs T; let a := th.acc
    ((s.setObj th.use { s.objs th.use with pub := true }).setTx T { tx with mu := none }).setThr t { th with pc := .nMgrUnlock }
  | .nMgrUnlock =>
    let th := s.thr t; let T := th.tx; let tx := s.txs T; let a := th.acc
    ({ (s.setObj th.use { s.objs th.use with pub := true }) with mgr := none }).setThr t { th with pc := .callF }
  -- deferred calls
  | .pEnter =>
    let th := s.thr t; let T := th.tx; let tx := s.txs T; let a := th.acc
    if s.maxSize = -1 then s.setThr t th.popReturn else s.setThr t { th with pc := .pMgrLock }
  | .pMgrLock =>
    let th := s.thr t; let T := th.tx; let tx := s.txs T; let a := th.acc
    ({ s with mgr := some t }).setThr t { th with pc := .pBody }
  | .pBody =>
    let th := s.thr t; let T := th.tx; let tx := s.txs T; let a := th.acc
    ({ s with map := if s.maxSize = 0 then fun _ => none
                     else fun n => if c.prune.contains n then none else s.map n }).setThr t
      { th with pc := .pMgrUnlock }
  | .pMgrUnlock =>
    let th := s.thr t; let T := th.tx; let tx := s.txs T; let a := th.acc
    ({ s with mgr := none }).setThr t th.popReturn
  | .dRUnlock =>
    let th := s.thr t; let T := th.tx; let tx := s.txs T; let a := th.acc
    match th.defers with
    | .runlock o :: _ =>
      (s.setObj o { s.objs o with readers := (s.objs o).readers.erase t }).setThr t th.popReturn
    | _ => s
  -- Commit
  | .cWait =>
    let th := s.thr t; let T := th.tx; let tx := s.txs T; let a := th.acc
    ({ s with dbw := if s.dbw = some T then none else s.dbw }).setThr t { th with pc := .cTxLock }
  | .cTxLock =>
    let th := s.thr t; let T := th.tx; let tx := s.txs T; let a := th.acc
    (s.setTx T { tx with mu := some t }).setThr t { th with pc := .cCheckEmpty }
  | .cCheckEmpty =>
    let th := s.thr t; let T := th.tx; let tx := s.txs T; let a := th.acc
    s.setThr t { th with pc := if tx.written.isEmpty then .cTxUnlock else .cMgrLock }
  | .cMgrLock =>
    let th := s.thr t; let T := th.tx; let tx := s.txs T; let a := th.acc
    ({ s with mgr := some t }).setThr t { th with pc := .cLoop }
  | .cLoop =>
    let th := s.thr t; let T := th.tx; let tx := s.txs T; let a := th.acc
    s.setThr t { th with remaining := tx.written, pc := .cEntry }
  | .cEntry =>
    let th := s.thr t; let T := th.tx; let tx := s.txs T; let a := th.acc
    let k := c.pick % th.remaining.length
    match th.remaining[k]? with
    | none => s.setThr t { th with pc := .cMgrUnlock }     -- the list is empty: the loop is over
    | some (n, o) =>
      let ob := s.objs o
      let bad := tx.failed || tx.commitFail
      let s := if bad then { s with map := upd s.map n none } else s
      (s.setObj o { ob with writer := none, wown := ob.wown.erase T,
                            scrapped := ob.scrapped || bad,
                            dirty := if ob.dirty.isSome then ob.dirty else if bad then some T else none }).setThr t
        { th with remaining := th.remaining.eraseIdx k }
  | .cMgrUnlock =>
    let th := s.thr t; let T := th.tx; let tx := s.txs T; let a := th.acc
    ({ s with mgr := none }).setThr t { th with pc := .cTxUnlock }
  | .cTxUnlock =>
    let th := s.thr t; let T := th.tx; let tx := s.txs T; let a := th.acc
    (s.setTx T { tx with mu := none }).setThr t { th with pc := .cDone }
  | .cDone =>
    let th := s.thr t; let T := th.tx; let tx := s.txs T; let a := th.acc
    s


def step (s : St) (t : Tid) (c : Choice) : St := stepAt s t c (s.thr t).pc

/-- `Release(name)` / any eviction: map entries vanish at an arbitrary moment -/
def evict (s : St) (ns : List Name) : St :=
  { s with map := fun n => if ns.contains n then none else s.map n }

/-- initial states: `n` workers with arbitrary programs for transactions `< nTx`, nothing cached, nothing locked -/
structure Init (s : St) : Prop where
  map : ∀ n, s.map n = none
  mgr : s.mgr = none
  nObj : s.nObj = 0
  objs : ∀ o, s.objs o = {}
  txs : ∀ T, (s.txs T).written = [] ∧ (s.txs T).mu = none ∧ (s.txs T).failed = false ∧ (s.txs T).pend = none
  thrW : ∀ i, (s.thr (.w i)).pc = .idle ∧ (s.thr (.w i)).defers = [] ∧ (s.thr (.w i)).remaining = [] ∧
    (s.n ≤ i → (s.thr (.w i)).todo = []) ∧ (i < s.n → (s.thr (.w i)).tx < s.nTx)
  thrC : ∀ T, (s.thr (.c T)).tx = T ∧ (s.thr (.c T)).pc = .cWait ∧ (s.thr (.c T)).defers = [] ∧
    (s.thr (.c T)).remaining = []
  dbw : s.dbw = none

inductive Reachable (s0 : St) : St → Prop where
  | init : Reachable s0 s0
  | step {s : St} (t : Tid) (c : Choice) : Reachable s0 s → enabled s t = true → Reachable s0 (step s t c)
  | evict {s : St} (ns : List Name) : Reachable s0 s → Reachable s0 (evict s ns)

def St.unfinished (s : St) (t : Tid) : Bool :=
  (match t with | .w i => decide (i < s.n) | .c T => decide (T < s.nTx)) && !(s.thr t).done

/-- the threads that exist: workers `w 0 … w (n-1)`, committers `c 0 … c (nTx-1)` -/
def St.tids (s : St) : List Tid := (List.range s.n).map Tid.w ++ (List.range s.nTx).map Tid.c

/-- no thread can take a step although some thread has not finished -/
def Deadlocked (s : St) : Prop := (∃ t, s.unfinished t = true) ∧ ∀ t, enabled s t = false

def St.deadlockedB (s : St) : Bool := s.tids.any s.unfinished && s.tids.all fun t => !enabled s t

/-- run a schedule (default choices), refusing steps that are not enabled -/
def runChecked (s : St) : List Tid → Option St
  | [] => some s
  | t :: r => if enabled s t then runChecked (step s t {}) r else none

/-- labels of the transition system -/
inductive Lab where
  | t (t : Tid) (c : Choice := {})
  | e (ns : List Name)

/-- run a labelled schedule, refusing steps that are not enabled -/
def runLabs (s : St) : List Lab → Option St
  | [] => some s
  | .t t c :: r => if enabled s t then runLabs (step s t c) r else none
  | .e ns :: r => runLabs (evict s ns) r

/-- two callbacks of different transactions run on the same object and one of them writes -/
def St.mutexViolatedB (s : St) : Bool :=
  s.tids.any fun t1 => s.tids.any fun t2 =>
    (s.thr t1).pc == .inF && (s.thr t2).pc == .inF && (s.thr t1).use == (s.thr t2).use &&
    (s.thr t1).tx != (s.thr t2).tx && !((s.thr t1).acc.ro && (s.thr t2).acc.ro)

/-- every thread has finished but some object is still write-locked -/
def St.leakB (s : St) : Bool :=
  s.tids.all (fun t => !s.unfinished t) && (List.range s.nObj).any fun o => (s.objs o).writer.isSome

/-- an initial state from a list of worker programs `(transaction, accesses)` -/
def mkInit (progs : List (TxId × List Access)) (commitFail : List Bool) (maxSize : Int) (db : Bool) (v : Variant) : St :=
  { n := progs.length, nTx := commitFail.length, maxSize := maxSize, dbLock := db, v := v,
    txs := fun T => { commitFail := commitFail.getD T false },
    thr := fun t => match t with
      | .w i => match progs[i]? with
        | some (T, p) => { tx := T, todo := p }
        | none => {}
      | .c T => { tx := T, pc := .cWait } }

end Sema.C11
