/-
C11 — shared-cache transactions (shard/cache/manager.go): property theorems.

Everything is about the transition system of `Model.lean` (one step = the code between two
verifYield points), for ANY number of transactions / goroutines / caches / objects, any programs,
any cache limit, with eviction (`Release`, pruning) possible at every moment.
-/
import SemaModel.C11.Lemmas
import SemaModel.C11.Skeleton
import SemaModel.Generated.FactsC11
namespace Sema.C11
open Sema.Gen

/-! ## the tie to the source: the lock skeleton the model was written against is the current one -/

theorem C11_skeleton_with : FactsC11.withSkeleton = Skeleton.expectedWith := by decide
theorem C11_skeleton_commit : FactsC11.commitSkeleton = Skeleton.expectedCommit := by decide
theorem C11_skeleton_prune : FactsC11.pruneSkeleton = Skeleton.expectedPrune := by decide
theorem C11_skeleton_release : FactsC11.releaseSkeleton = Skeleton.expectedRelease := by decide

end Sema.C11
