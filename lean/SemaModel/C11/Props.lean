/-
C11 — shared-cache transactions (shard/cache/manager.go): property theorems.

Everything is about the transition system of `Model.lean` (one step = the code between two
verifYield points), for ANY number of transactions / goroutines / caches / objects, any programs,
any cache limit, with eviction (`Release`, pruning) possible at every moment.
-/
import SemaModel.C11.Witness
import SemaModel.C11.Progress
import SemaModel.C11.Inv16
import SemaModel.C11.Inv19
import SemaModel.C11.Inv20
import SemaModel.C11.Skeleton
import SemaModel.Generated.FactsC11
set_option linter.unusedSimpArgs false
set_option linter.unusedVariables false
namespace Sema.C11
open Sema.Gen

/-! ## the tie to the source: the lock skeleton the model was written against is the current one -/

theorem C11_skeleton_with : FactsC11.withSkeleton = Skeleton.expectedWith := by decide
theorem C11_skeleton_commit : FactsC11.commitSkeleton = Skeleton.expectedCommit := by decide
theorem C11_skeleton_prune : FactsC11.pruneSkeleton = Skeleton.expectedPrune := by decide
theorem C11_skeleton_release : FactsC11.releaseSkeleton = Skeleton.expectedRelease := by decide

/-! ## C11_released

Full statement: when every started transaction has finished `Commit` (every goroutine has returned
and has nothing left to do), every object lock, the manager mutex, every transaction mutex and the
database write lock are free.  Hypotheses: `Init s0` (nothing cached or locked initially; programs
are arbitrary), `s0.v = fixedV` (the model follows the current source), reachability by ANY
interleaving of steps and evictions. -/

theorem C11_released {s0 s : St} (hi : Init s0) (hv : s0.v = fixedV) (hr : Reachable s0 s)
    (hfin : ∀ t, s.unfinished t = false) :
    s.mgr = none ∧ (∀ T, (s.txs T).mu = none) ∧ s.dbw = none ∧
    (∀ o, o < s.nObj → (s.objs o).readers = [] ∧ (s.objs o).writer = none) := by
  obtain ⟨h, ho⟩ := inv_reachable hi hv hr
  -- a thread that is not `done` does not exist (index beyond the bounds) and sits at idle / cWait
  have hdone : ∀ t, (s.thr t).done = true ∨ (s.thr t).pc = .idle ∨ (s.thr t).pc = .cWait := by
    intro t
    have := hfin t
    cases t with
    | w i =>
      by_cases hlt : i < s.n
      · simp [St.unfinished, hlt] at this; exact Or.inl this
      · exact Or.inr (Or.inl (h.kind.out i (by omega)).1)
    | c T =>
      by_cases hlt : T < s.nTx
      · simp [St.unfinished, hlt] at this; exact Or.inl this
      · exact Or.inr (Or.inr (ho.c T (Nat.le_of_not_lt hlt)))
  have hpc : ∀ t, (s.thr t).pc = .idle ∨ (s.thr t).pc = .cWait ∨ (s.thr t).pc = .cDone := by
    intro t
    rcases hdone t with h1 | h1 | h1
    · unfold Thread.done at h1
      cases hp : (s.thr t).pc <;> simp_all
    · exact Or.inl h1
    · exact Or.inr (Or.inl h1)
  have hmgr : s.mgr = none := by
    cases hm : s.mgr with
    | none => rfl
    | some t =>
      have := (h.mgr t).mp hm
      rcases hpc t with h1 | h1 | h1 <;> simp [h1, holdsMgr] at this
  have hmu : ∀ T, (s.txs T).mu = none := by
    intro T
    cases hm : (s.txs T).mu with
    | none => rfl
    | some t =>
      have := ((h.tx T t).mp hm).2
      rcases hpc t with h1 | h1 | h1 <;> simp [h1, holdsTx] at this
  refine ⟨hmgr, hmu, ?_, ?_⟩
  · cases hd : s.dbw with
    | none => rfl
    | some T =>
      have h1 := ho.db T hd
      have := hfin (.c T)
      simp [St.unfinished, h1.2, Thread.done, h1.1] at this
  · intro o ho'
    constructor
    · cases hrd : (s.objs o).readers with
      | nil => rfl
      | cons t r =>
        have hm : t ∈ (s.objs o).readers := by rw [hrd]; simp
        have hdf := (h.rd.rl t o).mp hm
        have hok := h.defers t
        unfold DefersOK at hok
        rcases hpc t with h1 | h1 | h1 <;> simp [h1] at hok <;> rw [hok.2] at hdf <;> simp at hdf
    · cases hw : (s.objs o).writer with
      | none => rfl
      | some T =>
        rcases (h.w o T ho').mp hw with h1 | ⟨h1, h2⟩
        · have := h.pend T
          rw [hmu T, h1] at this; exact absurd this (by simp)
        · by_cases hlt : T < s.nTx
          · have := hfin (.c T)
            simp [St.unfinished, hlt, Thread.done] at this
            cases hp : (s.thr (.c T)).pc <;> simp [hp] at this <;> simp [stillHeld, hp] at h2
          · rw [ho.wr T (Nat.le_of_not_lt hlt)] at h1; simp at h1

/-! ## C11_mutex

Full statement: while an object is write-held by transaction T — from T's first write access to it
(`callF` of a writing access; ghost `wown`) until T's Commit unlocks it (or T replaces it) — no
callback of another transaction runs on that object; callbacks of different transactions that run
on the same object at the same time are all read-only; a reader that could not `TryRLock` (or met a
scrapped cache) runs on a cold copy that only its creator ever references; a read-only access
never waits for a cache lock.  Hypotheses: `Init s0`, the model of the current source, any
interleaving, evictions at any moment, NO assumption about bbolt. -/

theorem C11_mutex {s0 s : St} (hi : Init s0) (hv : s0.v = fixedV) (hr : Reachable s0 s)
    (t : Tid) (T' : TxId) (hcb : (s.thr t).pc = .inF) (hown : T' ∈ (s.objs (s.thr t).use).wown) :
    T' = (s.thr t).tx := by
  have a := all_reachable hi hv hr
  have h := a.inv
  have hlt := h.bounds.use t (by simp [hcb, useValid])
  have hact : (s.thr t).pc ≠ .idle ∧ isCommitPC (s.thr t).pc = false := by simp [hcb, isCommitPC]
  have hs2 := a.use.s2 t T' (Or.inl (by simp [hcb, postCheck]))
  rcases a.use.post t (by simp [hcb, postCheck]) with hsrc | hd
  · rcases hsrc with c1 | c1 | c1
    · -- own cold copy
      have hcf := a.own.coldfree _ hlt c1
      rcases a.own.w1 _ T' hlt hown with ⟨_, w⟩ | w | w
      · rcases h.pub.use t (by simp [hcb, useValid]) with hp | hp
        · have := h.pub.cold _ hlt c1; rw [hp] at this; exact absurd this (by simp)
        · rw [hp] at w; exact w.symm
      · rw [hcf.2.1] at w; exact absurd w (by simp)
      · rw [hcf.2.2] at w; exact absurd w (by simp)
    · -- read lock held
      have hrd := (h.rd.rl t _).mpr c1
      rcases a.own.w1 _ T' hlt hown with ⟨w, _⟩ | w | w
      · have := (a.own.coldfree _ hlt w).1; rw [this] at hrd; simp at hrd
      · have := h.rd.excl _ (by rw [w]; simp); rw [this] at hrd; simp at hrd
      · exact (hs2 w).symm
    · -- write lock of the own transaction
      have hw := writer_of_registered h (t := t) hact.1 hact.2 c1
      rcases a.own.w1 _ T' hlt hown with ⟨w, _⟩ | w | w
      · have := (a.own.coldfree _ hlt w).2.1; rw [hw] at this; exact absurd this (by simp)
      · rw [hw] at w; injection w with w; exact w.symm
      · exact (hs2 w).symm
  · exact a.own.w2 _ T' _ hlt hown hd

/-- callbacks of two different transactions on the same object at the same time: both read-only -/
theorem C11_mutex_overlap {s0 s : St} (hi : Init s0) (hv : s0.v = fixedV) (hr : Reachable s0 s)
    (t1 t2 : Tid) (h1 : (s.thr t1).pc = .inF) (h2 : (s.thr t2).pc = .inF)
    (ho : (s.thr t1).use = (s.thr t2).use) (htx : (s.thr t1).tx ≠ (s.thr t2).tx) :
    (s.thr t1).acc.ro = true ∧ (s.thr t2).acc.ro = true := by
  have a := all_reachable hi hv hr
  have h := a.inv
  -- a writing access in its callback holds no read lock; every other way of holding the object is exclusive
  have key : ∀ ta tb : Tid, (s.thr ta).pc = .inF → (s.thr tb).pc = .inF → (s.thr ta).use = (s.thr tb).use →
      (s.thr ta).tx ≠ (s.thr tb).tx → (s.thr ta).acc.ro = true := by
    intro ta tb ha hb hab hne
    cases hro : (s.thr ta).acc.ro with
    | true => rfl
    | false =>
      exfalso
      have hlt := h.bounds.use ta (by simp [ha, useValid])
      have hacta : (s.thr ta).pc ≠ .idle ∧ isCommitPC (s.thr ta).pc = false := by simp [ha, isCommitPC]
      have hactb : (s.thr tb).pc ≠ .idle ∧ isCommitPC (s.thr tb).pc = false := by simp [hb, isCommitPC]
      have hnorl : ∀ o, Defer.runlock o ∉ (s.thr ta).defers := by
        intro o
        have hdf := h.defers ta
        unfold DefersOK at hdf
        rcases hdf.1 with hn | hn
        · exact noRunlock_not_mem hn o
        · rw [hro] at hn; exact absurd hn (by simp)
      have s2a := a.use.s2 ta
      have s2b := a.use.s2 tb
      have pa := a.use.post ta (by simp [ha, postCheck])
      have pb := a.use.post tb (by simp [hb, postCheck])
      unfold Src at pa pb
      rw [← hab] at pb s2b
      -- what `ta` has
      rcases pa with (ca | ca | ca) | ca
      · -- cold copy of ta: tb uses it too, so tb is its creator as well
        have hca := h.pub.cold _ hlt ca
        have va := h.pub.use ta (by simp [ha, useValid])
        have vb := h.pub.use tb (by simp [hb, useValid])
        rw [← hab] at vb
        rcases va with va | va
        · rw [hca] at va; exact absurd va (by simp)
        · rcases vb with vb | vb
          · rw [hca] at vb; exact absurd vb (by simp)
          · rw [va] at vb; rw [vb] at hne; exact hne rfl
      · exact hnorl _ ca
      · have hwa := writer_of_registered h (t := ta) hacta.1 hacta.2 ca
        rcases pb with (cb | cb | cb) | cb
        · have := (a.own.coldfree _ hlt cb).2.1; rw [hwa] at this; exact absurd this (by simp)
        · have hrd := (h.rd.rl tb _).mpr cb
          have := h.rd.excl _ (by rw [hwa]; simp); rw [this] at hrd; simp at hrd
        · have hwb := writer_of_registered h (t := tb) hactb.1 hactb.2 cb
          rw [hwa] at hwb; injection hwb with e; exact hne e
        · exact hne (s2a _ (Or.inl (by simp [ha, postCheck])) cb)
      · -- ta works on an object its own transaction has replaced
        have hb' := s2b _ (Or.inl (by simp [hb, postCheck])) ca
        exact hne hb'.symm
  exact ⟨key t1 t2 h1 h2 ho htx, key t2 t1 h2 h1 ho.symm (fun e => htx e.symm)⟩

/-- a cold copy is referenced only by the goroutine that created it -/
theorem C11_private_copy {s0 s : St} (hi : Init s0) (hv : s0.v = fixedV) (hr : Reachable s0 s)
    (t : Tid) (hu : useValid (s.thr t).pc = true) (hc : (s.objs (s.thr t).use).cold = true) :
    (s.objs (s.thr t).use).creator = t ∧ (s.objs (s.thr t).use).readers = [] ∧ (s.objs (s.thr t).use).writer = none ∧
      ∀ n, s.map n ≠ some (s.thr t).use := by
  have a := all_reachable hi hv hr
  have h := a.inv
  have hlt := h.bounds.use t hu
  have hcf := a.own.coldfree _ hlt hc
  have hnp := h.pub.cold _ hlt hc
  refine ⟨?_, hcf.1, hcf.2.1, ?_⟩
  · rcases h.pub.use t hu with hp | hp
    · rw [hnp] at hp; exact absurd hp (by simp)
    · exact hp
  · intro n hm
    rcases h.pub.map n _ hm with hp | ⟨hp1, hp2⟩
    · rw [hnp] at hp; exact absurd hp (by simp)
    · -- the only unpublished map entries are fresh objects of the new-cache branch, which are not cold
      have hcu : (s.objs (s.thr (s.objs (s.thr t).use).creator).use).cold = false := by
        by_cases hq : newPriv (s.thr (s.objs (s.thr t).use).creator).pc = true
        · exact (h.pub.priv _ hq).2.2
        · have hl : (s.thr (s.objs (s.thr t).use).creator).pc = .nTxUnlock ∨
              (s.thr (s.objs (s.thr t).use).creator).pc = .nMgrUnlock := by
            cases hpc : (s.thr (s.objs (s.thr t).use).creator).pc <;> simp_all [newLate, newPriv]
          exact (h.pub.late _ hl).2
      rw [hp2, hc] at hcu; exact absurd hcu (by simp)

/-- a read-only access never waits for a cache lock: if it cannot move it waits for the manager mutex
or for its transaction mutex -/
theorem C11_reader_never_blocks_on_cache {s0 s : St} (hi : Init s0) (hv : s0.v = fixedV) (hr : Reachable s0 s)
    (t : Tid) (hro : (s.thr t).acc.ro = true) (hp : (s.thr t).pc ≠ .idle) (hc : isCommitPC (s.thr t).pc = false)
    (hb : stepCond s t = false) : mgrAcq (s.thr t).pc = true ∨ (s.thr t).pc = .rTxLock := by
  have a := all_reachable hi hv hr
  have h := a.inv
  have hrw := h.kind.rw t
  have hleg := h.kind.legacy t
  unfold stepCond at hb
  cases hpc : (s.thr t).pc <;> simp [hpc, rwPC, hro, isCommitPC, mgrAcq] at hrw hleg hp hc hb ⊢
  · have := new_free h (t := t) (by simp [hpc, newPre]); simp [this.2] at hb

/-! ## C11_no_scrapped

What the code guarantees, precisely.  `With` reads the `scrapped` flag once (`chkScrapped`), after it
has acquired its lock, and hands the object to the callback one step later.  (1) At the check the
flag was clear (`C11_checked_before_handout`).  (2) An object that was scrapped by a transaction
holding its WRITE lock (a failed writer's callback, a failed Commit, a replacement — ghost `dirty`,
i.e. the object may carry partial state) is never handed to, nor being used by, a callback of another
transaction: `C11_no_scrapped`.  (3) The window between check and use exists only for a flag set
under a READ lock: a reader whose callback fails scraps the shared cache while other readers, which
passed their check before, still use or are about to use it; that cache was not modified (all of them
hold read locks), so nothing partial is observed.  The literal sentence "no callback ever receives
an object whose scrapped flag is set" is therefore FALSE for the code (and stays so: it is a plain
field written under RLock, see notes — data race, outside the model); (2) is the part that matters. -/

theorem C11_no_scrapped {s0 s : St} (hi : Init s0) (hv : s0.v = fixedV) (hr : Reachable s0 s)
    (t : Tid) (T' : TxId) (hcb : (s.thr t).pc = .callF ∨ (s.thr t).pc = .inF)
    (hd : (s.objs (s.thr t).use).dirty = some T') : (s.thr t).tx = T' := by
  obtain ⟨_, d⟩ := dirty_reachable hi hv hr
  exact d.d2 t T' (Or.inl (by rcases hcb with h | h <;> simp [h, postCheck])) hd

/-- the flag is clear when it is checked: the step from `chkScrapped` to `callF` -/
theorem C11_checked_before_handout (s : St) (t : Tid) (c : Choice) (hp : (s.thr t).pc = .chkScrapped)
    (hn : ((step s t c).thr t).pc = .callF) : (s.objs (s.thr t).use).scrapped = false := by
  revert hn
  unfold step
  simp only [hp, stepAt]
  cases hs : (s.objs (s.thr t).use).scrapped <;> simp [St.setThr]

/-- whatever is marked `dirty` is scrapped (so every later check sends its reader to a cold copy) -/
theorem C11_dirty_is_scrapped {s0 s : St} (hi : Init s0) (hv : s0.v = fixedV) (hr : Reachable s0 s)
    (o : ObjId) (ho : o < s.nObj) (hd : (s.objs o).dirty ≠ none) : (s.objs o).scrapped = true := by
  obtain ⟨_, d⟩ := dirty_reachable hi hv hr
  exact d.d1 o ho hd

/-! ## C11_evict_harmless

`Reachable` has a constructor for evictions: any set of map entries may vanish at ANY moment
(between any two steps of any goroutine, even while the manager mutex is held — more than
`Release` or pruning can do).  Hence every theorem of this file already quantifies over all
evictions.  Stated once more explicitly: after any eviction the state is reachable, satisfies all
invariants, no lock / transaction / goroutine state has changed, and the evicted names are absent, so
the next `With` on such a name takes the new-cache branch and rebuilds the cache. -/

theorem C11_evict_harmless {s0 s : St} (hi : Init s0) (hv : s0.v = fixedV) (hr : Reachable s0 s) (ns : List Name) :
    Reachable s0 (evict s ns) ∧ AllInv (evict s ns) ∧ InvDirty (evict s ns) ∧
    (evict s ns).objs = s.objs ∧ (evict s ns).txs = s.txs ∧ (evict s ns).thr = s.thr ∧ (evict s ns).mgr = s.mgr ∧
    (∀ n, n ∈ ns → (evict s ns).map n = none) ∧ (∀ n, n ∉ ns → (evict s ns).map n = s.map n) := by
  obtain ⟨a, d⟩ := dirty_reachable hi hv hr
  refine ⟨Reachable.evict ns hr, AllInv_evict ns a, InvDirty_evict ns d, rfl, rfl, rfl, rfl, ?_, ?_⟩
  · intro n hn; simp [evict, hn]
  · intro n hn; simp [evict, hn]

/-- after an eviction the next access to that name creates a new cache: `lookup` goes to `nCreate` -/
theorem C11_evicted_is_rebuilt (s : St) (t : Tid) (c : Choice) (hp : (s.thr t).pc = .lookup)
    (hm : s.map (s.thr t).acc.name = none) : ((step s t c).thr t).pc = .nCreate := by
  unfold step
  simp [hp, stepAt, hm, St.setThr]

/-! ### "a later transaction rebuilds it" — what the model can carry

The model has no storage: `createFn` (in the code `NewIndexVamana(bucket)` etc., reading the CURRENT
transaction's bucket) is the step `nCreate`, which allocates an object.  What is proved: the access that
finds no map entry CONSTRUCTS A NEW OBJECT — an index no object had before, hence none of the evicted ones,
unlocked, not scrapped, not dirty, not a cold copy — keeps working on exactly that object through the whole
new-cache branch whatever the other goroutines and evictions do in between, and the callback runs on it.
That the constructor reads committed storage (plus the transaction's own writes) is bbolt's MVCC and the
constructors' code — outside this model (C08 `C08_flush`/`Coherent`: an empty cache over a bucket answers
as the bucket does). -/

/-- program counters of the new-cache branch after the creation, up to the hand-over to the callback -/
def inNewBranch : PC → Bool
  | .nStore | .nRLock | .nObjLock | .nTxLock | .nDropOld | .nRegister | .nTxUnlock | .nMgrUnlock => true
  | _ => false

/-- `nCreate` with a constructor that succeeds: a FRESH object (index `s.nObj`: no existing object, in
particular not the evicted one), in its initial state, created by this goroutine for this name; no other
object changes; a constructor that fails marks the transaction failed and the callback is not run -/
theorem C11_rebuilt_fresh (s : St) (t : Tid) (c : Choice) (hp : (s.thr t).pc = .nCreate) :
    ((s.thr t).acc.crOk = true →
      ((step s t c).thr t).pc = .nStore ∧ ((step s t c).thr t).use = s.nObj ∧ (step s t c).nObj = s.nObj + 1 ∧
      (step s t c).objs s.nObj = { name := (s.thr t).acc.name, creator := t, cold := false } ∧
      (∀ o, o ≠ s.nObj → (step s t c).objs o = s.objs o)) ∧
    ((s.thr t).acc.crOk = false →
      ((step s t c).thr t).pc = .nFailMgrUnlock ∧ ((step s t c).txs (s.thr t).tx).failed = true ∧
      (step s t c).nObj = s.nObj) := by
  unfold step
  constructor
  · intro hcr
    simp [hp, stepAt, hcr, St.setThr, St.alloc, upd]
    intro o ho; simp [ho]
  · intro hcr
    simp [hp, stepAt, hcr, St.setThr, St.setTx, upd]

/-- through the rest of the branch the goroutine keeps that object (`use` is not reassigned), the branch
ends at `callF`, and `callF` runs the callback (`inF`) on it -/
theorem C11_rebuilt_kept (s : St) (t : Tid) (c : Choice) :
    (inNewBranch (s.thr t).pc = true →
      ((step s t c).thr t).use = (s.thr t).use ∧
      (inNewBranch ((step s t c).thr t).pc = true ∨ ((step s t c).thr t).pc = .callF)) ∧
    ((s.thr t).pc = .callF → ((step s t c).thr t).pc = .inF ∧ ((step s t c).thr t).use = (s.thr t).use) := by
  unfold step
  constructor
  · intro h
    cases hpc : (s.thr t).pc <;> simp [hpc, inNewBranch] at h <;>
      simp only [stepAt] <;> (repeat' split) <;> simp [St.setThr, St.setTx, St.setObj, upd, inNewBranch]
  · intro hpc
    simp only [hpc, stepAt]
    split <;> simp [St.setThr, St.setObj, upd]

/-- … whatever happens in between: a step of another goroutine and an eviction leave this goroutine's
registers (program counter, `use`) alone -/
theorem C11_rebuilt_frame (s : St) (t t' : Tid) (c : Choice) (ns : List Name) (h : t ≠ t') :
    (step s t' c).thr t = s.thr t ∧ (evict s ns).thr t = s.thr t :=
  ⟨step_thr_ne s t' t c h, rfl⟩

/-- … and in every reachable state the object a goroutine holds in that branch is one IT created (not a
shared object another goroutine could have scrapped before, not a cold copy) -/
theorem C11_rebuilt_own {s0 s : St} (hi : Init s0) (hv : s0.v = fixedV) (hr : Reachable s0 s)
    (t : Tid) (hp : inNewBranch (s.thr t).pc = true) :
    (s.objs (s.thr t).use).creator = t ∧ (s.objs (s.thr t).use).cold = false := by
  have h := (all_reachable hi hv hr).inv
  by_cases hq : newPriv (s.thr t).pc = true
  · exact ⟨(h.pub.priv t hq).1, (h.pub.priv t hq).2.2⟩
  · have hl : (s.thr t).pc = .nTxUnlock ∨ (s.thr t).pc = .nMgrUnlock := by
      cases hpc : (s.thr t).pc <;> simp_all [inNewBranch, newPriv]
    exact h.pub.late t hl

/-! ## C11_failed_dropped

Full statement: once `Commit` of a FAILED transaction (a callback or a constructor of it returned an
error, or `Commit(true)`) has returned, every cache object in its `writtenCaches` is scrapped and
is in the manager map under no name — and stays so for ever (the statement is about every later
reachable state).  The same holds, at once, for a cache the transaction replaced while it was
running (`dropped`).  Hypotheses: as above; eviction at any moment included. -/

theorem C11_failed_dropped {s0 s : St} (hi : Init s0) (hv : s0.v = fixedV) (hr : Reachable s0 s)
    (T : TxId) (hdone : (s.thr (.c T)).pc = .cDone)
    (hfail : (s.txs T).failed = true ∨ (s.txs T).commitFail = true) :
    ∀ n o, (n, o) ∈ (s.txs T).written → (s.objs o).scrapped = true ∧ ∀ n', s.map n' ≠ some o := by
  intro n o hm
  obtain ⟨_, _, hf⟩ := inv_reachable_fd hi hv hr
  have hb : bad (s.txs T) = true := by
    unfold bad; rcases hfail with h | h <;> simp [h]
  have := hf.rel T n o hm hb (by simp [releasedBy, hdone])
  exact ⟨this.1, this.2.2⟩

/-- a cache replaced in `writtenCaches` (third fix) is scrapped and out of the map -/
theorem C11_replaced_dropped {s0 s : St} (hi : Init s0) (hv : s0.v = fixedV) (hr : Reachable s0 s)
    (o : ObjId) (ho : o < s.nObj) (hd : (s.objs o).dropped ≠ none) :
    (s.objs o).scrapped = true ∧ ∀ n', s.map n' ≠ some o := by
  obtain ⟨_, _, hf⟩ := inv_reachable_fd hi hv hr
  have := hf.drp o ho hd
  exact ⟨this.1, this.2.2⟩

/-! ## C11_progress

Full statement: deadlock freedom of the repaired protocol — in every reachable state in which some
thread that exists has not finished, some thread can take a step.  Hypotheses: as above, plus
`dbLock` (bbolt's discipline: at most one transaction is inside its writing phase; a transaction's
first writing access waits for the database lock, which its committer releases after the join).
Holds for any number of transactions, goroutines per transaction, caches, any cache limit, callbacks
and constructors that fail, evictions at any moment.  It is FALSE for the pinned code and for the
reorder proposed in DESIGN §8 no. 6 (witnesses below); without `dbLock` two transactions writing the
same caches in opposite order deadlock by design (locks are held until Commit). -/

theorem C11_progress {s0 s : St} (hi : Init s0) (hv : s0.v = fixedV) (hdb : s0.dbLock = true)
    (hr : Reachable s0 s) (hun : ∃ t, s.unfinished t = true) : ∃ t, enabled s t = true := by
  obtain ⟨h, ho, hd⟩ := inv_reachable_db hi hv hr
  have hdb' : s.dbLock = true := by
    clear hun h ho hd
    induction hr with
    | init => exact hdb
    | step t c _ _ ih => rw [(step_const _ t c).2.2.2.2]; exact ih
    | evict ns _ ih => exact ih
  exact progress_core h ho hd hdb' hun

/-- `C11_progress` as the negation of `Deadlocked` -/
theorem C11_no_deadlock {s0 s : St} (hi : Init s0) (hv : s0.v = fixedV) (hdb : s0.dbLock = true)
    (hr : Reachable s0 s) : ¬ Deadlocked s := by
  intro ⟨hun, hall⟩
  obtain ⟨t, ht⟩ := C11_progress hi hv hdb hr hun
  rw [hall t] at ht; exact absurd ht (by simp)

/-- the hypotheses of `C11_progress` are satisfiable on the very workload of the pinned deadlock -/
example : Init (wl86 fixedV) ∧ (wl86 fixedV).v = fixedV ∧ (wl86 fixedV).dbLock = true ∧
    ∃ t, (wl86 fixedV).unfinished t = true :=
  ⟨mkInit_Init _ _ _ _ _ (by decide), rfl, rfl, ⟨.w 0, by decide⟩⟩

/-! ## the hypotheses of the theorems are satisfiable (non-vacuity), on the workload of DESIGN §8 no. 6
and on the stale-entry workload, for the model of the CURRENT source -/

/-- some reachable state satisfies the Boolean predicate `p` -/
def reaches (s0 : St) (p : St → Bool) : Prop := ∃ s, Reachable s0 s ∧ p s = true

theorem reaches_of_run (s0 : St) (p : St → Bool) (fuel : Nat) (h : p (runUntil p fuel s0) = true) : reaches s0 p :=
  ⟨_, runUntil_reachable p fuel s0 Reachable.init, h⟩

set_option maxRecDepth 100000 in
/-- `C11_mutex`: a callback runs on an object that has a recorded write-owner -/
example : reaches (wlST fixedV) (fun s => s.tids.any fun t => (s.thr t).pc == .inF && !(s.objs (s.thr t).use).wown.isEmpty) :=
  reaches_of_run _ _ 60 (by decide)

set_option maxRecDepth 100000 in
/-- `C11_released`: every thread finishes (here: with every lock free, as the theorem says) -/
example : reaches (wl86 fixedV) (fun s => s.tids.all fun t => !s.unfinished t) :=
  reaches_of_run _ _ 400 (by decide)

set_option maxRecDepth 100000 in
/-- `C11_failed_dropped`: a failed transaction finishes Commit with a non-empty `writtenCaches` -/
example : reaches (mkInit [(0, [{ name := 0, ro := false, cbOk := false }])] [false] (-1) true fixedV)
    (fun s => (s.thr (.c 0)).pc == .cDone && (s.txs 0).failed && !(s.txs 0).written.isEmpty) :=
  reaches_of_run _ _ 100 (by decide)

set_option maxRecDepth 100000 in
/-- `C11_no_scrapped`: a callback runs on an object marked dirty (a sibling goroutine of its own transaction failed) -/
example : ∃ s, Reachable (mkInit [(0, [w0]), (0, [{ name := 0, ro := false, cbOk := false }])] [false] (-1) true fixedV) s ∧
    ((s.thr (.w 0)).pc == .inF && (s.objs (s.thr (.w 0)).use).dirty == some 0) = true :=
  witness_of_run _ (rep 11 (.w 0) ++ rep 11 (.w 1)) (by decide)

set_option maxRecDepth 100000 in
/-- `C11_mutex_overlap`: two READERS of different transactions are inside their callbacks on the same shared
object (the first created the cache, the second took a read lock on it) -/
example : ∃ s, Reachable (mkInit [(0, [r0]), (1, [r0])] [false, false] (-1) true fixedV) s ∧
    ((s.thr (.w 0)).pc == .inF && (s.thr (.w 1)).pc == .inF && (s.thr (.w 0)).use == (s.thr (.w 1)).use &&
      (s.thr (.w 0)).tx != (s.thr (.w 1)).tx && (s.thr (.w 0)).acc.ro && (s.thr (.w 1)).acc.ro) = true :=
  witness_of_run _ (rep 8 (.w 0) ++ rep 10 (.w 1)) (by decide)

set_option maxRecDepth 100000 in
/-- `C11_private_copy`: a reader that could not `TryRLock` (a writer of another transaction is inside its
callback) is about to check its private cold copy -/
example : ∃ s, Reachable (mkInit [(0, [w0]), (1, [r0])] [false, false] (-1) true fixedV) s ∧
    ((s.thr (.w 0)).pc == .inF && useValid (s.thr (.w 1)).pc && (s.objs (s.thr (.w 1)).use).cold &&
      (s.thr (.w 1)).use != (s.thr (.w 0)).use) = true :=
  witness_of_run _ (rep 11 (.w 0) ++ rep 9 (.w 1)) (by decide)

set_option maxRecDepth 100000 in
/-- `C11_reader_never_blocks_on_cache`: a read-only access that cannot move — it waits for the manager mutex,
which another reader holds while it looks the name up -/
example : ∃ s, Reachable (mkInit [(0, [r0]), (1, [r0])] [false, false] (-1) true fixedV) s ∧
    ((s.thr (.w 1)).acc.ro && (s.thr (.w 1)).pc != .idle && !isCommitPC (s.thr (.w 1)).pc &&
      !stepCond s (.w 1) && mgrAcq (s.thr (.w 1)).pc) = true :=
  witness_of_run _ (rep 2 (.w 0) ++ rep 1 (.w 1)) (by decide)

set_option maxRecDepth 100000 in
/-- `C11_replaced_dropped`: a transaction writes a name, the entry is evicted, it writes the name again: the
object it held is marked `dropped` (scrapped, unlocked, out of the map) when the new one is registered -/
example : ∃ s, Reachable (mkInit [(0, [w0, w0])] [false] (-1) true fixedV) s ∧
    ((s.objs 0).dropped == some 0 && (s.objs 0).scrapped && (s.objs 0).writer.isNone && s.map 0 == some 1) = true :=
  witness_of_run _ (rep 13 (.w 0) ++ [Lab.e [0]] ++ rep 8 (.w 0)) (by decide)

set_option maxRecDepth 100000 in
/-- `C11_evict_harmless` / `C11_rebuilt_*`: the entry of a cache is evicted WHILE a writer is inside its
callback on it; the next reader finds no entry, constructs a new object (index 1) and runs its callback on
that one, while the writer still works on object 0 -/
example : ∃ s, Reachable (mkInit [(0, [w0]), (1, [r0])] [false, false] (-1) true fixedV) s ∧
    ((s.thr (.w 0)).pc == .inF && (s.thr (.w 0)).use == 0 && (s.thr (.w 1)).pc == .inF && (s.thr (.w 1)).use == 1 &&
      (s.objs 1).creator == .w 1 && !(s.objs 1).cold && !(s.objs 1).scrapped && s.map 0 == some 1) = true :=
  witness_of_run _ (rep 11 (.w 0) ++ [Lab.e [0]] ++ rep 8 (.w 1)) (by decide)

/-! ## the hypothesis `dbLock` of `C11_progress` is forced

Without bbolt's single-writer discipline (`dbLock = false`: two transactions inside their writing phases at
the same time) the model of the CURRENT source deadlocks: locks are held until Commit, so two writers taking
two caches in opposite order block each other for ever (AB/BA).  In production the enclosing `db.Write`
serialises writers; a `cache.Transaction` used outside a bbolt write transaction has no such protection. -/

/-- two concurrent writers, caches 0 and 1 in opposite order, no database lock -/
def wlABBA (v : Variant) : St := mkInit [(0, [w0, w1]), (1, [w1, w0])] [false, false] (-1) false v
def schedABBA : List Lab := rep 13 (.w 0) ++ rep 19 (.w 1) ++ rep 6 (.w 0)

set_option maxRecDepth 100000 in
/-- the NEGATION of `C11_progress` without `hdb`: every other hypothesis holds (`Init`, the repaired model,
reachability) and the state is deadlocked — both writers wait for the other's cache lock (`xObjLock`), both
committers wait for their writers -/
theorem C11_deadlock_witness_without_dblock :
    Init (wlABBA fixedV) ∧ (wlABBA fixedV).v = fixedV ∧ (wlABBA fixedV).dbLock = false ∧
    ∃ s, Reachable (wlABBA fixedV) s ∧ Deadlocked s ∧
      (s.thr (.w 0)).pc = .xObjLock ∧ (s.thr (.w 1)).pc = .xObjLock := by
  refine ⟨mkInit_Init _ _ _ _ _ (by decide), rfl, rfl, ?_⟩
  obtain ⟨s, hr, hd⟩ := witness_of_run
    (P := fun s => s.deadlockedB && (s.thr (.w 0)).pc == .xObjLock && (s.thr (.w 1)).pc == .xObjLock)
    (wlABBA fixedV) schedABBA (by decide)
  simp only [Bool.and_eq_true, beq_iff_eq] at hd
  exact ⟨s, hr, deadlocked_of_B hd.1.1, hd.1.2, hd.2⟩

set_option maxRecDepth 100000 in
/-- … and with the database lock the same workload cannot even start its second writer: the hypothesis is
what separates the two (the first writing access of transaction 1 is not enabled while transaction 0 writes) -/
example : ∃ s, Reachable (mkInit [(0, [w0, w1]), (1, [w1, w0])] [false, false] (-1) true fixedV) s ∧
    ((s.thr (.w 0)).pc == .inF && !enabled s (.w 1) && enabled s (.w 0)) = true :=
  witness_of_run _ (rep 11 (.w 0)) (by decide)

/-! ## witnesses: the model of the PINNED code (and of the partial repairs) violates the property

All by evaluation (`decide`) of a concrete schedule on a concrete workload; the same schedules are
replayed on the real code by the harness (notes/C11.md). -/

def pinnedV : Variant := {}
/-- only the reorder proposed in DESIGN §8 no. 6 (`RUnlock` before `checkAndPrune`) -/
def reorderV : Variant := { pruneAfterRUnlock := true }
/-- the first two fixes but not the third -/
def twoFixesV : Variant := { txFirst := true, useOwn := true }

set_option maxRecDepth 100000 in
/-- DESIGN §8 no. 6 on the pinned code: reader's `checkAndPrune` (under RLock) → manager mutex →
transaction mutex → the cache lock the reader holds -/
theorem C11_deadlock_witness_pinned :
    Init (wl86 pinnedV) ∧ ∃ s, Reachable (wl86 pinnedV) s ∧ Deadlocked s := by
  refine ⟨mkInit_Init _ _ _ _ _ (by decide), ?_⟩
  obtain ⟨s, hr, hd⟩ := witness_of_run (P := St.deadlockedB) (wl86 pinnedV) sched86 (by decide)
  exact ⟨s, hr, deadlocked_of_B hd⟩

set_option maxRecDepth 100000 in
/-- the reorder alone is not enough (1): a reader whose callback FAILS takes the manager mutex under RLock -/
theorem C11_deadlock_witness_reorder_failing_reader :
    Init (wlRF reorderV) ∧ ∃ s, Reachable (wlRF reorderV) s ∧ Deadlocked s := by
  refine ⟨mkInit_Init _ _ _ _ _ (by decide), ?_⟩
  obtain ⟨s, hr, hd⟩ := witness_of_run (P := St.deadlockedB) (wlRF reorderV) schedRF (by decide)
  exact ⟨s, hr, deadlocked_of_B hd⟩

set_option maxRecDepth 100000 in
/-- the reorder alone is not enough (2): no reader at all — `Commit` of the previous writer (transaction
mutex → manager mutex) against the two goroutines of the next writer -/
theorem C11_deadlock_witness_reorder_commit :
    Init (wlCM reorderV) ∧ ∃ s, Reachable (wlCM reorderV) s ∧ Deadlocked s := by
  refine ⟨mkInit_Init _ _ _ _ _ (by decide), ?_⟩
  obtain ⟨s, hr, hd⟩ := witness_of_run (P := St.deadlockedB) (wlCM reorderV) schedCM (by decide)
  exact ⟨s, hr, deadlocked_of_B hd⟩

set_option maxRecDepth 100000 in
/-- pinned code: after an eviction a writer runs its callback on an object it does not hold, while a
reader of another transaction is inside its callback on the same object -/
theorem C11_mutex_witness_pinned :
    Init (wlST pinnedV) ∧ ∃ s, Reachable (wlST pinnedV) s ∧ s.mutexViolatedB = true := by
  exact ⟨mkInit_Init _ _ _ _ _ (by decide), witness_of_run (wlST pinnedV) schedST (by decide)⟩

set_option maxRecDepth 100000 in
/-- without the third fix: every transaction has committed, an object is still write-locked -/
theorem C11_leak_witness_two_fixes :
    Init (wlOR twoFixesV) ∧ ∃ s, Reachable (wlOR twoFixesV) s ∧ s.leakB = true := by
  exact ⟨mkInit_Init _ _ _ _ _ (by decide), witness_of_run (wlOR twoFixesV) schedOR (by decide)⟩

end Sema.C11
