/- C11 invariants, part 5: read locks = deferred RUnlocks; readers and a writer exclude each other -/
import SemaModel.C11.Inv4
set_option linter.unusedSimpArgs false
set_option linter.unusedVariables false
namespace Sema.C11

structure InvRd (s : St) : Prop where
  rl : ∀ t o, t ∈ (s.objs o).readers ↔ Defer.runlock o ∈ (s.thr t).defers
  nodup : ∀ o, (s.objs o).readers.Nodup
  excl : ∀ o, (s.objs o).writer.isSome = true → (s.objs o).readers = []

set_option maxHeartbeats 1000000 in
theorem rd_rl_self {s : St} {t : Tid} {c : Choice} (hv : s.v = fixedV) (hd : DefersOK (s.thr t))
    (hb : ∀ o, Defer.runlock o ∈ (s.thr t).defers → o < s.nObj)
    (hnd : ∀ o, (s.objs o).readers.Nodup)
    (h : ∀ o, t ∈ (s.objs o).readers ↔ Defer.runlock o ∈ (s.thr t).defers) :
    ∀ o, t ∈ ((step s t c).objs o).readers ↔ Defer.runlock o ∈ ((step s t c).thr t).defers := by
  intro o
  have ho := h o
  have hndo := hnd o
  unfold DefersOK at hd
  by_cases hdr : (s.thr t).pc = .dRUnlock
  · simp only [hdr] at hd
    obtain ⟨_, o1, hd⟩ := hd
    have hnd1 := hnd o1
    unfold step
    simp only [hdr, stepAt]
    rcases hd with hd | hd <;> simp only [hd] <;>
      by_cases ho1 : o = o1 <;>
      simp_all [St.setThr, St.setObj, upd, Thread.popReturn, Thread.doReturn, List.Nodup.mem_erase_iff]
  · unfold step
    cases hpc : (s.thr t).pc <;> simp only [hpc] at hd hdr <;> step_auto <;>
      grind [List.mem_of_mem_tail, noRunlock]

set_option maxHeartbeats 1000000 in
theorem rd_rl_other {s : St} {t t' : Tid} {c : Choice} (hv : s.v = fixedV) (htt : t' ≠ t)
    (hb : ∀ o, Defer.runlock o ∈ (s.thr t').defers → o < s.nObj)
    (h : ∀ o, t' ∈ (s.objs o).readers ↔ Defer.runlock o ∈ (s.thr t').defers) :
    ∀ o, t' ∈ ((step s t c).objs o).readers ↔ Defer.runlock o ∈ (s.thr t').defers := by
  intro o
  have ho := h o
  have hbo := hb o
  have hb' := hb s.nObj
  have htt' : ¬ t = t' := fun e => htt e.symm
  unfold step
  cases hpc : (s.thr t).pc <;> step_auto <;> grind

set_option maxHeartbeats 1000000 in
theorem rd_nodup_step {s : St} {t : Tid} {c : Choice} (hv : s.v = fixedV) (hd : DefersOK (s.thr t))
    (hrl : ∀ o, t ∈ (s.objs o).readers ↔ Defer.runlock o ∈ (s.thr t).defers)
    (h : ∀ o, (s.objs o).readers.Nodup) : ∀ o, ((step s t c).objs o).readers.Nodup := by
  intro o
  have ho := h o
  have h1 := hrl (s.thr t).existing
  have h2 := hrl (s.thr t).use
  have he := h (s.thr t).existing
  have hu := h (s.thr t).use
  unfold DefersOK at hd
  unfold step
  cases hpc : (s.thr t).pc <;> simp only [hpc] at hd <;> step_auto <;> grind [List.Nodup.erase, List.nodup_cons]

set_option maxHeartbeats 1000000 in
theorem rd_excl_step {s : St} {t : Tid} {c : Choice} (hv : s.v = fixedV) (he : enabled s t = true)
    (h : ∀ o, (s.objs o).writer.isSome = true → (s.objs o).readers = []) :
    ∀ o, ((step s t c).objs o).writer.isSome = true → ((step s t c).objs o).readers = [] := by
  intro o
  have ho := h o
  have h1 := h (s.thr t).existing
  have h2 := h (s.thr t).use
  unfold enabled at he
  unfold step
  cases hpc : (s.thr t).pc <;> simp only [hpc] at he <;> step_auto <;> grind [Obj.free]

theorem InvRd_step {s : St} {t : Tid} {c : Choice} (hk : InvKind s) (hdf : InvDefers s) (hb : InvBounds s)
    (h : InvRd s) (he : enabled s t = true) : InvRd (step s t c) := by
  have hv := hk.v
  refine ⟨?_, rd_nodup_step hv (hdf t) (h.rl t) h.nodup, rd_excl_step hv he h.excl⟩
  intro t'
  by_cases htt : t' = t
  · subst htt; exact rd_rl_self hv (hdf t') (hb.df t') h.nodup (h.rl t')
  · rw [step_thr_ne _ _ _ _ htt]; exact rd_rl_other hv htt (hb.df t') (h.rl t')

end Sema.C11
