/-
C11 — the lock skeleton of shard/cache/manager.go the model `CacheMgr` was written against.

`tools/facts_c11` regenerates `SemaModel/Generated/FactsC11.lean` from the working tree on every
check; `Props.lean` proves `Generated = expected` (below).  Any edit of manager.go that moves, adds
or removes a lock / unlock / TryRLock / map operation / callback / defer / verifYield point, or
changes an `if` condition, breaks that proof (a broken tie: the check then searches for a failing
schedule on the real code).

Reading the table: "@X" = verifYield point X = program counter of the model (With.lookup ↦ `lookup`,
Prune.body ↦ `pBody`, Commit.loop ↦ `cLoop` …); one model step runs from one "@" to the next.
"defer:" = registered now, runs at return in reverse order — in the existing-cache branch
`defer:obj.RUnlock` precedes `defer:prune`, hence checkAndPrune runs BEFORE RUnlock
(`Variant.pruneAfterRUnlock = false`); `tx.Lock` precedes `mgr.Lock` for writers
(`Variant.txFirst = true`, the fix of the deadlock); `use.own` = the callback gets the object in
writtenCaches (`Variant.useOwn = true`, the fix of the stale-entry defect); `@With.nDropOld
scrapped.set obj.Unlock` before `written.put` of the new-cache branch = a replaced entry is scrapped
and unlocked (`Variant.dropOld = true`, the fix of the forgotten lock).
-/
/- Conditions are printed in the normal form of devtools/astnorm/norm.go: function-local identifiers appear under
canonical names `v<k>` (k = rank of the declaration inside the function: in `With`, v1 = the receiver `t`, v3 = `readOnly`,
v7 = the entry found in the manager's map, v9 = the cache handed to the callback), so that renaming a local does not
break the pin. -/
namespace Sema.C11.Skeleton

def expectedRelease : List String := [
  "@Release.mgrLock", "mgr.Lock", "defer:mgr.Unlock", "@Release.delete", "map.delete",
  "@Release.mgrUnlock"]

def expectedPrune : List String := [
  "@Prune.enter", "maxSize", "if(v1.maxSize==-1){", "return", "}", "@Prune.mgrLock", "mgr.Lock",
  "defer:mgr.Unlock", "defer:@Prune.mgrUnlock", "@Prune.body", "maxSize", "if(v1.maxSize==0){",
  "map.clear", "return", "}", "map.range", "for{", "}", "maxSize", "if(v4<=v1.maxSize){", "return",
  "}", "for{", "maxSize", "if(v4<=v1.maxSize){", "}", "map.delete", "}"]

def expectedWith : List String := [
  "failed.load", "if(v1.failed.Load()){", "return", "}", "if(!v3){", "@With.xPreTxLock", "tx.Lock",
  "}", "@With.mgrLock", "mgr.Lock", "@With.lookup", "map.get", "if(v8){", "@With.exMgrUnlock",
  "mgr.Unlock", "use.existing", "if(v3){", "@With.rTxLock", "tx.Lock", "@With.rCheckWritten",
  "written.get", "@With.rTxUnlock", "tx.Unlock", "if(v11){", "use.own", "}else{",
  "@With.rTryRLock", "obj.TryRLock", "if(v7.mu.TryRLock()){", "defer:obj.RUnlock",
  "defer:@With.dRUnlock", "}else{", "@With.rColdCreate", "createFn", "if(v13!=nil){",
  "failed.store", "return", "}", "newElem", "use.fresh", "}", "}", "}else{", "@With.xCheckWritten",
  "written.get", "if(v15){", "use.own", "}else{", "@With.xObjLock", "obj.Lock", "@With.xRegister",
  "written.put", "}", "@With.xTxUnlock", "tx.Unlock", "}", "@With.chkScrapped", "scrapped.get",
  "if(v9.scrapped){", "@With.sCreate", "createFn", "if(v17!=nil){", "failed.store", "return", "}",
  "newElem", "use.fresh", "}", "use==existing", "if(v9==v7){", "defer:prune", "}", "@With.callF",
  "callF", "if(v18!=nil){", "@With.fScrap", "failed.store", "scrapped.set", "@With.fMgrLock",
  "mgr.Lock", "@With.fDelete", "map.delete", "@With.fMgrUnlock", "mgr.Unlock", "return", "}",
  "return", "}", "@With.nCreate", "createFn", "if(v20!=nil){", "failed.store",
  "@With.nFailMgrUnlock", "mgr.Unlock", "if(!v3){", "@With.nFailTxUnlock", "tx.Unlock", "}",
  "return", "}", "newElem", "@With.nStore", "maxSize", "if(v1.manager.maxSize!=0){", "map.put",
  "defer:prune", "}", "if(v3){", "@With.nRLock", "obj.RLock", "defer:obj.RUnlock",
  "defer:@With.dRUnlock", "}else{", "@With.nObjLock", "obj.Lock", "written.get", "if(v23){",
  "@With.nDropOld", "scrapped.set", "obj.Unlock", "}", "@With.nRegister", "written.put",
  "@With.nTxUnlock", "tx.Unlock", "}", "@With.nMgrUnlock", "mgr.Unlock", "@With.callF", "callF",
  "if(v24!=nil){", "@With.fScrap", "failed.store", "scrapped.set", "@With.fMgrLock", "mgr.Lock",
  "@With.fDelete", "map.delete", "@With.fMgrUnlock", "mgr.Unlock", "return", "}", "return"]

def expectedCommit : List String := [
  "@Commit.txLock", "tx.Lock", "defer:tx.Unlock", "defer:@Commit.txUnlock", "@Commit.checkEmpty",
  "if(len(v1.writtenCaches)==0){", "return", "}", "@Commit.mgrLock", "mgr.Lock",
  "defer:mgr.Unlock", "defer:@Commit.mgrUnlock", "@Commit.loop", "failed.load", "written.range",
  "for{", "@Commit.entry", "if(v3){", "scrapped.set", "map.delete", "}", "obj.Unlock", "}"]

end Sema.C11.Skeleton
