/- C11 invariants, part 18: where the object handed to a callback comes from — the other threads -/
import SemaModel.C11.Inv17
set_option linter.unusedSimpArgs false
set_option linter.unusedVariables false
namespace Sema.C11

set_option maxHeartbeats 2000000 in
/-- an entry of writtenCaches stays, unless the holder of the transaction mutex writes that very name -/
theorem written_mem_step {s : St} {t : Tid} {c : Choice} {T : TxId} {n : Name} {o : ObjId}
    (h : (n, o) ∈ (s.txs T).written) :
    (n, o) ∈ ((step s t c).txs T).written ∨
      ((s.thr t).tx = T ∧ (s.thr t).acc.name = n ∧
        ((s.thr t).pc = .xRegister ∨ (s.thr t).pc = .nDropOld ∨ (s.thr t).pc = .nRegister)) := by
  revert h
  unfold step
  cases hpc : (s.thr t).pc <;> step_auto <;> grind [mem_aput]

set_option maxHeartbeats 2000000 in
/-- the `dropped` mark is never changed once set -/
theorem step_dropped_stable {s : St} {t : Tid} {c : Choice} {o : ObjId} {A : TxId} (ho : o < s.nObj)
    (h : (s.objs o).dropped = some A) : ((step s t c).objs o).dropped = some A := by
  unfold step
  cases hpc : (s.thr t).pc <;> step_auto <;> grind

set_option maxHeartbeats 2000000 in
theorem nDropOld_dropped {s : St} {t : Tid} {c : Choice} {o : ObjId} (hpc : (s.thr t).pc = .nDropOld)
    (ho : aget (s.txs (s.thr t).tx).written (s.thr t).acc.name = some o) (hn : (s.objs o).dropped = none) :
    ((step s t c).objs o).dropped = some (s.thr t).tx := by
  unfold step
  simp [hpc, stepAt, ho, St.setThr, St.setTx, St.setObj, hn]

theorem postCheck_useValid {p : PC} (h : postCheck p = true) : useValid p = true := by
  cases p <;> simp_all [postCheck, useValid]
theorem newHeld_useValid {p : PC} (h : newHeld p = true) : useValid p = true := by
  cases p <;> simp_all [newHeld, useValid]
theorem preCheck_useValid {th : Thread} (h : preCheck th = true) : useValid th.pc = true := by
  unfold preCheck at h; cases hp : th.pc <;> simp_all [useValid]
theorem newHeld_holdsMgr {p : PC} (h : newHeld p = true) : holdsMgr p = true := by
  cases p <;> simp_all [newHeld, holdsMgr]

/-- another thread's step keeps `Src`, except when a sibling replaces the very cache -/
theorem src_other {s : St} {t t' : Tid} {c : Choice} (h : Inv s) (htt : t' ≠ t)
    (huv : useValid (s.thr t').pc = true) (hs : Src s t') :
    Src (step s t c) t' ∨
      ((s.thr t).pc = .nDropOld ∧ (s.thr t).tx = (s.thr t').tx ∧
        aget (s.txs (s.thr t).tx).written (s.thr t).acc.name = some (s.thr t').use) := by
  have hlt := h.bounds.use t' huv
  unfold Src at *
  rw [step_thr_ne _ _ _ _ htt]
  rcases hs with h1 | h1 | h1
  · exact Or.inl (Or.inl (by rw [(step_static hlt).2.2]; exact h1))
  · exact Or.inl (Or.inr (Or.inl h1))
  · rcases written_mem_step (t := t) (c := c) h1 with h2 | ⟨h2, h3, h4⟩
    · exact Or.inl (Or.inr (Or.inr h2))
    · have hnone_contra : nonePC (s.thr t).pc = true → False := by
        intro hp
        have := h.none t hp
        rw [h2, h3] at this
        exact (aget_none_iff.mp this) _ h1
      rcases h4 with h4 | h4 | h4
      · exact absurd (by simp [h4, nonePC]) hnone_contra
      · right
        refine ⟨h4, h2, ?_⟩
        rw [h2, h3]
        exact (mem_iff_aget (h.keys.wr _)).mp h1
      · exact absurd (by simp [h4, nonePC]) hnone_contra

/-- the replaced cache: what the replacing step does to it -/
theorem drop_case {s : St} {t t' : Tid} {c : Choice} (h : Inv s) (hf : InvFD s)
    (hpc : (s.thr t).pc = .nDropOld) (htx : (s.thr t).tx = (s.thr t').tx)
    (ho : aget (s.txs (s.thr t).tx).written (s.thr t).acc.name = some (s.thr t').use) :
    ((step s t c).objs (s.thr t').use).scrapped = true ∧
    (((s.objs (s.thr t').use).dropped = none → ((step s t c).objs (s.thr t').use).dropped = some (s.thr t').tx)) := by
  refine ⟨(nDropOld_effect (c := c) hpc ho).1, ?_⟩
  intro hn
  rw [← htx]; exact nDropOld_dropped hpc ho hn

theorem worker_active_cWait {s : St} (h : Inv s) {t : Tid} (hp : (s.thr t).pc ≠ .idle)
    (hc : isCommitPC (s.thr t).pc = false) : (s.thr (.c (s.thr t).tx)).pc = .cWait := by
  cases t with
  | w i => exact cWait_of_active h (worker_not_done hp hc)
  | c T => have := (h.kind.c T).1; rw [this] at hc; exact absurd hc (by simp)

/-- a registered cache is write-locked by the transaction as long as one of its goroutines is active -/
theorem writer_of_registered {s : St} (h : Inv s) {t : Tid} {n : Name} {o : ObjId}
    (hp : (s.thr t).pc ≠ .idle) (hc : isCommitPC (s.thr t).pc = false)
    (hm : (n, o) ∈ (s.txs (s.thr t).tx).written) : (s.objs o).writer = some (s.thr t).tx := by
  have hlt := h.bounds.wr _ n o hm
  have hnm := h.names.wr _ n o hm
  have hcw := worker_active_cWait h hp hc
  exact (h.w o _ hlt).mpr (Or.inr ⟨by rw [hnm]; exact hm, by simp [stillHeld, hcw]⟩)

theorem postCheck_active {p : PC} (h : postCheck p = true ∨ newHeld p = true) : p ≠ .idle ∧ isCommitPC p = false := by
  rcases h with h | h <;> cases p <;> simp_all [postCheck, newHeld, isCommitPC]

theorem InvUse_step {s : St} {t : Tid} {c : Choice} (h : Inv s) (hf : InvFD s) (hu : InvUse s) :
    InvUse (step s t c) := by
  have hself := use_self (c := c) h.kind.v (h.kind.legacy t) (h.bounds.use t) (h.bounds.ex t) (h.bounds.wr _)
    (fun o ho hd => ⟨(hf.drp o ho hd).1, (hf.drp o ho hd).2.1⟩)
    (fun hp => (h.pub.priv t hp).2.1) (hu.same t) (hu.pre t) (hu.post t) (hu.newh t) (hu.s2 t)
  refine ⟨?_, ?_, ?_, ?_, ?_⟩
  · intro t'
    by_cases htt : t' = t
    · subst htt; exact hself.1
    · rw [step_thr_ne _ _ _ _ htt]; exact hu.same t'
  · intro t'
    by_cases htt : t' = t
    · subst htt; exact hself.2.1
    · intro hp
      rw [step_thr_ne _ _ _ _ htt] at hp
      have huv := preCheck_useValid hp
      have hlt := h.bounds.use t' huv
      rcases hu.pre t' hp with h1 | h1
      · rcases src_other (c := c) h htt huv h1 with h2 | ⟨h2, h3, h4⟩
        · exact Or.inl h2
        · right; rw [step_thr_ne _ _ _ _ htt]; exact (drop_case h hf h2 h3 h4).1
      · right; rw [step_thr_ne _ _ _ _ htt]; exact step_scrapped_mono hlt h1
  · intro t'
    by_cases htt : t' = t
    · subst htt; exact hself.2.2.1
    · intro hp
      rw [step_thr_ne _ _ _ _ htt] at hp
      have huv := postCheck_useValid hp
      have hlt := h.bounds.use t' huv
      rcases hu.post t' hp with h1 | h1
      · rcases src_other (c := c) h htt huv h1 with h2 | ⟨h2, h3, h4⟩
        · exact Or.inl h2
        · right
          rw [step_thr_ne _ _ _ _ htt]
          cases hd : (s.objs (s.thr t').use).dropped with
          | none => exact (drop_case h hf h2 h3 h4).2 hd
          | some A =>
            have := hu.s2 t' A (Or.inl hp) hd
            rw [this]; exact step_dropped_stable hlt hd
      · right; rw [step_thr_ne _ _ _ _ htt]; exact step_dropped_stable hlt h1
  · intro t'
    by_cases htt : t' = t
    · subst htt; exact hself.2.2.2.1
    · intro hp
      rw [step_thr_ne _ _ _ _ htt] at hp ⊢
      rcases hu.newh t' hp with h1 | h1
      · exact Or.inl h1
      · rcases written_mem_step (t := t) (c := c) h1 with h2 | ⟨h2, h3, h4⟩
        · exact Or.inr h2
        · -- the writer of that name holds the manager mutex? no: it holds the transaction mutex — but so does `t'`
          exfalso
          have e1 := (h.tx (s.thr t').tx t).mpr ⟨h2, by rcases h4 with h4 | h4 | h4 <;> simp [holdsTx, h4]⟩
          rcases h4 with h4 | h4 | h4
          · have := h.none t (by simp [h4, nonePC]); rw [h2, h3] at this; exact (aget_none_iff.mp this) _ h1
          · have e3 := (h.mgr t).mpr (by simp [holdsMgr, h4])
            have e4 := (h.mgr t').mpr (newHeld_holdsMgr hp)
            rw [e3] at e4; injection e4 with e4; exact htt e4.symm
          · have := h.none t (by simp [h4, nonePC]); rw [h2, h3] at this; exact (aget_none_iff.mp this) _ h1
  · intro t' A
    by_cases htt : t' = t
    · subst htt; exact hself.2.2.2.2 A
    · intro hp hd
      rw [step_thr_ne _ _ _ _ htt] at hp hd ⊢
      have huv : useValid (s.thr t').pc = true := by
        rcases hp with hp | hp
        · exact postCheck_useValid hp
        · exact newHeld_useValid hp
      have hlt := h.bounds.use t' huv
      cases hd0 : (s.objs (s.thr t').use).dropped with
      | some B =>
        have := step_dropped_stable (t := t) (c := c) hlt hd0
        rw [this] at hd; injection hd with hd; rw [← hd]
        exact hu.s2 t' B hp hd0
      | none =>
        -- dropped by this very step: the dropper's transaction holds the write lock, so does `t'`'s
        have hne : ((step s t c).objs (s.thr t').use).dropped ≠ none := by rw [hd]; simp
        rcases step_dropped_sub hlt hne with h1 | ⟨h1, h2⟩
        · exact absurd hd0 h1
        · have hA : A = (s.thr t).tx := by
            have := nDropOld_dropped (c := c) h1 h2 hd0
            rw [this] at hd; injection hd with hd; exact hd.symm
          rw [hA]
          have hm := aget_mem h2
          have hwt : (s.objs (s.thr t').use).writer = some (s.thr t).tx :=
            writer_of_registered h (t := t) (by simp [h1]) (by simp [h1, isCommitPC]) hm
          have hact := postCheck_active hp
          have hpub : (s.objs (s.thr t').use).pub = true := by
            have hmu := (h.tx (s.thr t).tx t).mpr ⟨rfl, by simp [holdsTx, h1]⟩
            exact wr_pub_of_holder h.tx (h.pub.wr _) hmu (by simp [h1]) _ _ hm
          have hsrc : Src s t' := by
            rcases hp with hp | hp
            · rcases hu.post t' hp with h3 | h3
              · exact h3
              · rw [hd0] at h3; exact absurd h3 (by simp)
            · rcases hu.newh t' hp with h3 | h3
              · exact Or.inr (Or.inl h3)
              · exact Or.inr (Or.inr h3)
          rcases hsrc with h3 | h3 | h3
          · have := h.pub.cold _ hlt h3; rw [hpub] at this; exact absurd this (by simp)
          · have hr := (h.rd.rl t' _).mpr h3
            have := h.rd.excl _ (by rw [hwt]; simp)
            rw [this] at hr; simp at hr
          · have := writer_of_registered h (t := t') hact.1 hact.2 h3
            rw [hwt] at this; injection this with e; exact e.symm

end Sema.C11
