/- C11: closed witnesses on the models of the PINNED code and of partial repairs (checked by `decide`) -/
import SemaModel.C11.Inv14
set_option linter.unusedSimpArgs false
set_option linter.unusedVariables false
namespace Sema.C11

theorem runLabs_reachable {s0 : St} : ∀ (l : List Lab) (s s' : St), Reachable s0 s → runLabs s l = some s' → Reachable s0 s'
  | [], s, s', hr, h => by simp [runLabs] at h; rw [← h]; exact hr
  | .t t c :: r, s, s', hr, h => by
    unfold runLabs at h
    by_cases he : enabled s t = true
    · simp [he] at h; exact runLabs_reachable r _ _ (Reachable.step t c hr he) h
    · simp [he] at h
  | .e ns :: r, s, s', hr, h => by
    unfold runLabs at h
    exact runLabs_reachable r _ _ (Reachable.evict ns hr) h

theorem mem_tids_of_enabled {s : St} {t : Tid} (h : enabled s t = true) : t ∈ s.tids := by
  unfold St.tids
  cases t with
  | w i => simp [enabled_valid_w h]
  | c T => simp [enabled_valid_c h]

theorem deadlocked_of_B {s : St} (h : s.deadlockedB = true) : Deadlocked s := by
  unfold St.deadlockedB at h
  simp only [Bool.and_eq_true, List.any_eq_true, List.all_eq_true] at h
  obtain ⟨⟨t, _, ht⟩, hall⟩ := h
  refine ⟨⟨t, ht⟩, ?_⟩
  intro t'
  cases he : enabled s t' with
  | false => rfl
  | true =>
    have := hall t' (mem_tids_of_enabled he)
    simp [he] at this

theorem mkInit_Init (progs : List (TxId × List Access)) (cf : List Bool) (maxSize : Int) (db : Bool) (v : Variant)
    (hp : ∀ p ∈ progs, p.1 < cf.length) : Init (mkInit progs cf maxSize db v) := by
  refine ⟨fun _ => rfl, rfl, rfl, fun _ => rfl, fun _ => ⟨rfl, rfl, rfl, rfl⟩, ?_, fun _ => ⟨rfl, rfl, rfl, rfl⟩, rfl⟩
  intro i
  simp only [mkInit]
  cases hg : progs[i]? with
  | none =>
    refine ⟨rfl, rfl, rfl, fun _ => rfl, ?_⟩
    intro hlt
    have := List.getElem?_eq_none_iff.mp hg
    omega
  | some p =>
    obtain ⟨T, pr⟩ := p
    refine ⟨rfl, rfl, rfl, ?_, ?_⟩
    · intro hle
      have := List.getElem?_eq_some_iff.mp hg
      obtain ⟨hlt, _⟩ := this
      omega
    · intro _
      have := List.getElem?_eq_some_iff.mp hg
      obtain ⟨hlt, he⟩ := this
      exact hp (T, pr) (by rw [← he]; exact List.getElem_mem hlt)

theorem witness_of_run {P : St → Bool} (s0 : St) (l : List Lab) (h : (runLabs s0 l).map P = some true) :
    ∃ s, Reachable s0 s ∧ P s = true := by
  cases hr : runLabs s0 l with
  | none => rw [hr] at h; simp at h
  | some s =>
    rw [hr] at h
    simp at h
    exact ⟨s, runLabs_reachable l s0 s Reachable.init hr, h⟩

/-- run the first enabled thread (default choices) until `p` holds or the fuel is used up -/
def runUntil (p : St → Bool) : Nat → St → St
  | 0, s => s
  | fuel + 1, s =>
    if p s then s else
    match s.tids.find? (fun t => enabled s t) with
    | some t => runUntil p fuel (step s t {})
    | none => s

theorem runUntil_reachable {s0 : St} (p : St → Bool) : ∀ (fuel : Nat) (s : St), Reachable s0 s → Reachable s0 (runUntil p fuel s)
  | 0, s, hr => hr
  | fuel + 1, s, hr => by
    unfold runUntil
    by_cases hp : p s = true
    · simp [hp]; exact hr
    · simp [hp]
      cases hf : s.tids.find? (fun t => enabled s t) with
      | none => exact hr
      | some t =>
        have he : enabled s t = true := by
          have := List.find?_some hf; simpa using this
        exact runUntil_reachable p fuel _ (Reachable.step t {} hr he)

/-! ### workloads and schedules of the witnesses -/

def r0 : Access := { name := 0, ro := true }
def r0f : Access := { name := 0, ro := true, cbOk := false }
def w0 : Access := { name := 0, ro := false }
def w1 : Access := { name := 1, ro := false }

def rep (n : Nat) (t : Tid) : List Lab := List.replicate n (Lab.t t)

/-- DESIGN §8 no. 6: cache 0 warm, cache 1 new, limit 2; tx 0 = goroutines [r0, w0] and [w1]; tx 1 = reader [r0] -/
def wl86 (v : Variant) : St := mkInit [(0, [r0, w0]), (0, [w1]), (1, [r0])] [false, false] 2 true v
def sched86 : List Lab :=
  rep 20 (.w 0) ++ rep 1 (.w 1) ++ rep 4 (.w 2) ++ rep 5 (.w 1) ++ rep 8 (.w 2)

/-- a reader whose callback fails: tx 0 = goroutines [w0] and [w1]; tx 1 = reader [r0 fails]; limit 1 -/
def wlRF (v : Variant) : St := mkInit [(0, [w0]), (0, [w1]), (1, [r0f])] [false, false] 1 true v
def schedRF : List Lab :=
  rep 1 (.w 0) ++ rep 1 (.w 1) ++ rep 7 (.w 2) ++ rep 5 (.w 0) ++ rep 5 (.w 1) ++ rep 3 (.w 2)

/-- Commit of the previous writer against the two goroutines of the next one: tx 0 = [w1] and [w0]; tx 1 = [w1, w0]; limit 1 -/
def wlCM (v : Variant) : St := mkInit [(0, [w1]), (0, [w0]), (1, [w1, w0])] [false, false] 1 true v
def schedCM : List Lab :=
  rep 30 (.w 2) ++ [Lab.t (.w 2) { prune := [1] }] ++ rep 1 (.w 2) ++ rep 1 (.c 1) ++ rep 1 (.w 0) ++ rep 4 (.w 1) ++
    rep 5 (.w 0) ++ rep 2 (.w 1) ++ rep 2 (.c 1)

/-- the stale writtenCaches entry: tx 0 = [w0, w0], tx 1 = reader [r0]; the entry is evicted in between -/
def wlST (v : Variant) : St := mkInit [(0, [w0, w0]), (1, [r0])] [false, false] (-1) true v
def schedST : List Lab :=
  rep 14 (.w 0) ++ rep 1 (.w 1) ++ [Lab.e [0]] ++ rep 6 (.w 1) ++ rep 8 (.w 0) ++ rep 1 (.w 1)

/-- the forgotten lock: limit 0 (no shared caching), one transaction writing the same name twice -/
def wlOR (v : Variant) : St := mkInit [(0, [w0, w0])] [false] 0 true v
def schedOR : List Lab := rep 24 (.w 0) ++ rep 9 (.c 0)

end Sema.C11
