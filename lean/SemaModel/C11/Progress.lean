/- C11: deadlock freedom of the repaired protocol under bbolt's single-writer discipline -/
import SemaModel.C11.Inv15
set_option linter.unusedSimpArgs false
set_option linter.unusedVariables false
namespace Sema.C11

/-- the thread exists -/
def St.valid (s : St) : Tid → Prop
  | .w i => i < s.n
  | .c T => T < s.nTx

theorem valid_of_pc {s : St} (h : Inv s) (ho : InvOut s) {t : Tid}
    (hp : (s.thr t).pc ≠ .idle) (hp' : (s.thr t).pc ≠ .cWait) : s.valid t := by
  cases t with
  | w i =>
    by_cases hlt : i < s.n
    · exact hlt
    · exact absurd (h.kind.out i (by omega)).1 hp
  | c T =>
    by_cases hlt : T < s.nTx
    · exact hlt
    · exact absurd (ho.c T (Nat.le_of_not_lt hlt)) hp'

def newPre : PC → Bool
  | .nStore | .nRLock | .nObjLock => true
  | _ => false

theorem newPre_newPriv {p : PC} (h : newPre p = true) : newPriv p = true := by
  cases p <;> simp_all [newPre, newPriv]

/-- the fresh object of the new-cache branch is free when its creator is about to lock it -/
theorem new_free {s : St} (h : Inv s) {t : Tid} (hp0 : newPre (s.thr t).pc = true) :
    (s.objs (s.thr t).use).readers = [] ∧ (s.objs (s.thr t).use).writer = none := by
  have hp := newPre_newPriv hp0
  have hpr := h.pub.priv t hp
  have hlt := h.bounds.use t (newPriv_useValid hp)
  have hdef := h.defers t
  constructor
  · cases hr : (s.objs (s.thr t).use).readers with
    | nil => rfl
    | cons u r =>
      exfalso
      have hm : u ∈ (s.objs (s.thr t).use).readers := by rw [hr]; simp
      have hdf := (h.rd.rl u _).mp hm
      rcases h.pub.df u _ hdf with h1 | h1
      · rw [hpr.2.1] at h1; exact absurd h1 (by simp)
      · rw [hpr.1] at h1
        rw [← h1] at hdf
        unfold DefersOK at hdef
        cases hpc : (s.thr t).pc <;> simp [hpc, newPre] at hp0 <;> simp [hpc] at hdef <;>
          first
            | (simp [hdef.2] at hdf; done)
            | (rcases hdef.2 with h2 | h2 <;> simp [h2] at hdf)
  · cases hw : (s.objs (s.thr t).use).writer with
    | none => rfl
    | some T =>
      exfalso
      rcases (h.w _ T hlt).mp hw with h1 | ⟨h1, _⟩
      · have hpd := h.pend T
        rw [h1] at hpd
        cases hmu : (s.txs T).mu with
        | none => rw [hmu] at hpd; exact absurd hpd (by simp)
        | some u =>
          rw [hmu] at hpd
          have hvis : Vis s u (s.thr t).use := by
            unfold pendOf at hpd
            cases hpc : (s.thr u).pc <;> simp [hpc] at hpd
            · have := h.pub.ex u (by simp [hpc, exValid]); rw [← hpd] at this; exact Or.inl this
            · have := h.pub.use u (by simp [hpc, useValid]); rw [← hpd] at this; exact this
            · have := h.pub.use u (by simp [hpc, useValid]); rw [← hpd] at this; exact this
          rcases hvis with h2 | h2
          · rw [hpr.2.1] at h2; exact absurd h2 (by simp)
          · rw [hpr.1] at h2
            rw [← h2] at hpd
            unfold pendOf at hpd
            cases hpc : (s.thr t).pc <;> simp [hpc, newPre] at hp0 <;> simp [hpc] at hpd
      · exact new_not_written h hp T _ h1

/-- the lock-availability part of `enabled` -/
def stepCond (s : St) (t : Tid) : Bool :=
  let th := s.thr t
  let T := th.tx
  match th.pc with
  | .idle =>
    match th.todo with
    | [] => false
    | a :: _ => !(s.dbLock && !a.ro) || s.dbw.isNone || s.dbw == some T
  | .mgrLock | .fMgrLock | .pMgrLock | .cMgrLock => s.mgr.isNone
  | .xPreTxLock | .rTxLock | .xTxLock | .nTxLock | .cTxLock => (s.txs T).mu.isNone
  | .xObjLock => (s.objs th.existing).free
  | .nObjLock => (s.objs th.use).free
  | .nRLock => (s.objs th.use).writer.isNone
  | .cWait => s.joined T
  | .cDone => false
  | _ => true

theorem enabled_of_valid {s : St} (h : Inv s) {t : Tid} (hv : s.valid t) : enabled s t = stepCond s t := by
  unfold enabled stepCond
  cases t with
  | w i =>
    simp [St.valid] at hv
    cases hpc : (s.thr (.w i)).pc <;> simp [hv, hpc]
    cases (s.thr (.w i)).todo <;> simp
  | c T =>
    simp [St.valid] at hv
    cases hpc : (s.thr (.c T)).pc <;> simp [hv, hpc, (h.kind.c T).2]
    cases (s.thr (.c T)).todo <;> simp

/-- a thread holding the manager mutex can always take its next step (the mutex is a leaf lock) -/
theorem mgr_holder_enabled {s : St} (h : Inv s) (ho : InvOut s) {t : Tid} (hm : s.mgr = some t) :
    enabled s t = true := by
  have hh := (h.mgr t).mp hm
  have hleg := h.kind.legacy t
  have hv : s.valid t := valid_of_pc h ho (by intro e; rw [e] at hh; simp [holdsMgr] at hh)
    (by intro e; rw [e] at hh; simp [holdsMgr] at hh)
  rw [enabled_of_valid h hv]
  unfold stepCond
  cases hpc : (s.thr t).pc <;> simp [hpc, holdsMgr] at hh hleg ⊢
  · have := new_free h (t := t) (by simp [hpc, newPre]); simp [this.2]
  · have := new_free h (t := t) (by simp [hpc, newPre]); simp [Obj.free, this.1, this.2]

def mgrAcq : PC → Bool
  | .mgrLock | .fMgrLock | .pMgrLock | .cMgrLock => true
  | _ => false

/-- where a thread that holds a deferred RUnlock can be -/
theorem runlock_pc {s : St} (h : Inv s) {t : Tid} {o : ObjId} (hd : Defer.runlock o ∈ (s.thr t).defers) :
    (s.thr t).pc ≠ .idle ∧ (s.thr t).pc ≠ .cWait ∧
      (stepCond s t = true ∨ mgrAcq (s.thr t).pc = true) := by
  have hok := h.defers t
  unfold DefersOK at hok
  unfold stepCond
  cases hpc : (s.thr t).pc <;> simp [hpc] at hok <;> simp [hpc, mgrAcq] <;>
    first
      | (rw [hok.2] at hd; simp at hd; done)
      | (rcases hok.2 with h2 | h2 <;> rw [h2] at hd <;> simp at hd; done)
      | skip

/-- no thread can move and some thread is unfinished: impossible -/
theorem progress_core {s : St} (h : Inv s) (ho : InvOut s) (hd : InvDb s) (hdb : s.dbLock = true)
    (hun : ∃ t, s.unfinished t = true) : ∃ t, enabled s t = true := by
  apply Classical.byContradiction
  intro hne
  have hno : ∀ t, enabled s t = false := by
    intro t
    cases he : enabled s t with
    | false => rfl
    | true => exact absurd ⟨t, he⟩ hne
  have hnov : ∀ t, s.valid t → stepCond s t = false := by
    intro t hv; rw [← enabled_of_valid h hv]; exact hno t
  -- (1) the manager mutex is free
  have hmgr : s.mgr = none := by
    cases hm : s.mgr with
    | none => rfl
    | some t => have := mgr_holder_enabled h ho hm; rw [hno t] at this; exact absurd this (by simp)
  -- (2) nobody waits for it
  have hnoacq : ∀ t, s.valid t → mgrAcq (s.thr t).pc = false := by
    intro t hv
    cases hq : mgrAcq (s.thr t).pc with
    | false => rfl
    | true =>
      have := hnov t hv
      unfold stepCond at this
      cases hpc : (s.thr t).pc <;> simp [hpc, mgrAcq] at hq <;> simp [hpc, hmgr] at this
  -- (3) no object is read-locked by a thread that cannot move
  have hnord : ∀ o, (s.objs o).readers = [] := by
    intro o
    cases hr : (s.objs o).readers with
    | nil => rfl
    | cons u r =>
      exfalso
      have hm : u ∈ (s.objs o).readers := by rw [hr]; simp
      have hdf := (h.rd.rl u o).mp hm
      obtain ⟨h1, h2, h3⟩ := runlock_pc h hdf
      have hv := valid_of_pc h ho h1 h2
      rcases h3 with h3 | h3
      · rw [hnov u hv] at h3; exact absurd h3 (by simp)
      · rw [hnoacq u hv] at h3; exact absurd h3 (by simp)
  -- (4) no registration is pending (its owner could move)
  have hnopend : ∀ T, (s.txs T).pend = none := by
    intro T
    cases hp : (s.txs T).pend with
    | none => rfl
    | some o =>
      exfalso
      have hpd := h.pend T
      rw [hp] at hpd
      cases hmu : (s.txs T).mu with
      | none => rw [hmu] at hpd; exact absurd hpd (by simp)
      | some u =>
        rw [hmu] at hpd
        unfold pendOf at hpd
        cases hpc : (s.thr u).pc <;> simp [hpc] at hpd
        all_goals
          have hv := valid_of_pc h ho (t := u) (by simp [hpc]) (by simp [hpc])
          have := hnov u hv
          simp [stepCond, hpc] at this
  -- (5) nobody waits for the write lock of an existing cache
  have hnox : ∀ t, s.valid t → (s.thr t).pc ≠ .xObjLock := by
    intro t hv hpc
    have hc := hnov t hv
    simp [stepCond, hpc, Obj.free, hnord] at hc
    cases hw : (s.objs (s.thr t).existing).writer with
    | none => rw [hw] at hc; simp at hc
    | some T' =>
      have hlt := h.bounds.ex t (by simp [hpc, exValid])
      rcases (h.w _ T' hlt).mp hw with h1 | ⟨h1, h2⟩
      · rw [hnopend T'] at h1; exact absurd h1 (by simp)
      · have hname := h.names.ex t (by simp [hpc, exValid])
        have hnone := h.none t (by simp [hpc, nonePC])
        have hTT : T' ≠ (s.thr t).tx := by
          intro e; rw [e, hname] at h1; exact (aget_none_iff.mp hnone) _ h1
        have hT'lt : T' < s.nTx := by
          by_cases hl : T' < s.nTx
          · exact hl
          · have := ho.wr T' (Nat.le_of_not_lt hl); rw [this] at h1; simp at h1
        have hwne : (s.txs T').written ≠ [] := by intro e; rw [e] at h1; simp at h1
        -- the waiting thread is a writing access in progress: it owns the database lock
        have hdbw : s.dbw = some (s.thr t).tx := by
          cases t with
          | c T => have := (h.kind.c T).1; simp [hpc, isCommitPC] at this
          | w i =>
            have hrw := h.kind.rw (.w i) (by simp [hpc, rwPC])
            exact hd.wr hdb i (by simp [inWrite, hpc, hrw])
        have hcc := hnov (.c T') hT'lt
        cases hpcc : (s.thr (.c T')).pc <;> simp [stillHeld, hpcc] at h2 <;> simp [stepCond, hpcc, hmgr] at hcc
        · -- cWait: T' still owns the database lock
          have := hd.reg hdb T' hpcc hwne
          rw [hdbw] at this; injection this with e; exact hTT e.symm
        · -- cTxLock: somebody holds the mutex of T' although all its goroutines have returned
          rw [(h.kind.c T').2] at hcc
          cases hmu : (s.txs T').mu with
          | none => rw [hmu] at hcc; simp at hcc
          | some u =>
            have hu := (h.tx T' u).mp hmu
            cases u with
            | w j =>
              have hdone := h.join T' (by rw [hpcc]; simp) j hu.1
              have hwk := h.kind.w j
              unfold Thread.done at hdone
              unfold holdsTx at hu
              cases hpj : (s.thr (.w j)).pc <;> simp [hpj, isCommitPC] at hwk hdone <;> simp [hpj] at hu
            | c T'' =>
              have := (h.kind.c T'').2
              rw [this] at hu
              have hu1 := hu.1; subst hu1
              simp [holdsTx, hpcc] at hu
  -- (6) no transaction mutex is held
  have hnomu : ∀ T, (s.txs T).mu = none := by
    intro T
    cases hmu : (s.txs T).mu with
    | none => rfl
    | some u =>
      exfalso
      have hu := (h.tx T u).mp hmu
      have hleg := h.kind.legacy u
      have hv : s.valid u := valid_of_pc h ho
        (by intro e; have := hu.2; simp [holdsTx, e] at this) (by intro e; have := hu.2; simp [holdsTx, e] at this)
      have hc := hnov u hv
      have hx := hnox u hv
      have hu2 := hu.2
      unfold holdsTx at hu2
      unfold stepCond at hc
      cases hpc : (s.thr u).pc <;> simp [hpc] at hu2 hx hleg <;> simp [hpc, hmgr] at hc
      · have := new_free h (t := u) (by simp [hpc, newPre]); simp [Obj.free, this.1, this.2] at hc
  -- (7) so every thread that exists and is not done waits at `idle` (database lock) or `cWait` (join)
  have hwhere : ∀ t, s.valid t → (s.thr t).done = false → (s.thr t).pc = .idle ∨ (s.thr t).pc = .cWait := by
    intro t hv hnd
    have hc := hnov t hv
    have hx := hnox t hv
    have hleg := h.kind.legacy t
    unfold stepCond at hc
    unfold Thread.done at hnd
    cases hpc : (s.thr t).pc <;> simp [hpc] at hx hleg hnd ⊢ <;> simp [hpc, hmgr, hnomu] at hc
    · have := new_free h (t := t) (by simp [hpc, newPre]); simp [this.2] at hc
    · have := new_free h (t := t) (by simp [hpc, newPre]); simp [Obj.free, this.1, this.2] at hc
  -- (8) a worker that is not done waits for the database lock, whose owner's committer waits for a
  --     worker of the owner, which could take the lock it already owns
  have hworker : ∀ i, i < s.n → (s.thr (.w i)).done = true := by
    intro i hi
    cases hdn : (s.thr (.w i)).done with
    | true => rfl
    | false =>
      exfalso
      have hpc : (s.thr (.w i)).pc = .idle := by
        rcases hwhere (.w i) hi hdn with h1 | h1
        · exact h1
        · have := h.kind.w i; simp [h1, isCommitPC] at this
      have hc := hnov (.w i) hi
      unfold Thread.done at hdn
      simp [hpc] at hdn
      cases htd : (s.thr (.w i)).todo with
      | nil => simp [htd] at hdn
      | cons a r =>
        simp [stepCond, hpc, htd] at hc
        cases hdw : s.dbw with
        | none => simp [hdw] at hc
        | some T'' =>
          have hT'' := ho.db T'' hdw
          have hcc := hnov (.c T'') hT''.2
          simp [stepCond, hT''.1, (h.kind.c T'').2] at hcc
          -- join of T'' is false: a worker of T'' is not done
          unfold St.joined at hcc
          rw [List.all_eq_false] at hcc
          obtain ⟨j, hj, hjc⟩ := hcc
          have hjlt := List.mem_range.mp hj
          simp at hjc
          have hjd : (s.thr (.w j)).done = false := by
            cases hd' : (s.thr (.w j)).done with
            | false => rfl
            | true => rw [hd'] at hjc; simp at hjc
          have hjpc : (s.thr (.w j)).pc = .idle := by
            rcases hwhere (.w j) hjlt hjd with h1 | h1
            · exact h1
            · have := h.kind.w j; simp [h1, isCommitPC] at this
          have hjc' := hnov (.w j) hjlt
          unfold Thread.done at hjd
          simp [hjpc] at hjd
          cases htj : (s.thr (.w j)).todo with
          | nil => simp [htj] at hjd
          | cons a' r' =>
            simp [stepCond, hjpc, htj, hdw, hjc.1] at hjc'
  -- (9) then every committer that exists could start
  obtain ⟨t0, ht0⟩ := hun
  cases t0 with
  | w i =>
    simp [St.unfinished] at ht0
    have := hworker i ht0.1
    rw [this] at ht0; simp at ht0
  | c T =>
    simp [St.unfinished] at ht0
    have hcpc := hwhere (.c T) ht0.1 ht0.2
    rcases hcpc with h1 | h1
    · have := (h.kind.c T).1; simp [h1, isCommitPC] at this
    · have hcc := hnov (.c T) ht0.1
      simp [stepCond, h1, (h.kind.c T).2] at hcc
      unfold St.joined at hcc
      rw [List.all_eq_false] at hcc
      obtain ⟨j, hj, hjc⟩ := hcc
      have hjlt := List.mem_range.mp hj
      simp at hjc
      have := hworker j hjlt
      rw [this] at hjc; simp at hjc

end Sema.C11
