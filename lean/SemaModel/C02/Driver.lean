/- line protocol for C02: a stateful run of the shard model of SemaModel/C02/Model.lean.

  schema bolt|mem <n> {<path> <kind>}          kind: str:cs str:ci arr:cs arr:ci int flt     → ok
  lower <hex raw> <hex lowered>                 what strings.ToLower returned for this string  → ok
  insert <n> {<uuid> <nodeid hex16> <val>}      → ok | rejected
  update <n> {<uuid> <val>}                     → ok | rejected
  delete <n> {<uuid>}                           → ok | rejected
  search <query>                                → ids:<sorted uuids> | error
  dump <path>                                   → <hexkey>=<sorted uuids>;… | -

  val   : N | T | X | S:<hex|-> | I:<hex16> | F:<hex16> | A <n> val… | M <n> {<key> val}
  query : str <path> <op> <hex> <hex> | arr <path> all|any <n> <hex>… | int <path> <op> <hex16> <hex16>
        | flt <path> <op> <hex16> <hex16> | ideq <uuid> | idany <n> <uuid>… | and <n> query… | or <n> query…
-/
import SemaModel.Base.DriverUtil
import SemaModel.C02.Model
import SemaModel.Compose.Driver
import SemaModel.Compose.RankDriver
import SemaModel.Compose.AcceptDriver
namespace Sema.C02
open Sema

structure DSt where
  st : St := {}
  tab : List (Bytes × Bytes) := []

def DSt.lower (d : DSt) (b : Bytes) : Bytes := ((d.tab.find? fun e => e.1 == b).map (·.2)).getD b

def bytes? (s : String) : Option Bytes := if s == "-" then some [] else bytesOfHex s
def hexB (b : Bytes) : String := if b.isEmpty then "-" else hexOfBytes b
def u64? (s : String) : Option (BitVec 64) := (natOfHex s).map (BitVec.ofNat 64)

def op? : String → Option Op
  | "equals" => some .equals | "notEquals" => some .notEquals | "startsWith" => some .startsWith
  | "greaterThan" => some .gt | "greaterThanOrEquals" => some .ge | "lessThan" => some .lt
  | "lessThanOrEquals" => some .le | "inRange" => some .inRange | _ => none

def kind? : String → Option Kind
  | "str:cs" => some (.str true) | "str:ci" => some (.str false)
  | "arr:cs" => some (.strArr true) | "arr:ci" => some (.strArr false)
  | "int" => some .int | "flt" => some .flt | _ => none

def path? (s : String) : List String := s.splitOn "."

/-- take `n` items with parser `p` -/
partial def many {α : Type} (p : List String → Option (α × List String)) : Nat → List String → Option (List α × List String)
  | 0, ts => some ([], ts)
  | n + 1, ts => do
    let (a, ts) ← p ts
    let (as, ts) ← many p n ts
    pure (a :: as, ts)

partial def parseVal : List String → Option (Val × List String)
  | "N" :: r => some (.nil, r)
  | "T" :: r => some (.bool true, r)
  | "X" :: r => some (.bool false, r)
  | "A" :: n :: r => do
    let (l, r) ← many parseVal n.toNat! r
    pure (.arr l, r)
  | "M" :: n :: r => do
    let (l, r) ← many (fun ts => match ts with
      | k :: ts => (parseVal ts).map fun (v, ts) => ((k, v), ts)
      | [] => none) n.toNat! r
    pure (.map l, r)
  | t :: r =>
    match t.toList with
    | 'S' :: ':' :: cs => (bytes? (String.ofList cs)).map fun b => (.str b, r)
    | 'I' :: ':' :: cs => (u64? (String.ofList cs)).map fun x => (.int x, r)
    | 'F' :: ':' :: cs => (u64? (String.ofList cs)).map fun x => (.flt x, r)
    | _ => none
  | [] => none

def tok1 : List String → Option (String × List String)
  | t :: r => some (t, r)
  | [] => none

def toQList : List Query → QList
  | [] => .nil
  | q :: qs => .cons q (toQList qs)

partial def parseQuery : List String → Option (Query × List String)
  | "str" :: p :: o :: v :: e :: r => do
    pure (.leaf (.str (path? p) (← op? o) (← bytes? v) (← bytes? e)), r)
  | "arr" :: p :: m :: n :: r => do
    let (vs, r) ← many (fun ts => match ts with | t :: ts => (bytes? t).map (·, ts) | [] => none) n.toNat! r
    pure (.leaf (.strArr (path? p) (m == "all") vs), r)
  | "int" :: p :: o :: v :: e :: r => do
    pure (.leaf (.int (path? p) (← op? o) (← u64? v) (← u64? e)), r)
  | "flt" :: p :: o :: v :: e :: r => do
    pure (.leaf (.flt (path? p) (← op? o) (← u64? v) (← u64? e)), r)
  | "ideq" :: u :: r => some (.leaf (.idEq u), r)
  | "idany" :: n :: r => do
    let (us, r) ← many tok1 n.toNat! r
    pure (.leaf (.idAny us), r)
  | "and" :: n :: r => do
    let (qs, r) ← many parseQuery n.toNat! r
    pure (.and (toQList qs), r)
  | "or" :: n :: r => do
    let (qs, r) ← many parseQuery n.toNat! r
    pure (.or (toQList qs), r)
  | _ => none

def sortDedup (l : List String) : List String := (l.toArray.qsort (· < ·)).toList.eraseDups

def uuidsOf (pts : List Point) (s : IdSet) : String :=
  ",".intercalate (sortDedup (s.map fun i =>
    match pts.find? (fun p => p.id == i) with
    | some p => p.uuid
    | none => "?" ++ hexOfNat 16 i.toNat))

def dump (st : St) (path : List String) : String :=
  match st.index path with
  | none => "no-such-index"
  | some ix =>
    if ix.kv.entries.isEmpty then "-" else
    ";".intercalate (ix.kv.entries.map fun e => hexB e.1 ++ "=" ++ uuidsOf st.pts (decSet e.2))

def write (d : DSt) (op : WOp) : DSt × String :=
  if d.st.accepts d.lower op then ({ d with st := d.st.apply d.lower op }, "ok") else (d, "rejected")

def step (d : DSt) (line : String) : DSt × String :=
  let bad := (d, "bad-op")
  match (line.trimAscii.toString.splitOn " ").filter (· ≠ "") with
  | "schema" :: b :: n :: r =>
    match many (fun ts => match ts with
        | p :: k :: ts => (kind? k).map fun k => ((⟨path? p, k, KV.empty⟩ : Index), ts)
        | _ => none) n.toNat! r with
    | some (ixs, _) => ({ d with st := { pts := [], idxs := ixs, bolt := b == "bolt" } }, "ok")
    | none => bad
  | ["lower", a, b] =>
    match bytes? a, bytes? b with
    | some a, some b => ({ d with tab := (a, b) :: d.tab }, "ok")
    | _, _ => bad
  | "insert" :: n :: r =>
    match many (fun ts => match ts with
        | u :: i :: ts => do
          let i ← u64? i
          let (v, ts) ← parseVal ts
          pure ((⟨i, u, v⟩ : Point), ts)
        | _ => none) n.toNat! r with
    | some (ps, _) => write d (.insert ps)
    | none => bad
  | "update" :: n :: r =>
    match many (fun ts => match ts with
        | u :: ts => (parseVal ts).map fun (v, ts) => ((u, v), ts)
        | _ => none) n.toNat! r with
    | some (us, _) => write d (.update us)
    | none => bad
  | "delete" :: n :: r =>
    match many tok1 n.toNat! r with
    | some (us, _) => write d (.delete us)
    | none => bad
  | "search" :: r =>
    match parseQuery r with
    | some (q, _) =>
      if q.wf d.st then (d, "ids:" ++ uuidsOf d.st.pts (eval d.lower d.st q)) else (d, "error")
    | none => bad
  | ["dump", p] => (d, dump d.st (path? p))
  | _ => bad

end Sema.C02

/-- `semadriver C02` runs the C02 model; `semadriver C02 compose` answers the same op lines (and `searchx`)
with the combined model of SemaModel/Compose (C01 point store + C02 indexes + C06 pipeline); `semadriver C02 rank`
answers the ranking histories with the combined model extended by the flat and text indexes (Compose/RankDriver.lean);
`semadriver C02 accept` answers the acceptance histories (Compose/AcceptDriver.lean): the combined model's result and,
beside it, the decision of the independent predicate `Acceptable` -/
def Sema.C02.driverMain (stdin stdout : IO.FS.Stream) (args : List String) : IO Unit :=
  if args.head? == some "compose" then Sema.Compose.driverMain stdin stdout args.tail
  else if args.head? == some "rank" then Sema.Compose.rankDriverMain stdin stdout args.tail
  else if args.head? == some "accept" then Sema.Compose.acceptDriverMain stdin stdout args.tail
  else Sema.loopState stdin stdout Sema.C02.step {}
