/-
C02 — filter queries return exactly the live points that satisfy the predicate, after any write history.

Every theorem is about the model of SemaModel/C02/Model.lean, whose key functions are the definitions
*generated* from shard/index/inverted/sortable.go (the order / injectivity facts come from C19's theorems
about those generated definitions, via `intLawful`, `fltLawful`, `strLawful`).  `lower` (strings.ToLower)
is an arbitrary function throughout.  Only property theorems and their non-vacuity examples live here.
-/
import SemaModel.C02.Lemmas
namespace Sema.C02
open Sema

/-! ### one inverted index (any value type whose key function is lawful) -/

/-- **C02_change.** The index invariant (`i` is filed under key `k` iff the live point `i` holds a value
with key `k`; the bucket is sorted; no empty posting is stored) is preserved by every batch of changes
that is consistent with the point store (each change names the value the point held before it), through
the write cache of `processChange` — including the `prev == cur` no-op arm — and `flush`. -/
theorem C02_change {V : Type} {o : Ops V} {valid : V → Prop} (law : Lawful o valid) {kv : KV}
    {vals vals' : Id → List V} {chs : List (Change V)} (inv : IdxInv o kv vals)
    (hchain : Chain vals chs vals') (hvalid : ∀ ch ∈ chs, ch.Valid valid) :
    IdxInv o (applyBatch o kv chs) vals' :=
  applyBatch_inv law inv hchain hvalid

/-- **C02_array_change.** The same for the array index: the diff of array.go (values added / removed,
duplicates and unchanged values included) keeps the invariant with `vals i` the elements of the array. -/
theorem C02_array_change {V : Type} {o : Ops V} {valid : V → Prop} (law : Lawful o valid) {kv : KV}
    {vals vals' : Id → List V} {chs : List (ArrChange V)} (inv : IdxInv o kv vals)
    (hchain : ArrChain vals chs vals') (hvalid : ∀ ch ∈ chs, ch.Valid valid) :
    IdxInv o (applyArrBatch o kv chs) vals' :=
  applyArrBatch_inv law inv hchain hvalid

/-- **C02_search.** On an index satisfying the invariant, `Search` with any of the eight operators returns
exactly the ids that hold a value satisfying the operator's specification `satOp` (equals, notEquals =
has a value and it differs, startsWith = prefix, the four comparisons, inRange inclusive at both ends). -/
theorem C02_search {V : Type} {o : Ops V} {valid : V → Prop} (law : Lawful o valid) {kv : KV}
    {vals : Id → List V} (inv : IdxInv o kv vals) (hvals : ∀ i, ∀ v ∈ vals i, valid v)
    {q e : V} (hq : valid q) (he : valid e) (op : Op) (i : Id) :
    i ∈ search o kv q e op ↔ ∃ a ∈ vals i, satOp o op a q e = true :=
  search_spec law inv hvals hq he op i

/-- **C02_search_array.** containsAll / containsAny (non-empty query list). -/
theorem C02_search_array {V : Type} {o : Ops V} {valid : V → Prop} (law : Lawful o valid) {kv : KV}
    {vals : Id → List V} (inv : IdxInv o kv vals) (hvals : ∀ i, ∀ v ∈ vals i, valid v)
    (qs : List V) (hqs : ∀ q ∈ qs, valid q) (hne : qs ≠ []) (all : Bool) (i : Id) :
    i ∈ searchArr o kv qs all ↔
      if all then ∀ q ∈ qs, ∃ a ∈ vals i, o.veq a q = true else ∃ q ∈ qs, ∃ a ∈ vals i, o.veq a q = true :=
  searchArr_spec law inv hvals qs hqs hne all i

/-! ### the four index types, with the generated key functions -/

/-- **C02_int_search.** Integer index (key = generated `toByteSortable_int64`): signed comparisons, every
int64 including min / max. -/
theorem C02_int_search {kv : KV} {vals : Id → List (BitVec 64)} (inv : IdxInv intOps kv vals)
    (q e : BitVec 64) (op : Op) (i : Id) :
    i ∈ search intOps kv q e op ↔ ∃ a ∈ vals i, satOp intOps op a q e = true :=
  search_spec intLawful inv (fun _ _ _ => trivial) trivial trivial op i

/-- **C02_float_search.** Float index (key = generated `toByteSortable_float64`): IEEE comparisons on
non-NaN values (−0.0 = +0.0, subnormals, ±Inf included). Hypotheses: no NaN stored or queried. -/
theorem C02_float_search {kv : KV} {vals : Id → List (BitVec 64)} (inv : IdxInv fltOps kv vals)
    (hvals : ∀ i, ∀ v ∈ vals i, F64.isNaN v = false) {q e : BitVec 64} (hq : F64.isNaN q = false)
    (he : F64.isNaN e = false) (op : Op) (i : Id) :
    i ∈ search fltOps kv q e op ↔ ∃ a ∈ vals i, satOp fltOps op a q e = true :=
  search_spec fltLawful inv hvals hq he op i

/-- **C02_string_search.** String index: byte-wise order on the *folded* strings; `Value` and `EndValue`
are both folded (`fold = lower` on a case-insensitive index, identity otherwise). `vals` are the folded
stored values. -/
theorem C02_string_search (lower : Bytes → Bytes) (cs : Bool) {kv : KV} {vals : Id → List Bytes}
    (inv : IdxInv strOps kv vals) (v e : Bytes) (op : Op) (i : Id) :
    i ∈ searchStr lower cs kv v e op ↔ ∃ a ∈ vals i, satOp strOps op a (fold lower cs v) (fold lower cs e) = true :=
  search_spec strLawful inv (fun _ _ _ => trivial) trivial trivial op i

/-- **C02_stringArray_search.** String-array index: every query element is folded. -/
theorem C02_stringArray_search (lower : Bytes → Bytes) (cs : Bool) {kv : KV} {vals : Id → List Bytes}
    (inv : IdxInv strOps kv vals) (vs : List Bytes) (hne : vs ≠ []) (all : Bool) (i : Id) :
    i ∈ searchStrArr lower cs kv vs all ↔
      if all then ∀ q ∈ vs, fold lower cs q ∈ vals i else ∃ q ∈ vs, fold lower cs q ∈ vals i := by
  unfold searchStrArr
  rw [searchArr_spec strLawful inv (fun _ _ _ => trivial) _ (fun _ _ => trivial) (by simpa using hne)]
  have hm : ∀ q, (∃ a ∈ vals i, strOps.veq a q = true) ↔ q ∈ vals i := by
    intro q; simp [strOps]
  cases all
  · simp only [Bool.false_eq_true, if_false, List.mem_map]
    constructor
    · rintro ⟨_, ⟨q, hq, rfl⟩, h⟩; exact ⟨q, hq, (hm _).1 h⟩
    · rintro ⟨q, hq, h⟩; exact ⟨_, ⟨q, hq, rfl⟩, (hm _).2 h⟩
  · simp only [if_true, List.mem_map]
    constructor
    · intro h q hq; exact (hm _).1 (h _ ⟨q, hq, rfl⟩)
    · rintro h _ ⟨q, hq, rfl⟩; exact (hm _).2 (h q hq)

/-- the meaning of `satOp` for each type, spelled out -/
example (a q e : BitVec 64) : satOp intOps .gt a q e = q.slt a ∧ satOp intOps .le a q e = !(q.slt a) ∧
    satOp intOps .inRange a q e = (!(a.slt q) && !(e.slt a)) ∧ satOp intOps .notEquals a q e = !(a == q) :=
  ⟨rfl, rfl, rfl, rfl⟩
example (a q e : BitVec 64) : satOp fltOps .lt a q e = F64.lt a q ∧ satOp fltOps .equals a q e = F64.eq a q ∧
    satOp fltOps .inRange a q e = (F64.le q a && F64.le a e) := ⟨rfl, rfl, rfl⟩
example (a q e : Bytes) : satOp strOps .startsWith a q e = q.isPrefixOf a ∧ satOp strOps .ge a q e = !(lexLt a q) :=
  ⟨rfl, rfl⟩

/-! ### the shard: histories and query trees -/

/-- **C02_step.** One write batch (insert / update that changes, adds or removes indexed fields / delete;
accepted or rejected) preserves the shard invariant: every string, string-array, integer and float
index of the schema — nested property paths included — is exact for the documents now stored.
Hypotheses (`OpOK`): inserted points get unused, distinct node ids (C01); no NaN is written into a
float-indexed property. -/
theorem C02_step (lower : Bytes → Bytes) {st : St} (inv : Inv lower st) (op : WOp) (ok : OpOK st op) :
    Inv lower (st.write lower op) :=
  write_inv lower inv op ok

/-- **C02_history.** Every history of write batches preserves the invariant. -/
theorem C02_history (lower : Bytes → Bytes) (ops : List WOp) : ∀ {st : St}, Inv lower st → HistOK lower st ops →
    Inv lower (run lower st ops) := by
  induction ops with
  | nil => intro st inv _; exact inv
  | cons op ops ih =>
    intro st inv hok
    exact ih (write_inv lower inv op hok.1) hok.2

/-- **C02_tree.** In a state satisfying the invariant, every query tree (`_and` / `_or` nested to any
depth over string / string-array / integer / float leaves and `_id` lookups) returns exactly the node ids
of the points that satisfy it: `_and` = intersection, `_or` = union. Hypotheses: the query is one the
shard answers (`wf`: properties exist with the matching type, non-empty lists) and holds no NaN. -/
theorem C02_tree (lower : Bytes → Bytes) {st : St} (inv : Inv lower st) (q : Query) (hwf : q.wf st = true)
    (hv : q.Valid) (i : Id) : i ∈ eval lower st q ↔ q.sat lower st i :=
  eval_spec lower inv q hwf hv i

/-- **C02_exact.** After any history on a freshly created shard, any query returns exactly the live
points that satisfy it (the specification `sat` reads the point store only). -/
theorem C02_exact (lower : Bytes → Bytes) (schema : List (List String × Kind)) (bolt : Bool) (ops : List WOp)
    (hok : HistOK lower (St.init schema bolt) ops) (q : Query)
    (hwf : q.wf (run lower (St.init schema bolt) ops) = true) (hv : q.Valid) (i : Id) :
    i ∈ eval lower (run lower (St.init schema bolt) ops) q ↔ q.sat lower (run lower (St.init schema bolt) ops) i :=
  C02_tree lower (C02_history lower ops (init_inv lower schema bolt) hok) q hwf hv i

/-- **C02_only_live.** Everything a query returns is the node id of a currently stored point. -/
theorem C02_only_live (lower : Bytes → Bytes) {st : St} (inv : Inv lower st) (q : Query) (hwf : q.wf st = true)
    (hv : q.Valid) (i : Id) (h : i ∈ eval lower st q) : ∃ p ∈ st.pts, p.id = i :=
  Query.sat_live lower q hwf i ((C02_tree lower inv q hwf hv i).1 h)

/-- **C02_id_lookup.** `_id` lookups: the node id returned for a uuid is that of the unique live point
with this uuid. -/
theorem C02_id_lookup (lower : Bytes → Bytes) {st : St} (inv : Inv lower st) (u : String) (i : Id) :
    i ∈ eval lower st (.leaf (.idEq u)) ↔ ∃ p ∈ st.pts, p.uuid = u ∧ p.id = i := by
  rw [C02_tree lower inv _ (by rw [Query.wf_leaf, Leaf.wf_idEq]) ((Query.valid_leaf _).2 (Leaf.valid_idEq u))]
  exact idOf_eq_some_iff inv.uuids u i

/-- **C02_lacking_field.** A point that lacks the property (or is not live) never matches a leaf on it. -/
theorem C02_lacking_field (lower : Bytes → Bytes) {st : St} (inv : Inv lower st) (path : List String) (op : Op)
    (v e : BitVec 64) (hwf : (Leaf.int path op v e).wf st = true) (i : Id)
    (hlack : getProp (docOf st.pts i) path = none) : i ∉ eval lower st (.leaf (.int path op v e)) := by
  rw [C02_tree lower inv _ (by rw [Query.wf_leaf]; exact hwf) ((Query.valid_leaf _).2 (Leaf.valid_int ..))]
  rintro ⟨kv, _, a, ha, _⟩
  rw [int_lacking path i hlack] at ha
  exact absurd ha (by simp)

/-- **C02_rejected_unchanged.** A batch the shard does not accept (existing / repeated uuid, a property of the
wrong type, or — on the file backend — a posting under the empty key, which bbolt refuses with "key
required") leaves the state, hence the invariant, unchanged. -/
theorem C02_rejected_unchanged (lower : Bytes → Bytes) (st : St) (op : WOp) (h : st.accepts lower op = false) :
    st.write lower op = st :=
  write_rejected lower st op h

/-! ### non-vacuity: concrete states and queries satisfying the hypotheses -/

section examples
def exSchema : List (List String × Kind) := [(["n"], .int), (["nest", "s"], .str false)]
def exDoc1 : Val := .map [("n", .int 5#64), ("nest", .map [("s", .str [0x41#8])])]
def exDoc2 : Val := .map [("n", .int (BitVec.ofInt 64 (-3)))]
def exOps : List WOp :=
  [.insert [⟨1#64, "u1", exDoc1⟩, ⟨2#64, "u2", exDoc2⟩], .update [("u2", .map [("n", .int 7#64)])], .delete ["u1"]]
def exLower (b : Bytes) : Bytes := b.map fun x => if 0x41 ≤ x.toNat ∧ x.toNat ≤ 0x5a then x + 0x20#8 else x
def exQuery : Query := .and (.cons (.leaf (.int ["n"] .gt 0#64 0#64)) (.cons (.or (.cons (.leaf (.idEq "u2")) .nil)) .nil))

private theorem exNoFlt (k : Nat) : ∀ ix ∈ (run exLower (St.init exSchema false) (exOps.take k)).idxs, ix.kind ≠ .flt := by
  intro ix hix
  obtain ⟨ix0, h0, hk, _⟩ := run_kind_mem exLower _ hix
  rw [hk]
  change ix0 ∈ [(⟨["n"], .int, KV.empty⟩ : Index), ⟨["nest", "s"], .str false, KV.empty⟩] at h0
  simp only [List.mem_cons, List.not_mem_nil, or_false] at h0
  rcases h0 with rfl | rfl <;> simp

/-- the hypotheses of `C02_exact` hold for this history (insert, update, delete) and query … -/
example : HistOK exLower (St.init exSchema false) exOps ∧
    exQuery.wf (run exLower (St.init exSchema false) exOps) = true ∧ exQuery.Valid := by
  refine ⟨⟨⟨⟨?_, ?_⟩, ?_⟩, ⟨trivial, ?_⟩, ⟨trivial, ?_⟩, trivial⟩, by decide, ?_⟩
  · exact List.pairwise_cons.2 ⟨by intro b hb; simp at hb; subst hb; decide, List.pairwise_singleton _ _⟩
  · intro p hp; rfl
  · intro pc _ ix hix hk; exact absurd hk (exNoFlt 0 ix hix)
  · intro pc _ ix hix hk; exact absurd hk (exNoFlt 1 ix hix)
  · intro pc _ ix hix hk; exact absurd hk (exNoFlt 2 ix hix)
  · exact (Query.valid_and _).2 ((QList.valid_cons _ _).2 ⟨(Query.valid_leaf _).2 (Leaf.valid_int ..),
      (QList.valid_cons _ _).2 ⟨(Query.valid_or _).2 ((QList.valid_cons _ _).2
        ⟨(Query.valid_leaf _).2 (Leaf.valid_idEq _), QList.valid_nil⟩), QList.valid_nil⟩⟩)
/-- … and the answer is the expected one (computed by the model) -/
example : eval exLower (run exLower (St.init exSchema false) exOps) exQuery = [2#64] := by decide
/-- a non-trivial index state satisfying `IdxInv` (by `C02_history`): the buckets hold two and one postings -/
example : ((run exLower (St.init exSchema false) (exOps.take 1)).idxs.map fun ix => ix.kv.entries.length) = [2, 1] := by
  decide
/-- the empty key on the file backend: the batch is refused; the memory backend accepts it -/
example : (St.init [(["s"], .str true)] true).accepts exLower (.insert [⟨1#64, "u1", .map [("s", .str [])]⟩]) = false ∧
    (St.init [(["s"], .str true)] false).accepts exLower (.insert [⟨1#64, "u1", .map [("s", .str [])]⟩]) = true := by
  decide

/-- floats: `OpOK` holds for a batch storing −0.0 and 1.0 in a float index on the file backend … -/
def fxSchema : List (List String × Kind) := [(["x"], .flt)]
def fxOp : WOp :=
  .insert [⟨1#64, "u1", .map [("x", .flt 0x8000000000000000#64)]⟩, ⟨2#64, "u2", .map [("x", .flt 0x3ff0000000000000#64)]⟩]
example : OpOK (St.init fxSchema true) fxOp := by
  refine ⟨⟨?_, fun p _ => rfl⟩, ?_⟩
  · exact List.pairwise_cons.2 ⟨by intro b hb; simp at hb; subst hb; decide, List.pairwise_singleton _ _⟩
  · intro pc hpc ix hix hk x hx
    change ix ∈ [(⟨["x"], .flt, KV.empty⟩ : Index)] at hix
    simp only [List.mem_singleton] at hix
    subst hix
    change pc ∈ [(⟨1#64, none, some (.map [("x", .flt 0x8000000000000000#64)])⟩ : PChange),
      ⟨2#64, none, some (.map [("x", .flt 0x3ff0000000000000#64)])⟩] at hpc
    simp only [List.mem_cons, List.not_mem_nil, or_false] at hpc
    rcases hpc with rfl | rfl
    · change x ∈ [0x8000000000000000#64] at hx
      simp only [List.mem_singleton] at hx; subst hx; decide
    · change x ∈ [0x3ff0000000000000#64] at hx
      simp only [List.mem_singleton] at hx; subst hx; decide
/-- … `equals +0.0` finds the point holding −0.0, and `greaterThan −Inf` finds both -/
example : eval exLower ((St.init fxSchema true).write exLower fxOp) (.leaf (.flt ["x"] .equals 0#64 0#64)) = [1#64] := by
  decide
example : eval exLower ((St.init fxSchema true).write exLower fxOp)
    (.leaf (.flt ["x"] .gt 0xfff0000000000000#64 0#64)) = [1#64, 2#64] := by decide
end examples

end Sema.C02
