/-
C02 — executable model of the filter-query path of a shard.

  * `Inverted` : shard/index/inverted/inverted.go  (IndexInverted[T]: setCache, processChange, flush, Search)
  * string / string-array wrappers : shard/index/inverted/string.go, array.go
  * dispatch : shard/index/dispatch.go + utils.go (getOperation, preProcessInverted, preProcessInvertedArray)
  * search tree : shard/index/search.go (Search, searchById, searchParallel)
  * the point store only as far as the index needs it (node id ↦ document, uuid ↦ node id); its own
    correctness is C01's concern and enters the theorems as explicit hypotheses.

The key function of each value type is the *generated* `toByteSortable_*` (SemaModel/Generated/Sortable.lean,
regenerated from sortable.go on every run).  A roaring bitmap is a list of node ids with set semantics
(`setAdd`/`setRemove` = CheckedAdd/CheckedRemove); it is stored in the bucket as the concatenation of the
little-endian ids (`encSet`/`decSet`; roaring's own serialisation is trusted).  `strings.ToLower` is the
abstract parameter `lower`.  Core-only.
-/
import SemaModel.Base.KV
import SemaModel.Generated.Sortable
namespace Sema.C02
open Sema

/-! ## posting sets -/

abbrev Id := BitVec 64
abbrev IdSet := List Id

def encSet (s : IdSet) : Bytes := s.flatMap le64

def decSet : Bytes → IdSet
  | a0 :: a1 :: a2 :: a3 :: a4 :: a5 :: a6 :: a7 :: rest =>
    ofLE64 [a0, a1, a2, a3, a4, a5, a6, a7] 0 :: decSet rest
  | _ => []

/-- `Bitmap.CheckedAdd`: the new set and whether it changed -/
def setAdd (id : Id) (s : IdSet) : IdSet × Bool := if s.contains id then (s, false) else (s ++ [id], true)
/-- `Bitmap.CheckedRemove` -/
def setRemove (id : Id) (s : IdSet) : IdSet × Bool :=
  if s.contains id then (s.filter (fun x => !(x == id)), true) else (s, false)

/-- the posting stored under key `k` (`bucket.Get` + `ReadFrom`; absent = empty set) -/
def post (kv : KV) (k : Bytes) : IdSet :=
  match kv.get k with
  | some b => decSet b
  | none => []

/-- `roaring64.FastOr` -/
def unionAll (l : List IdSet) : IdSet := l.flatMap id
/-- `roaring64.FastAnd` (of no sets: the empty set) -/
def interAll : List IdSet → IdSet
  | [] => []
  | s :: rest => s.filter fun i => rest.all fun t => t.contains i

/-! ## value types -/

/-- what the generic `IndexInverted[T]` uses of `T`: the sortable key, Go's `==` (also the equality of
the `setCache` map), and — for the specification only — the order the operators are stated in -/
structure Ops (V : Type) where
  key : V → Bytes
  veq : V → V → Bool
  lt : V → V → Bool
  le : V → V → Bool
  /-- `pre q a`: `a` starts with `q` -/
  pre : V → V → Bool

def intOps : Ops (BitVec 64) where
  key := Gen.Sortable.toByteSortable_int64
  veq := fun a b => a == b
  lt := fun a b => a.slt b
  le := fun a b => !(b.slt a)
  pre := fun q a => (Gen.Sortable.toByteSortable_int64 q).isPrefixOf (Gen.Sortable.toByteSortable_int64 a)

def fltOps : Ops (BitVec 64) where
  key := Gen.Sortable.toByteSortable_float64
  veq := F64.eq
  lt := F64.lt
  le := F64.le
  pre := fun q a => (Gen.Sortable.toByteSortable_float64 q).isPrefixOf (Gen.Sortable.toByteSortable_float64 a)

def strOps : Ops Bytes where
  key := Gen.Sortable.toByteSortable_string
  veq := fun a b => a == b
  lt := lexLt
  le := fun a b => !(lexLt b a)
  pre := fun q a => q.isPrefixOf a

inductive Op
  | equals | notEquals | startsWith | gt | ge | lt | le | inRange
  deriving DecidableEq, Repr, Inhabited

/-- **specification** of an operator on a stored value `a`, query value `q`, end value `e` -/
def satOp (o : Ops V) (op : Op) (a q e : V) : Bool :=
  match op with
  | .equals => o.veq a q
  | .notEquals => !(o.veq a q)
  | .startsWith => o.pre q a
  | .gt => o.lt q a
  | .ge => o.le q a
  | .lt => o.lt a q
  | .le => o.le a q
  | .inRange => o.le q a && o.le a e

/-! ## IndexInverted[T] -/

structure Item (V : Type) where
  v : V
  set : IdSet
  dirty : Bool

/-- `setCache map[T]*setCacheItem`; lookups compare with Go's `==` -/
abbrev Cache (V : Type) := List (Item V)

structure Change (V : Type) where
  id : Id
  prev : Option V
  cur : Option V

variable {V : Type}

def Cache.has (o : Ops V) (c : Cache V) (v : V) : Bool := c.any fun e => o.veq e.v v

/-- `getSetCacheItem(value, nil)`: on a miss the set is read from the bucket, clean -/
def Cache.ensure (o : Ops V) (kv : KV) (c : Cache V) (v : V) : Cache V :=
  if c.has o v then c else c ++ [⟨v, post kv (o.key v), false⟩]

/-- `item.isDirty = item.set.CheckedX(id) || item.isDirty` on the item of `v` -/
def Cache.update (o : Ops V) (v : V) (f : IdSet → IdSet × Bool) : Cache V → Cache V
  | [] => []
  | e :: rest =>
    if o.veq e.v v then ⟨e.v, (f e.set).1, (f e.set).2 || e.dirty⟩ :: rest
    else e :: Cache.update o v f rest

inductive Prim (V : Type)
  | add (id : Id) (v : V)
  | rem (id : Id) (v : V)

def execPrim (o : Ops V) (kv : KV) (c : Cache V) : Prim V → Cache V
  | .add id v => (c.ensure o kv v).update o v (setAdd id)
  | .rem id v => (c.ensure o kv v).update o v (setRemove id)

/-- `processChange`, arm by arm -/
def processChange (o : Ops V) (kv : KV) (c : Cache V) (ch : Change V) : Cache V :=
  match ch.prev, ch.cur with
  | none, none => c
  | none, some cur => execPrim o kv c (.add ch.id cur)
  | some prev, none => execPrim o kv c (.rem ch.id prev)
  | some prev, some cur =>
    if !(o.veq prev cur) then execPrim o kv (execPrim o kv c (.rem ch.id prev)) (.add ch.id cur)
    else c

def flushItem (o : Ops V) (kv : KV) (e : Item V) : KV :=
  if !e.dirty then kv
  else if e.set.isEmpty then kv.delete (o.key e.v)
  else kv.put (o.key e.v) (encSet e.set)

/-- `flush` (Go iterates the map in random order; the keys of distinct items are distinct, so the
order does not matter — `Lemmas.post_flush`) -/
def flush (o : Ops V) (kv : KV) (c : Cache V) : KV := c.foldl (flushItem o) kv

/-- would the bbolt backend refuse the flush?  (`Put` with an empty key: "key required") -/
def flushRefused (o : Ops V) (c : Cache V) : Bool :=
  c.any fun e => e.dirty && !e.set.isEmpty && (o.key e.v).isEmpty

/-- `InsertUpdateDelete`: a fresh index object per batch (dispatch.go builds one per write), all
changes through the cache, then one flush -/
def batchCache (o : Ops V) (kv : KV) (chs : List (Change V)) : Cache V := chs.foldl (processChange o kv) []
def applyBatch (o : Ops V) (kv : KV) (chs : List (Change V)) : KV := flush o kv (batchCache o kv chs)

def unionEntries (l : List (Bytes × Bytes)) : IdSet := l.flatMap fun e => decSet e.2

/-- `IndexInverted.Search` (search.go builds a fresh index object per query, so every
`getSetCacheItem(reverseKey, v)` of a scan is a miss and decodes `v`) -/
def search (o : Ops V) (kv : KV) (q e : V) (op : Op) : IdSet :=
  let qk := o.key q
  match op with
  | .equals => post kv qk
  | .notEquals => unionEntries (kv.forEach.filter fun x => !(x.1 == qk))
  | .startsWith => unionEntries (kv.prefixScan qk)
  | .gt => unionEntries (kv.rangeScan (some qk) none false)
  | .ge => unionEntries (kv.rangeScan (some qk) none true)
  | .lt => unionEntries (kv.rangeScan none (some qk) false)
  | .le => unionEntries (kv.rangeScan none (some qk) true)
  | .inRange => unionEntries (kv.rangeScan (some qk) (some (o.key e)) true)

/-! ## IndexInvertedArray[T] (array.go) -/

structure ArrChange (V : Type) where
  id : Id
  prev : List V
  cur : List V

def vmem (o : Ops V) (v : V) (l : List V) : Bool := l.any fun x => o.veq x v

/-- the diff of array.go: additions in the order of `cur`, then removals (Go: map order) -/
def arrDiff (o : Ops V) (ch : ArrChange V) : List (Change V) :=
  ((ch.cur.filter fun v => !(vmem o v ch.prev)).map fun v => ⟨ch.id, none, some v⟩) ++
  ((ch.prev.filter fun v => !(vmem o v ch.cur)).map fun v => ⟨ch.id, some v, none⟩)

def applyArrBatch (o : Ops V) (kv : KV) (chs : List (ArrChange V)) : KV :=
  applyBatch o kv (chs.flatMap (arrDiff o))

/-- `IndexInvertedArray.Search` (`all` = containsAll, else containsAny); the empty query returns a nil
bitmap in Go (refused by `Validate`) — here the empty set -/
def searchArr (o : Ops V) (kv : KV) (qs : List V) (all : Bool) : IdSet :=
  let res := qs.map fun q => search o kv q q .equals
  if all then interAll res else unionAll res

/-! ## string.go: case folding -/

def fold (lower : Bytes → Bytes) (cs : Bool) (b : Bytes) : Bytes := if cs then b else lower b

def foldChange (f : Bytes → Bytes) (ch : Change Bytes) : Change Bytes := ⟨ch.id, ch.prev.map f, ch.cur.map f⟩
def foldArrChange (f : Bytes → Bytes) (ch : ArrChange Bytes) : ArrChange Bytes := ⟨ch.id, ch.prev.map f, ch.cur.map f⟩

/-- `IndexInvertedString.Search`: `Value` **and** `EndValue` are folded -/
def searchStr (lower : Bytes → Bytes) (cs : Bool) (kv : KV) (v e : Bytes) (op : Op) : IdSet :=
  search strOps kv (fold lower cs v) (fold lower cs e) op

/-- `IndexInvertedArrayString.Search`: every element of `Value` is folded -/
def searchStrArr (lower : Bytes → Bytes) (cs : Bool) (kv : KV) (vs : List Bytes) (all : Bool) : IdSet :=
  searchArr strOps kv (vs.map (fold lower cs)) all

/-! ## documents (msgpack is the identity on documents; `Query(path)` is a path lookup) -/

inductive Val
  | nil
  | bool (b : Bool)
  | str (b : Bytes)
  | int (x : BitVec 64)
  | flt (x : BitVec 64)
  | arr (l : List Val)
  | map (m : List (String × Val))
  deriving Inhabited

def Val.query : Val → List String → Option Val
  | v, [] => some v
  | .map m, k :: rest =>
    match m.find? (fun e => e.1 == k) with
    | some e => e.2.query rest
    | none => none
  | _, _ :: _ => none

/-- `Query(path)` fails (and the batch is rejected) when the path leads through a value that is not a map -/
def Val.pathOk : Val → List String → Bool
  | _, [] => true
  | .map m, k :: rest =>
    match m.find? (fun e => e.1 == k) with
    | some e => e.2.pathOk rest
    | none => true
  | _, _ :: _ => false

/-- `getPropertyFromBytes`: no data, a missing field and a nil field all give nil -/
def getProp (doc : Option Val) (path : List String) : Option Val :=
  match doc with
  | none => none
  | some d =>
    match d.query path with
    | some .nil => none
    | r => r

def castStr : Val → Option Bytes | .str b => some b | _ => none
def castInt : Val → Option (BitVec 64) | .int x => some x | _ => none
def castFlt : Val → Option (BitVec 64) | .flt x => some x | _ => none
/-- `castDataToArray[string]` made total: elements that are not strings are dropped (the real code
rejects the batch; see `PChange.wellTyped`) -/
def castArr : Val → List Bytes | .arr l => l.filterMap castStr | _ => []

/-- the bytes of `"_delete"` (`DELETEVALUE`) -/
def deleteValue : Bytes := [0x5f#8, 0x64#8, 0x65#8, 0x6c#8, 0x65#8, 0x74#8, 0x65#8]
def isDelete : Val → Bool | .str b => b == deleteValue | _ => false

def setKey (m : List (String × Val)) (k : String) (v : Val) : List (String × Val) :=
  if m.any (fun e => e.1 == k) then m.map (fun e => if e.1 == k then (k, v) else e) else m ++ [(k, v)]

/-- the shallow merge of `UpdatePoints` (`"_delete"` removes the top-level key) -/
def mergeDoc (old inc : Val) : Val :=
  match old, inc with
  | .map mo, .map mi =>
    .map (mi.foldl (fun acc e => if isDelete e.2 then acc.filter (fun x => !(x.1 == e.1)) else setKey acc e.1 e.2) mo)
  | _, _ => old

/-! ## the shard, as far as filters see it -/

structure Point where
  id : Id
  uuid : String
  doc : Val

inductive Kind
  | str (cs : Bool) | strArr (cs : Bool) | int | flt
  deriving DecidableEq, Repr

structure Index where
  path : List String
  kind : Kind
  kv : KV

structure St where
  pts : List Point := []
  idxs : List Index := []
  /-- file-backed (bbolt) flavour: `Put` refuses the empty key -/
  bolt : Bool := false

/-- `IndexPointChange` with decoded documents -/
structure PChange where
  id : Id
  prev : Option Val
  cur : Option Val

def docOf (pts : List Point) (id : Id) : Option Val := (pts.find? fun p => p.id == id).map (·.doc)
def idOf (pts : List Point) (u : String) : Option Id := (pts.find? fun p => p.uuid == u).map (·.id)

/-- `getOperation` + `preProcessInverted[T]`: skip when the property is absent on both sides -/
def toChange (cast : Val → Option V) (path : List String) (pc : PChange) : Option (Change V) :=
  match getProp pc.prev path, getProp pc.cur path with
  | none, none => none
  | p, c => some ⟨pc.id, p.bind cast, c.bind cast⟩

/-- `getOperation` + `preProcessInvertedArray[string]` -/
def toArrChange (path : List String) (pc : PChange) : Option (ArrChange Bytes) :=
  match getProp pc.prev path, getProp pc.cur path with
  | none, none => none
  | p, c => some ⟨pc.id, (p.map castArr).getD [], (c.map castArr).getD []⟩

section
variable (lower : Bytes → Bytes)

/-- the changes one index receives from a batch and what its drain function does with them
(`getDrainFn`), up to the final cache (before the flush) -/
def Index.cacheStr (ix : Index) (cs : Bool) (pcs : List PChange) : Cache Bytes :=
  batchCache strOps ix.kv ((pcs.filterMap (toChange castStr ix.path)).map (foldChange (fold lower cs)))
def Index.cacheArr (ix : Index) (cs : Bool) (pcs : List PChange) : Cache Bytes :=
  batchCache strOps ix.kv (((pcs.filterMap (toArrChange ix.path)).map (foldArrChange (fold lower cs))).flatMap (arrDiff strOps))
def Index.cacheInt (ix : Index) (pcs : List PChange) : Cache (BitVec 64) :=
  batchCache intOps ix.kv (pcs.filterMap (toChange castInt ix.path))
def Index.cacheFlt (ix : Index) (pcs : List PChange) : Cache (BitVec 64) :=
  batchCache fltOps ix.kv (pcs.filterMap (toChange castFlt ix.path))

def Index.step (ix : Index) (pcs : List PChange) : Index :=
  { ix with kv :=
    match ix.kind with
    | .str cs => flush strOps ix.kv (ix.cacheStr lower cs pcs)
    | .strArr cs => flush strOps ix.kv (ix.cacheArr lower cs pcs)
    | .int => flush intOps ix.kv (ix.cacheInt pcs)
    | .flt => flush fltOps ix.kv (ix.cacheFlt pcs) }

/-- does the flush of this index hit bbolt's empty-key refusal? -/
def Index.refused (ix : Index) (pcs : List PChange) : Bool :=
  match ix.kind with
  | .str cs => flushRefused strOps (ix.cacheStr lower cs pcs)
  | .strArr cs => flushRefused strOps (ix.cacheArr lower cs pcs)
  | .int => false
  | .flt => false

/-- the type assertions of `preProcessInverted` / `castDataToArray`: a present property must have the
index's type (else the real batch is rejected) -/
def typeOk (k : Kind) : Option Val → Bool
  | none => true
  | some v =>
    match k, v with
    | .str _, .str _ => true
    | .strArr _, .arr l => l.all fun x => (castStr x).isSome
    | .int, .int _ => true
    | .flt, .flt _ => true
    | _, _ => false

def docPathOk (d : Option Val) (path : List String) : Bool :=
  match d with
  | none => true
  | some v => v.pathOk path

def Index.typesOk (ix : Index) (pcs : List PChange) : Bool :=
  pcs.all fun pc => docPathOk pc.prev ix.path && docPathOk pc.cur ix.path &&
    typeOk ix.kind (getProp pc.prev ix.path) && typeOk ix.kind (getProp pc.cur ix.path)

/-! ### write batches -/

inductive WOp
  | insert (ps : List Point)            -- node ids as allocated by the real shard (oracle, DESIGN 3.3)
  | update (us : List (String × Val))   -- uuid, patch
  | delete (us : List String)

/-- `UpdatePoints`, point by point in batch order: unknown uuids are skipped, the merged document is
written at once (a second change to the same point sees the first) -/
def updateAll : List Point → List (String × Val) → List Point × List PChange
  | pts, [] => (pts, [])
  | pts, u :: us =>
    match pts.find? (fun p => p.uuid == u.1) with
    | none => updateAll pts us
    | some p =>
      let d := mergeDoc p.doc u.2
      let r := updateAll (pts.map fun x => if x.id == p.id then { x with doc := d } else x) us
      (r.1, ⟨p.id, some p.doc, some d⟩ :: r.2)

/-- `DeletePoints` (Go iterates the uuid set in map order; distinct points are independent) -/
def deleteAll : List Point → List String → List Point × List PChange
  | pts, [] => (pts, [])
  | pts, u :: us =>
    match pts.find? (fun p => p.uuid == u) with
    | none => deleteAll pts us
    | some p =>
      let r := deleteAll (pts.filter fun x => !(x.id == p.id)) us
      (r.1, ⟨p.id, some p.doc, none⟩ :: r.2)

/-- the new point store and the `IndexPointChange`s of a batch, in order -/
def pointChanges (pts : List Point) : WOp → List Point × List PChange
  | .insert ps => (pts ++ ps, ps.map fun p => ⟨p.id, none, some p.doc⟩)
  | .update us => updateAll pts us
  | .delete us => deleteAll pts us

def St.apply (st : St) (op : WOp) : St :=
  let r := pointChanges st.pts op
  { st with pts := r.1, idxs := st.idxs.map fun ix => ix.step lower r.2 }

def nodupStr : List String → Bool
  | [] => true
  | a :: rest => !(rest.contains a) && nodupStr rest

/-- is the batch accepted by the real shard?  (insert: no repeated / existing uuid; every index: type
assertions hold; bbolt: no posting under the empty key) -/
def St.accepts (st : St) (op : WOp) : Bool :=
  let r := pointChanges st.pts op
  (match op with
   | .insert ps => nodupStr (ps.map (·.uuid)) && ps.all fun p => (idOf st.pts p.uuid).isNone
   | _ => true) &&
  st.idxs.all fun ix => ix.typesOk r.2 && !(st.bolt && ix.refused lower r.2)

/-- a write batch: all or nothing (the rollback itself is C07's concern) -/
def St.write (st : St) (op : WOp) : St := if st.accepts lower op then st.apply lower op else st

/-! ### queries -/

inductive Leaf
  | str (path : List String) (op : Op) (v e : Bytes)
  | strArr (path : List String) (all : Bool) (vs : List Bytes)
  | int (path : List String) (op : Op) (v e : BitVec 64)
  | flt (path : List String) (op : Op) (v e : BitVec 64)
  | idEq (u : String)
  | idAny (us : List String)

mutual
inductive Query
  | leaf (l : Leaf)
  | and (qs : QList)
  | or (qs : QList)
inductive QList
  | nil
  | cons (q : Query) (qs : QList)
end

def St.index (st : St) (path : List String) : Option Index := st.idxs.find? fun ix => ix.path == path

/-- `searchById` -/
def searchIds (pts : List Point) (us : List String) : IdSet := us.filterMap (idOf pts)

/-- the leaf cases of `indexManager.Search`; a property that is not in the schema or whose type does
not match the options is an error in Go (`Leaf.wf`), here the empty set -/
def evalLeaf (st : St) : Leaf → IdSet
  | .str path op v e =>
    match st.index path with
    | some ⟨_, .str cs, kv⟩ => searchStr lower cs kv v e op
    | _ => []
  | .strArr path all vs =>
    match st.index path with
    | some ⟨_, .strArr cs, kv⟩ => searchStrArr lower cs kv vs all
    | _ => []
  | .int path op v e =>
    match st.index path with
    | some ⟨_, .int, kv⟩ => search intOps kv v e op
    | _ => []
  | .flt path op v e =>
    match st.index path with
    | some ⟨_, .flt, kv⟩ => search fltOps kv v e op
    | _ => []
  | .idEq u => searchIds st.pts [u]
  | .idAny us => searchIds st.pts us

mutual
/-- `indexManager.Search`: `_and` = FastAnd, `_or` = FastOr of the sub-results (a single sub-query is
returned as is — the same set) -/
def eval (st : St) : Query → IdSet
  | .leaf l => evalLeaf lower st l
  | .and qs => interAll (evalL st qs)
  | .or qs => unionAll (evalL st qs)
def evalL (st : St) : QList → List IdSet
  | .nil => []
  | .cons q qs => eval st q :: evalL st qs
end

def Leaf.wf (st : St) : Leaf → Bool
  | .str path _ _ _ => (match st.index path with | some ⟨_, .str _, _⟩ => true | _ => false)
  | .strArr path _ vs => (match st.index path with | some ⟨_, .strArr _, _⟩ => true | _ => false) && !vs.isEmpty
  | .int path op _ _ => (match st.index path with | some ⟨_, .int, _⟩ => true | _ => false) && !(op == .startsWith)
  | .flt path op _ _ => (match st.index path with | some ⟨_, .flt, _⟩ => true | _ => false) && !(op == .startsWith)
  | .idEq _ => true
  | .idAny _ => true

mutual
/-- the query is one the real shard answers without an error (and `Validate` accepts its shape) -/
def Query.wf (st : St) : Query → Bool
  | .leaf l => l.wf st
  | .and qs => !(qs matches .nil) && QList.wf st qs
  | .or qs => !(qs matches .nil) && QList.wf st qs
def QList.wf (st : St) : QList → Bool
  | .nil => true
  | .cons q qs => q.wf st && qs.wf st
end

/-! ## specification: which points a query denotes, from the point store alone -/

/-- the (folded) values of the indexed property of a document, per index kind -/
def strVals (cs : Bool) (path : List String) (d : Option Val) : List Bytes :=
  ((getProp d path).bind castStr).toList.map (fold lower cs)
def arrVals (cs : Bool) (path : List String) (d : Option Val) : List Bytes :=
  (((getProp d path).map castArr).getD []).map (fold lower cs)
def intVals (path : List String) (d : Option Val) : List (BitVec 64) := ((getProp d path).bind castInt).toList
def fltVals (path : List String) (d : Option Val) : List (BitVec 64) := ((getProp d path).bind castFlt).toList

/-- the point with node id `id` is live and its property satisfies the leaf predicate -/
def Leaf.sat (st : St) (l : Leaf) (id : Id) : Prop :=
  match l with
  | .str path op v e =>
    ∃ cs kv, st.index path = some ⟨path, .str cs, kv⟩ ∧
      ∃ a ∈ strVals lower cs path (docOf st.pts id), satOp strOps op a (fold lower cs v) (fold lower cs e) = true
  | .strArr path all vs =>
    ∃ cs kv, st.index path = some ⟨path, .strArr cs, kv⟩ ∧
      if all then ∀ q ∈ vs, fold lower cs q ∈ arrVals lower cs path (docOf st.pts id)
      else ∃ q ∈ vs, fold lower cs q ∈ arrVals lower cs path (docOf st.pts id)
  | .int path op v e =>
    ∃ kv, st.index path = some ⟨path, .int, kv⟩ ∧ ∃ a ∈ intVals path (docOf st.pts id), satOp intOps op a v e = true
  | .flt path op v e =>
    ∃ kv, st.index path = some ⟨path, .flt, kv⟩ ∧ ∃ a ∈ fltVals path (docOf st.pts id), satOp fltOps op a v e = true
  | .idEq u => idOf st.pts u = some id
  | .idAny us => ∃ u ∈ us, idOf st.pts u = some id

mutual
def Query.sat (st : St) : Query → Id → Prop
  | .leaf l, id => l.sat lower st id
  | .and qs, id => QList.satAll st qs id
  | .or qs, id => QList.satAny st qs id
def QList.satAll (st : St) : QList → Id → Prop
  | .nil, _ => True
  | .cons q qs, id => q.sat st id ∧ qs.satAll st id
def QList.satAny (st : St) : QList → Id → Prop
  | .nil, _ => False
  | .cons q qs, id => q.sat st id ∨ qs.satAny st id
end

end

end Sema.C02
