/-
C02 - T2 pins: the syntactic shape of the code the model transcribes, against `Generated/FactsC02.lean` (rewritten from the
working tree by tools/facts_c02 on every run).

These `example`s used to stand at the end of Lemmas.lean.  They live in a module of their own so that ONLY the check of C02
(props/C02.py lists this module) stops when one of them breaks: Lemmas.lean is imported - through C02.Props - by the
composition and by C07's ObserveProps, whose theorems do not depend on these pins (an `example` cannot be used by anything) -
notes/CROSSALARM.md.
-/
import SemaModel.Generated.FactsC02
namespace Sema.C02

/-! ## T2 pins: the syntactic shape of the code the model transcribes

`Generated/FactsC02.lean` is rewritten from the working tree on every run (tools/facts_c02).  Each table
is pinned here next to the model definition that transcribes it; an edit of the operator table of
`IndexInverted.Search`, of the arms of `processChange` / `getOperation`, of the array combinators or of
what string.go lower-cases makes this file fail to build, i.e. the proofs no longer apply until the
model (and this pin) are revisited. -/

/-- `Model.search` -/
example : Gen.FactsC02.searchTable = [
  "models.OperatorEquals: get(query); return item.set",
  "models.OperatorNotEquals: forEach; skipIf:bytes.Equal(k, queryKey)",
  "models.OperatorStartsWith: prefixScan(queryKey)",
  "models.OperatorGreaterThan: start=queryKey; inclusive=false",
  "models.OperatorGreaterOrEq: start=queryKey; inclusive=true",
  "models.OperatorLessThan: end=queryKey; inclusive=false",
  "models.OperatorLessOrEq: end=queryKey; inclusive=true",
  "models.OperatorInRange: start=queryKey; endk=toByteSortable(endQuery); end=endk; inclusive=true"] := rfl

/-- `Model.processChange` -/
example : Gen.FactsC02.processChangeArms = [
  "change.PreviousData == nil && change.CurrentData == nil => ",
  "change.PreviousData == nil && change.CurrentData != nil => item(*change.CurrentData); set.set.CheckedAdd",
  "change.PreviousData != nil && change.CurrentData == nil => item(*change.PreviousData); set.set.CheckedRemove",
  "*change.PreviousData != *change.CurrentData => item(*change.PreviousData); prevSet.set.CheckedRemove; item(*change.CurrentData); currSet.set.CheckedAdd",
  "*change.PreviousData == *change.CurrentData => "] := rfl

/-- `Model.toChange` / `Model.toArrChange` (skip exactly when both sides are absent) -/
example : Gen.FactsC02.getOperationArms = [
  "prevProp == nil && currentProp != nil => op=opInsert",
  "prevProp != nil && currentProp != nil => op=opUpdate",
  "prevProp != nil && currentProp == nil => op=opDelete",
  "prevProp == nil && currentProp == nil => op=opSkip",
  "default"] := rfl

/-- `Model.searchStr`: Value and EndValue are both folded -/
example : Gen.FactsC02.stringSearch = [
  "if !inv.params.CaseSensitive",
  "query<-query",
  "options.EndValue<-options.EndValue",
  "=> inv.inner.Search(query, options.EndValue, options.Operator)"] := rfl

/-- `Model.foldChange` -/
example : Gen.FactsC02.stringWrite = [
  "if !inv.params.CaseSensitive",
  "*change.CurrentData<-*change.CurrentData",
  "*change.PreviousData<-*change.PreviousData",
  "=> inv.inner.InsertUpdateDelete(ctx, out)"] := rfl

/-- `Model.searchStrArr` -/
example : Gen.FactsC02.stringArraySearch = [
  "if !inv.params.CaseSensitive",
  "query[i]<-query[i]",
  "=> inv.inner.Search(query, options.Operator)"] := rfl

/-- `Model.foldArrChange` -/
example : Gen.FactsC02.stringArrayWrite = [
  "if !inv.params.CaseSensitive",
  "change.CurrentData[i]<-change.CurrentData[i]",
  "change.PreviousData[i]<-change.PreviousData[i]",
  "=> inv.inner.InsertUpdateDelete(ctx, out)"] := rfl

/-- `Model.searchArr` -/
example : Gen.FactsC02.arraySearch = [
  "each: inv.inner.Search(q, q, models.OperatorEquals)",
  "models.OperatorContainsAll => finalSet = roaring64.FastAnd(resList...)",
  "models.OperatorContainsAny => finalSet = roaring64.FastOr(resList...)"] := rfl

end Sema.C02
