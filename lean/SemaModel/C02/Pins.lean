/-
C02 - T2 pins: the syntactic shape of the code the model transcribes, against `Generated/FactsC02.lean` (rewritten from the
working tree by tools/facts_c02 on every run).

These `example`s used to stand at the end of Lemmas.lean.  They live in a module of their own so that ONLY the check of C02
(props/C02.py lists this module) stops when one of them breaks: Lemmas.lean is imported - through C02.Props - by the
composition and by C07's ObserveProps, whose theorems do not depend on these pins (an `example` cannot be used by anything) -
notes/CROSSALARM.md.
-/
import SemaModel.Generated.FactsC02
namespace Sema.C02

/-! ## T2 pins: the syntactic shape of the code the model transcribes

`Generated/FactsC02.lean` is rewritten from the working tree on every run (tools/facts_c02).  Each table
is pinned here next to the model definition that transcribes it; an edit of the operator table of
`IndexInverted.Search`, of the arms of `processChange` / `getOperation`, of the array combinators or of
what string.go lower-cases makes this file fail to build, i.e. the proofs no longer apply until the
model (and this pin) are revisited. -/

/-- `Model.search` -/
example : Gen.FactsC02.searchTable = [
  "models.OperatorEquals: get(query); return v11.set",
  "models.OperatorGreaterOrEq: start=queryKey; inclusive=true",
  "models.OperatorGreaterThan: start=queryKey; inclusive=false",
  "models.OperatorInRange: start=queryKey; endk=toByteSortable(endQuery); end=endk; inclusive=true",
  "models.OperatorLessOrEq: end=queryKey; inclusive=true",
  "models.OperatorLessThan: end=queryKey; inclusive=false",
  "models.OperatorNotEquals: forEach; skipIf:bytes.Equal(k, queryKey)",
  "models.OperatorStartsWith: prefixScan(queryKey)"
] := rfl

/-- `Model.processChange` -/
example : Gen.FactsC02.processChangeArms = [
  "change.PreviousData == nil && change.CurrentData == nil => ",
  "change.PreviousData == nil && change.CurrentData != nil => item(*change.CurrentData); v3.set.CheckedAdd",
  "change.PreviousData != nil && change.CurrentData == nil => item(*change.PreviousData); v5.set.CheckedRemove",
  "*change.PreviousData != *change.CurrentData => item(*change.PreviousData); v7.set.CheckedRemove; item(*change.CurrentData); v9.set.CheckedAdd",
  "*change.PreviousData == *change.CurrentData => "
] := rfl

/-- `Model.toChange` / `Model.toArrChange` (skip exactly when both sides are absent) -/
example : Gen.FactsC02.getOperationArms = [
  "prevProp == nil && currentProp != nil => op=opInsert",
  "prevProp != nil && currentProp != nil => op=opUpdate",
  "prevProp != nil && currentProp == nil => op=opDelete",
  "prevProp == nil && currentProp == nil => op=opSkip",
  "default"] := rfl

/-- `Model.searchStr`: Value and EndValue are both folded -/
example : Gen.FactsC02.stringSearch = [
  "if !inv.params.CaseSensitive",
  "v3<-v3",
  "v2.EndValue<-v2.EndValue",
  "=> inv.inner.Search(v3, v2.EndValue, v2.Operator)"
] := rfl

/-- `Model.foldChange` -/
example : Gen.FactsC02.stringWrite = [
  "if !inv.params.CaseSensitive",
  "*a1.CurrentData<-*a1.CurrentData",
  "*a1.PreviousData<-*a1.PreviousData",
  "=> inv.inner.InsertUpdateDelete(v2, v4)"
] := rfl

/-- `Model.searchStrArr` -/
example : Gen.FactsC02.stringArraySearch = [
  "if !inv.params.CaseSensitive",
  "v3[v4]<-v3[v4]",
  "=> inv.inner.Search(v3, v2.Operator)"
] := rfl

/-- `Model.foldArrChange` -/
example : Gen.FactsC02.stringArrayWrite = [
  "if !inv.params.CaseSensitive",
  "a1.CurrentData[a2]<-a1.CurrentData[a2]",
  "a1.PreviousData[a3]<-a1.PreviousData[a3]",
  "=> inv.inner.InsertUpdateDelete(v2, v4)"
] := rfl

/-- `Model.searchArr` -/
example : Gen.FactsC02.arraySearch = [
  "each: inv.inner.Search(v6, v6, models.OperatorEquals)",
  "models.OperatorContainsAll => v9 = roaring64.FastAnd(v4...)",
  "models.OperatorContainsAny => v9 = roaring64.FastOr(v4...)"
] := rfl

end Sema.C02
