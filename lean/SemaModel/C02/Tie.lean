/-
C02 — the tie between the hand-written dispatch logic of `C02/Model.lean` (`toChange`, `toArrChange`:
"`getOperation` + `preProcessInverted[T]` / `preProcessInvertedArray[string]`") and the source.
`SemaModel/Generated/IndexOp.lean` is produced from `shard/index/utils.go getOperation` by
`tools/go2lean` on every check run.  `getPropertyFromBytes` (msgpack `Decoder.Query`) stays an abstract
parameter `gp : Decoder → Bytes → String → Except String (Go.Any Val)`; the `*msgpack.Decoder` is a
value of an abstract type; `fmt`'s `%v` of an interface value is the abstract `fmtAny`.  The function has
named results: the generated definition returns the plain tuple
`(prevProp, currentProp, op, err : Option String)` (nothing is dropped on an error).

Representation maps: a dynamic value is `ofOpt : Option Val → Go.Any Val` (`none ↦ nil`, `some v ↦ val v`;
the model's `getProp` already identifies "no data", "field missing" and "field is nil" as `none`, exactly
the three `return nil, nil` of `getPropertyFromBytes`); `toOpt` is its left inverse.  What `Dispatch`
does with the result (`if op == opSkip { continue }`, then `decodedPointChange{nodeId, prev, current}`
into `preProcessInverted` = "a non-nil value is type-asserted") is written in the statements below —
`Dispatch` itself (channels, `select`, goroutines) is outside the translatable subset.
`SemaModel/Compose/Model.lean` has no transcription of its own: it calls `C02.Index.step`, i.e.
`toChange` / `toArrChange`.
-/
import SemaModel.C02.Model
import SemaModel.Generated.IndexOp
import SemaModel.Generated.InvertedSearch
namespace Sema.C02
open Sema
open Sema.Gen.IndexOp

def ofOpt : Option Val → Go.Any Val
  | none => .nil
  | some v => .val v

def toOpt : Go.Any Val → Option Val
  | .val v => some v
  | _ => none

theorem toOpt_ofOpt (o : Option Val) : toOpt (ofOpt o) = o := by cases o <;> rfl

/-- the four arms of `getOperation`'s switch, by "previous is nil", "current is nil" -/
def opOf (prevNil curNil : Bool) : String :=
  match prevNil, curNil with
  | true, false => "insert"
  | false, false => "update"
  | false, true => "delete"
  | true, true => "skip"

section
variable {Decoder : Type} (fmtAny : Go.Any Val → String) (gp : Decoder → Bytes → String → Except String (Go.Any Val))
  (dec : Decoder) (name : String) (pd cd : Bytes)

/-- both look-ups succeed: the values are handed on unchanged, `op` is the arm, `err` is nil — in particular the
`default` arm ("unexpected previous and current values") is unreachable -/
theorem C02_tie_getOperation (a b : Go.Any Val) (hp : gp dec pd name = .ok a) (hc : gp dec cd name = .ok b) :
    getOperation fmtAny gp dec name pd cd = (a, b, opOf a.isNil b.isNil, none) := by
  unfold getOperation
  simp only [hp, hc]
  cases a <;> cases b <;> simp [Go.Any.isNil, opOf]

/-- a failing look-up of the previous value: the error is wrapped, nothing else is set, the current
data is not looked at -/
theorem C02_tie_getOperation_prevErr (e : String) (hp : gp dec pd name = .error e) :
    getOperation fmtAny gp dec name pd cd =
      (.nil, .nil, "", some ("could not get previous property " ++ name ++ ": " ++ e)) := by
  unfold getOperation
  simp [hp, Go.fmtErr]

theorem C02_tie_getOperation_curErr (a : Go.Any Val) (e : String) (hp : gp dec pd name = .ok a)
    (hc : gp dec cd name = .error e) :
    getOperation fmtAny gp dec name pd cd =
      (a, .nil, "", some ("could not get new property " ++ name ++ ": " ++ e)) := by
  unfold getOperation
  simp [hp, hc, Go.fmtErr]

/-- `err == nil` exactly when both look-ups succeed -/
theorem C02_tie_getOperation_ok :
    (getOperation fmtAny gp dec name pd cd).2.2.2 = none ↔
      (∃ a, gp dec pd name = .ok a) ∧ (∃ b, gp dec cd name = .ok b) := by
  cases hp : gp dec pd name with
  | error e => simp [C02_tie_getOperation_prevErr fmtAny gp dec name pd cd e hp]
  | ok a =>
    cases hc : gp dec cd name with
    | error e => simp [C02_tie_getOperation_curErr fmtAny gp dec name pd cd a e hp hc]
    | ok b => simp [C02_tie_getOperation fmtAny gp dec name pd cd a b hp hc]

variable {V : Type} (cast : Val → Option V) (path : List String) (pc : PChange)

/-- **`toChange` = `getOperation`, then `Dispatch`'s skip test, then `preProcessInverted[T]`**, whenever the two
look-ups of the real function return what the model's `getProp` says about the two documents -/
theorem C02_tie_toChange
    (hp : gp dec pd name = .ok (ofOpt (getProp pc.prev path))) (hc : gp dec cd name = .ok (ofOpt (getProp pc.cur path))) :
    toChange cast path pc =
      (let r := getOperation fmtAny gp dec name pd cd
       if r.2.2.1 == "skip" then none
       else some ⟨pc.id, (toOpt r.1).bind cast, (toOpt r.2.1).bind cast⟩) := by
  rw [C02_tie_getOperation fmtAny gp dec name pd cd _ _ hp hc]
  unfold toChange
  cases h1 : getProp pc.prev path <;> cases h2 : getProp pc.cur path <;>
    simp [ofOpt, toOpt, Go.Any.isNil, opOf]

/-- **`toArrChange` = `getOperation`, skip test, `preProcessInvertedArray[string]`** (`castDataToArray` of nil is the
nil slice) -/
theorem C02_tie_toArrChange
    (hp : gp dec pd name = .ok (ofOpt (getProp pc.prev path))) (hc : gp dec cd name = .ok (ofOpt (getProp pc.cur path))) :
    toArrChange path pc =
      (let r := getOperation fmtAny gp dec name pd cd
       if r.2.2.1 == "skip" then none
       else some ⟨pc.id, ((toOpt r.1).map castArr).getD [], ((toOpt r.2.1).map castArr).getD []⟩) := by
  rw [C02_tie_getOperation fmtAny gp dec name pd cd _ _ hp hc]
  unfold toArrChange
  cases h1 : getProp pc.prev path <;> cases h2 : getProp pc.cur path <;>
    simp [ofOpt, toOpt, Go.Any.isNil, opOf]

end

/-- the hypotheses of the tie are satisfiable on a non-trivial change: a decoder that reads one fixed
document, an update of its field -/
example :
    let gp : Unit → Bytes → String → Except String (Go.Any Val) := fun _ d _ =>
      .ok (ofOpt (getProp (if d.isEmpty then none else some (.map [("a", .int (BitVec.ofNat 64 d.length))])) ["a"]))
    getOperation (fun _ => "") gp () "a" [1#8] [1#8, 2#8] =
      (.val (.int 1#64), .val (.int 2#64), "update", none) := by
  simp [getOperation, getProp, Val.query, ofOpt, Go.Any.isNil, List.find?]

/-! ## the operator dispatch of `IndexInverted[T].Search`

`SemaModel/Generated/InvertedSearch.lean` holds one definition per *arm* of `switch operator { … }` for the five
range operators (fragments selected by their case label): what the arm does to the variables
`start`, `end`, `inclusive` that the common tail hands to `bucket.RangeScan(start, end, inclusive, …)`.
`T` is a type parameter, `toByteSortable` (generic, type switch) and the `%v` text of a `T` are abstract
parameters; here `toByteSortable v = .ok (o.key v)` (the model's key function is total; for the three
instances it *is* the generated `toByteSortable_*`).  `var start, end []byte` are nil before the switch: a
variable an arm does not assign stays nil, which is the model's `none` bound — visible below as "the input
value comes out unchanged, whatever it is".

Not translated (blocking constructs, see notes/T1ext.md §7): the arms `equals` / `notEquals` / `startsWith`
and the common tail (callbacks that assign the captured `sets`; `*roaring64.Bitmap`), the `switch` header
itself (which label belongs to which operator string: `tools/facts_c02` pins that table), `defer`;
`processChange` (writes through `*setCacheItem` pointers taken from a map: no value semantics). -/

section
open Sema.Gen.InvertedSearch
variable {V : Type}

/-- **which bounds and which inclusivity each operator scans with** -/
theorem C02_tie_search_arms (o : Ops V) (fmtT : V → String) (q e : V) (s0 e0 : Bytes) (i0 : Bool) :
    let tbs : V → Except String Bytes := fun v => .ok (o.key v)
    Search_gt tbs fmtT (o.key q) e s0 e0 i0 = .ok (o.key q, e0, false) ∧
    Search_ge tbs fmtT (o.key q) e s0 e0 i0 = .ok (o.key q, e0, true) ∧
    Search_lt tbs fmtT (o.key q) e s0 e0 i0 = .ok (s0, o.key q, false) ∧
    Search_le tbs fmtT (o.key q) e s0 e0 i0 = .ok (s0, o.key q, true) ∧
    Search_inRange tbs fmtT (o.key q) e s0 e0 i0 = .ok (o.key q, o.key e, true) :=
  ⟨rfl, rfl, rfl, rfl, rfl⟩

/-- the model's `search`, operator by operator, scans with exactly the values the arms produce (a bound the arm
leaves alone — nil in Go — is `none`) -/
theorem C02_tie_search_range (o : Ops V) (fmtT : V → String) (kv : KV) (q e : V) :
    let tbs : V → Except String Bytes := fun v => .ok (o.key v)
    let scan (r : Except String (Bytes × Bytes × Bool)) (hasStart hasEnd : Bool) : IdSet :=
      match r with
      | .ok (s, e', incl) => unionEntries (kv.rangeScan (if hasStart then some s else none) (if hasEnd then some e' else none) incl)
      | .error _ => []
    search o kv q e .gt = scan (Search_gt tbs fmtT (o.key q) e [] [] false) true false ∧
    search o kv q e .ge = scan (Search_ge tbs fmtT (o.key q) e [] [] false) true false ∧
    search o kv q e .lt = scan (Search_lt tbs fmtT (o.key q) e [] [] false) false true ∧
    search o kv q e .le = scan (Search_le tbs fmtT (o.key q) e [] [] false) false true ∧
    search o kv q e .inRange = scan (Search_inRange tbs fmtT (o.key q) e [] [] false) true true :=
  ⟨rfl, rfl, rfl, rfl, rfl⟩

/-- `inRange` with an end value that has no key: the error of the real function, nothing scanned -/
theorem C02_tie_search_inRange_err (tbs : V → Except String Bytes) (fmtT : V → String) (qk : Bytes) (e : V) (s0 e0 : Bytes)
    (i0 : Bool) (msg : String) (h : tbs e = .error msg) :
    Search_inRange tbs fmtT qk e s0 e0 i0 = .error ("error converting value " ++ fmtT e ++ " to search: " ++ msg) := by
  simp [Search_inRange, h]

end

end Sema.C02
