/-
Helper lemmas for C02: posting sets and their byte encoding, the write cache of IndexInverted
(coherence with the bucket, flush), the relational meaning of a batch of changes, the generic search
lemma.  Core-only.
-/
import SemaModel.C02.Model
import SemaModel.Base.KVLemmas
import SemaModel.Base.BytesLemmas
import SemaModel.C19.Props
namespace Sema.C02
open Sema

/-! ## posting sets -/

theorem decSet_encSet (s : IdSet) : decSet (encSet s) = s := by
  induction s with
  | nil => rfl
  | cons x xs ih =>
    have h : encSet (x :: xs) = byteAt x 0 :: byteAt x 1 :: byteAt x 2 :: byteAt x 3 :: byteAt x 4 ::
        byteAt x 5 :: byteAt x 6 :: byteAt x 7 :: encSet xs := by
      simp [encSet, le64]
    rw [h, decSet, ih]
    congr 1
    exact ofLE64_le64 x

theorem mem_setAdd (id x : Id) (s : IdSet) : x ∈ (setAdd id s).1 ↔ x ∈ s ∨ x = id := by
  unfold setAdd
  split
  · rename_i h
    have : id ∈ s := by simpa using h
    constructor
    · exact Or.inl
    · rintro (h | rfl)
      · exact h
      · exact this
  · simp

theorem setAdd_unchanged (id : Id) (s : IdSet) (h : (setAdd id s).2 = false) : (setAdd id s).1 = s := by
  unfold setAdd at *
  split <;> simp_all

theorem mem_setRemove (id x : Id) (s : IdSet) : x ∈ (setRemove id s).1 ↔ x ∈ s ∧ x ≠ id := by
  unfold setRemove
  split
  · simp
  · rename_i h
    have hn : id ∉ s := by simpa using h
    constructor
    · intro hx; exact ⟨hx, fun he => hn (he ▸ hx)⟩
    · exact fun h => h.1

theorem setRemove_unchanged (id : Id) (s : IdSet) (h : (setRemove id s).2 = false) : (setRemove id s).1 = s := by
  unfold setRemove at *
  split <;> simp_all

theorem mem_unionAll (l : List IdSet) (x : Id) : x ∈ unionAll l ↔ ∃ s ∈ l, x ∈ s := by
  simp [unionAll]

theorem mem_interAll_cons (s : IdSet) (rest : List IdSet) (x : Id) :
    x ∈ interAll (s :: rest) ↔ x ∈ s ∧ ∀ t ∈ rest, x ∈ t := by
  simp [interAll]

theorem mem_interAll (l : List IdSet) (hl : l ≠ []) (x : Id) : x ∈ interAll l ↔ ∀ t ∈ l, x ∈ t := by
  cases l with
  | nil => exact absurd rfl hl
  | cons s rest => simp [mem_interAll_cons]

theorem mem_unionEntries (l : List (Bytes × Bytes)) (x : Id) :
    x ∈ unionEntries l ↔ ∃ e ∈ l, x ∈ decSet e.2 := by
  simp [unionEntries]

/-! ## postings of a bucket -/

def NoEmpty (kv : KV) : Prop := ∀ k b, kv.get k = some b → decSet b ≠ []

theorem post_put_same (kv : KV) (k : Bytes) (s : IdSet) : post (kv.put k (encSet s)) k = s := by
  simp [post, KV.get_put_same, decSet_encSet]

theorem post_put_other (kv : KV) (k b k' : Bytes) (h : k' ≠ k) : post (kv.put k b) k' = post kv k' := by
  simp [post, KV.get_put_other kv k b k' h]

theorem post_delete_same (kv : KV) (k : Bytes) : post (kv.delete k) k = [] := by
  simp [post, KV.get_delete_same]

theorem post_delete_other (kv : KV) (k k' : Bytes) (h : k' ≠ k) : post (kv.delete k) k' = post kv k' := by
  simp [post, KV.get_delete_other kv k k' h]

theorem post_empty (k : Bytes) : post KV.empty k = [] := rfl

/-- the union over a filtered scan of a sorted bucket, in terms of postings -/
theorem mem_unionEntries_filter {kv : KV} (hs : KV.Sorted kv.entries) (P : Bytes → Bool) (x : Id) :
    x ∈ unionEntries (kv.entries.filter fun e => P e.1) ↔ ∃ k, P k = true ∧ x ∈ post kv k := by
  rw [mem_unionEntries]
  constructor
  · rintro ⟨e, he, hx⟩
    obtain ⟨hm, hp⟩ := List.mem_filter.1 he
    refine ⟨e.1, hp, ?_⟩
    have : kv.get e.1 = some e.2 := (KV.mem_iff_get hs e.1 e.2).1 hm
    simp [post, this, hx]
  · rintro ⟨k, hp, hx⟩
    unfold post at hx
    cases hg : kv.get k with
    | none => simp [hg] at hx
    | some b =>
      simp only [hg] at hx
      exact ⟨(k, b), List.mem_filter.2 ⟨(KV.mem_iff_get hs k b).2 hg, hp⟩, hx⟩

/-! ## value types: what the theorems need of `Ops` -/

structure Lawful (o : Ops V) (valid : V → Prop) : Prop where
  /-- Go's `==` (and the equality of the `setCache` map) is equality of keys -/
  veq_iff : ∀ a b, valid a → valid b → (o.veq a b = true ↔ o.key a = o.key b)
  /-- the byte order of the keys is the order of the values -/
  lt_iff : ∀ a b, valid a → valid b → lexLt (o.key a) (o.key b) = o.lt a b
  le_iff : ∀ a b, valid a → valid b → o.le a b = !(o.lt b a)
  pre_iff : ∀ q a, valid q → valid a → o.pre q a = (o.key q).isPrefixOf (o.key a)

variable {V : Type} {o : Ops V} {valid : V → Prop}

theorem Lawful.veq_refl (law : Lawful o valid) {a : V} (ha : valid a) : o.veq a a = true :=
  (law.veq_iff a a ha ha).2 rfl

/-! ## the write cache -/

/-- the posting the index *will* hold under `k` once the cache is flushed -/
def eff (o : Ops V) (kv : KV) (c : Cache V) (k : Bytes) : IdSet :=
  match c.find? (fun e => o.key e.v == k) with
  | some e => e.set
  | none => post kv k

structure CacheWF (o : Ops V) (valid : V → Prop) (kv : KV) (c : Cache V) : Prop where
  valid : ∀ e ∈ c, valid e.v
  nodup : c.Pairwise fun a b => o.key a.v ≠ o.key b.v
  clean : ∀ e ∈ c, e.dirty = false → e.set = post kv (o.key e.v)

theorem CacheWF.nil (kv : KV) : CacheWF o valid kv [] :=
  ⟨by simp, List.Pairwise.nil, by simp⟩

theorem CacheWF.tail {kv : KV} {e : Item V} {c : Cache V} (h : CacheWF o valid kv (e :: c)) : CacheWF o valid kv c :=
  ⟨fun x hx => h.valid x (List.mem_cons_of_mem _ hx), (List.pairwise_cons.1 h.nodup).2,
   fun x hx => h.clean x (List.mem_cons_of_mem _ hx)⟩

theorem has_iff (law : Lawful o valid) {kv : KV} {c : Cache V} (wf : CacheWF o valid kv c) {v : V} (hv : valid v) :
    c.has o v = true ↔ ∃ e ∈ c, o.key e.v = o.key v := by
  simp only [Cache.has, List.any_eq_true]
  constructor
  · rintro ⟨e, he, h⟩; exact ⟨e, he, (law.veq_iff _ _ (wf.valid e he) hv).1 h⟩
  · rintro ⟨e, he, h⟩; exact ⟨e, he, (law.veq_iff _ _ (wf.valid e he) hv).2 h⟩

theorem eff_cons (kv : KV) (e : Item V) (c : Cache V) (k : Bytes) :
    eff o kv (e :: c) k = if o.key e.v = k then e.set else eff o kv c k := by
  unfold eff
  by_cases h : o.key e.v = k
  · rw [List.find?_cons_of_pos (by simpa using h)]; simp [h]
  · rw [List.find?_cons_of_neg (by simpa using h)]; simp [h]

theorem eff_nil (kv : KV) (k : Bytes) : eff o kv ([] : Cache V) k = post kv k := rfl

theorem eff_of_no_key {kv : KV} {c : Cache V} {k : Bytes} (h : ∀ e ∈ c, o.key e.v ≠ k) : eff o kv c k = post kv k := by
  induction c with
  | nil => rfl
  | cons e c ih =>
    rw [eff_cons, if_neg (h e (List.mem_cons_self ..))]
    exact ih fun x hx => h x (List.mem_cons_of_mem _ hx)

theorem eff_append_new {kv : KV} {c : Cache V} {v : V} (h : ∀ e ∈ c, o.key e.v ≠ o.key v) (k : Bytes) :
    eff o kv (c ++ [⟨v, post kv (o.key v), false⟩]) k = eff o kv c k := by
  induction c with
  | nil =>
    simp only [List.nil_append, eff_cons, eff_nil]
    split
    · rename_i hk; rw [hk]
    · rfl
  | cons e c ih =>
    simp only [List.cons_append, eff_cons]
    split
    · rfl
    · exact ih fun x hx => h x (List.mem_cons_of_mem _ hx)

theorem ensure_wf (law : Lawful o valid) {kv : KV} {c : Cache V} (wf : CacheWF o valid kv c) {v : V} (hv : valid v) :
    CacheWF o valid kv (c.ensure o kv v) := by
  unfold Cache.ensure
  split
  · exact wf
  · rename_i hn
    have hno : ∀ e ∈ c, o.key e.v ≠ o.key v := by
      intro e he hk
      exact hn ((has_iff law wf hv).2 ⟨e, he, hk⟩)
    refine ⟨?_, ?_, ?_⟩
    · intro e he
      rcases List.mem_append.1 he with he | he
      · exact wf.valid e he
      · simp only [List.mem_singleton] at he; subst he; exact hv
    · rw [List.pairwise_append]
      refine ⟨wf.nodup, List.pairwise_singleton _ _, ?_⟩
      intro a ha b hb
      simp only [List.mem_singleton] at hb; subst hb
      exact hno a ha
    · intro e he hd
      rcases List.mem_append.1 he with he | he
      · exact wf.clean e he hd
      · simp only [List.mem_singleton] at he; subst he; rfl

theorem eff_ensure (law : Lawful o valid) {kv : KV} {c : Cache V} (wf : CacheWF o valid kv c) {v : V} (hv : valid v)
    (k : Bytes) : eff o kv (c.ensure o kv v) k = eff o kv c k := by
  unfold Cache.ensure
  split
  · rfl
  · rename_i hn
    apply eff_append_new
    intro e he hk
    exact hn ((has_iff law wf hv).2 ⟨e, he, hk⟩)

theorem ensure_has (law : Lawful o valid) {kv : KV} {c : Cache V} (wf : CacheWF o valid kv c) {v : V} (hv : valid v) :
    ∃ e ∈ c.ensure o kv v, o.key e.v = o.key v := by
  unfold Cache.ensure
  split
  · rename_i h; exact (has_iff law wf hv).1 h
  · exact ⟨⟨v, post kv (o.key v), false⟩, by simp, rfl⟩

/-- updating the item of `v` changes the effective posting under `key v` only -/
theorem update_spec (law : Lawful o valid) {kv : KV} (f : IdSet → IdSet × Bool)
    (hf : ∀ s, (f s).2 = false → (f s).1 = s) {v : V} (hv : valid v) :
    ∀ {c : Cache V}, CacheWF o valid kv c → (∃ e ∈ c, o.key e.v = o.key v) →
      CacheWF o valid kv (Cache.update o v f c) ∧
      ∀ k, eff o kv (Cache.update o v f c) k = if k = o.key v then (f (eff o kv c k)).1 else eff o kv c k := by
  intro c
  induction c with
  | nil => intro _ h; obtain ⟨e, he, _⟩ := h; simp at he
  | cons e c ih =>
    intro wf hex
    have hve := wf.valid e (List.mem_cons_self ..)
    have ⟨hec, hcc⟩ := List.pairwise_cons.1 wf.nodup
    unfold Cache.update
    by_cases hq : o.veq e.v v = true
    · have hk : o.key e.v = o.key v := (law.veq_iff _ _ hve hv).1 hq
      rw [if_pos hq]
      refine ⟨⟨?_, ?_, ?_⟩, ?_⟩
      · intro x hx
        rcases List.mem_cons.1 hx with rfl | hx
        · exact hve
        · exact wf.valid x (List.mem_cons_of_mem _ hx)
      · exact List.pairwise_cons.2 ⟨hec, hcc⟩
      · intro x hx hd
        rcases List.mem_cons.1 hx with rfl | hx
        · simp only [Bool.or_eq_false_iff] at hd
          show (f e.set).1 = post kv (o.key e.v)
          rw [hf _ hd.1]
          exact wf.clean e (List.mem_cons_self ..) hd.2
        · exact wf.clean x (List.mem_cons_of_mem _ hx) hd
      · intro k
        rw [eff_cons, eff_cons]
        by_cases hkk : k = o.key v
        · subst hkk; simp [hk]
        · have : o.key e.v ≠ k := by rw [hk]; exact Ne.symm hkk
          simp [this, hkk]
    · rw [if_neg hq]
      have hk : o.key e.v ≠ o.key v := fun h => hq ((law.veq_iff _ _ hve hv).2 h)
      have hex' : ∃ x ∈ c, o.key x.v = o.key v := by
        obtain ⟨x, hx, hxk⟩ := hex
        rcases List.mem_cons.1 hx with rfl | hx
        · exact absurd hxk hk
        · exact ⟨x, hx, hxk⟩
      obtain ⟨wf', heff⟩ := ih wf.tail hex'
      have hkeys : ∀ x ∈ Cache.update o v f c, ∃ y ∈ c, o.key x.v = o.key y.v := by
        clear ih heff wf' hex hex' hec hcc wf
        induction c with
        | nil => intro x hx; simp [Cache.update] at hx
        | cons y c ih2 =>
          intro x hx
          unfold Cache.update at hx
          split at hx
          · rcases List.mem_cons.1 hx with rfl | hx
            · exact ⟨y, List.mem_cons_self .., rfl⟩
            · exact ⟨x, List.mem_cons_of_mem _ hx, rfl⟩
          · rcases List.mem_cons.1 hx with rfl | hx
            · exact ⟨x, List.mem_cons_self .., rfl⟩
            · obtain ⟨z, hz, hzk⟩ := ih2 x hx
              exact ⟨z, List.mem_cons_of_mem _ hz, hzk⟩
      refine ⟨⟨?_, ?_, ?_⟩, ?_⟩
      · intro x hx
        rcases List.mem_cons.1 hx with rfl | hx
        · exact hve
        · exact wf'.valid x hx
      · refine List.pairwise_cons.2 ⟨?_, wf'.nodup⟩
        intro x hx
        obtain ⟨y, hy, hyk⟩ := hkeys x hx
        rw [hyk]; exact hec y hy
      · intro x hx hd
        rcases List.mem_cons.1 hx with rfl | hx
        · exact wf.clean x (List.mem_cons_self ..) hd
        · exact wf'.clean x hx hd
      · intro k
        rw [eff_cons, eff_cons, heff k]
        by_cases hek : o.key e.v = k
        · have : k ≠ o.key v := by rw [← hek]; exact hk
          simp [hek, this]
        · simp [hek]

/-! ## primitives: add / remove one id under one value -/

def Prim.val : Prim V → V
  | .add _ v => v
  | .rem _ v => v

/-- the meaning of a primitive on the posting relation `R i k` ("id `i` is filed under key `k`") -/
def applyPrimR (o : Ops V) (R : Id → Bytes → Prop) : Prim V → Id → Bytes → Prop
  | .add id v => fun i k => R i k ∨ (i = id ∧ k = o.key v)
  | .rem id v => fun i k => R i k ∧ ¬(i = id ∧ k = o.key v)

theorem applyPrimR_congr {R R' : Id → Bytes → Prop} (h : ∀ i k, R i k ↔ R' i k) (p : Prim V) (i : Id) (k : Bytes) :
    applyPrimR o R p i k ↔ applyPrimR o R' p i k := by
  cases p <;> simp [applyPrimR, h]

theorem foldl_applyPrimR_congr {R R' : Id → Bytes → Prop} (h : ∀ i k, R i k ↔ R' i k) (ps : List (Prim V)) (i : Id) (k : Bytes) :
    ps.foldl (applyPrimR o) R i k ↔ ps.foldl (applyPrimR o) R' i k := by
  induction ps generalizing R R' with
  | nil => exact h i k
  | cons p ps ih => exact ih (fun i k => applyPrimR_congr h p i k)

theorem execPrim_spec (law : Lawful o valid) {kv : KV} {c : Cache V} (wf : CacheWF o valid kv c) (p : Prim V)
    (hv : valid p.val) :
    CacheWF o valid kv (execPrim o kv c p) ∧
    ∀ i k, i ∈ eff o kv (execPrim o kv c p) k ↔ applyPrimR o (fun i k => i ∈ eff o kv c k) p i k := by
  cases p with
  | add id v =>
    have hv : valid v := hv
    obtain ⟨wf', heff⟩ := update_spec law (setAdd id) (setAdd_unchanged id) hv (ensure_wf law wf hv) (ensure_has law wf hv)
    refine ⟨wf', ?_⟩
    intro i k
    simp only [execPrim, applyPrimR, heff k, eff_ensure law wf hv]
    by_cases hk : k = o.key v
    · simp only [hk, if_true, mem_setAdd]; simp
    · simp [hk]
  | rem id v =>
    have hv : valid v := hv
    obtain ⟨wf', heff⟩ := update_spec law (setRemove id) (setRemove_unchanged id) hv (ensure_wf law wf hv) (ensure_has law wf hv)
    refine ⟨wf', ?_⟩
    intro i k
    simp only [execPrim, applyPrimR, heff k, eff_ensure law wf hv]
    by_cases hk : k = o.key v
    · simp only [hk, if_true, mem_setRemove]; simp
    · simp [hk]

theorem execPrims_spec (law : Lawful o valid) {kv : KV} (ps : List (Prim V)) (hv : ∀ p ∈ ps, valid p.val) :
    ∀ {c : Cache V}, CacheWF o valid kv c →
    CacheWF o valid kv (ps.foldl (execPrim o kv) c) ∧
    ∀ i k, i ∈ eff o kv (ps.foldl (execPrim o kv) c) k ↔ ps.foldl (applyPrimR o) (fun i k => i ∈ eff o kv c k) i k := by
  induction ps with
  | nil => intro c wf; exact ⟨wf, fun _ _ => Iff.rfl⟩
  | cons p ps ih =>
    intro c wf
    obtain ⟨wf1, h1⟩ := execPrim_spec law wf p (hv p (List.mem_cons_self ..))
    obtain ⟨wf2, h2⟩ := ih (fun q hq => hv q (List.mem_cons_of_mem _ hq)) wf1
    refine ⟨wf2, ?_⟩
    intro i k
    simp only [List.foldl_cons]
    rw [h2 i k]
    exact foldl_applyPrimR_congr h1 ps i k

/-! ## flush -/

theorem flush_spec {kv : KV} {c : Cache V} (hs : KV.Sorted kv.entries) (hne : NoEmpty kv)
    (hnd : c.Pairwise fun a b => o.key a.v ≠ o.key b.v)
    (hcl : ∀ e ∈ c, e.dirty = false → e.set = post kv (o.key e.v)) :
    KV.Sorted (flush o kv c).entries ∧ NoEmpty (flush o kv c) ∧ ∀ k, post (flush o kv c) k = eff o kv c k := by
  induction c generalizing kv with
  | nil => exact ⟨hs, hne, fun _ => rfl⟩
  | cons e c ih =>
    have ⟨hec, hcc⟩ := List.pairwise_cons.1 hnd
    -- one item
    have h1 : KV.Sorted (flushItem o kv e).entries ∧ NoEmpty (flushItem o kv e) ∧
        (post (flushItem o kv e) (o.key e.v) = e.set) ∧
        (∀ k, k ≠ o.key e.v → post (flushItem o kv e) k = post kv k) := by
      unfold flushItem
      by_cases hd : e.dirty = true
      · simp only [hd, Bool.not_true, Bool.false_eq_true, if_false]
        by_cases hem : e.set.isEmpty = true
        · simp only [hem, if_true]
          refine ⟨KV.sorted_delete hs _, ?_, ?_, fun k hk => post_delete_other kv _ k hk⟩
          · intro k b hg
            by_cases hk : k = o.key e.v
            · subst hk; rw [KV.get_delete_same] at hg; exact absurd hg (by simp)
            · rw [KV.get_delete_other kv _ k hk] at hg; exact hne k b hg
          · rw [post_delete_same]; exact (List.isEmpty_iff.1 hem).symm
        · simp only [hem, Bool.false_eq_true, if_false]
          refine ⟨KV.sorted_put hs _ _, ?_, post_put_same kv _ _, fun k hk => post_put_other kv _ _ k hk⟩
          intro k b hg
          by_cases hk : k = o.key e.v
          · subst hk
            rw [KV.get_put_same] at hg
            have : b = encSet e.set := by simpa using hg.symm
            rw [this, decSet_encSet]
            intro h0; exact hem (by simp [h0])
          · rw [KV.get_put_other kv _ _ k hk] at hg; exact hne k b hg
      · have hd' : e.dirty = false := by simpa using hd
        simp only [hd', Bool.not_false, if_true]
        exact ⟨hs, hne, (hcl e (List.mem_cons_self ..) hd').symm, by simp⟩
    obtain ⟨hs1, hne1, hsame, hother⟩ := h1
    have hcl1 : ∀ x ∈ c, x.dirty = false → x.set = post (flushItem o kv e) (o.key x.v) := by
      intro x hx hd
      rw [hother _ (Ne.symm (hec x hx))]
      exact hcl x (List.mem_cons_of_mem _ hx) hd
    obtain ⟨hs2, hne2, h2⟩ := ih hs1 hne1 hcc hcl1
    refine ⟨hs2, hne2, ?_⟩
    intro k
    show post (flush o (flushItem o kv e) c) k = _
    rw [h2 k, eff_cons]
    by_cases hk : o.key e.v = k
    · rw [if_pos hk]
      subst hk
      rw [eff_of_no_key (fun x hx => Ne.symm (hec x hx))]
      exact hsame
    · rw [if_neg hk]
      unfold eff
      cases c.find? (fun x => o.key x.v == k) with
      | some x => rfl
      | none => exact hother k (Ne.symm hk)

/-- a whole batch of primitives through a fresh cache and one flush, on the posting relation -/
theorem batch_spec (law : Lawful o valid) {kv : KV} (hs : KV.Sorted kv.entries) (hne : NoEmpty kv)
    (ps : List (Prim V)) (hv : ∀ p ∈ ps, valid p.val) :
    let kv' := flush o kv (ps.foldl (execPrim o kv) [])
    KV.Sorted kv'.entries ∧ NoEmpty kv' ∧
    ∀ i k, i ∈ post kv' k ↔ ps.foldl (applyPrimR o) (fun i k => i ∈ post kv k) i k := by
  obtain ⟨wf, h⟩ := execPrims_spec law ps hv (CacheWF.nil (o := o) (valid := valid) kv)
  obtain ⟨hs', hne', hp⟩ := flush_spec hs hne wf.nodup wf.clean
  refine ⟨hs', hne', ?_⟩
  intro i k
  rw [hp k, h i k]
  exact foldl_applyPrimR_congr (fun _ _ => by rw [eff_nil]) ps i k

/-! ## the index invariant and changes -/

/-- **index invariant** of one inverted index relative to the values `vals i` the live point `i`
holds in the indexed property (`[]` for a dead point or a point without the property) -/
structure IdxInv (o : Ops V) (kv : KV) (vals : Id → List V) : Prop where
  sorted : KV.Sorted kv.entries
  noEmpty : NoEmpty kv
  mem : ∀ i k, i ∈ post kv k ↔ ∃ v ∈ vals i, o.key v = k

def upd (vals : Id → List V) (id : Id) (l : List V) : Id → List V := fun i => if i = id then l else vals i

/-- the primitives `processChange` performs for one change -/
def primsOf (o : Ops V) (ch : Change V) : List (Prim V) :=
  match ch.prev, ch.cur with
  | none, none => []
  | none, some cur => [.add ch.id cur]
  | some prev, none => [.rem ch.id prev]
  | some prev, some cur => if !(o.veq prev cur) then [.rem ch.id prev, .add ch.id cur] else []

theorem processChange_eq (kv : KV) (c : Cache V) (ch : Change V) :
    processChange o kv c ch = (primsOf o ch).foldl (execPrim o kv) c := by
  unfold processChange primsOf
  cases ch.prev <;> cases ch.cur <;> simp only [List.foldl_nil, List.foldl_cons]
  split <;> rfl

theorem batchCache_eq (kv : KV) (chs : List (Change V)) :
    batchCache o kv chs = (chs.flatMap (primsOf o)).foldl (execPrim o kv) [] := by
  unfold batchCache
  generalize ([] : Cache V) = c
  induction chs generalizing c with
  | nil => rfl
  | cons ch chs ih =>
    simp only [List.foldl_cons, List.flatMap_cons, List.foldl_append]
    rw [processChange_eq]; exact ih _

def Change.Valid (valid : V → Prop) (ch : Change V) : Prop :=
  (∀ v, ch.prev = some v → valid v) ∧ (∀ v, ch.cur = some v → valid v)

theorem primsOf_valid {ch : Change V} (h : ch.Valid valid) : ∀ p ∈ primsOf o ch, valid p.val := by
  intro p hp
  unfold primsOf at hp
  rcases hpv : ch.prev with _ | pv <;> rcases hcv : ch.cur with _ | cv <;> simp only [hpv, hcv] at hp
  · simp at hp
  · simp only [List.mem_singleton] at hp; subst hp; exact h.2 cv hcv
  · simp only [List.mem_singleton] at hp; subst hp; exact h.1 pv hpv
  · split at hp
    · simp only [List.mem_cons, List.mem_singleton, List.not_mem_nil, or_false] at hp
      rcases hp with rfl | rfl
      · exact h.1 pv hpv
      · exact h.2 cv hcv
    · simp at hp

/-- a sequence of changes that is consistent with the values the points hold: each change names the
value the point held before it -/
inductive Chain : (Id → List V) → List (Change V) → (Id → List V) → Prop
  | nil (vals) : Chain vals [] vals
  | cons {vals ch rest vals'} : vals ch.id = ch.prev.toList → Chain (upd vals ch.id ch.cur.toList) rest vals' →
      Chain vals (ch :: rest) vals'

/-- one consistent change keeps "filed under `k` ↔ holds a value with key `k`" -/
theorem rel_change (law : Lawful o valid) {R : Id → Bytes → Prop} {vals : Id → List V} {ch : Change V}
    (hR : ∀ i k, R i k ↔ ∃ v ∈ vals i, o.key v = k) (hprev : vals ch.id = ch.prev.toList) (hv : ch.Valid valid)
    (i : Id) (k : Bytes) :
    (primsOf o ch).foldl (applyPrimR o) R i k ↔ ∃ v ∈ upd vals ch.id ch.cur.toList i, o.key v = k := by
  unfold primsOf upd
  by_cases hi : i = ch.id
  · subst hi
    simp only [if_true]
    rcases hpv : ch.prev with _ | pv <;> rcases hcv : ch.cur with _ | cv <;>
      simp only [hpv, hcv, Option.toList, List.foldl_nil, List.foldl_cons] at hprev ⊢
    · rw [hR, hprev]
    · simp [applyPrimR, hR, hprev, eq_comm]
    · simp [applyPrimR, hR, hprev, eq_comm]
    · have hvp := hv.1 pv hpv
      have hvc := hv.2 cv hcv
      by_cases hq : o.veq pv cv = true
      · have hk := (law.veq_iff _ _ hvp hvc).1 hq
        simp [hq, hR, hprev, hk]
      · have hk : o.key pv ≠ o.key cv := fun h => hq ((law.veq_iff _ _ hvp hvc).2 h)
        simp only [hq, Bool.not_false, if_true, List.foldl_cons, List.foldl_nil, applyPrimR, hR, hprev,
          List.mem_singleton, exists_eq_left, true_and]
        constructor
        · rintro (⟨_, h⟩ | h)
          · exact absurd (by rename_i h1; exact h1.symm) h
          · exact h.symm
        · intro h; exact Or.inr h.symm
  · simp only [if_neg hi]
    rcases hpv : ch.prev with _ | pv <;> rcases hcv : ch.cur with _ | cv <;>
      simp only [List.foldl_nil, List.foldl_cons]
    · exact hR i k
    · simp [applyPrimR, hR, hi]
    · simp [applyPrimR, hR, hi]
    · split <;> simp [applyPrimR, hR, hi]

theorem rel_chain (law : Lawful o valid) {vals vals' : Id → List V} {chs : List (Change V)}
    (hc : Chain vals chs vals') (hv : ∀ ch ∈ chs, ch.Valid valid) :
    ∀ {R : Id → Bytes → Prop}, (∀ i k, R i k ↔ ∃ v ∈ vals i, o.key v = k) →
    ∀ i k, (chs.flatMap (primsOf o)).foldl (applyPrimR o) R i k ↔ ∃ v ∈ vals' i, o.key v = k := by
  induction hc with
  | nil vals => intro R hR i k; simpa using hR i k
  | cons hprev _ ih =>
    intro R hR i k
    simp only [List.flatMap_cons, List.foldl_append]
    exact ih (fun c hc => hv c (List.mem_cons_of_mem _ hc))
      (fun i k => rel_change law hR hprev (hv _ (List.mem_cons_self ..)) i k) i k

/-- **the invariant is preserved by every batch of changes that is consistent with the point store** -/
theorem applyBatch_inv (law : Lawful o valid) {kv : KV} {vals vals' : Id → List V} {chs : List (Change V)}
    (inv : IdxInv o kv vals) (hc : Chain vals chs vals') (hv : ∀ ch ∈ chs, ch.Valid valid) :
    IdxInv o (applyBatch o kv chs) vals' := by
  unfold applyBatch
  rw [batchCache_eq]
  have hpv : ∀ p ∈ chs.flatMap (primsOf o), valid p.val := by
    intro p hp
    obtain ⟨ch, hch, hp⟩ := List.mem_flatMap.1 hp
    exact primsOf_valid (hv ch hch) p hp
  obtain ⟨hs, hne, hm⟩ := batch_spec law inv.sorted inv.noEmpty _ hpv
  refine ⟨hs, hne, ?_⟩
  intro i k
  rw [hm i k]
  exact rel_chain law hc hv inv.mem i k

/-! ### arrays -/

inductive ArrChain : (Id → List V) → List (ArrChange V) → (Id → List V) → Prop
  | nil (vals) : ArrChain vals [] vals
  | cons {vals ch rest vals'} : vals ch.id = ch.prev → ArrChain (upd vals ch.id ch.cur) rest vals' →
      ArrChain vals (ch :: rest) vals'

def ArrChange.Valid (valid : V → Prop) (ch : ArrChange V) : Prop :=
  (∀ v ∈ ch.prev, valid v) ∧ (∀ v ∈ ch.cur, valid v)

theorem vmem_iff (law : Lawful o valid) {v : V} {l : List V} (hv : valid v) (hl : ∀ x ∈ l, valid x) :
    vmem o v l = true ↔ ∃ x ∈ l, o.key x = o.key v := by
  simp only [vmem, List.any_eq_true]
  constructor
  · rintro ⟨x, hx, h⟩; exact ⟨x, hx, (law.veq_iff _ _ (hl x hx) hv).1 h⟩
  · rintro ⟨x, hx, h⟩; exact ⟨x, hx, (law.veq_iff _ _ (hl x hx) hv).2 h⟩

theorem foldl_adds (R : Id → Bytes → Prop) (id : Id) (l : List V) (i : Id) (k : Bytes) :
    (l.map fun v => Prim.add id v).foldl (applyPrimR o) R i k ↔ R i k ∨ (i = id ∧ ∃ v ∈ l, k = o.key v) := by
  induction l generalizing R with
  | nil => simp
  | cons a l ih =>
    simp only [List.map_cons, List.foldl_cons, ih, applyPrimR, List.mem_cons, exists_eq_or_imp]
    constructor
    · rintro ((h | ⟨h1, h2⟩) | ⟨h1, h2⟩)
      · exact Or.inl h
      · exact Or.inr ⟨h1, Or.inl h2⟩
      · exact Or.inr ⟨h1, Or.inr h2⟩
    · rintro (h | ⟨h1, h2 | h2⟩)
      · exact Or.inl (Or.inl h)
      · exact Or.inl (Or.inr ⟨h1, h2⟩)
      · exact Or.inr ⟨h1, h2⟩

theorem foldl_rems (R : Id → Bytes → Prop) (id : Id) (l : List V) (i : Id) (k : Bytes) :
    (l.map fun v => Prim.rem id v).foldl (applyPrimR o) R i k ↔ R i k ∧ ¬(i = id ∧ ∃ v ∈ l, k = o.key v) := by
  induction l generalizing R with
  | nil => simp
  | cons a l ih =>
    simp only [List.map_cons, List.foldl_cons, ih, applyPrimR, List.mem_cons, exists_eq_or_imp]
    constructor
    · rintro ⟨⟨h, h1⟩, h2⟩
      refine ⟨h, ?_⟩
      rintro ⟨hi, hk | hk⟩
      · exact h1 ⟨hi, hk⟩
      · exact h2 ⟨hi, hk⟩
    · rintro ⟨h, hn⟩
      exact ⟨⟨h, fun ⟨hi, hk⟩ => hn ⟨hi, Or.inl hk⟩⟩, fun ⟨hi, hk⟩ => hn ⟨hi, Or.inr hk⟩⟩

theorem arrDiff_prims (ch : ArrChange V) :
    (arrDiff o ch).flatMap (primsOf o) =
      ((ch.cur.filter fun v => !(vmem o v ch.prev)).map fun v => Prim.add ch.id v) ++
      ((ch.prev.filter fun v => !(vmem o v ch.cur)).map fun v => Prim.rem ch.id v) := by
  unfold arrDiff
  rw [List.flatMap_append]
  congr 1
  · generalize (ch.cur.filter fun v => !(vmem o v ch.prev)) = l
    induction l with
    | nil => rfl
    | cons a l ih => simp only [List.map_cons, List.flatMap_cons, ih]; rfl
  · generalize (ch.prev.filter fun v => !(vmem o v ch.cur)) = l
    induction l with
    | nil => rfl
    | cons a l ih => simp only [List.map_cons, List.flatMap_cons, ih]; rfl

theorem rel_arrChange (law : Lawful o valid) {R : Id → Bytes → Prop} {vals : Id → List V} {ch : ArrChange V}
    (hR : ∀ i k, R i k ↔ ∃ v ∈ vals i, o.key v = k) (hprev : vals ch.id = ch.prev) (hv : ch.Valid valid)
    (i : Id) (k : Bytes) :
    ((arrDiff o ch).flatMap (primsOf o)).foldl (applyPrimR o) R i k ↔ ∃ v ∈ upd vals ch.id ch.cur i, o.key v = k := by
  rw [arrDiff_prims, List.foldl_append, foldl_rems, foldl_adds, hR]
  unfold upd
  by_cases hi : i = ch.id
  · subst hi
    simp only [if_true, true_and, hprev, List.mem_filter, Bool.not_eq_true', ← Bool.not_eq_true]
    constructor
    · rintro ⟨h | ⟨c, ⟨hc, _⟩, rfl⟩, hn⟩
      · obtain ⟨p, hp, rfl⟩ := h
        by_cases hm : vmem o p ch.cur = true
        · obtain ⟨c, hc, hk⟩ := (vmem_iff law (hv.1 p hp) hv.2).1 hm
          exact ⟨c, hc, hk⟩
        · exact absurd ⟨p, ⟨hp, hm⟩, rfl⟩ hn
      · exact ⟨c, hc, rfl⟩
    · rintro ⟨c, hc, rfl⟩
      refine ⟨?_, ?_⟩
      · by_cases hm : vmem o c ch.prev = true
        · obtain ⟨p, hp, hk⟩ := (vmem_iff law (hv.2 c hc) hv.1).1 hm
          exact Or.inl ⟨p, hp, hk⟩
        · exact Or.inr ⟨c, ⟨hc, hm⟩, rfl⟩
      · rintro ⟨p, ⟨hp, hm⟩, hk⟩
        exact hm ((vmem_iff law (hv.1 p hp) hv.2).2 ⟨c, hc, hk⟩)
  · simp [hi]

theorem rel_arrChain (law : Lawful o valid) {vals vals' : Id → List V} {chs : List (ArrChange V)}
    (hc : ArrChain vals chs vals') (hv : ∀ ch ∈ chs, ch.Valid valid) :
    ∀ {R : Id → Bytes → Prop}, (∀ i k, R i k ↔ ∃ v ∈ vals i, o.key v = k) →
    ∀ i k, ((chs.flatMap (arrDiff o)).flatMap (primsOf o)).foldl (applyPrimR o) R i k ↔ ∃ v ∈ vals' i, o.key v = k := by
  induction hc with
  | nil vals => intro R hR i k; simpa using hR i k
  | cons hprev _ ih =>
    intro R hR i k
    simp only [List.flatMap_cons, List.flatMap_append, List.foldl_append]
    exact ih (fun c hc => hv c (List.mem_cons_of_mem _ hc))
      (fun i k => rel_arrChange law hR hprev (hv _ (List.mem_cons_self ..)) i k) i k

theorem arrDiff_valid {ch : ArrChange V} (h : ch.Valid valid) : ∀ p ∈ (arrDiff o ch).flatMap (primsOf o), valid p.val := by
  intro p hp
  rw [arrDiff_prims] at hp
  rcases List.mem_append.1 hp with hp | hp
  · obtain ⟨v, hv, rfl⟩ := List.mem_map.1 hp
    exact h.2 v (List.mem_filter.1 hv).1
  · obtain ⟨v, hv, rfl⟩ := List.mem_map.1 hp
    exact h.1 v (List.mem_filter.1 hv).1

theorem applyArrBatch_inv (law : Lawful o valid) {kv : KV} {vals vals' : Id → List V} {chs : List (ArrChange V)}
    (inv : IdxInv o kv vals) (hc : ArrChain vals chs vals') (hv : ∀ ch ∈ chs, ch.Valid valid) :
    IdxInv o (applyArrBatch o kv chs) vals' := by
  unfold applyArrBatch applyBatch
  rw [batchCache_eq]
  have hpv : ∀ p ∈ (chs.flatMap (arrDiff o)).flatMap (primsOf o), valid p.val := by
    intro p hp
    obtain ⟨c, hc, hp⟩ := List.mem_flatMap.1 hp
    obtain ⟨ch, hch, hc⟩ := List.mem_flatMap.1 hc
    exact arrDiff_valid (hv ch hch) p (List.mem_flatMap.2 ⟨c, hc, hp⟩)
  obtain ⟨hs, hne, hm⟩ := batch_spec law inv.sorted inv.noEmpty _ hpv
  refine ⟨hs, hne, ?_⟩
  intro i k
  rw [hm i k]
  exact rel_arrChain law hc hv inv.mem i k

/-! ## search -/

/-- **every operator returns exactly the ids holding a value that satisfies it** -/
theorem search_spec (law : Lawful o valid) {kv : KV} {vals : Id → List V} (inv : IdxInv o kv vals)
    (hvals : ∀ i, ∀ v ∈ vals i, valid v) {q e : V} (hq : valid q) (he : valid e) (op : Op) (i : Id) :
    i ∈ search o kv q e op ↔ ∃ a ∈ vals i, satOp o op a q e = true := by
  have key : ∀ P : Bytes → Bool, (∃ k, P k = true ∧ i ∈ post kv k) ↔ ∃ a ∈ vals i, P (o.key a) = true := by
    intro P
    constructor
    · rintro ⟨k, hp, hi⟩
      obtain ⟨v, hv, rfl⟩ := (inv.mem i k).1 hi
      exact ⟨v, hv, hp⟩
    · rintro ⟨a, ha, hp⟩
      exact ⟨o.key a, hp, (inv.mem i _).2 ⟨a, ha, rfl⟩⟩
  have cong : ∀ P Q : V → Bool, (∀ a ∈ vals i, P a = Q a) → ((∃ a ∈ vals i, P a = true) ↔ ∃ a ∈ vals i, Q a = true) := by
    intro P Q h
    constructor <;> rintro ⟨a, ha, hp⟩
    · exact ⟨a, ha, by rw [← h a ha]; exact hp⟩
    · exact ⟨a, ha, by rw [h a ha]; exact hp⟩
  cases op with
  | equals =>
    simp only [search, satOp]
    rw [inv.mem]
    constructor <;> rintro ⟨a, ha, h⟩
    · exact ⟨a, ha, (law.veq_iff _ _ (hvals i a ha) hq).2 h⟩
    · exact ⟨a, ha, (law.veq_iff _ _ (hvals i a ha) hq).1 h⟩
  | notEquals =>
    simp only [search, satOp, KV.forEach]
    rw [mem_unionEntries_filter inv.sorted (fun k => !(k == o.key q)), key]
    apply cong
    intro a ha
    rw [Bool.eq_iff_iff]
    simp only [Bool.not_eq_true', beq_eq_false_iff_ne, ne_eq]
    rw [← Bool.not_eq_true, law.veq_iff _ _ (hvals i a ha) hq]
  | startsWith =>
    simp only [search, satOp]
    rw [KV.prefixScan_spec inv.sorted, mem_unionEntries_filter inv.sorted (fun k => KV.isPrefix (o.key q) k), key]
    apply cong
    intro a ha
    rw [law.pre_iff _ _ hq (hvals i a ha)]; rfl
  | gt =>
    simp only [search, satOp]
    rw [KV.rangeScan_spec inv.sorted,
      mem_unionEntries_filter inv.sorted (fun k => KV.inLo (some (o.key q)) false k && KV.inHi none false k), key]
    apply cong
    intro a ha
    simp [KV.inLo, KV.inHi, law.lt_iff _ _ hq (hvals i a ha)]
  | ge =>
    simp only [search, satOp]
    rw [KV.rangeScan_spec inv.sorted,
      mem_unionEntries_filter inv.sorted (fun k => KV.inLo (some (o.key q)) true k && KV.inHi none true k), key]
    apply cong
    intro a ha
    simp [KV.inLo, KV.inHi, law.lt_iff _ _ (hvals i a ha) hq, law.le_iff _ _ hq (hvals i a ha)]
  | lt =>
    simp only [search, satOp]
    rw [KV.rangeScan_spec inv.sorted,
      mem_unionEntries_filter inv.sorted (fun k => KV.inLo none false k && KV.inHi (some (o.key q)) false k), key]
    apply cong
    intro a ha
    simp [KV.inLo, KV.inHi, law.lt_iff _ _ (hvals i a ha) hq]
  | le =>
    simp only [search, satOp]
    rw [KV.rangeScan_spec inv.sorted,
      mem_unionEntries_filter inv.sorted (fun k => KV.inLo none true k && KV.inHi (some (o.key q)) true k), key]
    apply cong
    intro a ha
    simp [KV.inLo, KV.inHi, law.lt_iff _ _ hq (hvals i a ha), law.le_iff _ _ (hvals i a ha) hq]
  | inRange =>
    simp only [search, satOp]
    rw [KV.rangeScan_spec inv.sorted,
      mem_unionEntries_filter inv.sorted (fun k => KV.inLo (some (o.key q)) true k && KV.inHi (some (o.key e)) true k), key]
    apply cong
    intro a ha
    simp [KV.inLo, KV.inHi, law.lt_iff _ _ (hvals i a ha) hq, law.lt_iff _ _ he (hvals i a ha),
      law.le_iff _ _ hq (hvals i a ha), law.le_iff _ _ (hvals i a ha) he]

/-- containsAll / containsAny over an array index -/
theorem searchArr_spec (law : Lawful o valid) {kv : KV} {vals : Id → List V} (inv : IdxInv o kv vals)
    (hvals : ∀ i, ∀ v ∈ vals i, valid v) (qs : List V) (hqs : ∀ q ∈ qs, valid q) (hne : qs ≠ []) (all : Bool) (i : Id) :
    i ∈ searchArr o kv qs all ↔
      if all then ∀ q ∈ qs, ∃ a ∈ vals i, o.veq a q = true else ∃ q ∈ qs, ∃ a ∈ vals i, o.veq a q = true := by
  have h1 : ∀ q ∈ qs, (i ∈ search o kv q q .equals ↔ ∃ a ∈ vals i, o.veq a q = true) := by
    intro q hq
    have := search_spec law inv hvals (hqs q hq) (hqs q hq) .equals i
    simpa [satOp] using this
  unfold searchArr
  cases all with
  | true =>
    simp only [if_true]
    rw [mem_interAll _ (by simpa using hne)]
    simp only [List.mem_map, forall_exists_index, and_imp, forall_apply_eq_imp_iff₂]
    constructor
    · intro h q hq; exact (h1 q hq).1 (h q hq)
    · intro h q hq; exact (h1 q hq).2 (h q hq)
  | false =>
    simp only [Bool.false_eq_true, if_false]
    rw [mem_unionAll]
    constructor
    · rintro ⟨s, hs, h⟩
      obtain ⟨q, hq, rfl⟩ := List.mem_map.1 hs
      exact ⟨q, hq, (h1 q hq).1 h⟩
    · rintro ⟨q, hq, h⟩
      exact ⟨_, List.mem_map.2 ⟨q, hq, rfl⟩, (h1 q hq).2 h⟩

/-! ## the point store, as far as the indexes depend on it -/

def updD (D : Id → Option Val) (id : Id) (d : Option Val) : Id → Option Val := fun i => if i = id then d else D i

/-- the `IndexPointChange`s of a batch are consistent with the point store: each names the document
the point held before it -/
inductive PChain : (Id → Option Val) → List PChange → (Id → Option Val) → Prop
  | nil (D) : PChain D [] D
  | cons {D pc rest D'} : D pc.id = pc.prev → PChain (updD D pc.id pc.cur) rest D' → PChain D (pc :: rest) D'

def NodupIds (pts : List Point) : Prop := pts.Pairwise fun a b => a.id ≠ b.id
def NodupUuids (pts : List Point) : Prop := pts.Pairwise fun a b => a.uuid ≠ b.uuid

theorem docOf_nil (i : Id) : docOf [] i = none := rfl

theorem docOf_cons (p : Point) (pts : List Point) (i : Id) :
    docOf (p :: pts) i = if p.id = i then some p.doc else docOf pts i := by
  unfold docOf
  by_cases h : p.id = i
  · rw [List.find?_cons_of_pos (by simpa using h)]; simp [h]
  · rw [List.find?_cons_of_neg (by simpa using h)]; simp [h]

theorem docOf_eq_none_iff (pts : List Point) (i : Id) : docOf pts i = none ↔ ∀ p ∈ pts, p.id ≠ i := by
  induction pts with
  | nil => simp [docOf_nil]
  | cons p pts ih =>
    rw [docOf_cons]
    by_cases h : p.id = i
    · simp [h]
    · simp [h, ih]

theorem docOf_of_mem {pts : List Point} (hn : NodupIds pts) {p : Point} (hp : p ∈ pts) : docOf pts p.id = some p.doc := by
  induction pts with
  | nil => simp at hp
  | cons q pts ih =>
    have ⟨hq, hn'⟩ := List.pairwise_cons.1 hn
    rw [docOf_cons]
    rcases List.mem_cons.1 hp with rfl | hp
    · simp
    · rw [if_neg (hq p hp)]; exact ih hn' hp

theorem docOf_append_one (pts : List Point) (p : Point) (hf : docOf pts p.id = none) :
    docOf (pts ++ [p]) = updD (docOf pts) p.id (some p.doc) := by
  funext i
  unfold updD
  induction pts with
  | nil =>
    simp only [List.nil_append, docOf_cons, docOf_nil]
    by_cases h : p.id = i
    · simp [h]
    · have : ¬ i = p.id := fun h' => h h'.symm
      simp [h, this]
  | cons q pts ih =>
    rw [docOf_cons] at hf
    by_cases hq : q.id = p.id
    · simp [hq] at hf
    · rw [if_neg hq] at hf
      simp only [List.cons_append, docOf_cons]
      by_cases hqi : q.id = i
      · have : i ≠ p.id := fun h => hq (hqi.trans h)
        simp [hqi, this]
      · simp only [hqi, if_false]; exact ih hf

theorem docOf_map_set (pts : List Point) (j : Id) (d : Val) :
    docOf (pts.map fun x => if x.id == j then { x with doc := d } else x) =
      fun i => if i = j then (docOf pts i).map (fun _ => d) else docOf pts i := by
  funext i
  induction pts with
  | nil => simp [docOf_nil]
  | cons q pts ih =>
    simp only [List.map_cons, docOf_cons]
    by_cases hqj : q.id = j
    · simp only [hqj, BEq.rfl, if_true]
      by_cases hji : j = i
      · simp [hji]
      · have : i ≠ j := Ne.symm hji
        simp only [hji, if_false, this]; rw [ih]; simp [this]
    · have : (q.id == j) = false := by simpa using hqj
      simp only [this, Bool.false_eq_true, if_false]
      by_cases hqi : q.id = i
      · have : i ≠ j := fun h => hqj (hqi.trans h)
        simp [hqi, this]
      · simp only [hqi, if_false]; exact ih

theorem docOf_filter_ne (pts : List Point) (j : Id) :
    docOf (pts.filter fun x => !(x.id == j)) = fun i => if i = j then none else docOf pts i := by
  funext i
  induction pts with
  | nil => simp [docOf_nil]
  | cons q pts ih =>
    by_cases hqj : q.id = j
    · rw [List.filter_cons_of_neg (by simp [hqj]), ih, docOf_cons]
      by_cases hij : i = j
      · simp [hij]
      · have : q.id ≠ i := by rw [hqj]; exact Ne.symm hij
        simp [hij, this]
    · rw [List.filter_cons_of_pos (by simpa using hqj), docOf_cons, docOf_cons, ih]
      by_cases hqi : q.id = i
      · have : i ≠ j := fun h => hqj (hqi.trans h)
        simp [hqi, this]
      · simp [hqi]

theorem nodupIds_map_set {pts : List Point} (hn : NodupIds pts) (j : Id) (d : Val) :
    NodupIds (pts.map fun x => if x.id == j then { x with doc := d } else x) := by
  unfold NodupIds at *
  rw [List.pairwise_map]
  refine hn.imp ?_
  intro a b hab
  by_cases ha : (a.id == j) = true <;> by_cases hb : (b.id == j) = true <;> simp [ha, hb, hab]

theorem nodupUuids_map_set {pts : List Point} (hn : NodupUuids pts) (j : Id) (d : Val) :
    NodupUuids (pts.map fun x => if x.id == j then { x with doc := d } else x) := by
  unfold NodupUuids at *
  rw [List.pairwise_map]
  refine hn.imp ?_
  intro a b hab
  by_cases ha : (a.id == j) = true <;> by_cases hb : (b.id == j) = true <;> simp [ha, hb, hab]

theorem insert_chain (pts ps : List Point) (hfresh : ∀ p ∈ ps, docOf pts p.id = none) (hnd : NodupIds ps) :
    PChain (docOf pts) (ps.map fun p => ⟨p.id, none, some p.doc⟩) (docOf (pts ++ ps)) := by
  induction ps generalizing pts with
  | nil => simpa using PChain.nil _
  | cons p ps ih =>
    have ⟨hp, hnd'⟩ := List.pairwise_cons.1 hnd
    have hf := hfresh p (List.mem_cons_self ..)
    simp only [List.map_cons]
    refine PChain.cons hf ?_
    rw [← docOf_append_one pts p hf]
    have : pts ++ p :: ps = (pts ++ [p]) ++ ps := by simp
    rw [this]
    apply ih _ _ hnd'
    intro q hq
    rw [docOf_append_one pts p hf]
    unfold updD
    rw [if_neg (Ne.symm (hp q hq))]
    exact hfresh q (List.mem_cons_of_mem _ hq)

theorem update_chain (pts : List Point) (us : List (String × Val)) (hn : NodupIds pts) (hu : NodupUuids pts) :
    PChain (docOf pts) (updateAll pts us).2 (docOf (updateAll pts us).1) ∧
    NodupIds (updateAll pts us).1 ∧ NodupUuids (updateAll pts us).1 := by
  induction us generalizing pts with
  | nil => exact ⟨PChain.nil _, hn, hu⟩
  | cons u us ih =>
    unfold updateAll
    cases hf : pts.find? (fun p => p.uuid == u.1) with
    | none => exact ih pts hn hu
    | some p =>
      simp only []
      have hp : p ∈ pts := List.mem_of_find?_eq_some hf
      obtain ⟨hc, hn', hu'⟩ := ih _ (nodupIds_map_set hn p.id (mergeDoc p.doc u.2)) (nodupUuids_map_set hu p.id (mergeDoc p.doc u.2))
      refine ⟨PChain.cons (docOf_of_mem hn hp) ?_, hn', hu'⟩
      have : updD (docOf pts) p.id (some (mergeDoc p.doc u.2)) =
          docOf (pts.map fun x => if x.id == p.id then { x with doc := mergeDoc p.doc u.2 } else x) := by
        rw [docOf_map_set]
        funext i
        unfold updD
        by_cases hi : i = p.id
        · subst hi; simp [docOf_of_mem hn hp]
        · simp [hi]
      simp only [] at hc ⊢
      rw [this]; exact hc

theorem delete_chain (pts : List Point) (us : List String) (hn : NodupIds pts) (hu : NodupUuids pts) :
    PChain (docOf pts) (deleteAll pts us).2 (docOf (deleteAll pts us).1) ∧
    NodupIds (deleteAll pts us).1 ∧ NodupUuids (deleteAll pts us).1 := by
  induction us generalizing pts with
  | nil => exact ⟨PChain.nil _, hn, hu⟩
  | cons u us ih =>
    unfold deleteAll
    cases hf : pts.find? (fun p => p.uuid == u) with
    | none => exact ih pts hn hu
    | some p =>
      simp only []
      have hp : p ∈ pts := List.mem_of_find?_eq_some hf
      obtain ⟨hc, hn', hu'⟩ := ih (pts.filter fun x => !(x.id == p.id)) (hn.filter _) (hu.filter _)
      refine ⟨PChain.cons (docOf_of_mem hn hp) ?_, hn', hu'⟩
      have : updD (docOf pts) p.id none = docOf (pts.filter fun x => !(x.id == p.id)) := by
        rw [docOf_filter_ne]; rfl
      simp only [] at hc ⊢
      rw [this]; exact hc

/-- what a chain leaves behind: every final document is an initial one or one written by the batch -/
theorem PChain.preserves {P : Option Val → Prop} {D D' : Id → Option Val} {pcs : List PChange}
    (h : PChain D pcs D') (hD : ∀ i, P (D i)) (hcur : ∀ pc ∈ pcs, P pc.cur) :
    (∀ pc ∈ pcs, P pc.prev) ∧ ∀ i, P (D' i) := by
  induction h with
  | nil D => exact ⟨by simp, hD⟩
  | cons hprev _ ih =>
    rename_i D pc rest D' _
    have hD1 : ∀ i, P (updD D pc.id pc.cur i) := by
      intro i; unfold updD; split
      · exact hcur pc (List.mem_cons_self ..)
      · exact hD i
    obtain ⟨h1, h2⟩ := ih hD1 (fun x hx => hcur x (List.mem_cons_of_mem _ hx))
    refine ⟨?_, h2⟩
    intro x hx
    rcases List.mem_cons.1 hx with rfl | hx
    · rw [← hprev]; exact hD _
    · exact h1 x hx

/-! ## from point changes to index changes (dispatch) -/

theorem toChange_chain (cast : Val → Option V) (path : List String) {D D' : Id → Option Val} {pcs : List PChange}
    (h : PChain D pcs D') :
    Chain (fun i => ((getProp (D i) path).bind cast).toList) (pcs.filterMap (toChange cast path))
      (fun i => ((getProp (D' i) path).bind cast).toList) := by
  induction h with
  | nil D => exact Chain.nil _
  | cons hprev _ ih =>
    rename_i D pc rest D' _
    have hupd : ∀ l : List V, l = ((getProp pc.cur path).bind cast).toList →
        upd (fun i => ((getProp (D i) path).bind cast).toList) pc.id l =
        fun i => ((getProp (updD D pc.id pc.cur i) path).bind cast).toList := by
      intro l hl
      funext i; unfold upd updD
      by_cases hi : i = pc.id <;> simp [hi, hl]
    cases hp : getProp pc.prev path with
    | none =>
      cases hc : getProp pc.cur path with
      | none =>
        have : toChange cast path pc = none := by simp [toChange, hp, hc]
        rw [List.filterMap_cons_none this]
        have hsame : (fun i => ((getProp (updD D pc.id pc.cur i) path).bind cast).toList) =
            fun i => ((getProp (D i) path).bind cast).toList := by
          funext i; unfold updD
          by_cases hi : i = pc.id
          · subst hi; simp [hc, hprev, hp]
          · simp [hi]
        rw [hsame] at ih; exact ih
      | some c =>
        have : toChange cast path pc = some ⟨pc.id, none, cast c⟩ := by simp [toChange, hp, hc]
        rw [List.filterMap_cons_some this]
        refine Chain.cons ?_ ?_
        · simp [hprev, hp]
        · rw [hupd _ (by simp [hc])]; exact ih
    | some p =>
      have : toChange cast path pc = some ⟨pc.id, cast p, (getProp pc.cur path).bind cast⟩ := by
        simp only [toChange, hp]; cases getProp pc.cur path <;> rfl
      rw [List.filterMap_cons_some this]
      refine Chain.cons ?_ ?_
      · simp [hprev, hp]
      · rw [hupd _ rfl]; exact ih

theorem Chain.map (g : Bytes → Bytes) {vals vals' : Id → List Bytes} {chs : List (Change Bytes)}
    (h : Chain vals chs vals') :
    Chain (fun i => (vals i).map g) (chs.map (foldChange g)) (fun i => (vals' i).map g) := by
  induction h with
  | nil vals => exact Chain.nil _
  | cons hprev _ ih =>
    rename_i vals ch rest vals' _
    simp only [List.map_cons]
    refine Chain.cons ?_ ?_
    · simp only [foldChange, hprev]; cases ch.prev <;> rfl
    · have : upd (fun i => (vals i).map g) (foldChange g ch).id (foldChange g ch).cur.toList =
          fun i => (upd vals ch.id ch.cur.toList i).map g := by
        funext i; unfold upd foldChange
        by_cases hi : i = ch.id
        · simp only [hi, if_true]; cases ch.cur <;> rfl
        · simp [hi]
      rw [this]; exact ih

theorem toArrChange_chain (path : List String) {D D' : Id → Option Val} {pcs : List PChange}
    (h : PChain D pcs D') :
    ArrChain (fun i => ((getProp (D i) path).map castArr).getD []) (pcs.filterMap (toArrChange path))
      (fun i => ((getProp (D' i) path).map castArr).getD []) := by
  induction h with
  | nil D => exact ArrChain.nil _
  | cons hprev _ ih =>
    rename_i D pc rest D' _
    have hupd : upd (fun i => ((getProp (D i) path).map castArr).getD []) pc.id (((getProp pc.cur path).map castArr).getD []) =
        fun i => ((getProp (updD D pc.id pc.cur i) path).map castArr).getD [] := by
      funext i; unfold upd updD
      by_cases hi : i = pc.id <;> simp [hi]
    by_cases hboth : getProp pc.prev path = none ∧ getProp pc.cur path = none
    · have : toArrChange path pc = none := by simp [toArrChange, hboth.1, hboth.2]
      rw [List.filterMap_cons_none this]
      have hsame : (fun i => ((getProp (updD D pc.id pc.cur i) path).map castArr).getD []) =
          fun i => ((getProp (D i) path).map castArr).getD [] := by
        funext i; unfold updD
        by_cases hi : i = pc.id
        · subst hi; simp [hboth.1, hboth.2, hprev]
        · simp [hi]
      rw [hsame] at ih; exact ih
    · have : toArrChange path pc = some ⟨pc.id, ((getProp pc.prev path).map castArr).getD [], ((getProp pc.cur path).map castArr).getD []⟩ := by
        unfold toArrChange
        cases hp : getProp pc.prev path <;> cases hc : getProp pc.cur path <;> simp_all
      rw [List.filterMap_cons_some this]
      refine ArrChain.cons ?_ ?_
      · simp [hprev]
      · simp only []; rw [hupd]; exact ih

theorem ArrChain.map (g : Bytes → Bytes) {vals vals' : Id → List Bytes} {chs : List (ArrChange Bytes)}
    (h : ArrChain vals chs vals') :
    ArrChain (fun i => (vals i).map g) (chs.map (foldArrChange g)) (fun i => (vals' i).map g) := by
  induction h with
  | nil vals => exact ArrChain.nil _
  | cons hprev _ ih =>
    rename_i vals ch rest vals' _
    simp only [List.map_cons]
    refine ArrChain.cons ?_ ?_
    · simp only [foldArrChange, hprev]
    · have : upd (fun i => (vals i).map g) (foldArrChange g ch).id (foldArrChange g ch).cur =
          fun i => (upd vals ch.id ch.cur i).map g := by
        funext i; unfold upd foldArrChange
        by_cases hi : i = ch.id <;> simp [hi]
      rw [this]; exact ih

/-! ## the three value types are lawful: C19's theorems about the *generated* key functions -/

theorem intLawful : Lawful intOps (fun _ => True) where
  veq_iff a b _ _ := by
    show (a == b) = true ↔ Gen.Sortable.toByteSortable_int64 a = Gen.Sortable.toByteSortable_int64 b
    rw [C19.int_inj]; simp
  lt_iff a b _ _ := by
    show lexLt (Gen.Sortable.toByteSortable_int64 a) (Gen.Sortable.toByteSortable_int64 b) = a.slt b
    rw [Bool.eq_iff_iff]; exact C19.int_order a b
  le_iff _ _ _ _ := rfl
  pre_iff _ _ _ _ := rfl

theorem fltLawful : Lawful fltOps (fun x => F64.isNaN x = false) where
  veq_iff a b ha hb := (C19.float_inj a b ha hb).symm
  lt_iff a b ha hb := by
    show lexLt (Gen.Sortable.toByteSortable_float64 a) (Gen.Sortable.toByteSortable_float64 b) = F64.lt a b
    rw [Bool.eq_iff_iff]; exact C19.float_order a b ha hb
  le_iff a b ha hb := by
    show F64.le a b = !(F64.lt b a)
    rw [Bool.eq_iff_iff]
    simp only [F64.le, F64.lt, ha, hb, Bool.not_false, Bool.true_and, decide_eq_true_eq, Bool.not_eq_true',
      decide_eq_false_iff_not]
    omega
  pre_iff _ _ _ _ := rfl

theorem strLawful : Lawful strOps (fun _ => True) where
  veq_iff a b _ _ := by
    show (a == b) = true ↔ Gen.Sortable.toByteSortable_string a = Gen.Sortable.toByteSortable_string b
    rw [C19.string_inj]; simp
  lt_iff a b _ _ := C19.string_order a b
  le_iff _ _ _ _ := rfl
  pre_iff _ _ _ _ := rfl

/-! ## the shard invariant -/

section
variable (lower : Bytes → Bytes)

def FltOK (path : List String) (d : Option Val) : Prop := ∀ x ∈ fltVals path d, F64.isNaN x = false

/-- the invariant of one index of the schema relative to the documents `D` of the live points -/
def Index.Inv (ix : Index) (D : Id → Option Val) : Prop :=
  match ix.kind with
  | .str cs => IdxInv strOps ix.kv (fun i => strVals lower cs ix.path (D i))
  | .strArr cs => IdxInv strOps ix.kv (fun i => arrVals lower cs ix.path (D i))
  | .int => IdxInv intOps ix.kv (fun i => intVals ix.path (D i))
  | .flt => IdxInv fltOps ix.kv (fun i => fltVals ix.path (D i)) ∧ ∀ i, FltOK ix.path (D i)

theorem toChange_some {cast : Val → Option V} {path : List String} {pc : PChange} {ch : Change V}
    (h : toChange cast path pc = some ch) :
    ch.prev = (getProp pc.prev path).bind cast ∧ ch.cur = (getProp pc.cur path).bind cast := by
  unfold toChange at h
  cases hp : getProp pc.prev path <;> cases hc : getProp pc.cur path <;> simp [hp, hc] at h <;> subst h <;> simp

theorem Index.step_inv (ix : Index) {D D' : Id → Option Val} {pcs : List PChange} (inv : ix.Inv lower D)
    (hc : PChain D pcs D') (hflt : ix.kind = .flt → ∀ pc ∈ pcs, FltOK ix.path pc.cur) :
    (ix.step lower pcs).Inv lower D' := by
  obtain ⟨path, kind, kv⟩ := ix
  cases kind with
  | str cs =>
    exact applyBatch_inv strLawful inv (Chain.map (fold lower cs) (toChange_chain castStr path hc))
      (fun _ _ => ⟨fun _ _ => trivial, fun _ _ => trivial⟩)
  | strArr cs =>
    exact applyArrBatch_inv strLawful inv (ArrChain.map (fold lower cs) (toArrChange_chain path hc))
      (fun _ _ => ⟨fun _ _ => trivial, fun _ _ => trivial⟩)
  | int =>
    exact applyBatch_inv intLawful inv (toChange_chain castInt path hc)
      (fun _ _ => ⟨fun _ _ => trivial, fun _ _ => trivial⟩)
  | flt =>
    obtain ⟨hpre, hD'⟩ := hc.preserves (P := FltOK path) inv.2 (hflt rfl)
    refine ⟨applyBatch_inv fltLawful inv.1 (toChange_chain castFlt path hc) ?_, hD'⟩
    intro ch hch
    obtain ⟨pc, hpc, hsome⟩ := List.mem_filterMap.1 hch
    obtain ⟨h1, h2⟩ := toChange_some hsome
    refine ⟨?_, ?_⟩
    · intro v hv
      apply hpre pc hpc v
      simp [fltVals, ← h1, hv]
    · intro v hv
      apply hflt rfl pc hpc v
      simp [fltVals, ← h2, hv]

/-- **the invariant of the shard**: every index is exact for the current documents; node ids and
uuids name points uniquely -/
structure Inv (st : St) : Prop where
  idx : ∀ ix ∈ st.idxs, ix.Inv lower (docOf st.pts)
  ids : NodupIds st.pts
  uuids : NodupUuids st.pts

/-- what a write batch must satisfy (beyond being accepted): inserted points get node ids that are
not in use (the id counter, C01) and no NaN is written into a float-indexed property -/
def OpOK (st : St) (op : WOp) : Prop :=
  (match op with
   | .insert ps => NodupIds ps ∧ ∀ p ∈ ps, docOf st.pts p.id = none
   | _ => True) ∧
  ∀ pc ∈ (pointChanges st.pts op).2, ∀ ix ∈ st.idxs, ix.kind = .flt → FltOK ix.path pc.cur

theorem nodupStr_pairwise {l : List String} (h : nodupStr l = true) : l.Pairwise (· ≠ ·) := by
  induction l with
  | nil => exact List.Pairwise.nil
  | cons a l ih =>
    simp only [nodupStr, Bool.and_eq_true, Bool.not_eq_true', List.contains_eq_mem, decide_eq_false_iff_not] at h
    refine List.pairwise_cons.2 ⟨?_, ih h.2⟩
    intro b hb hab; exact h.1 (hab ▸ hb)

theorem idOf_eq_none_iff (pts : List Point) (u : String) : idOf pts u = none ↔ ∀ p ∈ pts, p.uuid ≠ u := by
  simp [idOf, List.find?_eq_none]

theorem idOf_eq_some_iff {pts : List Point} (hu : NodupUuids pts) (u : String) (i : Id) :
    idOf pts u = some i ↔ ∃ p ∈ pts, p.uuid = u ∧ p.id = i := by
  induction pts with
  | nil => simp [idOf]
  | cons q pts ih =>
    have ⟨hq, hu'⟩ := List.pairwise_cons.1 hu
    by_cases hqu : q.uuid = u
    · have : idOf (q :: pts) u = some q.id := by simp [idOf, hqu]
      rw [this]
      constructor
      · intro h; exact ⟨q, List.mem_cons_self .., hqu, by simpa using h⟩
      · rintro ⟨p, hp, hpu, hpi⟩
        rcases List.mem_cons.1 hp with rfl | hp
        · simp [hpi]
        · exact absurd (hqu.trans hpu.symm) (hq p hp)
    · have : idOf (q :: pts) u = idOf pts u := by
        unfold idOf; rw [List.find?_cons_of_neg (by simpa using hqu)]
      rw [this, ih hu']
      constructor
      · rintro ⟨p, hp, h⟩; exact ⟨p, List.mem_cons_of_mem _ hp, h⟩
      · rintro ⟨p, hp, hpu, hpi⟩
        rcases List.mem_cons.1 hp with rfl | hp
        · exact absurd hpu hqu
        · exact ⟨p, hp, hpu, hpi⟩

theorem apply_inv {st : St} (inv : Inv lower st) (op : WOp) (ok : OpOK st op) (hacc : st.accepts lower op = true) :
    Inv lower (st.apply lower op) := by
  have hchain : PChain (docOf st.pts) (pointChanges st.pts op).2 (docOf (pointChanges st.pts op).1) ∧
      NodupIds (pointChanges st.pts op).1 ∧ NodupUuids (pointChanges st.pts op).1 := by
    cases op with
    | insert ps =>
      obtain ⟨⟨hnd, hfresh⟩, _⟩ := ok
      simp only [St.accepts, Bool.and_eq_true, List.all_eq_true, Option.isNone_iff_eq_none] at hacc
      obtain ⟨⟨hnu, hfu⟩, _⟩ := hacc
      refine ⟨insert_chain st.pts ps hfresh hnd, ?_, ?_⟩
      · show NodupIds (st.pts ++ ps)
        unfold NodupIds
        rw [List.pairwise_append]
        refine ⟨inv.ids, hnd, ?_⟩
        intro a ha b hb
        exact (docOf_eq_none_iff st.pts b.id).1 (hfresh b hb) a ha
      · show NodupUuids (st.pts ++ ps)
        unfold NodupUuids
        rw [List.pairwise_append]
        refine ⟨inv.uuids, ?_, ?_⟩
        · have := nodupStr_pairwise hnu
          rwa [List.pairwise_map] at this
        · intro a ha b hb
          exact (idOf_eq_none_iff st.pts b.uuid).1 (hfu b hb) a ha
    | update us => exact update_chain st.pts us inv.ids inv.uuids
    | delete us => exact delete_chain st.pts us inv.ids inv.uuids
  obtain ⟨hc, hi, hu⟩ := hchain
  refine ⟨?_, hi, hu⟩
  intro ix' hix'
  simp only [St.apply, List.mem_map] at hix'
  obtain ⟨ix, hix, rfl⟩ := hix'
  exact Index.step_inv lower ix (inv.idx ix hix) hc (fun hk pc hpc => ok.2 pc hpc ix hix hk)

theorem write_inv {st : St} (inv : Inv lower st) (op : WOp) (ok : OpOK st op) : Inv lower (st.write lower op) := by
  unfold St.write
  split
  · rename_i h; exact apply_inv lower inv op ok h
  · exact inv

theorem write_kind_mem {st : St} {op : WOp} {ix' : Index} (h : ix' ∈ (st.write lower op).idxs) :
    ∃ ix ∈ st.idxs, ix'.kind = ix.kind ∧ ix'.path = ix.path := by
  unfold St.write at h
  split at h
  · simp only [St.apply, List.mem_map] at h
    obtain ⟨ix, hix, rfl⟩ := h
    exact ⟨ix, hix, rfl, rfl⟩
  · exact ⟨ix', h, rfl, rfl⟩

/-- a history of write batches -/
def run (st : St) (ops : List WOp) : St := ops.foldl (St.write lower) st

def HistOK : St → List WOp → Prop
  | _, [] => True
  | st, op :: rest => OpOK st op ∧ HistOK (st.write lower op) rest

theorem run_kind_mem (ops : List WOp) : ∀ {st : St} {ix' : Index}, ix' ∈ (run lower st ops).idxs →
    ∃ ix ∈ st.idxs, ix'.kind = ix.kind ∧ ix'.path = ix.path := by
  induction ops with
  | nil => intro st ix' h; exact ⟨ix', h, rfl, rfl⟩
  | cons op ops ih =>
    intro st ix' h
    obtain ⟨ix1, h1, hk1, hp1⟩ := ih (st := st.write lower op) h
    obtain ⟨ix, h0, hk0, hp0⟩ := write_kind_mem lower h1
    exact ⟨ix, h0, hk1.trans hk0, hp1.trans hp0⟩

/-- the freshly created shard -/
def St.init (schema : List (List String × Kind)) (bolt : Bool) : St :=
  { pts := [], idxs := schema.map fun s => ⟨s.1, s.2, KV.empty⟩, bolt := bolt }

theorem idxInv_empty (o : Ops V) : IdxInv o KV.empty (fun _ => []) :=
  ⟨KV.sorted_empty, fun k b h => by simp [KV.get_empty] at h, fun i k => by simp [post_empty]⟩

theorem init_inv (schema : List (List String × Kind)) (bolt : Bool) : Inv lower (St.init schema bolt) := by
  refine ⟨?_, List.Pairwise.nil, List.Pairwise.nil⟩
  intro ix hix
  simp only [St.init, List.mem_map] at hix
  obtain ⟨s, _, rfl⟩ := hix
  obtain ⟨p, k⟩ := s
  cases k with
  | str cs => exact idxInv_empty strOps
  | strArr cs => exact idxInv_empty strOps
  | int => exact idxInv_empty intOps
  | flt =>
    refine ⟨idxInv_empty fltOps, fun i x hx => ?_⟩
    have hd : docOf (St.init schema bolt).pts i = none := rfl
    simp [fltVals, hd, getProp] at hx

/-! ## queries -/

def Leaf.Valid : Leaf → Prop
  | .flt _ _ v e => F64.isNaN v = false ∧ F64.isNaN e = false
  | _ => True

mutual
def Query.Valid : Query → Prop
  | .leaf l => l.Valid
  | .and qs => qs.Valid
  | .or qs => qs.Valid
def QList.Valid : QList → Prop
  | .nil => True
  | .cons q qs => q.Valid ∧ qs.Valid
end

theorem index_some {st : St} {path : List String} {ix : Index} (h : st.index path = some ix) :
    ix ∈ st.idxs ∧ ix.path = path := by
  unfold St.index at h
  exact ⟨List.mem_of_find?_eq_some h, by simpa using List.find?_some h⟩

theorem evalLeaf_spec {st : St} (inv : Inv lower st) (l : Leaf) (hwf : l.wf st = true) (hval : l.Valid) (i : Id) :
    i ∈ evalLeaf lower st l ↔ l.sat lower st i := by
  cases l with
  | str path op v e =>
    simp only [Leaf.wf] at hwf
    cases hix : st.index path with
    | none => simp [hix] at hwf
    | some ix =>
      obtain ⟨p, kind, kv⟩ := ix
      obtain ⟨hmem, hp⟩ := index_some hix
      simp only at hp; subst hp
      cases kind
      case strArr => simp [hix] at hwf
      case int => simp [hix] at hwf
      case flt => simp [hix] at hwf
      clear hwf
      rename_i cs
      have hinv : IdxInv strOps kv (fun i => strVals lower cs p (docOf st.pts i)) := inv.idx _ hmem
      simp only [evalLeaf, hix, searchStr, Leaf.sat]
      rw [search_spec strLawful hinv (fun _ _ _ => trivial) trivial trivial]
      constructor
      · intro h; exact ⟨cs, kv, rfl, h⟩
      · rintro ⟨cs', kv', heq, h⟩
        simp only [Option.some.injEq, Index.mk.injEq, Kind.str.injEq, true_and] at heq
        obtain ⟨rfl, rfl⟩ := heq
        exact h
  | strArr path all vs =>
    simp only [Leaf.wf, Bool.and_eq_true, Bool.not_eq_true', List.isEmpty_eq_false_iff] at hwf
    obtain ⟨hwf, hne⟩ := hwf
    cases hix : st.index path with
    | none => simp [hix] at hwf
    | some ix =>
      obtain ⟨p, kind, kv⟩ := ix
      obtain ⟨hmem, hp⟩ := index_some hix
      simp only at hp; subst hp
      cases kind
      case str => simp [hix] at hwf
      case int => simp [hix] at hwf
      case flt => simp [hix] at hwf
      clear hwf
      rename_i cs
      have hinv : IdxInv strOps kv (fun i => arrVals lower cs p (docOf st.pts i)) := inv.idx _ hmem
      simp only [evalLeaf, hix, searchStrArr, Leaf.sat]
      rw [searchArr_spec strLawful hinv (fun _ _ _ => trivial) _ (fun _ _ => trivial) (by simpa using hne)]
      have hveq : ∀ (a q : Bytes), strOps.veq a q = true ↔ a = q := by intro a q; simp [strOps]
      have hmemv : ∀ q, (∃ a ∈ arrVals lower cs p (docOf st.pts i), strOps.veq a (fold lower cs q) = true) ↔
          fold lower cs q ∈ arrVals lower cs p (docOf st.pts i) := by
        intro q; constructor
        · rintro ⟨a, ha, h⟩; rw [← (hveq _ _).1 h]; exact ha
        · intro h; exact ⟨_, h, (hveq _ _).2 rfl⟩
      have hbody : (if all = true then ∀ q ∈ vs.map (fold lower cs), ∃ a ∈ arrVals lower cs p (docOf st.pts i), strOps.veq a q = true
            else ∃ q ∈ vs.map (fold lower cs), ∃ a ∈ arrVals lower cs p (docOf st.pts i), strOps.veq a q = true) ↔
          (if all = true then ∀ q ∈ vs, fold lower cs q ∈ arrVals lower cs p (docOf st.pts i)
            else ∃ q ∈ vs, fold lower cs q ∈ arrVals lower cs p (docOf st.pts i)) := by
        cases all
        · simp only [Bool.false_eq_true, if_false, List.mem_map]
          constructor
          · rintro ⟨_, ⟨q, hq, rfl⟩, h⟩; exact ⟨q, hq, (hmemv q).1 h⟩
          · rintro ⟨q, hq, h⟩; exact ⟨_, ⟨q, hq, rfl⟩, (hmemv q).2 h⟩
        · simp only [if_true, List.mem_map]
          constructor
          · intro h q hq; exact (hmemv q).1 (h _ ⟨q, hq, rfl⟩)
          · rintro h _ ⟨q, hq, rfl⟩; exact (hmemv q).2 (h q hq)
      rw [hbody]
      constructor
      · intro h; exact ⟨cs, kv, rfl, h⟩
      · rintro ⟨cs', kv', heq, h⟩
        simp only [Option.some.injEq, Index.mk.injEq, Kind.strArr.injEq, true_and] at heq
        obtain ⟨rfl, rfl⟩ := heq
        exact h
  | int path op v e =>
    simp only [Leaf.wf, Bool.and_eq_true] at hwf
    obtain ⟨hwf, _⟩ := hwf
    cases hix : st.index path with
    | none => simp [hix] at hwf
    | some ix =>
      obtain ⟨p, kind, kv⟩ := ix
      obtain ⟨hmem, hp⟩ := index_some hix
      simp only at hp; subst hp
      cases kind
      case str => simp [hix] at hwf
      case strArr => simp [hix] at hwf
      case flt => simp [hix] at hwf
      clear hwf
      have hinv : IdxInv intOps kv (fun i => intVals p (docOf st.pts i)) := inv.idx _ hmem
      simp only [evalLeaf, hix, Leaf.sat]
      rw [search_spec intLawful hinv (fun _ _ _ => trivial) trivial trivial]
      constructor
      · intro h; exact ⟨kv, rfl, h⟩
      · rintro ⟨kv', heq, h⟩
        simp only [Option.some.injEq, Index.mk.injEq, true_and] at heq
        subst heq
        exact h
  | flt path op v e =>
    simp only [Leaf.wf, Bool.and_eq_true] at hwf
    obtain ⟨hwf, _⟩ := hwf
    cases hix : st.index path with
    | none => simp [hix] at hwf
    | some ix =>
      obtain ⟨p, kind, kv⟩ := ix
      obtain ⟨hmem, hp⟩ := index_some hix
      simp only at hp; subst hp
      cases kind
      case str => simp [hix] at hwf
      case strArr => simp [hix] at hwf
      case int => simp [hix] at hwf
      clear hwf
      have hinv : IdxInv fltOps kv (fun i => fltVals p (docOf st.pts i)) ∧ ∀ i, FltOK p (docOf st.pts i) := inv.idx _ hmem
      simp only [evalLeaf, hix, Leaf.sat]
      rw [search_spec fltLawful hinv.1 (fun i x hx => hinv.2 i x hx) hval.1 hval.2]
      constructor
      · intro h; exact ⟨kv, rfl, h⟩
      · rintro ⟨kv', heq, h⟩
        simp only [Option.some.injEq, Index.mk.injEq, true_and] at heq
        subst heq
        exact h
  | idEq u => simp [evalLeaf, searchIds, Leaf.sat]
  | idAny us => simp [evalLeaf, searchIds, Leaf.sat, List.mem_filterMap]

mutual
theorem eval_spec {st : St} (inv : Inv lower st) : ∀ (q : Query), q.wf st = true → q.Valid → ∀ i,
    (i ∈ eval lower st q ↔ q.sat lower st i)
  | .leaf l, hwf, hv, i => by
    simp only [eval, Query.sat]
    exact evalLeaf_spec lower inv l (by simpa [Query.wf] using hwf) hv i
  | .and qs, hwf, hv, i => by
    simp only [Query.wf, Bool.and_eq_true] at hwf
    have hne : evalL lower st qs ≠ [] := by
      cases qs with
      | nil => simp at hwf
      | cons q qs => simp [evalL]
    simp only [eval, Query.sat]
    rw [mem_interAll _ hne]
    exact (evalL_spec inv qs hwf.2 hv i).1
  | .or qs, hwf, hv, i => by
    simp only [Query.wf, Bool.and_eq_true] at hwf
    simp only [eval, Query.sat]
    rw [mem_unionAll]
    exact (evalL_spec inv qs hwf.2 hv i).2
theorem evalL_spec {st : St} (inv : Inv lower st) : ∀ (qs : QList), qs.wf st = true → qs.Valid → ∀ i,
    ((∀ s ∈ evalL lower st qs, i ∈ s) ↔ qs.satAll lower st i) ∧
    ((∃ s ∈ evalL lower st qs, i ∈ s) ↔ qs.satAny lower st i)
  | .nil, _, _, i => by simp [evalL, QList.satAll, QList.satAny]
  | .cons q qs, hwf, hv, i => by
    simp only [QList.wf, Bool.and_eq_true] at hwf
    have h1 := eval_spec inv q hwf.1 hv.1 i
    have h2 := evalL_spec inv qs hwf.2 hv.2 i
    simp only [evalL, QList.satAll, QList.satAny, List.mem_cons, forall_eq_or_imp, exists_eq_or_imp, h1, h2.1, h2.2,
      and_self]
end

/-- whatever satisfies a (well-formed) leaf is a live point -/
theorem Leaf.sat_live {st : St} (l : Leaf) (hwf : l.wf st = true) (i : Id) (h : l.sat lower st i) :
    ∃ p ∈ st.pts, p.id = i := by
  have key : docOf st.pts i ≠ none → ∃ p ∈ st.pts, p.id = i := by
    intro hne
    by_cases hex : ∃ p ∈ st.pts, p.id = i
    · exact hex
    · exact absurd ((docOf_eq_none_iff st.pts i).2 (fun p hp hpi => hex ⟨p, hp, hpi⟩)) hne
  have idk : ∀ u, idOf st.pts u = some i → ∃ p ∈ st.pts, p.id = i := by
    intro u hu
    unfold idOf at hu
    cases hf : st.pts.find? (fun p => p.uuid == u) with
    | none => simp [hf] at hu
    | some p =>
      simp only [hf, Option.map_some, Option.some.injEq] at hu
      exact ⟨p, List.mem_of_find?_eq_some hf, hu⟩
  cases l with
  | str path op v e =>
    obtain ⟨cs, kv, _, a, ha, _⟩ := h
    apply key; intro hn; simp [strVals, hn, getProp] at ha
  | strArr path all vs =>
    simp only [Leaf.wf, Bool.and_eq_true, Bool.not_eq_true', List.isEmpty_eq_false_iff] at hwf
    obtain ⟨cs, kv, _, h⟩ := h
    have hmem : ∃ q, q ∈ arrVals lower cs path (docOf st.pts i) := by
      cases all with
      | true =>
        simp only [if_true] at h
        cases vs with
        | nil => exact absurd rfl hwf.2
        | cons q vs => exact ⟨_, h q (List.mem_cons_self ..)⟩
      | false =>
        simp only [Bool.false_eq_true, if_false] at h
        obtain ⟨q, _, hq⟩ := h; exact ⟨_, hq⟩
    obtain ⟨q, hq⟩ := hmem
    apply key; intro hn; simp [arrVals, hn, getProp] at hq
  | int path op v e =>
    obtain ⟨kv, _, a, ha, _⟩ := h
    apply key; intro hn; simp [intVals, hn, getProp] at ha
  | flt path op v e =>
    obtain ⟨kv, _, a, ha, _⟩ := h
    apply key; intro hn; simp [fltVals, hn, getProp] at ha
  | idEq u => exact idk u h
  | idAny us => obtain ⟨u, _, hu⟩ := h; exact idk u hu

mutual
theorem Query.sat_live {st : St} : ∀ (q : Query), q.wf st = true → ∀ i, q.sat lower st i → ∃ p ∈ st.pts, p.id = i
  | .leaf l, hwf, i, h => Leaf.sat_live lower l (by simpa [Query.wf] using hwf) i (by simpa [Query.sat] using h)
  | .and .nil, hwf, _, _ => by simp [Query.wf] at hwf
  | .and (.cons q qs), hwf, i, h => by
    simp only [Query.wf, QList.wf, Bool.and_eq_true] at hwf
    simp only [Query.sat, QList.satAll] at h
    exact Query.sat_live q hwf.2.1 i h.1
  | .or qs, hwf, i, h => by
    simp only [Query.wf, Bool.and_eq_true] at hwf
    simp only [Query.sat] at h
    exact QList.satAny_live qs hwf.2 i h
theorem QList.satAny_live {st : St} : ∀ (qs : QList), qs.wf st = true → ∀ i, qs.satAny lower st i → ∃ p ∈ st.pts, p.id = i
  | .nil, _, _, h => by simp [QList.satAny] at h
  | .cons q qs, hwf, i, h => by
    simp only [QList.wf, Bool.and_eq_true] at hwf
    simp only [QList.satAny] at h
    rcases h with h | h
    · exact Query.sat_live q hwf.1 i h
    · exact QList.satAny_live qs hwf.2 i h
end

theorem write_rejected (st : St) (op : WOp) (h : st.accepts lower op = false) : st.write lower op = st := by
  simp [St.write, h]

theorem int_lacking {st : St} (path : List String) (i : Id) (hlack : getProp (docOf st.pts i) path = none) :
    intVals path (docOf st.pts i) = [] := by
  simp [intVals, hlack]

end

/-! unfolding lemmas for the validity predicates (so that Props.lean needs no equation lemmas of its own) -/
theorem Query.valid_leaf (l : Leaf) : (Query.leaf l).Valid ↔ l.Valid := by simp [Query.Valid]
theorem Query.valid_and (qs : QList) : (Query.and qs).Valid ↔ qs.Valid := by simp [Query.Valid]
theorem Query.valid_or (qs : QList) : (Query.or qs).Valid ↔ qs.Valid := by simp [Query.Valid]
theorem QList.valid_nil : QList.nil.Valid := by simp [QList.Valid]
theorem QList.valid_cons (q : Query) (qs : QList) : (QList.cons q qs).Valid ↔ q.Valid ∧ qs.Valid := by simp [QList.Valid]
theorem Leaf.valid_idEq (u : String) : (Leaf.idEq u).Valid := by simp [Leaf.Valid]
theorem Leaf.valid_idAny (us : List String) : (Leaf.idAny us).Valid := by simp [Leaf.Valid]
theorem Leaf.valid_int (p : List String) (op : Op) (v e : BitVec 64) : (Leaf.int p op v e).Valid := by simp [Leaf.Valid]
theorem Leaf.valid_str (p : List String) (op : Op) (v e : Bytes) : (Leaf.str p op v e).Valid := by simp [Leaf.Valid]
theorem Leaf.valid_strArr (p : List String) (all : Bool) (vs : List Bytes) : (Leaf.strArr p all vs).Valid := by simp [Leaf.Valid]
theorem Leaf.valid_flt (p : List String) (op : Op) (v e : BitVec 64) :
    (Leaf.flt p op v e).Valid ↔ F64.isNaN v = false ∧ F64.isNaN e = false := by simp [Leaf.Valid]
theorem Query.wf_leaf (st : St) (l : Leaf) : (Query.leaf l).wf st = l.wf st := by simp [Query.wf]
theorem Leaf.wf_idEq (st : St) (u : String) : (Leaf.idEq u).wf st = true := by simp [Leaf.wf]

/-! ## T2 pins (`Generated/FactsC02.lean`): see `Pins.lean`, a module of its own built by C02's check only -/

end Sema.C02
