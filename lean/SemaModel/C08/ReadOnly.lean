/-
C08 — read-only and failing transactions.

`runHistory` (Lemmas.lean) knows committed write transactions only.  A shard also runs
  * SEARCHES: read-only transactions that go through the same shared item cache (`Get` / `GetMany` read
    through and remember what they read, `ForEach` loads every item and sets `isAllInCache`) and never flush:
    the cache may be populated, the bucket is unchanged;
  * FAILED WRITES: the bbolt transaction is rolled back (assumed, DESIGN 3.4) and `Commit(true)` scraps and
    removes every cache the transaction wrote (C11_failed_dropped): the next user starts from `NewItemCache`.
This file adds both to the histories and proves that `Coherent` survives them, so that every later answer is
still a function of the committed writes alone.
-/
import SemaModel.C08.Lemmas
namespace Sema.C08
open Sema

variable {K V P : Type} [DecidableEq K]

/-- what a read-only transaction does to an item cache -/
inductive Read (K : Type) where
  /-- `Get(id)` (an element of `GetMany`) -/
  | get (id : K)
  /-- `ForEach` (flat search, `Count`-free scans): loads the whole bucket into the cache -/
  | scan
  deriving Repr

def applyRead (st : Storable K V) (kv : KV) (c : Cache K V) : Read K → Cache K V
  | .get id => (get st c kv id).1
  | .scan =>
    match loadAll st c kv with
    | some c' => c'
    | none => c

/-- `Get` on a coherent cache leaves a coherent cache -/
theorem coherent_get {st : Storable K V} {proj : V → P} {ok : K → V → KV → Prop} {c : Cache K V} {kv : KV}
    (L : Laws st proj ok) (h : Coherent st proj ok c kv) (id : K) : Coherent st proj ok (get st c kv id).1 kv := by
  unfold get
  cases hf : find c.items id with
  | some e => by_cases hd : e.isDeleted = true <;> simp [hd] <;> exact h
  | none =>
    unfold read
    cases hv : st.readFrom id kv with
    | none => exact h
    | some v =>
      refine ⟨nodup_set h.nodup _ _, ?_, ?_, ?_⟩
      · intro id' e' hf'
        simp only [find_set] at hf'
        by_cases hid : id' = id
        · subst hid; simp at hf'; subst hf'; simp [obs, hv]
        · simp [hid] at hf'; exact h.agree id' e' hf'
      · intro id' e' hf' hw
        simp only [find_set] at hf'
        by_cases hid : id' = id
        · subst hid; simp at hf'; subst hf'
          simp [needsWrite, L.read_clean id' kv v hv] at hw
        · simp [hid] at hf'; exact h.rewrite id' e' hf' hw
      · intro hall id' hr
        have := h.allIn hall id' hr
        simp only [find_set]
        by_cases hid : id' = id <;> simp [hid, this]

/-- the bucket scan of `ForEach` on a coherent cache leaves a coherent cache (now with `isAllInCache`) -/
theorem coherent_loadAll {st : Storable K V} {proj : V → P} {ok : K → V → KV → Prop} {wf : KV → Prop}
    (L : Laws st proj ok) (E : EnumLaws st wf) {c : Cache K V} {kv : KV} (hwf : wf kv)
    (h : Coherent st proj ok c kv) :
    ∃ c', loadAll st c kv = some c' ∧ Coherent st proj ok c' kv ∧ c'.isAllInCache = true := by
  unfold loadAll
  cases ha : c.isAllInCache
  · obtain ⟨items', h1, h2, h3, h4, h5⟩ := loadKeys_spec st kv (keys kv) c.items h.nodup
      (fun key id hk hid => E.sound kv key id hwf hk hid)
    have h1 : loadKeys st kv (kv.entries.map (·.1)) c.items = some items' := h1
    refine ⟨{ items := items', isAllInCache := true }, by simp [h1], ⟨h2, ?_, ?_, ?_⟩, rfl⟩
    · intro id e' hf
      rcases h5 id e' hf with h' | ⟨_, v, hv, rfl⟩
      · exact h.agree id e' h'
      · simp [obs, hv]
    · intro id e' hf hw
      rcases h5 id e' hf with h' | ⟨_, v, hv, rfl⟩
      · exact h.rewrite id e' h' hw
      · simp [needsWrite, L.read_clean id kv v hv] at hw
    · intro _ id hr
      cases hf : find c.items id with
      | some e => simp [h3 id e hf]
      | none =>
        obtain ⟨key, hk, hid⟩ := E.complete kv id hwf hr
        obtain ⟨v, _, hv⟩ := h4 id hf ⟨key, hk, hid⟩
        simp [hv]
  · exact ⟨c, by simp, h, ha⟩

theorem coherent_applyRead {st : Storable K V} {proj : V → P} {ok : K → V → KV → Prop} {wf : KV → Prop}
    (L : Laws st proj ok) (E : EnumLaws st wf) {c : Cache K V} {kv : KV} (hwf : wf kv)
    (h : Coherent st proj ok c kv) (r : Read K) : Coherent st proj ok (applyRead st kv c r) kv := by
  cases r with
  | get id => exact coherent_get L h id
  | scan =>
    obtain ⟨c', h1, h2, _⟩ := coherent_loadAll L E hwf h
    simp only [applyRead, h1]
    exact h2

theorem coherent_applyReads {st : Storable K V} {proj : V → P} {ok : K → V → KV → Prop} {wf : KV → Prop}
    (L : Laws st proj ok) (E : EnumLaws st wf) {kv : KV} (hwf : wf kv) (rs : List (Read K)) {c : Cache K V}
    (h : Coherent st proj ok c kv) : Coherent st proj ok (rs.foldl (applyRead st kv) c) kv := by
  induction rs generalizing c with
  | nil => exact h
  | cons r rest ih => exact ih (coherent_applyRead L E hwf h r)

/-! ### histories with searches and failed writes -/

inductive Tx (K V : Type) where
  /-- a committed write transaction: the program, then `Flush` -/
  | write (ops : List (Op K V))
  /-- a read-only transaction (a search) -/
  | search (rs : List (Read K))
  /-- a write transaction that fails: whatever its program did to the cache and to the bucket is gone -/
  | failed (ops : List (Op K V))

def runTx (st : Storable K V) : Cache K V × KV → Fate × Tx K V → Cache K V × KV
  | (c, kv), (f, .write ops) => runBatch st (afterTx f c) kv ops
  | (c, kv), (f, .search rs) => (rs.foldl (applyRead st kv) (afterTx f c), kv)
  | (_, kv), (_, .failed _) => (Cache.empty, kv)

def runMixed (st : Storable K V) (s : Cache K V × KV) (hist : List (Fate × Tx K V)) : Cache K V × KV :=
  hist.foldl (runTx st) s

/-- the variant that is NOT what the code does: the cache of a failed write is kept (its program's effects on
the cache included) while the bucket is rolled back — see `C08_failed_kept_witness` -/
def runTxKeepFailed (st : Storable K V) : Cache K V × KV → Fate × Tx K V → Cache K V × KV
  | (c, kv), (f, .failed ops) => (ops.foldl (applyOp st kv) (afterTx f c), kv)
  | s, t => runTx st s t

/-- only committed writes count -/
def specTx (proj : V → P) (g : (K → V → V) → K → P → P) (m : K → Option P) : Fate × Tx K V → K → Option P
  | (_, .write ops) => ops.foldl (specOp proj g) m
  | (_, .search _) => m
  | (_, .failed _) => m

def specMixed (proj : V → P) (g : (K → V → V) → K → P → P) (m : K → Option P) (hist : List (Fate × Tx K V)) :
    K → Option P :=
  hist.foldl (specTx proj g) m

/-- side conditions of the committed writes, each w.r.t. the bucket it runs on -/
def OkMixed (st : Storable K V) (proj : V → P) (ok : K → V → KV → Prop) (g : (K → V → V) → K → P → P) :
    Cache K V × KV → List (Fate × Tx K V) → Prop
  | _, [] => True
  | s, t :: rest =>
    (match t.2 with
     | .write ops => ∀ op, op ∈ ops → OpOk st proj ok g s.2 op
     | _ => True) ∧ OkMixed st proj ok g (runTx st s t) rest

theorem runTx_spec {st : Storable K V} {proj : V → P} {ok : K → V → KV → Prop} {wf : KV → Prop}
    (g : (K → V → V) → K → P → P) (L : Laws st proj ok) (E : EnumLaws st wf) (W : WfLaws st ok wf)
    {c : Cache K V} {kv : KV} (hwf : wf kv) (h : Coherent st proj ok c kv) (t : Fate × Tx K V)
    (hok : match t.2 with
      | .write ops => ∀ op, op ∈ ops → OpOk st proj ok g kv op
      | _ => True) :
    Coherent st proj ok (runTx st (c, kv) t).1 (runTx st (c, kv) t).2 ∧ wf (runTx st (c, kv) t).2 ∧
    ∀ id, obs st proj (runTx st (c, kv) t).2 id = specTx proj g (obs st proj kv) t id := by
  obtain ⟨f, tx⟩ := t
  have hc := coherent_afterTx h f
  cases tx with
  | write ops =>
    obtain ⟨h1, h2⟩ := runBatch_spec g L E hwf hc ops hok
    exact ⟨h1, runBatch_wf g L E W hwf hc ops hok, h2⟩
  | search rs =>
    exact ⟨coherent_applyReads L E hwf rs hc, hwf, fun _ => rfl⟩
  | failed ops =>
    exact ⟨coherent_empty st proj ok kv, hwf, fun _ => rfl⟩

theorem runMixed_spec {st : Storable K V} {proj : V → P} {ok : K → V → KV → Prop} {wf : KV → Prop}
    (g : (K → V → V) → K → P → P) (L : Laws st proj ok) (E : EnumLaws st wf) (W : WfLaws st ok wf)
    (hist : List (Fate × Tx K V)) {c : Cache K V} {kv : KV} (hwf : wf kv)
    (h : Coherent st proj ok c kv) (hrun : OkMixed st proj ok g (c, kv) hist) :
    Coherent st proj ok (runMixed st (c, kv) hist).1 (runMixed st (c, kv) hist).2 ∧
    wf (runMixed st (c, kv) hist).2 ∧
    ∀ id, obs st proj (runMixed st (c, kv) hist).2 id = specMixed proj g (obs st proj kv) hist id := by
  induction hist generalizing c kv with
  | nil => exact ⟨h, hwf, fun _ => rfl⟩
  | cons t rest ih =>
    obtain ⟨hok, hrest⟩ := hrun
    obtain ⟨h1, h2, h3⟩ := runTx_spec g L E W hwf h t hok
    obtain ⟨h4, h5, h6⟩ := ih (c := (runTx st (c, kv) t).1) (kv := (runTx st (c, kv) t).2) h2 h1 hrest
    refine ⟨h4, h5, fun id => ?_⟩
    show obs st proj (runMixed st (runTx st (c, kv) t) rest).2 id = specMixed proj g (specTx proj g (obs st proj kv) t) rest id
    rw [h6 id]
    have : obs st proj (runTx st (c, kv) t).2 = specTx proj g (obs st proj kv) t := funext h3
    rw [this]

end Sema.C08
