/-
C08 — committed data is durable; answers do not depend on cache state or storage backend.

Everything here is about the executable model of shard/cache/itemcache.go (C08/Model.lean) and, for
the instances, about the `Storable` plans *extracted from the source on every run*
(Generated/FactsC04.lean: plainPoint, binaryQuantizedPoint, productQuantizedPoint, graphNode).

Reading guide.  `obs st proj kv id` is what the committed bucket alone says about `id`
(`ReadFrom`, projected to the observation-relevant part); `view st proj c.items kv id` is what a
transaction sees through the cache.  A query is a function of `view` (it reaches the data only
through Get / GetMany / ForEach); therefore "answers depend on the committed disk only" is
`view = obs` for every cache state the manager can produce — warm, evicted, fresh, disabled.

FULL STATEMENT (not proved for every index kind): for every index kind of the shard, every history
of successful batches and every cache fate before each batch, every query answer is a function of
the committed bucket only.  Proved below for the generic `ItemCache` over any `Storable` satisfying
`Laws`/`EnumLaws`, and instantiated for the four storables whose plans are extracted
(`C08_answer_indep_partial`, `C08_history_partial`); the text index' `setCacheItem`/`docCacheItem`
and the inverted index' private set cache are covered by the correspondence harness only.
-/
import SemaModel.C08.Lemmas
import SemaModel.C08.ReadOnly
import SemaModel.C04.Lemmas
namespace Sema.C08
open Sema List Sema.C04 Sema.Gen.FactsC04

variable {K V P : Type} [DecidableEq K]

/-! ### the source still has the shape the model transcribes (facts regenerated on every run)
(the pins against `Generated/FactsC08.lean` - itemcache.go flags, in-place mutations, order of the persist steps, bucket-memory
taint - are in `Pins.lean`, a module of its own built by C08's check only) -/

/-- persisted parameters of the *cached* index objects: what the flush functions put, the
constructors get.  (`_vamanaMaxNodeId` and `_numDocuments` are extracted too but deliberately not
pinned: the former only sizes the visited-set of a graph search — a bitset that grows on demand —
and the text index is re-created from the bucket for every request, so it has no state that could
diverge from the committed bucket; whether `_numDocuments` is right is C05's question.) -/
example : binaryFlushPutsThreshold = true ∧ binaryNewGetsThreshold = true ∧
    productFlushPutsCentroids = true ∧ productNewGetsCentroids = true := by decide

/-! ### the invariant -/

/-- a fresh cache (restart, eviction by the manager, `maxSize = 0`, a reader's temporary cold cache)
is coherent with whatever is committed -/
theorem CacheCoherent_fresh (st : Storable K V) (proj : V → P) (ok : K → V → KV → Prop) (kv : KV) :
    Coherent st proj ok Cache.empty kv := coherent_empty st proj ok kv

/-- whatever the manager does to a shared cache between two transactions keeps it coherent -/
theorem CacheCoherent_fate {st : Storable K V} {proj : V → P} {ok : K → V → KV → Prop} {c : Cache K V} {kv : KV}
    (h : Coherent st proj ok c kv) (f : Fate) : Coherent st proj ok (afterTx f c) kv := coherent_afterTx h f

/-- under the invariant the cache is invisible: a transaction sees exactly the committed bucket -/
theorem CacheCoherent_view {st : Storable K V} {proj : V → P} {ok : K → V → KV → Prop} {c : Cache K V} {kv : KV}
    (h : Coherent st proj ok c kv) (id : K) : view st proj c.items kv id = obs st proj kv id := coherent_view h id

/-! ### Flush -/

/-- **C08_flush**: inside a write transaction (entries that are clean agree with the bucket, entries
to be written satisfy the write precondition), `Flush` makes the bucket say exactly what the
transaction saw, and leaves a coherent cache.  Needs `Laws` — among them that every dirty flag is
honoured (`needsWrite`) and that writing then reading returns the projection. -/
theorem C08_flush {st : Storable K V} {proj : V → P} {ok : K → V → KV → Prop} (L : Laws st proj ok)
    {c : Cache K V} {kv : KV} (h : Tracked st proj ok c kv) :
    Coherent st proj ok (flush st c kv).1 (flush st c kv).2 ∧
    ∀ id, obs st proj (flush st c kv).2 id = view st proj c.items kv id := flush_spec L h

/-- **every mutation sets a dirty flag that Flush honours**: values rewritten in place (the
quantisers' `Fit`) keep the cache flushable provided each rewritten value reports itself dirty
through `CheckAndClearDirty` (or keeps its projection) -/
theorem C08_mutation_dirty {st : Storable K V} {proj : V → P} {ok : K → V → KV → Prop} {c : Cache K V} {kv : KV}
    (h : Tracked st proj ok c kv) (f : K → V → V)
    (hdirty : ∀ id e, find c.items id = some e → e.isDeleted = false →
      (st.checkClear (f id e.value)).1 = true ∨
      (proj (f id e.value) = proj e.value ∧ (st.checkClear (f id e.value)).1 = (st.checkClear e.value).1))
    (hok : ∀ id e, find c.items id = some e → e.isDeleted = false → ok id (f id e.value) kv) :
    Tracked st proj ok { c with items := mapLive f c.items } kv := tracked_mapLive h f hdirty hok

/-- Get / Put / Delete / ForEach+rewrite act on the overlay map as on a plain map -/
theorem C08_ops_refine {st : Storable K V} {proj : V → P} {ok : K → V → KV → Prop} {wf : KV → Prop}
    (g : (K → V → V) → K → P → P) (L : Laws st proj ok) (E : EnumLaws st wf) {c : Cache K V} {kv : KV}
    (hwf : wf kv) (h : Tracked st proj ok c kv) (op : Op K V) (hop : OpOk st proj ok g kv op) :
    Tracked st proj ok (applyOp st kv c op) kv ∧
    ∀ id, view st proj (applyOp st kv c op).items kv id = specOp proj g (view st proj c.items kv) op id :=
  applyOp_spec g L E hwf h op hop

/-- one committed write transaction: afterwards the invariant holds again and the bucket holds the
effects of the whole program -/
theorem C08_batch {st : Storable K V} {proj : V → P} {ok : K → V → KV → Prop} {wf : KV → Prop}
    (g : (K → V → V) → K → P → P) (L : Laws st proj ok) (E : EnumLaws st wf) {c : Cache K V} {kv : KV}
    (hwf : wf kv) (h : Coherent st proj ok c kv) (ops : List (Op K V))
    (hops : ∀ op, op ∈ ops → OpOk st proj ok g kv op) :
    Coherent st proj ok (runBatch st c kv ops).1 (runBatch st c kv ops).2 ∧
    ∀ id, obs st proj (runBatch st c kv ops).2 id = ops.foldl (specOp proj g) (obs st proj kv) id :=
  runBatch_spec g L E hwf h ops hops

/-! ### durability and independence of the cache state -/

/-- **durability**: after any history of committed transactions, with the manager keeping or
dropping the shared cache before each one as it likes, the bucket holds exactly the effects of the
programs — the result does not mention the fates -/
theorem C08_history {st : Storable K V} {proj : V → P} {ok : K → V → KV → Prop} {wf : KV → Prop}
    (g : (K → V → V) → K → P → P) (L : Laws st proj ok) (E : EnumLaws st wf) (W : WfLaws st ok wf)
    (hist : List (Fate × List (Op K V))) {c : Cache K V} {kv : KV} (hwf : wf kv)
    (h : Coherent st proj ok c kv) (hrun : OkRun st proj ok g (c, kv) hist) :
    Coherent st proj ok (runHistory st (c, kv) hist).1 (runHistory st (c, kv) hist).2 ∧
    wf (runHistory st (c, kv) hist).2 ∧
    ∀ id, obs st proj (runHistory st (c, kv) hist).2 id = specHistory proj g (obs st proj kv) hist id :=
  runHistory_spec g L E W hist hwf h hrun

/-- the same programs under two different sequences of cache fates (e.g. always warm vs. evicted
before every batch = cache disabled) commit buckets that say the same about every id -/
theorem C08_fate_indep {st : Storable K V} {proj : V → P} {ok : K → V → KV → Prop} {wf : KV → Prop}
    (g : (K → V → V) → K → P → P) (L : Laws st proj ok) (E : EnumLaws st wf) (W : WfLaws st ok wf)
    (progs : List (List (Op K V))) (f₁ f₂ : List Fate) (hl₁ : f₁.length = progs.length) (hl₂ : f₂.length = progs.length)
    {kv : KV} (hwf : wf kv)
    (h₁ : OkRun st proj ok g (Cache.empty, kv) (f₁.zip progs)) (h₂ : OkRun st proj ok g (Cache.empty, kv) (f₂.zip progs)) :
    ∀ id, obs st proj (runHistory st (Cache.empty, kv) (f₁.zip progs)).2 id =
          obs st proj (runHistory st (Cache.empty, kv) (f₂.zip progs)).2 id := by
  intro id
  have e₁ := (C08_history g L E W _ hwf (coherent_empty st proj ok kv) h₁).2.2 id
  have e₂ := (C08_history g L E W _ hwf (coherent_empty st proj ok kv) h₂).2.2 id
  rw [e₁, e₂]
  -- the specification ignores the fates
  have key : ∀ (progs : List (List (Op K V))) (f₁ f₂ : List Fate) (m : K → Option P),
      f₁.length = progs.length → f₂.length = progs.length →
      specHistory proj g m (f₁.zip progs) = specHistory proj g m (f₂.zip progs) := by
    intro progs
    induction progs with
    | nil => intro f₁ f₂ m _ _; simp [specHistory]
    | cons p rest ih =>
      intro f₁ f₂ m h1 h2
      cases f₁ with
      | nil => simp at h1
      | cons a f₁ =>
        cases f₂ with
        | nil => simp at h2
        | cons b f₂ =>
          simp only [List.zip_cons_cons, specHistory]
          exact ih f₁ f₂ _ (by simpa using h1) (by simpa using h2)
  rw [key progs f₁ f₂ _ hl₁ hl₂]

/-- **C08_answer_indep** (point reads): two coherent caches over the same committed bucket — warm,
just evicted, cold after restart, disabled — answer `Get` alike -/
theorem C08_answer_indep_get {st : Storable K V} {proj : V → P} {ok : K → V → KV → Prop} {c₁ c₂ : Cache K V} {kv : KV}
    (h₁ : Coherent st proj ok c₁ kv) (h₂ : Coherent st proj ok c₂ kv) (id : K) :
    (get st c₁ kv id).2.map proj = (get st c₂ kv id).2.map proj := by
  rw [(get_spec st proj c₁ kv id).1, (get_spec st proj c₂ kv id).1, coherent_view h₁, coherent_view h₂]

/-- **C08_answer_indep** (scans): `ForEach` succeeds on both and enumerates, up to order, the same
projected items: exactly the ids the committed bucket holds, each once -/
theorem C08_answer_indep {st : Storable K V} {proj : V → P} {ok : K → V → KV → Prop} {wf : KV → Prop}
    (L : Laws st proj ok) (E : EnumLaws st wf) {c₁ c₂ : Cache K V} {kv : KV} (hwf : wf kv)
    (h₁ : Coherent st proj ok c₁ kv) (h₂ : Coherent st proj ok c₂ kv) :
    ∃ c₁' l₁ c₂' l₂, forEach st c₁ kv = some (c₁', l₁) ∧ forEach st c₂ kv = some (c₂', l₂) ∧
      (l₁.map fun p => (p.1, proj p.2)) ~ (l₂.map fun p => (p.1, proj p.2)) ∧
      ∀ id p, (id, p) ∈ (l₁.map fun p => (p.1, proj p.2)) ↔ obs st proj kv id = some p := by
  obtain ⟨c₁', l₁, e₁, _, _, _, n₁, s₁⟩ := forEach_spec L E hwf h₁.tracked
  obtain ⟨c₂', l₂, e₂, _, _, _, n₂, s₂⟩ := forEach_spec L E hwf h₂.tracked
  have mem : ∀ (l : List (K × V)) (c : Cache K V), Coherent st proj ok c kv →
      (∀ id p, view st proj c.items kv id = some p ↔ ∃ v, (id, v) ∈ l ∧ proj v = p) →
      ∀ id p, (id, p) ∈ (l.map fun q => (q.1, proj q.2)) ↔ obs st proj kv id = some p := by
    intro l c hc hs id p
    rw [← coherent_view hc id, hs id p]
    simp only [List.mem_map, Prod.mk.injEq]
    constructor
    · rintro ⟨⟨k, v⟩, hm, rfl, rfl⟩; exact ⟨v, hm, rfl⟩
    · rintro ⟨v, hm, rfl⟩; exact ⟨(id, v), hm, rfl, rfl⟩
  have nd : ∀ (l : List (K × V)), (l.map (·.1)).Nodup → (l.map fun q => (q.1, proj q.2)).Nodup := by
    intro l hn
    apply List.Nodup.of_map (fun q : K × P => q.1)
    simpa [List.map_map, Function.comp_def] using hn
  refine ⟨c₁', l₁, c₂', l₂, e₁, e₂, ?_, mem l₁ c₁ h₁ s₁⟩
  rw [List.perm_ext_iff_of_nodup (nd l₁ n₁) (nd l₂ n₂)]
  rintro ⟨id, p⟩
  rw [mem l₁ c₁ h₁ s₁ id p, mem l₂ c₂ h₂ s₂ id p]

/-! ### read-only and failing transactions (ReadOnly.lean)

`C08_history` knows committed writes only.  A shard also runs SEARCHES — read-only transactions that go through
the same shared cache (`Get` reads through and remembers, `ForEach` loads the whole bucket and sets
`isAllInCache`), never flush and leave the bucket alone — and write transactions that FAIL: bbolt rolls the
bucket back (assumed) and `Commit(true)` drops every cache the transaction wrote (C11_failed_dropped). -/

/-- **a search leaves the shared cache coherent**: whatever `Get`s and `ForEach`es a read-only transaction
issues on a coherent cache, the cache it leaves behind (possibly populated, possibly with `isAllInCache`) is
coherent with the unchanged bucket — so the next transaction, on this cache or on a fresh one, still sees
exactly the committed bucket -/
theorem C08_search_coherent {st : Storable K V} {proj : V → P} {ok : K → V → KV → Prop} {wf : KV → Prop}
    (L : Laws st proj ok) (E : EnumLaws st wf) {c : Cache K V} {kv : KV} (hwf : wf kv)
    (h : Coherent st proj ok c kv) (rs : List (Read K)) :
    Coherent st proj ok (rs.foldl (applyRead st kv) c) kv ∧
    ∀ id, view st proj (rs.foldl (applyRead st kv) c).items kv id = obs st proj kv id :=
  ⟨coherent_applyReads L E hwf rs h, fun id => coherent_view (coherent_applyReads L E hwf rs h) id⟩

/-- **histories of committed writes, searches and failed writes**, with the manager keeping or dropping the
shared cache before each transaction as it likes: the cache stays coherent, and the bucket holds exactly the
effects of the COMMITTED writes — `specMixed` ignores the fates, the searches and the failed writes -/
theorem C08_history_mixed {st : Storable K V} {proj : V → P} {ok : K → V → KV → Prop} {wf : KV → Prop}
    (g : (K → V → V) → K → P → P) (L : Laws st proj ok) (E : EnumLaws st wf) (W : WfLaws st ok wf)
    (hist : List (Fate × Tx K V)) {c : Cache K V} {kv : KV} (hwf : wf kv)
    (h : Coherent st proj ok c kv) (hrun : OkMixed st proj ok g (c, kv) hist) :
    Coherent st proj ok (runMixed st (c, kv) hist).1 (runMixed st (c, kv) hist).2 ∧
    wf (runMixed st (c, kv) hist).2 ∧
    ∀ id, obs st proj (runMixed st (c, kv) hist).2 id = specMixed proj g (obs st proj kv) hist id :=
  runMixed_spec g L E W hist hwf h hrun

/-- **the cache of a failed write must go** (closed witness on the extracted binary plan): a write that put a
point and then failed — bucket rolled back.  If the cache were kept (`runTxKeepFailed`) the next transaction
would see the point that was never committed (`view ≠ obs`); dropped, as the code does, it does not. -/
theorem C08_failed_kept_witness :
    (let st := storable binaryQuantizedPoint
     let t : Fate × Tx Id Pt := (.keep, .failed [.put 5#64 { vec := [1#8] }])
     view st norm (runTxKeepFailed st (Cache.empty, KV.empty) t).1.items (runTxKeepFailed st (Cache.empty, KV.empty) t).2 5#64
        ≠ obs st norm (runTxKeepFailed st (Cache.empty, KV.empty) t).2 5#64 ∧
     view st norm (runTx st (Cache.empty, KV.empty) t).1.items (runTx st (Cache.empty, KV.empty) t).2 5#64
        = obs st norm (runTx st (Cache.empty, KV.empty) t).2 5#64) := by
  decide

/-! ### backends -/

/-- **C08_backend**: the bbolt backend (failed batches rolled back) and the memory backend (no
rollback) agree after every history in which all batches succeed -/
theorem C08_backend (bs : List Batch) (kv : KV)
    (hok : ∀ b, b ∈ bs → ∀ kv', (b.run kv').2 = true) :
    bs.foldl stepBolt kv = bs.foldl stepMem kv := by
  induction bs generalizing kv with
  | nil => rfl
  | cons b rest ih =>
    simp only [List.foldl_cons]
    have : stepBolt kv b = stepMem kv b := by simp [stepBolt, stepMem, hok b List.mem_cons_self kv]
    rw [this]
    exact ih _ (fun b' hb' => hok b' (List.mem_cons_of_mem _ hb'))

/-- …and a failing batch is where they part: bbolt keeps the old bucket -/
theorem C08_backend_rollback (b : Batch) (kv : KV) (h : (b.run kv).2 = false) : stepBolt kv b = kv := by
  simp [stepBolt, h]

/-! ### instances: the storables whose plans are extracted from the source -/

/-- **C08_flush** for the three vector-store point types and the graph node -/
theorem C08_flush_plain {c : Cache Id Pt} {kv : KV} (h : Tracked (storable plainPoint) norm okPlain c kv) :
    Coherent (storable plainPoint) norm okPlain (flush (storable plainPoint) c kv).1 (flush (storable plainPoint) c kv).2 ∧
    ∀ id, obs (storable plainPoint) norm (flush (storable plainPoint) c kv).2 id = view (storable plainPoint) norm c.items kv id :=
  C08_flush laws_plain h

theorem C08_flush_binary {c : Cache Id Pt} {kv : KV} (h : Tracked (storable binaryQuantizedPoint) norm okQ c kv) :
    Coherent (storable binaryQuantizedPoint) norm okQ (flush (storable binaryQuantizedPoint) c kv).1
      (flush (storable binaryQuantizedPoint) c kv).2 ∧
    ∀ id, obs (storable binaryQuantizedPoint) norm (flush (storable binaryQuantizedPoint) c kv).2 id =
      view (storable binaryQuantizedPoint) norm c.items kv id :=
  C08_flush laws_binary h

theorem C08_flush_product {c : Cache Id Pt} {kv : KV} (h : Tracked (storable productQuantizedPoint) norm okP c kv) :
    Coherent (storable productQuantizedPoint) norm okP (flush (storable productQuantizedPoint) c kv).1
      (flush (storable productQuantizedPoint) c kv).2 ∧
    ∀ id, obs (storable productQuantizedPoint) norm (flush (storable productQuantizedPoint) c kv).2 id =
      view (storable productQuantizedPoint) norm c.items kv id :=
  C08_flush laws_product h

theorem C08_flush_graphNode {c : Cache Id Pt} {kv : KV} (h : Tracked (storable graphNode) norm okPlain c kv) :
    Coherent (storable graphNode) norm okPlain (flush (storable graphNode) c kv).1 (flush (storable graphNode) c kv).2 ∧
    ∀ id, obs (storable graphNode) norm (flush (storable graphNode) c kv).2 id = view (storable graphNode) norm c.items kv id :=
  C08_flush laws_graphNode h

/-- the write precondition and bucket invariant that go with each extracted plan -/
def okOf : Kind → Id → Pt → KV → Prop
  | .plain => okPlain
  | .binary => okQ
  | .product => okP

def wfOf : Kind → KV → Prop
  | .plain => fun _ => True
  | .binary => fun _ => True
  | .product => wfProduct

theorem laws_of (k : Kind) : Laws (storable (planOf k)) norm (okOf k) := by
  cases k
  · exact laws_plain
  · exact laws_binary
  · exact laws_product

theorem enum_of (k : Kind) : EnumLaws (storable (planOf k)) (wfOf k) := by
  cases k
  · exact enum_plain
  · exact enum_binary
  · exact enum_product

theorem wf_of (k : Kind) : WfLaws (storable (planOf k)) (okOf k) (wfOf k) := by
  cases k
  · exact wf_trivial _ _
  · exact wf_trivial _ _
  · exact wf_product

/-- **C08_answer_indep**, instantiated: for each vector store, any two coherent caches over the
same committed bucket enumerate the same projected points -/
theorem C08_answer_indep_partial (k : Kind) {c₁ c₂ : Cache Id Pt} {kv : KV} (hwf : wfOf k kv)
    (h₁ : Coherent (storable (planOf k)) norm (okOf k) c₁ kv) (h₂ : Coherent (storable (planOf k)) norm (okOf k) c₂ kv) :
    ∃ c₁' l₁ c₂' l₂, forEach (storable (planOf k)) c₁ kv = some (c₁', l₁) ∧ forEach (storable (planOf k)) c₂ kv = some (c₂', l₂) ∧
      (l₁.map fun p => (p.1, norm p.2)) ~ (l₂.map fun p => (p.1, norm p.2)) ∧
      ∀ id p, (id, p) ∈ (l₁.map fun p => (p.1, norm p.2)) ↔ obs (storable (planOf k)) norm kv id = some p :=
  C08_answer_indep (laws_of k) (enum_of k) hwf h₁ h₂

/-- **durability**, instantiated for each vector store -/
theorem C08_history_partial (k : Kind) (g : (Id → Pt → Pt) → Id → Pt → Pt)
    (hist : List (Fate × List (Op Id Pt))) {c : Cache Id Pt} {kv : KV} (hwf : wfOf k kv)
    (h : Coherent (storable (planOf k)) norm (okOf k) c kv)
    (hrun : OkRun (storable (planOf k)) norm (okOf k) g (c, kv) hist) :
    Coherent (storable (planOf k)) norm (okOf k) (runHistory (storable (planOf k)) (c, kv) hist).1
      (runHistory (storable (planOf k)) (c, kv) hist).2 ∧
    wfOf k (runHistory (storable (planOf k)) (c, kv) hist).2 ∧
    ∀ id, obs (storable (planOf k)) norm (runHistory (storable (planOf k)) (c, kv) hist).2 id =
      specHistory norm g (obs (storable (planOf k)) norm kv) hist id :=
  C08_history g (laws_of k) (enum_of k) (wf_of k) hist hwf h hrun

/-- same for the graph node of the Vamana index -/
theorem C08_history_graphNode (g : (Id → Pt → Pt) → Id → Pt → Pt)
    (hist : List (Fate × List (Op Id Pt))) {c : Cache Id Pt} {kv : KV}
    (h : Coherent (storable graphNode) norm okPlain c kv)
    (hrun : OkRun (storable graphNode) norm okPlain g (c, kv) hist) :
    ∀ id, obs (storable graphNode) norm (runHistory (storable graphNode) (c, kv) hist).2 id =
      specHistory norm g (obs (storable graphNode) norm kv) hist id :=
  (C08_history g laws_graphNode enum_graphNode (wf_trivial _ _) hist trivial h hrun).2.2

/-- `C08_history_mixed`, instantiated for each vector store -/
theorem C08_history_mixed_partial (k : Kind) (g : (Id → Pt → Pt) → Id → Pt → Pt)
    (hist : List (Fate × Tx Id Pt)) {c : Cache Id Pt} {kv : KV} (hwf : wfOf k kv)
    (h : Coherent (storable (planOf k)) norm (okOf k) c kv)
    (hrun : OkMixed (storable (planOf k)) norm (okOf k) g (c, kv) hist) :
    Coherent (storable (planOf k)) norm (okOf k) (runMixed (storable (planOf k)) (c, kv) hist).1
      (runMixed (storable (planOf k)) (c, kv) hist).2 ∧
    wfOf k (runMixed (storable (planOf k)) (c, kv) hist).2 ∧
    ∀ id, obs (storable (planOf k)) norm (runMixed (storable (planOf k)) (c, kv) hist).2 id =
      specMixed norm g (obs (storable (planOf k)) norm kv) hist id :=
  C08_history_mixed g (laws_of k) (enum_of k) (wf_of k) hist hwf h hrun

/-- `C08_search_coherent`, instantiated for each vector store -/
theorem C08_search_coherent_partial (k : Kind) {c : Cache Id Pt} {kv : KV} (hwf : wfOf k kv)
    (h : Coherent (storable (planOf k)) norm (okOf k) c kv) (rs : List (Read Id)) :
    Coherent (storable (planOf k)) norm (okOf k) (rs.foldl (applyRead (storable (planOf k)) kv) c) kv ∧
    ∀ id, view (storable (planOf k)) norm (rs.foldl (applyRead (storable (planOf k)) kv) c).items kv id =
      obs (storable (planOf k)) norm kv id :=
  C08_search_coherent (laws_of k) (enum_of k) hwf h rs

/-! ### training (`Fit`) is an allowed operation of a history

`OpOk … (.mutate f)` judges the rewrite on the values a transaction can hold for an id (one that agrees with
the bucket, or one waiting to be written).  For the quantisers' `Fit` — set the code, raise `isDirty` — it
holds on every (well-formed) bucket, so `C08_history_partial` / `C08_history_mixed_partial` are not vacuous
for histories that contain training, the product quantiser included (it was: the audit's scratch witness). -/

/-- the rewrite `Fit` performs on every cached point: the new code, `isDirty` raised (vector untouched) -/
def fitRewrite (code : Id → Bytes) : Id → Pt → Pt := fun id p => { p with code := code id, dirty := true }

/-- its effect on the persisted projection -/
def fitSpec : (Id → Pt → Pt) → Id → Pt → Pt := fun f id p => norm (f id p)

theorem C08_fit_opok_binary (kv : KV) (code : Id → Bytes) (hcode : ∀ id, code id ≠ []) :
    OpOk (storable binaryQuantizedPoint) norm okQ fitSpec kv (.mutate (fitRewrite code)) := by
  intro id v _
  refine ⟨by simp [fitRewrite, storable, binaryQuantizedPoint], ⟨Or.inl (hcode id), fun hc => absurd hc (hcode id)⟩, ?_⟩
  simp [fitSpec, fitRewrite, norm, hcode id]

theorem C08_fit_opok_product (kv : KV) (hwf : wfProduct kv) (code : Id → Bytes) (hcode : ∀ id, code id ≠ []) :
    OpOk (storable productQuantizedPoint) norm okP fitSpec kv (.mutate (fitRewrite code)) := by
  intro id v hv
  refine ⟨by simp [fitRewrite, storable, productQuantizedPoint],
    ⟨⟨Or.inl (hcode id), fun hc => absurd hc (hcode id)⟩, ?_⟩, ?_⟩
  · intro hvec
    have hvec' : v.vec = [] := hvec
    rcases hv with ho | ho
    · -- the value agrees with the bucket: the point is stored, and a stored point has its vector key
      have hr : ((storable productQuantizedPoint).readFrom id kv).isSome := by
        unfold obs at ho
        cases hr : (storable productQuantizedPoint).readFrom id kv <;> simp [hr] at ho ⊢
      have hq := hwf id
      show (kv.get (nodeKey id 0x76#8)).isSome
      revert hr hq
      plan_simp []
      cases kv.get (nodeKey id 0x71#8) <;> cases kv.get (nodeKey id 0x76#8) <;> simp
    · exact ho.2 hvec'
  · simp [fitSpec, fitRewrite, norm, hcode id]

/-! ### persisted parameters -/

/-- the learned binary threshold survives: after `Flush` a store re-created on the bucket
(`vectorstore.New` after eviction / restart) has the parameters the flushing store had.  Holds
because `Flush` puts the key that the constructor gets (generated facts) and the item flush does not
touch non-node keys.  Preconditions: a configured threshold is the one in use; a store that is
still untrained sits on a bucket without a stored threshold. -/
theorem C08_params_persist_binary (s : Store) (kv : KV) (hk : s.cfg.kind = .binary)
    (ht : Tracked s.st norm okQ s.cache kv)
    (hfixed : ∀ t, s.cfg.fixed = some t → s.params = t)
    (huntrained : s.params = [] → s.cfg.fixed = none → kv.get thresholdKey = none) :
    (Store.new s.cfg (s.flush kv).2).params = s.params := by
  have hst : s.st = storable binaryQuantizedPoint := by simp [Store.st, planOf, hk]
  rw [hst] at ht
  have hget := flush_get_other binaryQuantizedPoint laws_binary ht thresholdKey thresholdKey_ne
  unfold Store.new Store.flush
  simp only [hk, hst]
  cases hf : s.cfg.fixed with
  | some t => simp [hfixed t hf]
  | none =>
    by_cases hp : s.params = []
    · simp [binaryNewGetsThreshold, hp, hget, huntrained hp hf]
    · have hp' : s.params.isEmpty = false := by cases h : s.params <;> simp_all
      simp [binaryNewGetsThreshold, binaryFlushPutsThreshold, hp', get_put]

/-- the product quantiser's centroids survive likewise -/
theorem C08_params_persist_product (s : Store) (kv : KV) (hk : s.cfg.kind = .product)
    (ht : Tracked s.st norm okP s.cache kv)
    (huntrained : s.params = [] → kv.get flatCentroidsKey = none) :
    (Store.new s.cfg (s.flush kv).2).params = s.params ∧
    (s.params ≠ [] → (Store.new s.cfg (s.flush kv).2).aux = s.aux) := by
  have hst : s.st = storable productQuantizedPoint := by simp [Store.st, planOf, hk]
  rw [hst] at ht
  have hget := flush_get_other productQuantizedPoint laws_product ht flatCentroidsKey flatCentroidsKey_ne
  have hne : centroidDistsKey ≠ flatCentroidsKey := by
    simp [centroidDistsKey, flatCentroidsKey, productCentroidDistsKeyBytes, productFlatCentroidsKeyBytes]
  unfold Store.new Store.flush
  simp only [hk, hst]
  by_cases hp : s.params = []
  · simp [productNewGetsCentroids, hp, hget, huntrained hp]
  · have hp' : s.params.isEmpty = false := by cases h : s.params <;> simp_all
    simp [productNewGetsCentroids, productFlushPutsCentroids, hp', get_put, hne, hp]


/-! ### order of the persist steps: whatever rewrites cached values comes before the flush -/

/-- **C08_fit_then_flush**: training inside the batch, in the order of the source: after `Fit; Flush`
the cache is coherent with the new bucket and the bucket says what the transaction saw *after* the
training — the re-encoded points are on disk.  Needs what `C08_mutation_dirty` needs: each rewritten
value reports itself dirty (or keeps its projection) and satisfies the write precondition. -/
theorem C08_fit_then_flush {st : Storable K V} {proj : V → P} {ok : K → V → KV → Prop} (L : Laws st proj ok)
    {c : Cache K V} {kv : KV} (h : Tracked st proj ok c kv) (f : K → V → V)
    (hdirty : ∀ id e, find c.items id = some e → e.isDeleted = false →
      (st.checkClear (f id e.value)).1 = true ∨
      (proj (f id e.value) = proj e.value ∧ (st.checkClear (f id e.value)).1 = (st.checkClear e.value).1))
    (hok : ∀ id e, find c.items id = some e → e.isDeleted = false → ok id (f id e.value) kv) :
    Coherent st proj ok (runPhases st f [.fit, .flush] (c, kv)).1 (runPhases st f [.fit, .flush] (c, kv)).2 ∧
    ∀ id, obs st proj (runPhases st f [.fit, .flush] (c, kv)).2 id = view st proj (mapLive f c.items) kv id := by
  have ht := tracked_mapLive h f hdirty hok
  simpa [runPhases] using flush_spec L ht

/-- the instance the quantised stores use: `Fit` sets the code and raises `isDirty` (extracted:
`inPlaceMutations`), so the first disjunct of `hdirty` holds for every value -/
theorem C08_fit_then_flush_binary {c : Cache Id Pt} {kv : KV} (h : Tracked (storable binaryQuantizedPoint) norm okQ c kv)
    (code : Id → Bytes) (hcode : ∀ id, code id ≠ []) :
    let f : Id → Pt → Pt := fun id p => { p with code := code id, dirty := true }
    Coherent (storable binaryQuantizedPoint) norm okQ (runPhases (storable binaryQuantizedPoint) f [.fit, .flush] (c, kv)).1
      (runPhases (storable binaryQuantizedPoint) f [.fit, .flush] (c, kv)).2 ∧
    ∀ id, obs (storable binaryQuantizedPoint) norm (runPhases (storable binaryQuantizedPoint) f [.fit, .flush] (c, kv)).2 id =
      view (storable binaryQuantizedPoint) norm (mapLive f c.items) kv id := by
  intro f
  apply C08_fit_then_flush laws_binary h f
  · intro id e _ _
    left
    simp [f, storable, binaryQuantizedPoint]
  · intro id e _ _
    exact ⟨Or.inl (hcode id), fun hc => absurd hc (hcode id)⟩

/-- **the other order is not a refinement** (closed witness on the extracted binary plan): one
cached untrained point, `Flush; Fit`: the cache now shows the code, the committed bucket still the raw
vector — a fresh cache on the same bucket answers differently (`view ≠ obs`), and the entry is not even
scheduled for a later write unless its own dirty flag survives -/
theorem C08_flush_before_fit_witness :
    ∃ (c : Cache Id Pt) (kv : KV) (f : Id → Pt → Pt),
      Tracked (storable binaryQuantizedPoint) norm okQ c kv ∧
      (let r := runPhases (storable binaryQuantizedPoint) f [.flush, .fit] (c, kv)
       view (storable binaryQuantizedPoint) norm r.1.items r.2 5#64 ≠ obs (storable binaryQuantizedPoint) norm r.2 5#64) ∧
      (let r := runPhases (storable binaryQuantizedPoint) f [.fit, .flush] (c, kv)
       view (storable binaryQuantizedPoint) norm r.1.items r.2 5#64 = obs (storable binaryQuantizedPoint) norm r.2 5#64) := by
  refine ⟨put Cache.empty 5#64 { vec := [1#8] }, KV.empty, fun _ p => { p with code := [2#8], dirty := true }, ?_, by decide, by decide⟩
  exact tracked_put (coherent_empty _ _ _ _).tracked _ _ ⟨by simp, fun _ => by decide⟩

/-- the same at the level of the store's parameters: `Flush; Fit` leaves a store whose learned
threshold a re-created store (`vectorstore.New` after restart / eviction / with the cache disabled)
does not find, `Fit; Flush` one that it finds (cf. `C08_params_persist_binary`) -/
theorem C08_flush_before_fit_params_witness :
    ∃ (s : Store) (kv : KV) (o : FitOracle) (s₁ s₂ : Store),
      (s.flush kv).1.fit (s.flush kv).2 o = some s₁ ∧ s₁.trained = true ∧ (Store.new s.cfg (s.flush kv).2).trained = false ∧
      s.fit kv o = some s₂ ∧ (Store.new s.cfg (s₂.flush kv).2).params = s₂.params ∧ s₂.trained = true := by
  let s : Store := { cfg := { kind := .binary, trigger := 1 }, cache := put Cache.empty 5#64 { vec := [1#8] } }
  let o : FitOracle := { params := [7#8], code := fun _ => [2#8] }
  refine ⟨s, KV.empty, o, ((s.flush KV.empty).1.fit (s.flush KV.empty).2 o).get (by decide), (s.fit KV.empty o).get (by decide), ?_, ?_, ?_, ?_, ?_, ?_⟩ <;> first | simp | decide


/-! ### the batch that crosses the trigger threshold, at the level of the store (`Store.fit`, then `Store.flush`) -/

/-- a parameter key is invisible to the point plan: putting it keeps the cache coherent -/
theorem coherent_put_other_binary {c : Cache Id Pt} {kv : KV}
    (h : Coherent (storable binaryQuantizedPoint) norm okQ c kv) (pk x : Bytes) (hpk : ∀ id s, nodeKey id s ≠ pk) :
    Coherent (storable binaryQuantizedPoint) norm okQ c (kv.put pk x) := by
  have hr : ∀ id, (storable binaryQuantizedPoint).readFrom id (kv.put pk x) = (storable binaryQuantizedPoint).readFrom id kv := by
    intro id
    simp only [storable]
    exact readSteps_put_other id kv pk x hpk _ _
  have ho : ∀ id, obs (storable binaryQuantizedPoint) norm (kv.put pk x) id = obs (storable binaryQuantizedPoint) norm kv id := by
    intro id
    simp only [obs, hr]
  refine ⟨h.nodup, ?_, ?_, ?_⟩
  · intro id e hf
    obtain ⟨a, b, c'⟩ := h.agree id e hf
    exact ⟨a, b, by rw [ho]; exact c'⟩
  · intro id e hf hw
    obtain ⟨h1, h2⟩ := h.rewrite id e hf hw
    refine ⟨h1, fun hc => ?_⟩
    have hq : qKey id ≠ pk := hpk id _
    rw [get_put, if_neg hq]
    exact h2 hc
  · intro ha id hs
    rw [hr] at hs
    exact h.allIn ha id hs

/-- what `Store.fit` leaves behind is still a trackable cache, the configuration is untouched, and a
store that is untrained afterwards was untrained before (binary store, learned threshold) -/
theorem fit_tracked_binary (s s' : Store) (kv : KV) (o : FitOracle) (hk : s.cfg.kind = .binary)
    (ht : Tracked (storable binaryQuantizedPoint) norm okQ s.cache kv)
    (hcode : ∀ id, o.code id ≠ []) (hfit : s.fit kv o = some s') :
    Tracked (storable binaryQuantizedPoint) norm okQ s'.cache kv ∧ s'.cfg = s.cfg ∧ (s'.params = [] → s.params = []) := by
  have hst : s.st = storable binaryQuantizedPoint := by simp [Store.st, planOf, hk]
  unfold Store.fit at hfit
  simp only [hk, hst] at hfit
  split at hfit
  · cases hfit; exact ⟨ht, rfl, id⟩
  · rename_i hnot
    have huntr : s.params = [] := by
      simp only [Bool.or_eq_true, not_or, Store.trained] at hnot
      have := hnot.1
      cases hp : s.params <;> simp_all
    obtain ⟨c', l, hfe, htr', _, _, _, _⟩ := forEach_spec laws_binary enum_binary (wf := fun _ => True) trivial ht
    have hload : loadAll (storable binaryQuantizedPoint) s.cache kv = some c' := by
      unfold forEach at hfe
      cases hl : loadAll (storable binaryQuantizedPoint) s.cache kv with
      | none => rw [hl] at hfe; cases hfe
      | some c'' => rw [hl] at hfe; simp only [Option.map_some, Option.some.injEq, Prod.mk.injEq] at hfe; rw [hfe.1]
    rw [hload] at hfit
    simp only at hfit
    split at hfit
    · cases hfit; exact ⟨htr', rfl, fun _ => huntr⟩
    · cases hfit
      refine ⟨?_, rfl, fun _ => huntr⟩
      have := tracked_mapLive htr' (fun id p => ({ vec := (o.vec id).getD p.vec, code := o.code id, dirty := true } : Pt))
        (fun id e _ _ => Or.inl (by simp [storable, binaryQuantizedPoint]))
        (fun id e _ _ => ⟨Or.inl (hcode id), fun hc => absurd hc (hcode id)⟩)
      simpa [mapLive] using this

/-- **C08_train_in_batch_binary**: the write path of a vector index ends `Fit; Flush` (pinned above).
Whatever `Fit` decides — still below the trigger, already trained, or *trained in this very batch* —
after the `Flush` the cache is coherent with the committed bucket (re-encoded points included), and a
store re-created on that bucket (`vectorstore.New` after a restart / an eviction / with the cache
disabled) has exactly the parameters of the live store: warm and cold compute the same distances
from the same stored codes.  (`C08_flush_before_fit_params_witness` shows that the other order does
not have this property.) -/
theorem C08_train_in_batch_binary (s s' : Store) (kv : KV) (o : FitOracle)
    (hk : s.cfg.kind = .binary) (hfix : s.cfg.fixed = none)
    (ht : Tracked (storable binaryQuantizedPoint) norm okQ s.cache kv)
    (huntrained : s.params = [] → kv.get thresholdKey = none)
    (hcode : ∀ id, o.code id ≠ []) (hfit : s.fit kv o = some s') :
    Coherent (storable binaryQuantizedPoint) norm okQ (s'.flush kv).1.cache (s'.flush kv).2 ∧
    (Store.new s.cfg (s'.flush kv).2).params = s'.params := by
  obtain ⟨ht', hcfg, hun⟩ := fit_tracked_binary s s' kv o hk ht hcode hfit
  have hk' : s'.cfg.kind = .binary := by rw [hcfg]; exact hk
  have hst' : s'.st = storable binaryQuantizedPoint := by simp [Store.st, planOf, hk']
  constructor
  · have hf := (flush_spec laws_binary ht').1
    unfold Store.flush
    simp only [hk', hst']
    split
    · exact coherent_put_other_binary hf _ _ thresholdKey_ne
    · exact hf
  · have := C08_params_persist_binary s' kv hk' (by rw [hst']; exact ht')
      (fun t h => by rw [hcfg, hfix] at h; cases h)
      (fun hp _ => huntrained (hun hp))
    rw [← hcfg]
    exact this

/-! ### lifetime of bucket memory: what is cached across transactions must be a copy -/

/-- **C08_read_copies_stable**: if a `ReadFrom` keeps only copies, the projection of the cached
value does not depend on the bytes after the read: whatever later transactions do to the memory that
served it (`mem`: pages recycled by later commits, a remapped file), the cached item keeps the
projection it had inside the reading transaction — so the `agree` clause of `Coherent`, established
when the item was read, stays true for the life of the cache -/
theorem C08_read_copies_stable {K P : Type} (r : BRead K P) (hc : r.Copies) {id : K} {kv : KV} {hs : List Held}
    (h : r.keep id kv = some hs) (mem : Bytes → Option Bytes) : r.projAt mem hs = r.projNow kv hs := by
  unfold BRead.projNow BRead.projAt
  rw [held_bytes_own (hc id kv hs h) mem (fun k => kv.get k)]

/-- two caches that read the same bucket at different times (a long-lived warm one, a fresh one)
agree on every item, whatever happened to the memory in between -/
theorem C08_read_copies_warm_cold {K P : Type} (r : BRead K P) (hc : r.Copies) {id : K} {kv : KV} {hs : List Held}
    (h : r.keep id kv = some hs) (mem₁ mem₂ : Bytes → Option Bytes) : r.projAt mem₁ hs = r.projAt mem₂ hs := by
  rw [C08_read_copies_stable r hc h mem₁, C08_read_copies_stable r hc h mem₂]

/-- **an alias is not stable** (closed witness): a reader that keeps the code slice itself agrees
with the bucket inside its transaction and reads something else once a later commit has recycled
the page -/
theorem C08_alias_unstable_witness :
    ∃ (r : BRead Id (List (Option Bytes))) (kv : KV) (hs : List Held) (mem : Bytes → Option Bytes),
      r.keep 5#64 kv = some hs ∧ r.projNow kv hs = [some [1#8, 0#8]] ∧ r.projAt mem hs ≠ r.projNow kv hs ∧ ¬ r.Copies := by
  let r : BRead Id (List (Option Bytes)) :=
    { keep := fun id kv => (kv.get (qKey id)).map fun _ => [Held.alias (qKey id)], decode := fun l => l }
  refine ⟨r, KV.empty.put (qKey 5#64) [1#8, 0#8], [Held.alias (qKey 5#64)], fun _ => some [0#8, 1#8], by decide, by decide, by decide, ?_⟩
  intro hc
  obtain ⟨b, hb⟩ := hc 5#64 (KV.empty.put (qKey 5#64) [1#8, 0#8]) [Held.alias (qKey 5#64)] (by decide) _ (List.mem_singleton.2 rfl)
  cases hb

/-- a copying reader of the same key satisfies the hypothesis of `C08_read_copies_stable` -/
example : ∃ r : BRead Id (List (Option Bytes)), r.Copies ∧
    r.keep 5#64 (KV.empty.put (qKey 5#64) [1#8, 0#8]) = some [Held.own [1#8, 0#8]] := by
  refine ⟨{ keep := fun id kv => (kv.get (qKey id)).map fun b => [Held.own b], decode := fun l => l }, ?_, by decide⟩
  intro id kv hs h x hx
  simp only [Option.map_eq_some_iff] at h
  obtain ⟨b, _, rfl⟩ := h
  exact ⟨b, List.mem_singleton.1 hx⟩

/-! ### non-vacuity -/

/-- a two-suffix bucket with a cached, a dirty and a deleted entry: the hypotheses of `C08_flush`
hold (binary store, trained) -/
example : ∃ (c : Cache Id Pt) (kv : KV),
    Tracked (storable binaryQuantizedPoint) norm okQ c kv ∧ c.items.length = 2 ∧
    (flush (storable binaryQuantizedPoint) c kv).2 ≠ kv := by
  refine ⟨put (put Cache.empty 5#64 { vec := [1#8], code := [2#8] }) 6#64 { vec := [3#8], code := [4#8] }, KV.empty, ?_, rfl, by decide⟩
  have h0 : Tracked (storable binaryQuantizedPoint) norm okQ Cache.empty KV.empty :=
    (coherent_empty _ _ _ _).tracked
  exact tracked_put (tracked_put h0 _ _ ⟨by simp, by simp⟩) _ _ ⟨by simp, by simp⟩

/-- the committed bucket of the examples below: two points of a trained binary store, flushed -/
def exWarm : Cache Id Pt × KV :=
  flush (storable binaryQuantizedPoint)
    (put (put Cache.empty 5#64 { vec := [1#8], code := [2#8] }) 6#64 { vec := [3#8], code := [4#8] }) KV.empty

theorem exWarm_tracked : Tracked (storable binaryQuantizedPoint) norm okQ
    (put (put Cache.empty 5#64 { vec := [1#8], code := [2#8] }) 6#64 { vec := [3#8], code := [4#8] }) KV.empty :=
  tracked_put (tracked_put (coherent_empty _ _ _ _).tracked _ _ ⟨by simp, by simp⟩) _ _ ⟨by simp, by simp⟩

/-- `C08_answer_indep` / `C08_answer_indep_get` / `C04_warm_cold`: a NON-EMPTY coherent pair over the same
non-empty bucket — the warm cache that flushed the two points and a fresh one (restart / eviction) -/
example : Coherent (storable binaryQuantizedPoint) norm okQ exWarm.1 exWarm.2 ∧
    Coherent (storable binaryQuantizedPoint) norm okQ Cache.empty exWarm.2 ∧
    exWarm.1.items.length = 2 ∧ (keys exWarm.2).length = 2 ∧
    (get (storable binaryQuantizedPoint) exWarm.1 exWarm.2 5#64).2.map norm = some { code := [2#8] } ∧
    (get (storable binaryQuantizedPoint) Cache.empty exWarm.2 5#64).2.map norm = some { code := [2#8] } :=
  ⟨(C08_flush_binary exWarm_tracked).1, coherent_empty _ _ _ _, by decide, by decide, by decide, by decide⟩

/-- `C08_search_coherent`: a search on the fresh cache (a `Get`, then a `ForEach`) populates it (two items,
`isAllInCache`) — and it is still coherent -/
example : (([Read.get 5#64, Read.scan].foldl (applyRead (storable binaryQuantizedPoint) exWarm.2) Cache.empty).items.length = 2 ∧
    ([Read.get 5#64, Read.scan].foldl (applyRead (storable binaryQuantizedPoint) exWarm.2) Cache.empty).isAllInCache = true) ∧
    Coherent (storable binaryQuantizedPoint) norm okQ
      ([Read.get 5#64, Read.scan].foldl (applyRead (storable binaryQuantizedPoint) exWarm.2) Cache.empty) exWarm.2 :=
  ⟨by decide, (C08_search_coherent_partial .binary (kv := exWarm.2) trivial (coherent_empty _ _ _ _) _).1⟩

/-- `C08_history_partial .product` / `C08_history_mixed_partial .product` with TRAINING: the hypotheses hold on a
history of the product store that writes two raw points, is searched, suffers a failed write, and is then
trained (`Fit` rewrites both points) after an eviction — `OkMixed` is satisfiable with a `.mutate` -/
example : ∃ hist : List (Fate × Tx Id Pt),
    OkMixed (storable productQuantizedPoint) norm okP fitSpec (Cache.empty, KV.empty) hist ∧
    hist.length = 4 ∧ (keys (runMixed (storable productQuantizedPoint) (Cache.empty, KV.empty) hist).2).length = 4 := by
  let w1 : Fate × Tx Id Pt := (.keep, .write [.put 5#64 { vec := [1#8] }, .put 6#64 { vec := [3#8] }])
  let sr : Fate × Tx Id Pt := (.keep, .search [.get 5#64, .scan])
  let fl : Fate × Tx Id Pt := (.keep, .failed [.put 7#64 { vec := [9#8] }])
  let tr : Fate × Tx Id Pt := (.evict, .write [.mutate (fitRewrite fun _ => [2#8])])
  refine ⟨[w1, sr, fl, tr], ?_, rfl, by decide⟩
  have hok1 : ∀ op, op ∈ [Op.put 5#64 ({ vec := [1#8] } : Pt), Op.put 6#64 { vec := [3#8] }] →
      OpOk (storable productQuantizedPoint) norm okP fitSpec KV.empty op := by
    intro op hop
    simp only [List.mem_cons, List.mem_nil_iff, or_false] at hop
    rcases hop with rfl | rfl <;> exact ⟨⟨by simp, fun _ => by decide⟩, fun h => by simp at h⟩
  -- the bucket the training runs on is well-formed (it is the bucket after the first write)
  have hwf1 : wfProduct (runTx (storable productQuantizedPoint) (Cache.empty, KV.empty) w1).2 :=
    (runTx_spec fitSpec laws_product enum_product wf_product (c := Cache.empty) (kv := KV.empty)
      (by intro id h; simp [KV.empty, KV.get] at h) (coherent_empty _ _ _ _) w1 hok1).2.1
  refine ⟨hok1, trivial, trivial, ?_, trivial⟩
  intro op hop
  simp only [List.mem_cons, List.mem_nil_iff, or_false] at hop
  subst hop
  exact C08_fit_opok_product _ hwf1 _ (by intro _; simp)

/-- the backends differ on a failing batch, so `C08_backend`'s hypothesis is needed -/
example : ∃ (b : Batch) (kv : KV), stepBolt kv b ≠ stepMem kv b :=
  ⟨⟨fun kv => (kv.put [1#8] [2#8], false)⟩, KV.empty, by decide⟩

end Sema.C08
