/-
C08 line protocol: the generic ItemCache model over a fixed two-suffix storable (code under 'q',
else vector under 'v'; both recognised; a dirty flag of its own) — the harness runs the real
`cache.ItemCache` over a Storable with the same behaviour.

  reset                          NewItemCache on an empty bucket
  evict                          the manager dropped the cache (or restart): NewItemCache, same bucket
  get <id>                       vec/code/dirty | notfound
  put <id> <vec> <code> <dirty>  ok
  del <id>                       ok
  mutate <id> <code>             Get, then rewrite the value in place and raise its own flag → ok | notfound
  foreach                        id:vec/code,… (sorted) | error
  count                          n
  flush                          the bucket, key=value,… in key order
-/
import SemaModel.Base.DriverUtil
import SemaModel.C04.Model
namespace Sema.C08
open Sema Sema.C04 Sema.Gen.FactsC04

def toyPlan : Plan :=
  { write := [{ guard := some .code, suffix := 0x71#8, src := .code, ret := true },
              { guard := some .vec, suffix := 0x76#8, src := .vec, ret := false }],
    read := [{ suffix := 0x71#8, dst := .code, stopIfFound := true, failIfMissing := false },
             { suffix := 0x76#8, dst := .vec, stopIfFound := true, failIfMissing := true }],
    delete := [0x76#8, 0x71#8],
    ids := [0x71#8, 0x76#8],
    trackDirty := true }

def toy : Storable Id Pt := storable toyPlan

structure DS where
  c : Cache Id Pt := {}
  kv : KV := {}

def hx (b : Bytes) : String := if b.isEmpty then "-" else hexOfBytes b
def byt? (s : String) : Option Bytes := if s == "-" then some [] else bytesOfHex s
def nid? (s : String) : Option Id := (natOfHex s).map (BitVec.ofNat 64)
def showPt (p : Pt) : String := hx p.vec ++ "/" ++ hx p.code ++ "/" ++ (if p.dirty then "1" else "0")

def dig (kv : KV) : String :=
  if kv.entries.isEmpty then "-" else ",".intercalate (kv.entries.map fun e => hx e.1 ++ "=" ++ hx e.2)

def insById (x : Id × Pt) : List (Id × Pt) → List (Id × Pt)
  | [] => [x]
  | y :: ys => if x.1.toNat ≤ y.1.toNat then x :: y :: ys else y :: insById x ys

def dstep (s : DS) (line : String) : DS × String :=
  let bad := (s, "bad-op")
  match line.trimAscii.toString.splitOn " " with
  | ["reset"] => ({}, "ok")
  | ["evict"] => ({ s with c := Cache.empty }, "ok")
  | ["get", i] =>
    match nid? i with
    | some id => let r := get toy s.c s.kv id; ({ s with c := r.1 }, match r.2 with | some p => showPt p | none => "notfound")
    | none => bad
  | ["put", i, v, c, d] =>
    match nid? i, byt? v, byt? c with
    | some id, some vec, some code => ({ s with c := put s.c id { vec := vec, code := code, dirty := d == "1" } }, "ok")
    | _, _, _ => bad
  | ["del", i] =>
    match nid? i with
    | some id => ({ s with c := delete toy s.c s.kv id }, "ok")
    | none => bad
  | ["mutate", i, c] =>
    match nid? i, byt? c with
    | some id, some code =>
      let r := get toy s.c s.kv id
      match r.2 with
      | none => ({ s with c := r.1 }, "notfound")
      | some _ =>
        let items := r.1.items.map fun p =>
          if p.1 = id then (p.1, { p.2 with value := { p.2.value with code := code, dirty := true } }) else p
        ({ s with c := { r.1 with items := items } }, "ok")
    | _, _ => bad
  | ["foreach"] =>
    match forEach toy s.c s.kv with
    | some (c', l) =>
      let sorted := l.foldl (fun acc x => insById x acc) []
      ({ s with c := c' }, if l.isEmpty then "-" else
        ",".intercalate (sorted.map fun x => hexOfNat 16 x.1.toNat ++ ":" ++ hx x.2.vec ++ "/" ++ hx x.2.code))
    | none => (s, "error")
  | ["count"] => (s, toString (count toy s.c s.kv))
  | ["flush"] => let r := flush toy s.c s.kv; ({ c := r.1, kv := r.2 }, dig r.2)
  | _ => bad

end Sema.C08

def Sema.C08.driverMain (stdin stdout : IO.FS.Stream) (_args : List String) : IO Unit :=
  Sema.loopState stdin stdout Sema.C08.dstep ({} : Sema.C08.DS)
