/-
C08 — lemmas: the bucket as a finite map (`get` after `put` / `delete`), the Go map of the item
cache (`find` after `set`), and the refinement "ItemCache + bucket = overlay map" used by Props.
Core Lean only (no Mathlib needed).
-/
import SemaModel.C08.Model
namespace Sema.C08
open Sema List

/-! ### the bucket as a finite map -/

def keys (kv : KV) : List Bytes := kv.entries.map (·.1)

theorem bne_of_ne {a b : Bytes} (h : a ≠ b) : (a == b) = false := by
  simpa [beq_eq_false_iff_ne] using h

theorem find_insertSorted (k v k' : Bytes) (l : List (Bytes × Bytes)) :
    (KV.insertSorted k v l).find? (fun e => e.1 == k') =
      if k' = k then some (k, v) else l.find? (fun e => e.1 == k') := by
  induction l with
  | nil =>
    by_cases h : k' = k
    · subst h; simp [KV.insertSorted]
    · simp [KV.insertSorted, h, bne_of_ne (fun e => h e.symm)]
  | cons e rest ih =>
    unfold KV.insertSorted
    by_cases h : k' = k
    · subst h
      by_cases h1 : lexLt k' e.1 = true
      · simp [h1]
      · by_cases h2 : (k' == e.1) = true
        · simp [h1, h2]
        · have hk : e.1 ≠ k' := fun x => h2 (by simp [x])
          simp [h1, h2, List.find?_cons, bne_of_ne hk, ih]
    · have hkk : (k == k') = false := bne_of_ne (fun e => h e.symm)
      by_cases h1 : lexLt k e.1 = true
      · simp [h1, List.find?_cons, hkk, h]
      · by_cases h2 : (k == e.1) = true
        · have hk : k = e.1 := by simpa using h2
          have h3 : (e.1 == k') = false := by rw [← hk]; exact hkk
          simp [h1, h2, List.find?_cons, hkk, h, h3]
        · simp [h1, h2, List.find?_cons, ih, h]

theorem get_put (kv : KV) (k v k' : Bytes) :
    (kv.put k v).get k' = if k' = k then some v else kv.get k' := by
  unfold KV.get KV.put
  simp only [find_insertSorted]
  by_cases h : k' = k <;> simp [h]

theorem find_filter_ne (k k' : Bytes) (h : k' ≠ k) (l : List (Bytes × Bytes)) :
    (l.filter (fun e => !(e.1 == k))).find? (fun e => e.1 == k') = l.find? (fun e => e.1 == k') := by
  induction l with
  | nil => rfl
  | cons e rest ih =>
    by_cases he : e.1 = k
    · have h3 : (e.1 == k') = false := by rw [he]; exact bne_of_ne (fun x => h x.symm)
      have h4 : (e.1 == k) = true := by simp [he]
      simp only [List.filter_cons, h4, Bool.not_true, Bool.false_eq_true, if_false, List.find?_cons, h3, ih]
    · have h4 : (e.1 == k) = false := bne_of_ne he
      simp only [List.filter_cons, h4, Bool.not_false, if_true, List.find?_cons, ih]

theorem get_delete (kv : KV) (k k' : Bytes) :
    (kv.delete k).get k' = if k' = k then none else kv.get k' := by
  unfold KV.get KV.delete
  simp only
  by_cases h : k' = k
  · subst h
    simp only [if_true, Option.map_eq_none_iff]
    apply List.find?_eq_none.2
    intro x hx
    have := (List.mem_filter.1 hx).2
    simpa using this
  · simp only [h, if_false, find_filter_ne k k' h]

theorem get_isSome_iff (kv : KV) (k : Bytes) : (kv.get k).isSome ↔ k ∈ keys kv := by
  unfold KV.get keys
  simp only [Option.isSome_map, List.find?_isSome, List.mem_map]
  constructor
  · rintro ⟨e, he, hk⟩; exact ⟨e, he, by simpa using hk⟩
  · rintro ⟨e, he, hk⟩; exact ⟨e, he, by simpa using hk⟩

theorem mem_keys_put (kv : KV) (k v k' : Bytes) : k' ∈ keys (kv.put k v) ↔ k' = k ∨ k' ∈ keys kv := by
  rw [← get_isSome_iff, ← get_isSome_iff, get_put]
  by_cases h : k' = k <;> simp [h]

theorem mem_keys_delete (kv : KV) (k k' : Bytes) : k' ∈ keys (kv.delete k) ↔ k' ≠ k ∧ k' ∈ keys kv := by
  rw [← get_isSome_iff, ← get_isSome_iff, get_delete]
  by_cases h : k' = k <;> simp [h]

/-! ### the Go map of the cache -/

variable {K V P : Type} [DecidableEq K]

def keysOf (items : List (K × Elem V)) : List K := items.map (·.1)

abbrev NodupKeys (items : List (K × Elem V)) : Prop := (keysOf items).Nodup

theorem find_set_same (items : List (K × Elem V)) (id : K) (e : Elem V) : find (set items id e) id = some e := by
  induction items with
  | nil => simp [set, find]
  | cons p rest ih =>
    obtain ⟨k, x⟩ := p
    by_cases h : k = id <;> simp [set, find, h, ih]

theorem find_set_other (items : List (K × Elem V)) (id id' : K) (e : Elem V) (h : id' ≠ id) :
    find (set items id e) id' = find items id' := by
  have h' : ¬ id = id' := fun x => h x.symm
  induction items with
  | nil => simp [set, find, h']
  | cons p rest ih =>
    obtain ⟨k, x⟩ := p
    by_cases hk : k = id
    · subst hk; simp [set, find, h']
    · by_cases hk' : k = id'
      · subst hk'; simp [set, find, hk]
      · simp [set, find, hk, hk', ih]

theorem find_set (items : List (K × Elem V)) (id id' : K) (e : Elem V) :
    find (set items id e) id' = if id' = id then some e else find items id' := by
  by_cases h : id' = id
  · subst h; simp [find_set_same]
  · simp [h, find_set_other _ _ _ _ h]

theorem find_isSome_iff (items : List (K × Elem V)) (id : K) : (find items id).isSome ↔ id ∈ keysOf items := by
  induction items with
  | nil => simp [find, keysOf]
  | cons p rest ih =>
    obtain ⟨k, x⟩ := p
    by_cases h : k = id
    · subst h; simp [find, keysOf]
    · have ih' : (find rest id).isSome = true ↔ id ∈ List.map (fun x => x.1) rest := ih
      have h' : ¬ id = k := fun e => h (Eq.symm e)
      simp [find, keysOf, h, ih', h']

theorem find_eq_none_iff (items : List (K × Elem V)) (id : K) : find items id = none ↔ id ∉ keysOf items := by
  rw [← find_isSome_iff]; cases find items id <;> simp

theorem keysOf_set (items : List (K × Elem V)) (id : K) (e : Elem V) :
    keysOf (set items id e) = if id ∈ keysOf items then keysOf items else keysOf items ++ [id] := by
  induction items with
  | nil => simp [set, keysOf]
  | cons p rest ih =>
    obtain ⟨k, x⟩ := p
    have ih' : List.map (fun x => x.1) (set rest id e) =
        if id ∈ List.map (fun x => x.1) rest then List.map (fun x => x.1) rest else List.map (fun x => x.1) rest ++ [id] := ih
    by_cases h : k = id
    · subst h; simp [set, keysOf]
    · by_cases hm : id ∈ List.map (fun x => x.1) rest
      · simp [set, keysOf, h, ih', hm]
      · have h' : ¬ id = k := fun e => h (Eq.symm e)
        simp [set, keysOf, h, ih', hm, h']

theorem nodup_set {items : List (K × Elem V)} (h : NodupKeys items) (id : K) (e : Elem V) :
    NodupKeys (set items id e) := by
  unfold NodupKeys
  rw [keysOf_set]
  split
  · exact h
  · rename_i hn
    exact List.nodup_append.2 ⟨h, by simp, by
      intro a ha b hb
      simp only [List.mem_singleton] at hb
      subst hb
      intro hab; subst hab; exact hn ha⟩

theorem mem_of_find {items : List (K × Elem V)} {id : K} {e : Elem V} (h : find items id = some e) :
    (id, e) ∈ items := by
  induction items with
  | nil => simp [find] at h
  | cons p rest ih =>
    obtain ⟨k, x⟩ := p
    by_cases hk : k = id
    · subst hk; simp [find] at h; subst h; simp
    · simp [find, hk] at h; exact List.mem_cons_of_mem _ (ih h)

theorem find_of_mem {items : List (K × Elem V)} (hn : NodupKeys items) {id : K} {e : Elem V}
    (h : (id, e) ∈ items) : find items id = some e := by
  induction items with
  | nil => simp at h
  | cons p rest ih =>
    obtain ⟨k, x⟩ := p
    have hn' := List.nodup_cons.1 hn
    rcases List.mem_cons.1 h with h | h
    · cases h; simp [find]
    · have : k ≠ id := by
        intro hk; subst hk
        exact hn'.1 (List.mem_map.2 ⟨(k, e), h, rfl⟩)
      simp [find, this]; exact ih hn'.2 h


/-! ### ItemCache + bucket = overlay map -/

/-- what the bucket alone says about `id`, projected to the observation-relevant part -/
def obs (st : Storable K V) (proj : V → P) (kv : KV) (id : K) : Option P := (st.readFrom id kv).map proj

/-- `Flush` writes this entry -/
def needsWrite (st : Storable K V) (e : Elem V) : Bool := e.isDirty || (st.checkClear e.value).1

/-- the map a transaction sees through the cache: cached entries shadow the bucket -/
def view (st : Storable K V) (proj : V → P) (items : List (K × Elem V)) (kv : KV) (id : K) : Option P :=
  match find items id with
  | some e => if e.isDeleted then none else some (proj e.value)
  | none => obs st proj kv id

/-- what a `Storable` must satisfy for the cache to be a faithful write-back cache.  `ok id v kv`
is the precondition under which writing `v` makes `v` readable again (e.g. "a vector or a code is
present, and a point without code is not shadowed by a stale code key"). -/
structure Laws (st : Storable K V) (proj : V → P) (ok : K → V → KV → Prop) : Prop where
  write_read : ∀ id v kv, ok id v kv → obs st proj (st.writeTo id v kv) id = some (proj v)
  write_frame : ∀ id id' v kv, id' ≠ id → st.readFrom id' (st.writeTo id v kv) = st.readFrom id' kv
  delete_read : ∀ id kv, st.readFrom id (st.deleteFrom id kv) = none
  delete_frame : ∀ id id' kv, id' ≠ id → st.readFrom id' (st.deleteFrom id kv) = st.readFrom id' kv
  ok_write_frame : ∀ id id' v v' kv, id' ≠ id → ok id' v' kv → ok id' v' (st.writeTo id v kv)
  ok_delete_frame : ∀ id id' v' kv, id' ≠ id → ok id' v' kv → ok id' v' (st.deleteFrom id kv)
  clear_proj : ∀ v, proj (st.checkClear v).2 = proj v
  ok_clear : ∀ id v kv, ok id v kv → ok id (st.checkClear v).2 kv
  read_clean : ∀ id kv v, st.readFrom id kv = some v → (st.checkClear v).1 = false
  clear_idem : ∀ v, (st.checkClear (st.checkClear v).2).1 = false
  ok_after_write : ∀ id v kv, ok id v kv → ok id v (st.writeTo id v kv)

/-- the entry `Flush` leaves in the cache for a live entry -/
def cleanElem (st : Storable K V) (e : Elem V) : Elem V :=
  if e.isDirty then { e with isDirty := false }
  else if (st.checkClear e.value).1 then { e with value := (st.checkClear e.value).2 } else e

def cleanItems (st : Storable K V) (items : List (K × Elem V)) : List (K × Elem V) :=
  items.filterMap fun p => if p.2.isDeleted then none else some (p.1, cleanElem st p.2)

theorem flushItem_deleted (st : Storable K V) (kept : List (K × Elem V)) (kv : KV) (id : K) (e : Elem V)
    (h : e.isDeleted = true) : flushItem st (kept, kv) (id, e) = (kept, st.deleteFrom id kv) := by
  simp [flushItem, h]

theorem flushItem_dirty (st : Storable K V) (kept : List (K × Elem V)) (kv : KV) (id : K) (e : Elem V)
    (h : e.isDeleted = false) (h2 : e.isDirty = true) :
    flushItem st (kept, kv) (id, e) = (kept ++ [(id, { e with isDirty := false })], st.writeTo id e.value kv) := by
  simp [flushItem, h, h2]

theorem flushItem_vdirty (st : Storable K V) (kept : List (K × Elem V)) (kv : KV) (id : K) (e : Elem V)
    (h : e.isDeleted = false) (h2 : e.isDirty = false) (h3 : (st.checkClear e.value).1 = true) :
    flushItem st (kept, kv) (id, e) =
      (kept ++ [(id, { e with value := (st.checkClear e.value).2 })], st.writeTo id (st.checkClear e.value).2 kv) := by
  simp [flushItem, h, h2, h3]

theorem flushItem_clean (st : Storable K V) (kept : List (K × Elem V)) (kv : KV) (id : K) (e : Elem V)
    (h : e.isDeleted = false) (h2 : e.isDirty = false) (h3 : (st.checkClear e.value).1 = false) :
    flushItem st (kept, kv) (id, e) = (kept ++ [(id, e)], kv) := by
  simp [flushItem, h, h2, h3]

theorem flush_items (st : Storable K V) (items kept : List (K × Elem V)) (kv : KV) :
    (items.foldl (flushItem st) (kept, kv)).1 = kept ++ cleanItems st items := by
  induction items generalizing kept kv with
  | nil => simp [cleanItems]
  | cons p rest ih =>
    obtain ⟨id, e⟩ := p
    simp only [List.foldl_cons]
    cases hd : e.isDeleted
    · cases hdi : e.isDirty
      · cases hc : (st.checkClear e.value).1
        · rw [flushItem_clean st kept kv id e hd hdi hc, ih]
          simp [cleanItems, cleanElem, hd, hdi, hc]
        · rw [flushItem_vdirty st kept kv id e hd hdi hc, ih]
          simp [cleanItems, cleanElem, hd, hdi, hc]
      · rw [flushItem_dirty st kept kv id e hd hdi, ih]
        simp [cleanItems, cleanElem, hd, hdi]
    · rw [flushItem_deleted st kept kv id e hd, ih]
      simp [cleanItems, hd]

/-- the value `Flush` hands to `WriteTo` -/
def writtenValue (st : Storable K V) (e : Elem V) : V :=
  if e.isDirty then e.value else (st.checkClear e.value).2

theorem flush_kv {ok : K → V → KV → Prop} {st : Storable K V} {proj : V → P} (L : Laws st proj ok)
    (items : List (K × Elem V)) (kept : List (K × Elem V)) (kv : KV)
    (hn : NodupKeys items)
    (hok : ∀ id e, (id, e) ∈ items → e.isDeleted = false → needsWrite st e = true → ok id e.value kv) :
    ∀ id, obs st proj (items.foldl (flushItem st) (kept, kv)).2 id =
      match find items id with
      | some e => if e.isDeleted then none else if needsWrite st e then some (proj e.value) else obs st proj kv id
      | none => obs st proj kv id := by
  induction items generalizing kept kv with
  | nil => intro id; simp [find]
  | cons p rest ih =>
    obtain ⟨id0, e0⟩ := p
    have hn' := List.nodup_cons.1 hn
    have hnotin : find rest id0 = none := (find_eq_none_iff rest id0).2 hn'.1
    intro id
    simp only [List.foldl_cons]
    -- the bucket after this iteration
    have key : ∃ kv1 kept1, flushItem st (kept, kv) (id0, e0) = (kept1, kv1) ∧
        (∀ id', id' ≠ id0 → st.readFrom id' kv1 = st.readFrom id' kv) ∧
        (∀ id' v', id' ≠ id0 → ok id' v' kv → ok id' v' kv1) ∧
        obs st proj kv1 id0 = (if e0.isDeleted then none else if needsWrite st e0 then some (proj e0.value) else obs st proj kv id0) := by
      cases hd : e0.isDeleted
      · cases hdi : e0.isDirty
        · cases hc : (st.checkClear e0.value).1
          · refine ⟨kv, _, flushItem_clean st kept kv id0 e0 hd hdi hc, fun _ _ => rfl, fun _ _ _ h => h, ?_⟩
            simp [needsWrite, hdi, hc]
          · refine ⟨_, _, flushItem_vdirty st kept kv id0 e0 hd hdi hc,
              fun id' h => L.write_frame id0 id' _ kv h, fun id' v' h => L.ok_write_frame id0 id' _ v' kv h, ?_⟩
            have := hok id0 e0 (List.mem_cons_self) hd (by simp [needsWrite, hc])
            simp [needsWrite, hdi, hc, L.write_read id0 _ kv (L.ok_clear _ _ _ this), L.clear_proj]
        · refine ⟨_, _, flushItem_dirty st kept kv id0 e0 hd hdi, fun id' h => L.write_frame id0 id' _ kv h,
            fun id' v' h => L.ok_write_frame id0 id' _ v' kv h, ?_⟩
          have := hok id0 e0 (List.mem_cons_self) hd (by simp [needsWrite, hdi])
          simp [needsWrite, hdi, L.write_read id0 _ kv this]
      · refine ⟨_, _, flushItem_deleted st kept kv id0 e0 hd, fun id' h => L.delete_frame id0 id' kv h,
          fun id' v' h => L.ok_delete_frame id0 id' v' kv h, ?_⟩
        simp [obs, L.delete_read]
    obtain ⟨kv1, kept1, hstep, hframe, hokf, hself⟩ := key
    rw [hstep]
    have hok' : ∀ id e, (id, e) ∈ rest → e.isDeleted = false → needsWrite st e = true → ok id e.value kv1 := by
      intro id e hm h1 h2
      have hne : id ≠ id0 := by
        intro h; subst h
        exact hn'.1 (List.mem_map.2 ⟨(id, e), hm, rfl⟩)
      exact hokf id _ hne (hok id e (List.mem_cons_of_mem _ hm) h1 h2)
    rw [ih kept1 kv1 hn'.2 hok' id]
    by_cases h : id0 = id
    · subst h
      simp only [hnotin, find, if_true]
      exact hself
    · have hne : id ≠ id0 := fun x => h x.symm
      have : obs st proj kv1 id = obs st proj kv id := by simp [obs, hframe id hne]
      simp only [find, h, if_false, this]

theorem find_cleanItems (st : Storable K V) {items : List (K × Elem V)} (hn : NodupKeys items) (id : K) :
    find (cleanItems st items) id =
      match find items id with
      | some e => if e.isDeleted then none else some (cleanElem st e)
      | none => none := by
  induction items with
  | nil => simp [cleanItems, find]
  | cons p rest ih =>
    obtain ⟨k, e⟩ := p
    have hn' := List.nodup_cons.1 hn
    have ih' := ih hn'.2
    by_cases hk : k = id
    · subst hk
      have hnotin : find rest k = none := (find_eq_none_iff rest k).2 hn'.1
      by_cases hd : e.isDeleted = true
      · simp only [cleanItems, List.filterMap_cons, hd, if_true, find]
        have := ih'
        simp only [cleanItems, hnotin] at this
        exact this
      · simp [cleanItems, List.filterMap_cons, hd, find]
    · by_cases hd : e.isDeleted = true
      · simp only [cleanItems, List.filterMap_cons, hd, if_true, find, hk, if_false]
        exact ih'
      · have hd' : e.isDeleted = false := by simpa using hd
        simp only [cleanItems, List.filterMap_cons, hd', Bool.false_eq_true, if_false, find, hk]
        exact ih'

theorem keysOf_cleanItems_sublist (st : Storable K V) (items : List (K × Elem V)) :
    (keysOf (cleanItems st items)).Sublist (keysOf items) := by
  induction items with
  | nil => simp [cleanItems, keysOf]
  | cons p rest ih =>
    obtain ⟨k, e⟩ := p
    by_cases hd : e.isDeleted = true
    · simp only [cleanItems, List.filterMap_cons, hd, if_true, keysOf, List.map_cons]
      exact List.Sublist.cons _ ih
    · have hd' : e.isDeleted = false := by simpa using hd
      simp only [cleanItems, List.filterMap_cons, hd', Bool.false_eq_true, if_false, keysOf, List.map_cons]
      exact List.Sublist.cons₂ _ ih


/-! ### the bucket scan of ForEach -/

theorem loadKeys_spec (st : Storable K V) (kv : KV) (ks : List Bytes) (items : List (K × Elem V))
    (hn : NodupKeys items)
    (hsound : ∀ key id, key ∈ ks → st.idFromKey key = some id → (st.readFrom id kv).isSome) :
    ∃ items', loadKeys st kv ks items = some items' ∧ NodupKeys items' ∧
      (∀ id e, find items id = some e → find items' id = some e) ∧
      (∀ id, find items id = none → (∃ key, key ∈ ks ∧ st.idFromKey key = some id) →
        ∃ v, st.readFrom id kv = some v ∧ find items' id = some { value := v }) ∧
      (∀ id e', find items' id = some e' → find items id = some e' ∨
        (find items id = none ∧ ∃ v, st.readFrom id kv = some v ∧ e' = { value := v })) := by
  induction ks generalizing items with
  | nil =>
    refine ⟨items, rfl, hn, fun _ _ h => h, ?_, fun _ _ h => Or.inl h⟩
    rintro id _ ⟨key, hk, _⟩; simp at hk
  | cons key rest ih =>
    have hsound' : ∀ key id, key ∈ rest → st.idFromKey key = some id → (st.readFrom id kv).isSome :=
      fun k id hk => hsound k id (List.mem_cons_of_mem _ hk)
    unfold loadKeys
    cases hid : st.idFromKey key with
    | none =>
      obtain ⟨items', h1, h2, h3, h4, h5⟩ := ih items hn hsound'
      refine ⟨items', by simpa using h1, h2, h3, ?_, h5⟩
      rintro id hnone ⟨k, hk, hkid⟩
      rcases List.mem_cons.1 hk with rfl | hk
      · rw [hid] at hkid; cases hkid
      · exact h4 id hnone ⟨k, hk, hkid⟩
    | some id0 =>
      cases hf : find items id0 with
      | some e0 =>
        obtain ⟨items', h1, h2, h3, h4, h5⟩ := ih items hn hsound'
        refine ⟨items', by simpa [hf] using h1, h2, h3, ?_, h5⟩
        rintro id hnone ⟨k, hk, hkid⟩
        rcases List.mem_cons.1 hk with rfl | hk
        · rw [hid] at hkid; cases hkid; rw [hf] at hnone; cases hnone
        · exact h4 id hnone ⟨k, hk, hkid⟩
      | none =>
        have hr := hsound key id0 (List.mem_cons_self) hid
        cases hv : st.readFrom id0 kv with
        | none => rw [hv] at hr; cases hr
        | some v =>
          obtain ⟨items', h1, h2, h3, h4, h5⟩ := ih (set items id0 { value := v }) (nodup_set hn _ _) hsound'
          refine ⟨items', by simpa [hf, hv] using h1, h2, ?_, ?_, ?_⟩
          · intro id e he
            apply h3
            rw [find_set]
            by_cases h : id = id0
            · subst h; rw [hf] at he; cases he
            · simp [h, he]
          · rintro id hnone ⟨k, hk, hkid⟩
            by_cases h : id = id0
            · subst h
              exact ⟨v, hv, h3 id _ (find_set_same _ _ _)⟩
            · rcases List.mem_cons.1 hk with rfl | hk
              · rw [hid] at hkid; cases hkid; exact absurd rfl h
              · exact h4 id (by rw [find_set]; simp [h, hnone]) ⟨k, hk, hkid⟩
          · intro id e' he'
            rcases h5 id e' he' with h | ⟨h, w, hw, rfl⟩
            · rw [find_set] at h
              by_cases hid' : id = id0
              · subst hid'; simp at h; subst h
                exact Or.inr ⟨hf, v, hv, rfl⟩
              · simp [hid'] at h; exact Or.inl h
            · rw [find_set] at h
              by_cases hid' : id = id0
              · subst hid'; simp at h
              · simp [hid'] at h; exact Or.inr ⟨h, w, hw, rfl⟩

/-! ### coherence -/

/-- `IdFromKey` and `ReadFrom` agree on which ids a well-formed bucket holds -/
structure EnumLaws (st : Storable K V) (wf : KV → Prop) : Prop where
  complete : ∀ kv id, wf kv → (st.readFrom id kv).isSome → ∃ key, key ∈ keys kv ∧ st.idFromKey key = some id
  sound : ∀ kv key id, wf kv → key ∈ keys kv → st.idFromKey key = some id → (st.readFrom id kv).isSome

/-- once `isAllInCache` is set every id of the bucket has an entry -/
def AllIn (st : Storable K V) (c : Cache K V) (kv : KV) : Prop :=
  c.isAllInCache = true → ∀ id, (st.readFrom id kv).isSome → (find c.items id).isSome

/-- **CacheCoherent**: every cached item is live and its observation-relevant projection is what
`ReadFrom` returns from the committed bucket; the map has one entry per key; `isAllInCache` is
truthful.  (That every id of the bucket is reachable by read-through is `view = obs`, below.) -/
structure Coherent (st : Storable K V) (proj : V → P) (ok : K → V → KV → Prop) (c : Cache K V) (kv : KV) : Prop where
  nodup : NodupKeys c.items
  agree : ∀ id e, find c.items id = some e → e.isDeleted = false ∧ e.isDirty = false ∧ obs st proj kv id = some (proj e.value)
  /-- an entry whose own flag is still set (it was dirty twice over when flushed) may be rewritten as is -/
  rewrite : ∀ id e, find c.items id = some e → needsWrite st e = true → ok id e.value kv
  allIn : AllIn st c kv

/-- inside a transaction: clean live entries agree with the bucket, entries to be written satisfy
the write precondition -/
structure Tracked (st : Storable K V) (proj : V → P) (ok : K → V → KV → Prop) (c : Cache K V) (kv : KV) : Prop where
  nodup : NodupKeys c.items
  clean : ∀ id e, find c.items id = some e → e.isDeleted = false → needsWrite st e = false →
    obs st proj kv id = some (proj e.value)
  dirty : ∀ id e, find c.items id = some e → e.isDeleted = false → needsWrite st e = true → ok id e.value kv
  allIn : AllIn st c kv

theorem coherent_view {st : Storable K V} {proj : V → P} {ok : K → V → KV → Prop} {c : Cache K V} {kv : KV}
    (h : Coherent st proj ok c kv) : ∀ id, view st proj c.items kv id = obs st proj kv id := by
  intro id
  unfold view
  cases hf : find c.items id with
  | none => rfl
  | some e =>
    obtain ⟨h1, _, h2⟩ := h.agree id e hf
    simp [h1, h2]

theorem coherent_empty (st : Storable K V) (proj : V → P) (ok : K → V → KV → Prop) (kv : KV) :
    Coherent st proj ok Cache.empty kv :=
  ⟨by simp [Cache.empty, NodupKeys, keysOf], by simp [Cache.empty, find], by simp [Cache.empty, find],
    by simp [AllIn, Cache.empty]⟩

theorem Coherent.tracked {st : Storable K V} {proj : V → P} {ok : K → V → KV → Prop} {c : Cache K V} {kv : KV}
    (h : Coherent st proj ok c kv) : Tracked st proj ok c kv :=
  ⟨h.nodup, fun id e hf _ _ => (h.agree id e hf).2.2, fun id e hf _ hw => h.rewrite id e hf hw, h.allIn⟩

theorem tracked_put {st : Storable K V} {proj : V → P} {ok : K → V → KV → Prop} {c : Cache K V} {kv : KV}
    (h : Tracked st proj ok c kv) (id : K) (v : V) (hv : ok id v kv) : Tracked st proj ok (put c id v) kv := by
  refine ⟨nodup_set h.nodup _ _, ?_, ?_, ?_⟩
  · intro id' e hf hd hw
    simp only [put, find_set] at hf
    by_cases hid : id' = id
    · subst hid; simp at hf; subst hf; simp [needsWrite] at hw
    · simp [hid] at hf; exact h.clean id' e hf hd hw
  · intro id' e hf hd hw
    simp only [put, find_set] at hf
    by_cases hid : id' = id
    · subst hid; simp at hf; subst hf; exact hv
    · simp [hid] at hf; exact h.dirty id' e hf hd hw
  · intro hall id' hr
    have := h.allIn hall id' hr
    simp only [put, find_set]
    by_cases hid : id' = id <;> simp [hid, this]

theorem view_put (st : Storable K V) (proj : V → P) (c : Cache K V) (kv : KV) (id : K) (v : V) (id' : K) :
    view st proj (put c id v).items kv id' = if id' = id then some (proj v) else view st proj c.items kv id' := by
  unfold view
  simp only [put, find_set]
  by_cases h : id' = id <;> simp [h]

theorem tracked_delete {st : Storable K V} {proj : V → P} {ok : K → V → KV → Prop} {c : Cache K V} {kv : KV}
    (h : Tracked st proj ok c kv) (id : K) : Tracked st proj ok (delete st c kv id) kv := by
  unfold delete
  cases hf : find c.items id with
  | some e =>
    refine ⟨nodup_set h.nodup _ _, ?_, ?_, ?_⟩
    · intro id' e' hf' hd hw
      simp only [find_set] at hf'
      by_cases hid : id' = id
      · subst hid; simp at hf'; subst hf'; simp at hd
      · simp [hid] at hf'; exact h.clean id' e' hf' hd hw
    · intro id' e' hf' hd hw
      simp only [find_set] at hf'
      by_cases hid : id' = id
      · subst hid; simp at hf'; subst hf'; simp at hd
      · simp [hid] at hf'; exact h.dirty id' e' hf' hd hw
    · intro hall id' hr
      have := h.allIn hall id' hr
      simp only [find_set]
      by_cases hid : id' = id <;> simp [hid, this]
  | none =>
    cases hv : st.readFrom id kv with
    | none => exact h
    | some v =>
      refine ⟨nodup_set h.nodup _ _, ?_, ?_, ?_⟩
      · intro id' e' hf' hd hw
        simp only [find_set] at hf'
        by_cases hid : id' = id
        · subst hid; simp at hf'; subst hf'; simp at hd
        · simp [hid] at hf'; exact h.clean id' e' hf' hd hw
      · intro id' e' hf' hd hw
        simp only [find_set] at hf'
        by_cases hid : id' = id
        · subst hid; simp at hf'; subst hf'; simp at hd
        · simp [hid] at hf'; exact h.dirty id' e' hf' hd hw
      · intro hall id' hr
        have := h.allIn hall id' hr
        simp only [find_set]
        by_cases hid : id' = id <;> simp [hid, this]

theorem view_delete (st : Storable K V) (proj : V → P) (c : Cache K V) (kv : KV) (id id' : K) :
    view st proj (delete st c kv id).items kv id' = if id' = id then none else view st proj c.items kv id' := by
  unfold delete
  cases hf : find c.items id with
  | some e =>
    unfold view
    simp only [find_set]
    by_cases h : id' = id <;> simp [h]
  | none =>
    cases hv : st.readFrom id kv with
    | none =>
      by_cases h : id' = id
      · subst h; simp [view, hf, obs, hv]
      · simp [h]
    | some v =>
      unfold view
      simp only [find_set]
      by_cases h : id' = id <;> simp [h]

theorem tracked_get {st : Storable K V} {proj : V → P} {ok : K → V → KV → Prop} {c : Cache K V} {kv : KV}
    (L : Laws st proj ok) (h : Tracked st proj ok c kv) (id : K) :
    Tracked st proj ok (get st c kv id).1 kv := by
  have hfresh := L.read_clean id kv
  unfold get
  cases hf : find c.items id with
  | some e => by_cases hd : e.isDeleted = true <;> simp [hd] <;> exact h
  | none =>
    unfold read
    cases hv : st.readFrom id kv with
    | none => exact h
    | some v =>
      refine ⟨nodup_set h.nodup _ _, ?_, ?_, ?_⟩
      · intro id' e' hf' hd hw
        simp only [find_set] at hf'
        by_cases hid : id' = id
        · subst hid; simp at hf'; subst hf'; simp [obs, hv]
        · simp [hid] at hf'; exact h.clean id' e' hf' hd hw
      · intro id' e' hf' hd hw
        simp only [find_set] at hf'
        by_cases hid : id' = id
        · subst hid; simp at hf'; subst hf'
          simp [needsWrite, hfresh v hv] at hw
        · simp [hid] at hf'; exact h.dirty id' e' hf' hd hw
      · intro hall id' hr
        have := h.allIn hall id' hr
        simp only [find_set]
        by_cases hid : id' = id <;> simp [hid, this]

/-- `Get` answers from the overlay map and leaves it unchanged -/
theorem get_spec (st : Storable K V) (proj : V → P) (c : Cache K V) (kv : KV) (id : K) :
    (get st c kv id).2.map proj = view st proj c.items kv id ∧
    ∀ id', view st proj (get st c kv id).1.items kv id' = view st proj c.items kv id' := by
  unfold get
  cases hf : find c.items id with
  | some e =>
    by_cases hd : e.isDeleted = true <;> simp [hd, view, hf]
  | none =>
    unfold read
    cases hv : st.readFrom id kv with
    | none => simp [view, hf, obs, hv]
    | some v =>
      refine ⟨by simp [view, hf, obs, hv], ?_⟩
      intro id'
      unfold view
      simp only [find_set]
      by_cases h : id' = id
      · subst h; simp [hf, obs, hv]
      · simp [h]


/-! ### Flush re-establishes coherence -/

theorem flush_keeps_ok {st : Storable K V} {proj : V → P} {ok : K → V → KV → Prop} (L : Laws st proj ok)
    (items kept : List (K × Elem V)) (kv : KV) (id : K) (v : V) (hid : id ∉ keysOf items) (h : ok id v kv) :
    ok id v (items.foldl (flushItem st) (kept, kv)).2 := by
  induction items generalizing kept kv with
  | nil => exact h
  | cons p rest ih =>
    obtain ⟨id0, e0⟩ := p
    have hne : id ≠ id0 := fun x => hid (by simp [keysOf, x])
    have hid' : id ∉ keysOf rest := fun x => hid (by simp only [keysOf, List.map_cons]; exact List.mem_cons_of_mem _ x)
    simp only [List.foldl_cons]
    cases hd : e0.isDeleted
    · cases hdi : e0.isDirty
      · cases hc : (st.checkClear e0.value).1
        · rw [flushItem_clean st kept kv id0 e0 hd hdi hc]; exact ih _ _ hid' h
        · rw [flushItem_vdirty st kept kv id0 e0 hd hdi hc]; exact ih _ _ hid' (L.ok_write_frame id0 id _ v kv hne h)
      · rw [flushItem_dirty st kept kv id0 e0 hd hdi]; exact ih _ _ hid' (L.ok_write_frame id0 id _ v kv hne h)
    · rw [flushItem_deleted st kept kv id0 e0 hd]; exact ih _ _ hid' (L.ok_delete_frame id0 id v kv hne h)

/-- after `Flush` every value that was written could be written again -/
theorem flush_ok {st : Storable K V} {proj : V → P} {ok : K → V → KV → Prop} (L : Laws st proj ok)
    (items kept : List (K × Elem V)) (kv : KV) (hn : NodupKeys items)
    (hok : ∀ id e, (id, e) ∈ items → e.isDeleted = false → needsWrite st e = true → ok id e.value kv) :
    ∀ id e, (id, e) ∈ items → e.isDeleted = false → needsWrite st e = true →
      ok id (writtenValue st e) (items.foldl (flushItem st) (kept, kv)).2 := by
  induction items generalizing kept kv with
  | nil => intro id e hm; cases hm
  | cons p rest ih =>
    obtain ⟨id0, e0⟩ := p
    have hn' := List.nodup_cons.1 hn
    intro id e hm hde hw
    simp only [List.foldl_cons]
    rcases List.mem_cons.1 hm with heq | hm'
    · have h1 : id0 = id := (Prod.mk.inj heq).1.symm
      have h2 : e0 = e := (Prod.mk.inj heq).2.symm
      subst h1 h2
      have hok0 := hok id0 e0 (List.mem_cons_self) hde hw
      cases hdi : e0.isDirty
      · have hc : (st.checkClear e0.value).1 = true := by simpa [needsWrite, hdi] using hw
        rw [flushItem_vdirty st kept kv id0 e0 hde hdi hc]
        have : writtenValue st e0 = (st.checkClear e0.value).2 := by simp [writtenValue, hdi]
        rw [this]
        exact flush_keeps_ok L rest _ _ id0 _ hn'.1 (L.ok_after_write id0 _ kv (L.ok_clear id0 _ kv hok0))
      · rw [flushItem_dirty st kept kv id0 e0 hde hdi]
        have : writtenValue st e0 = e0.value := by simp [writtenValue, hdi]
        rw [this]
        exact flush_keeps_ok L rest _ _ id0 _ hn'.1 (L.ok_after_write id0 _ kv hok0)
    · have hne : id ≠ id0 := by
        intro h; subst h
        exact hn'.1 (List.mem_map.2 ⟨(id, e), hm', rfl⟩)
      have step : ∃ kept1 kv1, flushItem st (kept, kv) (id0, e0) = (kept1, kv1) ∧
          (∀ id' v', id' ≠ id0 → ok id' v' kv → ok id' v' kv1) := by
        cases hd : e0.isDeleted
        · cases hdi : e0.isDirty
          · cases hc : (st.checkClear e0.value).1
            · exact ⟨_, _, flushItem_clean st kept kv id0 e0 hd hdi hc, fun _ _ _ h => h⟩
            · exact ⟨_, _, flushItem_vdirty st kept kv id0 e0 hd hdi hc, fun id' v' h => L.ok_write_frame id0 id' _ v' kv h⟩
          · exact ⟨_, _, flushItem_dirty st kept kv id0 e0 hd hdi, fun id' v' h => L.ok_write_frame id0 id' _ v' kv h⟩
        · exact ⟨_, _, flushItem_deleted st kept kv id0 e0 hd, fun id' v' h => L.ok_delete_frame id0 id' v' kv h⟩
      obtain ⟨kept1, kv1, hstep, hokf⟩ := step
      rw [hstep]
      refine ih kept1 kv1 hn'.2 ?_ id e hm' hde hw
      intro id' e' hm'' h1 h2
      have hne' : id' ≠ id0 := by
        intro h; subst h
        exact hn'.1 (List.mem_map.2 ⟨(id', e'), hm'', rfl⟩)
      exact hokf id' _ hne' (hok id' e' (List.mem_cons_of_mem _ hm'') h1 h2)

/-- any bucket invariant that single writes (under their precondition) and deletes preserve is
preserved by `Flush` -/
theorem flush_preserves {st : Storable K V} {proj : V → P} {ok : K → V → KV → Prop} (L : Laws st proj ok)
    (I : KV → Prop) (hw : ∀ id v kv, ok id v kv → I kv → I (st.writeTo id v kv))
    (hdel : ∀ id kv, I kv → I (st.deleteFrom id kv))
    (items kept : List (K × Elem V)) (kv : KV) (hn : NodupKeys items)
    (hok : ∀ id e, (id, e) ∈ items → e.isDeleted = false → needsWrite st e = true → ok id e.value kv)
    (hI : I kv) : I (items.foldl (flushItem st) (kept, kv)).2 := by
  induction items generalizing kept kv with
  | nil => exact hI
  | cons p rest ih =>
    obtain ⟨id0, e0⟩ := p
    have hn' := List.nodup_cons.1 hn
    simp only [List.foldl_cons]
    have step : ∃ kept1 kv1, flushItem st (kept, kv) (id0, e0) = (kept1, kv1) ∧ I kv1 ∧
        (∀ id' v', id' ≠ id0 → ok id' v' kv → ok id' v' kv1) := by
      cases hd : e0.isDeleted
      · cases hdi : e0.isDirty
        · cases hc : (st.checkClear e0.value).1
          · exact ⟨_, _, flushItem_clean st kept kv id0 e0 hd hdi hc, hI, fun _ _ _ h => h⟩
          · have := hok id0 e0 (List.mem_cons_self) hd (by simp [needsWrite, hc])
            exact ⟨_, _, flushItem_vdirty st kept kv id0 e0 hd hdi hc, hw _ _ _ (L.ok_clear _ _ _ this) hI,
              fun id' v' h => L.ok_write_frame id0 id' _ v' kv h⟩
        · have := hok id0 e0 (List.mem_cons_self) hd (by simp [needsWrite, hdi])
          exact ⟨_, _, flushItem_dirty st kept kv id0 e0 hd hdi, hw _ _ _ this hI,
            fun id' v' h => L.ok_write_frame id0 id' _ v' kv h⟩
      · exact ⟨_, _, flushItem_deleted st kept kv id0 e0 hd, hdel _ _ hI, fun id' v' h => L.ok_delete_frame id0 id' v' kv h⟩
    obtain ⟨kept1, kv1, hstep, hI1, hokf⟩ := step
    rw [hstep]
    refine ih kept1 kv1 hn'.2 ?_ hI1
    intro id' e' hm' h1 h2
    have hne' : id' ≠ id0 := by
      intro h; subst h
      exact hn'.1 (List.mem_map.2 ⟨(id', e'), hm', rfl⟩)
    exact hokf id' _ hne' (hok id' e' (List.mem_cons_of_mem _ hm') h1 h2)


theorem cleanElem_props (st : Storable K V) (proj : V → P) {ok : K → V → KV → Prop} (L : Laws st proj ok) (e : Elem V) :
    (cleanElem st e).isDeleted = e.isDeleted ∧ proj (cleanElem st e).value = proj e.value := by
  unfold cleanElem
  split
  · simp
  · split
    · simp [L.clear_proj]
    · simp

theorem flush_spec {st : Storable K V} {proj : V → P} {ok : K → V → KV → Prop} (L : Laws st proj ok)
    {c : Cache K V} {kv : KV} (h : Tracked st proj ok c kv) :
    Coherent st proj ok (flush st c kv).1 (flush st c kv).2 ∧
    ∀ id, obs st proj (flush st c kv).2 id = view st proj c.items kv id := by
  have hitems : (flush st c kv).1.items = cleanItems st c.items := by
    have := flush_items st c.items [] kv
    simpa [flush] using this
  have hall : (flush st c kv).1.isAllInCache = c.isAllInCache := by simp [flush]
  have hkv : ∀ id, obs st proj (flush st c kv).2 id =
      match find c.items id with
      | some e => if e.isDeleted then none else if needsWrite st e then some (proj e.value) else obs st proj kv id
      | none => obs st proj kv id := by
    have := flush_kv L c.items [] kv h.nodup
      (fun id e hm hd hw => h.dirty id e (find_of_mem h.nodup hm) hd hw)
    simpa [flush] using this
  have hview : ∀ id, obs st proj (flush st c kv).2 id = view st proj c.items kv id := by
    intro id
    rw [hkv id]
    unfold view
    cases hf : find c.items id with
    | none => rfl
    | some e =>
      cases hd : e.isDeleted
      · cases hw : needsWrite st e
        · simp [h.clean id e hf hd hw, hd, hw]
        · simp [hd, hw]
      · simp [hd]
  have hokfin := flush_ok L c.items [] kv h.nodup
      (fun id e hm hd hw => h.dirty id e (find_of_mem h.nodup hm) hd hw)
  refine ⟨⟨?_, ?_, ?_, ?_⟩, hview⟩
  · rw [hitems]; exact List.Sublist.nodup (keysOf_cleanItems_sublist st c.items) h.nodup
  · intro id e' hf'
    rw [hitems, find_cleanItems st h.nodup] at hf'
    cases hf : find c.items id with
    | none => rw [hf] at hf'; cases hf'
    | some e =>
      rw [hf] at hf'
      cases hd : e.isDeleted
      · simp [hd] at hf'; subst hf'
        obtain ⟨p1, p2⟩ := cleanElem_props st proj L e
        refine ⟨by rw [p1, hd], ?_, ?_⟩
        · unfold cleanElem; split
          · rfl
          · rename_i hnd; split <;> simpa using hnd
        · rw [hview id, p2]; simp [view, hf, hd]
      · simp [hd] at hf'
  · intro id e' hf' hw'
    rw [hitems, find_cleanItems st h.nodup] at hf'
    cases hf : find c.items id with
    | none => rw [hf] at hf'; cases hf'
    | some e =>
      rw [hf] at hf'
      cases hd : e.isDeleted
      · simp [hd] at hf'; subst hf'
        -- still flagged: it was dirty in both ways, and was written as is
        cases hdi : e.isDirty
        · exfalso
          unfold cleanElem needsWrite at hw'
          cases hc : (st.checkClear e.value).1
          · simp [hdi, hc] at hw'
          · simp [hdi, hc, L.clear_idem] at hw'
        · have hcv : (cleanElem st e).value = e.value := by simp [cleanElem, hdi]
          have hw : needsWrite st e = true := by simp [needsWrite, hdi]
          have := hokfin id e (mem_of_find hf) hd hw
          simp only [writtenValue, hdi, if_true] at this
          rw [hcv]
          simpa [flush] using this
      · simp [hd] at hf'
  · intro ha id hr
    rw [hall] at ha
    rw [hitems, find_cleanItems st h.nodup]
    have hobs : (obs st proj (flush st c kv).2 id).isSome := by simpa [obs] using hr
    rw [hview id] at hobs
    unfold view at hobs
    cases hf : find c.items id with
    | none =>
      rw [hf] at hobs
      have := h.allIn ha id (by simpa [obs] using hobs)
      rw [hf] at this; cases this
    | some e =>
      rw [hf] at hobs
      cases hd : e.isDeleted
      · simp [hd]
      · simp [hd] at hobs

/-! ### ForEach enumerates the overlay map -/

theorem mem_live {items : List (K × Elem V)} {id : K} {v : V} :
    (id, v) ∈ live items ↔ ∃ e, (id, e) ∈ items ∧ e.isDeleted = false ∧ e.value = v := by
  unfold live
  simp only [List.mem_map, List.mem_filter, Prod.mk.injEq]
  constructor
  · rintro ⟨⟨k, e⟩, ⟨hm, hd⟩, rfl, rfl⟩
    exact ⟨e, hm, by simpa using hd, rfl⟩
  · rintro ⟨e, hm, hd, rfl⟩
    exact ⟨(id, e), ⟨hm, by simp [hd]⟩, rfl, rfl⟩

theorem live_keys_nodup {items : List (K × Elem V)} (hn : NodupKeys items) : ((live items).map (·.1)).Nodup := by
  unfold live
  rw [List.map_map]
  have : ((fun p : K × V => p.1) ∘ fun p : K × Elem V => (p.1, p.2.value)) = fun p => p.1 := rfl
  rw [this]
  exact List.Sublist.nodup (List.Sublist.map _ List.filter_sublist) hn

theorem forEach_spec {st : Storable K V} {proj : V → P} {ok : K → V → KV → Prop} {wf : KV → Prop}
    (L : Laws st proj ok) (E : EnumLaws st wf) {c : Cache K V} {kv : KV} (hwf : wf kv)
    (h : Tracked st proj ok c kv) :
    ∃ c' l, forEach st c kv = some (c', l) ∧ Tracked st proj ok c' kv ∧ c'.isAllInCache = true ∧
      (∀ id, view st proj c'.items kv id = view st proj c.items kv id) ∧
      (l.map (·.1)).Nodup ∧
      (∀ id p, view st proj c.items kv id = some p ↔ ∃ v, (id, v) ∈ l ∧ proj v = p) := by
  -- the cache after the bucket scan
  have hload : ∃ c', loadAll st c kv = some c' ∧ Tracked st proj ok c' kv ∧ c'.isAllInCache = true ∧
      (∀ id, view st proj c'.items kv id = view st proj c.items kv id) := by
    unfold loadAll
    cases ha : c.isAllInCache
    · obtain ⟨items', h1, h2, h3, h4, h5⟩ := loadKeys_spec st kv (keys kv) c.items h.nodup
        (fun key id hk hid => E.sound kv key id hwf hk hid)
      have h1 : loadKeys st kv (kv.entries.map (·.1)) c.items = some items' := h1
      refine ⟨{ items := items', isAllInCache := true }, by simp [h1], ⟨h2, ?_, ?_, ?_⟩, rfl, ?_⟩
      · intro id e' hf hd hw
        rcases h5 id e' hf with h' | ⟨_, v, hv, rfl⟩
        · exact h.clean id e' h' hd hw
        · simp [obs, hv]
      · intro id e' hf hd hw
        rcases h5 id e' hf with h' | ⟨_, v, hv, rfl⟩
        · exact h.dirty id e' h' hd hw
        · simp [needsWrite, L.read_clean id kv v hv] at hw
      · intro _ id hr
        cases hf : find c.items id with
        | some e => simp [h3 id e hf]
        | none =>
          obtain ⟨key, hk, hid⟩ := E.complete kv id hwf hr
          obtain ⟨v, _, hv⟩ := h4 id hf ⟨key, hk, hid⟩
          simp [hv]
      · intro id
        unfold view
        cases hf : find c.items id with
        | some e => simp [h3 id e hf]
        | none =>
          cases hf' : find items' id with
          | none => rfl
          | some e' =>
            rcases h5 id e' hf' with h' | ⟨_, v, hv, rfl⟩
            · rw [hf] at h'; cases h'
            · simp [obs, hv]
    · exact ⟨c, by simp, h, ha, fun _ => rfl⟩
  obtain ⟨c', h1, h2, h3, h4⟩ := hload
  refine ⟨c', live c'.items, by simp [forEach, h1], h2, h3, h4, live_keys_nodup h2.nodup, ?_⟩
  intro id p
  rw [← h4 id]
  constructor
  · intro hv
    unfold view at hv
    cases hf : find c'.items id with
    | some e =>
      rw [hf] at hv
      cases hd : e.isDeleted
      · simp [hd] at hv
        exact ⟨e.value, mem_live.2 ⟨e, mem_of_find hf, hd, rfl⟩, hv⟩
      · simp [hd] at hv
    | none =>
      rw [hf] at hv
      have := h2.allIn h3 id (by
        unfold obs at hv
        cases hr : st.readFrom id kv <;> simp [hr] at hv ⊢)
      rw [hf] at this; cases this
  · rintro ⟨v, hm, rfl⟩
    obtain ⟨e, hme, hd, rfl⟩ := mem_live.1 hm
    simp [view, find_of_mem h2.nodup hme, hd]

/-! ### in-place mutation of cached values (Fit) -/

/-- rewrite the value of every live entry in place -/
def mapLive (f : K → V → V) (items : List (K × Elem V)) : List (K × Elem V) :=
  items.map fun p => if p.2.isDeleted then p else (p.1, { p.2 with value := f p.1 p.2.value })

theorem find_mapLive (f : K → V → V) (items : List (K × Elem V)) (id : K) :
    find (mapLive f items) id =
      (find items id).map fun e => if e.isDeleted then e else { e with value := f id e.value } := by
  induction items with
  | nil => simp [mapLive, find]
  | cons p rest ih =>
    obtain ⟨k, e⟩ := p
    have ih' : find (List.map (fun p => if p.2.isDeleted = true then p else (p.1, { p.2 with value := f p.1 p.2.value })) rest) id = _ := ih
    by_cases hk : k = id
    · subst hk
      by_cases hd : e.isDeleted = true <;> simp [mapLive, find, hd]
    · by_cases hd : e.isDeleted = true <;> simp [mapLive, find, hd, hk, ih']

theorem keysOf_mapLive (f : K → V → V) (items : List (K × Elem V)) : keysOf (mapLive f items) = keysOf items := by
  unfold keysOf mapLive
  rw [List.map_map]
  apply List.map_congr_left
  intro p _
  by_cases hd : p.2.isDeleted = true <;> simp [hd]

/-- **every mutation sets a dirty flag that Flush honours**: rewriting cached values in place keeps
the cache trackable provided each rewritten value reports itself dirty (or keeps its projection) and
satisfies the write precondition -/
theorem tracked_mapLive {st : Storable K V} {proj : V → P} {ok : K → V → KV → Prop} {c : Cache K V} {kv : KV}
    (h : Tracked st proj ok c kv) (f : K → V → V)
    (hdirty : ∀ id e, find c.items id = some e → e.isDeleted = false →
      (st.checkClear (f id e.value)).1 = true ∨ (proj (f id e.value) = proj e.value ∧ (st.checkClear (f id e.value)).1 = (st.checkClear e.value).1))
    (hok : ∀ id e, find c.items id = some e → e.isDeleted = false → ok id (f id e.value) kv) :
    Tracked st proj ok { c with items := mapLive f c.items } kv := by
  refine ⟨by unfold NodupKeys; rw [keysOf_mapLive]; exact h.nodup, ?_, ?_, ?_⟩
  · intro id e' hf hd hw
    simp only [find_mapLive] at hf
    cases hfe : find c.items id with
    | none => rw [hfe] at hf; cases hf
    | some e =>
      rw [hfe] at hf
      cases hde : e.isDeleted
      · simp [hde] at hf; subst hf
        simp only [needsWrite, Bool.or_eq_false_iff] at hw
        rcases hdirty id e hfe hde with h1 | ⟨h1, h2⟩
        · rw [h1] at hw; exact absurd hw.2 (by simp)
        · have := h.clean id e hfe hde (by simp [needsWrite, hw.1, ← h2, hw.2])
          simp only [this, h1]
      · simp [hde] at hf; subst hf; rw [hde] at hd; cases hd
  · intro id e' hf hd hw
    simp only [find_mapLive] at hf
    cases hfe : find c.items id with
    | none => rw [hfe] at hf; cases hf
    | some e =>
      rw [hfe] at hf
      cases hde : e.isDeleted
      · simp [hde] at hf; subst hf; exact hok id e hfe hde
      · simp [hde] at hf; subst hf; rw [hde] at hd; cases hd
  · intro ha id hr
    have := h.allIn ha id hr
    simp only [find_mapLive]
    cases hfe : find c.items id with
    | none => rw [hfe] at this; cases this
    | some e => simp


/-! ### a write transaction as a program over the cache -/

/-- what an index does to its item cache inside one transaction -/
inductive Op (K V : Type) where
  | put (id : K) (v : V)
  | del (id : K)
  | get (id : K)
  /-- `ForEach` followed by an in-place rewrite of every live value (the quantisers' `Fit`) -/
  | mutate (f : K → V → V)

def applyOp (st : Storable K V) (kv : KV) (c : Cache K V) : Op K V → Cache K V
  | .put id v => put c id v
  | .del id => delete st c kv id
  | .get id => (get st c kv id).1
  | .mutate f =>
    match loadAll st c kv with
    | some c' => { c' with items := mapLive f c'.items }
    | none => c

/-- the same program on the overlay map; `g` is the effect of a mutation on the projection -/
def specOp (proj : V → P) (g : (K → V → V) → K → P → P) (m : K → Option P) : Op K V → K → Option P
  | .put id v => fun id' => if id' = id then some (proj v) else m id'
  | .del id => fun id' => if id' = id then none else m id'
  | .get _ => m
  | .mutate f => fun id' => (m id').map (g f id')

/-- side conditions of a program w.r.t. the bucket of the transaction -/
def OpOk (st : Storable K V) (proj : V → P) (ok : K → V → KV → Prop) (g : (K → V → V) → K → P → P) (kv : KV) :
    Op K V → Prop
  | .put id v => ok id v kv
  | .del _ => True
  | .get _ => True
  /- the rewrite is judged on the values a transaction can hold for `id`: one that agrees with the bucket
  (read through, or cached clean) or one that is waiting to be written (`ok`).  (Quantifying over EVERY value
  made the condition unsatisfiable for the product quantiser's `Fit`: a value without a vector is writable
  only over an existing vector key.) -/
  | .mutate f => ∀ id v, (obs st proj kv id = some (proj v) ∨ ok id v kv) →
      (st.checkClear (f id v)).1 = true ∧ ok id (f id v) kv ∧ proj (f id v) = g f id (proj v)

theorem applyOp_spec {st : Storable K V} {proj : V → P} {ok : K → V → KV → Prop} {wf : KV → Prop}
    (g : (K → V → V) → K → P → P)
    (L : Laws st proj ok) (E : EnumLaws st wf) {c : Cache K V} {kv : KV} (hwf : wf kv)
    (h : Tracked st proj ok c kv) (op : Op K V) (hop : OpOk st proj ok g kv op) :
    Tracked st proj ok (applyOp st kv c op) kv ∧
    ∀ id, view st proj (applyOp st kv c op).items kv id = specOp proj g (view st proj c.items kv) op id := by
  cases op with
  | put id v => exact ⟨tracked_put h id v hop, fun id' => view_put st proj c kv id v id'⟩
  | del id => exact ⟨tracked_delete h id, fun id' => view_delete st proj c kv id id'⟩
  | get id => exact ⟨tracked_get L h id, (get_spec st proj c kv id).2⟩
  | mutate f =>
    obtain ⟨c', l, hfe, ht, hall, hv, _, _⟩ := forEach_spec L E hwf h
    have hl : loadAll st c kv = some c' := by
      unfold forEach at hfe
      cases hla : loadAll st c kv with
      | none => rw [hla] at hfe; cases hfe
      | some c'' => rw [hla] at hfe; simp at hfe; rw [hfe.1]
    simp only [applyOp, hl]
    -- every live cached value is one the rewrite is judged on
    have hval : ∀ id e, find c'.items id = some e → e.isDeleted = false →
        (obs st proj kv id = some (proj e.value) ∨ ok id e.value kv) := by
      intro id e hf hd
      cases hw : needsWrite st e
      · exact Or.inl (ht.clean id e hf hd hw)
      · exact Or.inr (ht.dirty id e hf hd hw)
    refine ⟨tracked_mapLive ht f (fun id e hf hd => Or.inl (hop id e.value (hval id e hf hd)).1)
      (fun id e hf hd => (hop id e.value (hval id e hf hd)).2.1), ?_⟩
    intro id
    simp only [specOp, ← hv id]
    unfold view
    simp only [find_mapLive]
    cases hf : find c'.items id with
    | some e =>
      cases hd : e.isDeleted
      · simp [hd, (hop id e.value (hval id e hf hd)).2.2]
      · simp [hd]
    | none =>
      have : obs st proj kv id = none := by
        cases ho : st.readFrom id kv with
        | none => simp [obs, ho]
        | some v =>
          have := ht.allIn hall id (by simp [ho])
          rw [hf] at this; cases this
      simp [this]

theorem applyOps_spec {st : Storable K V} {proj : V → P} {ok : K → V → KV → Prop} {wf : KV → Prop}
    (g : (K → V → V) → K → P → P)
    (L : Laws st proj ok) (E : EnumLaws st wf) {kv : KV} (hwf : wf kv) (ops : List (Op K V)) {c : Cache K V}
    (h : Tracked st proj ok c kv) (hops : ∀ op, op ∈ ops → OpOk st proj ok g kv op) :
    Tracked st proj ok (ops.foldl (applyOp st kv) c) kv ∧
    ∀ id, view st proj (ops.foldl (applyOp st kv) c).items kv id =
      ops.foldl (specOp proj g) (view st proj c.items kv) id := by
  induction ops generalizing c with
  | nil => exact ⟨h, fun _ => rfl⟩
  | cons op rest ih =>
    obtain ⟨h1, h2⟩ := applyOp_spec g L E hwf h op (hops op List.mem_cons_self)
    obtain ⟨h3, h4⟩ := ih h1 (fun o ho => hops o (List.mem_cons_of_mem _ ho))
    refine ⟨h3, fun id => ?_⟩
    simp only [List.foldl_cons]
    rw [h4 id]
    have : view st proj (applyOp st kv c op).items kv = specOp proj g (view st proj c.items kv) op := funext h2
    rw [this]

/-- one write transaction: the program, then `Flush` -/
def runBatch (st : Storable K V) (c : Cache K V) (kv : KV) (ops : List (Op K V)) : Cache K V × KV :=
  flush st (ops.foldl (applyOp st kv) c) kv

theorem runBatch_spec {st : Storable K V} {proj : V → P} {ok : K → V → KV → Prop} {wf : KV → Prop}
    (g : (K → V → V) → K → P → P)
    (L : Laws st proj ok) (E : EnumLaws st wf) {c : Cache K V} {kv : KV} (hwf : wf kv)
    (h : Coherent st proj ok c kv) (ops : List (Op K V)) (hops : ∀ op, op ∈ ops → OpOk st proj ok g kv op) :
    Coherent st proj ok (runBatch st c kv ops).1 (runBatch st c kv ops).2 ∧
    ∀ id, obs st proj (runBatch st c kv ops).2 id = ops.foldl (specOp proj g) (obs st proj kv) id := by
  obtain ⟨h1, h2⟩ := applyOps_spec g L E hwf ops h.tracked hops
  obtain ⟨h3, h4⟩ := flush_spec L h1
  refine ⟨h3, fun id => ?_⟩
  unfold runBatch
  rw [h4 id, h2 id]
  have : view st proj c.items kv = obs st proj kv := funext (coherent_view h)
  rw [this]


/-- the bucket invariant `wf` needed for enumeration survives single writes and deletes -/
structure WfLaws (st : Storable K V) (ok : K → V → KV → Prop) (wf : KV → Prop) : Prop where
  write : ∀ id v kv, ok id v kv → wf kv → wf (st.writeTo id v kv)
  delete : ∀ id kv, wf kv → wf (st.deleteFrom id kv)

theorem runBatch_wf {st : Storable K V} {proj : V → P} {ok : K → V → KV → Prop} {wf : KV → Prop}
    (g : (K → V → V) → K → P → P)
    (L : Laws st proj ok) (E : EnumLaws st wf) (W : WfLaws st ok wf) {c : Cache K V} {kv : KV} (hwf : wf kv)
    (h : Coherent st proj ok c kv) (ops : List (Op K V)) (hops : ∀ op, op ∈ ops → OpOk st proj ok g kv op) :
    wf (runBatch st c kv ops).2 := by
  obtain ⟨h1, _⟩ := applyOps_spec g L E hwf ops h.tracked hops
  have := flush_preserves L wf W.write W.delete (ops.foldl (applyOp st kv) c).items [] kv h1.nodup
    (fun id e hm hd hw => h1.dirty id e (find_of_mem h1.nodup hm) hd hw) hwf
  simpa [runBatch, flush] using this

/-- a history of write transactions; before each one the manager decides the fate of the shared cache -/
def runHistory (st : Storable K V) : Cache K V × KV → List (Fate × List (Op K V)) → Cache K V × KV
  | s, [] => s
  | (c, kv), (f, ops) :: rest => runHistory st (runBatch st (afterTx f c) kv ops) rest

/-- the side conditions of every transaction, w.r.t. the bucket it actually runs on -/
def OkRun (st : Storable K V) (proj : V → P) (ok : K → V → KV → Prop) (g : (K → V → V) → K → P → P) :
    Cache K V × KV → List (Fate × List (Op K V)) → Prop
  | _, [] => True
  | (c, kv), (f, ops) :: rest =>
    (∀ op, op ∈ ops → OpOk st proj ok g kv op) ∧ OkRun st proj ok g (runBatch st (afterTx f c) kv ops) rest

/-- the same history on a plain map: no cache, no fates -/
def specHistory (proj : V → P) (g : (K → V → V) → K → P → P) (m : K → Option P) :
    List (Fate × List (Op K V)) → K → Option P
  | [] => m
  | (_, ops) :: rest => specHistory proj g (ops.foldl (specOp proj g) m) rest

theorem coherent_afterTx {st : Storable K V} {proj : V → P} {ok : K → V → KV → Prop} {c : Cache K V} {kv : KV}
    (h : Coherent st proj ok c kv) (f : Fate) : Coherent st proj ok (afterTx f c) kv := by
  cases f
  · exact h
  · exact coherent_empty st proj ok kv

theorem runHistory_spec {st : Storable K V} {proj : V → P} {ok : K → V → KV → Prop} {wf : KV → Prop}
    (g : (K → V → V) → K → P → P)
    (L : Laws st proj ok) (E : EnumLaws st wf) (W : WfLaws st ok wf)
    (hist : List (Fate × List (Op K V))) {c : Cache K V} {kv : KV} (hwf : wf kv)
    (h : Coherent st proj ok c kv) (hrun : OkRun st proj ok g (c, kv) hist) :
    Coherent st proj ok (runHistory st (c, kv) hist).1 (runHistory st (c, kv) hist).2 ∧
    wf (runHistory st (c, kv) hist).2 ∧
    ∀ id, obs st proj (runHistory st (c, kv) hist).2 id = specHistory proj g (obs st proj kv) hist id := by
  induction hist generalizing c kv with
  | nil => exact ⟨h, hwf, fun _ => rfl⟩
  | cons b rest ih =>
    obtain ⟨f, ops⟩ := b
    obtain ⟨hops, hrest⟩ := hrun
    have hc := coherent_afterTx h f
    obtain ⟨h1, h2⟩ := runBatch_spec g L E hwf hc ops hops
    have hwf' := runBatch_wf g L E W hwf hc ops hops
    obtain ⟨h3, h4, h5⟩ := ih (c := (runBatch st (afterTx f c) kv ops).1) (kv := (runBatch st (afterTx f c) kv ops).2)
      hwf' h1 hrest
    refine ⟨h3, h4, fun id => ?_⟩
    simp only [runHistory, specHistory]
    rw [h5 id]
    have : obs st proj (runBatch st (afterTx f c) kv ops).2 = ops.foldl (specOp proj g) (obs st proj kv) := funext h2
    rw [this]

/-! ### order of the persist steps of a write path -/

/-- the persist-relevant steps of an index write path after its own Put / Delete calls -/
inductive Phase where
  | fit     -- the vector store's `Fit`: every live cached value is rewritten in place
  | flush   -- `Flush`
  deriving Repr, DecidableEq

/-- run the steps in the given order; `f` is the rewrite `Fit` performs -/
def runPhases (st : Storable K V) (f : K → V → V) : List Phase → Cache K V × KV → Cache K V × KV
  | [], s => s
  | .fit :: r, s => runPhases st f r ({ s.1 with items := mapLive f s.1.items }, s.2)
  | .flush :: r, s => runPhases st f r (flush st s.1 s.2)

/-- the call names extracted from the source (`Generated/FactsC08.lean`), read as phases -/
def phasesOfNames : List String → List Phase
  | [] => []
  | n :: r => if n = "fit" then .fit :: phasesOfNames r else if n = "flush" then .flush :: phasesOfNames r else phasesOfNames r

/-! ### lifetime of the byte slices the storage layer hands out -/

/-- what a `ReadFrom` keeps of one byte slice handed out by `bucket.Get` / a scan callback -/
inductive Held where
  | own (b : Bytes)      -- a private copy (`copy`, `BytesToFloat32`, `BytesToEdgeList`, `bytes.Clone`, a decoder)
  | alias (key : Bytes)  -- the slice itself: memory that belongs to the transaction which served `key`
  deriving Repr, DecidableEq

/-- the bytes a kept slice reads as, given what the memory behind the aliases holds *now* -/
def Held.bytes (mem : Bytes → Option Bytes) : Held → Option Bytes
  | .own b => some b
  | .alias k => mem k

/-- the byte-level side of a `Storable.ReadFrom`: which slices the cached value keeps (`none` =
ErrNotFound) and how the observation-relevant projection is decoded from their bytes -/
structure BRead (K P : Type) where
  keep : K → KV → Option (List Held)
  decode : List (Option Bytes) → P

/-- the projection of a cached value when the memory behind its aliases reads as `mem` -/
def BRead.projAt (r : BRead K P) (mem : Bytes → Option Bytes) (hs : List Held) : P :=
  r.decode (hs.map (Held.bytes mem))

/-- …inside the transaction that read it: an alias reads the bucket itself -/
def BRead.projNow (r : BRead K P) (kv : KV) (hs : List Held) : P := r.projAt (fun k => kv.get k) hs

/-- the requirement on a `ReadFrom` whose result is cached across transactions: everything it keeps
is a copy -/
def BRead.Copies (r : BRead K P) : Prop :=
  ∀ id kv hs, r.keep id kv = some hs → ∀ h, h ∈ hs → ∃ b, h = Held.own b

theorem held_bytes_own {hs : List Held} (h : ∀ x, x ∈ hs → ∃ b, x = Held.own b) (m₁ m₂ : Bytes → Option Bytes) :
    hs.map (Held.bytes m₁) = hs.map (Held.bytes m₂) := by
  apply List.map_congr_left
  intro x hx
  obtain ⟨b, rfl⟩ := h x hx
  rfl

end Sema.C08
