/-
C08 — executable model of shard/cache/itemcache.go (generic `ItemCache[K, V Storable]`), of the
manager's eviction ("a shared cache may disappear between two transactions") and of the two
storage backends.  Core-only (linked into the driver).

A Go map is an association list with at most one entry per key (`NodupKeys`); every theorem is
quantified over all such lists, i.e. over every map iteration order.
-/
import SemaModel.Base.KV
namespace Sema.C08
open Sema

/-- `cache.Storable[K, V]`: how an item stores itself in a bucket.  `readFrom = none` is
`cache.ErrNotFound`; `checkClear v = (CheckAndClearDirty(), v with the flag cleared)`. -/
structure Storable (K V : Type) where
  idFromKey : Bytes → Option K
  readFrom : K → KV → Option V
  writeTo : K → V → KV → KV
  deleteFrom : K → KV → KV
  checkClear : V → Bool × V

/-- `itemCacheElem` -/
structure Elem (V : Type) where
  value : V
  isDirty : Bool := false
  isDeleted : Bool := false
  deriving Repr

/-- `ItemCache`: `items` is the Go map, `isAllInCache` the flag set by the first `ForEach`.  The
bucket is not part of the state: `UpdateBucket` hands the bucket of the current transaction to every
operation, so each operation below takes the bucket as an argument. -/
structure Cache (K V : Type) where
  items : List (K × Elem V) := []
  isAllInCache : Bool := false

variable {K V : Type} [DecidableEq K]

def find (items : List (K × Elem V)) (id : K) : Option (Elem V) :=
  match items with
  | [] => none
  | (k, e) :: rest => if k = id then some e else find rest id

/-- `m[id] = e` -/
def set (items : List (K × Elem V)) (id : K) (e : Elem V) : List (K × Elem V) :=
  match items with
  | [] => [(id, e)]
  | (k, x) :: rest => if k = id then (id, e) :: rest else (k, x) :: set rest id e

/-- `NewItemCache(bucket)`; also what the manager's eviction / `Release` / a restart leave behind -/
def Cache.empty : Cache K V := {}

/-- `ic.read(id)`: `ReadFrom` the bucket and remember the value -/
def read (st : Storable K V) (c : Cache K V) (kv : KV) (id : K) : Cache K V × Option V :=
  match st.readFrom id kv with
  | none => (c, none)
  | some v => ({ c with items := set c.items id { value := v } }, some v)

/-- `Get`: `none` is ErrNotFound -/
def get (st : Storable K V) (c : Cache K V) (kv : KV) (id : K) : Cache K V × Option V :=
  match find c.items id with
  | some e => if e.isDeleted then (c, none) else (c, some e.value)
  | none => read st c kv id

/-- `Put` -/
def put (c : Cache K V) (id : K) (v : V) : Cache K V :=
  { c with items := set c.items id { value := v, isDirty := true } }

/-- `Delete(id)` (one id) -/
def delete (st : Storable K V) (c : Cache K V) (kv : KV) (id : K) : Cache K V :=
  match find c.items id with
  | some e => { c with items := set c.items id { e with isDeleted := true } }
  | none =>
    match st.readFrom id kv with
    | none => c
    | some v => { c with items := set c.items id { value := v, isDeleted := true } }

/-- the bucket scan of `ForEach`: every key recognised by `IdFromKey` and not yet cached is read;
`none` = ForEach returns the error of `read` (a recognised key whose item `ReadFrom` does not find) -/
def loadKeys (st : Storable K V) (kv : KV) : List Bytes → List (K × Elem V) → Option (List (K × Elem V))
  | [], items => some items
  | key :: rest, items =>
    match st.idFromKey key with
    | none => loadKeys st kv rest items
    | some id =>
      match find items id with
      | some _ => loadKeys st kv rest items
      | none =>
        match st.readFrom id kv with
        | none => none
        | some v => loadKeys st kv rest (set items id { value := v })

def loadAll (st : Storable K V) (c : Cache K V) (kv : KV) : Option (Cache K V) :=
  if c.isAllInCache then some c
  else (loadKeys st kv (kv.entries.map (·.1)) c.items).map fun items => { items := items, isAllInCache := true }

/-- the items `ForEach` hands to its callback (in map order = list order here) -/
def live (items : List (K × Elem V)) : List (K × V) :=
  (items.filter fun p => !p.2.isDeleted).map fun p => (p.1, p.2.value)

/-- `ForEach`: `none` = error -/
def forEach (st : Storable K V) (c : Cache K V) (kv : KV) : Option (Cache K V × List (K × V)) :=
  (loadAll st c kv).map fun c' => (c', live c'.items)

/-- `Count` -/
def count (st : Storable K V) (c : Cache K V) (kv : KV) : Nat :=
  let bucketCount := (kv.entries.filter fun e =>
    match st.idFromKey e.1 with
    | none => false
    | some id => (find c.items id).isNone).length
  let cacheCount := (c.items.filter fun p => !p.2.isDeleted).length
  cacheCount + bucketCount

/-- one iteration of the loop of `Flush` -/
def flushItem (st : Storable K V) (acc : List (K × Elem V) × KV) (p : K × Elem V) : List (K × Elem V) × KV :=
  let (kept, kv) := acc
  let (id, e) := p
  if e.isDeleted then (kept, st.deleteFrom id kv)            -- DeleteFrom; delete(ic.items, id)
  else if e.isDirty then                                      -- `item.IsDirty || …` short-circuits
    (kept ++ [(id, { e with isDirty := false })], st.writeTo id e.value kv)
  else
    let (d, v') := st.checkClear e.value
    if d then (kept ++ [(id, { e with value := v' })], st.writeTo id v' kv)
    else (kept ++ [(id, e)], kv)

/-- `Flush` -/
def flush (st : Storable K V) (c : Cache K V) (kv : KV) : Cache K V × KV :=
  let (items, kv') := c.items.foldl (flushItem st) ([], kv)
  ({ c with items := items }, kv')

/-! ### the manager -/

/-- what can happen to a shared cache between two transactions (`checkAndPrune`, `Release`,
`maxSize = 0`, restart): nothing, or it is gone and the next user starts from `NewItemCache` -/
inductive Fate where
  | keep | evict
  deriving Repr, DecidableEq

def afterTx (f : Fate) (c : Cache K V) : Cache K V :=
  match f with
  | .keep => c
  | .evict => Cache.empty

/-! ### backends -/

/-- a batch is a function on the bucket that may fail; the bbolt backend rolls a failed batch back,
the memory backend keeps whatever the batch wrote before failing (`memDiskStore.Write` has no
rollback) -/
structure Batch where
  run : KV → KV × Bool     -- (bucket after running, success)

def stepBolt (kv : KV) (b : Batch) : KV := let r := b.run kv; if r.2 then r.1 else kv
def stepMem (kv : KV) (b : Batch) : KV := (b.run kv).1

end Sema.C08
