/- C14: histories over several server lists — the invariant of a world is preserved by synchronisation
   events, safe changes of the list and client writes; a failure-free round converges from every
   reachable world; the executable checks of the driver imply the predicates of the statements -/
import SemaModel.C14.Spec
namespace Sema.C14

variable {N K : Type} [DecidableEq N] [DecidableEq K]

/-- the invariant of a world: `Inv` for the current routing and the current content -/
def WInv (w : World N K) : Prop := Inv w.cfg w.ro w.fo w.st

/-- the first world of a history: nothing out of date, everything on one started node -/
def WInit (w : World N K) : Prop := Init w.cfg w.ro w.fo w.st

omit [DecidableEq N] [DecidableEq K] in
theorem sumOK_congr {cfg cfg' : Cfg N K} (h : cfg'.sum = cfg.sum) (hs : SumOK cfg) : SumOK cfg' :=
  ⟨fun a b e => hs.inj a b (by rw [← h]; exact e), by rw [h]; exact hs.empty_ne_zero⟩

/-- chunk size, receiver variant and checksum never change -/
theorem wstep_consts (e : Ev N K) (w : World N K) :
    (wstep e w).cfg.cs = w.cfg.cs ∧ (wstep e w).cfg.trunc0 = w.cfg.trunc0 ∧ (wstep e w).cfg.sum = w.cfg.sum := by
  cases e <;> exact ⟨rfl, rfl, rfl⟩

theorem winv_reconf {w : World N K} (_h : WInv w) (o f : K → N) (u : N → Bool) (hsafe : Safe w o f u) :
    WInv (wstep (.reconf o f u) w) := by
  refine ⟨?_, ?_, ?_, ?_, ?_, ?_, ?_⟩
  · intro n k v hun hno hv
    by_cases e : w.ro k = some v
    · exact e
    · exact absurd (hsafe.ra n k v hun hv e) hno
  · exact hsafe.rb
  · intro n k hc; simp [wstep, clearAll] at hc
  · intro n k c hun hno hc
    by_cases e : w.fo k = some c
    · exact e
    · exact absurd (hsafe.fa n k c hun hc e) hno
  · exact hsafe.fb
  · intro n k hc; simp [wstep, clearAll] at hc
  · exact hsafe.fc

theorem winv_wrec {w : World N K} (h : WInv w) (k : K) (v : Option Content) (hq : QuietR w k) :
    WInv (wstep (.wrec k v) w) := by
  obtain ⟨huo, hq⟩ := hq
  have hrec : ∀ n k', ¬ (n = w.cfg.owner k ∧ k' = k) → upd w.st.recs (w.cfg.owner k) k v n k' = w.st.recs n k' := by
    intro n k' hh; simp [upd, hh]
  refine ⟨?_, ?_, ?_, h.f1, h.f2, h.f3, h.f4⟩
  · intro n k' x hun hno hx
    show (if k' = k then v else w.ro k') = some x
    have hx' : upd w.st.recs (w.cfg.owner k) k v n k' = some x := hx
    by_cases e : k' = k
    · subst e
      rw [hrec n k' (by rintro ⟨a, _⟩; exact hno a), hq n hun hno] at hx'
      cases hx'
    · rw [if_neg e]
      rw [hrec n k' (by rintro ⟨_, b⟩; exact e b)] at hx'
      exact h.r1 n k' x hun hno hx'
  · intro k' x hro
    have hro' : (if k' = k then v else w.ro k') = some x := hro
    by_cases e : k' = k
    · subst e
      rw [if_pos rfl] at hro'
      exact ⟨w.cfg.owner k', huo, by show upd w.st.recs _ _ v _ _ = some x; simp [upd, hro']⟩
    · rw [if_neg e] at hro'
      obtain ⟨n, hun, hn⟩ := h.r2 k' x hro'
      exact ⟨n, hun, by show upd w.st.recs _ _ v n k' = some x; rw [hrec n k' (by rintro ⟨_, b⟩; exact e b)]; exact hn⟩
  · intro n k' hc
    obtain ⟨a1, a2, a3, a4, a5⟩ := h.r3 n k' hc
    by_cases e : k' = k
    · subst e
      rw [hq n a1 a2] at a4
      cases a4
    · refine ⟨a1, a2, a3, ?_, ?_⟩
      · show (upd w.st.recs _ _ v n k').isSome
        rw [hrec n k' (by rintro ⟨_, b⟩; exact e b)]; exact a4
      · show upd w.st.recs _ _ v (w.cfg.owner k') k' = (if k' = k then v else w.ro k')
        rw [hrec _ k' (by rintro ⟨_, b⟩; exact e b), if_neg e]; exact a5

theorem winv_wfile {w : World N K} (h : WInv w) (k : K) (c : Option Content) (hq : QuietF w k) :
    WInv (wstep (.wfile k c) w) := by
  obtain ⟨huo, hq⟩ := hq
  have hfile : ∀ n k', ¬ (n = w.cfg.fowner k ∧ k' = k) → upd w.st.files (w.cfg.fowner k) k c n k' = w.st.files n k' := by
    intro n k' hh; simp [upd, hh]
  have hnon : ∀ n k', n ≠ w.cfg.fowner k' → upd w.st.files (w.cfg.fowner k) k c n k' = w.st.files n k' := by
    intro n k' hno
    exact hfile n k' (by rintro ⟨a, b⟩; subst b; exact hno a)
  refine ⟨h.r1, h.r2, h.r3, ?_, ?_, ?_, ?_⟩
  · intro n k' x hun hno hx
    show (if k' = k then c else w.fo k') = some x
    have hx' : upd w.st.files (w.cfg.fowner k) k c n k' = some x := hx
    rw [hnon n k' hno] at hx'
    by_cases e : k' = k
    · subst e
      rw [hq n hun hno] at hx'
      cases hx'
    · rw [if_neg e]
      exact h.f1 n k' x hun hno hx'
  · intro k' x hfo
    have hfo' : (if k' = k then c else w.fo k') = some x := hfo
    by_cases e : k' = k
    · subst e
      rw [if_pos rfl] at hfo'
      exact ⟨w.cfg.fowner k', huo, by show upd w.st.files _ _ c _ _ = some x; simp [upd, hfo']⟩
    · rw [if_neg e] at hfo'
      obtain ⟨n, hun, hn⟩ := h.f2 k' x hfo'
      exact ⟨n, hun, by show upd w.st.files _ _ c n k' = some x; rw [hfile n k' (by rintro ⟨_, b⟩; exact e b)]; exact hn⟩
  · intro n k' hc
    obtain ⟨a0, a1, a2, a3, a4⟩ := h.f3 n k' hc
    by_cases e : k' = k
    · subst e
      rw [hq n a0 a1] at a2
      cases a2
    · refine ⟨a0, a1, ?_, ?_, a4⟩
      · show (upd w.st.files _ _ c n k').isSome
        rw [hnon n k' a1]; exact a2
      · show upd w.st.files _ _ c (w.cfg.fowner k') k' = (if k' = k then c else w.fo k')
        rw [hfile _ k' (by rintro ⟨_, b⟩; exact e b), if_neg e]; exact a3
  · intro n n' k' hun hun' hn hn' h1 h2
    have h1' : (upd w.st.files (w.cfg.fowner k) k c n k').isSome := h1
    have h2' : (upd w.st.files (w.cfg.fowner k) k c n' k').isSome := h2
    rw [hnon n k' hn] at h1'
    rw [hnon n' k' hn'] at h2'
    exact h.f4 n n' k' hun hun' hn hn' h1' h2'

/-- every world of a history satisfies the invariant (and the constants are those of the first world) -/
theorem winv_reach {w0 w : World N K} (hs : SumOK w0.cfg) (h0 : WInit w0) (hr : WReach w0 w) :
    WInv w ∧ w.cfg.cs = w0.cfg.cs ∧ w.cfg.trunc0 = w0.cfg.trunc0 ∧ w.cfg.sum = w0.cfg.sum := by
  induction hr with
  | init => exact ⟨h0.inv, rfl, rfl, rfl⟩
  | sync l _ ih =>
    obtain ⟨i, c1, c2, c3⟩ := ih
    exact ⟨inv_step (sumOK_congr c3 hs) i l, c1, c2, c3⟩
  | reconf o f u _ hsafe ih =>
    obtain ⟨i, c1, c2, c3⟩ := ih
    exact ⟨winv_reconf i o f u hsafe, c1, c2, c3⟩
  | wrec k v _ hq ih =>
    obtain ⟨i, c1, c2, c3⟩ := ih
    exact ⟨winv_wrec i k v hq, c1, c2, c3⟩
  | wfile k c _ hq _ ih =>
    obtain ⟨i, c1, c2, c3⟩ := ih
    exact ⟨winv_wfile i k c hq, c1, c2, c3⟩

/-- shard files stay non-empty: they are at the start, and a client write never leaves an empty file -/
theorem wreach_nonempty {w0 w : World N K} (h0 : ∀ k c, w0.fo k = some c → c ≠ []) (hr : WReach w0 w) :
    ∀ k c, w.fo k = some c → c ≠ [] := by
  induction hr with
  | init => exact h0
  | sync l _ ih => exact ih
  | reconf o f u _ _ ih => exact ih
  | wrec k v _ _ ih => exact ih
  | wfile k c _ _ hne ih =>
    intro k' c' hc'
    have hc'' : (if k' = k then c else _) = some c' := hc'
    by_cases e : k' = k
    · rw [if_pos e] at hc''
      intro e'
      rw [e'] at hc''
      exact hne hc''
    · rw [if_neg e] at hc''
      exact ih k' c' hc''

/-- what a failure-free round achieves in a world -/
structure PlacedW (cfg : Cfg N K) (ro fo : K → Option Content) (s : St N K) : Prop where
  /-- every current record is at its routing owner, byte-identical -/
  rown : ∀ k v, ro k = some v → s.recs (cfg.owner k) k = some v
  /-- no other started node holds a copy of any record -/
  rnone : ∀ n k, cfg.up n = true → n ≠ cfg.owner k → s.recs n k = none
  fown : ∀ k c, fo k = some c → s.files (cfg.fowner k) k = some c
  fnone : ∀ n k, cfg.up n = true → n ≠ cfg.fowner k → s.files n k = none

theorem round_placed {cfg : Cfg N K} {ro fo} (hg : Good cfg fo) {nodes : List N} {rkeys fkeys : List K}
    (hcov : Covers cfg ro fo nodes rkeys fkeys) (s : St N K) (hinv : Inv cfg ro fo s) (order : List N)
    (hord : ∀ n ∈ order, cfg.up n = true)
    (hall : ∀ n k, cfg.up n = true → (s.recs n k).isSome ∨ (s.files n k).isSome → n ∈ order) :
    PlacedW cfg ro fo (round cfg nodes rkeys fkeys order s) ∧
      (∀ n ∈ order, (round cfg nodes rkeys fkeys order s).failed n = false) ∧
      Inv cfg ro fo (round cfg nodes rkeys fkeys order s) := by
  obtain ⟨r1, r2, r3, r4, _⟩ := round_spec hg hcov s hinv order s hord .init
  have i := inv_reachable hg.sum hinv r1
  have cleanR : ∀ n k, cfg.up n = true → n ≠ cfg.owner k → (round cfg nodes rkeys fkeys order s).recs n k = none := by
    intro n k hun hk
    by_cases hn : n ∈ order
    · exact (r2 n hn).2.1 k hk
    · apply r3 n k hk
      cases h : s.recs n k with
      | none => rfl
      | some v => exact absurd (hall n k hun (Or.inl (by simp [h]))) hn
  have cleanF : ∀ n k, cfg.up n = true → n ≠ cfg.fowner k → (round cfg nodes rkeys fkeys order s).files n k = none := by
    intro n k hun hk
    by_cases hn : n ∈ order
    · exact (r2 n hn).2.2 k hk
    · apply r4 n k hk
      cases h : s.files n k with
      | none => rfl
      | some v => exact absurd (hall n k hun (Or.inr (by simp [h]))) hn
  refine ⟨⟨?_, cleanR, ?_, cleanF⟩, fun n hn => (r2 n hn).1, i⟩
  · intro k v hro
    obtain ⟨m, hum, hm⟩ := i.r2 k v hro
    by_cases em : m = cfg.owner k
    · rw [← em]; exact hm
    · rw [cleanR m k hum em] at hm; cases hm
  · intro k c hfo
    obtain ⟨m, hum, hm⟩ := i.f2 k c hfo
    by_cases em : m = cfg.fowner k
    · rw [← em]; exact hm
    · rw [cleanF m k hum em] at hm; cases hm

omit [DecidableEq K] in
/-- When is a change of the list `Safe`?  For the nodes that keep running the invariant answers: their
out-of-date copies sit at the current owner only.  So it is enough that (1) every running node keeps
running, (2) a node that COMES BACK holds out-of-date copies only of keys the new routing assigns
to it (e.g. it received them under the very same list before the change was rolled back), (3) where
a running owner holds an out-of-date copy the owner does not change, (4) at most one started
non-owner holds a shard. -/
theorem safe_of_winv {w : World N K} (h : WInv w) (o f : K → N) (u : N → Bool)
    (hstay : ∀ n, w.cfg.up n = true → u n = true)
    (hbackR : ∀ n k v, u n = true → w.cfg.up n = false → w.st.recs n k = some v → w.ro k ≠ some v → n = o k)
    (hownR : ∀ k v, u (w.cfg.owner k) = true → w.st.recs (w.cfg.owner k) k = some v → w.ro k ≠ some v →
      o k = w.cfg.owner k)
    (hbackF : ∀ n k c, u n = true → w.cfg.up n = false → w.st.files n k = some c → w.fo k ≠ some c → n = f k)
    (hownF : ∀ k c, u (w.cfg.fowner k) = true → w.st.files (w.cfg.fowner k) k = some c → w.fo k ≠ some c →
      f k = w.cfg.fowner k)
    (hfc : ∀ n n' k, u n = true → u n' = true → n ≠ f k → n' ≠ f k →
      (w.st.files n k).isSome → (w.st.files n' k).isSome → n = n') : Safe w o f u := by
  refine ⟨?_, ?_, ?_, ?_, hfc⟩
  · intro n k v hun hv hne
    cases hw : w.cfg.up n with
    | false => exact hbackR n k v hun hw hv hne
    | true =>
      by_cases e : n = w.cfg.owner k
      · subst e; exact (hownR k v hun hv hne).symm
      · exact absurd (h.r1 n k v hw e hv) hne
  · intro k v hro
    obtain ⟨n, hn, hv⟩ := h.r2 k v hro
    exact ⟨n, hstay n hn, hv⟩
  · intro n k c hun hc hne
    cases hw : w.cfg.up n with
    | false => exact hbackF n k c hun hw hc hne
    | true =>
      by_cases e : n = w.cfg.fowner k
      · subst e; exact (hownF k c hun hc hne).symm
      · exact absurd (h.f1 n k c hw e hc) hne
  · intro k c hfo
    obtain ⟨n, hn, hc⟩ := h.f2 k c hfo
    exact ⟨n, hstay n hn, hc⟩

/-- a synchronisation (any sequence of its events) continues a history -/
theorem wreach_sync {w0 w : World N K} (hr : WReach w0 w) {s : St N K} (h : Reachable w.cfg w.st s) :
    WReach w0 { w with st := s } := by
  induction h with
  | init => exact hr
  | step l _ ih => exact WReach.sync l ih

/-- a cluster in which every record / shard file sits on one node and nothing is in flight -/
def placedSt (own fown : K → N) (ro fo : K → Option Content) : St N K :=
  { recs := fun n k => if n = own k then ro k else none,
    files := fun n k => if n = fown k then fo k else none,
    rconf := fun _ _ => false, fph := fun _ _ => .idle, failed := fun _ => false }

omit [DecidableEq K] in
theorem init_placedSt (cfg : Cfg N K) (own fown : K → N) (ro fo : K → Option Content)
    (hup : ∀ n, cfg.up n = true) : Init cfg ro fo (placedSt own fown ro fo) := by
  refine ⟨?_, ?_, ?_, ?_, ?_, fun _ _ => rfl, fun _ _ => rfl, fun n _ _ => hup n⟩
  · intro n k v h
    simp only [placedSt] at h
    split at h
    · exact h
    · cases h
  · intro k v h
    exact ⟨own k, by simp [placedSt, h]⟩
  · intro n k c h
    simp only [placedSt] at h
    split at h
    · exact h
    · cases h
  · intro k c h
    exact ⟨fown k, by simp [placedSt, h]⟩
  · intro n n' k a b
    simp only [placedSt] at a b
    split at a
    · split at b
      · rename_i h1 h2; rw [h1, h2]
      · cases b
    · cases a

/-! ### the executable checks of the driver imply the predicates -/

/-- the node and key lists cover everything that exists in the world -/
structure Supp (w : World N K) (nodes : List N) (rkeys fkeys : List K) : Prop where
  recs : ∀ n k, (w.st.recs n k).isSome → n ∈ nodes ∧ k ∈ rkeys
  files : ∀ n k, (w.st.files n k).isSome → n ∈ nodes ∧ k ∈ fkeys
  ro : ∀ k, (w.ro k).isSome → k ∈ rkeys
  fo : ∀ k, (w.fo k).isSome → k ∈ fkeys

omit [DecidableEq K] in
theorem safeB_sound {w : World N K} {o f : K → N} {u : N → Bool} {nodes : List N} {rkeys fkeys : List K}
    (hsupp : Supp w nodes rkeys fkeys) (h : safeB w o f u nodes rkeys fkeys = true) : Safe w o f u := by
  simp only [safeB, Bool.and_eq_true, List.all_eq_true] at h
  obtain ⟨hr, hf⟩ := h
  refine ⟨?_, ?_, ?_, ?_, ?_⟩
  · intro n k v hun hv hne
    obtain ⟨hn, hk⟩ := hsupp.recs n k (by rw [hv]; rfl)
    have := (hr k hk).1 n hn
    rw [hv] at this
    simp only [hun, Bool.not_true, Bool.false_or, Bool.or_eq_true, decide_eq_true_eq] at this
    rcases this with e | e
    · exact absurd e hne
    · exact e
  · intro k v hro
    have := (hr k (hsupp.ro k (by rw [hro]; rfl))).2
    rw [hro] at this
    simp only [List.any_eq_true, Bool.and_eq_true, decide_eq_true_eq] at this
    obtain ⟨n, _, hun, hn⟩ := this
    exact ⟨n, hun, hn⟩
  · intro n k c hun hc hne
    obtain ⟨hn, hk⟩ := hsupp.files n k (by rw [hc]; rfl)
    have := (hf k hk).1.1 n hn
    rw [hc] at this
    simp only [hun, Bool.not_true, Bool.false_or, Bool.or_eq_true, decide_eq_true_eq] at this
    rcases this with e | e
    · exact absurd e hne
    · exact e
  · intro k c hfo
    have := (hf k (hsupp.fo k (by rw [hfo]; rfl))).1.2
    rw [hfo] at this
    simp only [List.any_eq_true, Bool.and_eq_true, decide_eq_true_eq] at this
    obtain ⟨n, _, hun, hn⟩ := this
    exact ⟨n, hun, hn⟩
  · intro n n' k hun hun' hne hne' h1 h2
    obtain ⟨hn, hk⟩ := hsupp.files n k h1
    obtain ⟨hn', _⟩ := hsupp.files n' k h2
    have := (hf k hk).2 n hn n' hn'
    simpa [hun, hun', hne, hne', h1, h2] using this

omit [DecidableEq K] in
theorem quietRB_sound {w : World N K} {nodes : List N} {rkeys fkeys : List K} (hsupp : Supp w nodes rkeys fkeys)
    (k : K) (h : quietRB w nodes k = true) : QuietR w k := by
  simp only [quietRB, Bool.and_eq_true, List.all_eq_true, Bool.or_eq_true, Bool.not_eq_true',
    decide_eq_true_eq, Option.isNone_iff_eq_none] at h
  refine ⟨h.1, ?_⟩
  intro n hun hno
  cases hv : w.st.recs n k with
  | none => rfl
  | some v =>
    obtain ⟨hn, _⟩ := hsupp.recs n k (by rw [hv]; rfl)
    rcases h.2 n hn with (e | e) | e
    · rw [hun] at e; cases e
    · exact absurd e hno
    · rw [hv] at e; cases e

omit [DecidableEq K] in
theorem quietFB_sound {w : World N K} {nodes : List N} {rkeys fkeys : List K} (hsupp : Supp w nodes rkeys fkeys)
    (k : K) (h : quietFB w nodes k = true) : QuietF w k := by
  simp only [quietFB, Bool.and_eq_true, List.all_eq_true, Bool.or_eq_true, Bool.not_eq_true',
    decide_eq_true_eq, Option.isNone_iff_eq_none] at h
  refine ⟨h.1, ?_⟩
  intro n hun hno
  cases hv : w.st.files n k with
  | none => rfl
  | some v =>
    obtain ⟨hn, _⟩ := hsupp.files n k (by rw [hv]; rfl)
    rcases h.2 n hn with (e | e) | e
    · rw [hun] at e; cases e
    · exact absurd e hno
    · rw [hv] at e; cases e

end Sema.C14
