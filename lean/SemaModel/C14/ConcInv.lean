/- C14: concurrent failure-free rounds.  The invariant of the concurrent program (`CInv`): the state
   invariant `Inv` plus, per started node, what its `Sync` has achieved at its control point
   (`NodeInv`).  `NodeInv n` speaks only about what node `n` owns privately (`Priv`): its volatile
   state, the entries it holds without being their owner, and the owner's file of a shard it holds
   — none of which a step of ANOTHER node changes (`step_priv`; for the last item this is the
   invariant "at most one started non-owner holds a shard").  Interference between the goroutines
   of one node is handled in the step lemmas (they work on disjoint keys). -/
import SemaModel.C14.Epochs
import SemaModel.C14.Concurrent
namespace Sema.C14

variable {N K : Type} [DecidableEq N] [DecidableEq K]

/-! ### what a node's `Sync` depends on is not touched by the others -/

structure Priv (cfg : Cfg N K) (n : N) (s s' : St N K) : Prop where
  failed : s'.failed n = s.failed n
  rconf : ∀ k, s'.rconf n k = s.rconf n k
  fph : ∀ k, s'.fph n k = s.fph n k
  recs : ∀ k, n ≠ cfg.owner k → s'.recs n k = s.recs n k
  files : ∀ k, n ≠ cfg.fowner k → s'.files n k = s.files n k
  dst : ∀ k, n ≠ cfg.fowner k → (s.files n k).isSome → s'.files (cfg.fowner k) k = s.files (cfg.fowner k) k

omit [DecidableEq N] [DecidableEq K] in
theorem Priv.refl (cfg : Cfg N K) (n : N) (s : St N K) : Priv cfg n s s :=
  ⟨rfl, fun _ => rfl, fun _ => rfl, fun _ _ => rfl, fun _ _ => rfl, fun _ _ _ => rfl⟩

omit [DecidableEq K] in
theorem priv_clear (cfg : Cfg N K) (n m : N) (b : Bool) (s : St N K) (h : m ≠ n) :
    Priv cfg n s (clearVolatile s m b) := by
  refine ⟨?_, ?_, ?_, fun _ _ => rfl, fun _ _ => rfl, fun _ _ _ => rfl⟩
  · simp only [clearVolatile]; rw [if_neg (fun e => h e.symm)]
  · intro k; simp only [clearVolatile]; rw [if_neg (fun e => h e.symm)]
  · intro k; simp only [clearVolatile]; rw [if_neg (fun e => h e.symm)]

/-- a step of another node leaves everything node `n`'s `Sync` depends on unchanged -/
theorem step_priv {cfg : Cfg N K} {ro fo} {s : St N K} (hinv : Inv cfg ro fo s) (l : Label N K) (n : N)
    (hun : cfg.up n = true) (ha : actor l ≠ n) : Priv cfg n s (step cfg l s) := by
  unfold step
  split
  · rename_i hen
    cases l with
    | rsend src dst batch ok =>
      obtain ⟨_, _, _, hb⟩ := rsend_enabled hen
      have hsn : src ≠ n := ha
      refine ⟨rfl, ?_, fun _ => rfl, ?_, fun _ _ => rfl, fun _ _ _ => rfl⟩
      · intro k; simp only [apply]
        rw [if_neg (by rintro ⟨e, _⟩; exact hsn e.symm)]
      · intro k hk; simp only [apply]
        rw [if_neg (by rintro ⟨e, hkb⟩; exact hk (e.trans (hb k hkb).1.symm))]
    | rdelete src batch =>
      have hsn : src ≠ n := ha
      refine ⟨rfl, ?_, fun _ => rfl, ?_, fun _ _ => rfl, fun _ _ _ => rfl⟩
      · intro k; simp only [apply]
        rw [if_neg (by rintro ⟨e, _⟩; exact hsn e.symm)]
      · intro k _; simp only [apply]
        rw [if_neg (by rintro ⟨e, _⟩; exact hsn e.symm)]
    | fchunk src k' cor =>
      obtain ⟨c, i, hc, hp, hus, _, hne, _⟩ := fchunk_enabled hen
      have hsn : src ≠ n := ha
      simp only [apply, hc, hp]
      refine ⟨rfl, fun _ => rfl, ?_, fun _ _ => rfl, ?_, ?_⟩
      · intro k; simp only [upd]; rw [if_neg (by rintro ⟨e, _⟩; exact hsn e.symm)]
      · intro k hk; simp only [upd]
        rw [if_neg (by rintro ⟨e1, e2⟩; subst e2; exact hk e1)]
      · intro k hk hsome; simp only [upd]
        rw [if_neg]
        rintro ⟨_, e2⟩
        subst e2
        exact hsn (hinv.f4 src n k hus hun hne hk (by simp [hc]) hsome)
    | ffinal src k' =>
      obtain ⟨c, i, hc, hp, hus, _, hne, _⟩ := ffinal_enabled hen
      have hsn : src ≠ n := ha
      have hfiles : ∀ k, n ≠ cfg.fowner k →
          upd s.files (cfg.fowner k') k' (some (recvWrite cfg.trunc0 (s.files (cfg.fowner k') k') i [])) n k = s.files n k := by
        intro k hk; simp only [upd]
        rw [if_neg (by rintro ⟨e1, e2⟩; subst e2; exact hk e1)]
      have hdst : ∀ k, n ≠ cfg.fowner k → (s.files n k).isSome →
          upd s.files (cfg.fowner k') k' (some (recvWrite cfg.trunc0 (s.files (cfg.fowner k') k') i [])) (cfg.fowner k) k
            = s.files (cfg.fowner k) k := by
        intro k hk hsome; simp only [upd]
        rw [if_neg]
        rintro ⟨_, e2⟩
        subst e2
        exact hsn (hinv.f4 src n k hus hun hne hk (by simp [hc]) hsome)
      simp only [apply, hc, hp]
      split
      · refine ⟨rfl, fun _ => rfl, ?_, fun _ _ => rfl, hfiles, hdst⟩
        intro k; simp only [upd]; rw [if_neg (by rintro ⟨e, _⟩; exact hsn e.symm)]
      · refine ⟨?_, ?_, ?_, fun _ _ => rfl, hfiles, hdst⟩
        · simp only [clearVolatile]; rw [if_neg (fun e => hsn e.symm)]
        · intro k; simp only [clearVolatile]; rw [if_neg (fun e => hsn e.symm)]
        · intro k; simp only [clearVolatile]; rw [if_neg (fun e => hsn e.symm)]
    | fremove src k' =>
      have hsn : src ≠ n := ha
      simp only [enabled, decide_eq_true_eq] at hen
      obtain ⟨_, a1, _, _, _⟩ := hinv.f3 src k' hen
      simp only [apply]
      refine ⟨rfl, fun _ => rfl, ?_, fun _ _ => rfl, ?_, ?_⟩
      · intro k; simp only [upd]; rw [if_neg (by rintro ⟨e, _⟩; exact hsn e.symm)]
      · intro k _; simp only [upd]; rw [if_neg (by rintro ⟨e, _⟩; exact hsn e.symm)]
      · intro k _ _; simp only [upd]
        rw [if_neg (by rintro ⟨e1, e2⟩; subst e2; exact a1 e1.symm)]
    | fail m => exact priv_clear cfg n m true s ha
    | restart m => exact priv_clear cfg n m false s ha
  · exact Priv.refl cfg n s

/-! ### what a node's `Sync` has achieved at each control point -/

def NodeInv (cfg : Cfg N K) (n : N) : Pc N K → St N K → Prop
  | .boot, _ => True
  | .snap1, s => s.failed n = false ∧ ∀ k, s.fph n k = .idle
  | .phase1 dests batch stage, s =>
      s.failed n = false ∧ (∀ k, s.fph n k = .idle) ∧
      (∀ d ∈ dests, cfg.up d = true ∧ d ≠ n) ∧
      -- a goroutine that has not sent yet still holds its batch; one that was confirmed may delete it
      (∀ d ∈ dests, ∀ k ∈ batch d, cfg.owner k = d ∧ (stage d = .send → (s.recs n k).isSome) ∧
          (stage d = .delete → s.rconf n k = true)) ∧
      -- whatever the node holds without owning it is in the batch of a goroutine that is not done
      (∀ k, n ≠ cfg.owner k → (s.recs n k).isSome →
          cfg.owner k ∈ dests ∧ k ∈ batch (cfg.owner k) ∧ stage (cfg.owner k) ≠ .done)
  | .snap2, s => s.failed n = false ∧ (∀ k, s.fph n k = .idle) ∧ (∀ k, n ≠ cfg.owner k → s.recs n k = none)
  | .phase2 dests todo, s =>
      s.failed n = false ∧ (∀ k, n ≠ cfg.owner k → s.recs n k = none) ∧
      (∀ d ∈ dests, (todo d).Nodup ∧ ∀ k ∈ todo d, cfg.fowner k = d ∧ n ≠ d ∧ (s.files n k).isSome) ∧
      -- whatever shard the node holds without owning it is still in the list of a goroutine
      (∀ k, n ≠ cfg.fowner k → (s.files n k).isSome → cfg.fowner k ∈ dests ∧ k ∈ todo (cfg.fowner k)) ∧
      -- only the shard at the head of a goroutine's list is in flight
      (∀ k, s.fph n k ≠ .idle → cfg.fowner k ∈ dests ∧ ∃ rest, todo (cfg.fowner k) = k :: rest) ∧
      -- the chunks acknowledged so far are what the owner's file consists of
      (∀ k c i, n ≠ cfg.fowner k → s.files n k = some c → s.fph n k = .sending i →
          i ≤ (chunks cfg.cs c).length ∧
          (0 < i → s.files (cfg.fowner k) k = some ((chunks cfg.cs c).take i).flatten))
  | .done, s =>
      s.failed n = false ∧ (∀ k, n ≠ cfg.owner k → s.recs n k = none) ∧ (∀ k, n ≠ cfg.fowner k → s.files n k = none)

omit [DecidableEq N] [DecidableEq K] in
theorem nodeInv_priv {cfg : Cfg N K} {n : N} {p : Pc N K} {s s' : St N K} (h : NodeInv cfg n p s)
    (hp : Priv cfg n s s') : NodeInv cfg n p s' := by
  cases p with
  | boot => trivial
  | snap1 =>
    obtain ⟨a, b⟩ := h
    exact ⟨by rw [hp.failed]; exact a, fun k => by rw [hp.fph]; exact b k⟩
  | phase1 dests batch stage =>
    obtain ⟨a, b, c, d, e⟩ := h
    refine ⟨by rw [hp.failed]; exact a, fun k => by rw [hp.fph]; exact b k, c, ?_, ?_⟩
    · intro x hx k hk
      obtain ⟨d1, d2, d3⟩ := d x hx k hk
      have hne : n ≠ cfg.owner k := by rw [d1]; exact fun e => (c x hx).2 e.symm
      exact ⟨d1, fun hs => by rw [hp.recs k hne]; exact d2 hs, fun hs => by rw [hp.rconf]; exact d3 hs⟩
    · intro k hne hs
      rw [hp.recs k hne] at hs
      exact e k hne hs
  | snap2 =>
    obtain ⟨a, b, c⟩ := h
    exact ⟨by rw [hp.failed]; exact a, fun k => by rw [hp.fph]; exact b k,
      fun k hne => by rw [hp.recs k hne]; exact c k hne⟩
  | phase2 dests todo =>
    obtain ⟨a, b, c, d, e, f⟩ := h
    refine ⟨by rw [hp.failed]; exact a, fun k hne => by rw [hp.recs k hne]; exact b k hne, ?_, ?_, ?_, ?_⟩
    · intro x hx
      refine ⟨(c x hx).1, ?_⟩
      intro k hk
      obtain ⟨c1, c2, c3⟩ := (c x hx).2 k hk
      exact ⟨c1, c2, by rw [hp.files k (by rw [c1]; exact c2)]; exact c3⟩
    · intro k hne hs
      rw [hp.files k hne] at hs
      exact d k hne hs
    · intro k hk
      rw [hp.fph] at hk
      exact e k hk
    · intro k c' i hne hc hi
      rw [hp.files k hne] at hc
      rw [hp.fph] at hi
      obtain ⟨f1, f2⟩ := f k c' i hne hc hi
      exact ⟨f1, fun h0 => by rw [hp.dst k hne (by rw [hc]; rfl)]; exact f2 h0⟩
  | done =>
    obtain ⟨a, b, c⟩ := h
    exact ⟨by rw [hp.failed]; exact a, fun k hne => by rw [hp.recs k hne]; exact b k hne,
      fun k hne => by rw [hp.files k hne]; exact c k hne⟩

/-- the invariant of the concurrent program -/
structure CInv (cfg : Cfg N K) (ro fo : K → Option Content) (c : CSt N K) : Prop where
  inv : Inv cfg ro fo c.st
  node : ∀ n, cfg.up n = true → NodeInv cfg n (c.pc n) c.st

/-- the hypotheses of a round about the configuration and the lists -/
structure RoundOK (cfg : Cfg N K) (ro fo : K → Option Content) (nodes : List N) (rkeys fkeys : List K) : Prop where
  good : Good cfg fo
  cov : Covers cfg ro fo nodes rkeys fkeys
  /-- `filepath.Walk` lists every shard directory once -/
  nodup : fkeys.Nodup

theorem act_pos (cfg : Cfg N K) (n : N) (l : Label N K) (s : St N K) (h : enabled cfg s l = true) :
    act cfg n l s = step cfg l s := by
  unfold act; rw [if_pos h]

theorem act_stepsBy (cfg : Cfg N K) (n : N) (l : Label N K) (s : St N K) (hl : actor l = n) :
    StepsBy cfg n s (act cfg n l s) := by
  unfold act
  split
  · exact StepsBy.one s l hl
  · exact StepsBy.one s (.fail n) rfl

omit [DecidableEq K] in
theorem enabled_rsend (cfg : Cfg N K) (s : St N K) (src dst : N) (batch : List K) (ok : Bool)
    (hus : cfg.up src = true) (hud : cfg.up dst = true) (hne : src ≠ dst)
    (hb : ∀ k ∈ batch, cfg.owner k = dst ∧ (s.recs src k).isSome) :
    enabled cfg s (.rsend src dst batch ok) = true := by
  simp only [enabled, decide_eq_true_eq, Bool.and_eq_true, List.all_eq_true, Bool.decide_and]
  exact ⟨hus, hud, hne, fun k hk => by simpa using hb k hk⟩

/-! ### the steps of node `n` itself -/

theorem nodeInv_boot (cfg : Cfg N K) (n : N) (s : St N K) :
    NodeInv cfg n .snap1 (step cfg (.restart n) s) := by
  constructor <;> simp [step, enabled, apply, clearVolatile]

theorem nodeInv_snap1 {cfg : Cfg N K} {ro fo} {nodes : List N} {rkeys fkeys : List K}
    (hok : RoundOK cfg ro fo nodes rkeys fkeys) {n : N} (hun : cfg.up n = true) {s : St N K}
    (hinv : Inv cfg ro fo s) (h : NodeInv cfg n .snap1 s) :
    NodeInv cfg n (.phase1 (rdests cfg rkeys n s) (fun d => rbatch cfg rkeys n d s) (fun _ => .send)) s := by
  obtain ⟨a, b⟩ := h
  refine ⟨a, b, ?_, ?_, ?_⟩
  · intro d hd
    simp only [rdests, List.mem_map, List.mem_filter, decide_eq_true_eq] at hd
    obtain ⟨k, ⟨_, hne, hs⟩, rfl⟩ := hd
    obtain ⟨v, hv⟩ := Option.isSome_iff_exists.mp hs
    have hro := hinv.r1 n k v hun (fun e => hne e.symm) hv
    exact ⟨hok.cov.up _ (hok.cov.dst k (by rw [hro]; rfl)), hne⟩
  · intro d _ k hk
    simp only [rbatch, List.mem_filter, decide_eq_true_eq] at hk
    exact ⟨hk.2.1, fun _ => hk.2.2, fun e => by cases e⟩
  · intro k hne hs
    obtain ⟨v, hv⟩ := Option.isSome_iff_exists.mp hs
    have hro := hinv.r1 n k v hun hne hv
    have hk : k ∈ rkeys := hok.cov.rk k (by rw [hro]; rfl)
    refine ⟨?_, ?_, by simp⟩
    · simp only [rdests, List.mem_map, List.mem_filter, decide_eq_true_eq]
      exact ⟨k, ⟨hk, fun e => hne e.symm, hs⟩, rfl⟩
    · exact List.mem_filter.mpr ⟨hk, by simp [hs]⟩

theorem nodeInv_rsend {cfg : Cfg N K} {n d : N} {dests : List N} {batch : N → List K} {stage : N → RStage}
    {s : St N K} (h : NodeInv cfg n (.phase1 dests batch stage) s) (hun : cfg.up n = true)
    (hd : d ∈ dests) (hst : stage d = .send) :
    enabled cfg s (.rsend n d (batch d) true) = true ∧
    NodeInv cfg n (.phase1 dests batch (fun x => if x = d then .delete else stage x))
      (step cfg (.rsend n d (batch d) true) s) := by
  obtain ⟨a, b, c, dd, e⟩ := h
  have hnd : n ≠ d := fun e' => (c d hd).2 e'.symm
  have hb : ∀ k ∈ batch d, cfg.owner k = d ∧ (s.recs n k).isSome :=
    fun k hk => ⟨(dd d hd k hk).1, (dd d hd k hk).2.1 hst⟩
  have hen := enabled_rsend cfg s n d (batch d) true hun (c d hd).1 hnd hb
  refine ⟨hen, ?_⟩
  rw [step_rsend_eq cfg s n d (batch d) true hun (c d hd).1 hnd hb]
  have hrecs : ∀ k, (apply cfg s (.rsend n d (batch d) true)).recs n k = s.recs n k := by
    intro k; simp only [apply]; rw [if_neg (by rintro ⟨e', _⟩; exact hnd e')]
  have hrconf : ∀ k, (apply cfg s (.rsend n d (batch d) true)).rconf n k = (if k ∈ batch d then true else s.rconf n k) := by
    intro k; simp only [apply]
    by_cases hk : k ∈ batch d <;> simp [hk]
  refine ⟨a, b, c, ?_, ?_⟩
  · intro x hx k hk
    obtain ⟨d1, d2, d3⟩ := dd x hx k hk
    refine ⟨d1, ?_, ?_⟩
    · intro hs
      dsimp only at hs
      by_cases hxd : x = d
      · simp [hxd] at hs
      · rw [if_neg hxd] at hs; rw [hrecs]; exact d2 hs
    · intro hs
      dsimp only at hs
      rw [hrconf]
      by_cases hxd : x = d
      · subst hxd; rw [if_pos hk]
      · rw [if_neg hxd] at hs
        split
        · rfl
        · exact d3 hs
  · intro k hne hs
    rw [hrecs] at hs
    obtain ⟨e1, e2, e3⟩ := e k hne hs
    refine ⟨e1, e2, ?_⟩
    dsimp only
    by_cases hxd : cfg.owner k = d
    · simp [hxd]
    · rw [if_neg hxd]; exact e3

theorem nodeInv_rdelete {cfg : Cfg N K} {n d : N} {dests : List N} {batch : N → List K} {stage : N → RStage}
    {s : St N K} (h : NodeInv cfg n (.phase1 dests batch stage) s)
    (hd : d ∈ dests) (hst : stage d = .delete) :
    enabled cfg s (.rdelete n (batch d)) = true ∧
    NodeInv cfg n (.phase1 dests batch (fun x => if x = d then .done else stage x))
      (step cfg (.rdelete n (batch d)) s) := by
  obtain ⟨a, b, c, dd, e⟩ := h
  have hb : ∀ k ∈ batch d, s.rconf n k = true := fun k hk => (dd d hd k hk).2.2 hst
  have hen : enabled cfg s (.rdelete n (batch d)) = true := by
    simp only [enabled, List.all_eq_true]; exact hb
  refine ⟨hen, ?_⟩
  rw [step_rdelete_eq cfg s n (batch d) hb]
  have hrecs : ∀ k, (apply cfg s (.rdelete n (batch d))).recs n k = (if k ∈ batch d then none else s.recs n k) := by
    intro k; simp only [apply]
    by_cases hk : k ∈ batch d <;> simp [hk]
  have hrconf : ∀ k, k ∉ batch d → (apply cfg s (.rdelete n (batch d))).rconf n k = s.rconf n k := by
    intro k hk; simp only [apply]; rw [if_neg (by rintro ⟨_, h'⟩; exact hk h')]
  -- the batches of different goroutines are disjoint
  have hdisj : ∀ x ∈ dests, x ≠ d → ∀ k ∈ batch x, k ∉ batch d := by
    intro x hx hxd k hk hkd
    exact hxd ((dd x hx k hk).1.symm.trans (dd d hd k hkd).1)
  refine ⟨a, b, c, ?_, ?_⟩
  · intro x hx k hk
    obtain ⟨d1, d2, d3⟩ := dd x hx k hk
    refine ⟨d1, ?_, ?_⟩
    · intro hs
      dsimp only at hs
      by_cases hxd : x = d
      · simp [hxd] at hs
      · rw [if_neg hxd] at hs
        rw [hrecs, if_neg (hdisj x hx hxd k hk)]; exact d2 hs
    · intro hs
      dsimp only at hs
      by_cases hxd : x = d
      · simp [hxd] at hs
      · rw [if_neg hxd] at hs
        rw [hrconf k (hdisj x hx hxd k hk)]; exact d3 hs
  · intro k hne hs
    rw [hrecs] at hs
    by_cases hk : k ∈ batch d
    · rw [if_pos hk] at hs; cases hs
    · rw [if_neg hk] at hs
      obtain ⟨e1, e2, e3⟩ := e k hne hs
      refine ⟨e1, e2, ?_⟩
      dsimp only
      by_cases hxd : cfg.owner k = d
      · exact absurd (hxd ▸ e2) hk
      · rw [if_neg hxd]; exact e3

theorem nodeInv_join1 {cfg : Cfg N K} {n : N} {dests : List N} {batch : N → List K} {stage : N → RStage}
    {s : St N K} (h : NodeInv cfg n (.phase1 dests batch stage) s)
    (hall : dests.all (fun d => stage d = .done) = true) : NodeInv cfg n .snap2 s := by
  obtain ⟨a, b, _, _, e⟩ := h
  refine ⟨a, b, ?_⟩
  intro k hne
  cases hk : s.recs n k with
  | none => rfl
  | some v =>
    obtain ⟨e1, _, e3⟩ := e k hne (by rw [hk]; rfl)
    simp only [List.all_eq_true, decide_eq_true_eq] at hall
    exact absurd (hall _ e1) e3

theorem nodeInv_snap2 {cfg : Cfg N K} {ro fo} {nodes : List N} {rkeys fkeys : List K}
    (hok : RoundOK cfg ro fo nodes rkeys fkeys) {n : N} (hun : cfg.up n = true) {s : St N K}
    (hinv : Inv cfg ro fo s) (h : NodeInv cfg n .snap2 s) :
    NodeInv cfg n (.phase2 (fdests cfg fkeys n s) (fun d => ftodo cfg fkeys n d s)) s := by
  obtain ⟨a, b, c⟩ := h
  refine ⟨a, c, ?_, ?_, ?_, ?_⟩
  · intro d hd
    simp only [fdests, List.mem_map, List.mem_filter, decide_eq_true_eq] at hd
    obtain ⟨k', ⟨_, hne', _⟩, rfl⟩ := hd
    refine ⟨hok.nodup.filter _, ?_⟩
    intro k hk
    simp only [ftodo, List.mem_filter, decide_eq_true_eq] at hk
    exact ⟨hk.2.1, fun e => hne' e.symm, hk.2.2⟩
  · intro k hne hs
    obtain ⟨v, hv⟩ := Option.isSome_iff_exists.mp hs
    have hfo := hinv.f1 n k v hun hne hv
    have hk : k ∈ fkeys := hok.cov.fk k (by rw [hfo]; rfl)
    constructor
    · simp only [fdests, List.mem_map, List.mem_filter, decide_eq_true_eq]
      exact ⟨k, ⟨hk, fun e => hne e.symm, hs⟩, rfl⟩
    · exact List.mem_filter.mpr ⟨hk, by simp [hs]⟩
  · intro k hk; exact absurd (b k) hk
  · intro k c' i _ _ hi; rw [b k] at hi; cases hi

theorem prog_progress (ph : Phase) (h : ph ≠ .confirmed) : progress ph = some (prog ph) := by
  cases ph <;> simp_all [progress, prog]

theorem prog_pos (ph : Phase) (h : 0 < prog ph) : ph = .sending (prog ph) := by
  cases ph <;> simp_all [prog]

theorem nodeInv_fremove {cfg : Cfg N K} {n d : N} {dests : List N} {todo : N → List K}
    {s : St N K} {k : K} {rest : List K} (h : NodeInv cfg n (.phase2 dests todo) s)
    (hd : d ∈ dests) (htodo : todo d = k :: rest) (hph : s.fph n k = .confirmed) :
    NodeInv cfg n (.phase2 dests (fun x => if x = d then rest else todo x)) (step cfg (.fremove n k) s) := by
  obtain ⟨a, b, c, dd, e, f⟩ := h
  rw [step_fremove_eq cfg s n k hph]
  have hkd : cfg.fowner k = d := ((c d hd).2 k (by rw [htodo]; exact List.mem_cons_self)).1
  have hnd : (k :: rest).Nodup := by rw [← htodo]; exact (c d hd).1
  have hfiles : ∀ k', k' ≠ k → ∀ m, upd s.files n k none m k' = s.files m k' := by
    intro k' hk' m; simp only [upd]; rw [if_neg (by rintro ⟨_, e2⟩; exact hk' e2)]
  have hfph : ∀ k', k' ≠ k → upd s.fph n k Phase.idle n k' = s.fph n k' := by
    intro k' hk'; simp only [upd]; rw [if_neg (by rintro ⟨_, e2⟩; exact hk' e2)]
  refine ⟨a, b, ?_, ?_, ?_, ?_⟩
  · intro x hx
    dsimp only
    by_cases hxd : x = d
    · subst hxd
      rw [if_pos rfl]
      refine ⟨(List.nodup_cons.mp hnd).2, ?_⟩
      intro k' hk'
      have hne : k' ≠ k := fun e' => (List.nodup_cons.mp hnd).1 (e' ▸ hk')
      obtain ⟨c1, c2, c3⟩ := (c x hx).2 k' (by rw [htodo]; exact List.mem_cons_of_mem _ hk')
      exact ⟨c1, c2, by show (upd s.files n k none n k').isSome = true; rw [hfiles k' hne]; exact c3⟩
    · rw [if_neg hxd]
      refine ⟨(c x hx).1, ?_⟩
      intro k' hk'
      obtain ⟨c1, c2, c3⟩ := (c x hx).2 k' hk'
      have hne : k' ≠ k := fun e' => hxd (by rw [← c1, e', hkd])
      exact ⟨c1, c2, by show (upd s.files n k none n k').isSome = true; rw [hfiles k' hne]; exact c3⟩
  · intro k' hne hs
    have hs' : (upd s.files n k none n k').isSome = true := hs
    by_cases hk' : k' = k
    · subst hk'; simp [upd] at hs'
    · rw [hfiles k' hk'] at hs'
      obtain ⟨d1, d2⟩ := dd k' hne hs'
      refine ⟨d1, ?_⟩
      dsimp only
      by_cases hxd : cfg.fowner k' = d
      · rw [if_pos hxd]
        rw [hxd, htodo] at d2
        rcases List.mem_cons.mp d2 with e' | e'
        · exact absurd e' hk'
        · exact e'
      · rw [if_neg hxd]; exact d2
  · intro k' hk'
    have hk'' : upd s.fph n k Phase.idle n k' ≠ Phase.idle := hk'
    by_cases hkk : k' = k
    · subst hkk; simp [upd] at hk''
    · rw [hfph k' hkk] at hk''
      obtain ⟨e1, r', e2⟩ := e k' hk''
      refine ⟨e1, r', ?_⟩
      dsimp only
      have hxd : cfg.fowner k' ≠ d := by
        intro e'
        rw [e', htodo] at e2
        exact hkk (List.cons.inj e2).1.symm
      rw [if_neg hxd]; exact e2
  · intro k' c' i hne hc hi
    have hc' : upd s.files n k none n k' = some c' := hc
    have hi' : upd s.fph n k Phase.idle n k' = Phase.sending i := hi
    by_cases hkk : k' = k
    · subst hkk; simp [upd] at hi'
    · rw [hfiles k' hkk] at hc'
      rw [hfph k' hkk] at hi'
      obtain ⟨f1, f2⟩ := f k' c' i hne hc' hi'
      exact ⟨f1, fun h0 => by show upd s.files n k none _ k' = _; rw [hfiles k' hkk]; exact f2 h0⟩

theorem nodeInv_fchunk {cfg : Cfg N K} {ro fo} (hg : Good cfg fo) {n d : N} {dests : List N} {todo : N → List K}
    {s : St N K} {k : K} {rest : List K} {c : Content} (hinv : Inv cfg ro fo s) (hun : cfg.up n = true)
    (h : NodeInv cfg n (.phase2 dests todo) s) (hd : d ∈ dests) (htodo : todo d = k :: rest)
    (hph : s.fph n k ≠ .confirmed) (hc : s.files n k = some c)
    (hlt : prog (s.fph n k) < (chunks cfg.cs c).length) :
    enabled cfg s (.fchunk n k none) = true ∧
    NodeInv cfg n (.phase2 dests todo) (step cfg (.fchunk n k none) s) := by
  obtain ⟨a, b, cc, dd, e, f⟩ := h
  obtain ⟨hkd, hnd, _⟩ := (cc d hd).2 k (by rw [htodo]; exact List.mem_cons_self)
  have hne : n ≠ cfg.fowner k := by rw [hkd]; exact hnd
  have hfo : fo k = some c := hinv.f1 n k c hun hne hc
  have huo : cfg.up (cfg.fowner k) = true := hg.fdst k (by rw [hfo]; rfl)
  have hp := prog_progress _ hph
  have hen : enabled cfg s (.fchunk n k none) = true := by
    simp only [enabled, hc, hp]
    simp [hne, hlt, hun, huo]
  refine ⟨hen, ?_⟩
  rw [step_fchunk_eq cfg s n k c _ hc hp hne hun huo hlt none]
  generalize hi : prog (s.fph n k) = i at hlt hp
  have hfilesn : ∀ k' w, upd s.files (cfg.fowner k) k w n k' = s.files n k' := by
    intro k' w; simp only [upd]; rw [if_neg (by rintro ⟨e1, _⟩; exact hne e1)]
  have hfiles : ∀ k' w m, k' ≠ k → upd s.files (cfg.fowner k) k w m k' = s.files m k' := by
    intro k' w m hk'; simp only [upd]; rw [if_neg (by rintro ⟨_, e2⟩; exact hk' e2)]
  have hfph : ∀ k', k' ≠ k → upd s.fph n k (Phase.sending (i + 1)) n k' = s.fph n k' := by
    intro k' hk'; simp only [upd]; rw [if_neg (by rintro ⟨_, e2⟩; exact hk' e2)]
  refine ⟨a, b, ?_, ?_, ?_, ?_⟩
  · intro x hx
    refine ⟨(cc x hx).1, ?_⟩
    intro k' hk'
    obtain ⟨c1, c2, c3⟩ := (cc x hx).2 k' hk'
    exact ⟨c1, c2, by show (upd s.files _ k _ n k').isSome = true; rw [hfilesn]; exact c3⟩
  · intro k' hne' hs
    have hs' : (upd s.files (cfg.fowner k) k _ n k').isSome = true := hs
    rw [hfilesn] at hs'
    exact dd k' hne' hs'
  · intro k' hk'
    by_cases hkk : k' = k
    · subst hkk; rw [hkd]; exact ⟨hd, rest, htodo⟩
    · have hk'' : upd s.fph n k (Phase.sending (i + 1)) n k' ≠ Phase.idle := hk'
      rw [hfph k' hkk] at hk''
      exact e k' hk''
  · intro k' c' j hne' hc' hj
    have hc'' : upd s.files (cfg.fowner k) k _ n k' = some c' := hc'
    have hj' : upd s.fph n k (Phase.sending (i + 1)) n k' = Phase.sending j := hj
    rw [hfilesn] at hc''
    by_cases hkk : k' = k
    · subst hkk
      rw [hc] at hc''
      cases hc''
      simp only [upd, and_self, if_true] at hj'
      cases hj'
      refine ⟨hlt, fun _ => ?_⟩
      show upd s.files (cfg.fowner k') k' _ (cfg.fowner k') k' = _
      simp only [upd, and_self, if_true, Option.getD_none, Option.some.injEq]
      rw [take_succ_flatten _ _ hlt]
      by_cases h0 : i = 0
      · subst h0; simp [recvWrite, hg.trunc]
      · have hs := prog_pos (s.fph n k') (by omega)
        rw [hi] at hs
        have := (f k' c i hne hc hs).2 (by omega)
        simp [recvWrite, h0, this]
    · rw [hfph k' hkk] at hj'
      obtain ⟨f1, f2⟩ := f k' c' j hne' hc'' hj'
      exact ⟨f1, fun h0 => by show upd s.files (cfg.fowner k) k _ _ k' = _; rw [hfiles k' _ _ hkk]; exact f2 h0⟩

theorem nodeInv_ffinal {cfg : Cfg N K} {ro fo} (hg : Good cfg fo) {n d : N} {dests : List N} {todo : N → List K}
    {s : St N K} {k : K} {rest : List K} {c : Content} (hinv : Inv cfg ro fo s) (hun : cfg.up n = true)
    (h : NodeInv cfg n (.phase2 dests todo) s) (hd : d ∈ dests) (htodo : todo d = k :: rest)
    (hph : s.fph n k ≠ .confirmed) (hc : s.files n k = some c)
    (hge : ¬ prog (s.fph n k) < (chunks cfg.cs c).length) :
    enabled cfg s (.ffinal n k) = true ∧
    NodeInv cfg n (.phase2 dests todo) (step cfg (.ffinal n k) s) := by
  obtain ⟨a, b, cc, dd, e, f⟩ := h
  obtain ⟨hkd, hnd, _⟩ := (cc d hd).2 k (by rw [htodo]; exact List.mem_cons_self)
  have hne : n ≠ cfg.fowner k := by rw [hkd]; exact hnd
  have hfo : fo k = some c := hinv.f1 n k c hun hne hc
  have huo : cfg.up (cfg.fowner k) = true := hg.fdst k (by rw [hfo]; rfl)
  have hpos : 0 < (chunks cfg.cs c).length := (chunks_length_pos _ _).mpr (hg.nonempty k c hfo)
  have hs := prog_pos (s.fph n k) (by omega)
  obtain ⟨hle, hdst⟩ := f k c _ hne hc hs
  have hi : prog (s.fph n k) = (chunks cfg.cs c).length := by omega
  have hp : progress (s.fph n k) = some (chunks cfg.cs c).length := by rw [prog_progress _ hph, hi]
  have hdo : s.files (cfg.fowner k) k = some c := by
    rw [hdst (by omega), hi, List.take_length, chunks_flatten _ hg.cs_pos]
  have hen : enabled cfg s (.ffinal n k) = true := by
    simp only [enabled, hc, hp]
    simp [hne, hun, huo]
  refine ⟨hen, ?_⟩
  rw [step_ffinal_eq cfg s n k c hc hp hne hun huo hpos hdo]
  have hfilesn : ∀ k' w, upd s.files (cfg.fowner k) k w n k' = s.files n k' := by
    intro k' w; simp only [upd]; rw [if_neg (by rintro ⟨e1, _⟩; exact hne e1)]
  have hfiles : ∀ k' w m, k' ≠ k → upd s.files (cfg.fowner k) k w m k' = s.files m k' := by
    intro k' w m hk'; simp only [upd]; rw [if_neg (by rintro ⟨_, e2⟩; exact hk' e2)]
  have hfph : ∀ k', k' ≠ k → upd s.fph n k Phase.confirmed n k' = s.fph n k' := by
    intro k' hk'; simp only [upd]; rw [if_neg (by rintro ⟨_, e2⟩; exact hk' e2)]
  refine ⟨a, b, ?_, ?_, ?_, ?_⟩
  · intro x hx
    refine ⟨(cc x hx).1, ?_⟩
    intro k' hk'
    obtain ⟨c1, c2, c3⟩ := (cc x hx).2 k' hk'
    exact ⟨c1, c2, by show (upd s.files _ k _ n k').isSome = true; rw [hfilesn]; exact c3⟩
  · intro k' hne' hs'
    have hs'' : (upd s.files (cfg.fowner k) k _ n k').isSome = true := hs'
    rw [hfilesn] at hs''
    exact dd k' hne' hs''
  · intro k' hk'
    by_cases hkk : k' = k
    · subst hkk; rw [hkd]; exact ⟨hd, rest, htodo⟩
    · have hk'' : upd s.fph n k Phase.confirmed n k' ≠ Phase.idle := hk'
      rw [hfph k' hkk] at hk''
      exact e k' hk''
  · intro k' c' j hne' hc' hj
    have hc'' : upd s.files (cfg.fowner k) k _ n k' = some c' := hc'
    have hj' : upd s.fph n k Phase.confirmed n k' = Phase.sending j := hj
    rw [hfilesn] at hc''
    by_cases hkk : k' = k
    · subst hkk; simp [upd] at hj'
    · rw [hfph k' hkk] at hj'
      obtain ⟨f1, f2⟩ := f k' c' j hne' hc'' hj'
      exact ⟨f1, fun h0 => by show upd s.files (cfg.fowner k) k _ _ k' = _; rw [hfiles k' _ _ hkk]; exact f2 h0⟩

theorem nodeInv_join2 {cfg : Cfg N K} {n : N} {dests : List N} {todo : N → List K}
    {s : St N K} (h : NodeInv cfg n (.phase2 dests todo) s)
    (hall : dests.all (fun d => (todo d).isEmpty) = true) : NodeInv cfg n .done s := by
  obtain ⟨a, b, _, dd, _, _⟩ := h
  refine ⟨a, b, ?_⟩
  intro k hne
  cases hk : s.files n k with
  | none => rfl
  | some v =>
    obtain ⟨d1, d2⟩ := dd k hne (by rw [hk]; rfl)
    simp only [List.all_eq_true, List.isEmpty_iff] at hall
    rw [hall _ d1] at d2
    cases d2

/-! ### every step of the concurrent program preserves the invariant -/

theorem cinv_label {cfg : Cfg N K} {ro fo} (hs : SumOK cfg) {c : CSt N K} (h : CInv cfg ro fo c)
    (l : Label N K) (n : N) (hl : actor l = n) (p : Pc N K)
    (hn : cfg.up n = true → NodeInv cfg n p (step cfg l c.st)) :
    CInv cfg ro fo ⟨step cfg l c.st, setPc c.pc n p⟩ := by
  refine ⟨inv_step hs h.inv l, ?_⟩
  intro m hum
  simp only [setPc]
  by_cases e : m = n
  · subst e; rw [if_pos rfl]; exact hn hum
  · rw [if_neg e]
    exact nodeInv_priv (h.node m hum) (step_priv h.inv l m hum (by rw [hl]; exact fun e' => e e'.symm))

theorem cinv_tau {cfg : Cfg N K} {ro fo} {c : CSt N K} (h : CInv cfg ro fo c) (n : N) (p : Pc N K)
    (hn : cfg.up n = true → NodeInv cfg n p c.st) : CInv cfg ro fo ⟨c.st, setPc c.pc n p⟩ := by
  refine ⟨h.inv, ?_⟩
  intro m hum
  simp only [setPc]
  by_cases e : m = n
  · subst e; rw [if_pos rfl]; exact hn hum
  · rw [if_neg e]; exact h.node m hum

theorem cinv_step {cfg : Cfg N K} {ro fo} {nodes : List N} {rkeys fkeys : List K}
    (hok : RoundOK cfg ro fo nodes rkeys fkeys) {c c' : CSt N K} (h : CInv cfg ro fo c) (t : Tid N)
    (ht : cstepT cfg rkeys fkeys t c = some c') :
    CInv cfg ro fo c' ∧ ∃ a, StepsBy cfg a c.st c'.st := by
  have hs := hok.good.sum
  cases t with
  | main n =>
    simp only [cstepT, mainStep] at ht
    split at ht
    · cases ht
    · rename_i hup
      have hun : cfg.up n = true := by simpa using hup
      have hnode := h.node n hun
      split at ht
      · -- boot
        cases ht
        exact ⟨cinv_label hs h (.restart n) n rfl .snap1 (fun _ => nodeInv_boot cfg n c.st),
          n, StepsBy.one (cfg := cfg) c.st (.restart n) rfl⟩
      · -- snap1
        rename_i heq
        rw [heq] at hnode
        split at ht
        · cases ht
        · cases ht
          exact ⟨cinv_tau h n _ (fun _ => nodeInv_snap1 hok hun h.inv hnode), n, .refl _⟩
      · -- phase1: join
        rename_i dests batch stage heq
        rw [heq] at hnode
        split at ht
        · cases ht
        · split at ht
          · rename_i hall
            cases ht
            exact ⟨cinv_tau h n _ (fun _ => nodeInv_join1 hnode hall), n, .refl _⟩
          · cases ht
      · -- snap2
        rename_i heq
        rw [heq] at hnode
        split at ht
        · cases ht
        · cases ht
          exact ⟨cinv_tau h n _ (fun _ => nodeInv_snap2 hok hun h.inv hnode), n, .refl _⟩
      · -- phase2: join
        rename_i dests todo heq
        rw [heq] at hnode
        split at ht
        · cases ht
        · split at ht
          · rename_i hall
            cases ht
            exact ⟨cinv_tau h n _ (fun _ => nodeInv_join2 hnode hall), n, .refl _⟩
          · cases ht
      · cases ht
  | go n d =>
    simp only [cstepT, goStep] at ht
    split at ht
    · cases ht
    · rename_i hcond
      have hun : cfg.up n = true := by
        cases hu : cfg.up n with
        | true => rfl
        | false => exact absurd (Or.inl hu) hcond
      have hnode := h.node n hun
      split at ht
      · -- phase 1
        rename_i dests batch stage heq
        rw [heq] at hnode
        split at ht
        · rename_i hd
          split at ht
          · rename_i hst
            cases ht
            obtain ⟨hen, hn'⟩ := nodeInv_rsend hnode hun hd hst
            rw [act_pos _ _ _ _ hen]
            exact ⟨cinv_label hs h _ n rfl _ (fun _ => hn'), n, StepsBy.one _ _ rfl⟩
          · rename_i hst
            cases ht
            obtain ⟨hen, hn'⟩ := nodeInv_rdelete hnode hd hst
            rw [act_pos _ _ _ _ hen]
            exact ⟨cinv_label hs h _ n rfl _ (fun _ => hn'), n, StepsBy.one _ _ rfl⟩
          · cases ht
        · cases ht
      · -- phase 2
        rename_i dests todo heq
        rw [heq] at hnode
        split at ht
        · rename_i hd
          split at ht
          · cases ht
          · rename_i k rest htodo
            cases ht
            by_cases hph : c.st.fph n k = .confirmed
            · have hfn : fnext cfg c.st n k = .fremove n k := by simp [fnext, hph]
              have hen : enabled cfg c.st (.fremove n k) = true := by simp [enabled, hph]
              rw [hfn, act_pos _ _ _ _ hen]
              simp only [hph, if_true]
              exact ⟨cinv_label hs h _ n rfl _ (fun _ => nodeInv_fremove hnode hd htodo hph),
                n, StepsBy.one _ _ rfl⟩
            · have htd : (fun x => if x = d then (if c.st.fph n k = .confirmed then rest else k :: rest) else todo x) = todo := by
                funext x
                by_cases hx : x = d
                · subst hx; rw [if_pos rfl, if_neg hph, htodo]
                · rw [if_neg hx]
              rw [htd]
              obtain ⟨_, _, cc, _, _, _⟩ := hnode
              obtain ⟨_, _, hsome⟩ := (cc d hd).2 k (by rw [htodo]; exact List.mem_cons_self)
              obtain ⟨cnt, hc⟩ := Option.isSome_iff_exists.mp hsome
              by_cases hlt : prog (c.st.fph n k) < (chunks cfg.cs cnt).length
              · have hfn : fnext cfg c.st n k = .fchunk n k none := by simp [fnext, hph, hc, hlt]
                obtain ⟨hen, hn'⟩ := nodeInv_fchunk hok.good h.inv hun (h.node n hun |> (heq ▸ ·)) hd htodo hph hc hlt
                rw [hfn, act_pos _ _ _ _ hen]
                exact ⟨cinv_label hs h _ n rfl _ (fun _ => hn'), n, StepsBy.one _ _ rfl⟩
              · have hfn : fnext cfg c.st n k = .ffinal n k := by simp [fnext, hph, hc, hlt]
                obtain ⟨hen, hn'⟩ := nodeInv_ffinal hok.good h.inv hun (h.node n hun |> (heq ▸ ·)) hd htodo hph hc hlt
                rw [hfn, act_pos _ _ _ _ hen]
                exact ⟨cinv_label hs h _ n rfl _ (fun _ => hn'), n, StepsBy.one _ _ rfl⟩
        · cases ht
      · cases ht

theorem cinv_run {cfg : Cfg N K} {ro fo} {nodes : List N} {rkeys fkeys : List K}
    (hok : RoundOK cfg ro fo nodes rkeys fkeys) (s0 : St N K) (sched : List (Tid N)) :
    ∀ c : CSt N K, CInv cfg ro fo c → Reachable cfg s0 c.st →
      CInv cfg ro fo (crun cfg rkeys fkeys sched c) ∧ Reachable cfg s0 (crun cfg rkeys fkeys sched c).st := by
  induction sched with
  | nil => intro c h hr; exact ⟨h, hr⟩
  | cons t ts ih =>
    intro c h hr
    simp only [crun, List.foldl_cons]
    cases hst : cstepT cfg rkeys fkeys t c with
    | none => exact ih c h hr
    | some c' =>
      obtain ⟨h', a, hsb⟩ := cinv_step hok h t hst
      exact ih c' h' (hsb.reachable hr)

omit [DecidableEq N] [DecidableEq K] in
theorem cinv_init {cfg : Cfg N K} {ro fo} {s : St N K} (h : Inv cfg ro fo s) : CInv cfg ro fo (cinit s) :=
  ⟨h, fun _ _ => trivial⟩

omit [DecidableEq K] in
/-- in a state of the concurrent program in which every started node's `Sync` has returned, every one
returned nil, and no started node holds anything it does not own -/
theorem cinv_finished {cfg : Cfg N K} {ro fo} {c : CSt N K} (h : CInv cfg ro fo c)
    (hfin : ∀ n, cfg.up n = true → finished c n = true) :
    (∀ n, cfg.up n = true → (c.pc n).isDone = true ∧ c.st.failed n = false) ∧ PlacedW cfg ro fo c.st := by
  have hdone : ∀ n, cfg.up n = true → NodeInv cfg n .done c.st ∧ (c.pc n).isDone = true := by
    intro n hun
    have hn := h.node n hun
    have hf := hfin n hun
    simp only [finished] at hf
    cases hp : c.pc n with
    | boot => rw [hp] at hf; cases hf
    | snap1 => rw [hp] at hf hn; rw [hn.1] at hf; cases hf
    | phase1 a b d => rw [hp] at hf hn; rw [hn.1] at hf; cases hf
    | snap2 => rw [hp] at hf hn; rw [hn.1] at hf; cases hf
    | phase2 a b => rw [hp] at hf hn; rw [hn.1] at hf; cases hf
    | done => rw [hp] at hn; exact ⟨hn, rfl⟩
  refine ⟨fun n hun => ⟨(hdone n hun).2, (hdone n hun).1.1⟩, ⟨?_, ?_, ?_, ?_⟩⟩
  · intro k v hro
    obtain ⟨m, hum, hm⟩ := h.inv.r2 k v hro
    by_cases em : m = cfg.owner k
    · rw [← em]; exact hm
    · rw [(hdone m hum).1.2.1 k em] at hm; cases hm
  · intro n k hun hne; exact (hdone n hun).1.2.1 k hne
  · intro k cnt hfo
    obtain ⟨m, hum, hm⟩ := h.inv.f2 k cnt hfo
    by_cases em : m = cfg.fowner k
    · rw [← em]; exact hm
    · rw [(hdone m hum).1.2.2 k em] at hm; cases hm
  · intro n k hun hne; exact (hdone n hun).1.2.2 k hne

/-! ### nothing is ever stored on a node that is not started -/

def HoldersUp (cfg : Cfg N K) (s : St N K) : Prop :=
  ∀ n k, (s.recs n k).isSome ∨ (s.files n k).isSome → cfg.up n = true

theorem holdersUp_step {cfg : Cfg N K} {s : St N K} (h : HoldersUp cfg s) (l : Label N K) :
    HoldersUp cfg (step cfg l s) := by
  unfold step
  split
  · rename_i hen
    have hfile : ∀ (k' : K) (w : Option Content), cfg.up (cfg.fowner k') = true → ∀ n k,
        (upd s.files (cfg.fowner k') k' w n k).isSome → cfg.up n = true := by
      intro k' w huo n k hs
      by_cases hh : n = cfg.fowner k' ∧ k = k'
      · rw [hh.1]; exact huo
      · simp only [upd, hh, if_false] at hs; exact h n k (Or.inr hs)
    cases l with
    | rsend src dst batch ok =>
      obtain ⟨hus, hud, _, _⟩ := rsend_enabled hen
      intro n k hk
      rcases hk with hk | hk
      · simp only [apply] at hk
        split at hk
        · rename_i hc; rw [hc.1]; exact hud
        · exact h n k (Or.inl hk)
      · exact h n k (Or.inr hk)
    | rdelete src batch =>
      intro n k hk
      rcases hk with hk | hk
      · simp only [apply] at hk
        split at hk
        · cases hk
        · exact h n k (Or.inl hk)
      · exact h n k (Or.inr hk)
    | fchunk src k' cor =>
      obtain ⟨c, i, hc, hp, _, huo, _, _⟩ := fchunk_enabled hen
      simp only [apply, hc, hp]
      intro n k hk
      rcases hk with hk | hk
      · exact h n k (Or.inl hk)
      · exact hfile k' _ huo n k hk
    | ffinal src k' =>
      obtain ⟨c, i, hc, hp, _, huo, _, _⟩ := ffinal_enabled hen
      simp only [apply, hc, hp]
      split
      · intro n k hk
        rcases hk with hk | hk
        · exact h n k (Or.inl hk)
        · exact hfile k' _ huo n k hk
      · intro n k hk
        rcases hk with hk | hk
        · exact h n k (Or.inl hk)
        · exact hfile k' _ huo n k hk
    | fremove src k' =>
      intro n k hk
      rcases hk with hk | hk
      · exact h n k (Or.inl hk)
      · simp only [apply, upd] at hk
        split at hk
        · cases hk
        · exact h n k (Or.inr hk)
    | fail m => exact h
    | restart m => exact h
  · exact h

theorem holdersUp_reachable {cfg : Cfg N K} {s0 s : St N K} (h0 : HoldersUp cfg s0) (hr : Reachable cfg s0 s) :
    HoldersUp cfg s := by
  induction hr with
  | init => exact h0
  | step l _ ih => exact holdersUp_step ih l

/-! ### vocabulary of the statements -/

/-- "a later synchronisation completes the move", as the synchronisation really runs: from any state
reachable by interrupted rounds, let every started node run `Sync` at the same time, its goroutines
too, under ANY schedule (`sched`: which thread takes the next step; every step is one label of the
transition system, so no fault label occurs unless the program itself runs into an error).  If the
schedule lets every started node's `Sync` return (`finished`: with nil or with an error), then every
one returned nil and every record and shard file is exactly at its owner, byte-identical, nowhere
else.  Side conditions as for `Converges`, plus: the walk lists every shard directory once. -/
def ConvergesConc (cfg : Cfg N K) : Prop :=
  ∀ (ro fo : K → Option Content) (nodes : List N) (rkeys fkeys : List K) (s0 s : St N K) (sched : List (Tid N)),
    (∀ k c, fo k = some c → c ≠ []) → (∀ k, (fo k).isSome → cfg.up (cfg.fowner k) = true) →
    Covers cfg ro fo nodes rkeys fkeys → fkeys.Nodup →
    Init cfg ro fo s0 → Reachable cfg s0 s →
    (∀ n, cfg.up n = true → finished (crun cfg rkeys fkeys sched (cinit s)) n = true) →
    Placed cfg ro fo (crun cfg rkeys fkeys sched (cinit s)).st ∧
      ∀ n, cfg.up n = true → ((crun cfg rkeys fkeys sched (cinit s)).pc n).isDone = true ∧
        (crun cfg rkeys fkeys sched (cinit s)).st.failed n = false

/-- the concurrent program never blocks: a started node whose `Sync` has not returned has a thread
that can take a step (a call that cannot be executed returns an error instead of waiting) -/
theorem cstep_progress (cfg : Cfg N K) (rkeys fkeys : List K) (c : CSt N K) (n : N)
    (hun : cfg.up n = true) (hf : finished c n = false) :
    ∃ t, (cstepT cfg rkeys fkeys t c).isSome = true := by
  have hup : ¬ cfg.up n = false := by rw [hun]; exact Bool.noConfusion
  simp only [finished] at hf
  cases hp : c.pc n with
  | boot => exact ⟨.main n, by simp [cstepT, mainStep, hun, hp]⟩
  | snap1 => rw [hp] at hf; exact ⟨.main n, by simp [cstepT, mainStep, hun, hp, hf]⟩
  | snap2 => rw [hp] at hf; exact ⟨.main n, by simp [cstepT, mainStep, hun, hp, hf]⟩
  | done => rw [hp] at hf; cases hf
  | phase1 dests batch stage =>
    rw [hp] at hf
    by_cases hall : dests.all (fun d => stage d = .done) = true
    · exact ⟨.main n, by simp only [cstepT, mainStep, hun, hp, hf]; simp [hall]⟩
    · rw [Bool.not_eq_true, List.all_eq_false] at hall
      obtain ⟨d, hd, hst⟩ := hall
      have hst : stage d ≠ .done := by simpa using hst
      refine ⟨.go n d, ?_⟩
      simp only [cstepT, goStep, hun, hp, hf]
      cases hs : stage d with
      | send => simp [hd]
      | delete => simp [hd]
      | done => exact absurd hs hst
  | phase2 dests todo =>
    rw [hp] at hf
    by_cases hall : dests.all (fun d => (todo d).isEmpty) = true
    · exact ⟨.main n, by simp only [cstepT, mainStep, hun, hp, hf]; simp [hall]⟩
    · rw [Bool.not_eq_true, List.all_eq_false] at hall
      obtain ⟨d, hd, hst⟩ := hall
      have hst : todo d ≠ [] := by simpa using hst
      refine ⟨.go n d, ?_⟩
      simp only [cstepT, goStep, hun, hp, hf]
      cases hs : todo d with
      | nil => exact absurd hs hst
      | cons k rest => simp [hd]

end Sema.C14
