/- C14: vocabulary of the property statements (initial states, placement, convergence) -/
import SemaModel.C14.Converge
namespace Sema.C14

variable {N K : Type} [DecidableEq N] [DecidableEq K]

/-- the cluster before the synchronisation: every record / shard file that exists is an original, every
original exists, a shard is on one node only, nothing is in flight, and every node that holds
something is started with the new list -/
structure Init (cfg : Cfg N K) (ro fo : K → Option Content) (s : St N K) : Prop where
  r1 : ∀ n k v, s.recs n k = some v → ro k = some v
  r2 : ∀ k v, ro k = some v → ∃ n, s.recs n k = some v
  f1 : ∀ n k c, s.files n k = some c → fo k = some c
  f2 : ∀ k c, fo k = some c → ∃ n, s.files n k = some c
  f4 : ∀ n n' k, (s.files n k).isSome → (s.files n' k).isSome → n = n'
  v1 : ∀ n k, s.rconf n k = false
  v2 : ∀ n k, s.fph n k = .idle
  up : ∀ n k, (s.recs n k).isSome ∨ (s.files n k).isSome → cfg.up n = true

omit [DecidableEq N] [DecidableEq K] in
theorem Init.inv {cfg : Cfg N K} {ro fo} {s : St N K} (h : Init cfg ro fo s) : Inv cfg ro fo s :=
  ⟨fun n k v _ _ hv => h.r1 n k v hv,
   fun k v hro => by
     obtain ⟨n, hn⟩ := h.r2 k v hro
     exact ⟨n, h.up n k (Or.inl (by rw [hn]; rfl)), hn⟩,
   fun n k hc => by simp [h.v1 n k] at hc,
   fun n k c _ _ hc => h.f1 n k c hc,
   fun k c hfo => by
     obtain ⟨n, hn⟩ := h.f2 k c hfo
     exact ⟨n, h.up n k (Or.inr (by rw [hn]; rfl)), hn⟩,
   fun n k hc => by simp [h.v2 n k] at hc,
   fun n n' k _ _ _ _ a b => h.f4 n n' k a b⟩

omit [DecidableEq N] [DecidableEq K] in
theorem Init.strict {cfg : Cfg N K} {ro fo} {s : St N K} (h : Init cfg ro fo s) : Strict ro fo s :=
  ⟨h.r1, fun n k hs => by obtain ⟨c, hc⟩ := Option.isSome_iff_exists.mp hs; simp [h.f1 n k c hc]⟩

/-- every record and shard file is exactly at its routing owner, byte-identical, and nowhere else -/
def Placed (cfg : Cfg N K) (ro fo : K → Option Content) (s : St N K) : Prop :=
  (∀ n k, s.recs n k = if n = cfg.owner k then ro k else none) ∧
  (∀ n k, s.files n k = if n = cfg.fowner k then fo k else none)

/-- "a later synchronisation completes the move": from any state reachable by interrupted rounds, one
failure-free round (the nodes of `order` run `Sync` one after the other, in any order) puts
everything at its owner and no `Sync` fails.  Side conditions: shard files are non-empty (bbolt
files are); the server list / key lists cover what exists and every member of the list runs; every
node that holds something runs. -/
def Converges (cfg : Cfg N K) : Prop :=
  ∀ (ro fo : K → Option Content) (nodes : List N) (rkeys fkeys : List K) (order : List N) (s0 s : St N K),
    (∀ k c, fo k = some c → c ≠ []) → (∀ k, (fo k).isSome → cfg.up (cfg.fowner k) = true) →
    Covers cfg ro fo nodes rkeys fkeys →
    Init cfg ro fo s0 → Reachable cfg s0 s →
    (∀ n ∈ order, cfg.up n = true) →
    (∀ n k, (s.recs n k).isSome ∨ (s.files n k).isSome → n ∈ order) →
    Placed cfg ro fo (round cfg nodes rkeys fkeys order s) ∧
      ∀ n ∈ order, (round cfg nodes rkeys fkeys order s).failed n = false

end Sema.C14
