/-
C14 — start-up rebalancing moves every record and shard to its owner without loss.
Property theorems only (model: Model.lean; proofs: Lemmas / Invariant / Converge / Pinned).
`FactsC14.lean` is regenerated from cluster/sync.go and cluster/rpchandlers.go on every run.
-/
import SemaModel.C14.Witness
import SemaModel.C14.Msgs
import SemaModel.C14.ConcTerm
import SemaModel.C14.ConcMsgs
import SemaModel.Generated.FactsC14
namespace Sema.C14

variable {N K : Type} [DecidableEq N] [DecidableEq K]

/-! ## the chunk protocol of `sendShardFile` -/

/-- For EVERY file and chunk size > 0 (exact multiples included): the data chunks concatenate to the
file; each is non-empty and at most `cs` long, all but the last exactly `cs`; there are
⌈len/cs⌉ of them; the messages are the data chunks numbered from 0 followed by ONE empty chunk,
whose index is > 0 iff the file is non-empty. -/
theorem C14_chunks (cs : Nat) (hcs : 0 < cs) (c : Content) :
    (chunks cs c).flatten = c ∧
    (∀ ch ∈ chunks cs c, ch ≠ [] ∧ ch.length ≤ cs) ∧
    (∀ i, i + 1 < (chunks cs c).length → ((chunks cs c).getD i []).length = cs) ∧
    (chunks cs c).length = (c.length + cs - 1) / cs ∧
    (messages cs c).length = (c.length + cs - 1) / cs + 1 ∧
    ((messages cs c).map Prod.snd).flatten = c ∧
    (messages cs c).map Prod.fst = List.range ((chunks cs c).length + 1) ∧
    (messages cs c).getLast? = some ((chunks cs c).length, []) ∧
    (0 < (chunks cs c).length ↔ c ≠ []) := by
  refine ⟨chunks_flatten cs hcs c, chunksFuel_mem cs hcs _ c, chunksFuel_full cs _ c, chunks_length cs hcs c,
    ?_, ?_, ?_, ?_, chunks_length_pos cs c⟩
  · simp [messages, chunks_length cs hcs c]
  · simp only [messages, List.map_append, List.map_map, List.flatten_append]
    have : (Prod.snd ∘ fun p : Content × Nat => (p.2, p.1)) = Prod.fst := rfl
    rw [this, List.zipIdx_map_fst]
    simp [chunks_flatten cs hcs c]
  · simp only [messages, List.map_append, List.map_map]
    have : (Prod.fst ∘ fun p : Content × Nat => (p.2, p.1)) = Prod.snd := rfl
    rw [this, List.zipIdx_map_snd]
    simp [List.range_succ, List.range_eq_range']
  · simp [messages]

example : messages 2 [1, 2, 3, 4] = [(0, [1, 2]), (1, [3, 4]), (2, [])] := by decide
example : messages 2 [1, 2, 3] = [(0, [1, 2]), (1, [3]), (2, [])] := by decide
example : messages 2 [] = [(0, [])] := by decide

/-- `messages` is what the transition system sends: along the failure-free `sendShardFile n k` of a
file `c` — the label sequence `sendLabels` (data chunks `fchunk`, the empty chunk `ffinal`, the removal),
which is what the sequential program `sendFrom` executes and what a phase-2 goroutine of the
concurrent program executes for the shard at the head of its list (`fnext`) — node `n` calls
`RPCSendShard` for shard `k` with exactly `messages cs c` (`runMsgs`: the `(ChunkIndex, ChunkData)` of
every `fchunk` / `ffinal` of `n` for `k` along the run, read off the states the labels are applied in).
Hypotheses: the sender holds `c`, is not the owner, both run, no transfer of `k` is in flight. -/
theorem C14_sender_emits_messages (cfg : Cfg N K) (htr : cfg.trunc0 = true) (n : N) (k : K) (c : Content)
    (hne : n ≠ cfg.fowner k) (hus : cfg.up n = true) (huo : cfg.up (cfg.fowner k) = true) (s : St N K)
    (hf : s.files n k = some c) (hidle : s.fph n k = .idle) (hok : s.failed n = false) :
    sendFrom cfg noFault n k (chunks cfg.cs c).length 0 s = run cfg (sendLabels n k (chunks cfg.cs c).length) s ∧
    runMsgs cfg n k (sendLabels n k (chunks cfg.cs c).length) s = messages cfg.cs c :=
  ⟨sendFrom_eq_run cfg n k _ 0 s,
   runMsgs_send cfg htr n k c hne hus huo _ 0 s (by omega)
     ⟨hf, by rw [hidle]; rfl, fun h => absurd h (Nat.lt_irrefl 0), hok⟩⟩

/-- non-vacuity: shard 7 = `[1,2,3]` from node 0 to node 1, chunk size 2 -/
example : runMsgs (wCfg true) 0 7 (sendLabels 0 7 2) wS0 = [(0, [1, 2]), (1, [3]), (2, [])] := by decide
example : runMsgs (wCfg true) 0 7 (sendLabels 0 7 (chunks 2 [1, 2, 3]).length) wS0 = messages 2 [1, 2, 3] :=
  (C14_sender_emits_messages (wCfg true) rfl 0 7 [1, 2, 3] (by decide) rfl rfl wS0 rfl rfl rfl).2

/-! ## no loss -/

/-- In EVERY reachable state — any interleaving of the nodes' `Sync` runs, replies lost, chunks
corrupted in transit, senders or receivers failing or being killed before / after any chunk and
between the phases, any number of restarts, repaired or pinned receiver — every record and every
shard file exists complete and byte-identical on at least one node, and every copy outside the
owner is a complete original.
Hypotheses: the checksum is collision-free and `FileHash("") ≠ 0` (`SumOK`); `Init` (one server-list
change; every node that holds something is started — `cfg.up`; nodes that are not started take no
step and are sent nothing). -/
theorem C14_no_loss (cfg : Cfg N K) (hs : SumOK cfg) (ro fo : K → Option Content) (s0 s : St N K)
    (h0 : Init cfg ro fo s0) (hr : Reachable cfg s0 s) :
    (∀ k v, ro k = some v → ∃ n, cfg.up n = true ∧ s.recs n k = some v) ∧
    (∀ k c, fo k = some c → ∃ n, cfg.up n = true ∧ s.files n k = some c) ∧
    (∀ n k v, s.recs n k = some v → ro k = some v) ∧
    (∀ n k c, cfg.up n = true → s.files n k = some c → n ≠ cfg.fowner k → fo k = some c) :=
  let i := inv_reachable hs h0.inv hr
  ⟨i.r2, i.f2, (strict_reachable hs h0.inv h0.strict hr).r, fun n k c hu hc hn => i.f1 n k c hu hn hc⟩

/-- A source copy is removed only after the destination confirmed a complete copy: whenever the local
delete of a record / the removal of a shard directory is enabled, the owner is another node and
holds the identical record / a file with the original content. -/
theorem C14_remove_only_after_confirm (cfg : Cfg N K) (hs : SumOK cfg) (ro fo : K → Option Content)
    (s0 s : St N K) (h0 : Init cfg ro fo s0) (hr : Reachable cfg s0 s) :
    (∀ src batch, enabled cfg s (.rdelete src batch) = true → ∀ k ∈ batch,
        src ≠ cfg.owner k ∧ (ro k).isSome ∧ s.recs (cfg.owner k) k = ro k) ∧
    (∀ src k, enabled cfg s (.fremove src k) = true →
        src ≠ cfg.fowner k ∧ (fo k).isSome ∧ s.files (cfg.fowner k) k = fo k ∧ s.files src k = fo k) :=
  remove_only_after_confirm (inv_reachable hs h0.inv hr)

/-! ## convergence -/

/-- Repaired receiver (`O_TRUNC` at chunk 0): convergence holds, for every routing function, chunk
size > 0, collision-free checksum, number of nodes, and every history of interrupted rounds. -/
theorem C14_converges (cfg : Cfg N K) (hs : SumOK cfg) (hcs : 0 < cfg.cs) (htr : cfg.trunc0 = true) :
    Converges cfg := by
  intro ro fo nodes rkeys fkeys order s0 s hne hfd hcov h0 hr hord hall
  have hg : Good cfg fo := ⟨hs, hcs, htr, hne, hfd⟩
  obtain ⟨r1, r2, r3, r4, _⟩ := round_spec hg hcov s0 h0.inv order s hord hr
  have i := inv_reachable hs h0.inv r1
  have st := strict_reachable hs h0.inv h0.strict r1
  refine ⟨⟨?_, ?_⟩, fun n hn => (r2 n hn).1⟩
  · -- records
    have clean : ∀ n k, n ≠ cfg.owner k → (round cfg nodes rkeys fkeys order s).recs n k = none := by
      intro n k hk
      by_cases hn : n ∈ order
      · exact (r2 n hn).2.1 k hk
      · apply r3 n k hk
        cases h : s.recs n k with
        | none => rfl
        | some v => exact absurd (hall n k (Or.inl (by simp [h]))) hn
    intro n k
    by_cases e : n = cfg.owner k
    · rw [if_pos e]
      cases hro : ro k with
      | none =>
        cases h : (round cfg nodes rkeys fkeys order s).recs n k with
        | none => rfl
        | some v => have := st.r _ _ _ h; rw [hro] at this; cases this
      | some v =>
        obtain ⟨m, _, hm⟩ := i.r2 k v hro
        by_cases em : m = cfg.owner k
        · rw [e, ← em]; exact hm
        · rw [clean m k em] at hm; cases hm
    · rw [if_neg e]; exact clean n k e
  · -- shard files
    have clean : ∀ n k, n ≠ cfg.fowner k → (round cfg nodes rkeys fkeys order s).files n k = none := by
      intro n k hk
      by_cases hn : n ∈ order
      · exact (r2 n hn).2.2 k hk
      · apply r4 n k hk
        cases h : s.files n k with
        | none => rfl
        | some v => exact absurd (hall n k (Or.inr (by simp [h]))) hn
    intro n k
    by_cases e : n = cfg.fowner k
    · rw [if_pos e]
      cases hfo : fo k with
      | none =>
        cases h : (round cfg nodes rkeys fkeys order s).files n k with
        | none => rfl
        | some v => have := st.f n k (by simp [h]); rw [hfo] at this; cases this
      | some c =>
        obtain ⟨m, _, hm⟩ := i.f2 k c hfo
        by_cases em : m = cfg.fowner k
        · rw [e, ← em]; exact hm
        · rw [clean m k em] at hm; cases hm
    · rw [if_neg e]; exact clean n k e

/-- The configuration read from the working tree (`Generated/FactsC14.lean`): CHUNKSIZE and the
receiver's open flags.  Fails to build when the truncation at chunk 0 is missing. -/
def repoCfg (owner fowner : K → N) (sum : Content → Nat) : Cfg N K :=
  { owner, fowner, cs := Gen.C14.chunkSize, trunc0 := Gen.C14.truncAtChunk0, sum }

theorem C14_converges_repo (owner fowner : K → N) (sum : Content → Nat)
    (hs : SumOK (repoCfg owner fowner sum)) : Converges (repoCfg owner fowner sum) :=
  C14_converges _ hs (by show 0 < Gen.C14.chunkSize; decide) (by show Gen.C14.truncAtChunk0 = true; decide)

/-! ## convergence of CONCURRENT rounds

`C14_converges` lets the nodes run `Sync` one after the other, each node its destinations one after
the other.  The code starts every node's `Sync` at the same time (one process per node, main.go) and,
inside a node, one goroutine per destination in each phase, joined before the next phase
(`Concurrent.lean`: `Pc`, `cstepT`, `crun`).  The following theorems are about EVERY schedule of those
threads; the atomic steps are the labels of the transition system (one rpc at the receiver, one local
transaction at the sender), so `C14_no_loss` / `C14_remove_only_after_confirm` hold in every state of
every such run as well. -/

/-- Repaired receiver: from ANY state reachable from `Init` (arbitrary interrupted earlier attempts),
for EVERY interleaving `sched` of the main goroutines and per-destination goroutines of all started
nodes: if every started node's `Sync` has returned at the end of the schedule (`finished`), then
every one of them returned nil, and every record and shard file is exactly at its owner,
byte-identical, nowhere else (`Placed`).  (That the program never blocks and always terminates:
`C14_concurrent_never_blocks`.)
Hypotheses: `SumOK`, chunk size > 0, truncating receiver; inside `ConvergesConc`: shard files
non-empty, `Covers`, shard owners run, the walk lists every shard directory once (`fkeys.Nodup`).
No fault label occurs in such a run by construction: a step of the program is a label of `Sync`
itself, and a call that cannot be executed makes the node fail (`act`) — which the theorem excludes. -/
theorem C14_converges_concurrent (cfg : Cfg N K) (hs : SumOK cfg) (hcs : 0 < cfg.cs) (htr : cfg.trunc0 = true) :
    ConvergesConc cfg := by
  intro ro fo nodes rkeys fkeys s0 s sched hne hfd hcov hnd h0 hr hfin
  have hok : RoundOK cfg ro fo nodes rkeys fkeys := ⟨⟨hs, hcs, htr, hne, hfd⟩, hcov, hnd⟩
  obtain ⟨hc, hreach⟩ := cinv_run hok s0 sched (cinit s) (cinv_init (inv_reachable hs h0.inv hr)) hr
  obtain ⟨hdone, hp⟩ := cinv_finished hc hfin
  have st := strict_reachable hs h0.inv h0.strict hreach
  have hu : HoldersUp cfg _ := holdersUp_reachable h0.up hreach
  refine ⟨⟨?_, ?_⟩, hdone⟩
  · intro n k
    by_cases e : n = cfg.owner k
    · rw [if_pos e]
      cases hro : ro k with
      | none =>
        cases h : (crun cfg rkeys fkeys sched (cinit s)).st.recs n k with
        | none => rfl
        | some v => have := st.r _ _ _ h; rw [hro] at this; cases this
      | some v => rw [e]; exact hp.rown k v hro
    · rw [if_neg e]
      cases h : (crun cfg rkeys fkeys sched (cinit s)).st.recs n k with
      | none => rfl
      | some v => rw [← h]; exact hp.rnone n k (hu n k (Or.inl (by rw [h]; rfl))) e
  · intro n k
    by_cases e : n = cfg.fowner k
    · rw [if_pos e]
      cases hfo : fo k with
      | none =>
        cases h : (crun cfg rkeys fkeys sched (cinit s)).st.files n k with
        | none => rfl
        | some v => have := st.f n k (by simp [h]); rw [hfo] at this; cases this
      | some c => rw [e]; exact hp.fown k c hfo
    · rw [if_neg e]
      cases h : (crun cfg rkeys fkeys sched (cinit s)).st.files n k with
      | none => rfl
      | some v => rw [← h]; exact hp.fnone n k (hu n k (Or.inr (by rw [h]; rfl))) e

/-- the same for the configuration generated from the working tree (`CHUNKSIZE`, `truncAtChunk0`) -/
theorem C14_converges_concurrent_repo (owner fowner : K → N) (sum : Content → Nat)
    (hs : SumOK (repoCfg owner fowner sum)) : ConvergesConc (repoCfg owner fowner sum) :=
  C14_converges_concurrent _ hs (by show 0 < Gen.C14.chunkSize; decide) (by show Gen.C14.truncAtChunk0 = true; decide)

/-- "Every program runs to completion" is not an empty hypothesis.  (1) The concurrent program never
blocks: in ANY state, a started node whose `Sync` has not returned has a thread that can take a step
— a call that cannot be executed returns an error, nothing waits.  (2) In every state of every
schedule from a reachable state the invariant `CInv` holds, in particular no started node has
failed after its start (`NodeInv`: `failed n = false` at every control point after `boot`) — so the
only way for a run to end is every node at `done`. -/
theorem C14_concurrent_never_blocks (cfg : Cfg N K) (rkeys fkeys : List K) (c : CSt N K) (n : N)
    (hun : cfg.up n = true) (hf : finished c n = false) :
    ∃ t, (cstepT cfg rkeys fkeys t c).isSome = true :=
  cstep_progress cfg rkeys fkeys c n hun hf

/-- The concurrent program terminates under EVERY schedule, from ANY state: the number of effective
steps of a schedule (`csteps`) is at most the measure `totalW` of the state it starts in (a natural
number: per node, what its `Sync` still has to do), for any list `ups` that contains the nodes the
schedule names.  No invariant is needed.  With `C14_concurrent_never_blocks`: every run can be
continued until no thread can take a step, that takes at most `totalW` steps, and then every
started node's `Sync` has returned — the hypothesis of `C14_converges_concurrent`
(`C14_converges_concurrent_maximal`). -/
theorem C14_concurrent_terminates (cfg : Cfg N K) (rkeys fkeys : List K) (ups : List N) (sched : List (Tid N))
    (hin : ∀ t ∈ sched, t.node ∈ ups) (c : CSt N K) :
    csteps cfg rkeys fkeys sched c ≤ totalW cfg rkeys fkeys ups c := by
  have := csteps_le (cfg := cfg) (rkeys := rkeys) (fkeys := fkeys) ups sched hin c
  omega

/-- `C14_converges_concurrent` for MAXIMAL runs: if at the end of the schedule no thread of any node
can take a step, then every started node's `Sync` returned nil and everything is `Placed`. -/
theorem C14_converges_concurrent_maximal (cfg : Cfg N K) (hs : SumOK cfg) (hcs : 0 < cfg.cs) (htr : cfg.trunc0 = true)
    (ro fo : K → Option Content) (nodes : List N) (rkeys fkeys : List K) (s0 s : St N K) (sched : List (Tid N))
    (hne : ∀ k c, fo k = some c → c ≠ []) (hfd : ∀ k, (fo k).isSome → cfg.up (cfg.fowner k) = true)
    (hcov : Covers cfg ro fo nodes rkeys fkeys) (hnd : fkeys.Nodup)
    (h0 : Init cfg ro fo s0) (hr : Reachable cfg s0 s)
    (hmax : ∀ t, cstepT cfg rkeys fkeys t (crun cfg rkeys fkeys sched (cinit s)) = none) :
    Placed cfg ro fo (crun cfg rkeys fkeys sched (cinit s)).st ∧
      ∀ n, cfg.up n = true → ((crun cfg rkeys fkeys sched (cinit s)).pc n).isDone = true ∧
        (crun cfg rkeys fkeys sched (cinit s)).st.failed n = false := by
  apply C14_converges_concurrent cfg hs hcs htr ro fo nodes rkeys fkeys s0 s sched hne hfd hcov hnd h0 hr
  intro n hun
  cases hf : finished (crun cfg rkeys fkeys sched (cinit s)) n with
  | true => rfl
  | false =>
    obtain ⟨t, ht⟩ := cstep_progress cfg rkeys fkeys _ n hun hf
    rw [hmax t] at ht
    cases ht

/-- `messages` (the list `C14_chunks` is about) is what the CONCURRENT program sends: under the hypotheses
of `C14_converges_concurrent`, for every schedule that lets every `Sync` return and every shard `k`
that a started node `n` holds (content `c`) without being its owner, the `(ChunkIndex, ChunkData)`
pairs of node `n`'s `RPCSendShard` calls for `k` along the schedule (`cmsgs`: read off the steps of
`n`'s goroutines, wherever the other threads' steps fall in between) are exactly `messages cs c` —
also when an earlier attempt was interrupted in the middle of that file (it starts over at chunk 0). -/
theorem C14_concurrent_sends_messages (cfg : Cfg N K) (hs : SumOK cfg) (hcs : 0 < cfg.cs) (htr : cfg.trunc0 = true)
    (ro fo : K → Option Content) (nodes : List N) (rkeys fkeys : List K) (s0 s : St N K) (sched : List (Tid N))
    (hne : ∀ k c, fo k = some c → c ≠ []) (hfd : ∀ k, (fo k).isSome → cfg.up (cfg.fowner k) = true)
    (hcov : Covers cfg ro fo nodes rkeys fkeys) (hnd : fkeys.Nodup)
    (h0 : Init cfg ro fo s0) (hr : Reachable cfg s0 s)
    (hfin : ∀ n, cfg.up n = true → finished (crun cfg rkeys fkeys sched (cinit s)) n = true)
    (n : N) (k : K) (c : Content) (hun : cfg.up n = true) (hno : n ≠ cfg.fowner k) (hc : s.files n k = some c) :
    cmsgs cfg rkeys fkeys n k sched (cinit s) = messages cfg.cs c := by
  have hok : RoundOK cfg ro fo nodes rkeys fkeys := ⟨⟨hs, hcs, htr, hne, hfd⟩, hcov, hnd⟩
  rw [cmsgs_spec hok n k sched (cinit s) (cinv_init (inv_reachable hs h0.inv hr)) hfin]
  unfold remaining
  rw [if_pos ⟨hun, hno⟩]
  show (match s.files n k with
    | none => []
    | some cnt => if Pc.isBoot (Pc.boot : Pc N K) = true then messages cfg.cs cnt else _) = _
  rw [hc]
  rfl

/-- non-vacuity: shard 3 = `[4,5,6]` of node 1 in `cSched` (its chunks alternate with those of shards 2 and
4 of node 0; an earlier attempt had left `[4,5]` at the owner) -/
example : cmsgs cCfg cRkeys cFkeys 1 3 cSched (cinit cS1) = [(0, [4, 5]), (1, [6]), (2, [])] := by decide
example : cmsgs cCfg cRkeys cFkeys 1 3 cSched (cinit cS1) = messages 2 [4, 5, 6] :=
  C14_concurrent_sends_messages cCfg cSumOK (by decide) rfl cRo cFo [0, 1, 2] cRkeys cFkeys cS0 cS1 cSched
    (by decide) (by decide) cCovers (by decide) cInit cReach cFinished 1 3 [4, 5, 6] rfl (by decide) (by decide)

/-- After the synchronisation "all previously stored points remain readable through any node": a
read that arrives at ANY started node `m` is routed to the routing owner of the key and answered
from what the owner stores (`readRec` / `readFile`); after a concurrent round (hypotheses of
`C14_converges_concurrent`) it returns the original of every record and every shard file. -/
theorem C14_readable_through_any_node (cfg : Cfg N K) (hs : SumOK cfg) (hcs : 0 < cfg.cs) (htr : cfg.trunc0 = true)
    (ro fo : K → Option Content) (nodes : List N) (rkeys fkeys : List K) (s0 s : St N K) (sched : List (Tid N))
    (hne : ∀ k c, fo k = some c → c ≠ []) (hfd : ∀ k, (fo k).isSome → cfg.up (cfg.fowner k) = true)
    (hcov : Covers cfg ro fo nodes rkeys fkeys) (hnd : fkeys.Nodup)
    (h0 : Init cfg ro fo s0) (hr : Reachable cfg s0 s)
    (hfin : ∀ n, cfg.up n = true → finished (crun cfg rkeys fkeys sched (cinit s)) n = true)
    (m : N) (hm : cfg.up m = true) :
    (∀ k, (ro k).isSome → readRec cfg (crun cfg rkeys fkeys sched (cinit s)).st m k = ro k) ∧
    (∀ k, (fo k).isSome → readFile cfg (crun cfg rkeys fkeys sched (cinit s)).st m k = fo k) := by
  obtain ⟨⟨pr, pf⟩, _⟩ := C14_converges_concurrent cfg hs hcs htr ro fo nodes rkeys fkeys s0 s sched hne hfd hcov hnd h0 hr hfin
  constructor
  · intro k hk
    have huo : cfg.up (cfg.owner k) = true := hcov.up _ (hcov.dst k hk)
    simp only [readRec, hm, huo, and_self, if_true]
    split
    · rename_i e; rw [pr m k, if_pos e.symm]
    · rw [pr (cfg.owner k) k, if_pos rfl]
  · intro k hk
    have huo : cfg.up (cfg.fowner k) = true := hfd k hk
    simp only [readFile, hm, huo, and_self, if_true]
    split
    · rename_i e; rw [pf m k, if_pos e.symm]
    · rw [pf (cfg.fowner k) k, if_pos rfl]

/-- the same after a sequential round (`C14_converges`) -/
theorem C14_readable_after_round (cfg : Cfg N K) (hs : SumOK cfg) (hcs : 0 < cfg.cs) (htr : cfg.trunc0 = true)
    (ro fo : K → Option Content) (nodes : List N) (rkeys fkeys : List K) (order : List N) (s0 s : St N K)
    (hne : ∀ k c, fo k = some c → c ≠ []) (hfd : ∀ k, (fo k).isSome → cfg.up (cfg.fowner k) = true)
    (hcov : Covers cfg ro fo nodes rkeys fkeys) (h0 : Init cfg ro fo s0) (hr : Reachable cfg s0 s)
    (hord : ∀ n ∈ order, cfg.up n = true)
    (hall : ∀ n k, (s.recs n k).isSome ∨ (s.files n k).isSome → n ∈ order)
    (m : N) (hm : cfg.up m = true) :
    (∀ k, (ro k).isSome → readRec cfg (round cfg nodes rkeys fkeys order s) m k = ro k) ∧
    (∀ k, (fo k).isSome → readFile cfg (round cfg nodes rkeys fkeys order s) m k = fo k) := by
  obtain ⟨⟨pr, pf⟩, _⟩ := C14_converges cfg hs hcs htr ro fo nodes rkeys fkeys order s0 s hne hfd hcov h0 hr hord hall
  constructor
  · intro k hk
    have huo : cfg.up (cfg.owner k) = true := hcov.up _ (hcov.dst k hk)
    simp only [readRec, hm, huo, and_self, if_true]
    split
    · rename_i e; rw [pr m k, if_pos e.symm]
    · rw [pr (cfg.owner k) k, if_pos rfl]
  · intro k hk
    have huo : cfg.up (cfg.fowner k) = true := hfd k hk
    simp only [readFile, hm, huo, and_self, if_true]
    split
    · rename_i e; rw [pf m k, if_pos e.symm]
    · rw [pf (cfg.fowner k) k, if_pos rfl]

/-! non-vacuity (`Witness.lean`): three nodes; nodes 0 and 1 send to node 2 at the same time, node 0 runs
two goroutines in phase 2; earlier attempts left record 0 on two nodes and the left-over `[4,5]` of shard
3 at node 2.  `cSched` interleaves everything; all hypotheses hold, every `Sync` returns. -/
example : Placed cCfg cRo cFo (crun cCfg cRkeys cFkeys cSched (cinit cS1)).st :=
  (C14_converges_concurrent cCfg cSumOK (by decide) rfl cRo cFo [0, 1, 2] cRkeys cFkeys cS0 cS1 cSched
    (by decide) (by decide) cCovers (by decide) cInit cReach cFinished).1
/-- before the round: record 0 on nodes 0 and 2, the owner's file of shard 3 is the left-over `[4,5]` -/
example : cS1.recs 0 0 = some [9] ∧ cS1.recs 2 0 = some [9] ∧ cS1.files 2 3 = some [4, 5] ∧ cS1.files 1 3 = some [4, 5, 6] ∧
    cS1.failed 0 = true ∧ cS1.failed 1 = true := by decide
/-- in the middle of `cSched` three transfers are in flight at once — two of them into node 2 -/
example :
    let c := crun cCfg cRkeys cFkeys (cSched.take 19) (cinit cS1)
    c.st.fph 0 2 = .sending 1 ∧ c.st.fph 1 3 = .sending 2 ∧ c.st.fph 0 4 = .sending 1 ∧
      c.st.files 2 2 = some [1, 2] ∧ c.st.files 2 3 = some [4, 5, 6] ∧ c.st.files 1 4 = some [7] := by decide
/-- reads: before the round a read of shard 3 through node 0 returns the left-over, afterwards the original -/
example : readFile cCfg cS1 0 3 = some [4, 5] := by decide
example : readFile cCfg (crun cCfg cRkeys cFkeys cSched (cinit cS1)).st 0 3 = some [4, 5, 6] :=
  (C14_readable_through_any_node cCfg cSumOK (by decide) rfl cRo cFo [0, 1, 2] cRkeys cFkeys cS0 cS1 cSched
    (by decide) (by decide) cCovers (by decide) cInit cReach cFinished 0 rfl).2 3 rfl
/-- a node whose `Sync` has not returned can always take a step -/
example : ∃ t, (cstepT cCfg cRkeys cFkeys t (crun cCfg cRkeys cFkeys (cSched.take 19) (cinit cS1))).isSome = true :=
  C14_concurrent_never_blocks cCfg cRkeys cFkeys _ 0 rfl (by decide)

/-- `cSched` has 28 effective steps (three of its entries name threads that have nothing to do); the
measure of the start state bounds the effective steps of every schedule over these nodes, and at the
end of `cSched` nothing can move any more -/
example : csteps cCfg cRkeys cFkeys cSched (cinit cS1) = 28 ∧ totalW cCfg cRkeys cFkeys [0, 1, 2] (cinit cS1) = 90 := by
  decide
example : csteps cCfg cRkeys cFkeys cSched (cinit cS1) ≤ totalW cCfg cRkeys cFkeys [0, 1, 2] (cinit cS1) :=
  C14_concurrent_terminates cCfg cRkeys cFkeys [0, 1, 2] cSched (by decide) (cinit cS1)

/-! facts of the source the model relies on (T2), re-checked against the working tree on every run -/
example : Gen.C14.truncEveryChunk = false := by decide
example : Gen.C14.openFlagsAlways = ["O_APPEND", "O_CREATE", "O_WRONLY"] := by decide
example : Gen.C14.mkdirOnlyAtChunk0 = true := by decide
example : Gen.C14.checksumCond = "len(args.ChunkData) == 0 && args.ChunkIndex > 0" := by decide
example : Gen.C14.sendOrder = ["send-chunk", "check-bytes-written", "local-checksum", "compare-checksum", "remove-source"] := by decide
example : Gen.C14.recOrder = ["send-records", "compare-count", "delete-local"] := by decide
example : Gen.C14.deleteRange = "req.KeyValues" := by decide
/-- the receiver of phase 1 stores every pair of the request unconditionally (label `rsend` overwrites
whatever the destination holds) and counts exactly the pairs it stored -/
example : Gen.C14.recvRange = "args.KeyValues" := by decide
example : Gen.C14.recvLoop = ["put-or-return", "count"] := by decide
example : Gen.C14.recvPut = "[]byte(key),value" := by decide
example : Gen.C14.recvReply = "reply.Count=count" := by decide
example : Gen.C14.shardRouteKey = "shardId := filepath.Base(filepath.Dir(path))" := by decide
example : Gen.C14.userRouteKey = "userId := strings.Split(string(k),DBDELIMITER)[0]" := by decide
example : Gen.C14.phaseOrder = ["syncUserCollections", "syncShards"] := by decide

/-! ## histories over several server lists

The list changes any number of times (also back to an earlier list), rounds are interrupted and left
incomplete, nodes are switched off with what their disks hold and come back later, and between the
rounds the cluster serves: records and shard files change (`wrec` / `wfile`: shard id appended,
points inserted, collection deleted and created again).  Copies on different nodes may then DIFFER;
the original is the content as last written at the routing owner (`w.ro` / `w.fo`).
`WReach` admits exactly the changes of the list that are `Safe` (an out-of-date copy on a node that
is started sits at the new owner; the current content is on a started node) and client writes
while no started node other than the owner holds the key (`QuietR` / `QuietF`, which
`C14_epochs_converges` establishes after every failure-free round). -/

/-- In EVERY world of EVERY history the current version of every record and of every shard file
exists byte-identical on a started node, and every copy on a started node other than the routing
owner is the current version (an older copy can only sit at the owner or on a switched-off node). -/
theorem C14_epochs_no_loss (w0 w : World N K) (hs : SumOK w0.cfg) (h0 : WInit w0) (hr : WReach w0 w) :
    (∀ k v, w.ro k = some v → ∃ n, w.cfg.up n = true ∧ w.st.recs n k = some v) ∧
    (∀ k c, w.fo k = some c → ∃ n, w.cfg.up n = true ∧ w.st.files n k = some c) ∧
    (∀ n k v, w.cfg.up n = true → n ≠ w.cfg.owner k → w.st.recs n k = some v → w.ro k = some v) ∧
    (∀ n k c, w.cfg.up n = true → n ≠ w.cfg.fowner k → w.st.files n k = some c → w.fo k = some c) :=
  let i := (winv_reach hs h0 hr).1
  ⟨i.r2, i.f2, i.r1, i.f1⟩

/-- In every world of every history: whenever the local delete of a record / the removal of a shard
directory is enabled, the owner is another node and holds the CURRENT record / file — not merely
some copy with the same key. -/
theorem C14_epochs_remove_only_after_confirm (w0 w : World N K) (hs : SumOK w0.cfg) (h0 : WInit w0)
    (hr : WReach w0 w) :
    (∀ src batch, enabled w.cfg w.st (.rdelete src batch) = true → ∀ k ∈ batch,
        src ≠ w.cfg.owner k ∧ (w.ro k).isSome ∧ w.st.recs (w.cfg.owner k) k = w.ro k) ∧
    (∀ src k, enabled w.cfg w.st (.fremove src k) = true →
        src ≠ w.cfg.fowner k ∧ (w.fo k).isSome ∧ w.st.files (w.cfg.fowner k) k = w.fo k ∧
        w.st.files src k = w.fo k) :=
  remove_only_after_confirm (winv_reach hs h0 hr).1

/-- From every world of every history one failure-free round (every started node that holds
something runs `Sync`, any order) leaves the current version of every record and shard file at its
routing owner, byte-identical, and on no other started node; no `Sync` fails; client writes are
enabled again and the result continues the history.
Hypotheses on the first world: `SumOK`, chunk size > 0, truncating receiver, non-empty shard files;
on the world: the lists cover what exists, the owners run. -/
theorem C14_epochs_converges (w0 w : World N K) (hs : SumOK w0.cfg) (hcs : 0 < w0.cfg.cs)
    (htr : w0.cfg.trunc0 = true) (hne : ∀ k c, w0.fo k = some c → c ≠ []) (h0 : WInit w0) (hr : WReach w0 w)
    (nodes : List N) (rkeys fkeys : List K) (order : List N)
    (hcov : Covers w.cfg w.ro w.fo nodes rkeys fkeys)
    (hfd : ∀ k, (w.fo k).isSome → w.cfg.up (w.cfg.fowner k) = true)
    (hord : ∀ n ∈ order, w.cfg.up n = true)
    (hall : ∀ n k, w.cfg.up n = true → (w.st.recs n k).isSome ∨ (w.st.files n k).isSome → n ∈ order) :
    let w' : World N K := { w with st := round w.cfg nodes rkeys fkeys order w.st }
    PlacedW w.cfg w.ro w.fo w'.st ∧ (∀ n ∈ order, w'.st.failed n = false) ∧
      (∀ k, w.cfg.up (w.cfg.owner k) = true → QuietR w' k) ∧
      (∀ k, w.cfg.up (w.cfg.fowner k) = true → QuietF w' k) ∧ WReach w0 w' := by
  obtain ⟨i, c1, c2, c3⟩ := winv_reach hs h0 hr
  have hg : Good w.cfg w.fo :=
    ⟨sumOK_congr c3 hs, by rw [c1]; exact hcs, by rw [c2]; exact htr, wreach_nonempty hne hr, hfd⟩
  obtain ⟨p, q, _⟩ := round_placed hg hcov w.st i order hord hall
  obtain ⟨r1, _⟩ := round_spec hg hcov w.st i order w.st hord .init
  exact ⟨p, q, fun k hk => ⟨hk, fun n hn hno => p.rnone n k hn hno⟩,
    fun k hk => ⟨hk, fun n hn hno => p.fnone n k hn hno⟩, wreach_sync hr r1⟩

/-- The same for CONCURRENT rounds: from every world of every history, for EVERY schedule of the started
nodes' `Sync` programs and their goroutines (`crun`): if every started node's `Sync` has returned at
the end of the schedule, none failed, the current version of every record and shard file is at its
routing owner, byte-identical, and on no other started node; client writes are enabled again and the
result continues the history.  Hypotheses as for `C14_epochs_converges` (in particular the list changes
of the history are `Safe`, which includes `Safe.fc`: at most one started non-owner holds a given shard
— with two such holders the chunks of two concurrent senders interleave in the owner's file, see the
example below), plus `fkeys.Nodup`. -/
theorem C14_epochs_converges_concurrent (w0 w : World N K) (hs : SumOK w0.cfg) (hcs : 0 < w0.cfg.cs)
    (htr : w0.cfg.trunc0 = true) (hne : ∀ k c, w0.fo k = some c → c ≠ []) (h0 : WInit w0) (hr : WReach w0 w)
    (nodes : List N) (rkeys fkeys : List K) (sched : List (Tid N))
    (hcov : Covers w.cfg w.ro w.fo nodes rkeys fkeys) (hnd : fkeys.Nodup)
    (hfd : ∀ k, (w.fo k).isSome → w.cfg.up (w.cfg.fowner k) = true)
    (hfin : ∀ n, w.cfg.up n = true → finished (crun w.cfg rkeys fkeys sched (cinit w.st)) n = true) :
    let w' : World N K := { w with st := (crun w.cfg rkeys fkeys sched (cinit w.st)).st }
    PlacedW w.cfg w.ro w.fo w'.st ∧ (∀ n, w.cfg.up n = true → w'.st.failed n = false) ∧
      (∀ k, w.cfg.up (w.cfg.owner k) = true → QuietR w' k) ∧
      (∀ k, w.cfg.up (w.cfg.fowner k) = true → QuietF w' k) ∧ WReach w0 w' := by
  obtain ⟨i, c1, c2, c3⟩ := winv_reach hs h0 hr
  have hg : Good w.cfg w.fo :=
    ⟨sumOK_congr c3 hs, by rw [c1]; exact hcs, by rw [c2]; exact htr, wreach_nonempty hne hr, hfd⟩
  obtain ⟨hc, hreach⟩ := cinv_run ⟨hg, hcov, hnd⟩ w.st sched (cinit w.st) (cinv_init i) .init
  obtain ⟨hdone, p⟩ := cinv_finished hc hfin
  exact ⟨p, fun n hn => (hdone n hn).2, fun k hk => ⟨hk, fun n hn hno => p.rnone n k hn hno⟩,
    fun k hk => ⟨hk, fun n hn hno => p.fnone n k hn hno⟩, wreach_sync hr hreach⟩

/-- Which changes of the list are `Safe`: in every world of every history it suffices that running
nodes keep running, that a node which comes back holds out-of-date copies only of keys the new
routing assigns to it (it received them under the same list before the change was rolled back:
rendezvous hashing gives the same owner for the same list), that the owner does not change where a
running owner holds an out-of-date copy, and that at most one started non-owner holds a shard. -/
theorem C14_epochs_safe_change (w0 w : World N K) (hs : SumOK w0.cfg) (h0 : WInit w0) (hr : WReach w0 w)
    (o f : K → N) (u : N → Bool)
    (hstay : ∀ n, w.cfg.up n = true → u n = true)
    (hbackR : ∀ n k v, u n = true → w.cfg.up n = false → w.st.recs n k = some v → w.ro k ≠ some v → n = o k)
    (hownR : ∀ k v, u (w.cfg.owner k) = true → w.st.recs (w.cfg.owner k) k = some v → w.ro k ≠ some v →
      o k = w.cfg.owner k)
    (hbackF : ∀ n k c, u n = true → w.cfg.up n = false → w.st.files n k = some c → w.fo k ≠ some c → n = f k)
    (hownF : ∀ k c, u (w.cfg.fowner k) = true → w.st.files (w.cfg.fowner k) k = some c → w.fo k ≠ some c →
      f k = w.cfg.fowner k)
    (hfc : ∀ n n' k, u n = true → u n' = true → n ≠ f k → n' ≠ f k →
      (w.st.files n k).isSome → (w.st.files n' k).isSome → n = n') :
    Safe w o f u ∧ WReach w0 (wstep (.reconf o f u) w) :=
  have hsafe := safe_of_winv (winv_reach hs h0 hr).1 o f u hstay hbackR hownR hbackF hownF hfc
  ⟨hsafe, .reconf o f u hr hsafe⟩

/-- non-vacuity of `C14_epochs_safe_change`: applying the grown list again in the history of
`Witness.lean` — node 2 comes back with the older copy of record 0, which the grown list assigns to it -/
example : Safe (eW 7) (fun _ => 2) (fun _ => 0) (fun _ => true) :=
  (C14_epochs_safe_change eW0 (eW 7) eSumOK eInit eReach7
    (fun _ => 2) (fun _ => 0) (fun _ => true) (fun _ _ => rfl)
    (fun n k v _ hd _ _ => by
      have : ∀ n : eN, (eW 7).cfg.up n = false → n = 2 := by decide
      exact this n hd)
    (fun k v _ hv hne => by
      have : ∀ k : eK, (eW 7).st.recs ((eW 7).cfg.owner k) k = (eW 7).ro k := by decide
      rw [this k] at hv
      exact absurd hv hne)
    (fun n k c _ hd hc _ => by
      have h2 : ∀ n : eN, (eW 7).cfg.up n = false → n = 2 := by decide
      have hn : ∀ k : eK, (eW 7).st.files 2 k = none := by decide
      rw [h2 n hd, hn k] at hc
      cases hc)
    (fun _ _ _ _ _ => rfl)
    (by decide)).1

/-- non-vacuity: the history of `Witness.lean` (grow, sender killed between send and delete, rolled back
with the new node switched off, the record changes, grow again) is a history in the sense of
`WReach`, the older copy `[1]` is still on node 2 when the list grows again … -/
example : WReach eW0 (eW 8) := eReach
example : (eW 8).st.recs 2 0 = some [1] ∧ (eW 8).st.recs 0 0 = some [1, 9] ∧ (eW 8).ro 0 = some [1, 9] := by decide
/-- … and the round puts the CURRENT record at node 2 (the receiver overwrites what it holds) -/
example : (round (eW 8).cfg [0, 1, 2] [0] [1] [2, 0, 1] (eW 8).st).recs 2 0 = some [1, 9] :=
  (C14_epochs_converges eW0 (eW 8) eSumOK (by decide) rfl (by decide) eInit eReach [0, 1, 2] [0] [1] [2, 0, 1]
    eCovers (by decide) (by decide) (by decide)).1.rown 0 [1, 9] (by decide)
example : (round (eW 8).cfg [0, 1, 2] [0] [1] [2, 0, 1] (eW 8).st).recs 0 0 = none := by decide
/-- The hypothesis `Safe` of a list change cannot be dropped — this is how `Sync` is written, not a
defect of one line: if node 2 is started with its older copy while node 0 (which holds the current
record) is the owner, node 2 ships `[1]` as if it were current and the record `[1,9]` is gone. -/
example : safeB (eW 7) (fun _ => 0) (fun _ => 0) (fun _ => true) [0, 1, 2] [0] [1] = false := by decide
example : (round eWbad.cfg [0, 1, 2] [0] [1] [2, 0, 1] eWbad.st).recs 0 0 = some [1] ∧
    (round eWbad.cfg [0, 1, 2] [0] [1] [2, 0, 1] eWbad.st).recs 2 0 = none ∧ eWbad.ro 0 = some [1, 9] := by decide

/-- non-vacuity of `C14_epochs_converges_concurrent`: the history of `Witness.lean` (older copy `[1]` of
record 0 on node 2, current `[1,9]` on node 0, owner node 2), all three nodes synchronising at once -/
example : (crun (eW 8).cfg [0] [1] eSched (cinit (eW 8).st)).st.recs 2 0 = some [1, 9] :=
  (C14_epochs_converges_concurrent eW0 (eW 8) eSumOK (by decide) rfl (by decide) eInit eReach [0, 1, 2] [0] [1] eSched
    eCovers (by decide) (by decide) eFinished).1.rown 0 [1, 9] (by decide)

/-- `Safe.fc` cannot be dropped for concurrent rounds: two started non-owners (nodes 0 and 1) hold the
same shard `[1,2,3]` (chunk size 2; possible only when the list changes AGAIN before an interrupted
move was completed — outside the property's quantifier).  Sequentially both transfers succeed
(`C14_converges` does not need the restriction on such a state); when their chunks interleave in the
owner's file both checksum comparisons fail, both `Sync`s return an error and nothing has moved — no
loss, but no convergence under that schedule either. -/
example : (crun dCfg [] [0] dSchedSeq (cinit dS)).st.files 2 0 = some [1, 2, 3] ∧
    (crun dCfg [] [0] dSchedSeq (cinit dS)).st.files 0 0 = none ∧ (crun dCfg [] [0] dSchedSeq (cinit dS)).st.files 1 0 = none ∧
    (crun dCfg [] [0] dSchedSeq (cinit dS)).st.failed 0 = false ∧ (crun dCfg [] [0] dSchedSeq (cinit dS)).st.failed 1 = false := by
  decide
example : (crun dCfg [] [0] dSchedMix (cinit dS)).st.files 2 0 = some [1, 2, 3, 3] ∧
    (crun dCfg [] [0] dSchedMix (cinit dS)).st.failed 0 = true ∧ (crun dCfg [] [0] dSchedMix (cinit dS)).st.failed 1 = true ∧
    (crun dCfg [] [0] dSchedMix (cinit dS)).st.files 0 0 = some [1, 2, 3] ∧
    (crun dCfg [] [0] dSchedMix (cinit dS)).st.files 1 0 = some [1, 2, 3] := by
  decide

/-! ## the pinned receiver (no truncation): convergence is false -/

/-- Pinned receiver: once ANY non-empty left-over `j` sits at the owner's path (a transfer interrupted
at chunk ≥ 1, or a transfer whose source removal was interrupted), every later start-up of the
sender fails ("checksum mismatch"), for ever: after `r+1` restarts the sender has failed, still holds
the file, and the left-over has grown to `|j| + (r+1)·|c|` symbols. -/
theorem C14_pinned_stuck (cfg : Cfg N K) (hs : SumOK cfg) (htr : cfg.trunc0 = false) (hcs : 0 < cfg.cs)
    (n : N) (k : K) (c j : Content) (hne : n ≠ cfg.fowner k) (hus : cfg.up n = true)
    (huo : cfg.up (cfg.fowner k) = true) (hc : c ≠ []) (hj : j ≠ []) (s : St N K)
    (hf : s.files n k = some c) (hd : s.files (cfg.fowner k) k = some j) (r : Nat) :
    (retries cfg n k (r + 1) s).failed n = true ∧ (retries cfg n k (r + 1) s).files n k = some c ∧
    ∃ j', j' ≠ [] ∧ j'.length = j.length + (r + 1) * c.length ∧
      (retries cfg n k (r + 1) s).files (cfg.fowner k) k = some j' :=
  retries_pinned cfg hs htr hcs n k c hne hus huo hc r j s hj hf hd

/-- after the interruption the owner holds the partial file `[1,2]`; with the pinned receiver the
retry appends `[1,2,3]` to it, the sender's `Sync` fails and the shard stays where it was -/
example : (wS1 false).files 1 7 = some [1, 2] ∧ (wS1 false).files 0 7 = some [1, 2, 3] := by decide
example : (round (wCfg false) [0, 1] [5] [7] [0, 1] (wS1 false)).files 1 7 = some [1, 2, 1, 2, 3] := by decide
example : (round (wCfg false) [0, 1] [5] [7] [0, 1] (wS1 false)).failed 0 = true := by decide
/-- … whereas the repaired receiver starts over and the round converges -/
example : (round (wCfg true) [0, 1] [5] [7] [0, 1] (wS1 true)).files 1 7 = some [1, 2, 3] ∧
    (round (wCfg true) [0, 1] [5] [7] [0, 1] (wS1 true)).files 0 7 = none ∧
    (round (wCfg true) [0, 1] [5] [7] [0, 1] (wS1 true)).recs 1 5 = some [9] ∧
    (round (wCfg true) [0, 1] [5] [7] [0, 1] (wS1 true)).failed 0 = false := by decide

/-- On the PINNED code `C14_converges` is false: same hypotheses, `trunc0 = false`. -/
theorem C14_converges_pinned_false :
    ∃ cfg : Cfg Nat Nat, SumOK cfg ∧ 0 < cfg.cs ∧ cfg.trunc0 = false ∧ ¬ Converges cfg := by
  refine ⟨wCfg false, wSumOK false, by decide, rfl, ?_⟩
  intro h
  have := (h wRo wFo [0, 1] [5] [7] [0, 1] wS0 (wS1 false)
    wNonempty (fun _ _ => rfl)
    (wCovers false) (wInit false) (wReach false) (fun _ _ => rfl) (wHolders false)).2 0 (by simp)
  have hf : (round (wCfg false) [0, 1] [5] [7] [0, 1] (wS1 false)).failed 0 = true := by decide
  rw [hf] at this
  cases this

/-- non-vacuity of `C14_converges` / `C14_no_loss`: the same scenario satisfies every hypothesis with
the repaired receiver -/
example : Placed (wCfg true) wRo wFo (round (wCfg true) [0, 1] [5] [7] [0, 1] (wS1 true)) :=
  (C14_converges (wCfg true) (wSumOK true) (by decide) rfl wRo wFo [0, 1] [5] [7] [0, 1] wS0 (wS1 true)
    wNonempty (fun _ _ => rfl)
    (wCovers true) (wInit true) (wReach true) (fun _ _ => rfl) (wHolders true)).1
example : ∃ n, (wS1 false).files n 7 = some [1, 2, 3] :=
  (C14_no_loss (wCfg false) (wSumOK false) wRo wFo wS0 (wS1 false) (wInit false) (wReach false)).2.1 7 _ (by decide) |>.imp fun _ h => h.2

/-! ## outside the property: the server list changes AGAIN before an interrupted move was completed

`C14_no_loss` fixes the routing function for the whole run.  If the list changes between an
interrupted round and the round that should complete it, the left-over at the former destination is
a non-owner copy that is NOT complete; it is shipped like a shard and, arriving last, replaces the
good copy (repaired receiver) or is appended to it (pinned receiver).  Either way the file is lost.
Stated as an assumption of the check ("the server list does not change between an interrupted
round and the round that completes it"); shown here on the model. -/
def w2Cfg (own : Nat) (trunc : Bool) : Cfg Nat Nat := { wCfg trunc with owner := fun _ => own, fowner := fun _ => own }
/-- owner 1, transfer 0 → 1 interrupted at chunk 1; then the owner becomes 2 and nodes 0, 1 run `Sync` -/
def w2S (trunc : Bool) : St Nat Nat :=
  let s1 := syncNode (w2Cfg 1 trunc) { failAt := some (7, 1) } [0, 1, 2] [5] [7] 0 wS0
  let s2 := syncNode (w2Cfg 2 trunc) noFault [0, 1, 2] [5] [7] 0 s1
  syncNode (w2Cfg 2 trunc) noFault [0, 1, 2] [5] [7] 1 s2
example : (w2S true).files 2 7 = some [1, 2] ∧ (w2S true).files 0 7 = none ∧ (w2S true).files 1 7 = none := by decide
example : (w2S false).files 2 7 = some [1, 2, 3, 1, 2] ∧ (w2S false).files 0 7 = none ∧
    (w2S false).files 1 7 = some [1, 2] ∧ (w2S false).failed 1 = true := by decide

/-- An EMPTY shard file can never be moved (index-0 empty chunk → no checksum in the reply →
mismatch), repaired receiver or not.  Not reachable through the shard manager: a bbolt file is never
empty; hence the hypothesis `c ≠ []` of `Converges`. -/
theorem C14_empty_file_never_moves (cfg : Cfg N K) (hs : SumOK cfg) (n : N) (k : K) (hne : n ≠ cfg.fowner k)
    (hus : cfg.up n = true) (huo : cfg.up (cfg.fowner k) = true)
    (s : St N K) (hf : s.files n k = some []) :
    (retry cfg n k s).failed n = true ∧ (retry cfg n k s).files n k = some [] := by
  unfold retry syncFile
  have e0 : step cfg (.restart n) s = clearVolatile s n false := by simp [step, enabled, apply]
  rw [e0]
  rw [if_neg (by simp [clearVolatile]; exact fun e => hne e.symm)]
  have hf' : (clearVolatile s n false).files n k = some [] := hf
  rw [hf']
  simp only
  rw [if_neg (by simp [noFault, huo])]
  have hch : chunks cfg.cs [] = [] := by simp [chunks, chunksFuel]
  rw [hch]
  simp only [List.length_nil, sendFrom]
  rw [if_neg (by simp [noFault])]
  rw [step_ffinal_empty_eq cfg hs _ n k hf' (by simp [clearVolatile, progress]) hne hus huo]
  unfold step
  rw [show enabled cfg _ (.fremove n k) = false from by simp [enabled, clearVolatile]]
  simp only [Bool.false_eq_true, if_false]
  refine ⟨by simp [clearVolatile], ?_⟩
  simp only [clearVolatile, upd]
  rw [if_neg (by rintro ⟨e, _⟩; exact hne e)]
  exact hf

end Sema.C14
