/- C14: the concurrent program terminates under EVERY schedule.  A natural-number measure (`totalW`: per
   node, what its `Sync` still has to do) strictly decreases with every effective step of any thread,
   in any state whatsoever (no invariant needed: a call that cannot be executed makes the node fail,
   and a failed node weighs nothing).  Together with `cstep_progress` (a node whose `Sync` has not
   returned can take a step): every maximal run is finite and ends with every started node's
   `Sync` returned — the hypothesis of `C14_converges_concurrent`. -/
import SemaModel.C14.Msgs
namespace Sema.C14

variable {N K : Type} [DecidableEq N] [DecidableEq K]

/-! ### sums -/

theorem sum_map_le {α : Type} (l : List α) (f g : α → Nat) (h : ∀ x ∈ l, f x ≤ g x) :
    (l.map f).sum ≤ (l.map g).sum := by
  induction l with
  | nil => simp
  | cons a t ih =>
    simp only [List.map_cons, List.sum_cons]
    have := h a List.mem_cons_self
    have := ih (fun x hx => h x (List.mem_cons_of_mem _ hx))
    omega

theorem sum_map_lt {α : Type} (l : List α) (f g : α → Nat) (h : ∀ x ∈ l, f x ≤ g x) (a : α) (ha : a ∈ l)
    (hlt : f a < g a) : (l.map f).sum < (l.map g).sum := by
  induction l with
  | nil => cases ha
  | cons b t ih =>
    simp only [List.map_cons, List.sum_cons]
    have hb := h b List.mem_cons_self
    have ht := sum_map_le t f g (fun x hx => h x (List.mem_cons_of_mem _ hx))
    rcases List.mem_cons.mp ha with e | e
    · subst e; omega
    · have := ih (fun x hx => h x (List.mem_cons_of_mem _ hx)) e
      omega

theorem sum_filter_le {α : Type} (l : List α) (p : α → Bool) (f : α → Nat) :
    ((l.filter p).map f).sum ≤ (l.map f).sum := by
  induction l with
  | nil => simp
  | cons a t ih =>
    simp only [List.filter_cons]
    split <;> simp only [List.map_cons, List.sum_cons] <;> omega

theorem sum_map_const {α : Type} (l : List α) (f : α → Nat) (b : Nat) (h : ∀ x ∈ l, f x ≤ b) :
    (l.map f).sum ≤ l.length * b := by
  induction l with
  | nil => simp
  | cons a t ih =>
    simp only [List.map_cons, List.sum_cons, List.length_cons]
    have := h a List.mem_cons_self
    have := ih (fun x hx => h x (List.mem_cons_of_mem _ hx))
    rw [Nat.succ_mul]
    omega

/-! ### the measure -/

def rrank : RStage → Nat
  | .send => 2
  | .delete => 1
  | .done => 0

/-- what is left of the transfer of shard `k` from node `n` -/
def fweight (cfg : Cfg N K) (s : St N K) (n : N) (k : K) : Nat :=
  if n = cfg.fowner k then 0 else
  match s.files n k with
  | none => 0
  | some c => if s.fph n k = .confirmed then 1 else (chunks cfg.cs c).length + 2 - prog (s.fph n k)

def fmax (cfg : Cfg N K) (s : St N K) (n : N) (k : K) : Nat :=
  if n = cfg.fowner k then 0 else
  match s.files n k with
  | none => 0
  | some c => (chunks cfg.cs c).length + 2

/-- a bound for phase 2 that is known before the walk -/
def fB (cfg : Cfg N K) (fkeys : List K) (s : St N K) (n : N) : Nat :=
  fkeys.length * (fkeys.map fun k => 1 + fmax cfg s n k).sum

def p1W (dests : List N) (stage : N → RStage) : Nat := (dests.map fun d => rrank (stage d)).sum

def p2W (cfg : Cfg N K) (s : St N K) (n : N) (dests : List N) (todo : N → List K) : Nat :=
  (dests.map fun d => ((todo d).map fun k => 1 + fweight cfg s n k).sum).sum

def pcW (cfg : Cfg N K) (rkeys fkeys : List K) (s : St N K) (n : N) : Pc N K → Nat
  | .boot => 6 + 2 * rkeys.length + fB cfg fkeys s n
  | .snap1 => 5 + 2 * rkeys.length + fB cfg fkeys s n
  | .phase1 dests _ stage => 4 + p1W dests stage + fB cfg fkeys s n
  | .snap2 => 3 + fB cfg fkeys s n
  | .phase2 dests todo => 2 + p2W cfg s n dests todo
  | .done => 0

def Pc.isBoot : Pc N K → Bool
  | .boot => true
  | _ => false

/-- what node `n`'s `Sync` still has to do; nothing once it has failed -/
def nodeW (cfg : Cfg N K) (rkeys fkeys : List K) (c : CSt N K) (n : N) : Nat :=
  if c.st.failed n = true ∧ (c.pc n).isBoot = false then 0 else pcW cfg rkeys fkeys c.st n (c.pc n)

def totalW (cfg : Cfg N K) (rkeys fkeys : List K) (ups : List N) (c : CSt N K) : Nat :=
  (ups.map (nodeW cfg rkeys fkeys c)).sum

def Tid.node : Tid N → N
  | .main n => n
  | .go n _ => n

/-- the number of effective steps of a schedule -/
def csteps (cfg : Cfg N K) (rkeys fkeys : List K) : List (Tid N) → CSt N K → Nat
  | [], _ => 0
  | t :: ts, c =>
      match cstepT cfg rkeys fkeys t c with
      | none => csteps cfg rkeys fkeys ts c
      | some c' => 1 + csteps cfg rkeys fkeys ts c'

/-! ### what a step of another node leaves alone (no invariant needed) -/

theorem step_other_weak (cfg : Cfg N K) (l : Label N K) (s : St N K) (m : N) (ha : actor l ≠ m) :
    (step cfg l s).failed m = s.failed m ∧ (∀ k, (step cfg l s).fph m k = s.fph m k) ∧
    (∀ k, m ≠ cfg.fowner k → (step cfg l s).files m k = s.files m k) := by
  refine ⟨step_failed_other cfg l s m (fun e => ha e.symm), ?_, ?_⟩
  · intro k
    unfold step
    split
    · cases l with
      | rsend _ _ _ _ => rfl
      | rdelete _ _ => rfl
      | fchunk src k' cor =>
        simp only [apply]
        split
        · simp only [upd]; rw [if_neg (by rintro ⟨e, _⟩; exact ha e.symm)]
        · rfl
      | ffinal src k' =>
        simp only [apply]
        split
        · split
          · simp only [upd]; rw [if_neg (by rintro ⟨e, _⟩; exact ha e.symm)]
          · simp only [clearVolatile]; rw [if_neg (fun e => ha e.symm)]
        · rfl
      | fremove src k' => simp only [apply, upd]; rw [if_neg (by rintro ⟨e, _⟩; exact ha e.symm)]
      | fail n => simp only [apply, clearVolatile]; rw [if_neg (fun e => ha e.symm)]
      | restart n => simp only [apply, clearVolatile]; rw [if_neg (fun e => ha e.symm)]
    · rfl
  · intro k hk
    have hu : ∀ (k' : K) (w : Option Content), upd s.files (cfg.fowner k') k' w m k = s.files m k := by
      intro k' w
      simp only [upd]
      rw [if_neg]
      rintro ⟨e1, e2⟩; subst e2; exact hk e1
    unfold step
    split
    · cases l with
      | rsend _ _ _ _ => rfl
      | rdelete _ _ => rfl
      | fchunk src k' cor =>
        simp only [apply]
        split
        · simp only [hu]
        · rfl
      | ffinal src k' =>
        simp only [apply]
        split
        · split
          · simp only [hu]
          · simp only [clear_files, hu]
        · rfl
      | fremove src k' => simp only [apply, upd]; rw [if_neg (by rintro ⟨e, _⟩; exact ha e.symm)]
      | fail n => rfl
      | restart n => rfl
    · rfl

omit [DecidableEq K] in
theorem fB_congr (cfg : Cfg N K) (fkeys : List K) (s s' : St N K) (m : N)
    (hfiles : ∀ k, m ≠ cfg.fowner k → s'.files m k = s.files m k) : fB cfg fkeys s' m = fB cfg fkeys s m := by
  have h1 : ∀ k, fmax cfg s' m k = fmax cfg s m k := by
    intro k; unfold fmax
    by_cases e : m = cfg.fowner k
    · rw [if_pos e, if_pos e]
    · rw [if_neg e, if_neg e, hfiles k e]
  unfold fB; simp only [h1]

omit [DecidableEq K] in
theorem fweight_congr (cfg : Cfg N K) (s s' : St N K) (m : N) (k : K)
    (hfph : s'.fph m k = s.fph m k) (hfiles : m ≠ cfg.fowner k → s'.files m k = s.files m k) :
    fweight cfg s' m k = fweight cfg s m k := by
  unfold fweight
  by_cases e : m = cfg.fowner k
  · rw [if_pos e, if_pos e]
  · rw [if_neg e, if_neg e, hfiles e, hfph]

omit [DecidableEq K] in
theorem pcW_congr (cfg : Cfg N K) (rkeys fkeys : List K) (s s' : St N K) (m : N) (p : Pc N K)
    (hfph : ∀ k, s'.fph m k = s.fph m k) (hfiles : ∀ k, m ≠ cfg.fowner k → s'.files m k = s.files m k) :
    pcW cfg rkeys fkeys s' m p = pcW cfg rkeys fkeys s m p := by
  have h2 : ∀ k, fweight cfg s' m k = fweight cfg s m k := fun k => fweight_congr cfg s s' m k (hfph k) (hfiles k)
  have hB := fB_congr cfg fkeys s s' m hfiles
  cases p with
  | boot => simp only [pcW, hB]
  | snap1 => simp only [pcW, hB]
  | phase1 a b c => simp only [pcW, hB]
  | snap2 => simp only [pcW, hB]
  | phase2 dests todo => simp only [pcW, p2W, h2]
  | done => rfl

omit [DecidableEq K] in
theorem fweight_le_fmax (cfg : Cfg N K) (s : St N K) (n : N) (k : K) : fweight cfg s n k ≤ fmax cfg s n k := by
  unfold fweight fmax
  split
  · exact Nat.le_refl _
  · split
    · exact Nat.le_refl _
    · split <;> omega

/-! ### the shape of a step -/

theorem actor_fnext (cfg : Cfg N K) (s : St N K) (n : N) (k : K) : actor (fnext cfg s n k) = n := by
  unfold fnext
  split
  · rfl
  · split
    · rfl
    · split <;> rfl

theorem act_cases (cfg : Cfg N K) (n : N) (l : Label N K) (s : St N K) (hl : actor l = n) :
    ∃ l', actor l' = n ∧ act cfg n l s = step cfg l' s := by
  unfold act
  split
  · exact ⟨l, hl, rfl⟩
  · exact ⟨.fail n, rfl, rfl⟩

/-- a call either makes the node fail or is executed -/
theorem act_failed_or (cfg : Cfg N K) (n : N) (l : Label N K) (s : St N K) :
    (act cfg n l s).failed n = true ∨ (enabled cfg s l = true ∧ act cfg n l s = apply cfg s l) := by
  unfold act
  split
  · rename_i h; right; exact ⟨h, by unfold step; rw [if_pos h]⟩
  · left; simp [step, enabled, apply, clearVolatile]

/-- what a step changes: the control state of the acting node only, and the cluster state by a label of
the acting node (or not at all) -/
theorem cstep_shape {cfg : Cfg N K} {rkeys fkeys : List K} {t : Tid N} {c c' : CSt N K}
    (ht : cstepT cfg rkeys fkeys t c = some c') :
    (∃ p, c'.pc = setPc c.pc t.node p) ∧ (c'.st = c.st ∨ ∃ l, actor l = t.node ∧ c'.st = step cfg l c.st) := by
  cases t with
  | main n =>
    simp only [cstepT, mainStep] at ht
    split at ht
    · cases ht
    · split at ht
      · cases ht; exact ⟨⟨_, rfl⟩, Or.inr ⟨.restart n, rfl, rfl⟩⟩
      · split at ht
        · cases ht
        · cases ht; exact ⟨⟨_, rfl⟩, Or.inl rfl⟩
      · split at ht
        · cases ht
        · split at ht
          · cases ht; exact ⟨⟨_, rfl⟩, Or.inl rfl⟩
          · cases ht
      · split at ht
        · cases ht
        · cases ht; exact ⟨⟨_, rfl⟩, Or.inl rfl⟩
      · split at ht
        · cases ht
        · split at ht
          · cases ht; exact ⟨⟨_, rfl⟩, Or.inl rfl⟩
          · cases ht
      · cases ht
  | go n d =>
    simp only [cstepT, goStep] at ht
    split at ht
    · cases ht
    · split at ht
      · split at ht
        · split at ht
          · cases ht; exact ⟨⟨_, rfl⟩, Or.inr (act_cases cfg n _ c.st rfl)⟩
          · cases ht; exact ⟨⟨_, rfl⟩, Or.inr (act_cases cfg n _ c.st rfl)⟩
          · cases ht
        · cases ht
      · split at ht
        · split at ht
          · cases ht
          · cases ht; exact ⟨⟨_, rfl⟩, Or.inr (act_cases cfg n _ c.st (actor_fnext cfg c.st n _))⟩
        · cases ht
      · cases ht

/-- the weight of every other node is unchanged -/
theorem nodeW_other {cfg : Cfg N K} {rkeys fkeys : List K} {t : Tid N} {c c' : CSt N K}
    (ht : cstepT cfg rkeys fkeys t c = some c') (m : N) (hm : m ≠ t.node) :
    nodeW cfg rkeys fkeys c' m = nodeW cfg rkeys fkeys c m := by
  obtain ⟨⟨p, hp⟩, hst⟩ := cstep_shape ht
  have hpc : c'.pc m = c.pc m := by rw [hp]; simp [setPc, hm]
  unfold nodeW
  rw [hpc]
  rcases hst with e | ⟨l, hl, e⟩
  · rw [e]
  · obtain ⟨h1, h2, h3⟩ := step_other_weak cfg l c.st m (by rw [hl]; exact fun e' => hm e'.symm)
    rw [e, h1, pcW_congr cfg rkeys fkeys c.st _ m _ h2 h3]

/-! ### the weight of the acting node decreases -/

theorem nodeW_setPc (cfg : Cfg N K) (rkeys fkeys : List K) (s' : St N K) (pc : N → Pc N K) (n : N) (p : Pc N K) :
    nodeW cfg rkeys fkeys ⟨s', setPc pc n p⟩ n =
      if s'.failed n = true ∧ p.isBoot = false then 0 else pcW cfg rkeys fkeys s' n p := by
  simp [nodeW, setPc]

theorem nodeW_of_ok (cfg : Cfg N K) (rkeys fkeys : List K) (c : CSt N K) (n : N) (hf : c.st.failed n = false) :
    nodeW cfg rkeys fkeys c n = pcW cfg rkeys fkeys c.st n (c.pc n) := by
  simp [nodeW, hf]

theorem p1W_lt (dests : List N) (stage : N → RStage) (d : N) (r : RStage) (hd : d ∈ dests)
    (hr : rrank r < rrank (stage d)) :
    p1W dests (fun x => if x = d then r else stage x) < p1W dests stage := by
  unfold p1W
  apply sum_map_lt dests _ _ ?_ d hd
  · simp only [↓reduceIte]; exact hr
  · intro x _
    by_cases e : x = d
    · subst e; simp only [↓reduceIte]; omega
    · simp only [if_neg e]; exact Nat.le_refl _

theorem p1W_init_le (cfg : Cfg N K) (rkeys : List K) (n : N) (s : St N K) :
    p1W (rdests cfg rkeys n s) (fun _ => RStage.send) ≤ 2 * rkeys.length := by
  unfold p1W
  have h := sum_map_const (rdests cfg rkeys n s) (fun d => rrank ((fun _ : N => RStage.send) d)) 2 (fun _ _ => Nat.le_refl _)
  have hl : (rdests cfg rkeys n s).length ≤ rkeys.length := by
    unfold rdests; rw [List.length_map]; exact List.length_filter_le _ _
  have := Nat.mul_le_mul_right 2 hl
  omega

theorem p2W_le_fB (cfg : Cfg N K) (fkeys : List K) (s : St N K) (n : N) :
    p2W cfg s n (fdests cfg fkeys n s) (fun d => ftodo cfg fkeys n d s) ≤ fB cfg fkeys s n := by
  unfold p2W fB
  have hin : ∀ d ∈ fdests cfg fkeys n s,
      ((ftodo cfg fkeys n d s).map fun k => 1 + fweight cfg s n k).sum ≤ (fkeys.map fun k => 1 + fmax cfg s n k).sum := by
    intro d _
    unfold ftodo
    refine Nat.le_trans (sum_filter_le fkeys _ _) (sum_map_le fkeys _ _ ?_)
    intro k _
    have := fweight_le_fmax cfg s n k
    omega
  have h := sum_map_const (fdests cfg fkeys n s) _ _ hin
  have hl : (fdests cfg fkeys n s).length ≤ fkeys.length := by
    unfold fdests; rw [List.length_map]; exact List.length_filter_le _ _
  exact Nat.le_trans h (Nat.mul_le_mul_right _ hl)

theorem act_rsend_files (cfg : Cfg N K) (n d : N) (b : List K) (ok : Bool) (s : St N K) :
    (act cfg n (.rsend n d b ok) s).files = s.files := by
  unfold act step
  split
  · rfl
  · split <;> rfl

theorem act_rdelete_files (cfg : Cfg N K) (n : N) (b : List K) (s : St N K) :
    (act cfg n (.rdelete n b) s).files = s.files := by
  unfold act step
  split
  · rfl
  · split <;> rfl

theorem p2W_step (cfg : Cfg N K) (s : St N K) (n d : N) (dests : List N) (todo : N → List K) (k : K) (rest : List K)
    (hd : d ∈ dests) (htodo : todo d = k :: rest)
    (hnf : (act cfg n (fnext cfg s n k) s).failed n = false) :
    p2W cfg (act cfg n (fnext cfg s n k) s) n dests
      (fun x => if x = d then (if s.fph n k = .confirmed then rest else k :: rest) else todo x)
      < p2W cfg s n dests todo := by
  by_cases hph : s.fph n k = .confirmed
  · -- the directory is removed, the goroutine goes on to its next shard
    have hfn : fnext cfg s n k = .fremove n k := by simp [fnext, hph]
    rw [hfn] at hnf ⊢
    rcases act_failed_or cfg n (.fremove n k) s with hf | ⟨_, hs'⟩
    · rw [hf] at hnf; cases hnf
    · rw [hs']
      have hfw : ∀ k', fweight cfg (apply cfg s (.fremove n k)) n k' ≤ fweight cfg s n k' := by
        intro k'
        by_cases e : k' = k
        · subst e
          unfold fweight
          split
          · exact Nat.le_refl _
          · simp [apply, upd]
        · apply Nat.le_of_eq
          apply fweight_congr
          · simp only [apply, upd]; rw [if_neg (by rintro ⟨_, e2⟩; exact e e2)]
          · intro _; simp only [apply, upd]; rw [if_neg (by rintro ⟨_, e2⟩; exact e e2)]
      unfold p2W
      apply sum_map_lt dests _ _ ?_ d hd
      · simp only [↓reduceIte, if_pos hph, htodo, List.map_cons, List.sum_cons]
        have := sum_map_le rest (fun k' => 1 + fweight cfg (apply cfg s (.fremove n k)) n k')
          (fun k' => 1 + fweight cfg s n k') (fun k' _ => by have := hfw k'; omega)
        omega
      · intro x _
        by_cases e : x = d
        · subst e
          simp only [↓reduceIte, if_pos hph, htodo, List.map_cons, List.sum_cons]
          have := sum_map_le rest (fun k' => 1 + fweight cfg (apply cfg s (.fremove n k)) n k')
            (fun k' => 1 + fweight cfg s n k') (fun k' _ => by have := hfw k'; omega)
          omega
        · simp only [if_neg e]
          exact sum_map_le _ _ _ (fun k' _ => by have := hfw k'; omega)
  · have htd : (fun x => if x = d then (if s.fph n k = .confirmed then rest else k :: rest) else todo x) = todo := by
      funext x
      by_cases hx : x = d
      · subst hx; rw [if_pos rfl, if_neg hph, htodo]
      · rw [if_neg hx]
    rw [htd]
    -- every weight stays, the one of `k` drops
    suffices hmain : (∀ k', fweight cfg (act cfg n (fnext cfg s n k) s) n k' ≤ fweight cfg s n k') ∧
        fweight cfg (act cfg n (fnext cfg s n k) s) n k < fweight cfg s n k by
      obtain ⟨hle, hlt⟩ := hmain
      unfold p2W
      apply sum_map_lt dests _ _ ?_ d hd
      · apply sum_map_lt (todo d) _ _ ?_ k (by rw [htodo]; exact List.mem_cons_self)
        · omega
        · intro k' _; have := hle k'; omega
      · intro x _
        exact sum_map_le _ _ _ (fun k' _ => by have := hle k'; omega)
    cases hf : s.files n k with
    | none =>
      have hfn : fnext cfg s n k = .fail n := by simp [fnext, hph, hf]
      rw [hfn] at hnf
      have : (act cfg n (.fail n) s).failed n = true := by simp [act, step, enabled, apply, clearVolatile]
      rw [this] at hnf; cases hnf
    | some cnt =>
      by_cases hlt : prog (s.fph n k) < (chunks cfg.cs cnt).length
      · have hfn : fnext cfg s n k = .fchunk n k none := by simp [fnext, hph, hf, hlt]
        rw [hfn] at hnf ⊢
        rcases act_failed_or cfg n (.fchunk n k none) s with hfl | ⟨hen, hs'⟩
        · rw [hfl] at hnf; cases hnf
        · obtain ⟨c0, i, hc, hp, _, _, hne, hi⟩ := fchunk_enabled hen
          rw [hf] at hc; cases hc
          have hpi := prog_of_progress _ _ hp
          rw [hs']
          simp only [apply, hf, hp]
          constructor
          · intro k'
            by_cases e : k' = k
            · subst e
              unfold fweight
              rw [if_neg hne, if_neg hne]
              simp only [upd]
              rw [if_neg (by rintro ⟨e1, _⟩; exact hne e1), hf]
              simp only [and_self, if_true, if_neg hph]
              rw [hpi]; simp [prog]; omega
            · apply Nat.le_of_eq
              apply fweight_congr
              · simp only [upd]; rw [if_neg (by rintro ⟨_, e2⟩; exact e e2)]
              · intro _; simp only [upd]; rw [if_neg (by rintro ⟨_, e2⟩; exact e e2)]
          · unfold fweight
            rw [if_neg hne, if_neg hne]
            simp only [upd]
            rw [if_neg (by rintro ⟨e1, _⟩; exact hne e1), hf]
            simp only [and_self, if_true, if_neg hph]
            rw [hpi]; simp [prog]; omega
      · have hfn : fnext cfg s n k = .ffinal n k := by simp [fnext, hph, hf, hlt]
        rw [hfn] at hnf ⊢
        rcases act_failed_or cfg n (.ffinal n k) s with hfl | ⟨hen, hs'⟩
        · rw [hfl] at hnf; cases hnf
        · obtain ⟨c0, i, hc, hp, _, _, hne, hi⟩ := ffinal_enabled hen
          rw [hf] at hc; cases hc
          have hpi := prog_of_progress _ _ hp
          rw [hs'] at hnf ⊢
          simp only [apply, hf, hp] at hnf ⊢
          split at hnf
          · rename_i hsum
            rw [if_pos hsum]
            constructor
            · intro k'
              by_cases e : k' = k
              · subst e
                unfold fweight
                rw [if_neg hne, if_neg hne]
                simp only [upd]
                rw [if_neg (by rintro ⟨e1, _⟩; exact hne e1), hf]
                simp only [and_self, if_true, if_neg hph]
                omega
              · apply Nat.le_of_eq
                apply fweight_congr
                · simp only [upd]; rw [if_neg (by rintro ⟨_, e2⟩; exact e e2)]
                · intro _; simp only [upd]; rw [if_neg (by rintro ⟨_, e2⟩; exact e e2)]
            · unfold fweight
              rw [if_neg hne, if_neg hne]
              simp only [upd]
              rw [if_neg (by rintro ⟨e1, _⟩; exact hne e1), hf]
              simp only [and_self, if_true, if_neg hph]
              omega
          · simp [clearVolatile] at hnf

/-- every effective step strictly decreases the weight of the node that takes it -/
theorem nodeW_self {cfg : Cfg N K} {rkeys fkeys : List K} {t : Tid N} {c c' : CSt N K}
    (ht : cstepT cfg rkeys fkeys t c = some c') :
    nodeW cfg rkeys fkeys c' t.node < nodeW cfg rkeys fkeys c t.node := by
  cases t with
  | main n =>
    simp only [cstepT, mainStep] at ht
    simp only [Tid.node]
    split at ht
    · cases ht
    · split at ht
      · -- boot
        rename_i heq
        cases ht
        have hB : fB cfg fkeys (step cfg (.restart n) c.st) n = fB cfg fkeys c.st n :=
          fB_congr cfg fkeys _ _ n (fun _ _ => by simp [step, enabled, apply, clearVolatile])
        have hf : (step cfg (.restart n) c.st).failed n = false := by simp [step, enabled, apply, clearVolatile]
        rw [nodeW_setPc, if_neg (by rw [hf]; simp)]
        simp only [nodeW, heq, Pc.isBoot, pcW, hB]
        simp
      · rename_i heq
        split at ht
        · cases ht
        · rename_i hnf
          have hnf : c.st.failed n = false := by simpa using hnf
          cases ht
          rw [nodeW_setPc, if_neg (by rw [hnf]; simp), nodeW_of_ok _ _ _ _ _ hnf, heq]
          simp only [pcW]
          have := p1W_init_le cfg rkeys n c.st
          omega
      · rename_i dests batch stage heq
        split at ht
        · cases ht
        · rename_i hnf
          have hnf : c.st.failed n = false := by simpa using hnf
          split at ht
          · cases ht
            rw [nodeW_setPc, if_neg (by rw [hnf]; simp), nodeW_of_ok _ _ _ _ _ hnf, heq]
            simp only [pcW]
            omega
          · cases ht
      · rename_i heq
        split at ht
        · cases ht
        · rename_i hnf
          have hnf : c.st.failed n = false := by simpa using hnf
          cases ht
          rw [nodeW_setPc, if_neg (by rw [hnf]; simp), nodeW_of_ok _ _ _ _ _ hnf, heq]
          simp only [pcW]
          have := p2W_le_fB cfg fkeys c.st n
          omega
      · rename_i dests todo heq
        split at ht
        · cases ht
        · rename_i hnf
          have hnf : c.st.failed n = false := by simpa using hnf
          split at ht
          · cases ht
            rw [nodeW_setPc, if_neg (by rw [hnf]; simp), nodeW_of_ok _ _ _ _ _ hnf, heq]
            simp only [pcW]
            omega
          · cases ht
      · cases ht
  | go n d =>
    simp only [cstepT, goStep] at ht
    simp only [Tid.node]
    split at ht
    · cases ht
    · rename_i hcond
      have hnf : c.st.failed n = false := by
        cases hf : c.st.failed n with
        | false => rfl
        | true => exact absurd (Or.inr hf) hcond
      split at ht
      · rename_i dests batch stage heq
        split at ht
        · rename_i hd
          split at ht
          · rename_i hst
            cases ht
            rw [nodeW_setPc, nodeW_of_ok _ _ _ _ _ hnf, heq]
            split
            · simp only [pcW]; omega
            · simp only [pcW]
              have hB : fB cfg fkeys (act cfg n (.rsend n d (batch d) true) c.st) n = fB cfg fkeys c.st n :=
                fB_congr cfg fkeys _ _ n (fun _ _ => by rw [act_rsend_files])
              have := p1W_lt dests stage d .delete hd (by rw [hst]; decide)
              omega
          · rename_i hst
            cases ht
            rw [nodeW_setPc, nodeW_of_ok _ _ _ _ _ hnf, heq]
            split
            · simp only [pcW]; omega
            · simp only [pcW]
              have hB : fB cfg fkeys (act cfg n (.rdelete n (batch d)) c.st) n = fB cfg fkeys c.st n :=
                fB_congr cfg fkeys _ _ n (fun _ _ => by rw [act_rdelete_files])
              have := p1W_lt dests stage d .done hd (by rw [hst]; decide)
              omega
          · cases ht
        · cases ht
      · rename_i dests todo heq
        split at ht
        · rename_i hd
          split at ht
          · cases ht
          · rename_i k rest htodo
            cases ht
            rw [nodeW_setPc, nodeW_of_ok _ _ _ _ _ hnf, heq]
            by_cases hf' : (act cfg n (fnext cfg c.st n k) c.st).failed n = true
            · rw [if_pos ⟨hf', rfl⟩]; simp only [pcW]; omega
            · rw [if_neg (fun h => hf' h.1)]
              simp only [pcW]
              have hnf'' : (act cfg n (fnext cfg c.st n k) c.st).failed n = false := by simpa using hf'
              have := p2W_step cfg c.st n d dests todo k rest hd htodo hnf''
              omega
        · cases ht
      · cases ht

theorem totalW_step {cfg : Cfg N K} {rkeys fkeys : List K} {t : Tid N} {c c' : CSt N K} (ups : List N)
    (ht : cstepT cfg rkeys fkeys t c = some c') (hin : t.node ∈ ups) :
    totalW cfg rkeys fkeys ups c' < totalW cfg rkeys fkeys ups c := by
  unfold totalW
  apply sum_map_lt ups _ _ ?_ t.node hin (nodeW_self ht)
  intro m _
  by_cases e : m = t.node
  · rw [e]; exact Nat.le_of_lt (nodeW_self ht)
  · exact Nat.le_of_eq (nodeW_other ht m e)

/-- the number of effective steps of ANY schedule is bounded by the measure of the state it starts in -/
theorem csteps_le {cfg : Cfg N K} {rkeys fkeys : List K} (ups : List N) (sched : List (Tid N))
    (hin : ∀ t ∈ sched, t.node ∈ ups) :
    ∀ c : CSt N K, csteps cfg rkeys fkeys sched c + totalW cfg rkeys fkeys ups (crun cfg rkeys fkeys sched c)
      ≤ totalW cfg rkeys fkeys ups c := by
  induction sched with
  | nil => intro c; simp [csteps, crun]
  | cons t ts ih =>
    intro c
    have ih' := ih (fun t' h' => hin t' (List.mem_cons_of_mem _ h'))
    simp only [csteps, crun, List.foldl_cons]
    cases hst : cstepT cfg rkeys fkeys t c with
    | none => exact ih' c
    | some c' =>
      have h1 := totalW_step ups hst (hin t List.mem_cons_self)
      have h2 := ih' c'
      simp only [crun] at h2
      simp only [Option.getD_some]
      omega

end Sema.C14
