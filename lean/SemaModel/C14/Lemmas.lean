/- helper lemmas for C14: the read loop (`chunks`) and the receiver's append loop -/
import SemaModel.C14.Model
namespace Sema.C14

/-! ### chunks -/

theorem chunksFuel_flatten (cs : Nat) (hcs : 0 < cs) :
    ∀ (f : Nat) (c : Content), c.length ≤ f → (chunksFuel cs f c).flatten = c := by
  intro f
  induction f with
  | zero => intro c h; have : c = [] := List.eq_nil_of_length_eq_zero (by omega); subst this; simp [chunksFuel]
  | succ f ih =>
    intro c h
    unfold chunksFuel
    by_cases hc : c.isEmpty
    · simp [hc]; simpa using hc
    · simp only [hc, Bool.false_eq_true, if_false, List.flatten_cons]
      have hpos : 0 < c.length := by
        cases c with
        | nil => simp at hc
        | cons a t => simp
      rw [ih (c.drop cs) (by simp [List.length_drop]; omega)]
      exact List.take_append_drop cs c

theorem chunks_flatten (cs : Nat) (hcs : 0 < cs) (c : Content) : (chunks cs c).flatten = c :=
  chunksFuel_flatten cs hcs _ c (Nat.le_refl _)

theorem chunksFuel_length (cs : Nat) (hcs : 0 < cs) :
    ∀ (f : Nat) (c : Content), c.length ≤ f → (chunksFuel cs f c).length = (c.length + cs - 1) / cs := by
  intro f
  induction f with
  | zero =>
    intro c h
    have : c = [] := List.eq_nil_of_length_eq_zero (by omega)
    subst this
    simp [chunksFuel]
    exact (Nat.div_eq_of_lt (by omega)).symm
  | succ f ih =>
    intro c h
    unfold chunksFuel
    by_cases hc : c.isEmpty
    · have : c = [] := by simpa using hc
      subst this
      simp
      exact (Nat.div_eq_of_lt (by omega)).symm
    · simp only [hc, Bool.false_eq_true, if_false, List.length_cons]
      have hpos : 0 < c.length := by
        cases c with
        | nil => simp at hc
        | cons a t => simp
      rw [ih (c.drop cs) (by simp [List.length_drop]; omega)]
      simp only [List.length_drop]
      by_cases hle : cs ≤ c.length
      · have : c.length + cs - 1 = (c.length - cs + cs - 1) + cs := by omega
        rw [this, Nat.add_div_right _ hcs]
      · have h1 : (c.length - cs + cs - 1) / cs = 0 := Nat.div_eq_of_lt (by omega)
        have h2 : (c.length + cs - 1) / cs = 1 := by
          have : c.length + cs - 1 = (c.length - 1) + cs := by omega
          rw [this, Nat.add_div_right _ hcs, Nat.div_eq_of_lt (by omega)]
        rw [h1, h2]

theorem chunks_length (cs : Nat) (hcs : 0 < cs) (c : Content) :
    (chunks cs c).length = (c.length + cs - 1) / cs := chunksFuel_length cs hcs _ c (Nat.le_refl _)

theorem chunks_length_pos (cs : Nat) (c : Content) : 0 < (chunks cs c).length ↔ c ≠ [] := by
  unfold chunks
  cases c with
  | nil => simp [chunksFuel]
  | cons a t => simp [chunksFuel]

/-- every data chunk is non-empty and at most `cs` long -/
theorem chunksFuel_mem (cs : Nat) (hcs : 0 < cs) :
    ∀ (f : Nat) (c : Content) (ch : Content), ch ∈ chunksFuel cs f c → ch ≠ [] ∧ ch.length ≤ cs := by
  intro f
  induction f with
  | zero => intro c ch h; simp [chunksFuel] at h
  | succ f ih =>
    intro c ch h
    unfold chunksFuel at h
    by_cases hc : c.isEmpty
    · simp [hc] at h
    · simp only [hc, Bool.false_eq_true, if_false, List.mem_cons] at h
      rcases h with h | h
      · subst h
        constructor
        · cases c with
          | nil => simp at hc
          | cons a t => cases cs with
            | zero => omega
            | succ m => simp
        · simp [List.length_take]; omega
      · exact ih _ _ h

/-- every data chunk but the last is exactly `cs` long -/
theorem chunksFuel_full (cs : Nat) :
    ∀ (f : Nat) (c : Content) (i : Nat), i + 1 < (chunksFuel cs f c).length →
      ((chunksFuel cs f c).getD i []).length = cs := by
  intro f
  induction f with
  | zero => intro c i h; simp [chunksFuel] at h
  | succ f ih =>
    intro c i h
    unfold chunksFuel at h ⊢
    by_cases hc : c.isEmpty
    · simp [hc] at h
    · simp only [hc, Bool.false_eq_true, if_false] at h ⊢
      cases i with
      | zero =>
        simp only [List.getD_cons_zero, List.length_take]
        -- the rest is non-empty, so `c` is longer than `cs`
        have hrest : 0 < (chunksFuel cs f (c.drop cs)).length := by simp at h; omega
        have : c.drop cs ≠ [] := by
          intro e; rw [e] at hrest
          cases f <;> simp [chunksFuel] at hrest
        have : 0 < (c.drop cs).length := List.length_pos_iff.mpr this
        simp [List.length_drop] at this
        omega
      | succ j =>
        simp only [List.getD_cons_succ]
        exact ih _ _ (by simp at h; omega)

end Sema.C14
